//! Placement of byte strings at a chosen address modulo the page size, in an
//! mmap'ed area bracketed by PROT_NONE guard pages.

pub const PAGE: usize = 4096;

pub struct Placed {
    map: *mut u8,
    map_len: usize,
    ptr: *mut u8,
    len: usize,
}

impl Placed {
    /// Copy `bytes` so that its first byte sits at an address congruent to
    /// `addr_mod` modulo 4096; the page before the first data page and the
    /// page after the last one are PROT_NONE.
    pub fn new(bytes: &[u8], addr_mod: usize) -> Placed {
        let off = addr_mod % PAGE;
        let data_pages = (off + bytes.len() + PAGE - 1) / PAGE;
        let data_pages = data_pages.max(1);
        let map_len = (data_pages + 2) * PAGE;
        unsafe {
            let map = libc::mmap(
                core::ptr::null_mut(),
                map_len,
                libc::PROT_NONE,
                libc::MAP_PRIVATE | libc::MAP_ANONYMOUS,
                -1,
                0,
            );
            assert!(map != libc::MAP_FAILED, "mmap failed");
            let map = map as *mut u8;
            let data = map.add(PAGE);
            let rc = libc::mprotect(
                data as *mut libc::c_void,
                data_pages * PAGE,
                libc::PROT_READ | libc::PROT_WRITE,
            );
            assert_eq!(rc, 0, "mprotect failed");
            let ptr = data.add(off);
            core::ptr::copy_nonoverlapping(bytes.as_ptr(), ptr, bytes.len());
            Placed { map, map_len, ptr, len: bytes.len() }
        }
    }

    pub fn slice(&self) -> &[u8] {
        unsafe { core::slice::from_raw_parts(self.ptr, self.len) }
    }

    pub fn ptr(&self) -> *const u8 {
        self.ptr
    }
}

impl Drop for Placed {
    fn drop(&mut self) {
        unsafe {
            libc::munmap(self.map as *mut libc::c_void, self.map_len);
        }
    }
}
