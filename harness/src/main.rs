//! Executor side of the correspondence check: reads one operation per line on
//! stdin (the same lines the Lean driver reads), runs the *real* memchr code
//! in-process and prints one canonical answer per line.
//!
//! Every haystack / needle is placed in its own mmap'ed area bracketed by
//! PROT_NONE guard pages at the requested address modulo 4096, so an
//! out-of-bounds read of a slice that abuts a guard page kills the process
//! with SIGSEGV; the caller then knows the offending op (the first line
//! without an answer).

mod ops;
mod ops2;
mod ops3;
mod ops4;
mod ops5;
mod conc;
mod place;
mod util;

use std::io::{BufRead, Write};

/// Counting allocator (C17): counts allocations made by the current thread
/// while `ARMED` is set.
pub mod alloc_probe {
    use std::alloc::{GlobalAlloc, Layout, System};
    use std::cell::Cell;

    thread_local! {
        pub static ARMED: Cell<bool> = const { Cell::new(false) };
        pub static COUNT: Cell<u64> = const { Cell::new(0) };
    }

    pub struct Counting;

    unsafe impl GlobalAlloc for Counting {
        unsafe fn alloc(&self, l: Layout) -> *mut u8 {
            let _ = ARMED.try_with(|a| {
                if a.get() {
                    let _ = COUNT.try_with(|c| c.set(c.get() + 1));
                }
            });
            System.alloc(l)
        }
        unsafe fn dealloc(&self, p: *mut u8, l: Layout) {
            System.dealloc(p, l)
        }
        unsafe fn realloc(&self, p: *mut u8, l: Layout, n: usize) -> *mut u8 {
            let _ = ARMED.try_with(|a| {
                if a.get() {
                    let _ = COUNT.try_with(|c| c.set(c.get() + 1));
                }
            });
            System.realloc(p, l, n)
        }
    }

    /// Run `f` with the probe armed; returns its result and the number of
    /// allocations it made on this thread.
    pub fn measure<T>(f: impl FnOnce() -> T) -> (T, u64) {
        COUNT.with(|c| c.set(0));
        ARMED.with(|a| a.set(true));
        let r = f();
        ARMED.with(|a| a.set(false));
        (r, COUNT.with(|c| c.get()))
    }
}

/// `verif::reset()`, then switch the load/strategy recorder off when VERIF_NOTRACE is set
/// (the recorder allocates; allocation-probe runs must not see that).
pub fn notrace() -> bool {
    static NOTRACE: std::sync::OnceLock<bool> = std::sync::OnceLock::new();
    *NOTRACE.get_or_init(|| std::env::var_os("VERIF_NOTRACE").is_some())
}

pub fn vreset() {
    memchr::verif::reset();
    if notrace() {
        memchr::verif::set_trace(false);
    }
}

/// Run a constructor; under VERIF_NOTRACE its heap allocations are returned (to be added to
/// the op's count), otherwise 0 (the recorder itself allocates while tracing).
pub fn measured_build<T>(f: impl FnOnce() -> T) -> (T, u64) {
    if notrace() {
        vreset();
        alloc_probe::measure(f)
    } else {
        (f(), 0)
    }
}

/// Wall-clock of one measured search, made robust against scheduling noise: `first_ns` is the
/// time of the recorded run; only when it is above `100 ns * size + 10 ms` the search is
/// repeated twice (recorder off) and the minimum is reported.
pub fn robust_ns(first_ns: u64, size: usize, again: impl Fn()) -> u64 {
    let suspicious = 100u64.saturating_mul(size as u64).saturating_add(10_000_000);
    let mut best = first_ns;
    if first_ns > suspicious {
        for _ in 0..2 {
            memchr::verif::reset();
            memchr::verif::set_trace(false);
            let t = std::time::Instant::now();
            again();
            best = best.min(t.elapsed().as_nanos() as u64);
            if best <= suspicious {
                break;
            }
        }
        memchr::verif::reset();
    }
    best
}

/// Work limit for one substring-search op: 10x above the largest cost observed on the unchanged tree (the proved
/// constants are larger: they are upper bounds, this is a test threshold), far below quadratic work
/// on the adversarial families.
pub fn tick_limit(hay: usize, needle: usize) -> u64 {
    64 * (hay as u64 + needle as u64) + 2_000_000
}

#[global_allocator]
static GLOBAL: alloc_probe::Counting = alloc_probe::Counting;

fn op_timeout_secs() -> u32 {
    static T: std::sync::OnceLock<u32> = std::sync::OnceLock::new();
    *T.get_or_init(|| std::env::var("VERIF_OP_TIMEOUT").ok().and_then(|s| s.parse().ok()).unwrap_or(30))
}

fn main() {
    let args: Vec<String> = std::env::args().collect();
    if args.len() >= 2 && args[1] == "conc-child" {
        ops::conc_child(&args[2..]);
        return;
    }
    // Read the hook's MEMCHR_VERIF_FORCE setting now (it allocates a String once), so that it
    // is not attributed to the first dispatched call of an op.
    let _ = memchr::verif::forced_unavailable(memchr::verif::Isa::Avx2);
    let _ = op_timeout_secs();
    vreset();
    // Panics are results, not noise.
    std::panic::set_hook(Box::new(|_| {}));
    let stdin = std::io::stdin();
    let stdout = std::io::stdout();
    let mut out = std::io::BufWriter::new(stdout.lock());
    for line in stdin.lock().lines() {
        let line = match line {
            Ok(l) => l,
            Err(_) => break,
        };
        let line = line.trim();
        if line.is_empty() {
            continue;
        }
        // Watchdog: an op that does not answer within VERIF_OP_TIMEOUT (default 30) seconds kills the executor with
        // SIGALRM (the caller sees a crash at this op, reports it as a hang and restarts the
        // executor behind it). The slowest op of the unchanged tree takes well under a second.
        unsafe {
            libc::alarm(op_timeout_secs());
        }
        let ans = ops::run_line(line);
        unsafe {
            libc::alarm(0);
        }
        let _ = writeln!(out, "{}", ans);
        // Flush after every answer so that a crash (SIGSEGV on a guard page,
        // abort) leaves all earlier answers visible to the caller.
        let _ = out.flush();
    }
    let _ = out.flush();
}
