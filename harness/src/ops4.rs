//! Ops added after the first seeded-mutation round: aliased operands for is_equal & friends,
//! the FinderRev op machine, `i:` (complete iterator traversal) in the op machines.

use crate::{
    alloc_probe,
    ops::{naive_find, naive_rfind},
    place::Placed,
    util::{fmt_loads, fmt_opt, parse_bytes},
};
use memchr::verif;

/// `iseqalias iseq|isprefix|issuffix <base> <buf> <xoff> <xlen> <yoff> <ylen>`: both operands
/// are views of ONE buffer.
pub fn iseqalias(a: &[&str]) -> Option<String> {
    if a.len() != 7 {
        return None;
    }
    let buf = parse_bytes(a[2])?;
    let base: usize = a[1].parse().ok()?;
    let (xo, xl, yo, yl): (usize, usize, usize, usize) =
        (a[3].parse().ok()?, a[4].parse().ok()?, a[5].parse().ok()?, a[6].parse().ok()?);
    if xo + xl > buf.len() || yo + yl > buf.len() {
        return None;
    }
    let p = Placed::new(&buf, base);
    crate::vreset();
    verif::register_region(p.ptr(), buf.len());
    let x = &p.slice()[xo..xo + xl];
    let y = &p.slice()[yo..yo + yl];
    let (r, allocs) = alloc_probe::measure(|| match a[0] {
        "iseq" => Some(memchr::arch::all::is_equal(x, y)),
        "isprefix" => Some(memchr::arch::all::is_prefix(x, y)),
        "issuffix" => Some(memchr::arch::all::is_suffix(x, y)),
        _ => None,
    });
    let r = r?;
    let oracle = match a[0] {
        "iseq" => buf[xo..xo + xl] == buf[yo..yo + yl],
        "isprefix" => buf[xo..xo + xl].starts_with(&buf[yo..yo + yl]),
        _ => buf[xo..xo + xl].ends_with(&buf[yo..yo + yl]),
    };
    let rep = verif::take();
    let (loads, _) = fmt_loads(&rep.loads, 1);
    let bad = rep.bad_loads;
    let steps: u64 = rep.ticks.iter().sum();
    Some(format!(
        "ok {} steps={} loads={} oracle={} badloads={} allocs={}",
        r, steps, loads, oracle, bad, allocs
    ))
}

fn greedy_count(hay: &[u8], needle: &[u8], rev: bool) -> usize {
    if rev {
        crate::ops3::greedy_rev(hay, needle).len()
    } else {
        crate::ops3::greedy_fwd(hay, needle).len()
    }
}

/// `finderops <cfg> <pf> <needle> <ops>` / `finderrevops <cfg> <needle> <ops>`; ops
/// `,`-separated: `f:<hay>` (find / rfind) `i:<hay>` (complete find_iter / rfind_iter
/// traversal, number of matches) `r` (as_ref, continue with the copy) `o` `k` `n`.
pub fn finder_machine(a: &[&str], rev: bool) -> Option<String> {
    finder_machine_al(a, rev, None)
}

/// `finderopsal <cfg> <pf> <off> <needle> <ops>` / `finderrevopsal <cfg> <off> <needle> <ops>`:
/// the needle the finder borrows is the sub-slice at `<off>` of the first haystack of the program
/// (which must contain the needle there); every later haystack with the same bytes is that same
/// buffer.
pub fn finder_machine_alias(a: &[&str], rev: bool) -> Option<String> {
    let k = if rev { 1 } else { 2 };
    if a.len() <= k {
        return None;
    }
    let off: usize = a[k].parse().ok()?;
    let mut b: Vec<&str> = a.to_vec();
    b.remove(k);
    finder_machine_al(&b, rev, Some(off))
}

fn finder_machine_al(a: &[&str], rev: bool, alias: Option<usize>) -> Option<String> {
    let (pf, needle_s, ops_s) = if rev {
        if a.len() != 3 {
            return None;
        }
        ("auto", a[1], a[2])
    } else {
        if a.len() != 4 {
            return None;
        }
        (a[1], a[2], a[3])
    };
    let needle = parse_bytes(needle_s)?;
    let ops: Vec<&str> = if ops_s == "-" { vec![] } else { ops_s.split(',').collect() };
    let mut hays: Vec<Option<(Vec<u8>, Placed)>> = Vec::new();
    // index (into `hays`) of the buffer the needle is borrowed from
    let mut alias_at: Option<usize> = None;
    let mut same_as: Vec<Option<usize>> = Vec::new();
    for (i, o) in ops.iter().enumerate() {
        match o.strip_prefix("f:").or_else(|| o.strip_prefix("i:")) {
            Some(h) => {
                let b = parse_bytes(h)?;
                let mut same = None;
                if alias.is_some() {
                    match alias_at {
                        None => alias_at = Some(i),
                        Some(j) => {
                            if hays[j].as_ref().map(|x: &(Vec<u8>, Placed)| x.0 == b).unwrap_or(false) {
                                same = Some(j);
                            }
                        }
                    }
                }
                let p = Placed::new(&b, 65536);
                hays.push(Some((b, p)));
                same_as.push(same);
            }
            None => {
                hays.push(None);
                same_as.push(None);
            }
        }
    }
    let mut out: Vec<String> = Vec::with_capacity(ops.len() + 2);
    let mut oracle: Vec<String> = Vec::with_capacity(ops.len() + 2);
    let mut total_allocs = 0u64;
    // Every handle is 'static: the needle buffer and the finders that `as_ref` borrows from are
    // leaked (outside the measured closures).
    let (nptr, nlen): (*mut u8, usize) = match alias {
        None => {
            let nleak: &'static mut [u8] = Box::leak(needle.clone().into_boxed_slice());
            (nleak.as_mut_ptr(), nleak.len())
        }
        Some(off) => {
            let (hb, hp) = hays[alias_at?].as_ref()?;
            if off + needle.len() > hb.len() || hb[off..off + needle.len()] != needle[..] {
                return None;
            }
            (unsafe { hp.slice().as_ptr().add(off) as *mut u8 }, needle.len())
        }
    };
    let nstatic: &'static [u8] = unsafe { core::slice::from_raw_parts(nptr, nlen) };
    enum H {
        F(memchr::memmem::Finder<'static>),
        R(memchr::memmem::FinderRev<'static>),
    }
    // construction from the borrowed needle is measured too (the recorder is off: it allocates)
    crate::vreset();
    verif::set_trace(false);
    if !matches!(pf, "auto" | "none") {
        return None;
    }
    let (mut cur, build_allocs) = alloc_probe::measure(|| {
        if rev {
            H::R(memchr::memmem::FinderRev::new(nstatic))
        } else {
            use memchr::memmem::{FinderBuilder, Prefilter};
            let mut b = FinderBuilder::new();
            b.prefilter(if pf == "auto" { Prefilter::Auto } else { Prefilter::None });
            H::F(b.build_forward(nstatic))
        }
    });
    total_allocs += build_allocs;
    crate::vreset();
    verif::set_trace(false);
    let mut is_owned = false;
    crate::vreset();
    verif::set_trace(false);
    for (i, op) in ops.iter().enumerate() {
        if op.starts_with("s:") || op.starts_with("j:") {
            // a sub-slice `[hoff, hoff+hlen)` of the buffer the needle is borrowed from
            let (hb, hp) = hays[alias_at?].as_ref()?;
            let mut it = op[2..].split(':');
            let ho: usize = it.next()?.parse().ok()?;
            let hl: usize = it.next()?.parse().ok()?;
            if ho + hl > hb.len() {
                return None;
            }
            let sub = &hp.slice()[ho..ho + hl];
            let subb = &hb[ho..ho + hl];
            if op.starts_with("s:") {
                let (r, al) = alloc_probe::measure(|| match &cur {
                    H::F(f) => f.find(sub),
                    H::R(f) => f.rfind(sub),
                });
                total_allocs += al;
                out.push(fmt_opt(r));
                oracle.push(fmt_opt(if rev { naive_rfind(subb, &needle) } else { naive_find(subb, &needle) }));
            } else {
                let (k, al) = alloc_probe::measure(|| match &cur {
                    H::F(f) => f.find_iter(sub).count(),
                    H::R(f) => f.rfind_iter(sub).count(),
                });
                total_allocs += al;
                out.push(k.to_string());
                oracle.push(greedy_count(subb, &needle, rev).to_string());
            }
        } else if op.starts_with("f:") {
            let (hb, hp) = hays[same_as[i].unwrap_or(i)].as_ref().unwrap();
            let (r, al) = alloc_probe::measure(|| match &cur {
                H::F(f) => f.find(hp.slice()),
                H::R(f) => f.rfind(hp.slice()),
            });
            total_allocs += al;
            out.push(fmt_opt(r));
            oracle.push(fmt_opt(if rev { naive_rfind(hb, &needle) } else { naive_find(hb, &needle) }));
        } else if op.starts_with("i:") {
            let (hb, hp) = hays[same_as[i].unwrap_or(i)].as_ref().unwrap();
            let (k, al) = alloc_probe::measure(|| match &cur {
                H::F(f) => f.find_iter(hp.slice()).count(),
                H::R(f) => f.rfind_iter(hp.slice()).count(),
            });
            total_allocs += al;
            out.push(k.to_string());
            oracle.push(greedy_count(hb, &needle, rev).to_string());
        } else if *op == "n" {
            let (_, al) = alloc_probe::measure(|| match &cur {
                H::F(f) => f.needle().len(),
                H::R(f) => f.needle().len(),
            });
            total_allocs += al;
            let nd = match &cur {
                H::F(f) => f.needle(),
                H::R(f) => f.needle(),
            };
            out.push(crate::ops2::hex(nd));
            oracle.push(crate::ops2::hex(&needle));
        } else if *op == "k" {
            let (c2, al) = alloc_probe::measure(|| match &cur {
                H::F(f) => H::F(f.clone()),
                H::R(f) => H::R(f.clone()),
            });
            total_allocs += al;
            cur = c2;
        } else if *op == "o" {
            #[cfg(memchr_verif_noalloc)]
            {
                return None; // `into_owned` only exists with the `alloc` feature
            }
            #[cfg(not(memchr_verif_noalloc))]
            {
                let (c2, al) = alloc_probe::measure(|| match cur {
                    H::F(f) => H::F(f.into_owned()),
                    H::R(f) => H::R(f.into_owned()),
                });
                total_allocs += al;
                cur = c2;
                is_owned = true;
            }
        } else if *op == "r" {
            match cur {
                H::F(f) => {
                    let leaked: &'static memchr::memmem::Finder<'static> = Box::leak(Box::new(f));
                    let (c2, al) = alloc_probe::measure(|| leaked.as_ref());
                    total_allocs += al;
                    cur = H::F(c2);
                }
                H::R(f) => {
                    let leaked: &'static memchr::memmem::FinderRev<'static> = Box::leak(Box::new(f));
                    let (c2, al) = alloc_probe::measure(|| leaked.as_ref());
                    total_allocs += al;
                    cur = H::R(c2);
                }
            }
            is_owned = false;
        } else {
            return None;
        }
    }
    let rep = verif::take();
    let steps = rep.ticks.iter().sum::<u64>();
    // after into_owned the original needle buffer may be destroyed
    if is_owned && alias.is_none() {
        unsafe {
            for k in 0..nlen {
                *nptr.add(k) = 0xEE;
            }
        }
        if let Some(Some((hb, hp))) = hays.iter().rev().find(|h| h.is_some()) {
            let (r, want, nd) = match &cur {
                H::F(f) => (f.find(hp.slice()), naive_find(hb, &needle), f.needle()),
                H::R(f) => (f.rfind(hp.slice()), naive_rfind(hb, &needle), f.needle()),
            };
            if r != want || nd != &needle[..] {
                out.push("OWNED-NEEDLE-LOST".to_string());
                oracle.push("ok".to_string());
            }
        }
    }
    let j = |v: &Vec<String>| if v.is_empty() { "-".to_string() } else { v.join(",") };
    Some(format!("ok {} allocs={} steps={} oracle={}", j(&out), total_allocs, steps, j(&oracle)))
}
