//! More protocol operations (kept in a separate file from ops.rs).

use crate::util::parse_bytes;
use memchr::verif;

/// `prestate <skips> <skipped> <ops>` with ops = comma separated `u<k>` | `e`
pub fn prestate(a: &[&str]) -> Option<String> {
    if a.len() != 3 {
        return None;
    }
    let skips: u32 = a[0].parse().ok()?;
    let skipped: u32 = a[1].parse().ok()?;
    use memchr::memmem::verif_hooks::{prestate_run, PreOp};
    let mut ops = Vec::new();
    if a[2] != "-" {
        for t in a[2].split(',') {
            if t == "e" {
                ops.push(PreOp::IsEffective);
            } else if let Some(k) = t.strip_prefix('u') {
                ops.push(PreOp::Update(k.parse().ok()?));
            } else {
                return None;
            }
        }
    }
    let mut answers = vec![false; ops.len()];
    crate::vreset();
    let (n, s1, s2) = prestate_run(skips, skipped, &ops, &mut answers);
    let ans: String = answers[..n].iter().map(|&b| if b { '1' } else { '0' }).collect();
    let ans = if ans.is_empty() { "-".to_string() } else { ans };
    let _ = parse_bytes;
    Some(format!("ok {};{}:{} steps=0 loads=-", ans, s1, s2))
}

/// `ppreal sse2|avx2 find|pre <needle> <i1> <i2> <nbase> <search-needle> <hbase> <hay>`:
/// the public x86_64 packed-pair finders (real SSE2/AVX2 code; loads are not traced).
pub fn ppreal(a: &[&str]) -> Option<String> {
    if a.len() != 9 {
        return None;
    }
    use crate::place::Placed;
    use memchr::arch::all::packedpair::Pair;
    let needle = parse_bytes(a[2])?;
    let i1: u8 = a[3].parse().ok()?;
    let i2: u8 = a[4].parse().ok()?;
    let sneedle = parse_bytes(a[6])?;
    let hay = parse_bytes(a[8])?;
    let pn = Placed::new(&sneedle, a[5].parse().ok()?);
    let ph = Placed::new(&hay, a[7].parse().ok()?);
    crate::vreset();
    let pair = match Pair::with_indices(&needle, i1, i2) {
        None => return Some("ok badpair steps=0 loads=? minlen=0".to_string()),
        Some(p) => p,
    };
    let pre = a[1] == "pre";
    macro_rules! with_isa {
        ($module:path) => {{
            use $module as m;
            let f = m::Finder::with_pair(&needle, pair)?;
            let ml = f.min_haystack_len();
            (ml, std::panic::catch_unwind(std::panic::AssertUnwindSafe(|| {
                if pre { f.find_prefilter(ph.slice()) } else { f.find(ph.slice(), pn.slice()) }
            })))
        }};
    }
    let (minlen, r): (usize, std::thread::Result<Option<usize>>) = match a[0] {
        #[cfg(memchr_verif_emu_neon)]
        "neon" => with_isa!(memchr::arch::aarch64::neon::packedpair),
        #[cfg(memchr_verif_emu_simd128)]
        "simd128" => with_isa!(memchr::arch::wasm32::simd128::packedpair),
        #[cfg(not(any(memchr_verif_emu_neon, memchr_verif_emu_simd128, memchr_verif_emu_other)))]
        "sse2" => {
            let f = memchr::arch::x86_64::sse2::packedpair::Finder::with_pair(&needle, pair)?;
            let m = f.min_haystack_len();
            (m, std::panic::catch_unwind(std::panic::AssertUnwindSafe(|| {
                if pre { f.find_prefilter(ph.slice()) } else { f.find(ph.slice(), pn.slice()) }
            })))
        }
        #[cfg(not(any(memchr_verif_emu_neon, memchr_verif_emu_simd128, memchr_verif_emu_other)))]
        "avx2" => {
            let f = memchr::arch::x86_64::avx2::packedpair::Finder::with_pair(&needle, pair)?;
            let m = f.min_haystack_len();
            (m, std::panic::catch_unwind(std::panic::AssertUnwindSafe(|| {
                if pre { f.find_prefilter(ph.slice()) } else { f.find(ph.slice(), pn.slice()) }
            })))
        }
        _ => return None,
    };
    let rep = verif::take();
    let steps: u64 = rep.ticks.iter().sum();
    match r {
        Err(e) => {
            let msg = crate::util::panic_message(&*e);
            Some(format!("{} [{}] minlen={}", crate::util::classify_panic(&msg), msg.replace('\n', " "), minlen))
        }
        Ok(v) => {
            // a prefilter candidate must not lie behind the first occurrence and must carry the two pair bytes
            let oracle = if pre {
                crate::ops::prefilter_oracle(&hay, &needle, i1 as usize, i2 as usize, v, true)
            } else {
                crate::util::fmt_opt(crate::ops::naive_find(&hay, &sneedle))
            };
            Some(format!("ok {} steps={} loads=? oracle={} minlen={}", crate::util::fmt_opt(v), steps, oracle, minlen))
        }
    }
}

/// `pairreport <needle> <i1> <i2>`: every packed-pair finder of this build constructed with
/// `with_pair` from `Pair::with_indices(needle, i1, i2)`; the value is the pair the portable
/// finder reports, the oracle is the given pair unless some finder (portable, SIMD, or the
/// `new` constructors against `Pair::new`) reports a different one.
pub fn pairreport(a: &[&str]) -> Option<String> {
    if a.len() != 3 {
        return None;
    }
    use memchr::arch::all::packedpair::Pair;
    let needle = parse_bytes(a[0])?;
    let i1: u8 = a[1].parse().ok()?;
    let i2: u8 = a[2].parse().ok()?;
    crate::vreset();
    let pair = match Pair::with_indices(&needle, i1, i2) {
        None => return Some("ok badpair steps=0 loads=- oracle=badpair".to_string()),
        Some(p) => p,
    };
    let show = |p: &Pair| format!("{},{}", p.index1(), p.index2());
    let mut bad: Vec<String> = Vec::new();
    let fb = memchr::arch::all::packedpair::Finder::with_pair(&needle, pair)?;
    let value = show(fb.pair());
    let dflt = Pair::new(&needle).map(|p| show(&p));
    match memchr::arch::all::packedpair::Finder::new(&needle) {
        Some(f) => {
            if Some(show(f.pair())) != dflt {
                bad.push(format!("all::new={}", show(f.pair())));
            }
        }
        None => bad.push("all::new=none".to_string()),
    }
    macro_rules! isa {
        ($name:expr, $module:path) => {{
            use $module as m;
            if let Some(f) = m::Finder::with_pair(&needle, pair) {
                if (f.pair().index1(), f.pair().index2()) != (i1, i2) {
                    bad.push(format!("{}={}", $name, show(f.pair())));
                }
            }
            if let Some(f) = m::Finder::new(&needle) {
                if Some(show(f.pair())) != dflt {
                    bad.push(format!("{}::new={}", $name, show(f.pair())));
                }
            }
        }};
    }
    #[cfg(memchr_verif_emu_neon)]
    isa!("neon", memchr::arch::aarch64::neon::packedpair);
    #[cfg(memchr_verif_emu_simd128)]
    isa!("simd128", memchr::arch::wasm32::simd128::packedpair);
    #[cfg(not(any(memchr_verif_emu_neon, memchr_verif_emu_simd128, memchr_verif_emu_other)))]
    {
        isa!("sse2", memchr::arch::x86_64::sse2::packedpair);
        isa!("avx2", memchr::arch::x86_64::avx2::packedpair);
    }
    let _ = verif::take();
    let oracle = if bad.is_empty() { format!("{},{}", i1, i2) } else { format!("MISREPORT:{}", bad.join("/")) };
    Some(format!("ok {} steps=0 loads=- oracle={}", value, oracle))
}

pub fn hex(b: &[u8]) -> String {
    if b.is_empty() {
        return "-".to_string();
    }
    b.iter().map(|x| format!("{:02x}", x)).collect()
}
