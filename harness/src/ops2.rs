//! More protocol operations (kept in a separate file from ops.rs).

use crate::util::parse_bytes;
use memchr::verif;

/// `prestate <skips> <skipped> <ops>` with ops = comma separated `u<k>` | `e`
pub fn prestate(a: &[&str]) -> Option<String> {
    if a.len() != 3 {
        return None;
    }
    let skips: u32 = a[0].parse().ok()?;
    let skipped: u32 = a[1].parse().ok()?;
    use memchr::memmem::verif_hooks::{prestate_run, PreOp};
    let mut ops = Vec::new();
    if a[2] != "-" {
        for t in a[2].split(',') {
            if t == "e" {
                ops.push(PreOp::IsEffective);
            } else if let Some(k) = t.strip_prefix('u') {
                ops.push(PreOp::Update(k.parse().ok()?));
            } else {
                return None;
            }
        }
    }
    let mut answers = vec![false; ops.len()];
    verif::reset();
    let (n, s1, s2) = prestate_run(skips, skipped, &ops, &mut answers);
    let ans: String = answers[..n].iter().map(|&b| if b { '1' } else { '0' }).collect();
    let ans = if ans.is_empty() { "-".to_string() } else { ans };
    let _ = parse_bytes;
    Some(format!("ok {};{}:{} steps=0 loads=-", ans, s1, s2))
}
