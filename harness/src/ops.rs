//! One function per protocol operation. Each returns the canonical answer
//! line: `ok <value> steps=<n> loads=<trace|?> [extra k=v ...]` or
//! `fault <class> [<message>]`, or `bad-op`.

use std::panic::{catch_unwind, AssertUnwindSafe};

use crate::{
    alloc_probe,
    place::Placed,
    util::{classify_panic, fmt_loads, fmt_opt, panic_message, parse_bytes},
};
use memchr::verif;

pub fn run_line(line: &str) -> String {
    let mut it = line.split(' ');
    let op = match it.next() {
        Some(op) => op,
        None => return "bad-op".to_string(),
    };
    let args: Vec<&str> = it.collect();
    let r = catch_unwind(AssertUnwindSafe(|| dispatch(op, &args)));
    match r {
        Ok(Some(s)) => s,
        Ok(None) => "bad-op".to_string(),
        Err(e) => {
            let msg = panic_message(&*e);
            format!("{} [{}]", classify_panic(&msg), msg.replace('\n', " "))
        }
    }
}

fn dispatch(op: &str, a: &[&str]) -> Option<String> {
    match op {
        "gfind" => gfind(a),
        "gcount" => gcount(a),
        _ => None,
    }
}

fn sum_ticks(t: &[u64]) -> u64 {
    t.iter().sum()
}

/// `gfind <lanes> <needles> <unroll> fwd|rev <base> <soff> <eoff> <hay>`
fn gfind(a: &[&str]) -> Option<String> {
    if a.len() != 8 {
        return None;
    }
    let lanes: usize = a[0].parse().ok()?;
    let needles = parse_bytes(a[1])?;
    let _unroll: usize = a[2].parse().ok()?;
    let rev = match a[3] {
        "fwd" => false,
        "rev" => true,
        _ => return None,
    };
    let base: usize = a[4].parse().ok()?;
    let soff: usize = a[5].parse().ok()?;
    let eoff: usize = a[6].parse().ok()?;
    let hay = parse_bytes(a[7])?;
    if needles.is_empty() || needles.len() > 3 || soff > hay.len() || eoff > hay.len() {
        return None;
    }
    let p = Placed::new(&hay, base);
    verif::reset();
    verif::register_region(p.ptr(), hay.len());
    let (r, allocs) = alloc_probe::measure(|| unsafe {
        verif::small_find_raw(lanes, &needles, rev, p.ptr().add(soff), p.ptr().add(eoff))
    });
    let r = r?;
    let rep = verif::take();
    let (loads, bad) = fmt_loads(&rep.loads, 2);
    let val = r.map(|addr| addr - p.ptr() as usize);
    let window = if soff <= eoff { &hay[soff..eoff] } else { &hay[0..0] };
    let is = |b: &u8| needles.contains(b);
    let oracle = if rev {
        window.iter().rposition(is).map(|i| i + soff)
    } else {
        window.iter().position(is).map(|i| i + soff)
    };
    Some(format!(
        "ok {} steps={} loads={} oracle={} badloads={} allocs={}",
        fmt_opt(val),
        sum_ticks(&rep.ticks),
        loads,
        fmt_opt(oracle),
        bad,
        allocs
    ))
}

/// `gcount <lanes> <needle> <unroll> <base> <soff> <eoff> <hay>`
fn gcount(a: &[&str]) -> Option<String> {
    if a.len() != 7 {
        return None;
    }
    let lanes: usize = a[0].parse().ok()?;
    let needles = parse_bytes(a[1])?;
    let _unroll: usize = a[2].parse().ok()?;
    let base: usize = a[3].parse().ok()?;
    let soff: usize = a[4].parse().ok()?;
    let eoff: usize = a[5].parse().ok()?;
    let hay = parse_bytes(a[6])?;
    if needles.len() != 1 || soff > hay.len() || eoff > hay.len() {
        return None;
    }
    let n1 = needles[0];
    let p = Placed::new(&hay, base);
    verif::reset();
    verif::register_region(p.ptr(), hay.len());
    let (r, allocs) = alloc_probe::measure(|| unsafe {
        verif::small_count_raw(lanes, n1, p.ptr().add(soff), p.ptr().add(eoff))
    });
    let r = r?;
    let rep = verif::take();
    let (loads, bad) = fmt_loads(&rep.loads, 2);
    let window = if soff <= eoff { &hay[soff..eoff] } else { &hay[0..0] };
    let oracle = window.iter().filter(|&&b| b == n1).count();
    Some(format!(
        "ok {} steps={} loads={} oracle={} badloads={} allocs={}",
        r,
        sum_ticks(&rep.ticks),
        loads,
        oracle,
        bad,
        allocs
    ))
}

pub fn conc_child(_args: &[String]) {
    // filled in by the C15 check
}
