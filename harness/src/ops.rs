//! One function per protocol operation. Each returns the canonical answer
//! line: `ok <value> steps=<n> loads=<trace|?> [extra k=v ...]` or
//! `fault <class> [<message>]`, or `bad-op`.

use std::panic::{catch_unwind, AssertUnwindSafe};

use crate::{
    alloc_probe,
    place::Placed,
    util::{classify_panic, fmt_loads, fmt_opt, panic_message, parse_bytes},
};
use memchr::verif;

pub fn run_line(line: &str) -> String {
    let mut it = line.split(' ');
    let op = match it.next() {
        Some(op) => op,
        None => return "bad-op".to_string(),
    };
    let args: Vec<&str> = it.collect();
    let r = catch_unwind(AssertUnwindSafe(|| dispatch(op, &args)));
    match r {
        Ok(Some(s)) => s,
        Ok(None) => "bad-op".to_string(),
        Err(e) => {
            let msg = panic_message(&*e);
            format!("{} [{}]", classify_panic(&msg), msg.replace('\n', " "))
        }
    }
}

fn dispatch(op: &str, a: &[&str]) -> Option<String> {
    match op {
        "gfind" => gfind(a),
        "gcount" => gcount(a),
        "iseq" | "isprefix" | "issuffix" => iseq(op, a),
        "rk" => rk(a, false),
        "rkx" => rk(a, true),
        "swar" => swar(a),
        "swarcount" => swarcount(a),
        "shiftor" => shiftor(a),
        "pair" => pair(a),
        "pairidx" => pairidx(a),
        "fbpre" => fbpre(a),
        "ppfind" => ppfind(a, false),
        "pppre" => ppfind(a, true),
        "twnew" => twnew(a),
        "twfind" => twfind(a),
        "prestate" => crate::ops2::prestate(a),
        "ppreal" => crate::ops2::ppreal(a),
        "conc" => crate::conc::conc(a),
        "memchr" => crate::ops3::memchr_op(a, false),
        "memchrd" => crate::ops3::memchr_op(a, true),
        "count" => crate::ops3::count_op(a, false),
        "countd" => crate::ops3::count_op(a, true),
        "iter" => crate::ops3::iter_op(a, 0),
        "iterd" => crate::ops3::iter_op(a, 1),
        "iterdn" => crate::ops3::iter_op(a, 2),
        "iterdr" => crate::ops3::iter_op(a, 3),
        "memchrs" => crate::ops5::memchrs_op(a),
        "counts" => crate::ops5::counts_op(a),
        "iseqraw" => crate::ops5::iseqraw_op(a),
        "rkraw" => crate::ops5::rkraw_op(a),
        "findfree" => crate::ops5::findfree_op(a),
        "ppforeign" => crate::ops5::ppforeign_op(a),
        "giant" => crate::ops5::giant_op(a),
        "pairimp" => crate::ops5::pairimp_op(a),
        "findimp" => crate::ops5::findimp_op(a),
        "find" => crate::ops3::find_op(a),
        "fnew" => crate::ops3::fnew_op(a),
        "rfind" => crate::ops3::rfind_op(a),
        "oneshot" => crate::ops3::oneshot_op(a),
        "finditer" => crate::ops3::finditer_op(a),
        "rfinditer" => crate::ops3::rfinditer_op(a),
        "finderops" => crate::ops4::finder_machine(a, false),
        "finderrevops" => crate::ops4::finder_machine(a, true),
        "pairreport" => crate::ops2::pairreport(a),
        "finderopsal" => crate::ops4::finder_machine_alias(a, false),
        "finderrevopsal" => crate::ops4::finder_machine_alias(a, true),
        "iseqalias" => crate::ops4::iseqalias(a),
        _ => None,
    }
}

fn sum_ticks(t: &[u64]) -> u64 {
    t.iter().sum()
}

/// `gfind <lanes> <needles> <unroll> fwd|rev <base> <soff> <eoff> <hay>`
fn gfind(a: &[&str]) -> Option<String> {
    if a.len() != 8 {
        return None;
    }
    let lanes: usize = a[0].parse().ok()?;
    let needles = parse_bytes(a[1])?;
    let _unroll: usize = a[2].parse().ok()?;
    let rev = match a[3] {
        "fwd" => false,
        "rev" => true,
        _ => return None,
    };
    let base: usize = a[4].parse().ok()?;
    let soff: usize = a[5].parse().ok()?;
    let eoff: usize = a[6].parse().ok()?;
    let hay = parse_bytes(a[7])?;
    if needles.is_empty() || needles.len() > 3 || soff > hay.len() || eoff > hay.len() {
        return None;
    }
    let p = Placed::new(&hay, base);
    crate::vreset();
    verif::register_region(p.ptr(), hay.len());
    let (r, allocs) = alloc_probe::measure(|| unsafe {
        verif::small_find_raw(lanes, &needles, rev, p.ptr().add(soff), p.ptr().add(eoff))
    });
    let r = r?;
    let rep = verif::take();
    let (loads, _) = fmt_loads(&rep.loads, 2);
    let bad = rep.bad_loads;
    let val = r.map(|addr| addr - p.ptr() as usize);
    let window = if soff <= eoff { &hay[soff..eoff] } else { &hay[0..0] };
    let is = |b: &u8| needles.contains(b);
    let oracle = if rev {
        window.iter().rposition(is).map(|i| i + soff)
    } else {
        window.iter().position(is).map(|i| i + soff)
    };
    Some(format!(
        "ok {} steps={} loads={} oracle={} badloads={} allocs={}",
        fmt_opt(val),
        sum_ticks(&rep.ticks),
        loads,
        fmt_opt(oracle),
        bad,
        allocs
    ))
}

/// `gcount <lanes> <needle> <unroll> <base> <soff> <eoff> <hay>`
fn gcount(a: &[&str]) -> Option<String> {
    if a.len() != 7 {
        return None;
    }
    let lanes: usize = a[0].parse().ok()?;
    let needles = parse_bytes(a[1])?;
    let _unroll: usize = a[2].parse().ok()?;
    let base: usize = a[3].parse().ok()?;
    let soff: usize = a[4].parse().ok()?;
    let eoff: usize = a[5].parse().ok()?;
    let hay = parse_bytes(a[6])?;
    if needles.len() != 1 || soff > hay.len() || eoff > hay.len() {
        return None;
    }
    let n1 = needles[0];
    let p = Placed::new(&hay, base);
    crate::vreset();
    verif::register_region(p.ptr(), hay.len());
    let (r, allocs) = alloc_probe::measure(|| unsafe {
        verif::small_count_raw(lanes, n1, p.ptr().add(soff), p.ptr().add(eoff))
    });
    let r = r?;
    let rep = verif::take();
    let (loads, _) = fmt_loads(&rep.loads, 2);
    let bad = rep.bad_loads;
    let window = if soff <= eoff { &hay[soff..eoff] } else { &hay[0..0] };
    let oracle = window.iter().filter(|&&b| b == n1).count();
    Some(format!(
        "ok {} steps={} loads={} oracle={} badloads={} allocs={}",
        r,
        sum_ticks(&rep.ticks),
        loads,
        oracle,
        bad,
        allocs
    ))
}

// ---------------------------------------------------------------------------
// naive oracles

/// above this many window comparisons the quadratic definition is replaced by Knuth-Morris-Pratt
const NAIVE_LIMIT: usize = 20_000_000;

/// first occurrence by KMP (independent of the crate; used as the oracle for huge inputs)
fn kmp_first(hay: &[u8], needle: &[u8]) -> Option<usize> {
    let m = needle.len();
    if m == 0 {
        return Some(0);
    }
    let mut fail = vec![0usize; m];
    let mut k = 0;
    for i in 1..m {
        while k > 0 && needle[i] != needle[k] {
            k = fail[k - 1];
        }
        if needle[i] == needle[k] {
            k += 1;
        }
        fail[i] = k;
    }
    k = 0;
    for (i, &b) in hay.iter().enumerate() {
        while k > 0 && b != needle[k] {
            k = fail[k - 1];
        }
        if b == needle[k] {
            k += 1;
        }
        if k == m {
            return Some(i + 1 - m);
        }
    }
    None
}

/// every occurrence (overlapping ones included), ascending: by definition for small inputs, by
/// one KMP pass for huge ones
pub fn all_occurrences(hay: &[u8], needle: &[u8]) -> Vec<usize> {
    let m = needle.len();
    if m > hay.len() {
        return Vec::new();
    }
    if m == 0 {
        return (0..=hay.len()).collect();
    }
    if (hay.len() - m).saturating_mul(m) <= NAIVE_LIMIT {
        return (0..=hay.len() - m).filter(|&i| &hay[i..i + m] == needle).collect();
    }
    let mut fail = vec![0usize; m];
    let mut k = 0;
    for i in 1..m {
        while k > 0 && needle[i] != needle[k] {
            k = fail[k - 1];
        }
        if needle[i] == needle[k] {
            k += 1;
        }
        fail[i] = k;
    }
    let mut out = Vec::new();
    k = 0;
    for (i, &b) in hay.iter().enumerate() {
        while k > 0 && b != needle[k] {
            k = fail[k - 1];
        }
        if b == needle[k] {
            k += 1;
        }
        if k == m {
            out.push(i + 1 - m);
            k = fail[k - 1];
        }
    }
    out
}

pub fn naive_find(hay: &[u8], needle: &[u8]) -> Option<usize> {
    if needle.len() > hay.len() {
        return None;
    }
    if (hay.len() - needle.len()).saturating_mul(needle.len()) > NAIVE_LIMIT {
        return kmp_first(hay, needle);
    }
    (0..=hay.len() - needle.len()).find(|&i| &hay[i..i + needle.len()] == needle)
}

pub fn naive_rfind(hay: &[u8], needle: &[u8]) -> Option<usize> {
    if needle.len() > hay.len() {
        return None;
    }
    if (hay.len() - needle.len()).saturating_mul(needle.len()) > NAIVE_LIMIT {
        let h: Vec<u8> = hay.iter().rev().cloned().collect();
        let n: Vec<u8> = needle.iter().rev().cloned().collect();
        return kmp_first(&h, &n).map(|i| hay.len() - needle.len() - i);
    }
    (0..=hay.len() - needle.len()).rev().find(|&i| &hay[i..i + needle.len()] == needle)
}

/// Common tail: `ok <val> steps=.. loads=.. oracle=.. badloads=.. allocs=..`
fn finish(val: String, oracle: String, allocs: u64) -> String {
    let rep = verif::take();
    let (loads, _) = fmt_loads(&rep.loads, 1);
    let bad = rep.bad_loads;
    let strat = if rep.strategies.is_empty() { "-".to_string() } else { rep.strategies.join(",") };
    format!(
        "ok {} steps={} loads={} oracle={} badloads={} allocs={} strat={}",
        val,
        sum_ticks(&rep.ticks),
        loads,
        oracle,
        bad,
        allocs,
        strat
    )
}

fn usz(s: &str) -> Option<usize> {
    s.parse().ok()
}

/// `iseq|isprefix|issuffix <basex> <x> <basey> <y>`
fn iseq(op: &str, a: &[&str]) -> Option<String> {
    if a.len() != 4 {
        return None;
    }
    let x = parse_bytes(a[1])?;
    let y = parse_bytes(a[3])?;
    let px = Placed::new(&x, usz(a[0])?);
    let py = Placed::new(&y, usz(a[2])?);
    crate::vreset();
    verif::register_region(px.ptr(), x.len());
    verif::register_region(py.ptr(), y.len());
    let (r, allocs) = alloc_probe::measure(|| match op {
        "iseq" => memchr::arch::all::is_equal(px.slice(), py.slice()),
        "isprefix" => memchr::arch::all::is_prefix(px.slice(), py.slice()),
        _ => memchr::arch::all::is_suffix(px.slice(), py.slice()),
    });
    let oracle = match op {
        "iseq" => x == y,
        "isprefix" => x.starts_with(&y),
        _ => x.ends_with(&y),
    };
    Some(finish(r.to_string(), oracle.to_string(), allocs))
}

/// `rk fwd|rev <baseh> <hay> <basen> <needle>` /
/// `rkx fwd|rev <construct-needle> <baseh> <hay> <basen> <search-needle>`
fn rk(a: &[&str], foreign: bool) -> Option<String> {
    let (dir, cons, rest) = if foreign {
        if a.len() != 6 {
            return None;
        }
        (a[0], Some(parse_bytes(a[1])?), &a[2..])
    } else {
        if a.len() != 5 {
            return None;
        }
        (a[0], None, &a[1..])
    };
    let rev = match dir {
        "fwd" => false,
        "rev" => true,
        _ => return None,
    };
    let hay = parse_bytes(rest[1])?;
    let needle = parse_bytes(rest[3])?;
    let ph = Placed::new(&hay, usz(rest[0])?);
    let pn = Placed::new(&needle, usz(rest[2])?);
    let cons = cons.unwrap_or_else(|| needle.clone());
    crate::vreset();
    verif::register_region(ph.ptr(), hay.len());
    verif::register_region(pn.ptr(), needle.len());
    use memchr::arch::all::rabinkarp as rkm;
    let (r, allocs) = alloc_probe::measure(|| {
        if rev {
            rkm::FinderRev::new(&cons).rfind(ph.slice(), pn.slice())
        } else {
            rkm::Finder::new(&cons).find(ph.slice(), pn.slice())
        }
    });
    let oracle = if rev { naive_rfind(&hay, &needle) } else { naive_find(&hay, &needle) };
    Some(finish(fmt_opt(r), fmt_opt(oracle), allocs))
}

/// `swar <needles> fwd|rev <base> <soff> <eoff> <hay>`
fn swar(a: &[&str]) -> Option<String> {
    if a.len() != 6 {
        return None;
    }
    let needles = parse_bytes(a[0])?;
    let rev = match a[1] {
        "fwd" => false,
        "rev" => true,
        _ => return None,
    };
    let base = usz(a[2])?;
    let soff = usz(a[3])?;
    let eoff = usz(a[4])?;
    let hay = parse_bytes(a[5])?;
    if needles.is_empty() || needles.len() > 3 || soff > hay.len() || eoff > hay.len() {
        return None;
    }
    let p = Placed::new(&hay, base);
    crate::vreset();
    verif::register_region(p.ptr(), hay.len());
    use memchr::arch::all::memchr as sw;
    let (s, e) = unsafe { (p.ptr().add(soff), p.ptr().add(eoff)) };
    let (r, allocs) = alloc_probe::measure(|| unsafe {
        match (needles.len(), rev) {
            (1, false) => sw::One::new(needles[0]).find_raw(s, e),
            (1, true) => sw::One::new(needles[0]).rfind_raw(s, e),
            (2, false) => sw::Two::new(needles[0], needles[1]).find_raw(s, e),
            (2, true) => sw::Two::new(needles[0], needles[1]).rfind_raw(s, e),
            (3, false) => sw::Three::new(needles[0], needles[1], needles[2]).find_raw(s, e),
            _ => sw::Three::new(needles[0], needles[1], needles[2]).rfind_raw(s, e),
        }
    });
    let val = r.map(|q| q as usize - p.ptr() as usize);
    let window = if soff <= eoff { &hay[soff..eoff] } else { &hay[0..0] };
    let is = |b: &u8| needles.contains(b);
    let oracle = if rev {
        window.iter().rposition(is).map(|i| i + soff)
    } else {
        window.iter().position(is).map(|i| i + soff)
    };
    Some(finish(fmt_opt(val), fmt_opt(oracle), allocs))
}

/// `swarcount <needle> <base> <soff> <eoff> <hay>`
fn swarcount(a: &[&str]) -> Option<String> {
    if a.len() != 5 {
        return None;
    }
    let needles = parse_bytes(a[0])?;
    let base = usz(a[1])?;
    let soff = usz(a[2])?;
    let eoff = usz(a[3])?;
    let hay = parse_bytes(a[4])?;
    if needles.len() != 1 || soff > hay.len() || eoff > hay.len() {
        return None;
    }
    let p = Placed::new(&hay, base);
    crate::vreset();
    verif::register_region(p.ptr(), hay.len());
    let (s, e) = unsafe { (p.ptr().add(soff), p.ptr().add(eoff)) };
    let (r, allocs) = alloc_probe::measure(|| unsafe {
        memchr::arch::all::memchr::One::new(needles[0]).count_raw(s, e)
    });
    let window = if soff <= eoff { &hay[soff..eoff] } else { &hay[0..0] };
    let oracle = window.iter().filter(|&&b| b == needles[0]).count();
    Some(finish(r.to_string(), oracle.to_string(), allocs))
}

/// `shiftor <needle> <hay>`
#[cfg(memchr_verif_noalloc)]
fn shiftor(_a: &[&str]) -> Option<String> {
    // the Shift-Or searcher only exists with the `alloc` feature
    None
}

#[cfg(not(memchr_verif_noalloc))]
fn shiftor(a: &[&str]) -> Option<String> {
    if a.len() != 2 {
        return None;
    }
    let needle = parse_bytes(a[0])?;
    let hay = parse_bytes(a[1])?;
    crate::vreset();
    let f = memchr::arch::all::shiftor::Finder::new(&needle);
    let (val, oracle) = match f {
        None => ("nofinder".to_string(), if needle.len() > 15 { "nofinder".to_string() } else { "finder".to_string() }),
        Some(f) => (fmt_opt(f.find(&hay)), if needle.len() > 15 { "nofinder".to_string() } else { fmt_opt(naive_find(&hay, &needle)) }),
    };
    Some(finish(val, oracle, 0))
}

struct TableRank([u8; 256]);
impl memchr::arch::all::packedpair::HeuristicFrequencyRank for TableRank {
    fn rank(&self, byte: u8) -> u8 {
        self.0[byte as usize]
    }
}

fn fmt_pair(p: Option<memchr::arch::all::packedpair::Pair>) -> String {
    match p {
        None => "none".to_string(),
        Some(p) => format!("{},{}", p.index1(), p.index2()),
    }
}

/// `pair default|<512 hex digits> <needle>`; oracle is the property itself:
/// `ok` iff (None iff len < 2) and indices distinct, in range, <= 254.
fn pair(a: &[&str]) -> Option<String> {
    if a.len() != 2 {
        return None;
    }
    let needle = parse_bytes(a[1])?;
    use memchr::arch::all::packedpair::Pair;
    crate::vreset();
    let (p, allocs) = alloc_probe::measure(|| {
        if a[0] == "default" {
            Some(Pair::new(&needle))
        } else {
            let t = parse_bytes(a[0])?;
            if t.len() != 256 {
                return None;
            }
            let mut tab = [0u8; 256];
            tab.copy_from_slice(&t);
            Some(Pair::with_ranker(&needle, TableRank(tab)))
        }
    });
    let p = p?;
    let valid = match p {
        None => needle.len() < 2,
        Some(ref p) => {
            needle.len() >= 2
                && p.index1() != p.index2()
                && (p.index1() as usize) < needle.len()
                && (p.index2() as usize) < needle.len()
                && p.index1() <= 254
                && p.index2() <= 254
        }
    };
    let val = fmt_pair(p);
    // the oracle field repeats the value when it is valid so that the generic
    // value-vs-oracle comparison applies
    let oracle = if valid { val.clone() } else { "INVALID".to_string() };
    Some(finish(val, oracle, allocs))
}

/// `pairidx <needle> <i1> <i2>`
fn pairidx(a: &[&str]) -> Option<String> {
    if a.len() != 3 {
        return None;
    }
    let needle = parse_bytes(a[0])?;
    let i1: u8 = a[1].parse().ok()?;
    let i2: u8 = a[2].parse().ok()?;
    crate::vreset();
    let p = memchr::arch::all::packedpair::Pair::with_indices(&needle, i1, i2);
    let oracle = if i1 != i2 && (i1 as usize) < needle.len() && (i2 as usize) < needle.len() {
        format!("{},{}", i1, i2)
    } else {
        "none".to_string()
    };
    Some(finish(fmt_pair(p), oracle, 0))
}

/// Oracle for a prefilter answer: `SOUND` when the candidate is at or before the first
/// occurrence and carries the pair bytes (or `none` with no occurrence).
pub(crate) fn prefilter_oracle(
    hay: &[u8],
    needle: &[u8],
    i1: usize,
    i2: usize,
    r: Option<usize>,
    check_bytes: bool,
) -> String {
    let first = naive_find(hay, needle);
    match (r, first) {
        (None, None) => "none".to_string(),
        (None, Some(q)) => format!("MISSED-{}", q),
        (Some(c), f) => {
            if let Some(q) = f {
                if c > q {
                    return format!("SKIPPED-{}", q);
                }
            }
            if check_bytes
                && !(c + i1 < hay.len()
                    && c + i2 < hay.len()
                    && hay[c + i1] == needle[i1]
                    && hay[c + i2] == needle[i2])
            {
                return "NOT-A-PAIR".to_string();
            }
            c.to_string()
        }
    }
}

/// `fbpre <needle> <i1> <i2> <base> <hay>`
fn fbpre(a: &[&str]) -> Option<String> {
    if a.len() != 5 {
        return None;
    }
    let needle = parse_bytes(a[0])?;
    let i1: u8 = a[1].parse().ok()?;
    let i2: u8 = a[2].parse().ok()?;
    let hay = parse_bytes(a[4])?;
    let ph = Placed::new(&hay, usz(a[3])?);
    use memchr::arch::all::packedpair as pp;
    crate::vreset();
    verif::register_region(ph.ptr(), hay.len());
    let pair = match pp::Pair::with_indices(&needle, i1, i2) {
        None => return Some(finish("badpair".to_string(), "badpair".to_string(), 0)),
        Some(p) => p,
    };
    let (r, allocs) = alloc_probe::measure(|| {
        pp::Finder::with_pair(&needle, pair).and_then(|f| f.find_prefilter(ph.slice()))
    });
    let oracle = prefilter_oracle(&hay, &needle, i1 as usize, i2 as usize, r, true);
    Some(finish(fmt_opt(r), oracle, allocs))
}

/// `ppfind <lanes> <needle> <i1> <i2> <nbase> <search-needle> <hbase> <hay>` /
/// `pppre <lanes> <needle> <i1> <i2> <hbase> <hay>`
fn ppfind(a: &[&str], prefilter: bool) -> Option<String> {
    if a.len() != if prefilter { 6 } else { 8 } {
        return None;
    }
    let lanes = usz(a[0])?;
    let needle = parse_bytes(a[1])?;
    let i1: u8 = a[2].parse().ok()?;
    let i2: u8 = a[3].parse().ok()?;
    let (nbase, sneedle, hbase, hay) = if prefilter {
        (0, needle.clone(), usz(a[4])?, parse_bytes(a[5])?)
    } else {
        (usz(a[4])?, parse_bytes(a[5])?, usz(a[6])?, parse_bytes(a[7])?)
    };
    let ph = Placed::new(&hay, hbase);
    let pn = Placed::new(&sneedle, nbase);
    crate::vreset();
    verif::register_region(ph.ptr(), hay.len());
    verif::register_region(pn.ptr(), sneedle.len());
    let minlen = match verif::small_packedpair_min_len(lanes, &needle, i1, i2) {
        None => return Some(finish("badpair".to_string(), "badpair".to_string(), 0) + " minlen=0"),
        Some(m) => m,
    };
    let _ = verif::take();
    crate::vreset();
    verif::register_region(ph.ptr(), hay.len());
    verif::register_region(pn.ptr(), sneedle.len());
    let r = catch_unwind(AssertUnwindSafe(|| unsafe {
        verif::small_packedpair(lanes, &needle, i1, i2, prefilter, ph.slice(), pn.slice())
    }));
    match r {
        Err(e) => {
            let msg = panic_message(&*e);
            let _ = verif::take();
            Some(format!("{} [{}] minlen={}", classify_panic(&msg), msg.replace('\n', " "), minlen))
        }
        Ok(None) => None,
        Ok(Some(sp)) => {
            let oracle = if prefilter {
                prefilter_oracle(&hay, &needle, i1 as usize, i2 as usize, sp.result, true)
            } else {
                fmt_opt(naive_find(&hay, &sneedle))
            };
            Some(finish(fmt_opt(sp.result), oracle, 0) + &format!(" minlen={}", minlen))
        }
    }
}

fn tw_debug(s: &str) -> String {
    // Finder(TwoWay { byteset: ApproximateByteSet(N), critical_pos: C, shift: Large { shift: S } })
    let num_after = |key: &str| -> String {
        match s.find(key) {
            None => "?".to_string(),
            Some(i) => s[i + key.len()..].chars().take_while(|c| c.is_ascii_digit()).collect(),
        }
    };
    let byteset = num_after("ApproximateByteSet(");
    let crit = num_after("critical_pos: ");
    let shift = if s.contains("Small {") {
        format!("small:{}", num_after("period: "))
    } else {
        format!("large:{}", num_after("Large { shift: "))
    };
    format!("crit={} shift={} byteset={}", crit, shift, byteset)
}

/// `twnew fwd|rev <needle>`
fn twnew(a: &[&str]) -> Option<String> {
    if a.len() != 2 {
        return None;
    }
    let needle = parse_bytes(a[1])?;
    use memchr::arch::all::twoway as tw;
    crate::vreset();
    let pn = Placed::new(&needle, 8192);
    verif::register_region(pn.ptr(), needle.len());
    let dbg = match a[0] {
        "fwd" => format!("{:?}", tw::Finder::new(pn.slice())),
        "rev" => format!("{:?}", tw::FinderRev::new(pn.slice())),
        _ => return None,
    };
    let rep = verif::take();
    Some(format!("ok {} steps={}", tw_debug(&dbg), sum_ticks(&rep.ticks)))
}

/// `twfind fwd|rev <needle> <hay>`
fn twfind(a: &[&str]) -> Option<String> {
    if a.len() != 3 {
        return None;
    }
    let needle = parse_bytes(a[1])?;
    let hay = parse_bytes(a[2])?;
    use memchr::arch::all::twoway as tw;
    let ph = Placed::new(&hay, 4096);
    let pn = Placed::new(&needle, 8192);
    crate::vreset();
    verif::register_region(ph.ptr(), hay.len());
    verif::register_region(pn.ptr(), needle.len());
    verif::set_tick_limit(crate::tick_limit(hay.len(), needle.len()));
    let (r, allocs, oracle) = match a[0] {
        "fwd" => {
            let (r, al) = alloc_probe::measure(|| tw::Finder::new(pn.slice()).find(ph.slice(), pn.slice()));
            (r, al, naive_find(&hay, &needle))
        }
        "rev" => {
            let (r, al) = alloc_probe::measure(|| tw::FinderRev::new(pn.slice()).rfind(ph.slice(), pn.slice()));
            (r, al, naive_rfind(&hay, &needle))
        }
        _ => return None,
    };
    Some(finish(fmt_opt(r), fmt_opt(oracle), allocs))
}

pub fn conc_child(args: &[String]) {
    crate::conc::child(args)
}
