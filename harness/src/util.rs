//! Hex parsing and canonical formatting (mirrors `MemchrModel/Driver/Util.lean`).

pub fn hex_val(c: u8) -> Option<u8> {
    match c {
        b'0'..=b'9' => Some(c - b'0'),
        b'a'..=b'f' => Some(c - b'a' + 10),
        b'A'..=b'F' => Some(c - b'A' + 10),
        _ => None,
    }
}

/// `-` is the empty string; otherwise `+`-separated parts, each either an even
/// number of hex digits or `r<count>x<hex>` (the hex bytes repeated).
pub fn parse_bytes(s: &str) -> Option<Vec<u8>> {
    if s == "-" {
        return Some(Vec::new());
    }
    let mut out = Vec::new();
    for part in s.split('+') {
        if let Some(rest) = part.strip_prefix('r') {
            let (n, hex) = rest.split_once('x')?;
            let n: usize = n.parse().ok()?;
            let unit = parse_hex(hex)?;
            for _ in 0..n {
                out.extend_from_slice(&unit);
            }
        } else {
            out.extend_from_slice(&parse_hex(part)?);
        }
    }
    Some(out)
}

fn parse_hex(s: &str) -> Option<Vec<u8>> {
    let b = s.as_bytes();
    if b.len() % 2 != 0 {
        return None;
    }
    let mut out = Vec::with_capacity(b.len() / 2);
    for p in b.chunks(2) {
        out.push(hex_val(p[0])? * 16 + hex_val(p[1])?);
    }
    Some(out)
}

pub fn fmt_opt(o: Option<usize>) -> String {
    match o {
        None => "none".to_string(),
        Some(n) => n.to_string(),
    }
}

/// Canonical class of a panic message.
pub fn classify_panic(msg: &str) -> String {
    if msg.contains("overflow") {
        "fault overflow".to_string()
    } else {
        "fault panic".to_string()
    }
}

pub fn panic_message(e: &(dyn std::any::Any + Send)) -> String {
    if let Some(s) = e.downcast_ref::<&str>() {
        s.to_string()
    } else if let Some(s) = e.downcast_ref::<String>() {
        s.clone()
    } else {
        "<non-string panic>".to_string()
    }
}

/// Sorted canonical load trace of the hook, loads of width >= `min_width`.
pub fn fmt_loads(loads: &[memchr::verif::LoadRec], min_width: usize) -> (String, usize) {
    let mut v: Vec<(usize, usize, usize, bool)> = Vec::new();
    let mut bad = 0;
    for l in loads {
        if !l.ok {
            bad += 1;
        }
        if l.width >= min_width {
            v.push((l.region, l.off, l.width, l.aligned));
        }
    }
    if v.is_empty() {
        return ("-".to_string(), bad);
    }
    if v.len() > 512 {
        // order-independent digest, mirrors `loadHash` in Driver/Util.lean
        let mut h: u64 = 0;
        for &(r, o, w, a) in v.iter() {
            let r = if r == usize::MAX { u64::MAX } else { r as u64 };
            let x = r.wrapping_mul(1000003).wrapping_add(o as u64);
            let y = x.wrapping_mul(1000003).wrapping_add((w as u64) * 2 + if a { 1 } else { 0 });
            h = h.wrapping_add(y.wrapping_mul(0x9E3779B97F4A7C15).wrapping_add(0x7F4A7C15));
        }
        return (format!("n{}h{}", v.len(), h), bad);
    }
    v.sort();
    let s: Vec<String> = v
        .iter()
        .map(|&(r, o, w, a)| {
            let r = if r == usize::MAX { "X".to_string() } else { r.to_string() };
            format!("{}:{}:{}:{}", r, o, w, if a { "a" } else { "u" })
        })
        .collect();
    (s.join(","), bad)
}
