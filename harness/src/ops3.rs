//! Public-API level operations: byte search wrappers / dispatch / iterators, and the
//! substring finder, iterators and finder op sequences.

use crate::{
    alloc_probe,
    ops::{naive_find, naive_rfind},
    place::Placed,
    util::{fmt_loads, fmt_opt, parse_bytes},
};
use memchr::verif;

fn usz(s: &str) -> Option<usize> {
    s.parse().ok()
}

fn tail(val: String, oracle: String, allocs: u64) -> String {
    let rep = verif::take();
    let (loads, _) = fmt_loads(&rep.loads, 1);
    let bad = rep.bad_loads;
    let steps: u64 = rep.ticks.iter().sum();
    let strat = if rep.strategies.is_empty() { "-".to_string() } else { rep.strategies.join(",") };
    format!(
        "ok {} steps={} loads={} oracle={} badloads={} allocs={} strat={}",
        val, steps, loads, oracle, bad, allocs, strat
    )
}

// ------------------------------------------------------------------------------------------
// byte search: wrappers and dispatch

#[derive(Clone, Copy, PartialEq)]
enum Be {
    Avx2,
    Sse2,
    Swar,
    Neon,
    Simd128,
    Top,
}

fn backend(s: &str, dispatched: bool) -> Option<Be> {
    if dispatched {
        return Some(Be::Top);
    }
    Some(match s {
        "avx2" => Be::Avx2,
        "sse2" => Be::Sse2,
        "swar" => Be::Swar,
        "neon" => Be::Neon,
        "simd128" => Be::Simd128,
        _ => return None,
    })
}

macro_rules! raw_search {
    ($module:path, $needles:expr, $rev:expr, $s:expr, $e:expr, $new:ident) => {{
        use $module as m;
        let n = $needles;
        unsafe {
            match (n.len(), $rev) {
                (1, false) => m::One::$new(n[0]).map(|f| f.find_raw($s, $e)),
                (1, true) => m::One::$new(n[0]).map(|f| f.rfind_raw($s, $e)),
                (2, false) => m::Two::$new(n[0], n[1]).map(|f| f.find_raw($s, $e)),
                (2, true) => m::Two::$new(n[0], n[1]).map(|f| f.rfind_raw($s, $e)),
                (3, false) => m::Three::$new(n[0], n[1], n[2]).map(|f| f.find_raw($s, $e)),
                _ => m::Three::$new(n[0], n[1], n[2]).map(|f| f.rfind_raw($s, $e)),
            }
        }
    }};
}

fn some1<T>(t: T) -> Option<T> {
    Some(t)
}

/// `memchr|memchrd <backend> <needles> fwd|rev <base> <soff> <eoff> <hay>`
pub fn memchr_op(a: &[&str], dispatched: bool) -> Option<String> {
    if a.len() != 7 {
        return None;
    }
    let be = backend(a[0], dispatched)?;
    let needles = parse_bytes(a[1])?;
    let rev = match a[2] {
        "fwd" => false,
        "rev" => true,
        _ => return None,
    };
    let base = usz(a[3])?;
    let soff = usz(a[4])?;
    let eoff = usz(a[5])?;
    let hay = parse_bytes(a[6])?;
    if needles.is_empty() || needles.len() > 3 || soff > hay.len() || eoff > hay.len() {
        return None;
    }
    let p = Placed::new(&hay, base);
    crate::vreset();
    verif::register_region(p.ptr(), hay.len());
    let (s, e) = unsafe { (p.ptr().add(soff), p.ptr().add(eoff)) };
    let n = &needles;
    let (r, allocs) = alloc_probe::measure(|| -> Option<Option<usize>> {
        let to_off = |q: Option<*const u8>| q.map(|q| q as usize - p.ptr() as usize);
        match be {
            Be::Top => {
                // the dispatched public functions take slices
                if soff > eoff {
                    return None;
                }
                let sl = &p.slice()[soff..eoff];
                let r = match (n.len(), rev) {
                    (1, false) => memchr::memchr(n[0], sl),
                    (1, true) => memchr::memrchr(n[0], sl),
                    (2, false) => memchr::memchr2(n[0], n[1], sl),
                    (2, true) => memchr::memrchr2(n[0], n[1], sl),
                    (3, false) => memchr::memchr3(n[0], n[1], n[2], sl),
                    _ => memchr::memrchr3(n[0], n[1], n[2], sl),
                };
                Some(r.map(|i| i + soff))
            }
            Be::Swar => {
                fn new1(a: u8) -> Option<memchr::arch::all::memchr::One> { Some(memchr::arch::all::memchr::One::new(a)) }
                let _ = new1;
                use memchr::arch::all::memchr as m;
                let r = unsafe {
                    match (n.len(), rev) {
                        (1, false) => m::One::new(n[0]).find_raw(s, e),
                        (1, true) => m::One::new(n[0]).rfind_raw(s, e),
                        (2, false) => m::Two::new(n[0], n[1]).find_raw(s, e),
                        (2, true) => m::Two::new(n[0], n[1]).rfind_raw(s, e),
                        (3, false) => m::Three::new(n[0], n[1], n[2]).find_raw(s, e),
                        _ => m::Three::new(n[0], n[1], n[2]).rfind_raw(s, e),
                    }
                };
                Some(to_off(r))
            }
            #[cfg(not(any(memchr_verif_emu_neon, memchr_verif_emu_simd128, memchr_verif_emu_other)))]
            Be::Avx2 => raw_search!(memchr::arch::x86_64::avx2::memchr, n, rev, s, e, new).map(to_off),
            #[cfg(not(any(memchr_verif_emu_neon, memchr_verif_emu_simd128, memchr_verif_emu_other)))]
            Be::Sse2 => raw_search!(memchr::arch::x86_64::sse2::memchr, n, rev, s, e, new).map(to_off),
            #[cfg(memchr_verif_emu_neon)]
            Be::Neon => raw_search!(memchr::arch::aarch64::neon::memchr, n, rev, s, e, new).map(to_off),
            #[cfg(memchr_verif_emu_simd128)]
            Be::Simd128 => raw_search!(memchr::arch::wasm32::simd128::memchr, n, rev, s, e, new).map(to_off),
            #[allow(unreachable_patterns)]
            _ => None,
        }
    });
    let _ = some1::<u8>;
    let r = r?;
    let window = if soff <= eoff { &hay[soff..eoff] } else { &hay[0..0] };
    let is = |b: &u8| needles.contains(b);
    let oracle = if rev {
        window.iter().rposition(is).map(|i| i + soff)
    } else {
        window.iter().position(is).map(|i| i + soff)
    };
    Some(tail(fmt_opt(r), fmt_opt(oracle), allocs))
}

/// `count|countd <backend> <needle> <base> <soff> <eoff> <hay>`
pub fn count_op(a: &[&str], dispatched: bool) -> Option<String> {
    if a.len() != 6 {
        return None;
    }
    let be = backend(a[0], dispatched)?;
    let needles = parse_bytes(a[1])?;
    let base = usz(a[2])?;
    let soff = usz(a[3])?;
    let eoff = usz(a[4])?;
    let hay = parse_bytes(a[5])?;
    if needles.len() != 1 || soff > hay.len() || eoff > hay.len() {
        return None;
    }
    let n1 = needles[0];
    let p = Placed::new(&hay, base);
    crate::vreset();
    verif::register_region(p.ptr(), hay.len());
    let (s, e) = unsafe { (p.ptr().add(soff), p.ptr().add(eoff)) };
    let (r, allocs) = alloc_probe::measure(|| -> Option<usize> {
        match be {
            Be::Top => {
                if soff > eoff {
                    return None;
                }
                Some(memchr::memchr_iter(n1, &p.slice()[soff..eoff]).count())
            }
            Be::Swar => Some(unsafe { memchr::arch::all::memchr::One::new(n1).count_raw(s, e) }),
            #[cfg(not(any(memchr_verif_emu_neon, memchr_verif_emu_simd128, memchr_verif_emu_other)))]
            Be::Avx2 => memchr::arch::x86_64::avx2::memchr::One::new(n1).map(|f| unsafe { f.count_raw(s, e) }),
            #[cfg(not(any(memchr_verif_emu_neon, memchr_verif_emu_simd128, memchr_verif_emu_other)))]
            Be::Sse2 => memchr::arch::x86_64::sse2::memchr::One::new(n1).map(|f| unsafe { f.count_raw(s, e) }),
            #[cfg(memchr_verif_emu_neon)]
            Be::Neon => memchr::arch::aarch64::neon::memchr::One::new(n1).map(|f| unsafe { f.count_raw(s, e) }),
            #[cfg(memchr_verif_emu_simd128)]
            Be::Simd128 => memchr::arch::wasm32::simd128::memchr::One::new(n1).map(|f| unsafe { f.count_raw(s, e) }),
            #[allow(unreachable_patterns)]
            _ => None,
        }
    });
    let r = r?;
    let window = if soff <= eoff { &hay[soff..eoff] } else { &hay[0..0] };
    let oracle = window.iter().filter(|&&b| b == n1).count();
    Some(tail(r.to_string(), oracle.to_string(), allocs))
}

/// Drive any double-ended byte iterator with an op string; `c` counts a clone. Results go
/// into a pre-reserved vector of plain values so that the driver itself does not allocate
/// inside the measured region.
#[derive(Clone, Copy)]
enum IterOut {
    Idx(Option<usize>),
    Hint(usize, Option<usize>),
    Cnt(usize),
}

fn drive_iter<I>(mut it: I, ops: &str, out: &mut Vec<IterOut>) -> Option<()>
where
    I: DoubleEndedIterator<Item = usize> + Clone,
{
    for ch in ops.chars() {
        match ch {
            'n' => out.push(IterOut::Idx(it.next())),
            'b' => out.push(IterOut::Idx(it.next_back())),
            's' => {
                let (lo, hi) = it.size_hint();
                out.push(IterOut::Hint(lo, hi));
            }
            'c' => out.push(IterOut::Cnt(it.clone().count())),
            _ => return None,
        }
    }
    Some(())
}

fn fmt_iter_out(o: &IterOut) -> String {
    match *o {
        IterOut::Idx(r) => fmt_opt(r),
        IterOut::Hint(lo, hi) => format!("{}:{}", lo, hi.map(|h| h.to_string()).unwrap_or("inf".into())),
        IterOut::Cnt(k) => k.to_string(),
    }
}

/// naive model of the same op string
fn naive_iter(hay: &[u8], needles: &[u8], ops: &str) -> Vec<String> {
    let mut rem: std::collections::VecDeque<usize> =
        hay.iter().enumerate().filter(|(_, b)| needles.contains(b)).map(|(i, _)| i).collect();
    let mut out = Vec::new();
    for ch in ops.chars() {
        match ch {
            'n' => out.push(fmt_opt(rem.pop_front())),
            'b' => out.push(fmt_opt(rem.pop_back())),
            's' => out.push(format!("ge{}", rem.len())),
            'c' => out.push(rem.len().to_string()),
            _ => {}
        }
    }
    out
}

/// `iter|iterd|iterdn|iterdr <backend> <needles> <base> <hay> <ops>`; mode 0: the backend's own
/// `iter()`, 1: `memchr{,2,3}_iter`, 2: `Memchr{,2,3}::new`, 3: `memrchr{,2,3}_iter`
pub fn iter_op(a: &[&str], mode: u8) -> Option<String> {
    if a.len() != 5 {
        return None;
    }
    let dispatched = mode != 0;
    let be = backend(a[0], dispatched)?;
    let needles = parse_bytes(a[1])?;
    let base = usz(a[2])?;
    let hay = parse_bytes(a[3])?;
    let ops = if a[4] == "-" { "" } else { a[4] };
    if needles.is_empty() || needles.len() > 3 {
        return None;
    }
    let p = Placed::new(&hay, base);
    crate::vreset();
    verif::register_region(p.ptr(), hay.len());
    let n = &needles;
    let h = p.slice();
    let mut out: Vec<IterOut> = Vec::with_capacity(ops.len() + 1);
    macro_rules! via {
        ($module:path, $new:expr) => {{
            use $module as m;
            match n.len() {
                1 => {
                    let f = $new(m::One::new(n[0]))?;
                    drive_iter(f.iter(h), ops, &mut out)?
                }
                2 => {
                    let f = $new(m::Two::new(n[0], n[1]))?;
                    // Two/Three iterators have no specialised count; `c` still works
                    drive_iter(f.iter(h), ops, &mut out)?
                }
                _ => {
                    let f = $new(m::Three::new(n[0], n[1], n[2]))?;
                    drive_iter(f.iter(h), ops, &mut out)?
                }
            }
        }};
    }
    let ((), allocs) = {
        let (r, al) = alloc_probe::measure(|| -> Option<()> {
            match be {
                Be::Top => match (mode, n.len()) {
                    (2, 1) => drive_iter(memchr::Memchr::new(n[0], h), ops, &mut out),
                    (2, 2) => drive_iter(memchr::Memchr2::new(n[0], n[1], h), ops, &mut out),
                    (2, _) => drive_iter(memchr::Memchr3::new(n[0], n[1], n[2], h), ops, &mut out),
                    (3, 1) => drive_iter(memchr::memrchr_iter(n[0], h), ops, &mut out),
                    (3, 2) => drive_iter(memchr::memrchr2_iter(n[0], n[1], h), ops, &mut out),
                    (3, _) => drive_iter(memchr::memrchr3_iter(n[0], n[1], n[2], h), ops, &mut out),
                    (_, 1) => drive_iter(memchr::memchr_iter(n[0], h), ops, &mut out),
                    (_, 2) => drive_iter(memchr::memchr2_iter(n[0], n[1], h), ops, &mut out),
                    _ => drive_iter(memchr::memchr3_iter(n[0], n[1], n[2], h), ops, &mut out),
                },
                Be::Swar => {
                    via!(memchr::arch::all::memchr, Some);
                    Some(())
                }
                #[cfg(not(any(memchr_verif_emu_neon, memchr_verif_emu_simd128, memchr_verif_emu_other)))]
                Be::Avx2 => {
                    via!(memchr::arch::x86_64::avx2::memchr, |x| x);
                    Some(())
                }
                #[cfg(not(any(memchr_verif_emu_neon, memchr_verif_emu_simd128, memchr_verif_emu_other)))]
                Be::Sse2 => {
                    via!(memchr::arch::x86_64::sse2::memchr, |x| x);
                    Some(())
                }
                #[cfg(memchr_verif_emu_neon)]
                Be::Neon => {
                    via!(memchr::arch::aarch64::neon::memchr, |x| x);
                    Some(())
                }
                #[cfg(memchr_verif_emu_simd128)]
                Be::Simd128 => {
                    via!(memchr::arch::wasm32::simd128::memchr, |x| x);
                    Some(())
                }
                #[allow(unreachable_patterns)]
                _ => None,
            }
        });
        (r?, al)
    };
    let out: Vec<String> = out.iter().map(fmt_iter_out).collect();
    // oracle: positions exact; size_hint must bracket (checked here, reported as the value)
    let swapped: String = ops.chars().map(|c| match c { 'n' => 'b', 'b' => 'n', c => c }).collect();
    let naive = naive_iter(&hay, &needles, if mode == 3 { &swapped } else { ops });
    let mut oracle = Vec::new();
    for (got, want) in out.iter().zip(naive.iter()) {
        if let Some(k) = want.strip_prefix("ge") {
            let k: usize = k.parse().unwrap();
            let (lo, hi) = got.split_once(':').unwrap();
            let lo: usize = lo.parse().unwrap();
            let ok = lo <= k && (hi == "inf" || hi.parse::<usize>().unwrap() >= k);
            oracle.push(if ok { got.clone() } else { format!("BAD-HINT-{}", k) });
        } else {
            oracle.push(want.clone());
        }
    }
    let j = |v: &Vec<String>| if v.is_empty() { "-".to_string() } else { v.join(",") };
    Some(tail(j(&out), j(&oracle), allocs))
}

// ------------------------------------------------------------------------------------------
// substring search

struct TableRank([u8; 256]);
impl memchr::arch::all::packedpair::HeuristicFrequencyRank for TableRank {
    fn rank(&self, byte: u8) -> u8 {
        self.0[byte as usize]
    }
}

fn build<'n>(pf: &str, ranker: &str, needle: &'n [u8]) -> Option<memchr::memmem::Finder<'n>> {
    use memchr::memmem::{FinderBuilder, Prefilter};
    let mut b = FinderBuilder::new();
    match pf {
        "auto" => b.prefilter(Prefilter::Auto),
        "none" => b.prefilter(Prefilter::None),
        _ => return None,
    };
    match parse_rank(ranker)? {
        None => Some(b.build_forward(needle)),
        Some(tab) => Some(b.build_forward_with_ranker(TableRank(tab), needle)),
    }
}

/// `default` or 512 hex digits
fn parse_rank(ranker: &str) -> Option<Option<[u8; 256]>> {
    if ranker == "default" {
        return Some(None);
    }
    let t = parse_bytes(ranker)?;
    if t.len() != 256 {
        return None;
    }
    let mut tab = [0u8; 256];
    tab.copy_from_slice(&t);
    Some(Some(tab))
}

/// `build` with the ranker already parsed (nothing here allocates on the harness side)
fn build_parsed<'n>(pf: &str, rank: &Option<[u8; 256]>, needle: &'n [u8]) -> Option<memchr::memmem::Finder<'n>> {
    use memchr::memmem::{FinderBuilder, Prefilter};
    let mut b = FinderBuilder::new();
    match pf {
        "auto" => b.prefilter(Prefilter::Auto),
        "none" => b.prefilter(Prefilter::None),
        _ => return None,
    };
    match rank {
        None => Some(b.build_forward(needle)),
        Some(tab) => Some(b.build_forward_with_ranker(TableRank(*tab), needle)),
    }
}

const NEEDLE_BASE: usize = 1048576;

/// `find <cfg> <pf> <ranker> <skips> <skipped> <needle> <hbase> <hay>`
pub fn find_op(a: &[&str]) -> Option<String> {
    if a.len() != 8 {
        return None;
    }
    let skips: u32 = a[3].parse().ok()?;
    let skipped: u32 = a[4].parse().ok()?;
    let needle = parse_bytes(a[5])?;
    let hay = parse_bytes(a[7])?;
    let pn = Placed::new(&needle, NEEDLE_BASE);
    let ph = Placed::new(&hay, usz(a[6])?);
    let rank = parse_rank(a[2])?;
    let (f, ba) = crate::measured_build(|| build_parsed(a[1], &rank, pn.slice()));
    let f = f?;
    crate::vreset();
    verif::register_region(ph.ptr(), hay.len());
    verif::register_region(pn.ptr(), needle.len());
    verif::set_tick_limit(crate::tick_limit(hay.len(), needle.len()));
    let t0 = std::time::Instant::now();
    let ((r, s1, s2), allocs) =
        alloc_probe::measure(|| memchr::memmem::verif_hooks::find_with_state(&f, skips, skipped, ph.slice()));
    let ns = t0.elapsed().as_nanos() as u64;
    let allocs = allocs + ba;
    let out = tail(format!("{}/{}:{}", fmt_opt(r), s1, s2), fmt_opt(naive_find(&hay, &needle)), allocs);
    let ns = crate::robust_ns(ns, hay.len() + needle.len(), || {
        let _ = memchr::memmem::verif_hooks::find_with_state(&f, skips, skipped, ph.slice());
    });
    Some(format!("{} ns={}", out, ns))
}

/// `fnew <cfg> <pf> <ranker> <needle>`: construction cost and the strategy chosen
pub fn fnew_op(a: &[&str]) -> Option<String> {
    if a.len() != 4 {
        return None;
    }
    let needle = parse_bytes(a[3])?;
    let pn = Placed::new(&needle, NEEDLE_BASE);
    crate::vreset();
    verif::register_region(pn.ptr(), needle.len());
    let t0 = std::time::Instant::now();
    let f = build(a[1], a[2], pn.slice())?;
    let ns = t0.elapsed().as_nanos() as u64;
    let rep = verif::take();
    let (loads, _) = fmt_loads(&rep.loads, 1);
    let steps: u64 = rep.ticks.iter().sum();
    let ns = crate::robust_ns(ns, needle.len(), || {
        let _ = build(a[1], a[2], pn.slice());
    });
    // probe search to learn the strategy (recorded by the hook at search time)
    let probe = vec![0u8; std::cmp::max(needle.len() + 64, 128)];
    crate::vreset();
    let _ = f.find(&probe);
    let rep2 = verif::take();
    let mut name = String::from("?");
    let mut pre = String::new();
    for s in rep2.strategies.iter() {
        if let Some(k) = s.strip_prefix("searcher_kind_") {
            if name == "?" {
                name = k.to_string();
            }
        } else if let Some(k) = s.strip_prefix("prefilter_kind_") {
            if pre.is_empty() {
                pre = k.to_string();
            }
        }
    }
    if name == "two_way_with_prefilter" {
        name = format!("{}:{}", name, if pre.is_empty() { "?" } else { &pre });
    }
    Some(format!("ok {} steps={} loads={} ns={}", name, steps, loads, ns))
}

/// `rfind <cfg> <needle> <hbase> <hay>`
pub fn rfind_op(a: &[&str]) -> Option<String> {
    if a.len() != 4 {
        return None;
    }
    let needle = parse_bytes(a[1])?;
    let hay = parse_bytes(a[3])?;
    let pn = Placed::new(&needle, NEEDLE_BASE);
    let ph = Placed::new(&hay, usz(a[2])?);
    let (f, ba) = crate::measured_build(|| memchr::memmem::FinderRev::new(pn.slice()));
    crate::vreset();
    verif::register_region(ph.ptr(), hay.len());
    verif::register_region(pn.ptr(), needle.len());
    verif::set_tick_limit(crate::tick_limit(hay.len(), needle.len()));
    let t0 = std::time::Instant::now();
    let (r, allocs) = alloc_probe::measure(|| f.rfind(ph.slice()));
    let ns = t0.elapsed().as_nanos() as u64;
    let allocs = allocs + ba;
    let out = tail(fmt_opt(r), fmt_opt(naive_rfind(&hay, &needle)), allocs);
    let ns = crate::robust_ns(ns, hay.len() + needle.len(), || {
        let _ = f.rfind(ph.slice());
    });
    Some(format!("{} ns={}", out, ns))
}

/// `oneshot <cfg> fwd|rev <needle> <hbase> <hay>`
pub fn oneshot_op(a: &[&str]) -> Option<String> {
    if a.len() != 5 {
        return None;
    }
    let needle = parse_bytes(a[2])?;
    let hay = parse_bytes(a[4])?;
    let pn = Placed::new(&needle, NEEDLE_BASE);
    let ph = Placed::new(&hay, usz(a[3])?);
    crate::vreset();
    verif::register_region(ph.ptr(), hay.len());
    verif::register_region(pn.ptr(), needle.len());
    verif::set_tick_limit(crate::tick_limit(hay.len(), needle.len()));
    let (r, oracle, allocs) = match a[1] {
        "fwd" => {
            let (r, al) = alloc_probe::measure(|| memchr::memmem::find(ph.slice(), pn.slice()));
            (r, naive_find(&hay, &needle), al)
        }
        "rev" => {
            let (r, al) = alloc_probe::measure(|| memchr::memmem::rfind(ph.slice(), pn.slice()));
            (r, naive_rfind(&hay, &needle), al)
        }
        _ => return None,
    };
    Some(tail(fmt_opt(r), fmt_opt(oracle), allocs))
}

/// the leftmost-first non-overlapping occurrences (what `find_iter` must yield)
pub(crate) fn greedy_fwd(hay: &[u8], needle: &[u8]) -> Vec<usize> {
    let step = std::cmp::max(1, needle.len());
    let mut out = Vec::new();
    let mut next_ok = 0usize;
    for i in crate::ops::all_occurrences(hay, needle) {
        if i >= next_ok {
            out.push(i);
            next_ok = i + step;
        }
    }
    out
}

/// the rightmost-first non-overlapping occurrences (what `rfind_iter` must yield): each one must
/// END at or before the start of the previous one (an empty needle: one position further left)
pub(crate) fn greedy_rev(hay: &[u8], needle: &[u8]) -> Vec<usize> {
    let m = needle.len();
    let mut out = Vec::new();
    let mut bound: Option<usize> = Some(hay.len());
    for &i in crate::ops::all_occurrences(hay, needle).iter().rev() {
        match bound {
            None => break,
            Some(b) => {
                if i + m <= b {
                    out.push(i);
                    bound = if m == 0 { i.checked_sub(1) } else { Some(i) };
                }
            }
        }
    }
    out
}

/// `finditer <cfg> <pf> <ranker> <needle> <hbase> <hay> <ops>` (ops over n s k o)
pub fn finditer_op(a: &[&str]) -> Option<String> {
    if a.len() != 7 {
        return None;
    }
    let needle = parse_bytes(a[3])?;
    let hay = parse_bytes(a[5])?;
    let ops = if a[6] == "-" { "" } else { a[6] };
    let pn = Placed::new(&needle, NEEDLE_BASE);
    let ph = Placed::new(&hay, usz(a[4])?);
    let (f, ba) = crate::measured_build(|| build(a[1], a[2], pn.slice()));
    let f = f?;
    crate::vreset();
    verif::set_trace(false);
    verif::register_region(ph.ptr(), hay.len());
    verif::register_region(pn.ptr(), needle.len());
    verif::set_tick_limit(crate::tick_limit(hay.len(), needle.len()));
    let expect = greedy_fwd(&hay, &needle);
    let mut k = 0usize;
    let mut out = Vec::new();
    let mut oracle = Vec::new();
    let mut search_allocs = ba;
    let mut total_ns = 0u64;
    let mut it: memchr::memmem::FindIter<'_, '_> = f.find_iter(ph.slice());
    let mut owned: Option<memchr::memmem::FindIter<'_, 'static>> = None;
    for ch in ops.chars() {
        match ch {
            'n' => {
                let t0 = std::time::Instant::now();
                let (r, al) = alloc_probe::measure(|| match owned.as_mut() {
                    Some(o) => o.next(),
                    None => it.next(),
                });
                total_ns += t0.elapsed().as_nanos() as u64;
                search_allocs += al;
                out.push(fmt_opt(r));
                oracle.push(fmt_opt(expect.get(k).copied()));
                if k < expect.len() {
                    k += 1;
                }
            }
            's' => {
                let ((lo, hi), al) = alloc_probe::measure(|| match owned.as_ref() {
                    Some(o) => o.size_hint(),
                    None => it.size_hint(),
                });
                search_allocs += al;
                let got = format!("{}:{}", lo, hi.map(|h| h.to_string()).unwrap_or("inf".into()));
                let remaining = expect.len() - k;
                let ok = lo <= remaining && hi.map_or(true, |h| h >= remaining);
                oracle.push(if ok { got.clone() } else { format!("BAD-HINT-{}", remaining) });
                out.push(got);
            }
            'k' => match owned.as_ref() {
                Some(o) => owned = Some(o.clone()),
                None => it = it.clone(),
            },
            #[cfg(not(memchr_verif_noalloc))]
            'o' => {
                if owned.is_none() {
                    owned = Some(it.clone().into_owned());
                }
            }
            _ => return None,
        }
    }
    let j = |v: &Vec<String>| if v.is_empty() { "-".to_string() } else { v.join(",") };
    Some(format!("{} ns={}", tail(j(&out), j(&oracle), search_allocs), total_ns))
}

/// `rfinditer <cfg> <needle> <hbase> <hay> <ops>` (ops over n k o)
pub fn rfinditer_op(a: &[&str]) -> Option<String> {
    if a.len() != 5 {
        return None;
    }
    let needle = parse_bytes(a[1])?;
    let hay = parse_bytes(a[3])?;
    let ops = if a[4] == "-" { "" } else { a[4] };
    let pn = Placed::new(&needle, NEEDLE_BASE);
    let ph = Placed::new(&hay, usz(a[2])?);
    let (f, ba) = crate::measured_build(|| memchr::memmem::FinderRev::new(pn.slice()));
    crate::vreset();
    verif::set_trace(false);
    verif::register_region(ph.ptr(), hay.len());
    verif::register_region(pn.ptr(), needle.len());
    verif::set_tick_limit(crate::tick_limit(hay.len(), needle.len()));
    let expect = greedy_rev(&hay, &needle);
    let mut k = 0usize;
    let mut out = Vec::new();
    let mut oracle = Vec::new();
    let mut search_allocs = ba;
    let mut total_ns = 0u64;
    let mut it = f.rfind_iter(ph.slice());
    let mut owned: Option<memchr::memmem::FindRevIter<'_, 'static>> = None;
    for ch in ops.chars() {
        match ch {
            'n' => {
                let t0 = std::time::Instant::now();
                let (r, al) = alloc_probe::measure(|| match owned.as_mut() {
                    Some(o) => o.next(),
                    None => it.next(),
                });
                total_ns += t0.elapsed().as_nanos() as u64;
                search_allocs += al;
                out.push(fmt_opt(r));
                oracle.push(fmt_opt(expect.get(k).copied()));
                if k < expect.len() {
                    k += 1;
                }
            }
            'k' => match owned.as_ref() {
                Some(o) => owned = Some(o.clone()),
                None => it = it.clone(),
            },
            #[cfg(not(memchr_verif_noalloc))]
            'o' => {
                if owned.is_none() {
                    owned = Some(it.clone().into_owned());
                }
            }
            _ => return None,
        }
    }
    let j = |v: &Vec<String>| if v.is_empty() { "-".to_string() } else { v.join(",") };
    Some(format!("{} ns={}", tail(j(&out), j(&oracle), search_allocs), total_ns))
}

