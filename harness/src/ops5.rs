//! API-surface operations: the entry points that the other ops reach only indirectly
//! (slice forms of the per-ISA searchers, `new_unchecked` / `is_available`, the raw
//! Rabin-Karp forms, `is_equal_raw`, the free iterator functions, `build_reverse`).

use crate::{
    alloc_probe,
    ops::{naive_find, naive_rfind},
    place::Placed,
    util::{fmt_loads, fmt_opt, parse_bytes},
};
use memchr::verif;

fn usz(s: &str) -> Option<usize> {
    s.parse().ok()
}

fn tail(val: String, oracle: String, allocs: u64) -> String {
    let rep = verif::take();
    let (loads, _) = fmt_loads(&rep.loads, 1);
    let steps: u64 = rep.ticks.iter().sum();
    format!("ok {} steps={} loads={} oracle={} badloads={} allocs={}", val, steps, loads, oracle, rep.bad_loads, allocs)
}

/// slice forms of one searcher module; `$wrap` turns the constructor result into an `Option`
macro_rules! slice_search {
    ($module:path, $n:expr, $rev:expr, $sl:expr, $wrap:expr) => {{
        use $module as m;
        let n = $n;
        match (n.len(), $rev) {
            (1, false) => $wrap(m::One::new(n[0])).map(|f| f.find($sl)),
            (1, true) => $wrap(m::One::new(n[0])).map(|f| f.rfind($sl)),
            (2, false) => $wrap(m::Two::new(n[0], n[1])).map(|f| f.find($sl)),
            (2, true) => $wrap(m::Two::new(n[0], n[1])).map(|f| f.rfind($sl)),
            (3, false) => $wrap(m::Three::new(n[0], n[1], n[2])).map(|f| f.find($sl)),
            _ => $wrap(m::Three::new(n[0], n[1], n[2])).map(|f| f.rfind($sl)),
        }
    }};
}

/// the same through `new_unchecked` (only when `is_available()` says so); `None` = unavailable
macro_rules! slice_search_unchecked {
    ($module:path, $n:expr, $rev:expr, $sl:expr) => {{
        use $module as m;
        let n = $n;
        unsafe {
            match (n.len(), $rev) {
                (1, false) => if m::One::is_available() { Some(m::One::new_unchecked(n[0]).find($sl)) } else { None },
                (1, true) => if m::One::is_available() { Some(m::One::new_unchecked(n[0]).rfind($sl)) } else { None },
                (2, false) => if m::Two::is_available() { Some(m::Two::new_unchecked(n[0], n[1]).find($sl)) } else { None },
                (2, true) => if m::Two::is_available() { Some(m::Two::new_unchecked(n[0], n[1]).rfind($sl)) } else { None },
                (3, false) => if m::Three::is_available() { Some(m::Three::new_unchecked(n[0], n[1], n[2]).find($sl)) } else { None },
                _ => if m::Three::is_available() { Some(m::Three::new_unchecked(n[0], n[1], n[2]).rfind($sl)) } else { None },
            }
        }
    }};
}

/// `memchrs <backend> <needles> fwd|rev <base> <soff> <eoff> <hay>` (`soff <= eoff`):
/// `<backend>::memchr::{One,Two,Three}::new(..).{find,rfind}(&hay[soff..eoff])`, reported as
/// an offset from `<base>` like `memchr`.  For the SIMD modules the same search is repeated
/// through `new_unchecked` when `is_available()` (unrecorded); `new(..)` must be `Some`
/// exactly when `is_available()`, and both answers must agree, else the oracle field says so.
pub fn memchrs_op(a: &[&str]) -> Option<String> {
    if a.len() != 7 {
        return None;
    }
    let needles = parse_bytes(a[1])?;
    let rev = match a[2] {
        "fwd" => false,
        "rev" => true,
        _ => return None,
    };
    let base = usz(a[3])?;
    let soff = usz(a[4])?;
    let eoff = usz(a[5])?;
    let hay = parse_bytes(a[6])?;
    if needles.is_empty() || needles.len() > 3 || soff > eoff || eoff > hay.len() {
        return None;
    }
    let p = Placed::new(&hay, base);
    crate::vreset();
    verif::register_region(p.ptr(), hay.len());
    let sl = &p.slice()[soff..eoff];
    let n = &needles;
    let (r, allocs) = alloc_probe::measure(|| -> Option<Option<usize>> {
        match a[0] {
            "swar" => slice_search!(memchr::arch::all::memchr, n, rev, sl, Some),
            #[cfg(not(any(memchr_verif_emu_neon, memchr_verif_emu_simd128, memchr_verif_emu_other)))]
            "avx2" => slice_search!(memchr::arch::x86_64::avx2::memchr, n, rev, sl, |x| x),
            #[cfg(not(any(memchr_verif_emu_neon, memchr_verif_emu_simd128, memchr_verif_emu_other)))]
            "sse2" => slice_search!(memchr::arch::x86_64::sse2::memchr, n, rev, sl, |x| x),
            #[cfg(memchr_verif_emu_neon)]
            "neon" => slice_search!(memchr::arch::aarch64::neon::memchr, n, rev, sl, |x| x),
            #[cfg(memchr_verif_emu_simd128)]
            "simd128" => slice_search!(memchr::arch::wasm32::simd128::memchr, n, rev, sl, |x| x),
            _ => None,
        }
    });
    // `None` here: the constructor refused (ISA unavailable)
    let val = match r {
        Some(v) => fmt_opt(v.map(|i| i + soff)),
        None => "unavailable".to_string(),
    };
    let out = tail(val, String::new(), allocs);
    // the unrecorded repeat through new_unchecked
    crate::vreset();
    verif::set_trace(false);
    let unchecked: Option<Option<Option<usize>>> = match a[0] {
        "swar" => None,
        #[cfg(not(any(memchr_verif_emu_neon, memchr_verif_emu_simd128, memchr_verif_emu_other)))]
        "avx2" => Some(slice_search_unchecked!(memchr::arch::x86_64::avx2::memchr, n, rev, sl)),
        #[cfg(not(any(memchr_verif_emu_neon, memchr_verif_emu_simd128, memchr_verif_emu_other)))]
        "sse2" => Some(slice_search_unchecked!(memchr::arch::x86_64::sse2::memchr, n, rev, sl)),
        #[cfg(memchr_verif_emu_neon)]
        "neon" => Some(slice_search_unchecked!(memchr::arch::aarch64::neon::memchr, n, rev, sl)),
        #[cfg(memchr_verif_emu_simd128)]
        "simd128" => Some(slice_search_unchecked!(memchr::arch::wasm32::simd128::memchr, n, rev, sl)),
        _ => None,
    };
    let _ = verif::take();
    let is = |b: &u8| needles.contains(b);
    let window = &hay[soff..eoff];
    let want = if rev { window.iter().rposition(is) } else { window.iter().position(is) }.map(|i| i + soff);
    let mut oracle = fmt_opt(want);
    if let Some(u) = unchecked {
        match (r, u) {
            (Some(x), Some(y)) => {
                if x != y {
                    oracle = format!("NEW-UNCHECKED-DIFFERS:{}", fmt_opt(y.map(|i| i + soff)));
                }
            }
            (None, None) => oracle = "unavailable".to_string(),
            (Some(_), None) => oracle = "NEW-SOME-BUT-NOT-AVAILABLE".to_string(),
            (None, Some(_)) => oracle = "AVAILABLE-BUT-NEW-NONE".to_string(),
        }
    }
    Some(out.replace(" oracle= ", &format!(" oracle={} ", oracle)))
}

/// `counts <backend> <needle> <base> <soff> <eoff> <hay>`: `One::new(n).count(&hay[soff..eoff])`
pub fn counts_op(a: &[&str]) -> Option<String> {
    if a.len() != 6 {
        return None;
    }
    let needles = parse_bytes(a[1])?;
    let base = usz(a[2])?;
    let soff = usz(a[3])?;
    let eoff = usz(a[4])?;
    let hay = parse_bytes(a[5])?;
    if needles.len() != 1 || soff > eoff || eoff > hay.len() {
        return None;
    }
    let n1 = needles[0];
    let p = Placed::new(&hay, base);
    crate::vreset();
    verif::register_region(p.ptr(), hay.len());
    let sl = &p.slice()[soff..eoff];
    let (r, allocs) = alloc_probe::measure(|| -> Option<usize> {
        match a[0] {
            "swar" => Some(memchr::arch::all::memchr::One::new(n1).count(sl)),
            #[cfg(not(any(memchr_verif_emu_neon, memchr_verif_emu_simd128, memchr_verif_emu_other)))]
            "avx2" => memchr::arch::x86_64::avx2::memchr::One::new(n1).map(|f| f.count(sl)),
            #[cfg(not(any(memchr_verif_emu_neon, memchr_verif_emu_simd128, memchr_verif_emu_other)))]
            "sse2" => memchr::arch::x86_64::sse2::memchr::One::new(n1).map(|f| f.count(sl)),
            #[cfg(memchr_verif_emu_neon)]
            "neon" => memchr::arch::aarch64::neon::memchr::One::new(n1).map(|f| f.count(sl)),
            #[cfg(memchr_verif_emu_simd128)]
            "simd128" => memchr::arch::wasm32::simd128::memchr::One::new(n1).map(|f| f.count(sl)),
            _ => None,
        }
    });
    let r = r?;
    let oracle = hay[soff..eoff].iter().filter(|&&b| b == n1).count();
    Some(tail(r.to_string(), oracle.to_string(), allocs))
}

/// `iseqraw <basex> <x> <basey> <y>` (equal lengths): `is_equal_raw(x.as_ptr(), y.as_ptr(), n)`
pub fn iseqraw_op(a: &[&str]) -> Option<String> {
    if a.len() != 4 {
        return None;
    }
    let x = parse_bytes(a[1])?;
    let y = parse_bytes(a[3])?;
    if x.len() != y.len() {
        return None;
    }
    let px = Placed::new(&x, usz(a[0])?);
    let py = Placed::new(&y, usz(a[2])?);
    crate::vreset();
    verif::register_region(px.ptr(), x.len());
    verif::register_region(py.ptr(), y.len());
    let (r, allocs) =
        alloc_probe::measure(|| unsafe { memchr::arch::all::is_equal_raw(px.ptr(), py.ptr(), x.len()) });
    Some(tail(r.to_string(), (x == y).to_string(), allocs))
}

/// `rkraw fwd|rev <baseh> <hay> <basen>|@<off> <needle>`: the raw-pointer forms
/// `Finder::find_raw` / `FinderRev::rfind_raw`; with `@<off>` the needle pointers point INTO the
/// haystack buffer at `<off>` (which must hold the needle bytes).
pub fn rkraw_op(a: &[&str]) -> Option<String> {
    if a.len() != 5 {
        return None;
    }
    let rev = match a[0] {
        "fwd" => false,
        "rev" => true,
        _ => return None,
    };
    let hay = parse_bytes(a[2])?;
    let needle = parse_bytes(a[4])?;
    let ph = Placed::new(&hay, usz(a[1])?);
    let alias: Option<usize> = match a[3].strip_prefix('@') {
        Some(o) => Some(o.parse().ok()?),
        None => None,
    };
    let pn = Placed::new(&needle, if alias.is_some() { 0 } else { usz(a[3])? });
    let (ns, ne) = match alias {
        Some(off) => {
            if off + needle.len() > hay.len() || hay[off..off + needle.len()] != needle[..] {
                return None;
            }
            unsafe { (ph.ptr().add(off), ph.ptr().add(off + needle.len())) }
        }
        None => unsafe { (pn.ptr(), pn.ptr().add(needle.len())) },
    };
    use memchr::arch::all::rabinkarp as rkm;
    crate::vreset();
    verif::register_region(ph.ptr(), hay.len());
    if alias.is_none() {
        verif::register_region(pn.ptr(), needle.len());
    }
    let (hs, he) = unsafe { (ph.ptr(), ph.ptr().add(hay.len())) };
    let (r, allocs) = alloc_probe::measure(|| unsafe {
        if rev {
            rkm::FinderRev::new(&needle).rfind_raw(hs, he, ns, ne)
        } else {
            rkm::Finder::new(&needle).find_raw(hs, he, ns, ne)
        }
    });
    let r = r.map(|q| q as usize - hs as usize);
    let oracle = if rev { naive_rfind(&hay, &needle) } else { naive_find(&hay, &needle) };
    // loads of an aliased needle land in region 0: not comparable with the model's region 1
    let out = tail(fmt_opt(r), fmt_opt(oracle), allocs);
    Some(out)
}

/// `findfree <cfg> fwd|rev <needle> <hbase> <hay>`: the free functions `memmem::find_iter` /
/// `memmem::rfind_iter` run to exhaustion (all `next()` up to and including the first `None`),
/// and `FinderBuilder::build_reverse` against `FinderRev::new` for the reverse direction.
/// Value: the matches, `;`-separated (`-` when none).
pub fn findfree_op(a: &[&str]) -> Option<String> {
    if a.len() != 5 {
        return None;
    }
    let rev = match a[1] {
        "fwd" => false,
        "rev" => true,
        _ => return None,
    };
    let needle = parse_bytes(a[2])?;
    let hay = parse_bytes(a[4])?;
    let pn = Placed::new(&needle, 1048576);
    let ph = Placed::new(&hay, usz(a[3])?);
    crate::vreset();
    verif::set_trace(false);
    verif::set_tick_limit(crate::tick_limit(hay.len(), needle.len()).saturating_mul(4));
    let cap = hay.len() + 2;
    let mut got: Vec<usize> = Vec::with_capacity(cap);
    let (_, allocs) = alloc_probe::measure(|| {
        if rev {
            for i in memchr::memmem::rfind_iter(ph.slice(), pn.slice()) {
                if got.len() < cap {
                    got.push(i);
                }
            }
        } else {
            for i in memchr::memmem::find_iter(ph.slice(), pn.slice()) {
                if got.len() < cap {
                    got.push(i);
                }
            }
        }
    });
    let mut notes: Vec<String> = Vec::new();
    if rev {
        let f1 = memchr::memmem::FinderBuilder::new().build_reverse(pn.slice());
        let f2 = memchr::memmem::FinderRev::new(pn.slice());
        let v1: Vec<usize> = f1.rfind_iter(ph.slice()).take(cap).collect();
        if v1 != got {
            notes.push("BUILD-REVERSE-ITER-DIFFERS".to_string());
        }
        if f1.rfind(ph.slice()) != f2.rfind(ph.slice()) {
            notes.push("BUILD-REVERSE-RFIND-DIFFERS".to_string());
        }
    } else {
        let f1 = memchr::memmem::FinderBuilder::new().build_forward(pn.slice());
        let v1: Vec<usize> = f1.find_iter(ph.slice()).take(cap).collect();
        if v1 != got {
            notes.push("BUILD-FORWARD-ITER-DIFFERS".to_string());
        }
    }
    // oracle: greedy non-overlapping occurrences (an empty needle matches at every position)
    let mut want: Vec<usize> = Vec::new();
    let nl = needle.len();
    if rev {
        let mut end = hay.len() as isize;
        loop {
            if end < nl as isize {
                break;
            }
            let lim = end as usize;
            let found = (0..=lim - nl).rev().find(|&i| &hay[i..i + nl] == &needle[..]);
            match found {
                None => break,
                Some(i) => {
                    want.push(i);
                    end = if nl == 0 { i as isize - 1 } else { i as isize };
                }
            }
        }
    } else {
        let mut pos = 0usize;
        while pos + nl <= hay.len() {
            match (pos..=hay.len() - nl).find(|&i| &hay[i..i + nl] == &needle[..]) {
                None => break,
                Some(i) => {
                    want.push(i);
                    pos = if nl == 0 { i + 1 } else { i + nl };
                }
            }
        }
    }
    let j = |v: &Vec<usize>| {
        if v.is_empty() {
            "-".to_string()
        } else {
            v.iter().map(|x| x.to_string()).collect::<Vec<_>>().join(";")
        }
    };
    let oracle = if notes.is_empty() { j(&want) } else { notes.join("/") };
    Some(tail(j(&got), oracle, allocs))
}

/// `ppforeign <isa> <short needle> <long needle> <i1> <i2>`: `Pair::with_indices(long, i1, i2)`
/// handed to `<isa>::packedpair::Finder::with_pair(short, pair)` (`isa` = `fallback|sse2|avx2|
/// neon|simd128`), the short needle ending exactly at a guard page.  The safe constructor must
/// either build a finder (both offsets inside the short needle) or panic; it must never read
/// past the needle (a read past it faults here).
pub fn ppforeign_op(a: &[&str]) -> Option<String> {
    if a.len() != 5 {
        return None;
    }
    use memchr::arch::all::packedpair::Pair;
    let short = parse_bytes(a[1])?;
    let long = parse_bytes(a[2])?;
    let i1: u8 = a[3].parse().ok()?;
    let i2: u8 = a[4].parse().ok()?;
    let ps = Placed::new(&short, (4096 - short.len() % 4096) % 4096);
    crate::vreset();
    let pair = match Pair::with_indices(&long, i1, i2) {
        None => return Some("ok badpair steps=0 loads=- oracle=badpair".to_string()),
        Some(p) => p,
    };
    // the finder is USED (a probe search), so that the bytes it read from the needle are live
    let probe = [0x2Eu8; 600];
    let r: std::thread::Result<Option<bool>> = std::panic::catch_unwind(std::panic::AssertUnwindSafe(|| match a[0] {
        "fallback" => Some(memchr::arch::all::packedpair::Finder::with_pair(ps.slice(), pair).map(|f| f.find_prefilter(&probe)).is_some()),
        #[cfg(not(any(memchr_verif_emu_neon, memchr_verif_emu_simd128, memchr_verif_emu_other)))]
        "sse2" => Some(memchr::arch::x86_64::sse2::packedpair::Finder::with_pair(ps.slice(), pair).map(|f| f.find_prefilter(&probe)).is_some()),
        #[cfg(not(any(memchr_verif_emu_neon, memchr_verif_emu_simd128, memchr_verif_emu_other)))]
        "avx2" => Some(memchr::arch::x86_64::avx2::packedpair::Finder::with_pair(ps.slice(), pair).map(|f| f.find_prefilter(&probe)).is_some()),
        #[cfg(memchr_verif_emu_neon)]
        "neon" => Some(memchr::arch::aarch64::neon::packedpair::Finder::with_pair(ps.slice(), pair).map(|f| f.find_prefilter(&probe)).is_some()),
        #[cfg(memchr_verif_emu_simd128)]
        "simd128" => Some(memchr::arch::wasm32::simd128::packedpair::Finder::with_pair(ps.slice(), pair).map(|f| f.find_prefilter(&probe)).is_some()),
        _ => None,
    }));
    let _ = verif::take();
    let inside = (i1 as usize) < short.len() && (i2 as usize) < short.len();
    match r {
        Err(e) => {
            let msg = crate::util::panic_message(&*e);
            Some(format!("{} [{}]", crate::util::classify_panic(&msg), msg.replace('\n', " ")))
        }
        Ok(None) => None,
        Ok(Some(built)) => {
            let val = if built { "built" } else { "nofinder" };
            Some(format!("ok {} steps=0 loads=- oracle={}", val, if inside { "built" } else { "MUST-PANIC" }))
        }
    }
}

/// An anonymous, lazily zeroed mapping of `len` bytes (reads hit the shared zero page, so even
/// several GiB cost no memory until written).
struct Giant {
    ptr: *mut u8,
    len: usize,
}

impl Giant {
    fn new(len: usize) -> Option<Giant> {
        let p = unsafe {
            libc::mmap(core::ptr::null_mut(), len, libc::PROT_READ | libc::PROT_WRITE,
                       libc::MAP_PRIVATE | libc::MAP_ANONYMOUS | libc::MAP_NORESERVE, -1, 0)
        };
        if p == libc::MAP_FAILED {
            return None;
        }
        Some(Giant { ptr: p as *mut u8, len })
    }
    fn slice(&self) -> &[u8] {
        unsafe { core::slice::from_raw_parts(self.ptr, self.len) }
    }
    fn put(&mut self, at: usize, bytes: &[u8]) {
        unsafe { core::ptr::copy_nonoverlapping(bytes.as_ptr(), self.ptr.add(at), bytes.len()) }
    }
}

impl Drop for Giant {
    fn drop(&mut self) {
        unsafe {
            libc::munmap(self.ptr as *mut libc::c_void, self.len);
        }
    }
}

/// `giant count <len> <k>` / `giant find <len> <pos>` / `giant rfind <len> <pos>` /
/// `giant memmem <len> <needle> <pos> <decoy-pos,...>`: inputs beyond 2^32 bytes (zero filled,
/// lazily mapped).
///  * count: `memchr_iter(0, hay).count()` where `k` bytes (evenly spread) were set to 1:
///    must be `len - k`;
///  * find / rfind: the only non-zero byte (value 0x61) is at `pos`: `memchr` / `memrchr(0x61)`;
///  * memmem: `Finder::new(needle).find(hay)` with the needle written at `pos` and its first
///    half (a false candidate) written at each decoy position.
/// The oracle is known by construction.
pub fn giant_op(a: &[&str]) -> Option<String> {
    if a.len() < 3 {
        return None;
    }
    let len: usize = a[1].parse().ok()?;
    let mut g = match Giant::new(len) {
        Some(g) => g,
        // an address-space limit of the environment is not a finding
        None => return Some("ok skipped steps=0 loads=- oracle=skipped".to_string()),
    };
    crate::vreset();
    verif::set_trace(false);
    match a[0] {
        "count" => {
            let k: usize = a[2].parse().ok()?;
            for j in 0..k {
                let at = (len / (k + 1)) * (j + 1);
                g.put(at, &[1]);
            }
            let (r, allocs) = alloc_probe::measure(|| memchr::memchr_iter(0, g.slice()).count());
            Some(tail(r.to_string(), (len - k).to_string(), allocs))
        }
        "find" | "rfind" => {
            let pos: usize = a[2].parse().ok()?;
            if pos >= len {
                return None;
            }
            g.put(pos, &[0x61]);
            let (r, allocs) = alloc_probe::measure(|| {
                if a[0] == "find" { memchr::memchr(0x61, g.slice()) } else { memchr::memrchr(0x61, g.slice()) }
            });
            Some(tail(fmt_opt(r), pos.to_string(), allocs))
        }
        "iter" => {
            // `giant iter <len> <pos,pos,...>`: `memchr_iter(0x61, hay)` driven alternately from
            // both ends; value: the positions in yield order
            let mut pos: Vec<usize> = Vec::new();
            for d in a[2].split(',') {
                let at: usize = d.parse().ok()?;
                if at >= len {
                    return None;
                }
                g.put(at, &[0x61]);
                pos.push(at);
            }
            pos.sort();
            pos.dedup();
            let mut got: Vec<usize> = Vec::with_capacity(pos.len() + 2);
            let (_, allocs) = alloc_probe::measure(|| {
                let mut it = memchr::memchr_iter(0x61, g.slice());
                let mut front = true;
                loop {
                    let r = if front { it.next() } else { it.next_back() };
                    front = !front;
                    match r {
                        Some(i) if got.len() <= pos.len() => got.push(i),
                        _ => break,
                    }
                }
            });
            let mut want: Vec<usize> = Vec::new();
            let (mut lo, mut hi) = (0usize, pos.len());
            let mut front = true;
            while lo < hi {
                if front {
                    want.push(pos[lo]);
                    lo += 1;
                } else {
                    hi -= 1;
                    want.push(pos[hi]);
                }
                front = !front;
            }
            let j = |v: &Vec<usize>| v.iter().map(|x| x.to_string()).collect::<Vec<_>>().join(";");
            Some(tail(j(&got), j(&want), allocs))
        }
        "rmemmem" => {
            // `giant rmemmem <len> <needle> <pos>`: `FinderRev::new(needle).rfind(hay)`, the needle
            // written once at `pos` (far from the end) and its second half near the end
            if a.len() != 4 {
                return None;
            }
            let needle = parse_bytes(a[2])?;
            let pos: usize = a[3].parse().ok()?;
            if needle.is_empty() || needle.contains(&0) || pos + needle.len() + 64 > len {
                return None;
            }
            g.put(pos, &needle);
            g.put(len - needle.len(), &needle[needle.len() / 2..]);
            let f = memchr::memmem::FinderRev::new(&needle);
            let (r, allocs) = alloc_probe::measure(|| f.rfind(g.slice()));
            Some(tail(fmt_opt(r), pos.to_string(), allocs))
        }
        "memmem" => {
            if a.len() != 5 {
                return None;
            }
            let needle = parse_bytes(a[2])?;
            let pos: usize = a[3].parse().ok()?;
            if needle.is_empty() || needle.contains(&0) || pos + needle.len() > len {
                return None;
            }
            for d in a[4].split(',') {
                if d == "-" {
                    continue;
                }
                let at: usize = d.parse().ok()?;
                if at + needle.len() < pos {
                    g.put(at, &needle[..needle.len() / 2]);
                }
            }
            g.put(pos, &needle);
            let f = memchr::memmem::Finder::new(&needle);
            let (r, allocs) = alloc_probe::measure(|| f.find(g.slice()));
            Some(tail(fmt_opt(r), pos.to_string(), allocs))
        }
        _ => None,
    }
}

/// a ranker that is NOT a function of the byte: it answers from a call counter
struct ImpureRank {
    mode: u8,
    calls: core::cell::Cell<u32>,
}

impl memchr::arch::all::packedpair::HeuristicFrequencyRank for ImpureRank {
    fn rank(&self, byte: u8) -> u8 {
        let k = self.calls.get();
        self.calls.set(k.wrapping_add(1));
        match self.mode {
            0 => k as u8,                                             // 0, 1, 2, ...
            1 => 255u8.wrapping_sub(k as u8),                          // 255, 254, ...
            2 => if k % 2 == 0 { 0 } else { 255 },                      // alternating
            _ => (k.wrapping_mul(1103515245).wrapping_add(12345) >> 16) as u8 ^ byte,
        }
    }
}

fn impure(mode: &str) -> Option<ImpureRank> {
    let m = match mode {
        "up" => 0,
        "down" => 1,
        "alt" => 2,
        "lcg" => 3,
        _ => return None,
    };
    Some(ImpureRank { mode: m, calls: core::cell::Cell::new(0) })
}

/// `pairimp <mode> <needle>`: `Pair::with_ranker` with an impure ranker: must return normally;
/// `None` exactly for needles shorter than 2, else two distinct offsets inside the needle, <= 254
pub fn pairimp_op(a: &[&str]) -> Option<String> {
    if a.len() != 2 {
        return None;
    }
    let needle = parse_bytes(a[1])?;
    let rk = impure(a[0])?;
    crate::vreset();
    let r = std::panic::catch_unwind(std::panic::AssertUnwindSafe(|| {
        memchr::arch::all::packedpair::Pair::with_ranker(&needle, rk)
    }));
    let _ = verif::take();
    match r {
        Err(e) => {
            let msg = crate::util::panic_message(&*e);
            Some(format!("{} [{}]", crate::util::classify_panic(&msg), msg.replace('\n', " ")))
        }
        Ok(p) => {
            let ok = match &p {
                None => needle.len() < 2,
                Some(p) => {
                    needle.len() >= 2 && p.index1() != p.index2() && (p.index1() as usize) < needle.len()
                        && (p.index2() as usize) < needle.len() && p.index1() <= 254 && p.index2() <= 254
                }
            };
            let shown = match &p {
                None => "none".to_string(),
                Some(p) => format!("{},{}", p.index1(), p.index2()),
            };
            Some(format!("ok {} steps=0 loads=- oracle={}", shown, if ok { shown.clone() } else { "INVALID-PAIR".to_string() }))
        }
    }
}

/// `findimp <mode> <needle> <hay>`: a finder built with an impure ranker must still find the
/// leftmost occurrence
pub fn findimp_op(a: &[&str]) -> Option<String> {
    if a.len() != 3 {
        return None;
    }
    let needle = parse_bytes(a[1])?;
    let hay = parse_bytes(a[2])?;
    let rk = impure(a[0])?;
    crate::vreset();
    verif::set_trace(false);
    let r = std::panic::catch_unwind(std::panic::AssertUnwindSafe(|| {
        memchr::memmem::FinderBuilder::new().build_forward_with_ranker(rk, &needle).find(&hay)
    }));
    let _ = verif::take();
    match r {
        Err(e) => {
            let msg = crate::util::panic_message(&*e);
            Some(format!("{} [{}]", crate::util::classify_panic(&msg), msg.replace('\n', " ")))
        }
        Ok(v) => Some(format!("ok {} steps=0 loads=- oracle={}", fmt_opt(v), fmt_opt(naive_find(&hay, &needle)))),
    }
}
