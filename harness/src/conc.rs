//! C15: concurrent use. `conc <backend> <threads> <seed> <calls>` starts a FRESH process (so
//! that the dispatch pointers are still uninitialised), in which `threads` threads are
//! released by a barrier into their first dispatched calls (the seven routines, mixed),
//! each on its own inputs, and compare every answer with the sequential naive oracle; a
//! shared `Finder`, `FinderRev` and cloned iterators are searched concurrently as well.

use std::sync::{Arc, Barrier};

struct Lcg(u64);
impl Lcg {
    fn next(&mut self) -> u64 {
        self.0 = self.0.wrapping_mul(6364136223846793005).wrapping_add(1442695040888963407);
        self.0 >> 33
    }
    fn below(&mut self, n: u64) -> u64 {
        self.next() % n
    }
}

fn naive_pos(h: &[u8], ns: &[u8], rev: bool) -> Option<usize> {
    if rev {
        h.iter().rposition(|b| ns.contains(b))
    } else {
        h.iter().position(|b| ns.contains(b))
    }
}

fn one_call(r: &mut Lcg, shared: &Shared, first: Option<u64>) -> u64 {
    // one call in four works on a haystack of several 64 KiB blocks with a handful of matches
    // (an answer assembled block-wise or from a partial scan is wrong there)
    // (only the FIRST call of a thread can overlap CPU detection: make it a big one more often)
    let big = if first.is_some() { r.below(4) != 0 } else { r.below(4) == 0 };
    let len = if big { 66_000 + r.below(250_000) as usize } else { r.below(90) as usize };
    let dens = if big { 30_000 + r.below(60_000) } else { r.below(20) + 1 };
    let ns = [b'a', b'b', b'c'];
    let k = 1 + r.below(3) as usize;
    let off = r.below(16) as usize;
    let mut buf = vec![b'.'; len + off];
    for b in buf[off..].iter_mut() {
        if r.below(dens) == 0 {
            *b = ns[r.below(3) as usize];
        }
    }
    let h = &buf[off..];
    let mut bad = 0;
    // the first call of every thread of a process goes to the SAME routine (chosen per process),
    // so that the threads really race that routine's first-call detection
    let drawn = r.below(9);
    let which = first.unwrap_or(drawn);
    match which {
        0..=5 => {
            let rev = which % 2 == 1;
            let got = match (k, rev) {
                (1, false) => memchr::memchr(ns[0], h),
                (1, true) => memchr::memrchr(ns[0], h),
                (2, false) => memchr::memchr2(ns[0], ns[1], h),
                (2, true) => memchr::memrchr2(ns[0], ns[1], h),
                (3, false) => memchr::memchr3(ns[0], ns[1], ns[2], h),
                _ => memchr::memrchr3(ns[0], ns[1], ns[2], h),
            };
            if got != naive_pos(h, &ns[..k], rev) {
                bad += 1;
            }
        }
        6 => {
            let got = memchr::memchr_iter(ns[0], h).count();
            if got != h.iter().filter(|&&b| b == ns[0]).count() {
                bad += 1;
            }
        }
        7 => {
            // shared finders
            let hay: Vec<u8> = (0..len).map(|_| shared.alphabet[r.below(shared.alphabet.len() as u64) as usize]).collect();
            if shared.finder.find(&hay) != crate::ops::naive_find(&hay, &shared.needle) {
                bad += 1;
            }
            if shared.finder_rev.rfind(&hay) != crate::ops::naive_rfind(&hay, &shared.needle) {
                bad += 1;
            }
        }
        _ => {
            // cloned iterators over the shared haystack
            let it = shared.finder.find_iter(&shared.hay);
            let got: Vec<usize> = it.clone().collect();
            if got != shared.expected_iter {
                bad += 1;
            }
            let got2: Vec<usize> = memchr::memchr_iter(b'a', &shared.hay).collect();
            let want2: Vec<usize> =
                shared.hay.iter().enumerate().filter(|(_, &b)| b == b'a').map(|(i, _)| i).collect();
            if got2 != want2 {
                bad += 1;
            }
        }
    }
    bad
}

struct Shared {
    needle: Vec<u8>,
    alphabet: Vec<u8>,
    finder: memchr::memmem::Finder<'static>,
    finder_rev: memchr::memmem::FinderRev<'static>,
    hay: Vec<u8>,
    expected_iter: Vec<usize>,
}

pub fn child(args: &[String]) {
    let threads: usize = args.get(0).and_then(|s| s.parse().ok()).unwrap_or(4);
    let seed: u64 = args.get(1).and_then(|s| s.parse().ok()).unwrap_or(1);
    let calls: usize = args.get(2).and_then(|s| s.parse().ok()).unwrap_or(50);
    let mut r = Lcg(seed.wrapping_mul(0x9E3779B97F4A7C15) ^ 0xABCDEF);
    let nlen = [1usize, 2, 5, 34, 40][r.below(5) as usize];
    let alphabet = vec![b'a', b'b'];
    let needle: Vec<u8> = (0..nlen).map(|_| alphabet[r.below(2) as usize]).collect();
    let hay: Vec<u8> = (0..400).map(|_| alphabet[r.below(2) as usize]).collect();
    // expected greedy matches computed sequentially with the naive oracle BEFORE any call
    // into the crate
    let mut expected_iter = Vec::new();
    let mut pos = 0;
    while pos <= hay.len() {
        match crate::ops::naive_find(&hay[pos..], &needle) {
            None => break,
            Some(i) => {
                expected_iter.push(pos + i);
                pos += i + needle.len().max(1);
            }
        }
    }
    // Finder construction does not call the dispatched memchr routines
    let shared = Arc::new(Shared {
        #[cfg(not(memchr_verif_noalloc))]
        finder: memchr::memmem::Finder::new(&needle).into_owned(),
        #[cfg(not(memchr_verif_noalloc))]
        finder_rev: memchr::memmem::FinderRev::new(&needle).into_owned(),
        #[cfg(memchr_verif_noalloc)]
        finder: memchr::memmem::Finder::new(Box::leak(needle.clone().into_boxed_slice())),
        #[cfg(memchr_verif_noalloc)]
        finder_rev: memchr::memmem::FinderRev::new(Box::leak(needle.clone().into_boxed_slice())),
        needle,
        alphabet,
        hay,
        expected_iter,
    });
    // a SPIN barrier: all threads leave it within nanoseconds of each other (a mutex/condvar
    // barrier wakes them one after the other)
    let barrier = Arc::new(std::sync::atomic::AtomicUsize::new(0));
    let first_kind = r.below(7);        // one of the seven dispatched routines / count
    let mut handles = Vec::new();
    for t in 0..threads {
        let b = barrier.clone();
        let sh = shared.clone();
        let mut rr = Lcg(seed ^ ((t as u64 + 1) * 0x1234567));
        handles.push(std::thread::spawn(move || {
            b.fetch_add(1, std::sync::atomic::Ordering::SeqCst);
            while b.load(std::sync::atomic::Ordering::SeqCst) < threads {
                std::hint::spin_loop();
            }
            let mut bad = 0u64;
            for k in 0..calls {
                bad += one_call(&mut rr, &sh, if k == 0 { Some(first_kind) } else { None });
            }
            bad
        }));
    }
    let mut bad = 0;
    for h in handles {
        bad += h.join().unwrap_or(1_000_000);
    }
    // Phase 2: FRESH finders raced on their very first searches (state that a finder
    // initialises lazily on first use would be raced here), short haystacks (Rabin-Karp
    // path) and longer ones, forward and reverse, every answer against the naive search.
    for round in 0..40u64 {
        let nl = 2 + r.below(4) as usize;
        let needle2: Vec<u8> = (0..nl).map(|_| [b'a', b'b'][r.below(2) as usize]).collect();
        let f = memchr::memmem::Finder::new(&needle2);
        let fr = memchr::memmem::FinderRev::new(&needle2);
        let hays: Vec<Vec<u8>> = (0..threads)
            .map(|_| {
                let l = if round % 4 == 3 { 40 + r.below(100) as usize } else { nl + r.below(10) as usize };
                let mut h: Vec<u8> = (0..l).map(|_| [b'a', b'b', b'.'][r.below(3) as usize]).collect();
                if r.below(4) != 0 && l >= nl {
                    let at = r.below((l - nl + 1) as u64) as usize;
                    h[at..at + nl].copy_from_slice(&needle2);
                }
                h
            })
            .collect();
        let barrier2 = Barrier::new(threads);
        let (f, fr, hays, needle2, barrier2) = (&f, &fr, &hays, &needle2, &barrier2);
        bad += std::thread::scope(|s| {
            let hs: Vec<_> = (0..threads)
                .map(|t| {
                    s.spawn(move || {
                        barrier2.wait();
                        let h = &hays[t];
                        (f.find(h) != crate::ops::naive_find(h, needle2)) as u64
                            + (fr.rfind(h) != crate::ops::naive_rfind(h, needle2)) as u64
                    })
                })
                .collect();
            hs.into_iter().map(|h| h.join().unwrap_or(1_000_000)).sum::<u64>()
        });
    }
    println!("{}", bad);
}

/// `conc <backend> <threads> <seed> <calls>`
pub fn conc(a: &[&str]) -> Option<String> {
    if a.len() != 4 {
        return None;
    }
    let exe = std::env::current_exe().ok()?;
    let out = std::process::Command::new(exe)
        .arg("conc-child")
        .arg(a[1])
        .arg(a[2])
        .arg(a[3])
        .output()
        .ok()?;
    if !out.status.success() {
        return Some(format!("fault panic [conc child exited with {:?}]", out.status.code()));
    }
    let s = String::from_utf8_lossy(&out.stdout);
    let bad: u64 = s.trim().parse().ok()?;
    Some(format!("ok {} steps=0 loads=- oracle=0", bad))
}
