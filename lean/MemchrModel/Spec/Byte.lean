/-
Naive executable specifications for the byte-search family, each with a Prop-level
characterisation so that a theorem `routine = spec` cannot be true merely because the spec
function is wrong.
-/
import MemchrModel.Base.Monad

namespace Memchr.Spec

/-- Smallest index `i < l.length` with `p l[i]`. -/
def firstIdx (p : UInt8 → Bool) (l : List UInt8) : Option Nat := l.findIdx? p

/-- Largest index `i < l.length` with `p l[i]`. -/
def lastIdx (p : UInt8 → Bool) : List UInt8 → Option Nat
  | [] => none
  | x :: xs =>
    match lastIdx p xs with
    | some i => some (i + 1)
    | none => if p x then some 0 else none

/-- Number of positions with `p`. -/
def countP (p : UInt8 → Bool) (l : List UInt8) : Nat := l.countP p

/-- The predicate "byte is one of the needles". -/
def isNeedle (ns : List UInt8) (b : UInt8) : Bool := ns.contains b

theorem firstIdx_eq_some_iff {p : UInt8 → Bool} {l : List UInt8} {i : Nat} :
    firstIdx p l = some i ↔
      ∃ h : i < l.length, p l[i] = true ∧ ∀ j (hj : j < i), p (l[j]'(Nat.lt_trans hj h)) = false := by
  unfold firstIdx
  rw [List.findIdx?_eq_some_iff_getElem]
  constructor
  · rintro ⟨h, hp, hn⟩
    exact ⟨h, hp, fun j hj => by simpa using hn j hj⟩
  · rintro ⟨h, hp, hn⟩
    exact ⟨h, hp, fun j hj => by simpa using hn j hj⟩

theorem firstIdx_eq_none_iff {p : UInt8 → Bool} {l : List UInt8} :
    firstIdx p l = none ↔ ∀ x ∈ l, p x = false := by
  unfold firstIdx
  simp [List.findIdx?_eq_none_iff]

theorem lastIdx_eq_none_iff {p : UInt8 → Bool} {l : List UInt8} :
    lastIdx p l = none ↔ ∀ x ∈ l, p x = false := by
  induction l with
  | nil => simp [lastIdx]
  | cons x xs ih =>
    simp only [lastIdx, List.mem_cons, forall_eq_or_imp]
    cases h : lastIdx p xs with
    | some i =>
      have : ¬ (∀ x ∈ xs, p x = false) := fun hh => by
        rw [ih.mpr hh] at h; cases h
      simp [this]
    | none =>
      have := ih.mp h
      by_cases hp : p x = true
      · simp [hp]
      · simp [hp]; exact this

theorem lastIdx_eq_some_iff {p : UInt8 → Bool} {l : List UInt8} {i : Nat} :
    lastIdx p l = some i ↔
      ∃ h : i < l.length, p l[i] = true ∧ ∀ j (hj : j < l.length), i < j → p l[j] = false := by
  induction l generalizing i with
  | nil => simp [lastIdx]
  | cons x xs ih =>
    simp only [lastIdx]
    cases h : lastIdx p xs with
    | some k =>
      obtain ⟨hk, hpk, hnk⟩ := ih.mp h
      constructor
      · intro hi
        simp only [Option.some.injEq] at hi
        subst hi
        refine ⟨by simp; omega, by simpa using hpk, ?_⟩
        intro j hj hlt
        obtain ⟨j', rfl⟩ : ∃ j', j = j' + 1 := ⟨j - 1, by omega⟩
        simp only [List.getElem_cons_succ]
        exact hnk j' (by simpa using hj) (by omega)
      · rintro ⟨hi, hpi, hni⟩
        simp only [Option.some.injEq]
        rcases Nat.lt_trichotomy i (k + 1) with hlt | heq | hgt
        · have := hni (k + 1) (by simp; omega) hlt
          simp only [List.getElem_cons_succ] at this
          rw [this] at hpk; cases hpk
        · exact heq.symm
        · obtain ⟨i', rfl⟩ : ∃ i', i = i' + 1 := ⟨i - 1, by omega⟩
          simp only [List.getElem_cons_succ] at hpi
          have := hnk i' (by simpa using hi) (by omega)
          rw [this] at hpi; cases hpi
    | none =>
      have hall := lastIdx_eq_none_iff.mp h
      by_cases hp : p x = true
      · simp only [hp, if_true, Option.some.injEq]
        constructor
        · intro hi; subst hi
          refine ⟨by simp, by simpa using hp, ?_⟩
          intro j hj hlt
          obtain ⟨j', rfl⟩ : ∃ j', j = j' + 1 := ⟨j - 1, by omega⟩
          simp only [List.getElem_cons_succ]
          exact hall _ (List.getElem_mem _)
        · rintro ⟨hi, hpi, _⟩
          cases i with
          | zero => rfl
          | succ i' =>
            simp only [List.getElem_cons_succ] at hpi
            rw [hall _ (List.getElem_mem _)] at hpi; cases hpi
      · simp only [hp, Bool.false_eq_true, if_false]
        constructor
        · intro hh; cases hh
        · rintro ⟨hi, hpi, _⟩
          cases i with
          | zero => simp at hpi; exact absurd hpi hp
          | succ i' =>
            simp only [List.getElem_cons_succ] at hpi
            rw [hall _ (List.getElem_mem _)] at hpi; cases hpi

end Memchr.Spec
