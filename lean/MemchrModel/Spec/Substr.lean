/-
Naive executable specifications for substring search, with Prop-level characterisations.
Haystacks and needles are `Array UInt8` (what the driver holds); positions are `Nat`.
-/
import MemchrModel.Base.Monad

namespace Memchr.Spec

/-- `needle` occurs in `hay` at offset `i` (Prop form). -/
def OccAt (hay needle : Array UInt8) (i : Nat) : Prop :=
  i + needle.size ≤ hay.size ∧ ∀ k, k < needle.size → hay[i + k]? = needle[k]?

/-- executable form: compare `needle.size` bytes at offset `i` -/
def occAtLoop (hay needle : Array UInt8) (i : Nat) : Nat → Bool
  | 0 => true
  | k + 1 => hay[i + k]? == needle[k]? && occAtLoop hay needle i k

def occAt (hay needle : Array UInt8) (i : Nat) : Bool :=
  decide (i + needle.size ≤ hay.size) && occAtLoop hay needle i needle.size

/-- smallest occurrence at an offset `>= from`, scanning at most `fuel` offsets -/
def leftmostFrom (hay needle : Array UInt8) (i : Nat) : Nat → Option Nat
  | 0 => none
  | fuel + 1 => if occAt hay needle i then some i else leftmostFrom hay needle (i + 1) fuel

/-- leftmost occurrence (`memmem::find`): `some 0` for the empty needle -/
def leftmost (hay needle : Array UInt8) : Option Nat :=
  leftmostFrom hay needle 0 (hay.size + 1)

/-- greatest occurrence at an offset `< bound` -/
def rightmostBelow (hay needle : Array UInt8) : Nat → Option Nat
  | 0 => none
  | b + 1 => if occAt hay needle b then some b else rightmostBelow hay needle b

/-- rightmost occurrence (`memmem::rfind`): `some hay.size` for the empty needle -/
def rightmost (hay needle : Array UInt8) : Option Nat :=
  rightmostBelow hay needle (hay.size + 1)

/-- the greedy non-overlapping forward match sequence of `find_iter`: repeatedly take the
leftmost occurrence at or after `pos` and resume at its end (`+ max 1 needle.size`). -/
def greedyFwdFrom (hay needle : Array UInt8) (pos : Nat) : Nat → List Nat
  | 0 => []
  | fuel + 1 =>
    match leftmostFrom hay needle pos (hay.size + 1 - pos) with
    | none => []
    | some i => i :: greedyFwdFrom hay needle (i + max 1 needle.size) fuel

def greedyFwd (hay needle : Array UInt8) : List Nat := greedyFwdFrom hay needle 0 (hay.size + 1)

/-- the mirror-image sequence of `rfind_iter`: repeatedly take the rightmost occurrence that
ends at or before `bound` (an occurrence at `i` ends at `i + needle.size`) and continue with
`bound := i` (for the empty needle `bound := i - 1`, stopping after offset 0). -/
def greedyRevFrom (hay needle : Array UInt8) (bound : Nat) : Nat → List Nat
  | 0 => []
  | fuel + 1 =>
    if bound < needle.size then [] else
    match rightmostBelow hay needle (bound - needle.size + 1) with
    | none => []
    | some i =>
      if needle.size = 0 then
        (if i = 0 then [i] else i :: greedyRevFrom hay needle (i - 1) fuel)
      else i :: greedyRevFrom hay needle i fuel

def greedyRev (hay needle : Array UInt8) : List Nat :=
  greedyRevFrom hay needle hay.size (hay.size + 1)

/-! ### characterisations -/

theorem occAtLoop_iff (hay needle : Array UInt8) (i n : Nat) :
    occAtLoop hay needle i n = true ↔ ∀ k, k < n → hay[i + k]? = needle[k]? := by
  induction n with
  | zero => simp [occAtLoop]
  | succ n ih =>
    simp only [occAtLoop, Bool.and_eq_true, beq_iff_eq, ih]
    constructor
    · rintro ⟨h1, h2⟩ k hk
      by_cases hkn : k = n
      · subst hkn; exact h1
      · exact h2 k (by omega)
    · intro h
      exact ⟨h n (by omega), fun k hk => h k (by omega)⟩

theorem occAt_iff (hay needle : Array UInt8) (i : Nat) :
    occAt hay needle i = true ↔ OccAt hay needle i := by
  simp [occAt, OccAt, occAtLoop_iff]

theorem leftmostFrom_eq_some_iff (hay needle : Array UInt8) (i fuel r : Nat) :
    leftmostFrom hay needle i fuel = some r ↔
      i ≤ r ∧ r < i + fuel ∧ OccAt hay needle r ∧ ∀ j, i ≤ j → j < r → ¬ OccAt hay needle j := by
  induction fuel generalizing i with
  | zero => simp [leftmostFrom]; omega
  | succ fuel ih =>
    simp only [leftmostFrom]
    by_cases h : occAt hay needle i = true
    · simp only [h, if_true, Option.some.injEq]
      constructor
      · intro hr; subst hr
        exact ⟨Nat.le_refl _, by omega, (occAt_iff _ _ _).mp h, fun j h1 h2 => by omega⟩
      · rintro ⟨h1, _, _, h4⟩
        by_cases hir : i = r
        · exact hir
        · exact absurd ((occAt_iff _ _ _).mp h) (h4 i (Nat.le_refl _) (by omega))
    · simp only [h, Bool.false_eq_true, if_false, ih]
      have hn : ¬ OccAt hay needle i := fun hh => h ((occAt_iff _ _ _).mpr hh)
      constructor
      · rintro ⟨h1, h2, h3, h4⟩
        refine ⟨by omega, by omega, h3, ?_⟩
        intro j hj1 hj2
        by_cases hji : j = i
        · subst hji; exact hn
        · exact h4 j (by omega) hj2
      · rintro ⟨h1, h2, h3, h4⟩
        have : i ≠ r := fun hh => hn (hh ▸ h3)
        exact ⟨by omega, by omega, h3, fun j hj1 hj2 => h4 j (by omega) hj2⟩

theorem leftmostFrom_eq_none_iff (hay needle : Array UInt8) (i fuel : Nat) :
    leftmostFrom hay needle i fuel = none ↔ ∀ j, i ≤ j → j < i + fuel → ¬ OccAt hay needle j := by
  induction fuel generalizing i with
  | zero => simp [leftmostFrom]; omega
  | succ fuel ih =>
    simp only [leftmostFrom]
    by_cases h : occAt hay needle i = true
    · simp only [h, if_true]
      constructor
      · intro hh; cases hh
      · intro hh
        exact absurd ((occAt_iff _ _ _).mp h) (hh i (Nat.le_refl _) (by omega))
    · simp only [h, Bool.false_eq_true, if_false, ih]
      have hn : ¬ OccAt hay needle i := fun hh => h ((occAt_iff _ _ _).mpr hh)
      constructor
      · intro hh j hj1 hj2
        by_cases hji : j = i
        · subst hji; exact hn
        · exact hh j (by omega) (by omega)
      · intro hh j hj1 hj2
        exact hh j (by omega) (by omega)

/-- no occurrence starts beyond `hay.size` -/
theorem OccAt.le_size {hay needle : Array UInt8} {i : Nat} (h : OccAt hay needle i) :
    i ≤ hay.size := by
  have := h.1; omega

theorem leftmost_eq_some_iff (hay needle : Array UInt8) (r : Nat) :
    leftmost hay needle = some r ↔ OccAt hay needle r ∧ ∀ j, j < r → ¬ OccAt hay needle j := by
  unfold leftmost
  rw [leftmostFrom_eq_some_iff]
  constructor
  · rintro ⟨_, _, h3, h4⟩
    exact ⟨h3, fun j hj => h4 j (Nat.zero_le _) hj⟩
  · rintro ⟨h3, h4⟩
    exact ⟨Nat.zero_le _, by have := h3.le_size; omega, h3, fun j _ hj => h4 j hj⟩

theorem leftmost_eq_none_iff (hay needle : Array UInt8) :
    leftmost hay needle = none ↔ ∀ j, ¬ OccAt hay needle j := by
  unfold leftmost
  rw [leftmostFrom_eq_none_iff]
  constructor
  · intro h j hj
    exact h j (Nat.zero_le _) (by have := hj.le_size; omega) hj
  · intro h j _ _
    exact h j

theorem rightmostBelow_eq_some_iff (hay needle : Array UInt8) (b r : Nat) :
    rightmostBelow hay needle b = some r ↔
      r < b ∧ OccAt hay needle r ∧ ∀ j, r < j → j < b → ¬ OccAt hay needle j := by
  induction b with
  | zero => simp [rightmostBelow]
  | succ b ih =>
    simp only [rightmostBelow]
    by_cases h : occAt hay needle b = true
    · simp only [h, if_true, Option.some.injEq]
      constructor
      · intro hr; subst hr
        exact ⟨by omega, (occAt_iff _ _ _).mp h, fun j h1 h2 => by omega⟩
      · rintro ⟨h1, _, h4⟩
        by_cases hbr : b = r
        · exact hbr
        · exact absurd ((occAt_iff _ _ _).mp h) (h4 b (by omega) (by omega))
    · simp only [h, Bool.false_eq_true, if_false, ih]
      have hn : ¬ OccAt hay needle b := fun hh => h ((occAt_iff _ _ _).mpr hh)
      constructor
      · rintro ⟨h1, h3, h4⟩
        refine ⟨by omega, h3, ?_⟩
        intro j hj1 hj2
        by_cases hjb : j = b
        · subst hjb; exact hn
        · exact h4 j hj1 (by omega)
      · rintro ⟨h1, h3, h4⟩
        have : r ≠ b := fun hh => hn (hh ▸ h3)
        exact ⟨by omega, h3, fun j hj1 hj2 => h4 j hj1 (by omega)⟩

theorem rightmostBelow_eq_none_iff (hay needle : Array UInt8) (b : Nat) :
    rightmostBelow hay needle b = none ↔ ∀ j, j < b → ¬ OccAt hay needle j := by
  induction b with
  | zero => simp [rightmostBelow]
  | succ b ih =>
    simp only [rightmostBelow]
    by_cases h : occAt hay needle b = true
    · simp only [h, if_true]
      constructor
      · intro hh; cases hh
      · intro hh
        exact absurd ((occAt_iff _ _ _).mp h) (hh b (by omega))
    · simp only [h, Bool.false_eq_true, if_false, ih]
      have hn : ¬ OccAt hay needle b := fun hh => h ((occAt_iff _ _ _).mpr hh)
      constructor
      · intro hh j hj
        by_cases hjb : j = b
        · subst hjb; exact hn
        · exact hh j (by omega)
      · intro hh j hj
        exact hh j (by omega)

theorem rightmost_eq_some_iff (hay needle : Array UInt8) (r : Nat) :
    rightmost hay needle = some r ↔ OccAt hay needle r ∧ ∀ j, r < j → ¬ OccAt hay needle j := by
  unfold rightmost
  rw [rightmostBelow_eq_some_iff]
  constructor
  · rintro ⟨_, h3, h4⟩
    refine ⟨h3, fun j hj hocc => ?_⟩
    exact h4 j hj (by have := hocc.le_size; omega) hocc
  · rintro ⟨h3, h4⟩
    exact ⟨by have := h3.le_size; omega, h3, fun j hj _ => h4 j hj⟩

theorem rightmost_eq_none_iff (hay needle : Array UInt8) :
    rightmost hay needle = none ↔ ∀ j, ¬ OccAt hay needle j := by
  unfold rightmost
  rw [rightmostBelow_eq_none_iff]
  constructor
  · intro h j hj
    exact h j (by have := hj.le_size; omega) hj
  · intro h j _
    exact h j

end Memchr.Spec
