/-
Base: faults, step counter + load trace, the state/fault monad `M`, memory regions.

Everything here is import-free (Lean core only) so that the line-protocol driver
links as a `lean_exe`.

Conventions (DESIGN.md section 3.1):
* `usize` values and addresses are unbounded `Nat`.
* every load goes through `Mem.loadU` / `Mem.loadA`, which fault when the range is
  not inside the region (and, for `loadA`, when the address is not a multiple of
  the width) and append to the load trace;
* every `debug_assert!` is `dbgAssert site cond`, every `assert!` is `assert site cond`,
  every `usize` subtraction that rustc would check is `csub site a b`.
-/

namespace Memchr

inductive Fault where
  | oobRead (region addr len : Nat)
  | misaligned (addr width : Nat)
  | overflow (site : String)
  | ptrOob (site : String)
  | debugAssert (site : String)
  | panic (site : String)
  deriving Repr, DecidableEq, Inhabited

/-- One recorded load: which region, offset from the region base, width, and whether the
code treated it as an aligned load. -/
structure Load where
  region : Nat
  off : Nat
  width : Nat
  aligned : Bool
  deriving Repr, DecidableEq, Inhabited

/-- Step counter (ticks where hook H2 ticks) and load trace (most recent first). -/
structure Ctr where
  steps : Nat := 0
  loads : List Load := []
  deriving Repr, Inhabited

inductive Res (α : Type) where
  | ok (a : α) (c : Ctr)
  | fault (f : Fault)
  deriving Repr

def M (α : Type) := Ctr → Res α

namespace M

@[inline] protected def pure (a : α) : M α := fun c => .ok a c

@[inline] protected def bind (m : M α) (f : α → M β) : M β := fun c =>
  match m c with
  | .ok a c' => f a c'
  | .fault e => .fault e

instance : Monad M where
  pure := M.pure
  bind := M.bind

@[simp] theorem pure_run (a : α) (c : Ctr) : (pure a : M α) c = .ok a c := rfl

@[simp] theorem bind_run (m : M α) (f : α → M β) (c : Ctr) :
    (m >>= f) c = (match m c with | .ok a c' => f a c' | .fault e => .fault e) := rfl

@[simp] theorem map_run (g : α → β) (m : M α) (c : Ctr) :
    (g <$> m) c = (match m c with | .ok a c' => .ok (g a) c' | .fault e => .fault e) := by
  show (m >>= fun a => pure (g a)) c = _
  simp only [bind_run]
  cases m c <;> rfl

end M

/-- Raise a fault. -/
@[inline] def fail (f : Fault) : M α := fun _ => .fault f

@[simp] theorem fail_run (f : Fault) (c : Ctr) : (fail f : M α) c = .fault f := rfl

/-- One elementary step (hook H2 `tick`). -/
@[inline] def tick (n : Nat := 1) : M Unit := fun c => .ok () { c with steps := c.steps + n }

@[simp] theorem tick_run (n : Nat) (c : Ctr) :
    tick n c = .ok () { c with steps := c.steps + n } := rfl

/-- `debug_assert!(cond)` -/
@[inline] def dbgAssert (site : String) (cond : Bool) : M Unit :=
  if cond then pure () else fail (.debugAssert site)

/-- `assert!(cond)` (panics in every build) -/
@[inline] def assert (site : String) (cond : Bool) : M Unit :=
  if cond then pure () else fail (.panic site)

/-- checked `usize` subtraction (`a - b` under overflow checks; also pointer `sub`
that would leave the allocation downwards). -/
@[inline] def csub (site : String) (a b : Nat) : M Nat :=
  if b ≤ a then pure (a - b) else fail (.overflow site)

@[simp] theorem dbgAssert_true (site : String) : dbgAssert site true = pure () := rfl
@[simp] theorem dbgAssert_false (site : String) : dbgAssert site false = fail (.debugAssert site) := rfl
@[simp] theorem assert_true (site : String) : assert site true = pure () := rfl
@[simp] theorem assert_false (site : String) : assert site false = fail (.panic site) := rfl

theorem csub_of_le (site : String) {a b : Nat} (h : b ≤ a) : csub site a b = pure (a - b) := by
  simp [csub, h]

theorem csub_of_lt (site : String) {a b : Nat} (h : a < b) : csub site a b = fail (.overflow site) := by
  have : ¬ b ≤ a := by omega
  simp [csub, this]

/-- `m` started in `c` returns normally with a value and final counter satisfying `Q`. -/
def Holds (m : M α) (c : Ctr) (Q : α → Ctr → Prop) : Prop :=
  ∃ a c', m c = .ok a c' ∧ Q a c'

/-- The run faults with `f`. -/
def Faults (m : M α) (c : Ctr) (f : Fault) : Prop := m c = .fault f

/-- Project the value of a run (for the driver and for statements that do not care about
the counter). -/
def Res.val? : Res α → Option α
  | .ok a _ => some a
  | .fault _ => none

/-! ### Memory regions -/

/-- A readable region of memory: an id (0 = haystack, 1 = needle, ...), its base address
and its bytes. A raw pointer into it is a `Nat` address in `[base, base + size]`. -/
structure Mem where
  region : Nat := 0
  base : Nat
  bytes : Array UInt8
  deriving Repr, Inhabited

namespace Mem

@[inline] def size (m : Mem) : Nat := m.bytes.size
@[inline] def endAddr (m : Mem) : Nat := m.base + m.bytes.size

/-- Byte at absolute address `a` (0 outside; only used after a bounds check). -/
@[inline] def byteAt (m : Mem) (a : Nat) : UInt8 := (m.bytes[a - m.base]?).getD 0

/-- `[a, a+len)` lies inside the region. -/
@[inline] def inb (m : Mem) (a len : Nat) : Bool := m.base ≤ a && a + len ≤ m.base + m.bytes.size

/-- `ptr.add(k)`: the result must stay inside the allocation (one past the end allowed);
anything else is undefined behaviour in Rust. -/
@[inline] def padd (m : Mem) (site : String) (p k : Nat) : M Nat :=
  if m.base ≤ p && p + k ≤ m.base + m.bytes.size then pure (p + k) else fail (.ptrOob site)

/-- `ptr.sub(k)` -/
@[inline] def psub (m : Mem) (site : String) (p k : Nat) : M Nat :=
  if m.base + k ≤ p && p ≤ m.base + m.bytes.size then pure (p - k) else fail (.ptrOob site)

/-- `a.distance(b)` = `usize::try_from(a.offset_from(b)).unwrap_unchecked()`: both pointers in
the allocation and `b <= a`, else undefined behaviour. -/
@[inline] def distance (m : Mem) (site : String) (a b : Nat) : M Nat :=
  if m.base ≤ b && b ≤ a && a ≤ m.base + m.bytes.size then pure (a - b) else fail (.ptrOob site)

/-- The `len` bytes at `a`. -/
def window (m : Mem) (a len : Nat) : List UInt8 :=
  (List.range len).map (fun i => m.byteAt (a + i))

/-- Unaligned load of `len` bytes at address `a` (`load_unaligned`, `read_unaligned`,
single-byte `read`). -/
def loadU (m : Mem) (a len : Nat) : M (List UInt8) := fun c =>
  if m.inb a len then
    .ok (m.window a len) { c with loads := ⟨m.region, a - m.base, len, false⟩ :: c.loads }
  else .fault (.oobRead m.region a len)

/-- Aligned load: additionally requires `a % len = 0` when `checkAlign` (the ISA's aligned
load instruction faults otherwise; NEON's `load_aligned` is an unaligned load). -/
def loadA (m : Mem) (a len : Nat) (checkAlign : Bool := true) : M (List UInt8) := fun c =>
  if m.inb a len then
    if checkAlign && a % len != 0 then .fault (.misaligned a len)
    else .ok (m.window a len) { c with loads := ⟨m.region, a - m.base, len, checkAlign⟩ :: c.loads }
  else .fault (.oobRead m.region a len)

/-- Single byte read `*ptr`. -/
def read (m : Mem) (a : Nat) : M UInt8 := fun c =>
  if m.inb a 1 then
    .ok (m.byteAt a) { c with loads := ⟨m.region, a - m.base, 1, false⟩ :: c.loads }
  else .fault (.oobRead m.region a 1)

end Mem

end Memchr
