/-
Rust slices `&[u8]`: a window of a memory region.  Safe indexing (`s[i]`, `&s[a..b]`) panics
when out of range; raw code takes `s.ptr` / `s.endPtr` and uses the `Mem` load functions.
-/
import MemchrModel.Base.Monad

namespace Memchr

structure Slice where
  mem : Mem
  /-- offset of the first byte from `mem.base` -/
  off : Nat
  len : Nat
  deriving Repr, Inhabited

namespace Slice

/-- the slice lies inside its region (every slice built by the functions below from a valid
one is valid) -/
def Valid (s : Slice) : Prop := s.off + s.len ≤ s.mem.bytes.size

/-- the whole region as a slice -/
@[inline] def ofMem (m : Mem) : Slice := ⟨m, 0, m.bytes.size⟩

/-- `s.as_ptr()` -/
@[inline] def ptr (s : Slice) : Nat := s.mem.base + s.off
/-- `s.as_ptr().add(s.len())` -/
@[inline] def endPtr (s : Slice) : Nat := s.mem.base + s.off + s.len

/-- byte `i` of the slice without a bounds check (0 outside; used after a check) -/
@[inline] def getD (s : Slice) (i : Nat) : UInt8 := (s.mem.bytes[s.off + i]?).getD 0

/-- `s[i]` (bounds-checked indexing; panics out of range) -/
@[inline] def get (s : Slice) (site : String) (i : Nat) : M UInt8 :=
  if i < s.len then pure (s.getD i) else fail (.panic site)

/-- `s.get(i)` (`Option`) -/
@[inline] def get? (s : Slice) (i : Nat) : Option UInt8 :=
  if i < s.len then some (s.getD i) else none

/-- `&s[a..]` -/
@[inline] def drop (s : Slice) (site : String) (a : Nat) : M Slice :=
  if a ≤ s.len then pure ⟨s.mem, s.off + a, s.len - a⟩ else fail (.panic site)

/-- `&s[..b]` -/
@[inline] def take (s : Slice) (site : String) (b : Nat) : M Slice :=
  if b ≤ s.len then pure ⟨s.mem, s.off, b⟩ else fail (.panic site)

/-- `&s[a..b]` -/
@[inline] def range (s : Slice) (site : String) (a b : Nat) : M Slice :=
  if a ≤ b && b ≤ s.len then pure ⟨s.mem, s.off + a, b - a⟩ else fail (.panic site)

/-- the bytes of the slice -/
def toArray (s : Slice) : Array UInt8 := s.mem.bytes.extract s.off (s.off + s.len)

def toList (s : Slice) : List UInt8 := (List.range s.len).map s.getD

end Slice

end Memchr
