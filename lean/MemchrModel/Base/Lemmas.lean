/-
Basic facts about `Mem`, loads and pointer arithmetic used by every proof file.
-/
import MemchrModel.Base.Monad

namespace Memchr

namespace Mem

@[simp] theorem window_length (m : Mem) (a len : Nat) : (m.window a len).length = len := by
  simp [window]

theorem window_getElem (m : Mem) (a len i : Nat) (h : i < (m.window a len).length) :
    (m.window a len)[i] = m.byteAt (a + i) := by
  simp [window]

theorem window_getElem? (m : Mem) (a len i : Nat) (h : i < len) :
    (m.window a len)[i]? = some (m.byteAt (a + i)) := by
  simp [window, h]

theorem inb_iff (m : Mem) (a len : Nat) :
    m.inb a len = true ↔ m.base ≤ a ∧ a + len ≤ m.base + m.bytes.size := by
  simp [inb]

theorem loadU_ok (m : Mem) (a len : Nat) (c : Ctr) (h1 : m.base ≤ a)
    (h2 : a + len ≤ m.base + m.bytes.size) :
    m.loadU a len c = .ok (m.window a len)
      { c with loads := ⟨m.region, a - m.base, len, false⟩ :: c.loads } := by
  have : m.inb a len = true := (inb_iff m a len).mpr ⟨h1, h2⟩
  simp [loadU, this]

theorem loadA_ok (m : Mem) (a len : Nat) (chk : Bool) (c : Ctr) (h1 : m.base ≤ a)
    (h2 : a + len ≤ m.base + m.bytes.size) (h3 : chk = true → a % len = 0) :
    m.loadA a len chk c = .ok (m.window a len)
      { c with loads := ⟨m.region, a - m.base, len, chk⟩ :: c.loads } := by
  have : m.inb a len = true := (inb_iff m a len).mpr ⟨h1, h2⟩
  cases chk with
  | false => simp [loadA, this]
  | true => simp [loadA, this, h3 rfl]

theorem read_ok (m : Mem) (a : Nat) (c : Ctr) (h1 : m.base ≤ a)
    (h2 : a < m.base + m.bytes.size) :
    m.read a c = .ok (m.byteAt a)
      { c with loads := ⟨m.region, a - m.base, 1, false⟩ :: c.loads } := by
  have : m.inb a 1 = true := (inb_iff m a 1).mpr ⟨h1, by omega⟩
  simp [read, this]

theorem padd_ok (m : Mem) (site : String) (p k : Nat) (h1 : m.base ≤ p)
    (h2 : p + k ≤ m.base + m.bytes.size) : m.padd site p k = pure (p + k) := by
  simp [padd, h1, h2]

theorem psub_ok (m : Mem) (site : String) (p k : Nat) (h1 : m.base + k ≤ p)
    (h2 : p ≤ m.base + m.bytes.size) : m.psub site p k = pure (p - k) := by
  simp [psub, h1, h2]

theorem distance_ok (m : Mem) (site : String) (a b : Nat) (h1 : m.base ≤ b) (h2 : b ≤ a)
    (h3 : a ≤ m.base + m.bytes.size) : m.distance site a b = pure (a - b) := by
  simp [distance, h1, h2, h3]

end Mem

theorem Holds.intro {m : M α} {c : Ctr} {Q : α → Ctr → Prop} (a : α) (c' : Ctr)
    (h : m c = .ok a c') (hq : Q a c') : Holds m c Q := ⟨a, c', h, hq⟩

end Memchr
