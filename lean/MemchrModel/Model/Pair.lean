/-
Model of `src/arch/all/packedpair/mod.rs`:

* `Pair::{new, with_ranker, with_indices}` (pair selection, property C19);
* the architecture independent `Finder::{new, with_pair, find_prefilter}` (property C11).

This is safe Rust only: no raw loads, hence an empty load trace.  A `&[u8]` is a `Slice`;
`needle[k]` is `Slice.get` (panic site).  The crate's top-level `memchr` called by
`find_prefilter` is a parameter of the model (an external call).
-/
import MemchrModel.Base.Slice
import MemchrModel.Spec.Byte
import MemchrModel.Generated.Consts
import MemchrModel.Generated.DefaultRank

set_option linter.unusedVariables false

namespace Memchr

/-- `packedpair::Pair` -/
structure Pair where
  index1 : UInt8
  index2 : UInt8
  deriving Repr, DecidableEq, Inhabited

namespace Pair

/-- `u8::try_from(i).unwrap()` -/
@[inline] def u8TryFrom (site : String) (i : Nat) : M UInt8 :=
  if i ≤ 255 then pure (UInt8.ofNat i) else fail (.panic site)

/-- `DefaultFrequencyRank::rank`: `RANK[usize::from(byte)]` (a `[u8; 256]` indexed by a `u8`:
cannot be out of range, see `Pair.defaultRankTable_size` in the proofs) -/
@[inline] def defaultRank (b : UInt8) : UInt8 := (Generated.defaultRankTable[b.toNat]?).getD 0

/-- The body of `for (i, &b) in needle.iter().enumerate().take(max).skip(2)`.
`stop = min(needle.len(), max)`; the iterator yields `needle[i]` for `i < stop` without a
bounds check (`getD`). -/
def scanLoop (needle : Slice) (rank : UInt8 → UInt8) (stop i : Nat)
    (rare1 index1 rare2 index2 : UInt8) : M (UInt8 × UInt8) :=
  if h : i < stop then do
    tick
    let b := needle.getD i
    if rank b < rank rare1 then do
      let i8 ← u8TryFrom "with_ranker: index1 = u8::try_from(i).unwrap()" i
      scanLoop needle rank stop (i + 1) b i8 rare1 index1
    else if b != rare1 && rank b < rank rare2 then do
      let i8 ← u8TryFrom "with_ranker: index2 = u8::try_from(i).unwrap()" i
      scanLoop needle rank stop (i + 1) rare1 index1 b i8
    else scanLoop needle rank stop (i + 1) rare1 index1 rare2 index2
  else pure (index1, index2)
termination_by stop - i

/-- `Pair::with_ranker(needle, ranker)`; the ranker is a total function `u8 -> u8`. -/
def withRanker (needle : Slice) (rank : UInt8 → UInt8) : M (Option Pair) := do
  if needle.len ≤ 1 then pure none else
  let n0 ← needle.get "with_ranker: needle[0]" 0
  let n1 ← needle.get "with_ranker: needle[1]" 1
  -- `if ranker.rank(rare2) < ranker.rank(rare1) { swap; swap }`
  let swap := rank n1 < rank n0
  let rare1 := if swap then n1 else n0
  let index1 : UInt8 := if swap then 1 else 0
  let rare2 := if swap then n0 else n1
  let index2 : UInt8 := if swap then 0 else 1
  let max := Generated.pairScanMax
  let (index1, index2) ←
    scanLoop needle rank (min needle.len max) Generated.pairScanSkip rare1 index1 rare2 index2
  assert "with_ranker: assert_ne!(index1, index2)" (index1 != index2)
  pure (some ⟨index1, index2⟩)

/-- `Pair::new(needle)` -/
def new (needle : Slice) : M (Option Pair) := withRanker needle defaultRank

/-- `Pair::with_indices(needle, index1, index2)` -/
def withIndices (needle : Slice) (index1 index2 : UInt8) : Option Pair :=
  if index1 == index2 then none
  else if index1.toNat ≥ needle.len then none
  else if index2.toNat ≥ needle.len then none
  else some ⟨index1, index2⟩

end Pair

/-! ### the architecture independent packed-pair prefilter -/

namespace Fallback

/-- `packedpair::Finder` -/
structure Finder where
  pair : Pair
  byte1 : UInt8
  byte2 : UInt8
  deriving Repr, Inhabited

/-- `Finder::with_pair(needle, pair)` -/
def withPair (needle : Slice) (pair : Pair) : M (Option Finder) := do
  let byte1 ← needle.get "with_pair: needle[usize::from(pair.index1())]" pair.index1.toNat
  let byte2 ← needle.get "with_pair: needle[usize::from(pair.index2())]" pair.index2.toNat
  pure (some ⟨pair, byte1, byte2⟩)

/-- `Finder::new(needle)` -/
def Finder.new (needle : Slice) : M (Option Finder) := do
  match ← Pair.new needle with
  | none => pure none
  | some pair => withPair needle pair

/-- What the model assumes about the external call `crate::memchr(b, s)`: it returns the
offset of the first `b` in `s` and never faults on a valid slice.  Its cost is at most the
number of bytes it had to look at (`k + 1` for the answer `Some(k)`, `s.len()` for `None`)
plus a constant `K`.  The integrator instantiates this with the real dispatch model. -/
def scanned (r : Option Nat) (len : Nat) : Nat :=
  match r with
  | some k => k + 1
  | none => len

def MemchrOk (memchr : UInt8 → Slice → M (Option Nat)) (K : Nat) : Prop :=
  ∀ (b : UInt8) (s : Slice) (c : Ctr), s.Valid →
    ∃ c', memchr b s c = .ok (Spec.firstIdx (· == b) s.toList) c' ∧
      c'.steps ≤ c.steps + scanned (Spec.firstIdx (· == b) s.toList) s.len + K

/-- The simplest `memchr` satisfying `MemchrOk` (with `K = 0`): the specification itself, at no
cost.  Used by the driver until the real dispatch model is plugged in. -/
def specMemchr (b : UInt8) (s : Slice) : M (Option Nat) :=
  pure (Spec.firstIdx (· == b) s.toList)

/-- The `loop { .. }` of `find_prefilter`; `i` is the loop variable.  `&haystack[i..]` panics
when `i > haystack.len()`; the check is the `if` so that termination is visible (`i` grows by
at least one per iteration).  `usize` is unbounded, so `i += ..`, `i += 1` cannot overflow
and `aligned1.checked_add(index2)` is never `None`. -/
def findPrefilterLoop (memchr : UInt8 → Slice → M (Option Nat)) (f : Finder) (hay : Slice)
    (index1 index2 i : Nat) : M (Option Nat) :=
  if h : i ≤ hay.len then do
    tick
    let sub ← hay.drop "find_prefilter: &haystack[i..]" i
    match ← memchr f.byte1 sub with
    | none => pure none
    | some k =>
      let found := i + k
      let i' := found + 1
      -- `found.checked_sub(index1)`
      if found < index1 then findPrefilterLoop memchr f hay index1 index2 i' else
      let aligned1 := found - index1
      -- `aligned1.checked_add(index2)`
      let aligned2 := aligned1 + index2
      -- `haystack.get(aligned2).map_or(true, |&b| b != self.byte2)`
      match hay.get? aligned2 with
      | none => findPrefilterLoop memchr f hay index1 index2 i'
      | some b =>
        if b != f.byte2 then findPrefilterLoop memchr f hay index1 index2 i'
        else pure (some aligned1)
  else fail (.panic "find_prefilter: &haystack[i..]")
termination_by hay.len + 1 - i
decreasing_by all_goals omega

/-- `Finder::find_prefilter(haystack)` -/
def findPrefilter (memchr : UInt8 → Slice → M (Option Nat)) (f : Finder) (hay : Slice) :
    M (Option Nat) :=
  findPrefilterLoop memchr f hay f.pair.index1.toNat f.pair.index2.toNat 0

end Fallback

end Memchr
