/-
Model of `src/arch/all/twoway.rs` (the whole file): `ApproximateByteSet`, `SuffixKind`,
`SuffixOrdering`, `Suffix::{forward, reverse}`, `Shift::{forward, reverse}`, `TwoWay`,
`Finder::{new, find, find_with_prefilter, find_small_imp, find_large_imp}` and
`FinderRev::{new, rfind, rfind_small_imp, rfind_large_imp}`.

Index based like the Rust: needle and haystack are `Slice`s, `needle[i]` / `haystack[pos + i]`
are `Slice.get` (panic sites), every `usize` subtraction is a `csub`.  `tick` where the Rust
has a `crate::verif::tick` hook: one per outer-loop iteration, one per executed body of a
comparison loop, one per `Suffix` loop iteration, one per needle byte in
`ApproximateByteSet::new`.

`Finder` and `FinderRev` are both newtypes around `TwoWay`; here the functions in namespaces
`Finder` / `FinderRev` take the `TwoWay` value directly.

Termination.  `Suffix` loops: lexicographic measures (see there), no side condition.  The
four outer search loops are well-founded recursions on `haystack.len + 1 - pos` (forward) and
`pos` (reverse) *directly* (no "step function"); every way the Rust advances `pos` is visibly
positive except `pos += period` / `pos += shift` (`pos -= ...` in reverse) when the stored
`period` / `shift` is `0`.  For such a (never constructed) `TwoWay` value the Rust loop would
stop making progress; the model turns exactly that step into `fail (.panic "...: no
progress")` (`Finder.new` / `FinderRev.new` always produce values `>= 1`, which is a theorem).
The loops are only entered with a non-empty needle (`checked_sub(1)` / `needle.get(0)`
returned early otherwise); the loop functions carry that fact as the argument `hn`.

Because `Pre` is threaded mutably through the forward loops and the caller keeps the state
across calls, the forward search functions return `(result, final pre)`.
-/
import MemchrModel.Model.IsEqual
import MemchrModel.Model.Prefilter
import MemchrModel.Generated.Consts

set_option linter.unusedVariables false

namespace Memchr.TwoWay

/-! ### `ApproximateByteSet` -/

/-- `struct ApproximateByteSet(u64)` -/
structure ApproximateByteSet where
  bits : UInt64
  deriving Repr, DecidableEq, Inhabited

/-- `1 << k` on `u64` (`k` is a `u8` value): overflow-checked shift -/
@[inline] def shl1 (site : String) (k : Nat) : M UInt64 :=
  if k < 64 then pure ((1 : UInt64) <<< k.toUInt64) else fail (.overflow site)

namespace ApproximateByteSet

/-- the `for &b in needle` loop of `ApproximateByteSet::new`; `i` is the iterator position -/
def newLoop (needle : Slice) (i : Nat) (bits : UInt64) : M UInt64 :=
  if h : i < needle.len then do
    let b := needle.getD i
    tick
    let m ← shl1 "ApproximateByteSet::new: 1 << (b % 64)" (b.toNat % Generated.byteSetModulus)
    newLoop needle (i + 1) (bits ||| m)
  else pure bits
termination_by needle.len - i

/-- `ApproximateByteSet::new(needle)` -/
def new (needle : Slice) : M ApproximateByteSet := do
  let bits ← newLoop needle 0 0
  pure ⟨bits⟩

/-- `contains(&self, byte)` = `self.0 & (1 << (byte % 64)) != 0` -/
def contains (s : ApproximateByteSet) (byte : UInt8) : M Bool := do
  let m ← shl1 "ApproximateByteSet::contains: 1 << (byte % 64)"
    (byte.toNat % Generated.byteSetModulusContains)
  pure (s.bits &&& m != 0)

end ApproximateByteSet

/-! ### `SuffixKind`, `SuffixOrdering`, `Suffix` -/

inductive SuffixKind where
  | minimal
  | maximal
  deriving Repr, DecidableEq, Inhabited

inductive SuffixOrdering where
  | accept
  | skip
  | push
  deriving Repr, DecidableEq, Inhabited

/-- `SuffixKind::cmp(self, current, candidate)` -/
def SuffixKind.cmp (kind : SuffixKind) (current candidate : UInt8) : SuffixOrdering :=
  match kind with
  | .minimal =>
    if candidate < current then .accept
    else if candidate > current then .skip
    else .push
  | .maximal =>
    if candidate > current then .accept
    else if candidate < current then .skip
    else .push

structure Suffix where
  pos : Nat
  period : Nat
  deriving Repr, DecidableEq, Inhabited

namespace Suffix

/-- the `while candidate_start + offset < needle.len()` loop of `Suffix::forward`.
Measure: every branch strictly increases `candidate_start`, except the last one, which keeps
it and increases `offset`. -/
def forwardLoop (needle : Slice) (kind : SuffixKind) (suffix : Suffix)
    (candidateStart offset : Nat) : M Suffix :=
  if h : candidateStart + offset < needle.len then do
    tick
    let current ← needle.get "Suffix::forward: needle[suffix.pos + offset]" (suffix.pos + offset)
    let candidate ← needle.get "Suffix::forward: needle[candidate_start + offset]"
      (candidateStart + offset)
    match kind.cmp current candidate with
    | .accept =>
      forwardLoop needle kind { pos := candidateStart, period := 1 } (candidateStart + 1) 0
    | .skip =>
      let period ← csub "Suffix::forward: candidate_start - suffix.pos"
        (candidateStart + (offset + 1)) suffix.pos
      forwardLoop needle kind { suffix with period := period } (candidateStart + (offset + 1)) 0
    | .push =>
      if hp : offset + 1 = suffix.period then
        forwardLoop needle kind suffix (candidateStart + suffix.period) 0
      else
        forwardLoop needle kind suffix candidateStart (offset + 1)
  else pure suffix
termination_by (needle.len - candidateStart, needle.len - (candidateStart + offset))
decreasing_by
  all_goals simp_wf
  · apply Prod.Lex.left; omega
  · apply Prod.Lex.left; omega
  · apply Prod.Lex.left; omega
  · apply Prod.Lex.right; omega

/-- `Suffix::forward(needle, kind)` -/
def forward (needle : Slice) (kind : SuffixKind) : M Suffix :=
  forwardLoop needle kind { pos := 0, period := 1 } 1 0

/-- the `while offset < candidate_start` loop of `Suffix::reverse` -/
def reverseLoop (needle : Slice) (kind : SuffixKind) (suffix : Suffix)
    (candidateStart offset : Nat) : M Suffix :=
  if h : offset < candidateStart then do
    tick
    let a ← csub "Suffix::reverse: suffix.pos - offset" suffix.pos offset
    let a ← csub "Suffix::reverse: suffix.pos - offset - 1" a 1
    let current ← needle.get "Suffix::reverse: needle[suffix.pos - offset - 1]" a
    let b ← csub "Suffix::reverse: candidate_start - offset" candidateStart offset
    let b ← csub "Suffix::reverse: candidate_start - offset - 1" b 1
    let candidate ← needle.get "Suffix::reverse: needle[candidate_start - offset - 1]" b
    match kind.cmp current candidate with
    | .accept =>
      let _ ← csub "Suffix::reverse: candidate_start -= 1" candidateStart 1
      reverseLoop needle kind { pos := candidateStart, period := 1 } (candidateStart - 1) 0
    | .skip =>
      let _ ← csub "Suffix::reverse: candidate_start -= offset + 1" candidateStart (offset + 1)
      let period ← csub "Suffix::reverse: suffix.pos - candidate_start" suffix.pos
        (candidateStart - (offset + 1))
      reverseLoop needle kind { suffix with period := period } (candidateStart - (offset + 1)) 0
    | .push =>
      if hp : offset + 1 = suffix.period then do
        let _ ← csub "Suffix::reverse: candidate_start -= suffix.period" candidateStart
          suffix.period
        reverseLoop needle kind suffix (candidateStart - suffix.period) 0
      else
        reverseLoop needle kind suffix candidateStart (offset + 1)
  else pure suffix
termination_by (candidateStart, candidateStart - offset)
decreasing_by
  all_goals simp_wf
  · apply Prod.Lex.left; omega
  · apply Prod.Lex.left; omega
  · apply Prod.Lex.left; omega
  · apply Prod.Lex.right; omega

/-- `Suffix::reverse(needle, kind)` -/
def reverse (needle : Slice) (kind : SuffixKind) : M Suffix :=
  let suffix : Suffix := { pos := needle.len, period := 1 }
  if needle.len = 1 then pure suffix
  else if needle.len = 0 then pure suffix  -- `checked_sub(1)` is `None`
  else reverseLoop needle kind suffix (needle.len - 1) 0

end Suffix

/-! ### `Shift` -/

inductive Shift where
  | small (period : Nat)
  | large (shift : Nat)
  deriving Repr, DecidableEq, Inhabited

namespace Shift

/-- `Shift::forward(needle, period_lower_bound, critical_pos)` -/
def forward (needle : Slice) (periodLowerBound criticalPos : Nat) : M Shift := do
  let d ← csub "Shift::forward: needle.len() - critical_pos" needle.len criticalPos
  let large := max criticalPos d
  if criticalPos * 2 ≥ needle.len then pure (.large large) else
  -- `needle.split_at(critical_pos)`
  let u ← needle.take "Shift::forward: needle.split_at(critical_pos)" criticalPos
  let v ← needle.drop "Shift::forward: needle.split_at(critical_pos)" criticalPos
  let vp ← v.take "Shift::forward: &v[..period_lower_bound]" periodLowerBound
  let b ← IsEqual.isSuffix vp u
  if !b then pure (.large large) else pure (.small periodLowerBound)

/-- `Shift::reverse(needle, period_lower_bound, critical_pos)` -/
def reverse (needle : Slice) (periodLowerBound criticalPos : Nat) : M Shift := do
  let d ← csub "Shift::reverse: needle.len() - critical_pos" needle.len criticalPos
  let large := max criticalPos d
  let d2 ← csub "Shift::reverse: needle.len() - critical_pos (2)" needle.len criticalPos
  if d2 * 2 ≥ needle.len then pure (.large large) else
  -- `needle.split_at(critical_pos)`
  let v ← needle.take "Shift::reverse: needle.split_at(critical_pos)" criticalPos
  let u ← needle.drop "Shift::reverse: needle.split_at(critical_pos)" criticalPos
  let a ← csub "Shift::reverse: v.len() - period_lower_bound" v.len periodLowerBound
  let vs ← v.drop "Shift::reverse: &v[v.len() - period_lower_bound..]" a
  let b ← IsEqual.isPrefix vs u
  if !b then pure (.large large) else pure (.small periodLowerBound)

end Shift

/-! ### `TwoWay` and the constructors -/

/-- `struct TwoWay { byteset, critical_pos, shift }` -/
structure TwoWay where
  byteset : ApproximateByteSet
  criticalPos : Nat
  shift : Shift
  deriving Repr, DecidableEq, Inhabited

/-- `Finder::new(needle)` -/
def Finder.new (needle : Slice) : M TwoWay := do
  let byteset ← ApproximateByteSet.new needle
  let minSuffix ← Suffix.forward needle .minimal
  let maxSuffix ← Suffix.forward needle .maximal
  let (periodLowerBound, criticalPos) :=
    if minSuffix.pos > maxSuffix.pos then (minSuffix.period, minSuffix.pos)
    else (maxSuffix.period, maxSuffix.pos)
  let shift ← Shift.forward needle periodLowerBound criticalPos
  pure { byteset := byteset, criticalPos := criticalPos, shift := shift }

/-- `FinderRev::new(needle)` -/
def FinderRev.new (needle : Slice) : M TwoWay := do
  let byteset ← ApproximateByteSet.new needle
  let minSuffix ← Suffix.reverse needle .minimal
  let maxSuffix ← Suffix.reverse needle .maximal
  let (periodLowerBound, criticalPos) :=
    if minSuffix.pos < maxSuffix.pos then (minSuffix.period, minSuffix.pos)
    else (maxSuffix.period, maxSuffix.pos)
  let shift ← Shift.reverse needle periodLowerBound criticalPos
  pure { byteset := byteset, criticalPos := criticalPos, shift := shift }

/-! ### forward search -/

namespace Finder

/-- The block
```
if let Some(pre) = pre.as_mut() {
    if pre.is_effective() {
        pos += pre.find(&haystack[pos..])?;
        /* small only: shift = 0; i = self.0.critical_pos; */
        if pos + needle.len() > haystack.len() { return None; }
    }
}
```
shared by `find_small_imp` and `find_large_imp` (`fn` is the function name for the site
strings).  Returns the `pre` afterwards and `none` for `return None`, else `some (delta, ran)`:
the amount added to `pos` (0 when the prefilter was not run) and whether the prefilter ran
(then the small loop resets `shift` and `i`). -/
def prefilterStep (fn : String) (needle haystack : Slice) (pre : Option Pre) (pos : Nat) :
    M (Option Pre × Option (Nat × Bool)) :=
  match pre with
  | none => pure (none, some (0, false))
  | some p => do
    let (eff, p) ← p.isEffective
    if eff then
      let sub ← haystack.drop (fn ++ ": &haystack[pos..]") pos
      let (r, p) ← p.find sub
      match r with
      | none => pure (some p, none)
      | some c =>
        if pos + c + needle.len > haystack.len then pure (some p, none)
        else pure (some p, some (c, true))
    else pure (some p, some (0, false))

/-- `while i < needle.len() && needle[i] == haystack[pos + i] { tick; i += 1; }`; returns the
final `i` -/
def fwdCmp (fn : String) (needle haystack : Slice) (pos i : Nat) : M Nat :=
  if h : i < needle.len then do
    let a ← needle.get (fn ++ ": needle[i]") i
    let b ← haystack.get (fn ++ ": haystack[pos + i]") (pos + i)
    if a == b then do
      tick
      fwdCmp fn needle haystack pos (i + 1)
    else pure i
  else pure i
termination_by needle.len - i

/-- `while j > shift && needle[j] == haystack[pos + j] { tick; j -= 1; }`; returns the
final `j` -/
def smallBackCmp (needle haystack : Slice) (pos shift j : Nat) : M Nat :=
  if h : j > shift then do
    let a ← needle.get "find_small_imp: needle[j]" j
    let b ← haystack.get "find_small_imp: haystack[pos + j]" (pos + j)
    if a == b then do
      tick
      let _ ← csub "find_small_imp: j -= 1" j 1
      smallBackCmp needle haystack pos shift (j - 1)
    else pure j
  else pure j
termination_by j

/-- the `while pos + needle.len() <= haystack.len()` loop of `find_small_imp` -/
def smallLoop (tw : TwoWay) (needle haystack : Slice) (hn : 0 < needle.len)
    (period lastBytePos : Nat) (pre : Option Pre) (pos shift : Nat) :
    M (Option Nat × Option Pre) :=
  if h : pos + needle.len ≤ haystack.len then do
    tick
    let i := max tw.criticalPos shift
    let (pre, st) ← prefilterStep "find_small_imp" needle haystack pre pos
    match st with
    | none => pure (none, pre)
    | some (delta, ran) =>
      let pos' := pos + delta
      let shift := if ran then 0 else shift
      let i := if ran then tw.criticalPos else i
      let last ← haystack.get "find_small_imp: haystack[pos + last_byte_pos]" (pos' + lastBytePos)
      let inSet ← tw.byteset.contains last
      if !inSet then
        smallLoop tw needle haystack hn period lastBytePos pre (pos' + needle.len) 0
      else
        let i ← fwdCmp "find_small_imp" needle haystack pos' i
        if i < needle.len then do
          let d ← csub "find_small_imp: i - self.0.critical_pos" i tw.criticalPos
          smallLoop tw needle haystack hn period lastBytePos pre (pos' + (d + 1)) 0
        else do
          let j ← smallBackCmp needle haystack pos' shift tw.criticalPos
          let hit ←
            if j ≤ shift then do
              let a ← needle.get "find_small_imp: needle[shift]" shift
              let b ← haystack.get "find_small_imp: haystack[pos + shift]" (pos' + shift)
              pure (a == b)
            else pure false
          if hit then pure (some pos', pre) else
          let shift' ← csub "find_small_imp: needle.len() - period" needle.len period
          if hp : period = 0 then fail (.panic "find_small_imp: no progress (period = 0)") else
          smallLoop tw needle haystack hn period lastBytePos pre (pos' + period) shift'
  else pure (none, pre)
termination_by haystack.len + 1 - pos
decreasing_by
  all_goals simp_wf
  all_goals omega

/-- `find_small_imp(&self, pre, haystack, needle, period)` -/
def findSmallImp (tw : TwoWay) (pre : Option Pre) (haystack needle : Slice) (period : Nat) :
    M (Option Nat × Option Pre) :=
  -- `needle.len().checked_sub(1)`
  if hn : needle.len = 0 then pure (some 0, pre)
  else smallLoop tw needle haystack (Nat.pos_of_ne_zero hn) period (needle.len - 1) pre 0 0

/-- `for j in (0..self.0.critical_pos).rev() { tick; if needle[j] != haystack[pos + j] {
pos += shift; continue 'outer; } }`: called with `j = critical_pos`; `true` when the `for`
loop ran to completion (every byte matched) -/
def largeBackCmp (needle haystack : Slice) (pos : Nat) : Nat → M Bool
  | 0 => pure true
  | j + 1 => do
    tick
    let a ← needle.get "find_large_imp: needle[j]" j
    let b ← haystack.get "find_large_imp: haystack[pos + j]" (pos + j)
    if a != b then pure false else largeBackCmp needle haystack pos j

/-- the `'outer: while pos + needle.len() <= haystack.len()` loop of `find_large_imp` -/
def largeLoop (tw : TwoWay) (needle haystack : Slice) (hn : 0 < needle.len)
    (shift lastBytePos : Nat) (pre : Option Pre) (pos : Nat) :
    M (Option Nat × Option Pre) :=
  if h : pos + needle.len ≤ haystack.len then do
    tick
    let (pre, st) ← prefilterStep "find_large_imp" needle haystack pre pos
    match st with
    | none => pure (none, pre)
    | some (delta, _) =>
      let pos' := pos + delta
      let last ← haystack.get "find_large_imp: haystack[pos + last_byte_pos]" (pos' + lastBytePos)
      let inSet ← tw.byteset.contains last
      if !inSet then
        largeLoop tw needle haystack hn shift lastBytePos pre (pos' + needle.len)
      else
        let i ← fwdCmp "find_large_imp" needle haystack pos' tw.criticalPos
        if i < needle.len then do
          let d ← csub "find_large_imp: i - self.0.critical_pos" i tw.criticalPos
          largeLoop tw needle haystack hn shift lastBytePos pre (pos' + (d + 1))
        else do
          let all ← largeBackCmp needle haystack pos' tw.criticalPos
          if all then pure (some pos', pre) else
          if hs : shift = 0 then fail (.panic "find_large_imp: no progress (shift = 0)") else
          largeLoop tw needle haystack hn shift lastBytePos pre (pos' + shift)
  else pure (none, pre)
termination_by haystack.len + 1 - pos
decreasing_by
  all_goals simp_wf
  all_goals omega

/-- `find_large_imp(&self, pre, haystack, needle, shift)` -/
def findLargeImp (tw : TwoWay) (pre : Option Pre) (haystack needle : Slice) (shift : Nat) :
    M (Option Nat × Option Pre) :=
  if hn : needle.len = 0 then pure (some 0, pre)
  else largeLoop tw needle haystack (Nat.pos_of_ne_zero hn) shift (needle.len - 1) pre 0

/-- `find_with_prefilter(&self, pre, haystack, needle)`; also returns the prefilter (state)
after the search -/
def findWithPrefilter (tw : TwoWay) (pre : Option Pre) (haystack needle : Slice) :
    M (Option Nat × Option Pre) :=
  match tw.shift with
  | .small period => findSmallImp tw pre haystack needle period
  | .large shift => findLargeImp tw pre haystack needle shift

/-- `find(&self, haystack, needle)` -/
def find (tw : TwoWay) (haystack needle : Slice) : M (Option Nat) := do
  let (r, _) ← findWithPrefilter tw none haystack needle
  pure r

end Finder

/-! ### reverse search -/

namespace FinderRev

/-- `while i > 0 && needle[i - 1] == haystack[pos - nlen + i - 1] { tick; i -= 1; }`; returns
the final `i` -/
def revCmp (fn : String) (needle haystack : Slice) (pos i : Nat) : M Nat :=
  if h : i > 0 then do
    let i1 ← csub (fn ++ ": i - 1") i 1
    let a ← needle.get (fn ++ ": needle[i - 1]") i1
    let p ← csub (fn ++ ": pos - nlen") pos needle.len
    let q ← csub (fn ++ ": pos - nlen + i - 1") (p + i) 1
    let b ← haystack.get (fn ++ ": haystack[pos - nlen + i - 1]") q
    if a == b then do
      tick
      revCmp fn needle haystack pos (i - 1)
    else pure i
  else pure i
termination_by i

/-- `while j < bound && needle[j] == haystack[pos - nlen + j] { tick; j += 1; }` (`bound` is
`shift` in the small case and `nlen` in the large case); returns the final `j` -/
def revFwdCmp (fn : String) (needle haystack : Slice) (pos bound j : Nat) : M Nat :=
  if h : j < bound then do
    let a ← needle.get (fn ++ ": needle[j]") j
    let p ← csub (fn ++ ": pos - nlen") pos needle.len
    let b ← haystack.get (fn ++ ": haystack[pos - nlen + j]") (p + j)
    if a == b then do
      tick
      revFwdCmp fn needle haystack pos bound (j + 1)
    else pure j
  else pure j
termination_by bound - j

/-- the `while pos >= nlen` loop of `rfind_small_imp` -/
def smallLoop (tw : TwoWay) (needle haystack : Slice) (hn : 0 < needle.len)
    (period : Nat) (firstByte : UInt8) (pos shift : Nat) : M (Option Nat) :=
  if h : pos ≥ needle.len then do
    tick
    let p ← csub "rfind_small_imp: pos - nlen" pos needle.len
    let first ← haystack.get "rfind_small_imp: haystack[pos - nlen]" p
    let inSet ← tw.byteset.contains first
    if !inSet then
      smallLoop tw needle haystack hn period firstByte (pos - needle.len) needle.len
    else
      let i ← revCmp "rfind_small_imp" needle haystack pos (min tw.criticalPos shift)
      let miss ←
        if i > 0 then pure true
        else do
          let p ← csub "rfind_small_imp: pos - nlen" pos needle.len
          let b ← haystack.get "rfind_small_imp: haystack[pos - nlen]" p
          pure (firstByte != b)
      if miss then do
        let d ← csub "rfind_small_imp: self.0.critical_pos - i" tw.criticalPos i
        let _ ← csub "rfind_small_imp: pos -= self.0.critical_pos - i + 1" pos (d + 1)
        smallLoop tw needle haystack hn period firstByte (pos - (d + 1)) needle.len
      else do
        let j ← revFwdCmp "rfind_small_imp" needle haystack pos shift tw.criticalPos
        if j ≥ shift then do
          let r ← csub "rfind_small_imp: pos - nlen" pos needle.len
          pure (some r)
        else do
          let _ ← csub "rfind_small_imp: pos -= period" pos period
          if hp : period = 0 then fail (.panic "rfind_small_imp: no progress (period = 0)") else
          smallLoop tw needle haystack hn period firstByte (pos - period) period
  else pure none
termination_by pos
decreasing_by
  all_goals simp_wf
  all_goals omega

/-- `rfind_small_imp(&self, haystack, needle, period)` -/
def rfindSmallImp (tw : TwoWay) (haystack needle : Slice) (period : Nat) : M (Option Nat) :=
  -- `needle.get(0)`
  if hn : needle.len = 0 then pure (some haystack.len)
  else smallLoop tw needle haystack (Nat.pos_of_ne_zero hn) period (needle.getD 0)
    haystack.len needle.len

/-- the `while pos >= nlen` loop of `rfind_large_imp` -/
def largeLoop (tw : TwoWay) (needle haystack : Slice) (hn : 0 < needle.len)
    (shift : Nat) (firstByte : UInt8) (pos : Nat) : M (Option Nat) :=
  if h : pos ≥ needle.len then do
    tick
    let p ← csub "rfind_large_imp: pos - nlen" pos needle.len
    let first ← haystack.get "rfind_large_imp: haystack[pos - nlen]" p
    let inSet ← tw.byteset.contains first
    if !inSet then
      largeLoop tw needle haystack hn shift firstByte (pos - needle.len)
    else
      let i ← revCmp "rfind_large_imp" needle haystack pos tw.criticalPos
      let miss ←
        if i > 0 then pure true
        else do
          let p ← csub "rfind_large_imp: pos - nlen" pos needle.len
          let b ← haystack.get "rfind_large_imp: haystack[pos - nlen]" p
          pure (firstByte != b)
      if miss then do
        let d ← csub "rfind_large_imp: self.0.critical_pos - i" tw.criticalPos i
        let _ ← csub "rfind_large_imp: pos -= self.0.critical_pos - i + 1" pos (d + 1)
        largeLoop tw needle haystack hn shift firstByte (pos - (d + 1))
      else do
        let j ← revFwdCmp "rfind_large_imp" needle haystack pos needle.len tw.criticalPos
        if j = needle.len then do
          let r ← csub "rfind_large_imp: pos - nlen" pos needle.len
          pure (some r)
        else do
          let _ ← csub "rfind_large_imp: pos -= shift" pos shift
          if hs : shift = 0 then fail (.panic "rfind_large_imp: no progress (shift = 0)") else
          largeLoop tw needle haystack hn shift firstByte (pos - shift)
  else pure none
termination_by pos
decreasing_by
  all_goals simp_wf
  all_goals omega

/-- `rfind_large_imp(&self, haystack, needle, shift)` -/
def rfindLargeImp (tw : TwoWay) (haystack needle : Slice) (shift : Nat) : M (Option Nat) :=
  if hn : needle.len = 0 then pure (some haystack.len)
  else largeLoop tw needle haystack (Nat.pos_of_ne_zero hn) shift (needle.getD 0) haystack.len

/-- `rfind(&self, haystack, needle)` -/
def rfind (tw : TwoWay) (haystack needle : Slice) : M (Option Nat) :=
  match tw.shift with
  | .small period => rfindSmallImp tw haystack needle period
  | .large shift => rfindLargeImp tw haystack needle shift

end FinderRev

end Memchr.TwoWay
