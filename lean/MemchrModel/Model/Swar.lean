/-
Model of the portable SWAR byte search `src/arch/all/memchr.rs`:
`One::{find_raw, rfind_raw, count_raw}`, `Two/Three::{find_raw, rfind_raw}`, `has_zero_byte`,
`splat`, `has_needle`, `confirm`.

`usize` is 64 bit (`USIZE_BYTES = 8`). A word that is only used as a vector of eight 8-bit
lanes is a `UInt64`; lengths and addresses are `Nat`. `Two` and `Three` have literally the
same `find_raw`/`rfind_raw` bodies and differ only in the number of needle bytes, so they are
one pair of functions (`Multi.findRaw`, `Multi.rfindRaw`) parametric in the needle bytes.
`One` has the 2-word unrolled loop and the `len <= LOOP_BYTES` early exit and is separate.

The byte-by-byte helpers are the ones of `arch::generic::memchr` (`Generic.fwdByteByByte`,
`Generic.revByteByByte`); `One::count_raw` has its own plain byte loop.
-/
import MemchrModel.Model.MemchrGeneric
import MemchrModel.Generated.Consts

set_option linter.unusedVariables false

namespace Memchr.Swar

open Memchr

/-- `const USIZE_BYTES: usize = (usize::BITS / 8) as usize;` (64-bit target) -/
def USIZE_BYTES : Nat := 8
/-- `const USIZE_ALIGN: usize = USIZE_BYTES - 1;` -/
def USIZE_ALIGN : Nat := USIZE_BYTES - 1

/-! ### words -/

/-- little-endian value of a byte string -/
def leNat : List UInt8 → Nat
  | [] => 0
  | b :: bs => b.toNat + 256 * leNat bs

/-- The `usize` whose in-memory representation (little-endian target) is the 8 bytes `bs`. -/
def wordOfBytes (bs : List UInt8) : UInt64 := UInt64.ofNat (leNat bs)

/-- `ptr.cast::<usize>().read_unaligned()` preceded by its `note_load(ptr, USIZE_BYTES, false)` -/
def readWordU (m : Mem) (a : Nat) : M UInt64 := do
  let bs ← m.loadU a USIZE_BYTES
  pure (wordOfBytes bs)

/-- `ptr.cast::<usize>().read()` preceded by its `note_load(ptr, USIZE_BYTES, true)`.
Dereferencing a `*const usize` requires `USIZE_BYTES` alignment (fault `misaligned`). -/
def readWordA (m : Mem) (a : Nat) : M UInt64 := do
  let bs ← m.loadA a USIZE_BYTES
  pure (wordOfBytes bs)

/-- `splat(b) = (b as usize) * (usize::MAX / 255)` (the product is at most `usize::MAX`,
see `Proofs/SwarBits.lean: splat_toNat`, so the checked `*` never overflows). -/
def splat (b : UInt8) : UInt64 := b.toUInt64 * (0xFFFFFFFFFFFFFFFF / 255)

/-- `const LO: usize = splat(0x01);` -/
def LO : UInt64 := splat 0x01
/-- `const HI: usize = splat(0x80);` -/
def HI : UInt64 := splat 0x80

/-- `has_zero_byte(x) = (x.wrapping_sub(LO) & !x & HI) != 0` -/
def hasZeroByte (x : UInt64) : Bool := ((x - LO) &&& ~~~x &&& HI) != 0

/-- `has_needle(chunk)`:
`has_zero_byte(self.v1 ^ chunk) || has_zero_byte(self.v2 ^ chunk) || ...` with
`self.vi = splat(si)` (computed in `new`). -/
def hasNeedle (ns : Needles) (chunk : UInt64) : Bool :=
  ns.rest.foldl (fun acc n => acc || hasZeroByte (splat n ^^^ chunk))
    (hasZeroByte (splat ns.first ^^^ chunk))

/-! ### `One` -/

namespace One

/-- `const LOOP_BYTES: usize = 2 * USIZE_BYTES;` (the factor is re-extracted from the source) -/
def LOOP_BYTES : Nat := Generated.swarOneLoopWords * USIZE_BYTES

/-- The loop bodies below spell out the two loads `a`, `b` of the source; this fails to
compile if the extracted factor is no longer 2. -/
theorem loopWords_eq_two : Generated.swarOneLoopWords = 2 := rfl

/-- the needle set `{s1}` -/
@[inline] def needles (n1 : UInt8) : Needles := ⟨n1, []⟩

/-- `while cur <= end.sub(LOOP_BYTES) { ...; if has_needle(a) || has_needle(b) { break; }
cur = cur.add(LOOP_BYTES); }` — returns the value of `cur` at loop exit.
`lim` is the loop-invariant `end.sub(One::LOOP_BYTES)`. -/
def findLoop (n1 : UInt8) (m : Mem) (lim cur : Nat) : M Nat :=
  if h : cur ≤ lim then do
    dbgAssert "find_raw: 0 == cur.as_usize() % USIZE_BYTES" (0 == cur % USIZE_BYTES)
    tick
    let a ← readWordA m cur
    let pb ← m.padd "find_raw: cur.add(USIZE_BYTES)" cur USIZE_BYTES
    let b ← readWordA m pb
    if hasNeedle (needles n1) a || hasNeedle (needles n1) b then pure cur
    else do
      let _ ← m.padd "find_raw: cur.add(One::LOOP_BYTES)" cur LOOP_BYTES
      findLoop n1 m lim (cur + LOOP_BYTES)
  else pure cur
termination_by lim + 1 - cur
decreasing_by
  have : LOOP_BYTES = 16 := rfl
  omega

/-- `One::find_raw(start, end)` -/
def findRaw (n1 : UInt8) (m : Mem) (start end_ : Nat) : M (Option Nat) :=
  if start ≥ end_ then pure none else do
    let confirm := (needles n1).confirm
    let len ← m.distance "find_raw: end.distance(start)" end_ start
    if len < USIZE_BYTES then Generic.fwdByteByByte m confirm start end_ else do
      let chunk ← readWordU m start
      tick
      if hasNeedle (needles n1) chunk then Generic.fwdByteByByte m confirm start end_ else do
        let adv ← csub "find_raw: USIZE_BYTES - (start.as_usize() & USIZE_ALIGN)" USIZE_BYTES
          (start &&& USIZE_ALIGN)
        let cur ← m.padd "find_raw: start.add(USIZE_BYTES - (start.as_usize() & USIZE_ALIGN))"
          start adv
        dbgAssert "find_raw: cur > start" (cur > start)
        if len ≤ LOOP_BYTES then Generic.fwdByteByByte m confirm cur end_ else do
          let lim ← m.psub "find_raw: end.sub(One::LOOP_BYTES)" end_ LOOP_BYTES
          dbgAssert "find_raw: end.sub(One::LOOP_BYTES) >= start" (lim ≥ start)
          let cur ← findLoop n1 m lim cur
          Generic.fwdByteByByte m confirm cur end_

/-- `while cur >= start.add(LOOP_BYTES) { ...; if has_needle(a) || has_needle(b) { break; }
cur = cur.sub(LOOP_BYTES); }` — returns the value of `cur` at loop exit.
(`start.add(One::LOOP_BYTES)` is loop invariant; its in-allocation check is done once by the
caller.) -/
def rfindLoop (n1 : UInt8) (m : Mem) (start cur : Nat) : M Nat :=
  if h : cur ≥ start + LOOP_BYTES then do
    dbgAssert "rfind_raw: 0 == cur.as_usize() % USIZE_BYTES" (0 == cur % USIZE_BYTES)
    tick
    let pa ← m.psub "rfind_raw: cur.sub(2 * USIZE_BYTES)" cur (2 * USIZE_BYTES)
    let a ← readWordA m pa
    let pb ← m.psub "rfind_raw: cur.sub(1 * USIZE_BYTES)" cur (1 * USIZE_BYTES)
    let b ← readWordA m pb
    if hasNeedle (needles n1) a || hasNeedle (needles n1) b then pure cur
    else do
      let _ ← m.psub "rfind_raw: cur.sub(One::LOOP_BYTES)" cur LOOP_BYTES
      rfindLoop n1 m start (cur - LOOP_BYTES)
  else pure cur
termination_by cur
decreasing_by
  have : LOOP_BYTES = 16 := rfl
  omega

/-- `One::rfind_raw(start, end)` -/
def rfindRaw (n1 : UInt8) (m : Mem) (start end_ : Nat) : M (Option Nat) :=
  if start ≥ end_ then pure none else do
    let confirm := (needles n1).confirm
    let len ← m.distance "rfind_raw: end.distance(start)" end_ start
    if len < USIZE_BYTES then Generic.revByteByByte m confirm start end_ else do
      let pc ← m.psub "rfind_raw: end.sub(USIZE_BYTES)" end_ USIZE_BYTES
      let chunk ← readWordU m pc
      tick
      if hasNeedle (needles n1) chunk then Generic.revByteByByte m confirm start end_ else do
        let cur ← m.psub "rfind_raw: end.sub(end.as_usize() & USIZE_ALIGN)" end_
          (end_ &&& USIZE_ALIGN)
        dbgAssert "rfind_raw: start <= cur && cur <= end" (start ≤ cur && cur ≤ end_)
        if len ≤ LOOP_BYTES then Generic.revByteByByte m confirm start cur else do
          let _ ← m.padd "rfind_raw: start.add(One::LOOP_BYTES)" start LOOP_BYTES
          let cur ← rfindLoop n1 m start cur
          Generic.revByteByByte m confirm start cur

/-- `while ptr < end { count += (ptr.read() == self.s1) as usize; ptr = ptr.offset(1); }` -/
def countLoop (n1 : UInt8) (m : Mem) (end_ ptr count : Nat) : M Nat :=
  if h : ptr < end_ then do
    tick
    let b ← m.read ptr
    let count' := count + (if b == n1 then 1 else 0)
    let _ ← m.padd "count_raw: ptr.offset(1)" ptr 1
    countLoop n1 m end_ (ptr + 1) count'
  else pure count
termination_by end_ - ptr

/-- `One::count_raw(start, end)` -/
def countRaw (n1 : UInt8) (m : Mem) (start end_ : Nat) : M Nat :=
  if start ≥ end_ then pure 0 else countLoop n1 m end_ start 0

end One

/-! ### `Two` and `Three` -/

namespace Multi

/-- `while cur <= end.sub(USIZE_BYTES) { ...; if has_needle(chunk) { break; }
cur = cur.add(USIZE_BYTES); }` — returns `cur` at loop exit; `lim` is `end.sub(USIZE_BYTES)`. -/
def findLoop (ns : Needles) (m : Mem) (lim cur : Nat) : M Nat :=
  if h : cur ≤ lim then do
    dbgAssert "find_raw: 0 == cur.as_usize() % USIZE_BYTES" (0 == cur % USIZE_BYTES)
    tick
    let chunk ← readWordA m cur
    if hasNeedle ns chunk then pure cur
    else do
      let _ ← m.padd "find_raw: cur.add(USIZE_BYTES)" cur USIZE_BYTES
      findLoop ns m lim (cur + USIZE_BYTES)
  else pure cur
termination_by lim + 1 - cur
decreasing_by
  have : USIZE_BYTES = 8 := rfl
  omega

/-- `Two::find_raw(start, end)` / `Three::find_raw(start, end)` -/
def findRaw (ns : Needles) (m : Mem) (start end_ : Nat) : M (Option Nat) :=
  if start ≥ end_ then pure none else do
    let confirm := ns.confirm
    let len ← m.distance "find_raw: end.distance(start)" end_ start
    if len < USIZE_BYTES then Generic.fwdByteByByte m confirm start end_ else do
      let chunk ← readWordU m start
      tick
      if hasNeedle ns chunk then Generic.fwdByteByByte m confirm start end_ else do
        let adv ← csub "find_raw: USIZE_BYTES - (start.as_usize() & USIZE_ALIGN)" USIZE_BYTES
          (start &&& USIZE_ALIGN)
        let cur ← m.padd "find_raw: start.add(USIZE_BYTES - (start.as_usize() & USIZE_ALIGN))"
          start adv
        dbgAssert "find_raw: cur > start" (cur > start)
        let lim ← m.psub "find_raw: end.sub(USIZE_BYTES)" end_ USIZE_BYTES
        dbgAssert "find_raw: end.sub(USIZE_BYTES) >= start" (lim ≥ start)
        let cur ← findLoop ns m lim cur
        Generic.fwdByteByByte m confirm cur end_

/-- `while cur >= start.add(USIZE_BYTES) { ...; if has_needle(chunk) { break; }
cur = cur.sub(USIZE_BYTES); }` — returns `cur` at loop exit.
(`start.add(USIZE_BYTES)` is loop invariant; its in-allocation check is done once by the
caller. `cur.sub(USIZE_BYTES)` occurs twice in the source: for the load and for the update.) -/
def rfindLoop (ns : Needles) (m : Mem) (start cur : Nat) : M Nat :=
  if h : cur ≥ start + USIZE_BYTES then do
    dbgAssert "rfind_raw: 0 == cur.as_usize() % USIZE_BYTES" (0 == cur % USIZE_BYTES)
    tick
    let pc ← m.psub "rfind_raw: cur.sub(USIZE_BYTES)" cur USIZE_BYTES
    let chunk ← readWordA m pc
    if hasNeedle ns chunk then pure cur
    else do
      let _ ← m.psub "rfind_raw: cur = cur.sub(USIZE_BYTES)" cur USIZE_BYTES
      rfindLoop ns m start (cur - USIZE_BYTES)
  else pure cur
termination_by cur
decreasing_by
  have : USIZE_BYTES = 8 := rfl
  omega

/-- `Two::rfind_raw(start, end)` / `Three::rfind_raw(start, end)` -/
def rfindRaw (ns : Needles) (m : Mem) (start end_ : Nat) : M (Option Nat) :=
  if start ≥ end_ then pure none else do
    let confirm := ns.confirm
    let len ← m.distance "rfind_raw: end.distance(start)" end_ start
    if len < USIZE_BYTES then Generic.revByteByByte m confirm start end_ else do
      let pc ← m.psub "rfind_raw: end.sub(USIZE_BYTES)" end_ USIZE_BYTES
      let chunk ← readWordU m pc
      tick
      if hasNeedle ns chunk then Generic.revByteByByte m confirm start end_ else do
        let cur ← m.psub "rfind_raw: end.sub(end.as_usize() & USIZE_ALIGN)" end_
          (end_ &&& USIZE_ALIGN)
        dbgAssert "rfind_raw: start <= cur && cur <= end" (start ≤ cur && cur ≤ end_)
        let _ ← m.padd "rfind_raw: start.add(USIZE_BYTES)" start USIZE_BYTES
        let cur ← rfindLoop ns m start cur
        Generic.revByteByByte m confirm start cur

end Multi

end Memchr.Swar
