/-
C15: the `unsafe_ifunc!` cell of `src/arch/x86_64/memchr.rs` under concurrent callers.

```
static FN: AtomicPtr<()> = AtomicPtr::new(detect as Fn);
unsafe fn detect(needles.., start, end) -> R {
    let fun = { .. find_avx2 / find_sse2 / find_fallback .. };   // `Api.x86Detect cfg`
    FN.store(fun as Fn, Ordering::Relaxed);
    fun(needles.., start, end)
}
// every call:
let fun = FN.load(Ordering::Relaxed);
transmute::<Fn, RealFn>(fun)(needles.., start, end)
```

The macro is instantiated once per routine (`memchr_raw`, `memrchr_raw`, `memchr2_raw`,
`memrchr2_raw`, `memchr3_raw`, `memrchr3_raw`, `count_raw`), each with its own `FN`; the model is
parametric in the routine (`Ifunc`: argument type, result type, and what `find_avx2` /
`find_sse2` / `find_fallback` do for a backend).

Memory model: the state records EVERY value ever stored into `FN`; a relaxed load may return
any of them (the choice is part of the schedule). This is a superset of what any hardware /
the C++11 memory model allows (which would additionally forbid reading values overwritten
"long ago" in the modification order as seen by the same thread), so a property proved for all
schedules of the model holds for all real executions. The searched memory is read-only and
private counters are per call, so the only shared mutable state is `FN`.
-/
import MemchrModel.Model.MemchrApi

set_option linter.unusedVariables false

namespace Memchr.Concurrency

open Memchr Memchr.Api

/-- the values `FN` can hold: the address of `detect`, or of `find_<backend>` -/
inductive FnVal where
  | detect
  | impl (b : Backend)
  deriving Repr, DecidableEq, Inhabited

/-- one instantiation of `unsafe_ifunc!`: what calling `find_avx2` / `find_sse2` /
`find_fallback` with the call's arguments does -/
structure Ifunc (Args R : Type) where
  run : Backend → Args → M R

/-- thread-local pointwise update -/
def upd {α : Type} (f : Nat → α) (t : Nat) (v : α) : Nat → α := fun t' => if t' = t then v else f t'

structure State (Args R : Type) where
  /-- every value ever stored in `FN`, oldest first (initially `[detect]`) -/
  stored : List FnVal
  /-- per thread: the value its `FN.load` returned, when the call through it is still to be made -/
  pending : Nat → Option FnVal
  /-- per thread: the calls it still has to make (head = the one in progress / next) -/
  queue : Nat → List Args
  /-- completed calls `(thread, arguments, outcome)`, most recent first -/
  results : List (Nat × Args × Res R)

/-- initial state: `FN = detect`, nobody has loaded anything; `queue t` are the calls thread `t`
will make (any number of threads: all but finitely many queues are empty in a finite run) -/
def init {Args R : Type} (queue : Nat → List Args) : State Args R :=
  { stored := [.detect], pending := fun _ => none, queue := queue, results := [] }

/-- One atomic step of thread `tid`; `idx` picks which of the values ever stored a load returns.

* thread idle and has a call to make: `FN.load(Relaxed)`;
* thread loaded `detect`: run `detect`: choose by `x86Detect cfg`, `FN.store`, call the choice
  (the call itself touches no shared state, so it is fused with the store);
* thread loaded `find_<b>`: call it. -/
def step {Args R : Type} (I : Ifunc Args R) (cfg : Cfg) (st : State Args R) (tid idx : Nat) :
    State Args R :=
  match st.queue tid with
  | [] => st
  | a :: rest =>
    match st.pending tid with
    | none =>
      let v := st.stored.getD (idx % st.stored.length) .detect
      { st with pending := upd st.pending tid (some v) }
    | some .detect =>
      let b := x86Detect cfg
      { stored := st.stored ++ [.impl b]
        pending := upd st.pending tid none
        queue := upd st.queue tid rest
        results := (tid, a, I.run b a {}) :: st.results }
    | some (.impl b) =>
      { st with
        pending := upd st.pending tid none
        queue := upd st.queue tid rest
        results := (tid, a, I.run b a {}) :: st.results }

/-- a schedule: which thread moves and which stored value its load (if the move is a load) sees -/
abbrev Schedule := List (Nat × Nat)

def runSchedule {Args R : Type} (I : Ifunc Args R) (cfg : Cfg) (st : State Args R) :
    Schedule → State Args R
  | [] => st
  | (tid, idx) :: rest => runSchedule I cfg (step I cfg st tid idx) rest

/-! ### the seven instantiations -/

structure FindArgs where
  ns : Needles
  m : Mem
  start : Nat
  end_ : Nat

structure CountArgs where
  n1 : UInt8
  m : Mem
  start : Nat
  end_ : Nat

/-- `memchr_raw` / `memchr2_raw` / `memchr3_raw` (`rev = false`), `memrchr_raw` / ... (`rev = true`) -/
def findIfunc (rev : Bool) : Ifunc FindArgs (Option Nat) where
  run b a := rawFind b a.ns rev a.m a.start a.end_

/-- `count_raw` -/
def countIfunc : Ifunc CountArgs Nat where
  run b a := rawCount b a.n1 a.m a.start a.end_

end Memchr.Concurrency
