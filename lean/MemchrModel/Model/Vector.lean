/-
Model of `src/vector.rs`: the `Vector` / `MoveMask` traits.

A vector value is the list of its byte lanes (lane 0 = lowest address; little endian).
`splat`, `cmpeq`, `and`, `or` have the same lane-wise meaning on every ISA, so they are
plain functions; what differs per ISA is `movemask`, `movemask_will_have_non_zero`,
the mask type and its operations, and whether `load_aligned` requires alignment.
Those are the fields of `VecImpl`.
-/
import MemchrModel.Base.Monad

namespace Memchr

abbrev Vec := List UInt8

namespace Vec

@[inline] def splat (n : Nat) (b : UInt8) : Vec := List.replicate n b

/-- lane-wise `cmpeq`: `0xFF` where equal, `0x00` elsewhere -/
@[inline] def cmpeq (a b : Vec) : Vec := List.zipWith (fun x y => if x == y then 0xFF else 0x00) a b

@[inline] def and (a b : Vec) : Vec := List.zipWith (· &&& ·) a b

@[inline] def or (a b : Vec) : Vec := List.zipWith (· ||| ·) a b

/-- lane `i` of a boolean vector is "true" -/
@[inline] def lane (v : Vec) (i : Nat) : Bool := v[i]? == some 0xFF

/-- every lane is `0x00` or `0xFF` (what `cmpeq`, and `and`/`or` of such, produce) -/
def IsBool (v : Vec) : Prop := ∀ x ∈ v, x = 0x00 ∨ x = 0xFF

end Vec

/-- The ISA-specific part of `impl Vector for T` together with `T::Mask: MoveMask`. -/
structure VecImpl where
  /-- `V::BYTES` -/
  bytes : Nat
  /-- `V::ALIGN` -/
  align : Nat
  bytes_pos : 0 < bytes
  /-- `load_aligned` is an instruction that requires alignment (false for NEON, where the
  crate implements it as an unaligned load) -/
  alignedLoadChecks : Bool
  Mask : Type
  /-- `Vector::movemask` -/
  movemask : Vec → Mask
  /-- `Vector::movemask_will_have_non_zero` -/
  willHaveNonZero : Vec → Bool
  /-- `MoveMask::all_zeros_except_least_significant(n)` -/
  allExceptLS : Nat → M Mask
  /-- `MoveMask::has_non_zero` -/
  hasNonZero : Mask → Bool
  /-- `MoveMask::count_ones` -/
  countOnes : Mask → Nat
  /-- `MoveMask::and` -/
  mand : Mask → Mask → Mask
  /-- `MoveMask::or` -/
  mor : Mask → Mask → Mask
  /-- `MoveMask::clear_least_significant_bit` (`self.0 & (self.0 - 1)`: the subtraction is
  overflow-checked) -/
  clearLSB : Mask → M Mask
  /-- `MoveMask::first_offset` -/
  firstOffset : Mask → M Nat
  /-- `MoveMask::last_offset` (`32 - leading_zeros - 1`: checked) -/
  lastOffset : Mask → M Nat

namespace VecImpl

/-- `V::load_unaligned(ptr)` -/
@[inline] def loadU (V : VecImpl) (m : Mem) (a : Nat) : M Vec := m.loadU a V.bytes

/-- `V::load_aligned(ptr)` -/
@[inline] def loadA (V : VecImpl) (m : Mem) (a : Nat) : M Vec := m.loadA a V.bytes V.alignedLoadChecks

end VecImpl

/-- What the generic algorithms need from an ISA: an abstraction `bit m i` ("lane `i` is set
in mask `m`") on well-formed masks, and every mask operation described through it. -/
structure Lawful (V : VecImpl) where
  bytes_le : V.bytes ≤ 32
  /-- `BYTES` is a power of two and `ALIGN = BYTES - 1` -/
  pow2 : ∃ k, V.bytes = 2 ^ k
  align_eq : V.align = V.bytes - 1
  wf : V.Mask → Prop
  bit : V.Mask → Nat → Bool
  bit_lt : ∀ m i, wf m → bit m i = true → i < V.bytes
  movemask_wf : ∀ v : Vec, v.length = V.bytes → v.IsBool → wf (V.movemask v)
  movemask_bit : ∀ (v : Vec) i, v.length = V.bytes → v.IsBool → i < V.bytes →
    bit (V.movemask v) i = v.lane i
  will_iff : ∀ v : Vec, v.length = V.bytes → v.IsBool →
    (V.willHaveNonZero v = true ↔ ∃ i, i < V.bytes ∧ v.lane i = true)
  hasNonZero_iff : ∀ m, wf m → (V.hasNonZero m = true ↔ ∃ i, bit m i = true)
  mor_wf : ∀ a b, wf a → wf b → wf (V.mor a b)
  mor_bit : ∀ a b i, wf a → wf b → bit (V.mor a b) i = (bit a i || bit b i)
  mand_wf : ∀ a b, wf a → wf b → wf (V.mand a b)
  mand_bit : ∀ a b i, wf a → wf b → bit (V.mand a b) i = (bit a i && bit b i)
  countOnes_eq : ∀ m, wf m → V.countOnes m = ((List.range V.bytes).filter (bit m)).length
  firstOffset_spec : ∀ m c, wf m → (∃ i, bit m i = true) →
    ∃ k, V.firstOffset m c = .ok k c ∧ bit m k = true ∧ ∀ j, j < k → bit m j = false
  lastOffset_spec : ∀ m c, wf m → (∃ i, bit m i = true) →
    ∃ k, V.lastOffset m c = .ok k c ∧ bit m k = true ∧ ∀ j, k < j → bit m j = false
  clearLSB_spec : ∀ m c, wf m → (∃ i, bit m i = true) →
    ∃ m', V.clearLSB m c = .ok m' c ∧ wf m' ∧
      ∀ k, (bit m k = true ∧ ∀ j, j < k → bit m j = false) →
        ∀ i, bit m' i = (bit m i && i != k)
  /-- `all_zeros_except_least_significant(n).and(m)` keeps every lane `>= n` of `m` and
  introduces no lane (NEON's actual formula clears fewer than `n` lanes; see DESIGN O1). -/
  allExceptLS_spec : ∀ n c, n < V.bytes →
    ∃ k, V.allExceptLS n c = .ok k c ∧
      ∀ m, wf m → wf (V.mand m k) ∧ (∀ i, bit (V.mand m k) i = true → bit m i = true) ∧
        (∀ i, n ≤ i → bit (V.mand m k) i = bit m i)
  /-- with `n = 0` nothing is cleared -/
  allExceptLS_zero : ∀ c, ∃ k, V.allExceptLS 0 c = .ok k c ∧
      ∀ m, wf m → wf (V.mand m k) ∧ ∀ i, bit (V.mand m k) i = bit m i

end Memchr
