/-
Everything between the generic vector routines and the public byte-search API:

* the per-ISA wrappers `One/Two/Three::{find_raw, rfind_raw, count_raw}` of
  `src/arch/x86_64/sse2/memchr.rs`, `src/arch/aarch64/neon/memchr.rs`,
  `src/arch/wasm32/simd128/memchr.rs` (textually the same file modulo the vector type and the
  ISA name: one definition parametric in `V`) and `src/arch/x86_64/avx2/memchr.rs`;
* the choice of implementation: the `cfg` chain of `src/memchr.rs`, the `is_available()`
  bodies, `detect` of `unsafe_ifunc!` (`src/arch/x86_64/memchr.rs`), `defraw!` of
  `src/arch/aarch64/memchr.rs` and `src/arch/wasm32/memchr.rs`;
* `search_slice_with_raw` and the slice forms `memchr`, `memrchr`, `memchr2`, ...;
* `arch::generic::memchr::Iter` (`next`, `next_back`, `count`, `size_hint`) and its
  instantiations (`Memchr`, `Memchr2`, `Memchr3`, `OneIter`, `TwoIter`, `ThreeIter`).

`One`, `Two`, `Three` differ only in the number of needle bytes, so every function takes the
needle bytes `ns : Needles`; the unroll factor of the generic routine is chosen by the number
of needles from `Generated.oneUnroll/twoUnroll/threeUnroll`.

None of the wrapper / dispatch / iterator code has a `tick` or `note_load` hook; ticks and
loads come only from the routines that are called.
-/
import MemchrModel.Model.MemchrGeneric
import MemchrModel.Model.Sensible
import MemchrModel.Model.Neon
import MemchrModel.Model.Swar
import MemchrModel.Base.Slice
import MemchrModel.Generated.Consts

set_option linter.unusedVariables false

namespace Memchr.Api

open Memchr

/-! ### unroll factors -/

/-- `One::LOOP_SIZE = 4 * V::BYTES`, `Two::LOOP_SIZE = 2 * V::BYTES`,
`Three::LOOP_SIZE = 2 * V::BYTES` (factors re-extracted from the source). -/
def unroll (ns : Needles) : Nat :=
  match ns.rest with
  | [] => Generated.oneUnroll
  | [_] => Generated.twoUnroll
  | _ => Generated.threeUnroll

theorem unroll_pos (ns : Needles) : 0 < unroll ns := by
  unfold unroll
  split <;> decide

/-! ### 1a. single-vector wrappers (SSE2, NEON, simd128)

```
pub unsafe fn find_raw(&self, start, end) -> Option<*const u8> {
    if start >= end { return None; }
    if end.distance(start) < V::BYTES {
        return generic::fwd_byte_by_byte(start, end, |b| b == self.0.needle1() || ..);
    }
    self.find_raw_impl(start, end)      // = self.0.find_raw(start, end)
}
```
-/

/-- `{sse2,neon,simd128}::memchr::{One,Two,Three}::find_raw` -/
def wrapFind (V : VecImpl) (ns : Needles) (m : Mem) (start end_ : Nat) : M (Option Nat) :=
  if start ≥ end_ then pure none else do
    let d ← m.distance "find_raw: end.distance(start)" end_ start
    if d < V.bytes then Generic.fwdByteByByte m ns.confirm start end_
    else Generic.findRaw V ns (unroll ns) (unroll_pos ns) m start end_

/-- `{sse2,neon,simd128}::memchr::{One,Two,Three}::rfind_raw` -/
def wrapRfind (V : VecImpl) (ns : Needles) (m : Mem) (start end_ : Nat) : M (Option Nat) :=
  if start ≥ end_ then pure none else do
    let d ← m.distance "rfind_raw: end.distance(start)" end_ start
    if d < V.bytes then Generic.revByteByByte m ns.confirm start end_
    else Generic.rfindRaw V ns (unroll ns) (unroll_pos ns) m start end_

/-- `{sse2,neon,simd128}::memchr::One::count_raw` -/
def wrapCount (V : VecImpl) (n1 : UInt8) (m : Mem) (start end_ : Nat) : M Nat :=
  if start ≥ end_ then pure 0 else do
    let d ← m.distance "count_raw: end.distance(start)" end_ start
    if d < V.bytes then Generic.countByteByByte m (fun b => b == n1) start end_
    else Generic.countRaw V n1 Generated.oneUnroll (unroll_pos ⟨n1, []⟩) m start end_

/-! ### 1b. AVX2 wrapper

```
pub unsafe fn find_raw(&self, start, end) -> Option<*const u8> {
    if start >= end { return None; }
    let len = end.distance(start);
    if len < __m256i::BYTES {
        return if len < __m128i::BYTES {
            generic::fwd_byte_by_byte(start, end, |b| b == self.sse2.needle1() || ..)
        } else {
            self.find_raw_sse2(start, end)   // = self.sse2.find_raw: generic::One<__m128i>
        };
    }
    self.find_raw_avx2(start, end)           // = self.avx2.find_raw: generic::One<__m256i>
}
```
-/

/-- `avx2::memchr::{One,Two,Three}::find_raw` -/
def avx2Find (ns : Needles) (m : Mem) (start end_ : Nat) : M (Option Nat) :=
  if start ≥ end_ then pure none else do
    let len ← m.distance "find_raw: end.distance(start)" end_ start
    if len < Sensible.avx2.bytes then
      if len < Sensible.sse2.bytes then Generic.fwdByteByByte m ns.confirm start end_
      else Generic.findRaw Sensible.sse2 ns (unroll ns) (unroll_pos ns) m start end_
    else Generic.findRaw Sensible.avx2 ns (unroll ns) (unroll_pos ns) m start end_

/-- `avx2::memchr::{One,Two,Three}::rfind_raw` -/
def avx2Rfind (ns : Needles) (m : Mem) (start end_ : Nat) : M (Option Nat) :=
  if start ≥ end_ then pure none else do
    let len ← m.distance "rfind_raw: end.distance(start)" end_ start
    if len < Sensible.avx2.bytes then
      if len < Sensible.sse2.bytes then Generic.revByteByByte m ns.confirm start end_
      else Generic.rfindRaw Sensible.sse2 ns (unroll ns) (unroll_pos ns) m start end_
    else Generic.rfindRaw Sensible.avx2 ns (unroll ns) (unroll_pos ns) m start end_

/-- `avx2::memchr::One::count_raw` -/
def avx2Count (n1 : UInt8) (m : Mem) (start end_ : Nat) : M Nat :=
  if start ≥ end_ then pure 0 else do
    let len ← m.distance "count_raw: end.distance(start)" end_ start
    if len < Sensible.avx2.bytes then
      if len < Sensible.sse2.bytes then Generic.countByteByByte m (fun b => b == n1) start end_
      else Generic.countRaw Sensible.sse2 n1 Generated.oneUnroll (unroll_pos ⟨n1, []⟩) m start end_
    else Generic.countRaw Sensible.avx2 n1 Generated.oneUnroll (unroll_pos ⟨n1, []⟩) m start end_

/-! ### 1c. backends -/

inductive Backend where
  | avx2 | sse2 | neon | simd128 | swar
  deriving Repr, DecidableEq, Inhabited

def Backend.name : Backend → String
  | .avx2 => "avx2" | .sse2 => "sse2" | .neon => "neon" | .simd128 => "simd128" | .swar => "swar"

def Backend.ofName? : String → Option Backend
  | "avx2" => some .avx2 | "sse2" => some .sse2 | "neon" => some .neon
  | "simd128" => some .simd128 | "swar" => some .swar | _ => none

/-- `arch::all::memchr::{One,Two,Three}::{find_raw, rfind_raw}`: `One` has its own body,
`Two` and `Three` share `Swar.Multi`. -/
def swarFind (ns : Needles) (rev : Bool) (m : Mem) (start end_ : Nat) : M (Option Nat) :=
  match ns.rest with
  | [] => if rev then Swar.One.rfindRaw ns.first m start end_ else Swar.One.findRaw ns.first m start end_
  | _ => if rev then Swar.Multi.rfindRaw ns m start end_ else Swar.Multi.findRaw ns m start end_

/-- `<backend>::memchr::{One,Two,Three}::new_unchecked(needles).{find_raw, rfind_raw}(start, end)` -/
def rawFind (b : Backend) (ns : Needles) (rev : Bool) (m : Mem) (start end_ : Nat) :
    M (Option Nat) :=
  match b with
  | .avx2 => if rev then avx2Rfind ns m start end_ else avx2Find ns m start end_
  | .sse2 =>
    if rev then wrapRfind Sensible.sse2 ns m start end_ else wrapFind Sensible.sse2 ns m start end_
  | .neon => if rev then wrapRfind Neon.impl ns m start end_ else wrapFind Neon.impl ns m start end_
  | .simd128 =>
    if rev then wrapRfind Sensible.simd128 ns m start end_
    else wrapFind Sensible.simd128 ns m start end_
  | .swar => swarFind ns rev m start end_

/-- `<backend>::memchr::One::new_unchecked(n1).count_raw(start, end)` -/
def rawCount (b : Backend) (n1 : UInt8) (m : Mem) (start end_ : Nat) : M Nat :=
  match b with
  | .avx2 => avx2Count n1 m start end_
  | .sse2 => wrapCount Sensible.sse2 n1 m start end_
  | .neon => wrapCount Neon.impl n1 m start end_
  | .simd128 => wrapCount Sensible.simd128 n1 m start end_
  | .swar => Swar.One.countRaw n1 m start end_

/-! ### 1d. build + CPU configuration and the choice of backend -/

/-- `target_arch` (with `wasm32` split by `target_feature = "simd128"`, the only way the
source looks at it: `#[cfg(all(target_arch = "wasm32", target_feature = "simd128"))]`; a
`wasm32` build without `simd128` is `other`). -/
inductive Arch where
  | x86_64 | aarch64 | wasm32simd128 | other
  deriving Repr, DecidableEq, Inhabited

/-- the verification hook `crate::verif::forced_unavailable` (`MEMCHR_VERIF_FORCE`):
`noavx2` makes `avx2::..::is_available()` return false, `nosse2` both `avx2` and `sse2`.
Always `none` outside the verification build. -/
inductive Force where
  | none | noavx2 | nosse2
  deriving Repr, DecidableEq, Inhabited

structure Cfg where
  arch : Arch
  /-- `cfg(target_feature = "sse2")` -/
  ctSse2 : Bool
  /-- `cfg(target_feature = "avx2")` -/
  ctAvx2 : Bool
  /-- `cfg(target_feature = "neon")` -/
  ctNeon : Bool
  /-- `cfg(feature = "std")` -/
  std : Bool
  /-- what `std::is_x86_feature_detected!("avx2")` reports at run time -/
  cpuAvx2 : Bool
  /-- `#[cfg(memchr_verif)] forced_unavailable` -/
  force : Force := .none
  deriving Repr, DecidableEq, Inhabited

/-- `forced_unavailable(Isa::Avx2)`: `f >= 1` -/
def Cfg.forcedNoAvx2 (cfg : Cfg) : Bool := cfg.force != .none
/-- `forced_unavailable(Isa::Sse2)`: `f >= 2` -/
def Cfg.forcedNoSse2 (cfg : Cfg) : Bool := cfg.force == .nosse2

/-- `sse2::memchr::{One,Two,Three}::is_available()` -/
def sse2Available (cfg : Cfg) : Bool :=
  if cfg.forcedNoSse2 then false
  else if cfg.ctSse2 then true else false

/-- `avx2::memchr::{One,Two,Three}::is_available()` -/
def avx2Available (cfg : Cfg) : Bool :=
  if cfg.forcedNoAvx2 then false
  else if !cfg.ctSse2 then false
  else if cfg.ctAvx2 then true
  else if cfg.std then cfg.cpuAvx2
  else false

/-- `neon::memchr::{One,Two,Three}::is_available()` -/
def neonAvailable (cfg : Cfg) : Bool := if cfg.ctNeon then true else false

/-- `simd128::memchr::{One,Two,Three}::is_available()`: `cfg(target_feature = "simd128")`;
the module is only reachable when `arch = wasm32simd128`. -/
def simd128Available (cfg : Cfg) : Bool := cfg.arch == .wasm32simd128

/-- `detect` of `unsafe_ifunc!`: which function pointer it stores and calls. -/
def x86Detect (cfg : Cfg) : Backend :=
  if !cfg.ctSse2 then .swar                    -- `#[cfg(not(target_feature = "sse2"))] find_fallback`
  else if avx2Available cfg then .avx2
  else if sse2Available cfg then .sse2
  else .swar

/-- The backend that serves `memchr_raw` & co. (`src/memchr.rs` cfg chain, then the per-arch
wrapper module). -/
def select (cfg : Cfg) : Backend :=
  match cfg.arch with
  | .x86_64 => x86Detect cfg
  | .wasm32simd128 => .simd128
  | .aarch64 => if cfg.ctNeon then .neon else .swar
  | .other => .swar

/-- `memchr_raw` / `memrchr_raw` / `memchr2_raw` / ... of `src/memchr.rs`, including the
`debug_assert!($ty::is_available())` of the `defraw!` macros. On `x86_64` this is the function
`detect` stores into `FN` (the cell itself is modelled in `Model/Concurrency.lean`). -/
def memchrRaw (cfg : Cfg) (ns : Needles) (rev : Bool) (m : Mem) (start end_ : Nat) :
    M (Option Nat) :=
  match cfg.arch with
  | .x86_64 => rawFind (x86Detect cfg) ns rev m start end_
  | .wasm32simd128 => do
    dbgAssert "defraw: $ty::is_available()" (simd128Available cfg)
    rawFind .simd128 ns rev m start end_
  | .aarch64 =>
    if cfg.ctNeon then do
      dbgAssert "defraw: $ty::is_available()" (neonAvailable cfg)
      rawFind .neon ns rev m start end_
    else rawFind .swar ns rev m start end_
  | .other => rawFind .swar ns rev m start end_

/-- `count_raw` of `src/memchr.rs` -/
def countRaw (cfg : Cfg) (n1 : UInt8) (m : Mem) (start end_ : Nat) : M Nat :=
  match cfg.arch with
  | .x86_64 => rawCount (x86Detect cfg) n1 m start end_
  | .wasm32simd128 => do
    dbgAssert "defraw: $ty::is_available()" (simd128Available cfg)
    rawCount .simd128 n1 m start end_
  | .aarch64 =>
    if cfg.ctNeon then do
      dbgAssert "defraw: $ty::is_available()" (neonAvailable cfg)
      rawCount .neon n1 m start end_
    else rawCount .swar n1 m start end_
  | .other => rawCount .swar n1 m start end_

/-! ### 1e. slice forms -/

/-- `generic::search_slice_with_raw(haystack, find_raw)`:
```
let start = haystack.as_ptr();
let end = start.add(haystack.len());
let found = find_raw(start, end)?;
Some(found.distance(start))
``` -/
def searchSliceWithRaw (hay : Slice) (findRaw : Nat → Nat → M (Option Nat)) : M (Option Nat) := do
  let start := hay.ptr
  let end_ ← hay.mem.padd "search_slice_with_raw: start.add(haystack.len())" start hay.len
  match ← findRaw start end_ with
  | none => pure none
  | some found =>
    let d ← hay.mem.distance "search_slice_with_raw: found.distance(start)" found start
    pure (some d)

/-- `<backend>::memchr::{One,Two,Three}::{find, rfind}(haystack)` -/
def sliceFind (b : Backend) (ns : Needles) (rev : Bool) (hay : Slice) : M (Option Nat) :=
  searchSliceWithRaw hay (rawFind b ns rev hay.mem)

/-- `<backend>::memchr::One::count(haystack)`:
`let start = haystack.as_ptr(); let end = start.add(haystack.len()); self.count_raw(start, end)` -/
def sliceCount (b : Backend) (n1 : UInt8) (hay : Slice) : M Nat := do
  let start := hay.ptr
  let end_ ← hay.mem.padd "count: start.add(haystack.len())" start hay.len
  rawCount b n1 hay.mem start end_

/-- `memchr::{memchr, memrchr, memchr2, memrchr2, memchr3, memrchr3}(needles.., haystack)` -/
def memchr (cfg : Cfg) (ns : Needles) (rev : Bool) (hay : Slice) : M (Option Nat) :=
  searchSliceWithRaw hay (memchrRaw cfg ns rev hay.mem)

/-! ### 1f. `arch::generic::memchr::Iter` -/

/-- `Iter { original_start, start, end }` (raw addresses into `mem`) -/
structure Iter where
  mem : Mem
  originalStart : Nat
  start : Nat
  end_ : Nat
  deriving Repr, Inhabited

namespace Iter

/-- `Iter::new(haystack)`; `end` is `as_ptr().wrapping_add(len)` (no in-bounds requirement) -/
def new (hay : Slice) : Iter :=
  { mem := hay.mem, originalStart := hay.ptr, start := hay.ptr, end_ := hay.ptr + hay.len }

/-- `Iter::next(find_raw)`:
```
let found = find_raw(self.start, self.end)?;
let result = found.distance(self.original_start);
self.start = found.add(1);
Some(result)
``` -/
def next (it : Iter) (findRaw : Nat → Nat → M (Option Nat)) : M (Option Nat × Iter) := do
  match ← findRaw it.start it.end_ with
  | none => pure (none, it)
  | some found =>
    let result ← it.mem.distance "Iter::next: found.distance(self.original_start)" found
      it.originalStart
    let s ← it.mem.padd "Iter::next: found.add(1)" found 1
    pure (some result, { it with start := s })

/-- `Iter::next_back(rfind_raw)`:
```
let found = rfind_raw(self.start, self.end)?;
let result = found.distance(self.original_start);
self.end = found;
Some(result)
``` -/
def nextBack (it : Iter) (rfindRaw : Nat → Nat → M (Option Nat)) : M (Option Nat × Iter) := do
  match ← rfindRaw it.start it.end_ with
  | none => pure (none, it)
  | some found =>
    let result ← it.mem.distance "Iter::next_back: found.distance(self.original_start)" found
      it.originalStart
    pure (some result, { it with end_ := found })

/-- `Iter::count(self, count_raw)`: `count_raw(self.start, self.end)` (consumes `self`) -/
def count (it : Iter) (countRaw : Nat → Nat → M Nat) : M Nat := countRaw it.start it.end_

/-- `Iter::size_hint`: `(0, Some(self.end.as_usize().saturating_sub(self.start.as_usize())))` -/
def sizeHint (it : Iter) : Nat × Option Nat := (0, some (it.end_ - it.start))

/-- The default `Iterator::count` (`self.fold(0, |n, _| n + 1)`, i.e. call `next` until it
returns `None`), used by `Memchr2`, `Memchr3`, `TwoIter`, `ThreeIter`, which do not override
`count`. MODEL DEVIATION: the Rust loop has no bound; the model gives it `fuel` iterations
(callers pass `end - start + 1`) and panics when the fuel runs out, which
`Proofs/MemchrApiIter.lean` shows never happens. -/
def countByNext (findRaw : Nat → Nat → M (Option Nat)) : Nat → Iter → Nat → M Nat
  | 0, _, _ => fail (.panic "model: default Iterator::count ran out of fuel")
  | fuel + 1, it, acc => do
    match ← it.next findRaw with
    | (none, _) => pure acc
    | (some _, it') => countByNext findRaw fuel it' (acc + 1)

end Iter

/-- The raw routines an iterator type is instantiated with: `find_raw`, `rfind_raw`, and
`count_raw` when the type overrides `Iterator::count` (one needle), as functions of the window. -/
structure RawFns where
  find : Nat → Nat → M (Option Nat)
  rfind : Nat → Nat → M (Option Nat)
  count : Option (Nat → Nat → M Nat)

/-- `OneIter` / `TwoIter` / `ThreeIter` of a wrapper module -/
def RawFns.ofBackend (b : Backend) (ns : Needles) (m : Mem) : RawFns where
  find := rawFind b ns false m
  rfind := rawFind b ns true m
  count := match ns.rest with
    | [] => some (rawCount b ns.first m)
    | _ => none

/-- `Memchr` / `Memchr2` / `Memchr3` of `src/memchr.rs` -/
def RawFns.ofCfg (cfg : Cfg) (ns : Needles) (m : Mem) : RawFns where
  find := memchrRaw cfg ns false m
  rfind := memchrRaw cfg ns true m
  count := match ns.rest with
    | [] => some (countRaw cfg ns.first m)
    | _ => none

/-- an iterator operation: `next`, `next_back`, `size_hint`, or `clone().count()` (an
observation that leaves the iterator unchanged) -/
inductive Op where
  | next | nextBack | sizeHint | count
  deriving Repr, DecidableEq, Inhabited

inductive Out where
  | idx (o : Option Nat)
  | hint (lo : Nat) (hi : Option Nat)
  | cnt (k : Nat)
  deriving Repr, DecidableEq, Inhabited

/-- `Iterator::count` of the iterator type: the `count_raw` specialisation when there is one,
the default `next` loop otherwise. -/
def Iter.countWith (it : Iter) (f : RawFns) : M Nat :=
  match f.count with
  | some cr => it.count cr
  | none => Iter.countByNext f.find (it.end_ - it.start + 1) it 0

def Iter.step (f : RawFns) (op : Op) (it : Iter) : M (Out × Iter) :=
  match op with
  | .next => do
    let (o, it') ← it.next f.find
    pure (.idx o, it')
  | .nextBack => do
    let (o, it') ← it.nextBack f.rfind
    pure (.idx o, it')
  | .sizeHint => pure (.hint it.sizeHint.1 it.sizeHint.2, it)
  | .count => do
    let k ← it.countWith f      -- on a clone: `it` itself is unchanged
    pure (.cnt k, it)

/-- run a sequence of operations, collecting the outputs -/
def Iter.run (f : RawFns) : List Op → Iter → M (List Out × Iter)
  | [], it => pure ([], it)
  | op :: ops, it => do
    let (o, it') ← it.step f op
    let (os, it'') ← Iter.run f ops it'
    pure (o :: os, it'')

/-- `memchr_iter(n1, haystack).count()` (the `count` specialisation of `Memchr`) -/
def count (cfg : Cfg) (n1 : UInt8) (hay : Slice) : M Nat :=
  (Iter.new hay).count (countRaw cfg n1 hay.mem)

end Memchr.Api
