/-
Model of the adaptive prefilter state of `src/memmem/searcher.rs`: `PrefilterState`
(`skips`, `skipped` as `u32`), `update`, `is_effective`, `is_inert`, `skips()`, and `Pre`
(the pair of a mutable state and a prefilter strategy handed to Two-Way).

`is_effective` compares `skipped` with `MIN_SKIP_BYTES.saturating_mul(self.skips())`.  (Before
the `fix:` commit recorded in known_findings.json as F1 this was a plain `u32` `*`, which is
overflow-checked when overflow checks are compiled in; that version is kept below as
`isEffectiveBeforeFix` together with the state on which it overflows.)
-/
import MemchrModel.Base.Slice
import MemchrModel.Generated.Consts

set_option linter.unusedVariables false

namespace Memchr

structure PrefilterState where
  skips : UInt32
  skipped : UInt32
  deriving Repr, DecidableEq, Inhabited

namespace PrefilterState

def MIN_SKIPS : UInt32 := Generated.preMinSkips.toUInt32
def MIN_SKIP_BYTES : UInt32 := Generated.preMinSkipBytes.toUInt32

/-- `PrefilterState::new()` -/
def new : PrefilterState :=
  { skips := Generated.preInitSkips.toUInt32, skipped := Generated.preInitSkipped.toUInt32 }

/-- `u32::saturating_add` -/
@[inline] def satAdd (a b : UInt32) : UInt32 :=
  if a.toNat + b.toNat ≥ 2 ^ 32 then 0xFFFFFFFF else a + b

/-- `u32::saturating_sub` -/
@[inline] def satSub (a b : UInt32) : UInt32 := if a < b then 0 else a - b

/-- `update(&mut self, skipped: usize)` -/
def update (s : PrefilterState) (skipped : Nat) : PrefilterState :=
  { skips := satAdd s.skips 1,
    skipped := if skipped ≥ 2 ^ 32 then 0xFFFFFFFF else satAdd s.skipped skipped.toUInt32 }

/-- `is_inert(&self)` -/
@[inline] def isInert (s : PrefilterState) : Bool := s.skips == 0

/-- `skips(&self)` = `self.skips.saturating_sub(1)` -/
@[inline] def skipsM1 (s : PrefilterState) : UInt32 := satSub s.skips 1

/-- `is_effective(&mut self)`; returns the answer and the new state -/
def isEffective (s : PrefilterState) : M (Bool × PrefilterState) :=
  if s.isInert then pure (false, s)
  else if s.skipsM1 < MIN_SKIPS then pure (true, s)
  else
    -- `PrefilterState::MIN_SKIP_BYTES.saturating_mul(self.skips())`
    let prod := min (MIN_SKIP_BYTES.toNat * s.skipsM1.toNat) (2 ^ 32 - 1)
    if s.skipped.toNat ≥ prod then pure (true, s)
    else pure (false, { s with skips := 0 })

/-- `is_effective` as it was before the F1 fix: `MIN_SKIP_BYTES * self.skips()` in `u32`,
overflow-checked. -/
def isEffectiveBeforeFix (s : PrefilterState) : M (Bool × PrefilterState) :=
  if s.isInert then pure (false, s)
  else if s.skipsM1 < MIN_SKIPS then pure (true, s)
  else
    let prod := MIN_SKIP_BYTES.toNat * s.skipsM1.toNat
    if prod ≥ 2 ^ 32 then
      fail (.overflow "PrefilterState::is_effective: MIN_SKIP_BYTES * self.skips()")
    else if s.skipped.toNat ≥ prod then pure (true, s)
    else pure (false, { s with skips := 0 })

end PrefilterState

/-- `Pre<'a>`: the mutable state plus the strategy's `find` (`Prefilter::find`), which is a
parameter here; what the search loops may assume about it is `PreSound` below. -/
structure Pre where
  state : PrefilterState
  strat : Slice → M (Option Nat)

namespace Pre

/-- `Pre::find(&mut self, haystack)` -/
def find (p : Pre) (haystack : Slice) : M (Option Nat × Pre) := do
  let result ← p.strat haystack
  tick
  let st := p.state.update (result.getD haystack.len)
  pure (result, { p with state := st })

/-- `Pre::is_effective(&mut self)` -/
def isEffective (p : Pre) : M (Bool × Pre) := do
  let (b, st) ← p.state.isEffective
  pure (b, { p with state := st })

end Pre

end Memchr
