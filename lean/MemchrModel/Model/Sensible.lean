/-
`SensibleMoveMask(u32)` and the three `impl Vector` that use it (SSE2 `__m128i`, AVX2
`__m256i`, wasm `v128`) plus the hook's checked small-lane types `Small<N>`.

`movemask` is `_mm_movemask_epi8` / `_mm256_movemask_epi8` / `u8x16_bitmask`: bit `i` of the
result is the most significant bit of lane `i`.

`u32::trailing_zeros`, `leading_zeros`, `count_ones` are written out as bit loops
(`tz`, `lz`, `popcount` below); that these are what the Rust intrinsics compute is part
of the trusted base.
-/
import MemchrModel.Model.Vector

namespace Memchr

namespace Bits

/-- number of trailing zero bits of `n`, capped at `w` (`trailing_zeros` of a `w`-bit word) -/
def tz (w : Nat) (n : Nat) : Nat :=
  match w with
  | 0 => 0
  | w + 1 => if n % 2 == 1 then 0 else 1 + tz w (n / 2)

/-- bit length of `n` (position of the highest set bit plus one; 0 for 0) -/
def bitLen (n : Nat) : Nat := if h : n = 0 then 0 else 1 + bitLen (n / 2)
decreasing_by omega

/-- `leading_zeros` of a `w`-bit word -/
def lz (w : Nat) (n : Nat) : Nat := w - bitLen n

/-- `count_ones` -/
def popcount (n : Nat) : Nat := if h : n = 0 then 0 else n % 2 + popcount (n / 2)
decreasing_by omega

/-- the movemask of a list of lanes: bit `i` = msb of lane `i` -/
def msbMask : List UInt8 → Nat
  | [] => 0
  | x :: xs => (x >>> 7).toNat + 2 * msbMask xs

end Bits

namespace Sensible

open Bits

/-- `MoveMask::all_zeros_except_least_significant`:
`debug_assert!(n < 32); SensibleMoveMask(!((1 << n) - 1))` -/
def allExceptLS (n : Nat) : M UInt32 := do
  dbgAssert "SensibleMoveMask::all_zeros_except_least_significant: n < 32" (n < 32)
  if n < 32 then
    -- `1 << n` does not overflow; `- 1` does not underflow since `1 << n >= 1`
    pure (~~~ ((1 <<< n.toUInt32) - 1))
  else fail (.overflow "SensibleMoveMask::all_zeros_except_least_significant: 1 << n")

/-- `self.0 & (self.0 - 1)` -/
def clearLSB (m : UInt32) : M UInt32 :=
  if m == 0 then fail (.overflow "SensibleMoveMask::clear_least_significant_bit: self.0 - 1")
  else pure (m &&& (m - 1))

/-- `self.get_for_offset().trailing_zeros() as usize` (little endian) -/
def firstOffset (m : UInt32) : M Nat := pure (tz 32 m.toNat)

/-- `32 - self.get_for_offset().leading_zeros() as usize - 1` -/
def lastOffset (m : UInt32) : M Nat := do
  let a ← csub "SensibleMoveMask::last_offset: 32 - lz" 32 (lz 32 m.toNat)
  csub "SensibleMoveMask::last_offset: - 1" a 1

/-- The `VecImpl` of a `bytes`-lane vector whose mask is a `SensibleMoveMask`. -/
def impl (bytes : Nat) (h : 0 < bytes) : VecImpl where
  bytes := bytes
  align := bytes - 1
  bytes_pos := h
  alignedLoadChecks := true
  Mask := UInt32
  movemask v := (msbMask v).toUInt32
  willHaveNonZero v := (msbMask v).toUInt32 != 0
  allExceptLS := allExceptLS
  hasNonZero m := m != 0
  countOnes m := popcount m.toNat
  mand a b := a &&& b
  mor a b := a ||| b
  clearLSB := clearLSB
  firstOffset := firstOffset
  lastOffset := lastOffset

/-- SSE2 `__m128i` -/
def sse2 : VecImpl := impl 16 (by decide)
/-- AVX2 `__m256i` -/
def avx2 : VecImpl := impl 32 (by decide)
/-- wasm32 `v128` -/
def simd128 : VecImpl := impl 16 (by decide)
/-- the hook's checked small-lane types -/
def small2 : VecImpl := impl 2 (by decide)
def small4 : VecImpl := impl 4 (by decide)
def small8 : VecImpl := impl 8 (by decide)

end Sensible

end Memchr
