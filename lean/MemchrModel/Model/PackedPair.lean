/-
Model of `src/arch/generic/packedpair.rs`: `Finder<V>::{new, find, find_prefilter,
find_in_chunk, find_prefilter_in_chunk, min_haystack_len}` and `matched`.

`Finder<V>` stores the `Pair` (two `u8` indices, here `Nat`s `<= 255`), the two splatted
vectors `v1 = V::splat(needle[index1])`, `v2 = V::splat(needle[index2])` (here the two bytes;
the splat is done where the vector is used) and `min_haystack_len`.

The haystack pointers (`start`, `end`, `max`, `cur`) are addresses into `haystack.mem`;
`needle.as_ptr()` is an address into `needle.mem`.

The candidate loop `while offsets.has_non_zero()` of `find_in_chunk` terminates because
`clear_least_significant_bit` removes a set bit, a fact about `V` that is only available under
`Lawful V`; the model function therefore carries an explicit fuel (`V.bytes + 1` suffices, a
mask has at most `V.bytes` lanes) and running out of fuel is the fault
`panic "find_in_chunk: fuel"`, which `Proofs/PackedPair.lean` shows is never reached.
-/
import MemchrModel.Base.Slice
import MemchrModel.Model.Vector
import MemchrModel.Model.IsEqual

set_option linter.unusedVariables false

namespace Memchr.PackedPair

/-- `Finder<V>` -/
structure Finder where
  /-- `pair.index1()` (a `u8`) -/
  index1 : Nat
  /-- `pair.index2()` (a `u8`) -/
  index2 : Nat
  /-- the byte splatted into `v1` -/
  b1 : UInt8
  /-- the byte splatted into `v2` -/
  b2 : UInt8
  /-- `min_haystack_len` -/
  minHaystackLen : Nat
  deriving Repr, Inhabited

variable (V : VecImpl)

/-- `Finder::<V>::new(needle, pair)` with `pair = Pair { index1: i1, index2: i2 }` -/
def Finder.new (needle : Slice) (i1 i2 : Nat) : M Finder := do
  let maxIndex := max i1 i2
  let minHaystackLen := max needle.len (maxIndex + V.bytes)
  let b1 ← needle.get "packedpair::new: needle[usize::from(pair.index1())]" i1
  let b2 ← needle.get "packedpair::new: needle[usize::from(pair.index2())]" i2
  pure { index1 := i1, index2 := i2, b1 := b1, b2 := b2, minHaystackLen := minHaystackLen }

/-- `Finder::min_haystack_len` -/
@[inline] def Finder.minHaystackLen' (f : Finder) : Nat := f.minHaystackLen

/-- `matched(start, cur, chunki) = cur.distance(start) + chunki` -/
def matched (hm : Mem) (start cur chunki : Nat) : M Nat := do
  let d ← hm.distance "matched: cur.distance(start)" cur start
  pure (d + chunki)

/-- the `while offsets.has_non_zero()` loop of `find_in_chunk` (see the file comment for
`fuel`) -/
def candLoop (hm : Mem) (needle : Slice) (cur end_ : Nat) :
    Nat → V.Mask → M (Option Nat)
  | 0, _ => fail (.panic "find_in_chunk: fuel")
  | fuel + 1, offsets =>
    if V.hasNonZero offsets then do
      tick
      let offset ← V.firstOffset offsets
      let cur' ← hm.padd "find_in_chunk: cur.add(offset)" cur offset
      let lim ← hm.psub "find_in_chunk: end.sub(needle.len())" end_ needle.len
      if lim < cur' then pure none else
      let eq ← IsEqual.isEqualRaw needle.mem hm needle.ptr cur' needle.len
      if eq then pure (some offset) else
      let offsets' ← V.clearLSB offsets
      candLoop hm needle cur end_ fuel offsets'
    else pure none

/-- `eq1.and(eq2)` of `find_in_chunk` / `find_prefilter_in_chunk`: the two unaligned loads at
`cur.add(index1)`, `cur.add(index2)`, the two `cmpeq`s, the `PP_CHUNK` tick (the same text in
both Rust functions; `who` is the name of the calling function, for the site strings). -/
def pairEq (who : String) (f : Finder) (hm : Mem) (cur : Nat) : M Vec := do
  let index1 := f.index1
  let index2 := f.index2
  let p1 ← hm.padd (who ++ ": cur.add(index1)") cur index1
  let chunk1 ← V.loadU hm p1
  let p2 ← hm.padd (who ++ ": cur.add(index2)") cur index2
  let chunk2 ← V.loadU hm p2
  let eq1 := Vec.cmpeq chunk1 (Vec.splat V.bytes f.b1)
  let eq2 := Vec.cmpeq chunk2 (Vec.splat V.bytes f.b2)
  tick
  pure (Vec.and eq1 eq2)

/-- `find_in_chunk(needle, cur, end, mask)` -/
def findInChunk (f : Finder) (hm : Mem) (needle : Slice) (cur end_ : Nat) (mask : V.Mask) :
    M (Option Nat) := do
  let e ← pairEq V "find_in_chunk" f hm cur
  let offsets := V.mand (V.movemask e) mask
  candLoop V hm needle cur end_ (V.bytes + 1) offsets

/-- `find_prefilter_in_chunk(cur)` -/
def findPrefilterInChunk (f : Finder) (hm : Mem) (cur : Nat) : M (Option Nat) := do
  let e ← pairEq V "find_prefilter_in_chunk" f hm cur
  let offsets := V.movemask e
  if !V.hasNonZero offsets then pure none else
  let off ← V.firstOffset offsets
  pure (some off)

/-- the part of `find` after the main loop (`if cur < end { ... } None`) -/
def findTail (f : Finder) (hm : Mem) (needle : Slice) (start end_ max cur : Nat) :
    M (Option Nat) := do
  if cur < end_ then
    let remaining ← hm.distance "find: end.distance(cur)" end_ cur
    dbgAssert "find: remaining < self.min_haystack_len" (remaining < f.minHaystackLen)
    if remaining < needle.len then pure none else
    dbgAssert "find: max < cur" (max < cur)
    let overlap ← hm.distance "find: cur.distance(max)" cur max
    dbgAssert "find: overlap > 0" (overlap > 0)
    if overlap ≥ V.bytes then pure none else
    dbgAssert "find: overlap < V::BYTES" (overlap < V.bytes)
    let mask ← V.allExceptLS overlap
    let cur := max
    match ← findInChunk V f hm needle cur end_ mask with
    | some chunki => do
      let r ← matched hm start cur chunki
      pure (some r)
    | none => pure none
  else pure none

/-- `while cur <= max { find_in_chunk ..; cur = cur.add(V::BYTES) }`, then the tail -/
def findLoop (f : Finder) (hm : Mem) (needle : Slice) (start end_ max : Nat) (all : V.Mask)
    (cur : Nat) : M (Option Nat) :=
  if h : cur ≤ max then do
    match ← findInChunk V f hm needle cur end_ all with
    | some chunki => do
      let r ← matched hm start cur chunki
      pure (some r)
    | none => do
      let _ ← hm.padd "find: cur.add(V::BYTES)" cur V.bytes
      findLoop f hm needle start end_ max all (cur + V.bytes)
  else findTail V f hm needle start end_ max cur
termination_by max + 1 - cur
decreasing_by have := V.bytes_pos; omega

/-- `Finder::<V>::find(haystack, needle)` -/
def find (f : Finder) (haystack needle : Slice) : M (Option Nat) := do
  assert "packedpair::find: haystack too small" (haystack.len ≥ f.minHaystackLen)
  let all ← V.allExceptLS 0
  let start := haystack.ptr
  let end_ ← haystack.mem.padd "find: start.add(haystack.len())" start haystack.len
  let max ← haystack.mem.psub "find: end.sub(self.min_haystack_len)" end_ f.minHaystackLen
  findLoop V f haystack.mem needle start end_ max all start

/-- the part of `find_prefilter` after the main loop -/
def prefilterTail (f : Finder) (hm : Mem) (start end_ max cur : Nat) : M (Option Nat) := do
  if cur < end_ then
    let cur := max
    match ← findPrefilterInChunk V f hm cur with
    | some chunki => do
      let r ← matched hm start cur chunki
      pure (some r)
    | none => pure none
  else pure none

/-- `while cur <= max { find_prefilter_in_chunk ..; cur = cur.add(V::BYTES) }`, then the tail -/
def prefilterLoop (f : Finder) (hm : Mem) (start end_ max : Nat) (cur : Nat) :
    M (Option Nat) :=
  if h : cur ≤ max then do
    match ← findPrefilterInChunk V f hm cur with
    | some chunki => do
      let r ← matched hm start cur chunki
      pure (some r)
    | none => do
      let _ ← hm.padd "find_prefilter: cur.add(V::BYTES)" cur V.bytes
      prefilterLoop f hm start end_ max (cur + V.bytes)
  else prefilterTail V f hm start end_ max cur
termination_by max + 1 - cur
decreasing_by have := V.bytes_pos; omega

/-- `Finder::<V>::find_prefilter(haystack)` -/
def findPrefilter (f : Finder) (haystack : Slice) : M (Option Nat) := do
  assert "packedpair::find_prefilter: haystack too small" (haystack.len ≥ f.minHaystackLen)
  let start := haystack.ptr
  let end_ ← haystack.mem.padd "find_prefilter: start.add(haystack.len())" start haystack.len
  let max ← haystack.mem.psub "find_prefilter: end.sub(self.min_haystack_len)" end_
    f.minHaystackLen
  prefilterLoop V f haystack.mem start end_ max start

end Memchr.PackedPair
