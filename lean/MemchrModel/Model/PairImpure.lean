/-
Model of `Pair::with_ranker` (`src/arch/all/packedpair/mod.rs`) for rankers that are NOT pure
functions of the byte.

The trait method is `fn rank(&self, byte: u8) -> u8`; an implementation may use interior state
(a call counter in a `Cell`, a `RefCell`, ...), so two calls with the same byte may answer
differently.  Such a ranker is a state type `σ` with `rank : σ → UInt8 → UInt8 × σ`; the state
is threaded through every call in the order in which the Rust evaluates them (left operand of
`<` first; the right operand of `&&` only when the left one is true).
-/
import MemchrModel.Model.Pair

set_option linter.unusedVariables false

namespace Memchr

namespace Pair

/-- The body of `for (i, &b) in needle.iter().enumerate().take(max).skip(2)` with a stateful
ranker.  Mirrors `scanLoop`. -/
def scanLoopS {σ : Type} (needle : Slice) (rank : σ → UInt8 → UInt8 × σ) (stop i : Nat)
    (rare1 index1 rare2 index2 : UInt8) (s : σ) : M (UInt8 × UInt8 × σ) :=
  if h : i < stop then do
    tick
    let b := needle.getD i
    -- `if ranker.rank(b) < ranker.rank(rare1)`
    let (rb, s) := rank s b
    let (rr1, s) := rank s rare1
    if rb < rr1 then do
      let i8 ← u8TryFrom "with_ranker: index1 = u8::try_from(i).unwrap()" i
      scanLoopS needle rank stop (i + 1) b i8 rare1 index1 s
    else if b != rare1 then
      -- `&& ranker.rank(b) < ranker.rank(rare2)` (evaluated only when `b != rare1`)
      let (rb, s) := rank s b
      let (rr2, s) := rank s rare2
      if rb < rr2 then do
        let i8 ← u8TryFrom "with_ranker: index2 = u8::try_from(i).unwrap()" i
        scanLoopS needle rank stop (i + 1) rare1 index1 b i8 s
      else scanLoopS needle rank stop (i + 1) rare1 index1 rare2 index2 s
    else scanLoopS needle rank stop (i + 1) rare1 index1 rare2 index2 s
  else pure (index1, index2, s)
termination_by stop - i

/-- `Pair::with_ranker(needle, ranker)` for a ranker with interior state `σ`, started in `s0`;
also returns the ranker's final state. -/
def withRankerS {σ : Type} (needle : Slice) (rank : σ → UInt8 → UInt8 × σ) (s0 : σ) :
    M (Option Pair × σ) := do
  if needle.len ≤ 1 then pure (none, s0) else
  let n0 ← needle.get "with_ranker: needle[0]" 0
  let n1 ← needle.get "with_ranker: needle[1]" 1
  -- `if ranker.rank(rare2) < ranker.rank(rare1) { swap; swap }`: `rank(needle[1])` first
  let (r2, s) := rank s0 n1
  let (r1, s) := rank s n0
  let swap := r2 < r1
  let rare1 := if swap then n1 else n0
  let index1 : UInt8 := if swap then 1 else 0
  let rare2 := if swap then n0 else n1
  let index2 : UInt8 := if swap then 0 else 1
  let max := Generated.pairScanMax
  let (index1, index2, s) ←
    scanLoopS needle rank (min needle.len max) Generated.pairScanSkip rare1 index1 rare2 index2 s
  assert "with_ranker: assert_ne!(index1, index2)" (index1 != index2)
  pure (some ⟨index1, index2⟩, s)

end Pair

end Memchr
