/-
Model of `src/arch/all/shiftor.rs` (the Shift-Or / bitap substring searcher, property C12).

Safe Rust only (no raw loads, and the source has no `tick` hook, so the counter is untouched).
`type Mask = u16`.  `1 << i` and `1 << self.needle_len` are overflow-checked shifts (a shift
amount `>= Mask::BITS` panics under overflow checks); `result <<= 1` has a constant in-range
shift amount and silently drops the top bit; `i + 1 - self.needle_len` is a checked
subtraction.  `masks: Box<[Mask; 256]>` is a `Vector Mask 256` indexed by `usize::from(byte)`,
which is in range by typing (as in Rust).
-/
import MemchrModel.Base.Slice
import MemchrModel.Generated.Consts

set_option linter.unusedVariables false

namespace Memchr.ShiftOr

/-- `type Mask = u16` -/
abbrev Mask := UInt16

/-- `Mask::BITS` -/
def maskBits : Nat := Generated.shiftOrMaskBits

/-- `Finder::MAX_NEEDLE_LEN = (Mask::BITS - 1) as usize` -/
def maxNeedleLen : Nat := maskBits - 1

/-- `shiftor::Finder` -/
structure Finder where
  masks : Vector Mask 256
  needleLen : Nat

/-- `1 << n` on `Mask` with `n : usize` (overflow-checked shift) -/
@[inline] def shl1 (site : String) (n : Nat) : M Mask :=
  if n < maskBits then pure ((1 : Mask) <<< n.toUInt16) else fail (.overflow site)

/-- `masks[usize::from(byte)]` -/
@[inline] def maskAt (masks : Vector Mask 256) (byte : UInt8) : Mask :=
  masks[byte.toNat]'(UInt8.toNat_lt byte)

/-- `masks[usize::from(byte)] = v` -/
@[inline] def maskSet (masks : Vector Mask 256) (byte : UInt8) (v : Mask) : Vector Mask 256 :=
  masks.set byte.toNat v (UInt8.toNat_lt byte)

/-- `for (i, &byte) in needle.iter().enumerate() { masks[byte] &= !(1 << i) }` -/
def newLoop (needle : Slice) (i : Nat) (masks : Vector Mask 256) : M (Vector Mask 256) :=
  if h : i < needle.len then do
    let byte := needle.getD i
    let bit ← shl1 "new: 1 << i" i
    newLoop needle (i + 1) (maskSet masks byte (maskAt masks byte &&& ~~~bit))
  else pure masks
termination_by needle.len - i

/-- `Finder::new(needle)` -/
def Finder.new (needle : Slice) : M (Option Finder) :=
  let needleLen := needle.len
  if needleLen > maxNeedleLen then pure none else do
    let masks ← newLoop needle 0 (Vector.replicate 256 (~~~(0 : Mask)))
    pure (some ⟨masks, needleLen⟩)

/-- `for (i, &byte) in haystack.iter().enumerate() { .. }` of `find` -/
def findLoop (f : Finder) (hay : Slice) (i : Nat) (result : Mask) : M (Option Nat) :=
  if h : i < hay.len then do
    let byte := hay.getD i
    let result := result ||| maskAt f.masks byte
    let result := result <<< 1
    let bit ← shl1 "find: 1 << self.needle_len" f.needleLen
    if result &&& bit == 0 then do
      let r ← csub "find: i + 1 - self.needle_len" (i + 1) f.needleLen
      pure (some r)
    else findLoop f hay (i + 1) result
  else pure none
termination_by hay.len - i

/-- `Finder::find(haystack)` -/
def Finder.find (f : Finder) (hay : Slice) : M (Option Nat) :=
  if f.needleLen == 0 then pure (some 0)
  else findLoop f hay 0 (~~~(1 : Mask))

end Memchr.ShiftOr
