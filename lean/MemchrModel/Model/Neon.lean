/-
`mod aarch64neon` of `src/vector.rs`: `impl Vector for uint8x16_t` and `NeonMoveMask(u64)`
(little endian only: `get_for_offset` is the identity).

A vector is the list of its 16 byte lanes (lane 0 = lowest address). NEON has no
`movemask` instruction; the crate narrows the 128-bit comparison result to 64 bits with a
"shift right narrow by 4" so that lane `i` of the input owns the nibble `4i .. 4i+3` of a
`u64`, and keeps only the top bit of every nibble (`& 0x8888888888888888`). So lane `i`
is bit `4i + 3` of the mask.

`u64::trailing_zeros`, `leading_zeros`, `count_ones` are the bit loops `Bits.tz 64`,
`Bits.lz 64`, `Bits.popcount` of `Model/Sensible.lean`.
-/
import MemchrModel.Model.Sensible
import MemchrModel.Generated.Consts

set_option linter.unusedVariables false

namespace Memchr

/-!
### Trusted base: assumed semantics of the aarch64 intrinsics

The following lane semantics (Arm ARM / ACLE, little-endian aarch64) are ASSUMED by this
model; nothing in Lean checks them against the hardware.

* `vld1q_u8(p)`: loads the 16 bytes `p[0..16]`; lane `i` = `p[i]`; no alignment requirement
  (`load_aligned` is `load_unaligned` in the crate, hence `alignedLoadChecks := false`).
* `vdupq_n_u8(b)`: all 16 lanes = `b` (`Vec.splat`).
* `vceqq_u8(a, b)`: lane `i` = `0xFF` if `a[i] == b[i]` else `0x00` (`Vec.cmpeq`).
* `vandq_u8` / `vorrq_u8`: lane-wise `&` / `|` (`Vec.and` / `Vec.or`).
* `vreinterpretq_u16_u8(v)`: 8 `u16` lanes, lane `j` = `v[2j] + 256 * v[2j+1]`
  (`Neon.asU16s`).
* `vshrn_n_u16(x, 4)`: 8 `u8` lanes, lane `j` = `(x[j] >> 4) as u8` (truncation to the low
  8 bits) (`Neon.shrn4`).
* `vreinterpret_u64_u8(x)` followed by `vget_lane_u64(.., 0)`: the 8 bytes of `x` read as
  one little-endian `u64` = `sum_j x[j] * 256^j` (`Neon.le64`).
* `vpmaxq_u8(a, b)`: 16 lanes; lane `j` = `max(a[2j], a[2j+1])` for `j < 8` and
  `max(b[2(j-8)], b[2(j-8)+1])` for `8 <= j < 16` (unsigned max) (`Neon.pmaxq`).
* `vreinterpretq_u64_u8(x)` followed by `vgetq_lane_u64(.., 0)`: bytes `0..8` of `x` read
  as one little-endian `u64` (`Neon.le64 (x.take 8)`).
* `u64::trailing_zeros` = `Bits.tz 64`, `u64::leading_zeros` = `Bits.lz 64`,
  `u64::count_ones` = `Bits.popcount`.
* Rust integer semantics under overflow checks: `a << k` on `u64` panics iff `k >= 64`
  (bits shifted out are silently dropped), `a - b` panics iff `a < b`.
-/

namespace Neon

open Bits

/-- `vreinterpretq_u16_u8`: little-endian `u16` lanes, lane `j` = `v[2j] + 256 * v[2j+1]` -/
def asU16s : List UInt8 → List UInt16
  | a :: b :: rest => (a.toUInt16 + 256 * b.toUInt16) :: asU16s rest
  | _ => []

/-- `vshrn_n_u16(x, 4)`: every `u16` lane shifted right by 4 and truncated to `u8` -/
def shrn4 (x : List UInt16) : List UInt8 := x.map (fun (l : UInt16) => (l >>> 4).toUInt8)

/-- little-endian value of a list of bytes -/
def leNat : List UInt8 → Nat
  | [] => 0
  | x :: xs => x.toNat + 256 * leNat xs

/-- `vreinterpret_u64_u8` + `vget_lane_u64(.., 0)`: the 8 bytes as a little-endian `u64` -/
def le64 (x : List UInt8) : UInt64 := (leNat x).toUInt64

/-- pairwise unsigned max of adjacent lanes of one operand -/
def pairMax : List UInt8 → List UInt8
  | a :: b :: rest => (if a ≤ b then b else a) :: pairMax rest
  | _ => []

/-- `vpmaxq_u8(a, b)` -/
def pmaxq (a b : Vec) : Vec := pairMax a ++ pairMax b

/-- `0x8888888888888888` -/
def maskConst : UInt64 := Generated.neonMaskConst.toUInt64

/-- `Vector::movemask`:
```
let asu16s = vreinterpretq_u16_u8(self);
let mask = vshrn_n_u16(asu16s, 4);
let asu64 = vreinterpret_u64_u8(mask);
let scalar64 = vget_lane_u64(asu64, 0);
NeonMoveMask(scalar64 & 0x8888888888888888)
``` -/
def movemask (v : Vec) : UInt64 :=
  let asu16s := asU16s v
  let mask := shrn4 asu16s
  let scalar64 := le64 mask
  scalar64 &&& maskConst

/-- `Vector::movemask_will_have_non_zero`:
```
let low = vreinterpretq_u64_u8(vpmaxq_u8(self, self));
vgetq_lane_u64(low, 0) != 0
``` -/
def willHaveNonZero (v : Vec) : Bool :=
  let low := le64 ((pmaxq v v).take 8)
  low != 0

/-- `MoveMask::all_zeros_except_least_significant`:
`debug_assert!(n < 16); NeonMoveMask(!(((1 << n) << 2) - 1))`.
The literal `1` is a `u64`; `1 << n` panics (overflow check) iff `n >= 64`; `<< 2` never
panics; `- 1` panics iff the shifted value is 0. NOTE this clears only the `n + 2` low
*bits* (about `n / 4` lanes), not `n` lanes; the model mirrors the formula as is. -/
def allExceptLS (n : Nat) : M UInt64 := do
  dbgAssert "NeonMoveMask::all_zeros_except_least_significant: n < 16"
    (n < Generated.neonMaskLanes)
  if n < 64 then
    let a : UInt64 := (1 : UInt64) <<< n.toUInt64
    let b : UInt64 := a <<< 2
    if b == 0 then
      fail (.overflow "NeonMoveMask::all_zeros_except_least_significant: ((1 << n) << 2) - 1")
    else pure (~~~ (b - 1))
  else fail (.overflow "NeonMoveMask::all_zeros_except_least_significant: 1 << n")

/-- `self.0 & (self.0 - 1)` -/
def clearLSB (m : UInt64) : M UInt64 :=
  if m == 0 then fail (.overflow "NeonMoveMask::clear_least_significant_bit: self.0 - 1")
  else pure (m &&& (m - 1))

/-- `(self.get_for_offset().trailing_zeros() >> 2) as usize` (little endian) -/
def firstOffset (m : UInt64) : M Nat := pure (tz 64 m.toNat >>> 2)

/-- `16 - (self.get_for_offset().leading_zeros() >> 2) as usize - 1` -/
def lastOffset (m : UInt64) : M Nat := do
  let a ← csub "NeonMoveMask::last_offset: 16 - (lz >> 2)" 16 (lz 64 m.toNat >>> 2)
  csub "NeonMoveMask::last_offset: - 1" a 1

/-- The `VecImpl` of `uint8x16_t` with `NeonMoveMask`. -/
def impl : VecImpl where
  bytes := 16
  align := 15
  bytes_pos := by decide
  alignedLoadChecks := false
  Mask := UInt64
  movemask := movemask
  willHaveNonZero := willHaveNonZero
  allExceptLS := allExceptLS
  hasNonZero m := m != 0
  countOnes m := popcount m.toNat
  mand a b := a &&& b
  mor a b := a ||| b
  clearLSB := clearLSB
  firstOffset := firstOffset
  lastOffset := lastOffset

/-- `BYTES` / `ALIGN` agree with the constants extracted from the source. -/
theorem impl_bytes_eq_generated :
    impl.bytes = Generated.neonBytes ∧ impl.align = Generated.neonBytes - 1 := ⟨rfl, rfl⟩

end Neon

end Memchr
