/-
Model of `src/memmem/searcher.rs` (the substring "meta" searcher) together with the four
per-ISA packed-pair wrapper types it chooses from
(`src/arch/x86_64/{sse2,avx2}/packedpair.rs`, `src/arch/aarch64/neon/packedpair.rs`,
`src/arch/wasm32/simd128/packedpair.rs`).

The Rust stores the chosen strategy as an untagged `union` plus a function pointer
(`SearcherKind` + `SearcherKindFn`, `PrefilterKind` + `PrefilterKindFn`); `Searcher::new` and
`Prefilter::{fallback, sse2, avx2, neon, simd128}` always store a function pointer together with
the union field that function reads.  The model uses the tagged inductives `SearcherKind` /
`PrefilterKind`; `Searcher.find` / `Prefilter.find` do the case analysis and run the body of
the paired `searcher_kind_*` / `prefilter_kind_*` function.

The build + CPU configuration is `Api.Cfg` (`Model/MemchrApi.lean`).  The crate's top-level
`crate::memchr` / `crate::memrchr` are `Api.memchr cfg` (the dispatching slice form).

`PrefilterState` / `Pre` (also defined in `searcher.rs`) are in `Model/Prefilter.lean`.

The only `tick` hook of `searcher.rs` is the one in `Pre::find` (already in `Pre.find`); the
`note_strategy` hooks do not count steps.
-/
import MemchrModel.Model.MemchrApi
import MemchrModel.Model.PackedPair
import MemchrModel.Model.Pair
import MemchrModel.Model.TwoWay
import MemchrModel.Model.RabinKarp
import MemchrModel.Model.Prefilter
import MemchrModel.Model.Swar
import MemchrModel.Generated.Consts

set_option linter.unusedVariables false

namespace Memchr.Memmem

open Memchr

/-! ### `PrefilterConfig` -/

/-- `enum PrefilterConfig { None, Auto }` (re-exported as `memmem::Prefilter`) -/
inductive PrefilterConfig where
  | none
  | auto
  deriving Repr, DecidableEq, Inhabited

/-- `PrefilterConfig::is_none` -/
@[inline] def PrefilterConfig.isNone : PrefilterConfig → Bool
  | .none => true
  | .auto => false

/-- `impl Default for PrefilterConfig` -/
def PrefilterConfig.default : PrefilterConfig := .auto

/-! ### the per-ISA packed-pair wrappers -/

/-- which vector packed-pair finder -/
inductive VecKind where
  | avx2 | sse2 | neon | simd128
  deriving Repr, DecidableEq, Inhabited

def VecKind.name : VecKind → String
  | .avx2 => "avx2" | .sse2 => "sse2" | .neon => "neon" | .simd128 => "simd128"

/-- `<isa>::packedpair::Finder::is_available()`.

* avx2: `forced_unavailable(Avx2)` → false; `not(target_feature = "sse2")` → false;
  `target_feature = "avx2"` → true; `feature = "std"` → `is_x86_feature_detected!("avx2")`;
  else false.
* sse2: `forced_unavailable(Sse2)` → false; `target_feature = "sse2"`.
* neon: `target_feature = "neon"`.
* simd128: `true`. -/
def VecKind.isAvailable (cfg : Api.Cfg) : VecKind → Bool
  | .avx2 =>
    if cfg.forcedNoAvx2 then false
    else if !cfg.ctSse2 then false
    else if cfg.ctAvx2 then true
    else if cfg.std then cfg.cpuAvx2
    else false
  | .sse2 =>
    if cfg.forcedNoSse2 then false
    else if cfg.ctSse2 then true else false
  | .neon => if cfg.ctNeon then true else false
  | .simd128 => true

/-- One of the four wrapper types `<isa>::packedpair::Finder`.  `sse2`, `neon`, `simd128` are
newtypes around one `generic::packedpair::Finder<V>`; `avx2` holds both an `__m128i` and an
`__m256i` generic finder.  `pair` is the `Pair` the generic finder(s) were built from (the
generic model keeps its two indices as `Nat`s). -/
inductive VecFinder where
  | avx2 (pair : Pair) (sse2 : PackedPair.Finder) (avx2 : PackedPair.Finder)
  | sse2 (pair : Pair) (f : PackedPair.Finder)
  | neon (pair : Pair) (f : PackedPair.Finder)
  | simd128 (pair : Pair) (f : PackedPair.Finder)
  deriving Repr, Inhabited

namespace VecFinder

def kind : VecFinder → VecKind
  | .avx2 .. => .avx2
  | .sse2 .. => .sse2
  | .neon .. => .neon
  | .simd128 .. => .simd128

/-- `Finder::pair()` (`avx2`: `self.avx2.pair()`) -/
def pair : VecFinder → Pair
  | .avx2 p _ _ => p
  | .sse2 p _ => p
  | .neon p _ => p
  | .simd128 p _ => p

/-- `Finder::min_haystack_len()`; for `avx2` it is `self.sse2.min_haystack_len()` -/
def minHaystackLen : VecFinder → Nat
  | .avx2 _ s _ => s.minHaystackLen
  | .sse2 _ f => f.minHaystackLen
  | .neon _ f => f.minHaystackLen
  | .simd128 _ f => f.minHaystackLen

/-- `<isa>::packedpair::Finder::with_pair(needle, pair)`:
`if Finder::is_available() { Some(Finder::with_pair_impl(needle, pair)) } else { None }` -/
def withPair (cfg : Api.Cfg) (k : VecKind) (needle : Slice) (pair : Pair) :
    M (Option VecFinder) :=
  if k.isAvailable cfg then
    match k with
    | .avx2 => do
      let sse2 ← PackedPair.Finder.new Sensible.sse2 needle pair.index1.toNat pair.index2.toNat
      let avx2 ← PackedPair.Finder.new Sensible.avx2 needle pair.index1.toNat pair.index2.toNat
      pure (some (.avx2 pair sse2 avx2))
    | .sse2 => do
      let f ← PackedPair.Finder.new Sensible.sse2 needle pair.index1.toNat pair.index2.toNat
      pure (some (.sse2 pair f))
    | .neon => do
      let f ← PackedPair.Finder.new Neon.impl needle pair.index1.toNat pair.index2.toNat
      pure (some (.neon pair f))
    | .simd128 => do
      let f ← PackedPair.Finder.new Sensible.simd128 needle pair.index1.toNat pair.index2.toNat
      pure (some (.simd128 pair f))
  else pure none

/-- `Finder::find(haystack, needle)`; `avx2::find_impl` routes
`haystack.len() < self.avx2.min_haystack_len()` to `self.sse2.find` -/
def find (vf : VecFinder) (haystack needle : Slice) : M (Option Nat) :=
  match vf with
  | .avx2 _ s a =>
    if haystack.len < a.minHaystackLen then PackedPair.find Sensible.sse2 s haystack needle
    else PackedPair.find Sensible.avx2 a haystack needle
  | .sse2 _ f => PackedPair.find Sensible.sse2 f haystack needle
  | .neon _ f => PackedPair.find Neon.impl f haystack needle
  | .simd128 _ f => PackedPair.find Sensible.simd128 f haystack needle

/-- `Finder::find_prefilter(haystack)` -/
def findPrefilter (vf : VecFinder) (haystack : Slice) : M (Option Nat) :=
  match vf with
  | .avx2 _ s a =>
    if haystack.len < a.minHaystackLen then PackedPair.findPrefilter Sensible.sse2 s haystack
    else PackedPair.findPrefilter Sensible.avx2 a haystack
  | .sse2 _ f => PackedPair.findPrefilter Sensible.sse2 f haystack
  | .neon _ f => PackedPair.findPrefilter Neon.impl f haystack
  | .simd128 _ f => PackedPair.findPrefilter Sensible.simd128 f haystack

end VecFinder

/-! ### which `cfg` block of `Searcher::new` is compiled -/

/-- The four mutually exclusive `#[cfg(..)]` blocks at the end of `Searcher::new`. -/
inductive CfgBlock where
  /-- `all(target_arch = "x86_64", target_feature = "sse2")` -/
  | x86Sse2
  /-- `all(target_arch = "wasm32", target_feature = "simd128")` -/
  | wasmSimd128
  /-- `target_arch = "aarch64"` -/
  | aarch64
  /-- `not(any(..))` -/
  | other
  deriving Repr, DecidableEq, Inhabited

def cfgBlock (cfg : Api.Cfg) : CfgBlock :=
  match cfg.arch with
  | .x86_64 => if cfg.ctSse2 then .x86Sse2 else .other
  | .wasm32simd128 => .wasmSimd128
  | .aarch64 => .aarch64
  | .other => .other

/-- Summary of the cfg chain + `is_available()`: the vector finder `Searcher::new` builds for a
needle with a valid pair (`none`: it takes one of the fallback branches).  `Searcher.new`
below follows the Rust text; `Proofs/Searcher.lean` shows it depends on `cfg` only through
this function. -/
def vecKind (cfg : Api.Cfg) : Option VecKind :=
  match cfgBlock cfg with
  | .x86Sse2 =>
    if VecKind.avx2.isAvailable cfg then some .avx2
    else if VecKind.sse2.isAvailable cfg then some .sse2
    else none
  | .wasmSimd128 => if VecKind.simd128.isAvailable cfg then some .simd128 else none
  | .aarch64 => if VecKind.neon.isAvailable cfg then some .neon else none
  | .other => none

/-! ### `Prefilter` -/

/-- `union PrefilterKind` + the paired `PrefilterKindFn` -/
inductive PrefilterKind where
  /-- `fallback: arch::all::packedpair::Finder` + `prefilter_kind_fallback` -/
  | fallback (f : Fallback.Finder)
  /-- `sse2` / `avx2` / `simd128` / `neon` + `prefilter_kind_<isa>` -/
  | vec (f : VecFinder)
  deriving Repr, Inhabited

/-- `struct Prefilter { call, kind, rarest_byte, rarest_offset }` -/
structure Prefilter where
  kind : PrefilterKind
  rarestByte : UInt8
  rarestOffset : UInt8
  deriving Repr, Inhabited

/-- the crate's top-level `memchr(needle, haystack)` -/
@[inline] def topMemchr (cfg : Api.Cfg) (b : UInt8) (haystack : Slice) : M (Option Nat) :=
  Api.memchr cfg ⟨b, []⟩ false haystack

/-- the crate's top-level `memrchr(needle, haystack)` -/
@[inline] def topMemrchr (cfg : Api.Cfg) (b : UInt8) (haystack : Slice) : M (Option Nat) :=
  Api.memchr cfg ⟨b, []⟩ true haystack

namespace Prefilter

/-- `const MAX_FALLBACK_RANK: u8 = 250;` -/
def MAX_FALLBACK_RANK : Nat := Generated.maxFallbackRank

/-- `Prefilter::fallback(ranker, pair, needle)` -/
def fallback (rank : UInt8 → UInt8) (pair : Pair) (needle : Slice) : M (Option Prefilter) := do
  let rarestOffset := pair.index1
  let rarestByte ← needle.get "Prefilter::fallback: needle[usize::from(rarest_offset)]"
    rarestOffset.toNat
  let rarestRank := rank rarestByte
  if rarestRank.toNat > MAX_FALLBACK_RANK then pure none
  else
    -- `Finder::with_pair(needle, pair.clone())?`
    match ← Fallback.withPair needle pair with
    | none => pure none
    | some finder =>
      pure (some { kind := .fallback finder, rarestByte := rarestByte,
                   rarestOffset := rarestOffset })

/-- `Prefilter::sse2 / avx2 / simd128 / neon (finder, needle)` (four textually identical
functions modulo the ISA name) -/
def ofVec (finder : VecFinder) (needle : Slice) : M Prefilter := do
  let rarestOffset := finder.pair.index1
  let rarestByte ← needle.get "Prefilter::<isa>: needle[usize::from(rarest_offset)]"
    rarestOffset.toNat
  pure { kind := .vec finder, rarestByte := rarestByte, rarestOffset := rarestOffset }

/-- `Prefilter::find_simple(haystack)`:
`arch::all::memchr::One::new(self.rarest_byte).find(haystack)
   .map(|i| i.saturating_sub(usize::from(self.rarest_offset)))`
(the portable SWAR `One`, whose `find` is `search_slice_with_raw(haystack, find_raw)`). -/
def findSimple (p : Prefilter) (haystack : Slice) : M (Option Nat) := do
  let r ← Api.searchSliceWithRaw haystack (Swar.One.findRaw p.rarestByte haystack.mem)
  pure (r.map (fun i => i - p.rarestOffset.toNat))

/-- `Prefilter::find(haystack)`: the body of the paired `prefilter_kind_*` function -/
def find (cfg : Api.Cfg) (p : Prefilter) (haystack : Slice) : M (Option Nat) :=
  match p.kind with
  | .fallback f => Fallback.findPrefilter (topMemchr cfg) f haystack
  | .vec finder =>
    if haystack.len < finder.minHaystackLen then p.findSimple haystack
    else finder.findPrefilter haystack

end Prefilter

/-! ### `Searcher` -/

/-- `union SearcherKind` + the paired `SearcherKindFn` -/
inductive SearcherKind where
  | empty
  | oneByte (b : UInt8)
  | twoWay (tw : TwoWay.TwoWay)
  /-- `TwoWayWithPrefilter { finder, prestrat }` -/
  | twoWayWithPrefilter (tw : TwoWay.TwoWay) (prestrat : Prefilter)
  /-- `sse2` / `avx2` / `simd128` / `neon` -/
  | packed (f : VecFinder)
  deriving Repr, Inhabited

/-- `struct Searcher { call, kind, rabinkarp }` -/
structure Searcher where
  kind : SearcherKind
  rabinkarp : RabinKarp.Finder
  deriving Repr, Inhabited

/-- `do_packed_search(needle)` -/
def doPackedSearch (needle : Slice) : Bool :=
  Generated.packedMinLen ≤ needle.len && needle.len ≤ Generated.packedMaxLen

/-- `rabinkarp::is_fast` is `haystack.len() < 16`; fails to compile if the re-extracted
threshold differs from what `RabinKarp.isFast` uses. -/
theorem isFast_eq_generated (haystack needle : Slice) :
    RabinKarp.isFast haystack needle = decide (haystack.len < Generated.rkFastThreshold) := rfl

namespace Searcher

/-- the name recorded by `note_strategy` / printed by the driver -/
def strategyName (s : Searcher) : String :=
  match s.kind with
  | .empty => "empty"
  | .oneByte _ => "one_byte"
  | .twoWay _ => "two_way"
  | .twoWayWithPrefilter _ p =>
    match p.kind with
    | .fallback _ => "two_way_with_prefilter:fallback"
    | .vec f => "two_way_with_prefilter:" ++ f.kind.name
  | .packed f => f.kind.name

/-- `Searcher::twoway(needle, rabinkarp, prestrat)` -/
def twoway (needle : Slice) (rabinkarp : RabinKarp.Finder) (prestrat : Option Prefilter) :
    M Searcher := do
  let finder ← TwoWay.Finder.new needle
  match prestrat with
  | none => pure { kind := .twoWay finder, rabinkarp := rabinkarp }
  | some prestrat => pure { kind := .twoWayWithPrefilter finder prestrat, rabinkarp := rabinkarp }

/-- The body of an `if let Some(pp) = <isa>::Finder::with_pair(needle, pair) { .. }` arm of
`Searcher::new` (textually the same for the four ISAs modulo names):
```
if do_packed_search(needle) { Searcher { call: searcher_kind_<isa>, kind: { <isa>: pp }, rabinkarp } }
else if prefilter.is_none() { Searcher::twoway(needle, rabinkarp, None) }
else { let prestrat = Prefilter::<isa>(pp, needle); Searcher::twoway(needle, rabinkarp, Some(prestrat)) }
``` -/
def withVec (prefilter : PrefilterConfig) (needle : Slice) (rabinkarp : RabinKarp.Finder)
    (pp : VecFinder) : M Searcher :=
  if doPackedSearch needle then pure { kind := .packed pp, rabinkarp := rabinkarp }
  else if prefilter.isNone then twoway needle rabinkarp none
  else do
    let prestrat ← Prefilter.ofVec pp needle
    twoway needle rabinkarp (some prestrat)

/-- The final arm of each `cfg` block:
```
else if prefilter.is_none() { Searcher::twoway(needle, rabinkarp, None) }
else { let prestrat = Prefilter::fallback(ranker, pair, needle); Searcher::twoway(needle, rabinkarp, prestrat) }
``` -/
def withFallback (prefilter : PrefilterConfig) (rank : UInt8 → UInt8) (pair : Pair)
    (needle : Slice) (rabinkarp : RabinKarp.Finder) : M Searcher :=
  if prefilter.isNone then twoway needle rabinkarp none
  else do
    let prestrat ← Prefilter.fallback rank pair needle
    twoway needle rabinkarp prestrat

/-- `Searcher::new(prefilter, ranker, needle)` -/
def new (cfg : Api.Cfg) (prefilter : PrefilterConfig) (rank : UInt8 → UInt8) (needle : Slice) :
    M Searcher := do
  let rabinkarp ← RabinKarp.Finder.new needle
  if needle.len ≤ 1 then
    if needle.len = 0 then pure { kind := .empty, rabinkarp := rabinkarp }
    else do
      dbgAssert "Searcher::new: debug_assert_eq!(1, needle.len())" (1 == needle.len)
      let b ← needle.get "Searcher::new: needle[0]" 0
      pure { kind := .oneByte b, rabinkarp := rabinkarp }
  else
  match ← Pair.withRanker needle rank with
  | none => twoway needle rabinkarp none
  | some pair => do
    dbgAssert "Searcher::new: pair offsets should not be equivalent"
      (pair.index1 != pair.index2)
    match cfgBlock cfg with
    | .x86Sse2 =>
      match ← VecFinder.withPair cfg .avx2 needle pair with
      | some pp => withVec prefilter needle rabinkarp pp
      | none =>
        match ← VecFinder.withPair cfg .sse2 needle pair with
        | some pp => withVec prefilter needle rabinkarp pp
        | none => withFallback prefilter rank pair needle rabinkarp
    | .wasmSimd128 =>
      match ← VecFinder.withPair cfg .simd128 needle pair with
      | some pp => withVec prefilter needle rabinkarp pp
      | none => withFallback prefilter rank pair needle rabinkarp
    | .aarch64 =>
      match ← VecFinder.withPair cfg .neon needle pair with
      | some pp => withVec prefilter needle rabinkarp pp
      | none => withFallback prefilter rank pair needle rabinkarp
    | .other => withFallback prefilter rank pair needle rabinkarp

/-- `searcher_kind_two_way` -/
def kindTwoWay (s : Searcher) (tw : TwoWay.TwoWay) (haystack needle : Slice) : M (Option Nat) :=
  if RabinKarp.isFast haystack needle then s.rabinkarp.find haystack needle
  else TwoWay.Finder.find tw haystack needle

/-- `searcher_kind_two_way_with_prefilter`.  `prestate` is a `&mut PrefilterState`; the final
state is returned.  (`find_with_prefilter` hands back the `Pre` it was given; the `none` arm
below is unreachable and returns the unchanged state.) -/
def kindTwoWayWithPrefilter (cfg : Api.Cfg) (s : Searcher) (tw : TwoWay.TwoWay)
    (prestrat : Prefilter) (prestate : PrefilterState) (haystack needle : Slice) :
    M (Option Nat × PrefilterState) :=
  if RabinKarp.isFast haystack needle then do
    let r ← s.rabinkarp.find haystack needle
    pure (r, prestate)
  else do
    let pre : Pre := { state := prestate, strat := prestrat.find cfg }
    let (r, pre') ← TwoWay.Finder.findWithPrefilter tw (some pre) haystack needle
    match pre' with
    | some p => pure (r, p.state)
    | none => pure (r, prestate)

/-- `searcher_kind_sse2 / avx2 / simd128 / neon` -/
def kindPacked (s : Searcher) (finder : VecFinder) (haystack needle : Slice) : M (Option Nat) :=
  if haystack.len < finder.minHaystackLen then s.rabinkarp.find haystack needle
  else finder.find haystack needle

/-- `Searcher::find(&self, prestate, haystack, needle)`; returns the result and the final
`*prestate` -/
def find (cfg : Api.Cfg) (s : Searcher) (prestate : PrefilterState) (haystack needle : Slice) :
    M (Option Nat × PrefilterState) :=
  if haystack.len < needle.len then pure (none, prestate)
  else
    match s.kind with
    | .empty => pure (some 0, prestate)
    | .oneByte b => do
      let r ← topMemchr cfg b haystack
      pure (r, prestate)
    | .twoWay tw => do
      let r ← s.kindTwoWay tw haystack needle
      pure (r, prestate)
    | .twoWayWithPrefilter tw prestrat =>
      s.kindTwoWayWithPrefilter cfg tw prestrat prestate haystack needle
    | .packed finder => do
      let r ← s.kindPacked finder haystack needle
      pure (r, prestate)

end Searcher

/-! ### `SearcherRev` -/

/-- `enum SearcherRevKind` -/
inductive SearcherRevKind where
  | empty
  | oneByte (needle : UInt8)
  | twoWay (finder : TwoWay.TwoWay)
  deriving Repr, Inhabited

/-- `struct SearcherRev { kind, rabinkarp }` -/
structure SearcherRev where
  kind : SearcherRevKind
  rabinkarp : RabinKarp.FinderRev
  deriving Repr, Inhabited

namespace SearcherRev

def strategyName (s : SearcherRev) : String :=
  match s.kind with
  | .empty => "empty"
  | .oneByte _ => "one_byte"
  | .twoWay _ => "two_way"

/-- `SearcherRev::new(needle)` -/
def new (needle : Slice) : M SearcherRev := do
  let kind ←
    if needle.len ≤ 1 then
      if needle.len = 0 then pure SearcherRevKind.empty
      else do
        dbgAssert "SearcherRev::new: debug_assert_eq!(1, needle.len())" (1 == needle.len)
        let b ← needle.get "SearcherRev::new: needle[0]" 0
        pure (SearcherRevKind.oneByte b)
    else do
      let finder ← TwoWay.FinderRev.new needle
      pure (SearcherRevKind.twoWay finder)
  let rabinkarp ← RabinKarp.FinderRev.new needle
  pure { kind := kind, rabinkarp := rabinkarp }

/-- `SearcherRev::rfind(&self, haystack, needle)` -/
def rfind (cfg : Api.Cfg) (s : SearcherRev) (haystack needle : Slice) : M (Option Nat) :=
  if haystack.len < needle.len then pure none
  else
    match s.kind with
    | .empty => pure (some haystack.len)
    | .oneByte b => topMemrchr cfg b haystack
    | .twoWay finder =>
      if RabinKarp.isFast haystack needle then s.rabinkarp.rfind haystack needle
      else TwoWay.FinderRev.rfind finder haystack needle

end SearcherRev

end Memchr.Memmem
