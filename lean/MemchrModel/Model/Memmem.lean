/-
Model of the public substring API `src/memmem/mod.rs` and of `src/cow.rs`:
`CowBytes`, `Finder`, `FinderRev`, `FinderBuilder`, `FindIter`, `FindRevIter`, the one-shot
`memmem::find` / `memmem::rfind`, `find_iter` / `rfind_iter`.

Ownership and allocation (C17).  `CowBytes` is `Borrowed(&[u8]) | Owned(Box<[u8]>)`; the
model keeps the flag and the slice `as_slice()` returns.  The only places of `mod.rs` /
`cow.rs` / `searcher.rs` that can reach the global allocator are `Box::<[u8]>::from(b)` in
`CowBytes::into_owned` (borrowed case) and `Box<[u8]>::clone` in the derived
`Clone for CowBytes` (owned case).  Both go through `Heap.boxFrom`, which copies the bytes into
a fresh region and counts the allocation.  Everything else (`Searcher`, `SearcherRev`,
`PrefilterState`, the iterators) is plain data that `clone()` copies in place.  Functions that
can allocate take and return the `Heap`; they have no `tick` hook and cannot fault.

`mod.rs` has no `tick` / `note_load` hook of its own.
-/
import MemchrModel.Model.Searcher

set_option linter.unusedVariables false

namespace Memchr.Memmem

open Memchr

/-! ### the heap (allocation counter) -/

/-- Global allocator state: number of allocator calls so far, bytes requested so far, address
handed out next. -/
structure Heap where
  allocs : Nat := 0
  bytes : Nat := 0
  next : Nat := 16777216
  deriving Repr, DecidableEq, Inhabited

namespace Heap

/-- `Box::<[u8]>::from(b)` / `Box<[u8]>::clone`: copy `b` into a fresh heap region (same region
id, so that load traces keep saying "needle").  A zero-length boxed slice does not call the
allocator (`RawVec` of capacity 0 is dangling); every other length is exactly one call. -/
def boxFrom (h : Heap) (b : Slice) : Slice × Heap :=
  let m : Mem := { region := b.mem.region, base := h.next, bytes := b.toArray }
  let s : Slice := ⟨m, 0, b.len⟩
  if b.len = 0 then (s, h)
  else (s, { allocs := h.allocs + 1, bytes := h.bytes + b.len, next := h.next + b.len })

end Heap

/-! ### `CowBytes` -/

inductive Ownership where
  | borrowed
  | owned
  deriving Repr, DecidableEq, Inhabited

/-- `CowBytes<'a>(Imp<'a>)` with `Imp::Borrowed(&'a [u8]) | Imp::Owned(Box<[u8]>)` -/
structure CowBytes where
  own : Ownership
  bytes : Slice
  deriving Repr, Inhabited

namespace CowBytes

/-- `CowBytes::new(bytes)` -/
@[inline] def new (bytes : Slice) : CowBytes := { own := .borrowed, bytes := bytes }

/-- `CowBytes::as_slice(&self)` -/
@[inline] def asSlice (c : CowBytes) : Slice := c.bytes

/-- `CowBytes::into_owned(self)` -/
def intoOwned (c : CowBytes) (h : Heap) : CowBytes × Heap :=
  match c.own with
  | .borrowed =>
    let (b, h') := h.boxFrom c.bytes
    ({ own := .owned, bytes := b }, h')
  | .owned => ({ own := .owned, bytes := c.bytes }, h)

/-- `#[derive(Clone)]`: `Borrowed(b)` copies the reference, `Owned(b)` clones the box -/
def clone (c : CowBytes) (h : Heap) : CowBytes × Heap :=
  match c.own with
  | .borrowed => (c, h)
  | .owned =>
    let (b, h') := h.boxFrom c.bytes
    ({ own := .owned, bytes := b }, h')

end CowBytes

/-! ### `Finder`, `FinderRev`, `FinderBuilder` -/

/-- `struct Finder<'n> { needle: CowBytes<'n>, searcher: Searcher }` -/
structure Finder where
  needle : CowBytes
  searcher : Searcher
  deriving Repr, Inhabited

/-- `struct FinderRev<'n> { needle: CowBytes<'n>, searcher: SearcherRev }` -/
structure FinderRev where
  needle : CowBytes
  searcher : SearcherRev
  deriving Repr, Inhabited

/-- `struct FinderBuilder { prefilter: Prefilter }` -/
structure FinderBuilder where
  prefilter : PrefilterConfig
  deriving Repr, Inhabited

namespace FinderBuilder

/-- `FinderBuilder::new()` = `FinderBuilder::default()` -/
def new : FinderBuilder := { prefilter := PrefilterConfig.default }

/-- `FinderBuilder::prefilter(&mut self, prefilter)` -/
def setPrefilter (b : FinderBuilder) (prefilter : PrefilterConfig) : FinderBuilder :=
  { b with prefilter := prefilter }

/-- `build_forward_with_ranker(ranker, needle)` -/
def buildForwardWithRanker (cfg : Api.Cfg) (b : FinderBuilder) (rank : UInt8 → UInt8)
    (needle : Slice) : M Finder := do
  let searcher ← Searcher.new cfg b.prefilter rank needle
  pure { needle := CowBytes.new needle, searcher := searcher }

/-- `build_forward(needle)` = `build_forward_with_ranker(DefaultFrequencyRank, needle)` -/
def buildForward (cfg : Api.Cfg) (b : FinderBuilder) (needle : Slice) : M Finder :=
  b.buildForwardWithRanker cfg Pair.defaultRank needle

/-- `build_reverse(needle)` -/
def buildReverse (b : FinderBuilder) (needle : Slice) : M FinderRev := do
  let searcher ← SearcherRev.new needle
  pure { needle := CowBytes.new needle, searcher := searcher }

end FinderBuilder

namespace Finder

/-- `Finder::new(needle)` -/
def new (cfg : Api.Cfg) (needle : Slice) : M Finder := FinderBuilder.new.buildForward cfg needle

/-- `Finder::needle(&self)` -/
@[inline] def needleSlice (f : Finder) : Slice := f.needle.asSlice

/-- `Finder::find(&self, haystack)`: a fresh `PrefilterState::new()` per call -/
def find (cfg : Api.Cfg) (f : Finder) (haystack : Slice) : M (Option Nat) := do
  let prestate := PrefilterState.new
  let needle := f.needle.asSlice
  let (r, _) ← f.searcher.find cfg prestate haystack needle
  pure r

/-- `Finder::as_ref(&self)` -/
def asRef (f : Finder) : Finder :=
  { needle := CowBytes.new f.needleSlice, searcher := f.searcher }

/-- `Finder::into_owned(self)` -/
def intoOwned (f : Finder) (h : Heap) : Finder × Heap :=
  let (n, h') := f.needle.intoOwned h
  ({ needle := n, searcher := f.searcher }, h')

/-- `#[derive(Clone)]` -/
def clone (f : Finder) (h : Heap) : Finder × Heap :=
  let (n, h') := f.needle.clone h
  ({ needle := n, searcher := f.searcher }, h')

end Finder

namespace FinderRev

/-- `FinderRev::new(needle)` -/
def new (needle : Slice) : M FinderRev := FinderBuilder.new.buildReverse needle

/-- `FinderRev::needle(&self)` -/
@[inline] def needleSlice (f : FinderRev) : Slice := f.needle.asSlice

/-- `FinderRev::rfind(&self, haystack)` -/
def rfind (cfg : Api.Cfg) (f : FinderRev) (haystack : Slice) : M (Option Nat) :=
  f.searcher.rfind cfg haystack f.needle.asSlice

/-- `FinderRev::as_ref(&self)` -/
def asRef (f : FinderRev) : FinderRev :=
  { needle := CowBytes.new f.needleSlice, searcher := f.searcher }

/-- `FinderRev::into_owned(self)` -/
def intoOwned (f : FinderRev) (h : Heap) : FinderRev × Heap :=
  let (n, h') := f.needle.intoOwned h
  ({ needle := n, searcher := f.searcher }, h')

/-- `#[derive(Clone)]` -/
def clone (f : FinderRev) (h : Heap) : FinderRev × Heap :=
  let (n, h') := f.needle.clone h
  ({ needle := n, searcher := f.searcher }, h')

end FinderRev

/-! ### `FindIter` -/

/-- `usize::MAX` on the 64-bit targets modelled (`Swar.USIZE_BYTES = 8`) -/
def usizeMax : Nat := 2 ^ 64 - 1

/-- `usize::saturating_add` -/
@[inline] def usizeSatAdd (a b : Nat) : Nat := if a + b > usizeMax then usizeMax else a + b

/-- `usize::checked_add` -/
@[inline] def usizeCheckedAdd (a b : Nat) : Option Nat := if a + b > usizeMax then none else some (a + b)

/-- `struct FindIter<'h, 'n> { haystack, prestate, finder, pos }` -/
structure FindIter where
  haystack : Slice
  prestate : PrefilterState
  finder : Finder
  pos : Nat
  deriving Repr, Inhabited

namespace FindIter

/-- `FindIter::new(haystack, finder)` -/
def new (haystack : Slice) (finder : Finder) : FindIter :=
  { haystack := haystack, prestate := PrefilterState.new, finder := finder, pos := 0 }

/-- `FindIter::into_owned(self)` -/
def intoOwned (it : FindIter) (h : Heap) : FindIter × Heap :=
  let (f, h') := it.finder.intoOwned h
  ({ it with finder := f }, h')

/-- `#[derive(Clone)]` -/
def clone (it : FindIter) (h : Heap) : FindIter × Heap :=
  let (f, h') := it.finder.clone h
  ({ it with finder := f }, h')

/-- `Iterator::next`:
```
let needle = self.finder.needle();
let haystack = self.haystack.get(self.pos..)?;
let idx = self.finder.searcher.find(&mut self.prestate, haystack, needle)?;
let pos = self.pos + idx;
self.pos = pos + needle.len().max(1);
Some(pos)
```
(`self.prestate` is updated by `find` also when it returns `None`.) -/
def next (cfg : Api.Cfg) (it : FindIter) : M (Option Nat × FindIter) := do
  let needle := it.finder.needleSlice
  -- `self.haystack.get(self.pos..)?`
  if it.pos > it.haystack.len then pure (none, it) else
  let haystack : Slice := ⟨it.haystack.mem, it.haystack.off + it.pos, it.haystack.len - it.pos⟩
  let (r, st) ← it.finder.searcher.find cfg it.prestate haystack needle
  match r with
  | none => pure (none, { it with prestate := st })
  | some idx =>
    let pos := it.pos + idx
    pure (some pos, { it with prestate := st, pos := pos + max needle.len 1 })

/-- `Iterator::size_hint` -/
def sizeHint (it : FindIter) : Nat × Option Nat :=
  -- `self.haystack.len().checked_sub(self.pos)`
  if it.haystack.len < it.pos then (0, some 0)
  else
    let haystackLen := it.haystack.len - it.pos
    match it.finder.needleSlice.len with
    | 0 => (usizeSatAdd haystackLen 1, usizeCheckedAdd haystackLen 1)
    | needleLen => (0, some (haystackLen / needleLen))

end FindIter

/-! ### `FindRevIter` -/

/-- `struct FindRevIter<'h, 'n> { haystack, finder, pos: Option<usize> }` -/
structure FindRevIter where
  haystack : Slice
  finder : FinderRev
  pos : Option Nat
  deriving Repr, Inhabited

namespace FindRevIter

/-- `FindRevIter::new(haystack, finder)` -/
def new (haystack : Slice) (finder : FinderRev) : FindRevIter :=
  { haystack := haystack, finder := finder, pos := some haystack.len }

/-- `FindRevIter::into_owned(self)` -/
def intoOwned (it : FindRevIter) (h : Heap) : FindRevIter × Heap :=
  let (f, h') := it.finder.intoOwned h
  ({ it with finder := f }, h')

/-- `#[derive(Clone)]` -/
def clone (it : FindRevIter) (h : Heap) : FindRevIter × Heap :=
  let (f, h') := it.finder.clone h
  ({ it with finder := f }, h')

/-- `Iterator::next`:
```
let pos = match self.pos { None => return None, Some(pos) => pos };
let result = self.finder.rfind(&self.haystack[..pos]);
match result {
    None => None,
    Some(i) => {
        if pos == i { self.pos = pos.checked_sub(1); } else { self.pos = Some(i); }
        Some(i)
    }
}
``` -/
def next (cfg : Api.Cfg) (it : FindRevIter) : M (Option Nat × FindRevIter) :=
  match it.pos with
  | none => pure (none, it)
  | some pos => do
    let sub ← it.haystack.take "FindRevIter::next: &self.haystack[..pos]" pos
    let result ← it.finder.rfind cfg sub
    match result with
    | none => pure (none, it)
    | some i =>
      if pos == i then
        -- `pos.checked_sub(1)`
        pure (some i, { it with pos := if pos = 0 then none else some (pos - 1) })
      else pure (some i, { it with pos := some i })

end FindRevIter

/-! ### module level functions -/

/-- `memmem::find(haystack, needle)` -/
def find (cfg : Api.Cfg) (haystack needle : Slice) : M (Option Nat) := do
  if haystack.len < Generated.oneshotFwdThreshold then
    let f ← RabinKarp.Finder.new needle
    f.find haystack needle
  else
    let f ← Finder.new cfg needle
    f.find cfg haystack

/-- `memmem::rfind(haystack, needle)` -/
def rfind (cfg : Api.Cfg) (haystack needle : Slice) : M (Option Nat) := do
  if haystack.len < Generated.oneshotRevThreshold then
    let f ← RabinKarp.FinderRev.new needle
    f.rfind haystack needle
  else
    let f ← FinderRev.new needle
    f.rfind cfg haystack

/-- `memmem::find_iter(haystack, needle)` -/
def findIter (cfg : Api.Cfg) (haystack needle : Slice) : M FindIter := do
  let f ← Finder.new cfg needle
  pure (FindIter.new haystack f)

/-- `memmem::rfind_iter(haystack, needle)` -/
def rfindIter (haystack needle : Slice) : M FindRevIter := do
  let f ← FinderRev.new needle
  pure (FindRevIter.new haystack f)

/-- `Finder::find_iter(&self, haystack)` -/
def Finder.findIter (f : Finder) (haystack : Slice) : FindIter := FindIter.new haystack f.asRef

/-- `FinderRev::rfind_iter(&self, haystack)` -/
def FinderRev.rfindIter (f : FinderRev) (haystack : Slice) : FindRevIter :=
  FindRevIter.new haystack f.asRef

/-! ### operation machines (C08, C16, C17; used by the driver) -/

/-- one observation -/
inductive Out where
  | idx (o : Option Nat)
  | hint (lo : Nat) (hi : Option Nat)
  | bytes (b : Array UInt8)
  deriving Repr, DecidableEq, Inhabited

/-- operations on a `FindIter` / `FindRevIter`: `next`, `size_hint`, replace the iterator by
its `clone()`, replace it by `into_owned()` -/
inductive IterOp where
  | next | sizeHint | clone | intoOwned
  deriving Repr, DecidableEq, Inhabited

def FindIter.step (cfg : Api.Cfg) (op : IterOp) (it : FindIter) (h : Heap) :
    M (Option Out × FindIter × Heap) :=
  match op with
  | .next => do
    let (o, it') ← it.next cfg
    pure (some (.idx o), it', h)
  | .sizeHint => pure (some (.hint it.sizeHint.1 it.sizeHint.2), it, h)
  | .clone =>
    let (it', h') := it.clone h
    pure (none, it', h')
  | .intoOwned =>
    let (it', h') := it.intoOwned h
    pure (none, it', h')

/-- run a sequence of operations, collecting the observations -/
def FindIter.run (cfg : Api.Cfg) : List IterOp → FindIter → Heap → M (List Out × FindIter × Heap)
  | [], it, h => pure ([], it, h)
  | op :: ops, it, h => do
    let (o, it', h') ← it.step cfg op h
    let (os, it'', h'') ← FindIter.run cfg ops it' h'
    pure (o.toList ++ os, it'', h'')

/-- `FindRevIter` does not override `size_hint`: the default is `(0, None)` -/
def FindRevIter.step (cfg : Api.Cfg) (op : IterOp) (it : FindRevIter) (h : Heap) :
    M (Option Out × FindRevIter × Heap) :=
  match op with
  | .next => do
    let (o, it') ← it.next cfg
    pure (some (.idx o), it', h)
  | .sizeHint => pure (some (.hint 0 none), it, h)
  | .clone =>
    let (it', h') := it.clone h
    pure (none, it', h')
  | .intoOwned =>
    let (it', h') := it.intoOwned h
    pure (none, it', h')

def FindRevIter.run (cfg : Api.Cfg) :
    List IterOp → FindRevIter → Heap → M (List Out × FindRevIter × Heap)
  | [], it, h => pure ([], it, h)
  | op :: ops, it, h => do
    let (o, it', h') ← it.step cfg op h
    let (os, it'', h'') ← FindRevIter.run cfg ops it' h'
    pure (o.toList ++ os, it'', h'')

/-- operations on a `Finder`: `find(haystack)`, continue with `as_ref()`, with
`into_owned()`, with `clone()`, observe `needle()` -/
inductive FinderOp where
  | find (haystack : Slice)
  | asRef
  | intoOwned
  | clone
  | needle
  deriving Repr, Inhabited

def Finder.step (cfg : Api.Cfg) (op : FinderOp) (f : Finder) (h : Heap) :
    M (Option Out × Finder × Heap) :=
  match op with
  | .find haystack => do
    let r ← f.find cfg haystack
    pure (some (.idx r), f, h)
  | .asRef => pure (none, f.asRef, h)
  | .intoOwned =>
    let (f', h') := f.intoOwned h
    pure (none, f', h')
  | .clone =>
    let (f', h') := f.clone h
    pure (none, f', h')
  | .needle => pure (some (.bytes f.needleSlice.toArray), f, h)

def Finder.run (cfg : Api.Cfg) : List FinderOp → Finder → Heap → M (List Out × Finder × Heap)
  | [], f, h => pure ([], f, h)
  | op :: ops, f, h => do
    let (o, f', h') ← f.step cfg op h
    let (os, f'', h'') ← Finder.run cfg ops f' h'
    pure (o.toList ++ os, f'', h'')

/-- the same for `FinderRev` (`find` is `rfind`) -/
def FinderRev.step (cfg : Api.Cfg) (op : FinderOp) (f : FinderRev) (h : Heap) :
    M (Option Out × FinderRev × Heap) :=
  match op with
  | .find haystack => do
    let r ← f.rfind cfg haystack
    pure (some (.idx r), f, h)
  | .asRef => pure (none, f.asRef, h)
  | .intoOwned =>
    let (f', h') := f.intoOwned h
    pure (none, f', h')
  | .clone =>
    let (f', h') := f.clone h
    pure (none, f', h')
  | .needle => pure (some (.bytes f.needleSlice.toArray), f, h)

def FinderRev.run (cfg : Api.Cfg) :
    List FinderOp → FinderRev → Heap → M (List Out × FinderRev × Heap)
  | [], f, h => pure ([], f, h)
  | op :: ops, f, h => do
    let (o, f', h') ← f.step cfg op h
    let (os, f'', h'') ← FinderRev.run cfg ops f' h'
    pure (o.toList ++ os, f'', h'')

/-! ### running an iterator to exhaustion (`finder.find_iter(hay).count()`-style use) -/

/-- `for _ in it { n += 1 }`: call `next()` until the first `None`, counting the matches.
MODEL DEVIATION: the Rust loop has no bound; the model gives it `fuel` iterations (callers pass
`haystack.len() + 2`: at most `len + 1` matches, then the `None`) and panics when the fuel runs
out, which `Proofs/Memmem.lean` (`Finder.countIter_ok`) shows never happens. -/
def FindIter.countLoop (cfg : Api.Cfg) : Nat → FindIter → Nat → M Nat
  | 0, _, _ => fail (.panic "model: find_iter exhaustion ran out of fuel")
  | fuel + 1, it, acc => do
    match ← it.next cfg with
    | (none, _) => pure acc
    | (some _, it') => FindIter.countLoop cfg fuel it' (acc + 1)

def FindRevIter.countLoop (cfg : Api.Cfg) : Nat → FindRevIter → Nat → M Nat
  | 0, _, _ => fail (.panic "model: rfind_iter exhaustion ran out of fuel")
  | fuel + 1, it, acc => do
    match ← it.next cfg with
    | (none, _) => pure acc
    | (some _, it') => FindRevIter.countLoop cfg fuel it' (acc + 1)

/-- `finder.find_iter(haystack)` run to exhaustion.  `find_iter` is
`FindIter::new(haystack, self.as_ref())`: the iterator holds a BORROWED copy of the finder,
whatever the ownership of `self`, so nothing here can allocate (no heap argument). -/
def Finder.countIter (cfg : Api.Cfg) (f : Finder) (haystack : Slice) : M Nat :=
  FindIter.countLoop cfg (haystack.len + 2) (f.findIter haystack) 0

/-- `finder.rfind_iter(haystack)` run to exhaustion (`FindRevIter::new(haystack, self.as_ref())`) -/
def FinderRev.countIter (cfg : Api.Cfg) (f : FinderRev) (haystack : Slice) : M Nat :=
  FindRevIter.countLoop cfg (haystack.len + 2) (f.rfindIter haystack) 0

/-- `FinderOp` plus "iterate over this haystack to exhaustion and report the number of
matches" (kept as a separate type so that the `FinderOp` machines and their theorems are
unchanged) -/
inductive FinderOpX where
  | base (op : FinderOp)
  | iter (haystack : Slice)
  deriving Repr, Inhabited

/-- an observation of the extended machine -/
inductive OutX where
  | base (o : Out)
  | count (k : Nat)
  deriving Repr, DecidableEq, Inhabited

def Finder.stepX (cfg : Api.Cfg) (op : FinderOpX) (f : Finder) (h : Heap) :
    M (Option OutX × Finder × Heap) :=
  match op with
  | .base op => do
    let (o, f', h') ← f.step cfg op h
    pure (o.map OutX.base, f', h')
  | .iter haystack => do
    let k ← f.countIter cfg haystack
    pure (some (.count k), f, h)

def Finder.runX (cfg : Api.Cfg) : List FinderOpX → Finder → Heap → M (List OutX × Finder × Heap)
  | [], f, h => pure ([], f, h)
  | op :: ops, f, h => do
    let (o, f', h') ← f.stepX cfg op h
    let (os, f'', h'') ← Finder.runX cfg ops f' h'
    pure (o.toList ++ os, f'', h'')

def FinderRev.stepX (cfg : Api.Cfg) (op : FinderOpX) (f : FinderRev) (h : Heap) :
    M (Option OutX × FinderRev × Heap) :=
  match op with
  | .base op => do
    let (o, f', h') ← f.step cfg op h
    pure (o.map OutX.base, f', h')
  | .iter haystack => do
    let k ← f.countIter cfg haystack
    pure (some (.count k), f, h)

def FinderRev.runX (cfg : Api.Cfg) :
    List FinderOpX → FinderRev → Heap → M (List OutX × FinderRev × Heap)
  | [], f, h => pure ([], f, h)
  | op :: ops, f, h => do
    let (o, f', h') ← f.stepX cfg op h
    let (os, f'', h'') ← FinderRev.runX cfg ops f' h'
    pure (o.toList ++ os, f'', h'')

end Memchr.Memmem
