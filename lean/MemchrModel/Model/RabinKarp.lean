/-
Model of `src/arch/all/rabinkarp.rs`: `Hash::{new, add, del, roll, forward, reverse}`,
`Finder::{new, find, find_raw}`, `FinderRev::{new, rfind, rfind_raw}`, `is_fast`.

The hash is a `u32` with wrapping operations, so it is a `UInt32` with the Lean fixed-width
operators (`wrapping_shl(1)` is `<<< 1`, `wrapping_add` is `+`, `wrapping_sub` is `-`,
`wrapping_mul` is `*`).  `Finder::new` iterates over the needle slice with safe iterators
(`needle.iter().copied().skip(1)`); the model iterates over the list of its bytes.  Raw
pointer reads in `Hash::forward` / `Hash::reverse` / the `roll` step are traced one-byte
`Mem.read`s, exactly where the Rust has a `note_load` hook.
-/
import MemchrModel.Model.IsEqual

set_option linter.unusedVariables false

namespace Memchr.RabinKarp

/-- `struct Hash(u32)` -/
abbrev Hash := UInt32

/-- `struct Finder { hash: Hash, hash_2pow: u32 }` -/
structure Finder where
  hash : Hash
  hash2pow : UInt32
  deriving Repr, DecidableEq, Inhabited

/-- `struct FinderRev(Finder)` -/
structure FinderRev where
  inner : Finder
  deriving Repr, DecidableEq, Inhabited

namespace Hash

/-- `Hash::new()` -/
@[inline] def new : Hash := 0

/-- `self.0 = self.0.wrapping_shl(1).wrapping_add(u32::from(byte))` -/
@[inline] def add (h : Hash) (byte : UInt8) : Hash := (h <<< 1) + byte.toUInt32

/-- `self.0 = self.0.wrapping_sub(u32::from(byte).wrapping_mul(finder.hash_2pow))` -/
@[inline] def del (h : Hash) (finder : Finder) (byte : UInt8) : Hash :=
  h - byte.toUInt32 * finder.hash2pow

/-- `self.del(finder, old); self.add(new)` -/
@[inline] def roll (h : Hash) (finder : Finder) (old new : UInt8) : Hash :=
  add (del h finder old) new

/-- the `while start < end` loop of `Hash::forward` -/
def forwardLoop (m : Mem) (end_ start : Nat) (hash : Hash) : M Hash :=
  if h : start < end_ then do
    tick
    let b ← m.read start
    let _ ← m.padd "Hash::forward: start.add(1)" start 1
    forwardLoop m end_ (start + 1) (add hash b)
  else pure hash
termination_by end_ - start

/-- `Hash::forward(start, end)` -/
def forward (m : Mem) (start end_ : Nat) : M Hash := forwardLoop m end_ start new

/-- the `while start < end` loop of `Hash::reverse` -/
def reverseLoop (m : Mem) (start end_ : Nat) (hash : Hash) : M Hash :=
  if h : start < end_ then do
    tick
    let _ ← m.psub "Hash::reverse: end.sub(1)" end_ 1
    let b ← m.read (end_ - 1)
    reverseLoop m start (end_ - 1) (add hash b)
  else pure hash
termination_by end_ - start

/-- `Hash::reverse(start, end)` -/
def reverse (m : Mem) (start end_ : Nat) : M Hash := reverseLoop m start end_ new

end Hash

/-- the `for b in ...skip(1)` loop shared by `Finder::new` (bytes in order) and
`FinderRev::new` (bytes in reverse order) -/
def newLoop : List UInt8 → Finder → M Finder
  | [], s => pure s
  | b :: rest, s => do
    tick
    newLoop rest { hash := Hash.add s.hash b, hash2pow := s.hash2pow <<< 1 }

/-- the body of `Finder::new` / `FinderRev::new` on the byte sequence the iterator yields -/
def newOfBytes (bytes : List UInt8) : M Finder :=
  let s : Finder := { hash := Hash.new, hash2pow := 1 }
  match bytes with
  | [] => pure s
  | first :: rest => newLoop rest { s with hash := Hash.add s.hash first }

/-- the loop guard `self.hash == hash && is_equal_raw(cur, nstart, nlen)` of `find_raw` and
`rfind_raw` (`&&` short-circuits: `is_equal_raw` only runs when the hashes are equal) -/
def confirm (f : Finder) (mh mn : Mem) (cur nstart nlen : Nat) (hash : Hash) : M Bool :=
  if f.hash == hash then IsEqual.isEqualRaw mh mn cur nstart nlen else pure false

namespace Finder

/-- `Finder::new(needle)` -/
def new (needle : Slice) : M Finder := newOfBytes needle.toList

/-- the `loop { ... }` of `Finder::find_raw` -/
def findLoop (f : Finder) (mh mn : Mem) (nstart nlen end_ cur : Nat) (hash : Hash) :
    M (Option Nat) := do
  tick
  let eq ← confirm f mh mn cur nstart nlen hash
  if eq then pure (some cur) else
  if h : cur ≥ end_ then pure none else do
  let old ← mh.read cur
  let _ ← mh.padd "find_raw: cur.add(nlen)" cur nlen
  let new ← mh.read (cur + nlen)
  let _ ← mh.padd "find_raw: cur.add(1)" cur 1
  findLoop f mh mn nstart nlen end_ (cur + 1) (Hash.roll hash f old new)
termination_by end_ - cur

/-- `Finder::find_raw(hstart, hend, nstart, nend)`; the haystack pointers point into `mh`,
the needle pointers into `mn` -/
def findRaw (f : Finder) (mh mn : Mem) (hstart hend nstart nend : Nat) : M (Option Nat) := do
  let hlen ← mh.distance "find_raw: hend.distance(hstart)" hend hstart
  let nlen ← mn.distance "find_raw: nend.distance(nstart)" nend nstart
  if nlen > hlen then pure none else
  let end_ ← mh.psub "find_raw: hend.sub(nlen)" hend nlen
  let e ← mh.padd "find_raw: cur.add(nlen) (forward)" hstart nlen
  let hash ← Hash.forward mh hstart e
  findLoop f mh mn nstart nlen end_ hstart hash

/-- `Finder::find(haystack, needle)` -/
def find (f : Finder) (haystack needle : Slice) : M (Option Nat) := do
  let hstart := haystack.ptr
  let hend ← haystack.mem.padd "find: hstart.add(haystack.len())" hstart haystack.len
  let nstart := needle.ptr
  let nend ← needle.mem.padd "find: nstart.add(needle.len())" nstart needle.len
  match ← f.findRaw haystack.mem needle.mem hstart hend nstart nend with
  | none => pure none
  | some found =>
    let d ← haystack.mem.distance "find: found.distance(hstart)" found hstart
    pure (some d)

end Finder

namespace FinderRev

/-- `FinderRev::new(needle)` -/
def new (needle : Slice) : M FinderRev := do
  let f ← newOfBytes needle.toList.reverse
  pure ⟨f⟩

/-- the `loop { ... }` of `FinderRev::rfind_raw` -/
def rfindLoop (f : Finder) (mh mn : Mem) (nstart nlen start cur : Nat) (hash : Hash) :
    M (Option Nat) := do
  tick
  let eq ← confirm f mh mn cur nstart nlen hash
  if eq then pure (some cur) else
  if h : cur ≤ start then pure none else do
  let _ ← mh.psub "rfind_raw: cur.sub(1)" cur 1
  let cur' := cur - 1
  let _ ← mh.padd "rfind_raw: cur.add(nlen)" cur' nlen
  let old ← mh.read (cur' + nlen)
  let new ← mh.read cur'
  rfindLoop f mh mn nstart nlen start cur' (Hash.roll hash f old new)
termination_by cur - start

/-- `FinderRev::rfind_raw(hstart, hend, nstart, nend)` -/
def rfindRaw (f : FinderRev) (mh mn : Mem) (hstart hend nstart nend : Nat) :
    M (Option Nat) := do
  let hlen ← mh.distance "rfind_raw: hend.distance(hstart)" hend hstart
  let nlen ← mn.distance "rfind_raw: nend.distance(nstart)" nend nstart
  if nlen > hlen then pure none else
  let cur ← mh.psub "rfind_raw: hend.sub(nlen)" hend nlen
  let start := hstart
  let e ← mh.padd "rfind_raw: cur.add(nlen) (reverse)" cur nlen
  let hash ← Hash.reverse mh cur e
  rfindLoop f.inner mh mn nstart nlen start cur hash

/-- `FinderRev::rfind(haystack, needle)` -/
def rfind (f : FinderRev) (haystack needle : Slice) : M (Option Nat) := do
  let hstart := haystack.ptr
  let hend ← haystack.mem.padd "rfind: hstart.add(haystack.len())" hstart haystack.len
  let nstart := needle.ptr
  let nend ← needle.mem.padd "rfind: nstart.add(needle.len())" nstart needle.len
  match ← f.rfindRaw haystack.mem needle.mem hstart hend nstart nend with
  | none => pure none
  | some found =>
    let d ← haystack.mem.distance "rfind: found.distance(hstart)" found hstart
    pure (some d)

end FinderRev

/-- `is_fast(haystack, _needle)` -/
@[inline] def isFast (haystack needle : Slice) : Bool := haystack.len < 16

end Memchr.RabinKarp
