/-
Model of `src/arch/all/mod.rs`: `is_equal_raw`, `is_equal`, `is_prefix`, `is_suffix`.

A multi-byte unaligned load is the list of the bytes it reads; two words are equal iff the
byte lists are equal (on any endianness).
-/
import MemchrModel.Base.Slice

set_option linter.unusedVariables false

namespace Memchr.IsEqual

/-- the `while n >= 4` loop of `is_equal_raw`; continues with the 2- and 1-byte tail -/
def tail (mx my : Mem) (x y n : Nat) : M Bool := do
  if n ≥ 2 then
    tick
    let vx ← mx.loadU x 2
    let vy ← my.loadU y 2
    if vx != vy then pure false else
    let _ ← mx.padd "is_equal_raw: x.add(2)" x 2
    let _ ← my.padd "is_equal_raw: y.add(2)" y 2
    let n' ← csub "is_equal_raw: n -= 2" n 2
    if n' > 0 then
      tick
      let bx ← mx.read (x + 2)
      let by_ ← my.read (y + 2)
      if bx != by_ then pure false else pure true
    else pure true
  else if n > 0 then
    tick
    let bx ← mx.read x
    let by_ ← my.read y
    if bx != by_ then pure false else pure true
  else pure true

def loop4 (mx my : Mem) (x y n : Nat) : M Bool :=
  if h : n ≥ 4 then do
    tick
    let vx ← mx.loadU x 4
    let vy ← my.loadU y 4
    if vx != vy then pure false else
    let _ ← mx.padd "is_equal_raw: x.add(4)" x 4
    let _ ← my.padd "is_equal_raw: y.add(4)" y 4
    loop4 mx my (x + 4) (y + 4) (n - 4)
  else tail mx my x y n
termination_by n
decreasing_by omega

/-- `is_equal_raw(x, y, n)`: `x` points into `mx`, `y` into `my` -/
def isEqualRaw (mx my : Mem) (x y n : Nat) : M Bool := loop4 mx my x y n

/-- `is_equal(x, y)` -/
def isEqual (x y : Slice) : M Bool :=
  if x.len != y.len then pure false else isEqualRaw x.mem y.mem x.ptr y.ptr x.len

/-- `is_prefix(haystack, needle)` -/
def isPrefix (haystack needle : Slice) : M Bool :=
  if needle.len ≤ haystack.len then do
    let h ← haystack.take "is_prefix: &haystack[..needle.len()]" needle.len
    isEqual h needle
  else pure false

/-- `is_suffix(haystack, needle)` -/
def isSuffix (haystack needle : Slice) : M Bool :=
  if needle.len ≤ haystack.len then do
    let a ← csub "is_suffix: haystack.len() - needle.len()" haystack.len needle.len
    let h ← haystack.drop "is_suffix: &haystack[haystack.len() - needle.len()..]" a
    isEqual h needle
  else pure false

end Memchr.IsEqual
