/-
Model of `src/arch/generic/memchr.rs`: `One/Two/Three<V>::{find_raw, rfind_raw, count_raw,
search_chunk}` and the byte-by-byte helpers.

`One`, `Two` and `Three` have the same phase structure and differ only in the number of
needle bytes (1, 2, 3) and the unroll factor of the aligned loop (4, 2, 2; taken from
`Generated.Consts`).  The model is therefore one set of functions parametric in the needle
bytes `ns` and the unroll factor `u`.  A Rust `while` is a well-founded recursive function
whose exit branch calls the continuation.

Every pointer `add` / `sub` / `offset` of the source whose result is kept (result pointers
`cur.add(mask_to_offset(mask))`, `cur.add(k * V::BYTES).add(topos(mask))`, the loop updates
`cur = cur.add(..)` / `cur.sub(..)`, `ptr.offset(±1)`) goes through `Mem.padd` / `Mem.psub`, on
exactly the path where the source evaluates it, so `= .ok ..` includes "no pointer arithmetic
leaves the allocation".  Where the termination checker needs the pure value the check is done
for its effect and the loop continues with the pure expression.  (`cur.add(k * V::BYTES)` as the
argument of a load is checked by the load itself, which is stronger.)
-/
import MemchrModel.Model.Vector

set_option linter.unusedVariables false

namespace Memchr

/-- The needle bytes of a `One`/`Two`/`Three` searcher (`s1`, then `s2`, `s3`). -/
structure Needles where
  first : UInt8
  rest : List UInt8
  deriving Repr

namespace Needles
@[inline] def toList (ns : Needles) : List UInt8 := ns.first :: ns.rest
/-- `b == s1 || b == s2 || b == s3` -/
@[inline] def confirm (ns : Needles) (b : UInt8) : Bool := ns.toList.contains b
end Needles

namespace Generic

/-! ### byte-by-byte helpers -/

/-- `fwd_byte_by_byte(start, end, confirm)` -/
def fwdByteLoop (m : Mem) (confirm : UInt8 → Bool) (end_ ptr : Nat) : M (Option Nat) :=
  if h : ptr < end_ then do
    tick
    let b ← m.read ptr
    if confirm b then pure (some ptr) else do
      let _ ← m.padd "fwd_byte_by_byte: ptr.offset(1)" ptr 1
      fwdByteLoop m confirm end_ (ptr + 1)
  else pure none
termination_by end_ - ptr

def fwdByteByByte (m : Mem) (confirm : UInt8 → Bool) (start end_ : Nat) : M (Option Nat) := do
  dbgAssert "fwd_byte_by_byte: start <= end" (start ≤ end_)
  fwdByteLoop m confirm end_ start

/-- `rev_byte_by_byte(start, end, confirm)` -/
def revByteLoop (m : Mem) (confirm : UInt8 → Bool) (start ptr : Nat) : M (Option Nat) :=
  if h : ptr > start then do
    tick
    let _ ← m.psub "rev_byte_by_byte: ptr.offset(-1)" ptr 1
    let b ← m.read (ptr - 1)
    if confirm b then pure (some (ptr - 1)) else revByteLoop m confirm start (ptr - 1)
  else pure none
termination_by ptr - start

def revByteByByte (m : Mem) (confirm : UInt8 → Bool) (start end_ : Nat) : M (Option Nat) := do
  dbgAssert "rev_byte_by_byte: start <= end" (start ≤ end_)
  revByteLoop m confirm start end_

/-- `count_byte_by_byte(start, end, confirm)` -/
def countByteLoop (m : Mem) (confirm : UInt8 → Bool) (end_ ptr count : Nat) : M Nat :=
  if h : ptr < end_ then do
    tick
    let b ← m.read ptr
    let _ ← m.padd "count_byte_by_byte: ptr.offset(1)" ptr 1
    countByteLoop m confirm end_ (ptr + 1) (if confirm b then count + 1 else count)
  else pure count
termination_by end_ - ptr

def countByteByByte (m : Mem) (confirm : UInt8 → Bool) (start end_ : Nat) : M Nat := do
  dbgAssert "count_byte_by_byte: start <= end" (start ≤ end_)
  countByteLoop m confirm end_ start 0

/-! ### chunk-level pieces -/

variable (V : VecImpl)

/-- `self.v1.cmpeq(chunk)`, `self.v2.cmpeq(chunk)`, ... -/
@[inline] def chunkEqs (ns : Needles) (chunk : Vec) : Vec × List Vec :=
  (Vec.cmpeq (Vec.splat V.bytes ns.first) chunk,
   ns.rest.map (fun n => Vec.cmpeq (Vec.splat V.bytes n) chunk))

/-- `eq1.or(eq2).or(eq3)` -/
@[inline] def chunkOr (e : Vec × List Vec) : Vec := e.2.foldl Vec.or e.1

/-- `eq1.movemask().or(eq2.movemask()).or(eq3.movemask())` -/
@[inline] def chunkMask (e : Vec × List Vec) : V.Mask :=
  (e.2.map V.movemask).foldl V.mor (V.movemask e.1)

/-- `search_chunk(cur, mask_to_offset)`; the result pointer `cur.add(mask_to_offset(mask))` must
stay inside the allocation. -/
def searchChunk (ns : Needles) (m : Mem) (cur : Nat) (topos : V.Mask → M Nat) :
    M (Option Nat) := do
  tick
  let chunk ← V.loadU m cur
  let e := chunkEqs V ns chunk
  let mask := V.movemask (chunkOr e)
  if V.hasNonZero mask then
    let off ← topos (chunkMask V e)
    let p ← m.padd "search_chunk: cur.add(mask_to_offset(mask))" cur off
    pure (some p)
  else pure none

/-- `V::load_aligned(cur)`, `V::load_aligned(cur.add(1 * V::BYTES))`, ... (`k` loads) -/
def loadChunks (m : Mem) (cur : Nat) : Nat → M (List Vec)
  | 0 => pure []
  | k + 1 => do
    let a ← V.loadA m cur
    let rest ← loadChunks m (cur + V.bytes) k
    pure (a :: rest)

/-- the OR of every equality vector of the block (`or3` / `or5` in the source) -/
def blockOr : List (Vec × List Vec) → Vec
  | [] => Vec.splat V.bytes 0
  | e :: rest => rest.foldl (fun acc e' => Vec.or acc (chunkOr e')) (chunkOr e)

/-- `Some(cur.add(k * V::BYTES).add(topos(mask)))` of the unrolled loop of `fn` (`find_raw` or
`rfind_raw`), where `a = cur + k * V::BYTES` is the address of the `k`-th chunk of the block at
`cur` (an element of `chunkAddrs`): both `add`s must stay inside the allocation.  (For `k = 0` the
source is just `cur.add(topos(mask))`; the first check is then the vacuous `cur.add(0)`.) -/
def hitPtr (m : Mem) (fn : String) (cur a : Nat) (topos : V.Mask → M Nat) (mask : V.Mask) :
    M (Option Nat) := do
  let _ ← m.padd (fn ++ ": cur.add(k * V::BYTES)") cur (a - cur)
  let off ← topos mask
  let p ← m.padd (fn ++ ": cur.add(k * V::BYTES).add(topos(mask))") a off
  pure (some p)

/-- After `movemask_will_have_non_zero`: masks are inspected in the given order
(`a, b, c, d` for forward); the last one is only `debug_assert`ed to be non-zero.
`addrs` are the chunk addresses (of the block at `cur`) in the same order. -/
def blockHit (m : Mem) (fn : String) (cur : Nat) (topos : V.Mask → M Nat) :
    List (Nat × (Vec × List Vec)) → M (Option Nat)
  | [] => pure none
  | [(a, e)] => do
    let mask := chunkMask V e
    dbgAssert "unrolled loop: last mask must be non-zero" (V.hasNonZero mask)
    hitPtr V m fn cur a topos mask
  | (a, e) :: rest => do
    let mask := chunkMask V e
    if V.hasNonZero mask then hitPtr V m fn cur a topos mask
    else blockHit m fn cur topos rest

/-- the addresses `cur, cur + BYTES, ...` (`k` of them) -/
def chunkAddrs (cur : Nat) : Nat → List Nat
  | 0 => []
  | k + 1 => cur :: chunkAddrs (cur + V.bytes) k

/-- One iteration body of the unrolled loop at `cur`. `rev` inspects the masks from the
last chunk to the first. Returns `some ptr` when the loop returns. -/
def block (ns : Needles) (u : Nat) (rev : Bool) (m : Mem) (cur : Nat)
    (topos : V.Mask → M Nat) : M (Option Nat) := do
  tick
  let chunks ← loadChunks V m cur u
  let es := chunks.map (chunkEqs V ns)
  if V.willHaveNonZero (blockOr V es) then
    let tagged := (chunkAddrs V cur u).zip es
    blockHit V m (if rev then "rfind_raw" else "find_raw") cur topos
      (if rev then tagged.reverse else tagged)
  else pure none

/-! ### `find_raw` -/

/-- `while cur <= end.sub(V::BYTES) { search_chunk; cur += BYTES }` then the overlapping tail. -/
def fwdLoop1 (ns : Needles) (m : Mem) (end_ lim cur : Nat) : M (Option Nat) :=
  if h : cur ≤ lim then do
    let d ← m.distance "find_raw: end.distance(cur)" end_ cur
    dbgAssert "find_raw: end.distance(cur) >= V::BYTES" (d ≥ V.bytes)
    match ← searchChunk V ns m cur V.firstOffset with
    | some p => pure (some p)
    | none =>
      let _ ← m.padd "find_raw: cur.add(V::BYTES)" cur V.bytes
      fwdLoop1 ns m end_ lim (cur + V.bytes)
  else if cur < end_ then do
    let d ← m.distance "find_raw: end.distance(cur) (tail)" end_ cur
    dbgAssert "find_raw: end.distance(cur) < V::BYTES" (d < V.bytes)
    let back ← csub "find_raw: V::BYTES - end.distance(cur)" V.bytes d
    let cur' ← m.psub "find_raw: cur.sub(V::BYTES - end.distance(cur))" cur back
    let d' ← m.distance "find_raw: end.distance(cur) (tail 2)" end_ cur'
    dbgAssert "find_raw: end.distance(cur) == V::BYTES" (d' == V.bytes)
    searchChunk V ns m cur' V.firstOffset
  else pure none
termination_by lim + 1 - cur
decreasing_by have := V.bytes_pos; omega

/-- `while cur <= end.sub(Self::LOOP_SIZE) { ... }` then falls through to the single-vector loop. -/
def fwdLoopN (ns : Needles) (u : Nat) (hu : 0 < u) (m : Mem) (end_ limN lim1 cur : Nat) :
    M (Option Nat) :=
  if h : cur ≤ limN then do
    dbgAssert "find_raw: cur % V::BYTES == 0" (cur % V.bytes == 0)
    match ← block V ns u false m cur V.firstOffset with
    | some p => pure (some p)
    | none =>
      let _ ← m.padd "find_raw: cur.add(Self::LOOP_SIZE)" cur (u * V.bytes)
      fwdLoopN ns u hu m end_ limN lim1 (cur + u * V.bytes)
  else fwdLoop1 V ns m end_ lim1 cur
termination_by limN + 1 - cur
decreasing_by
  have := V.bytes_pos
  have : 0 < u * V.bytes := Nat.mul_pos hu this
  omega

/-- `One/Two/Three::<V>::find_raw(start, end)` -/
def findRaw (ns : Needles) (u : Nat) (hu : 0 < u) (m : Mem) (start end_ : Nat) :
    M (Option Nat) := do
  dbgAssert "find_raw: V::BYTES <= 32" (V.bytes ≤ 32)
  let len ← m.distance "find_raw: end.distance(start)" end_ start
  dbgAssert "find_raw: len >= V::BYTES" (len ≥ V.bytes)
  match ← searchChunk V ns m start V.firstOffset with
  | some p => pure (some p)
  | none =>
    let adv ← csub "find_raw: V::BYTES - (start & V::ALIGN)" V.bytes (start &&& V.align)
    let cur ← m.padd "find_raw: start.add(V::BYTES - (start & V::ALIGN))" start adv
    let lim1 ← m.psub "find_raw: end.sub(V::BYTES)" end_ V.bytes
    dbgAssert "find_raw: cur > start && end.sub(V::BYTES) >= start" (cur > start && lim1 ≥ start)
    if len ≥ u * V.bytes then do
      let limN ← m.psub "find_raw: end.sub(Self::LOOP_SIZE)" end_ (u * V.bytes)
      fwdLoopN V ns u hu m end_ limN lim1 cur
    else fwdLoop1 V ns m end_ lim1 cur

/-! ### `rfind_raw` -/

/-- `while cur >= start.add(V::BYTES) { cur -= BYTES; search_chunk }` then the head re-check.
(`start.add(V::BYTES)` is loop invariant; its in-allocation check is done once by the caller.) -/
def revLoop1 (ns : Needles) (m : Mem) (start cur : Nat) : M (Option Nat) :=
  if h : cur ≥ start + V.bytes then do
    let d ← m.distance "rfind_raw: cur.distance(start)" cur start
    dbgAssert "rfind_raw: cur.distance(start) >= V::BYTES" (d ≥ V.bytes)
    let _ ← m.psub "rfind_raw: cur.sub(V::BYTES)" cur V.bytes
    let cur' := cur - V.bytes
    match ← searchChunk V ns m cur' V.lastOffset with
    | some p => pure (some p)
    | none => revLoop1 ns m start cur'
  else if cur > start then do
    let d ← m.distance "rfind_raw: cur.distance(start) (head)" cur start
    dbgAssert "rfind_raw: cur.distance(start) < V::BYTES" (d < V.bytes)
    searchChunk V ns m start V.lastOffset
  else pure none
termination_by cur
decreasing_by have := V.bytes_pos; omega

/-- `while cur >= start.add(Self::LOOP_SIZE) { cur -= LOOP_SIZE; ... }` -/
def revLoopN (ns : Needles) (u : Nat) (hu : 0 < u) (m : Mem) (start cur : Nat) :
    M (Option Nat) :=
  if h : cur ≥ start + u * V.bytes then do
    dbgAssert "rfind_raw: cur % V::BYTES == 0" (cur % V.bytes == 0)
    let _ ← m.psub "rfind_raw: cur.sub(Self::LOOP_SIZE)" cur (u * V.bytes)
    let cur' := cur - u * V.bytes
    match ← block V ns u true m cur' V.lastOffset with
    | some p => pure (some p)
    | none => revLoopN ns u hu m start cur'
  else revLoop1 V ns m start cur
termination_by cur
decreasing_by
  have := V.bytes_pos
  have : 0 < u * V.bytes := Nat.mul_pos hu this
  omega

/-- `One/Two/Three::<V>::rfind_raw(start, end)` -/
def rfindRaw (ns : Needles) (u : Nat) (hu : 0 < u) (m : Mem) (start end_ : Nat) :
    M (Option Nat) := do
  dbgAssert "rfind_raw: V::BYTES <= 32" (V.bytes ≤ 32)
  let len ← m.distance "rfind_raw: end.distance(start)" end_ start
  dbgAssert "rfind_raw: len >= V::BYTES" (len ≥ V.bytes)
  let tail ← m.psub "rfind_raw: end.sub(V::BYTES)" end_ V.bytes
  match ← searchChunk V ns m tail V.lastOffset with
  | some p => pure (some p)
  | none =>
    let cur ← m.psub "rfind_raw: end.sub(end & V::ALIGN)" end_ (end_ &&& V.align)
    dbgAssert "rfind_raw: start <= cur && cur <= end" (start ≤ cur && cur ≤ end_)
    let _ ← m.padd "rfind_raw: start.add(V::BYTES)" start V.bytes
    if len ≥ u * V.bytes then do
      let _ ← m.padd "rfind_raw: start.add(Self::LOOP_SIZE)" start (u * V.bytes)
      revLoopN V ns u hu m start cur
    else revLoop1 V ns m start cur

/-! ### `count_raw` (only `One`) -/

/-- `count += eqa.movemask().count_ones(); ...` over the loaded chunks -/
def countChunks (n1 : UInt8) (chunks : List Vec) (count : Nat) : Nat :=
  chunks.foldl (fun acc ch => acc + V.countOnes (V.movemask (Vec.cmpeq (Vec.splat V.bytes n1) ch))) count

def countLoop1 (n1 : UInt8) (m : Mem) (end_ lim cur count : Nat) : M Nat :=
  if h : cur ≤ lim then do
    tick
    let d ← m.distance "count_raw: end.distance(cur)" end_ cur
    dbgAssert "count_raw: end.distance(cur) >= V::BYTES" (d ≥ V.bytes)
    let chunk ← V.loadU m cur
    let _ ← m.padd "count_raw: cur.add(V::BYTES)" cur V.bytes
    countLoop1 n1 m end_ lim (cur + V.bytes) (countChunks V n1 [chunk] count)
  else do
    let c ← countByteByByte m (fun b => b == n1) cur end_
    pure (count + c)
termination_by lim + 1 - cur
decreasing_by have := V.bytes_pos; omega

def countLoopN (n1 : UInt8) (u : Nat) (hu : 0 < u) (m : Mem) (end_ limN lim1 cur count : Nat) :
    M Nat :=
  if h : cur ≤ limN then do
    tick
    dbgAssert "count_raw: cur % V::BYTES == 0" (cur % V.bytes == 0)
    let chunks ← loadChunks V m cur u
    let _ ← m.padd "count_raw: cur.add(Self::LOOP_SIZE)" cur (u * V.bytes)
    countLoopN n1 u hu m end_ limN lim1 (cur + u * V.bytes) (countChunks V n1 chunks count)
  else countLoop1 V n1 m end_ lim1 cur count
termination_by limN + 1 - cur
decreasing_by
  have := V.bytes_pos
  have : 0 < u * V.bytes := Nat.mul_pos hu this
  omega

/-- `One::<V>::count_raw(start, end)` -/
def countRaw (n1 : UInt8) (u : Nat) (hu : 0 < u) (m : Mem) (start end_ : Nat) : M Nat := do
  dbgAssert "count_raw: V::BYTES <= 32" (V.bytes ≤ 32)
  let len ← m.distance "count_raw: end.distance(start)" end_ start
  dbgAssert "count_raw: len >= V::BYTES" (len ≥ V.bytes)
  let adv ← csub "count_raw: V::BYTES - (start & V::ALIGN)" V.bytes (start &&& V.align)
  let cur ← m.padd "count_raw: start.add(V::BYTES - (start & V::ALIGN))" start adv
  let count ← countByteByByte m (fun b => b == n1) start cur
  let lim1 ← m.psub "count_raw: end.sub(V::BYTES)" end_ V.bytes
  dbgAssert "count_raw: cur > start && end.sub(V::BYTES) >= start" (cur > start && lim1 ≥ start)
  if len ≥ u * V.bytes then do
    let limN ← m.psub "count_raw: end.sub(Self::LOOP_SIZE)" end_ (u * V.bytes)
    countLoopN V n1 u hu m end_ limN lim1 cur count
  else countLoop1 V n1 m end_ lim1 cur count

end Generic

end Memchr
