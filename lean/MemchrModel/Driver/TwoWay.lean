/-
Driver ops for the Two-Way searcher (`src/arch/all/twoway.rs`).

  twnew  fwd|rev <hex needle>
      `Finder::new(needle)` / `FinderRev::new(needle)` (construction only):
      `ok crit=<critical_pos> shift=<small|large>:<value> byteset=<u64 decimal> steps=<n>`
  twfind fwd|rev <hex needle> <hex hay>
      `Finder::new(needle).find(hay, needle)` / `FinderRev::new(needle).rfind(hay, needle)`
      (no prefilter): `ok <none|offset> steps=<n> loads=<trace>`; steps and loads include
      the construction.

The haystack is region 0 (base 8192), the needle region 1 (base 4096).  Two-Way is safe code
apart from `is_equal_raw` inside `Shift::forward/reverse`, whose loads (all in region 1) are
traced.  `-` is the empty byte string.
-/
import MemchrModel.Driver.Util
import MemchrModel.Model.TwoWay

namespace Memchr.Driver

open Memchr.TwoWay

def twNeedleBase : Nat := 4096
def twHayBase : Nat := 8192

def fmtShift : Shift → String
  | .small p => s!"small:{p}"
  | .large s => s!"large:{s}"

def fmtTwoWay (tw : TwoWay) : String :=
  s!"crit={tw.criticalPos} shift={fmtShift tw.shift} byteset={tw.byteset.bits.toNat}"

def handleTwoWay (op : String) (args : List String) : Option String :=
  match op, args with
  | "twnew", [dir, needle] => do
    let nbytes ← parseHex needle
    let n : Slice := Slice.ofMem { region := 1, base := twNeedleBase, bytes := nbytes }
    if dir == "fwd" then some (fmtResV fmtTwoWay (Finder.new n {}))
    else if dir == "rev" then some (fmtResV fmtTwoWay (FinderRev.new n {}))
    else none
  | "twfind", [dir, needle, hay] => do
    let nbytes ← parseHex needle
    let hbytes ← parseHex hay
    let n : Slice := Slice.ofMem { region := 1, base := twNeedleBase, bytes := nbytes }
    let h : Slice := Slice.ofMem { region := 0, base := twHayBase, bytes := hbytes }
    if dir == "fwd" then
      some (fmtRes fmtOptNat 1 ((do let tw ← Finder.new n; Finder.find tw h n : M (Option Nat)) {}))
    else if dir == "rev" then
      some (fmtRes fmtOptNat 1
        ((do let tw ← FinderRev.new n; FinderRev.rfind tw h n : M (Option Nat)) {}))
    else none
  | _, _ => none

end Memchr.Driver
