/-
Driver ops for the substring meta searcher and the public `memmem` API
(`Model/Searcher.lean`, `Model/Memmem.lean`).

  find      <cfg> <pf> <ranker> <skips> <skipped> <hex needle> <hbase> <hex hay>
      build the finder (`FinderBuilder::new().prefilter(pf).build_forward_with_ranker(..)`),
      then `Searcher::find` from the `PrefilterState { skips, skipped }`:
      `ok <none|offset>/<skips>:<skipped> steps=<n> loads=<trace>` (value, `/`, final state);
      steps and loads are those of the search only.
  fnew      <cfg> <pf> <ranker> <hex needle>
      construction only: `ok <strategy-name> steps=<n> loads=<trace>`, strategy-name one of
      `empty one_byte two_way two_way_with_prefilter:<fallback|sse2|avx2|neon|simd128>
       sse2 avx2 neon simd128`.
  rfind     <cfg> <hex needle> <hbase> <hex hay>
      `FinderRev::new(needle).rfind(hay)`; steps and loads of the search only.
  oneshot   <cfg> fwd|rev <hex needle> <hbase> <hex hay>
      `memmem::find` / `memmem::rfind`; steps and loads of everything.
  finditer  <cfg> <pf> <ranker> <hex needle> <hbase> <hex hay> <ops>
      the finder as for `find`, then `finder.find_iter(hay)`; `<ops>` is a string over `n`
      (next), `s` (size_hint), `k` (replace the iterator by its clone), `o` (replace it by
      `into_owned()`), or `-` for none: `ok <results> steps=<n>`, results comma separated (`-`
      when there is none): `none`/offset for `n`, `<lo>:<hi|inf>` for `s`; steps of the
      operations only (not the construction).
  rfinditer <cfg> <hex needle> <hbase> <hex hay> <ops>
      `FinderRev::new(needle).rfind_iter(hay)`, ops `n`, `k`, `o`.
  finderops <cfg> <pf> <hex needle> <ops>
      default ranker; ops separated by `,`: `f:<hex hay>` (find; the haystack is placed at
      base 65536), `i:<hex hay>` (`finder.find_iter(hay)` run to exhaustion: all `next()`
      calls up to and including the first `None`; prints the number of matches), `r` (as_ref,
      continue with the copy), `o` (into_owned), `k` (clone, continue with the clone), `n`
      (needle(), printed as hex):
      `ok <results> allocs=<model allocation count> steps=<n>`; steps of the operations only.
  finderrevops <cfg> <hex needle> <ops>
      the same op machine for `FinderRev::new(needle)`: `f:<hex hay>` is `rfind`, `i:<hex hay>`
      is `rfind_iter(hay)` run to exhaustion; `r`, `o`, `k`, `n` as above; same answer format.
  finderopsal <cfg> <pf> <off> <hex needle> <ops> / finderrevopsal <cfg> <off> <hex needle> <ops>
      the same two machines; the implementation borrows the needle from offset <off> of the
      first haystack buffer of the program (aliasing is invisible to the model)

`<cfg>` is `avx2|sse2|fallback|neon|simd128`: the vector support of the build/CPU
(x86_64 with AVX2 detected; x86_64 with AVX2 forced unavailable; x86_64 with SSE2 and AVX2
forced unavailable; aarch64 with neon; wasm32 with simd128).  `<pf>` is `auto|none`.
`<ranker>` is `default` or 512 hex digits (the rank of each of the 256 byte values).
The haystack is region 0 at base `<hbase>`, the needle region 1 at base 1048576.  `-` is the
empty byte string.
-/
import MemchrModel.Driver.Util
import MemchrModel.Model.Memmem

namespace Memchr.Driver

open Memchr.Memmem

def mmNeedleBase : Nat := 1048576
def mmOpsHayBase : Nat := 65536

def parseMemmemCfg : String → Option Api.Cfg
  | "avx2" => some { arch := .x86_64, ctSse2 := true, ctAvx2 := false, ctNeon := false,
                     std := true, cpuAvx2 := true }
  | "sse2" => some { arch := .x86_64, ctSse2 := true, ctAvx2 := false, ctNeon := false,
                     std := true, cpuAvx2 := true, force := .noavx2 }
  | "fallback" => some { arch := .x86_64, ctSse2 := true, ctAvx2 := false, ctNeon := false,
                         std := true, cpuAvx2 := true, force := .nosse2 }
  | "neon" => some { arch := .aarch64, ctSse2 := false, ctAvx2 := false, ctNeon := true,
                     std := true, cpuAvx2 := false }
  | "simd128" => some { arch := .wasm32simd128, ctSse2 := false, ctAvx2 := false,
                        ctNeon := false, std := true, cpuAvx2 := false }
  | _ => none

def parsePf : String → Option PrefilterConfig
  | "auto" => some .auto
  | "none" => some .none
  | _ => none

def parseRankerMm (s : String) : Option (UInt8 → UInt8) :=
  if s == "default" then some Pair.defaultRank else do
    let t ← parseHexPlain s
    if t.size == 256 then some (fun b => (t[b.toNat]?).getD 0) else none

def mmNeedle (bytes : Array UInt8) : Slice :=
  Slice.ofMem { region := 1, base := mmNeedleBase, bytes := bytes }

def mmHay (base : Nat) (bytes : Array UInt8) : Slice :=
  Slice.ofMem { region := 0, base := base, bytes := bytes }

def mmBuild (cfg : Api.Cfg) (pf : PrefilterConfig) (rank : UInt8 → UInt8) (needle : Slice) :
    M Finder :=
  (FinderBuilder.new.setPrefilter pf).buildForwardWithRanker cfg rank needle

/-- run `build` from a zero counter; on success run `body` from a zero counter again -/
def afterBuild (build : M α) (body : α → String) : String :=
  match build {} with
  | .fault e => fmtFault e
  | .ok a _ => body a

def parseIterOps (s : String) (allowHint : Bool) : Option (List IterOp) :=
  if s == "-" then some [] else
  s.toList.mapM fun
    | 'n' => some IterOp.next
    | 's' => if allowHint then some IterOp.sizeHint else none
    | 'k' => some IterOp.clone
    | 'o' => some IterOp.intoOwned
    | _ => none

def fmtMmOut : Out → String
  | .idx o => fmtOptNat o
  | .hint lo hi => s!"{lo}:{match hi with | some h => toString h | none => "inf"}"
  | .bytes b => toHex b

def fmtMmOuts (os : List Out) : String :=
  if os.isEmpty then "-" else ",".intercalate (os.map fmtMmOut)

def parseFinderOp (s : String) : Option FinderOp :=
  if s == "r" then some .asRef
  else if s == "o" then some .intoOwned
  else if s == "k" then some .clone
  else if s == "n" then some .needle
  else if s.startsWith "f:" then do
    let bytes ← parseHex (s.drop 2).toString
    some (.find (mmHay mmOpsHayBase bytes))
  else none

def parseFinderOpX (s : String) : Option FinderOpX :=
  if s.startsWith "i:" then do
    let bytes ← parseHex (s.drop 2).toString
    some (.iter (mmHay mmOpsHayBase bytes))
  else (parseFinderOp s).map FinderOpX.base

def parseFinderOpsX (s : String) : Option (List FinderOpX) :=
  if s == "-" then some [] else (s.splitOn ",").mapM parseFinderOpX

/-- the alias programs: `s:<off>:<len>` / `j:<off>:<len>` search / iterate over a sub-slice of
the first haystack buffer of the program (the buffer the needle is borrowed from) -/
def parseFinderOpAl (buf : Array UInt8) (s : String) : Option FinderOpX :=
  if s.startsWith "s:" || s.startsWith "j:" then
    match (s.drop 2).toString.splitOn ":" with
    | [o, l] => do
      let o ← o.toNat?
      let l ← l.toNat?
      if o + l > buf.size then none else
      let sl : Slice := ⟨{ region := 0, base := mmOpsHayBase, bytes := buf }, o, l⟩
      some (if s.startsWith "s:" then .base (.find sl) else .iter sl)
    | _ => none
  else parseFinderOpX s

def parseFinderOpsAl (s : String) : Option (List FinderOpX) :=
  if s == "-" then some [] else
  let toks := s.splitOn ","
  let buf := (toks.findSome? fun t =>
    if t.startsWith "f:" || t.startsWith "i:" then parseHex (t.drop 2).toString else none).getD #[]
  toks.mapM (parseFinderOpAl buf)

def fmtMmOutX : OutX → String
  | .base o => fmtMmOut o
  | .count k => toString k

def fmtMmOutsX (os : List OutX) : String :=
  if os.isEmpty then "-" else ",".intercalate (os.map fmtMmOutX)

def handleMemmem (op : String) (args : List String) : Option String :=
  match op, args with
  | "find", [cfg, pf, ranker, skips, skipped, needle, hbase, hay] => do
    let cfg ← parseMemmemCfg cfg
    let pf ← parsePf pf
    let rank ← parseRankerMm ranker
    let skips ← skips.toNat?
    let skipped ← skipped.toNat?
    if skips ≥ 2 ^ 32 || skipped ≥ 2 ^ 32 then none else
    let n := mmNeedle (← parseHex needle)
    let hbase ← hbase.toNat?
    let h := mmHay hbase (← parseHex hay)
    let st : PrefilterState := ⟨skips.toUInt32, skipped.toUInt32⟩
    some (afterBuild (mmBuild cfg pf rank n) fun f =>
      fmtRes (fun (p : Option Nat × PrefilterState) =>
          s!"{fmtOptNat p.1}/{p.2.skips.toNat}:{p.2.skipped.toNat}") 1
        (f.searcher.find cfg st h f.needleSlice {}))
  | "fnew", [cfg, pf, ranker, needle] => do
    let cfg ← parseMemmemCfg cfg
    let pf ← parsePf pf
    let rank ← parseRankerMm ranker
    let n := mmNeedle (← parseHex needle)
    some (fmtRes (fun (f : Finder) => f.searcher.strategyName) 1 (mmBuild cfg pf rank n {}))
  | "rfind", [cfg, needle, hbase, hay] => do
    let cfg ← parseMemmemCfg cfg
    let n := mmNeedle (← parseHex needle)
    let hbase ← hbase.toNat?
    let h := mmHay hbase (← parseHex hay)
    some (afterBuild (FinderRev.new n) fun f => fmtRes fmtOptNat 1 (f.rfind cfg h {}))
  | "oneshot", [cfg, dir, needle, hbase, hay] => do
    let cfg ← parseMemmemCfg cfg
    let n := mmNeedle (← parseHex needle)
    let hbase ← hbase.toNat?
    let h := mmHay hbase (← parseHex hay)
    if dir == "fwd" then some (fmtRes fmtOptNat 1 (Memmem.find cfg h n {}))
    else if dir == "rev" then some (fmtRes fmtOptNat 1 (Memmem.rfind cfg h n {}))
    else none
  | "finditer", [cfg, pf, ranker, needle, hbase, hay, ops] => do
    let cfg ← parseMemmemCfg cfg
    let pf ← parsePf pf
    let rank ← parseRankerMm ranker
    let n := mmNeedle (← parseHex needle)
    let hbase ← hbase.toNat?
    let h := mmHay hbase (← parseHex hay)
    let ops ← parseIterOps ops true
    some (afterBuild (mmBuild cfg pf rank n) fun f =>
      fmtResV (fun (p : List Out × FindIter × Heap) => fmtMmOuts p.1)
        (FindIter.run cfg ops (f.findIter h) {} {}))
  | "rfinditer", [cfg, needle, hbase, hay, ops] => do
    let cfg ← parseMemmemCfg cfg
    let n := mmNeedle (← parseHex needle)
    let hbase ← hbase.toNat?
    let h := mmHay hbase (← parseHex hay)
    let ops ← parseIterOps ops false
    some (afterBuild (FinderRev.new n) fun f =>
      fmtResV (fun (p : List Out × FindRevIter × Heap) => fmtMmOuts p.1)
        (FindRevIter.run cfg ops (f.rfindIter h) {} {}))
  | "finderops", [cfg, pf, needle, ops] => do
    let cfg ← parseMemmemCfg cfg
    let pf ← parsePf pf
    let n := mmNeedle (← parseHex needle)
    let ops ← parseFinderOpsX ops
    some (afterBuild (mmBuild cfg pf Pair.defaultRank n) fun f =>
      match Finder.runX cfg ops f {} {} with
      | .ok (os, _, heap) c => s!"ok {fmtMmOutsX os} allocs={heap.allocs} steps={c.steps}"
      | .fault e => fmtFault e)
  | "finderrevops", [cfg, needle, ops] => do
    let cfg ← parseMemmemCfg cfg
    let n := mmNeedle (← parseHex needle)
    let ops ← parseFinderOpsX ops
    some (afterBuild (FinderRev.new n) fun f =>
      match FinderRev.runX cfg ops f {} {} with
      | .ok (os, _, heap) c => s!"ok {fmtMmOutsX os} allocs={heap.allocs} steps={c.steps}"
      | .fault e => fmtFault e)
  -- the same programs with the needle borrowed from inside the first haystack buffer
  -- (aliasing is invisible to the model: values only)
  | "finderopsal", [cfg, pf, _off, needle, ops] => do
    let cfg ← parseMemmemCfg cfg
    let pf ← parsePf pf
    let n := mmNeedle (← parseHex needle)
    let ops ← parseFinderOpsAl ops
    some (afterBuild (mmBuild cfg pf Pair.defaultRank n) fun f =>
      match Finder.runX cfg ops f {} {} with
      | .ok (os, _, heap) c => s!"ok {fmtMmOutsX os} allocs={heap.allocs} steps={c.steps}"
      | .fault e => fmtFault e)
  | "finderrevopsal", [cfg, _off, needle, ops] => do
    let cfg ← parseMemmemCfg cfg
    let n := mmNeedle (← parseHex needle)
    let ops ← parseFinderOpsAl ops
    some (afterBuild (FinderRev.new n) fun f =>
      match FinderRev.runX cfg ops f {} {} with
      | .ok (os, _, heap) c => s!"ok {fmtMmOutsX os} allocs={heap.allocs} steps={c.steps}"
      | .fault e => fmtFault e)
  | _, _ => none

end Memchr.Driver
