/-
Driver ops for Shift-Or, pair selection and the portable packed-pair prefilter.

  shiftor <hex needle> <hex hay>
      Finder::new(needle)?.find(hay); the value is `nofinder` when `Finder::new` is `None`
  pair <default|512-hex-digit rank table> <hex needle>
      Pair::new(needle) / Pair::with_ranker(needle, table); value `none` or `<i1>,<i2>`
  pairidx <hex needle> <i1> <i2>
      Pair::with_indices(needle, i1, i2); value `none` or `<i1>,<i2>`
  fbpre <hex needle> <i1> <i2> <base> <hex hay>
      packedpair::Finder::with_pair(needle, Pair::with_indices(needle, i1, i2)?)
        .find_prefilter(hay); the value is `badpair` when `with_indices` is `None`

Hex `-` is the empty string, numbers are decimal.  The haystack is region 0 (base `base`),
needles are region 1.  All of this is safe code: the load trace is empty.
-/
import MemchrModel.Driver.Util
import MemchrModel.Model.ShiftOr
import MemchrModel.Model.Pair
import MemchrModel.Model.PairImpure

namespace Memchr.Driver

def fmtOptPair : Option Pair → String
  | none => "none"
  | some p => s!"{p.index1.toNat},{p.index2.toNat}"

/-- `default` or a 256-entry table as 512 hex digits -/
def parseRanker (s : String) : Option (UInt8 → UInt8) :=
  if s == "default" then some Pair.defaultRank else
  match parseHex s with
  | some tbl => if tbl.size == 256 then some (fun b => (tbl[b.toNat]?).getD 0) else none
  | none => none

def parseU8 (s : String) : Option UInt8 :=
  match s.toNat? with
  | some n => if n ≤ 255 then some (UInt8.ofNat n) else none
  | none => none

def handleShiftOrPair (op : String) (args : List String) : Option String :=
  match op, args with
  | "shiftor", [needle, hay] => do
    let nbytes ← parseHex needle
    let hbytes ← parseHex hay
    let n : Slice := Slice.ofMem { region := 1, base := 0, bytes := nbytes }
    let hs : Slice := Slice.ofMem { region := 0, base := 0, bytes := hbytes }
    match ShiftOr.Finder.new n {} with
    | .fault e => some (fmtFault e)
    | .ok none c => some (fmtRes (fun _ => "nofinder") 1 (Res.ok () c))
    | .ok (some f) c => some (fmtRes fmtOptNat 1 (f.find hs c))
  | "pair", [ranker, needle] => do
    let rank ← parseRanker ranker
    let nbytes ← parseHex needle
    let n : Slice := Slice.ofMem { region := 1, base := 0, bytes := nbytes }
    some (fmtRes fmtOptPair 1 (Pair.withRanker n rank {}))
  | "pairidx", [needle, i1, i2] => do
    let nbytes ← parseHex needle
    let i1 ← parseU8 i1
    let i2 ← parseU8 i2
    let n : Slice := Slice.ofMem { region := 1, base := 0, bytes := nbytes }
    some (fmtRes fmtOptPair 1 (.ok (Pair.withIndices n i1 i2) {}))
  | "pairimp", [mode, needle] => do
    -- impure rankers: the state is the number of calls so far (`Model/PairImpure.lean`)
    let nbytes ← parseHex needle
    let n : Slice := Slice.ofMem { region := 1, base := 0, bytes := nbytes }
    let rank ← (match mode with
      | "up" => some (fun (k : Nat) (_ : UInt8) => (UInt8.ofNat (k % 256), k + 1))
      | "down" => some (fun (k : Nat) (_ : UInt8) => (UInt8.ofNat ((255 + 256 - k % 256) % 256), k + 1))
      | "alt" => some (fun (k : Nat) (_ : UInt8) => ((if k % 2 == 0 then 0 else 255 : UInt8), k + 1))
      | "lcg" => some (fun (k : Nat) (b : UInt8) =>
          (UInt8.ofNat ((((k % 2 ^ 32) * 1103515245 + 12345) % 2 ^ 32 / 2 ^ 16) % 256) ^^^ b, k + 1))
      | _ => none)
    match Pair.withRankerS n rank 0 {} with
    | .fault e => some (fmtFault e)
    | .ok (r, _) _ => some s!"ok {fmtOptPair r} steps=0 loads=-"
  | "pairreport", [needle, i1, i2] => do
    let nbytes ← parseHex needle
    let i1 ← parseU8 i1
    let i2 ← parseU8 i2
    let n : Slice := Slice.ofMem { region := 1, base := 0, bytes := nbytes }
    match Pair.withIndices n i1 i2 with
    | none => some "ok badpair steps=0 loads=-"
    | some p =>
      match Fallback.withPair n p {} with
      | .fault e => some (fmtFault e)
      | .ok none _ => some "ok nofinder steps=0 loads=-"
      | .ok (some f) _ => some s!"ok {f.pair.index1.toNat},{f.pair.index2.toNat} steps=0 loads=-"
  | "fbpre", [needle, i1, i2, base, hay] => do
    let nbytes ← parseHex needle
    let i1 ← parseU8 i1
    let i2 ← parseU8 i2
    let base ← base.toNat?
    let hbytes ← parseHex hay
    let n : Slice := Slice.ofMem { region := 1, base := 0, bytes := nbytes }
    let hs : Slice := Slice.ofMem { region := 0, base := base, bytes := hbytes }
    match Pair.withIndices n i1 i2 with
    | none => some (fmtRes (fun _ => "badpair") 1 (Res.ok () {}))
    | some p =>
      -- MEMCHR_PARAM: the crate's top-level `memchr` is modelled by its specification at no
      -- cost (`Fallback.specMemchr`); swap in the real dispatch model here.
      let memchr := Fallback.specMemchr
      let run : M (Option Nat) := do
        match ← Fallback.withPair n p with
        | none => pure none
        | some f => Fallback.findPrefilter memchr f hs
      some (fmtRes fmtOptNat 1 (run {}))
  | _, _ => none

end Memchr.Driver
