/-
Helpers for the line-protocol driver: hex parsing, canonical output formatting.
Core-only imports (the driver is a compiled `lean_exe`).
-/
import MemchrModel.Base.Monad

namespace Memchr.Driver

def hexVal (c : Char) : Option Nat :=
  if '0' ≤ c ∧ c ≤ '9' then some (c.toNat - '0'.toNat)
  else if 'a' ≤ c ∧ c ≤ 'f' then some (c.toNat - 'a'.toNat + 10)
  else if 'A' ≤ c ∧ c ≤ 'F' then some (c.toNat - 'A'.toNat + 10)
  else none

/-- plain hex digits -/
def parseHexPlain (s : String) : Option (Array UInt8) :=
  let rec go (cs : List Char) (acc : Array UInt8) : Option (Array UInt8) :=
    match cs with
    | [] => some acc
    | [_] => none
    | a :: b :: rest =>
      match hexVal a, hexVal b with
      | some x, some y => go rest (acc.push (UInt8.ofNat (x * 16 + y)))
      | _, _ => none
  go s.toList #[]

def appendRep (acc unit : Array UInt8) : Nat → Array UInt8
  | 0 => acc
  | n + 1 => appendRep (acc ++ unit) unit n

/-- `"-"` is the empty byte string; otherwise `+`-separated parts, each an even number of hex
digits or `r<count>x<hex>` (the hex bytes repeated `count` times). -/
def parseHex (s : String) : Option (Array UInt8) :=
  if s == "-" then some #[] else
  (s.splitOn "+").foldlM (init := (#[] : Array UInt8)) fun acc part =>
    if part.startsWith "r" then
      match (part.drop 1).toString.splitOn "x" with
      | [n, hex] => do
        let n ← n.toNat?
        let unit ← parseHexPlain hex
        pure (appendRep acc unit n)
      | _ => none
    else do
      let bs ← parseHexPlain part
      pure (acc ++ bs)

def hexDigit (n : Nat) : Char :=
  if n < 10 then Char.ofNat ('0'.toNat + n) else Char.ofNat ('a'.toNat + n - 10)

def toHex (bs : Array UInt8) : String :=
  if bs.isEmpty then "-" else
  String.ofList (bs.toList.flatMap (fun b => [hexDigit (b.toNat / 16), hexDigit (b.toNat % 16)]))

def fmtOptNat : Option Nat → String
  | none => "none"
  | some n => toString n

def fmtBool (b : Bool) : String := if b then "true" else "false"

def fmtFault : Fault → String
  | .oobRead r a l => s!"fault oob region={r} addr={a} len={l}"
  | .misaligned a w => s!"fault misaligned addr={a} width={w}"
  | .overflow s => s!"fault overflow [{s}]"
  | .ptrOob s => s!"fault ptroob [{s}]"
  | .debugAssert s => s!"fault debug_assert [{s}]"
  | .panic s => s!"fault panic [{s}]"

/-- insertion sort on load records (traces are short) -/
def loadLt (a b : Load) : Bool :=
  a.region < b.region || (a.region == b.region &&
    (a.off < b.off || (a.off == b.off &&
      (a.width < b.width || (a.width == b.width && (!a.aligned && b.aligned))))))

def fmtLoad (l : Load) : String :=
  s!"{l.region}:{l.off}:{l.width}:{if l.aligned then "a" else "u"}"

/-- order-independent digest of one load (wrapping 64-bit arithmetic) -/
def loadHash (l : Load) : UInt64 :=
  let a : UInt64 := l.region.toUInt64 * 1000003 + l.off.toUInt64
  let b : UInt64 := a * 1000003 + (l.width.toUInt64 * 2 + (if l.aligned then 1 else 0))
  b * 0x9E3779B97F4A7C15 + 0x7F4A7C15

/-- canonical load trace: loads of width `>= minWidth`; up to 512 loads are listed sorted,
longer traces are summarised as `n<count>h<order-independent digest>` -/
def fmtLoads (ls : List Load) (minWidth : Nat) : String :=
  let ls := ls.filter (fun l => l.width ≥ minWidth)
  if ls.isEmpty then "-"
  else if ls.length > 512 then
    let h := ls.foldl (fun acc l => acc + loadHash l) (0 : UInt64)
    s!"n{ls.length}h{h.toNat}"
  else ",".intercalate ((ls.mergeSort (fun a b => !loadLt b a)).map fmtLoad)

/-- `ok <value> steps=<n> loads=<...>` or `fault ...` -/
def fmtRes (fmt : α → String) (minWidth : Nat) : Res α → String
  | .ok a c => s!"ok {fmt a} steps={c.steps} loads={fmtLoads c.loads minWidth}"
  | .fault f => fmtFault f

/-- value only -/
def fmtResV (fmt : α → String) : Res α → String
  | .ok a c => s!"ok {fmt a} steps={c.steps}"
  | .fault f => fmtFault f

def parseNeedles (s : String) : Option (List UInt8) := (parseHex s).map Array.toList

end Memchr.Driver
