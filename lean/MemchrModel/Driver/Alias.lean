/-
Driver op for `is_equal` / `is_prefix` / `is_suffix` on two views of ONE memory region
(`src/arch/all/mod.rs`; model `Model/IsEqual.lean`).

  iseqalias <op: iseq|isprefix|issuffix> <base> <hex buf> <xoff> <xlen> <yoff> <ylen>
      region 0 at `base` holds `buf`; `x = buf[xoff..xoff+xlen]`, `y = buf[yoff..yoff+ylen]`
      (both slices of the same region: they may overlap, or start at the same address with
      different lengths); runs `is_equal(x, y)` / `is_prefix(x, y)` / `is_suffix(x, y)`:
      `ok <true|false> steps=<n> loads=<trace>`.  A range outside the buffer is a malformed
      request (`none`, answered `bad-op`).
-/
import MemchrModel.Driver.Util
import MemchrModel.Model.IsEqual

namespace Memchr.Driver

def handleAlias (op : String) (args : List String) : Option String :=
  match op, args with
  | "iseqalias", [which, base, buf, xoff, xlen, yoff, ylen] => do
    let base ← base.toNat?
    let bytes ← parseHex buf
    let xoff ← xoff.toNat?
    let xlen ← xlen.toNat?
    let yoff ← yoff.toNat?
    let ylen ← ylen.toNat?
    if xoff + xlen > bytes.size || yoff + ylen > bytes.size then none else
    let m : Mem := { region := 0, base := base, bytes := bytes }
    let x : Slice := ⟨m, xoff, xlen⟩
    let y : Slice := ⟨m, yoff, ylen⟩
    if which == "iseq" then some (fmtRes fmtBool 1 (IsEqual.isEqual x y {}))
    else if which == "isprefix" then some (fmtRes fmtBool 1 (IsEqual.isPrefix x y {}))
    else if which == "issuffix" then some (fmtRes fmtBool 1 (IsEqual.isSuffix x y {}))
    else none
  | _, _ => none

end Memchr.Driver
