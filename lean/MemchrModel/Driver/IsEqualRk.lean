/-
Driver ops for `is_equal` / `is_prefix` / `is_suffix` and Rabin-Karp.

  iseq     <basex> <hex x> <basey> <hex y>                  is_equal(x, y)
  isprefix <baseh> <hex h> <basen> <hex n>                  is_prefix(h, n)
  issuffix <baseh> <hex h> <basen> <hex n>                  is_suffix(h, n)
  rk  fwd|rev <baseh> <hex hay> <basen> <hex needle>        Finder::new(needle).find(hay, needle)
                                                            / FinderRev::new(needle).rfind(..)
  rkx fwd|rev <hex construct-needle> <baseh> <hex hay> <basen> <hex search-needle>
                                                            finder built from another needle

All numbers are decimal; `base*` is the address of the first byte of that byte string. The
first byte string of the line is region 0, the second region 1 (the construction needle of
`rkx` is only iterated safely; it lives in region 2). Steps include the construction ticks.
-/
import MemchrModel.Driver.Util
import MemchrModel.Model.IsEqual
import MemchrModel.Model.RabinKarp

namespace Memchr.Driver

/-- a whole region as a slice -/
def mkSlice (region base : Nat) (bytes : Array UInt8) : Slice :=
  Slice.ofMem { region := region, base := base, bytes := bytes }

def runRk (dir : String) (construct hay needle : Slice) : Option (Res (Option Nat)) :=
  if dir == "fwd" then
    some ((RabinKarp.Finder.new construct >>= fun f => f.find hay needle) {})
  else if dir == "rev" then
    some ((RabinKarp.FinderRev.new construct >>= fun f => f.rfind hay needle) {})
  else none

def handleIsEqualRk (op : String) (args : List String) : Option String :=
  match op, args with
  | "iseq", [bx, x, by_, y] => do
    let x := mkSlice 0 (← bx.toNat?) (← parseHex x)
    let y := mkSlice 1 (← by_.toNat?) (← parseHex y)
    some (fmtRes fmtBool 1 (IsEqual.isEqual x y {}))
  | "isprefix", [bh, h, bn, n] => do
    let h := mkSlice 0 (← bh.toNat?) (← parseHex h)
    let n := mkSlice 1 (← bn.toNat?) (← parseHex n)
    some (fmtRes fmtBool 1 (IsEqual.isPrefix h n {}))
  | "issuffix", [bh, h, bn, n] => do
    let h := mkSlice 0 (← bh.toNat?) (← parseHex h)
    let n := mkSlice 1 (← bn.toNat?) (← parseHex n)
    some (fmtRes fmtBool 1 (IsEqual.isSuffix h n {}))
  | "rk", [dir, bh, h, bn, n] => do
    let h := mkSlice 0 (← bh.toNat?) (← parseHex h)
    let n := mkSlice 1 (← bn.toNat?) (← parseHex n)
    let r ← runRk dir n h n
    some (fmtRes fmtOptNat 1 r)
  | "rkx", [dir, cn, bh, h, bn, n] => do
    let cn := mkSlice 2 0 (← parseHex cn)
    let h := mkSlice 0 (← bh.toNat?) (← parseHex h)
    let n := mkSlice 1 (← bn.toNat?) (← parseHex n)
    let r ← runRk dir cn h n
    some (fmtRes fmtOptNat 1 r)
  | _, _ => none

end Memchr.Driver
