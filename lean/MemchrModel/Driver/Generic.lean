/-
Driver ops for the generic vector memchr model.

  gfind  <lanes> <needles-hex> <unroll> fwd|rev <base> <soff> <eoff> <hay-hex>
  gcount <lanes> <needle-hex>  <unroll>         <base> <soff> <eoff> <hay-hex>

`base` is the (decimal) address of the first haystack byte, `soff`/`eoff` the offsets of
`start`/`end` from it. Results are offsets from `base`.
-/
import MemchrModel.Driver.Util
import MemchrModel.Model.Sensible
import MemchrModel.Model.MemchrGeneric

namespace Memchr.Driver

def mkNeedles : List UInt8 → Option Needles
  | [] => none
  | a :: rest => some ⟨a, rest⟩

def handleGeneric (op : String) (args : List String) : Option String :=
  match op, args with
  | "gfind", [lanes, ns, u, dir, base, soff, eoff, hay] => do
    let lanes ← lanes.toNat?
    let ns ← mkNeedles (← parseNeedles ns)
    let u ← u.toNat?
    let base ← base.toNat?
    let soff ← soff.toNat?
    let eoff ← eoff.toNat?
    let bytes ← parseHex hay
    let m : Mem := { region := 0, base := base, bytes := bytes }
    if hu : 0 < u ∧ 0 < lanes then
      let V := Sensible.impl lanes hu.2
      let hu := hu.1
      let r := if dir == "rev" then Generic.rfindRaw V ns u hu m (base + soff) (base + eoff) {}
               else Generic.findRaw V ns u hu m (base + soff) (base + eoff) {}
      some (fmtRes (fun o => fmtOptNat (o.map (· - base))) 2 r)
    else none
  | "gcount", [lanes, n1, u, base, soff, eoff, hay] => do
    let lanes ← lanes.toNat?
    let ns ← parseNeedles n1
    let n1 ← ns.head?
    let u ← u.toNat?
    let base ← base.toNat?
    let soff ← soff.toNat?
    let eoff ← eoff.toNat?
    let bytes ← parseHex hay
    let m : Mem := { region := 0, base := base, bytes := bytes }
    if hu : 0 < u ∧ 0 < lanes then
      let V := Sensible.impl lanes hu.2
      let hu := hu.1
      some (fmtRes toString 2 (Generic.countRaw V n1 u hu m (base + soff) (base + eoff) {}))
    else none
  | _, _ => none

end Memchr.Driver
