/-
Driver ops for the generic packed-pair searcher (`src/arch/generic/packedpair.rs`).

  ppfind <lanes> <hex needle> <i1> <i2> <nbase> <hex search-needle> <hbase> <hex hay>
      Finder::<V>::new(needle, Pair::with_indices(needle, i1, i2)).find(hay, search_needle)
  pppre  <lanes> <hex needle> <i1> <i2> <hbase> <hex hay>
      Finder::<V>::new(needle, Pair::with_indices(needle, i1, i2)).find_prefilter(hay)

The haystack is region 0 (base `hbase`), needles are region 1 (base `nbase`; the construction
needle is only indexed, never loaded). `Pair::with_indices` returning `None` (equal indices or
an index `>= needle.len()`) answers `ok badpair steps=0 loads=- minlen=0`. Every answer ends
with ` minlen=<min_haystack_len>`.
-/
import MemchrModel.Driver.Util
import MemchrModel.Model.Sensible
import MemchrModel.Model.PackedPair

namespace Memchr.Driver

open Memchr.PackedPair

/-- run `new` then `body` on the finder; the line is `fmtRes` of the result plus `minlen` -/
def ppRun (lanes : Nat) (h : 0 < lanes) (needle : Slice) (i1 i2 : Nat)
    (body : (V : VecImpl) → Finder → M (Option Nat)) : String :=
  let V := Sensible.impl lanes h
  if i1 == i2 || i1 ≥ needle.len || i2 ≥ needle.len then
    fmtRes (fun (_ : Unit) => "badpair") 1 (.ok () {}) ++ " minlen=0" else
  match Finder.new V needle i1 i2 {} with
  | .fault e => fmtFault e
  | .ok f c =>
    fmtRes fmtOptNat 1 (body V f c) ++ s!" minlen={f.minHaystackLen}"

def handlePackedPair (op : String) (args : List String) : Option String :=
  match op, args with
  | "ppfind", [lanes, needle, i1, i2, nbase, sneedle, hbase, hay] => do
    let lanes ← lanes.toNat?
    let nbytes ← parseHex needle
    let i1 ← i1.toNat?
    let i2 ← i2.toNat?
    let nbase ← nbase.toNat?
    let sbytes ← parseHex sneedle
    let hbase ← hbase.toNat?
    let hbytes ← parseHex hay
    if h : 0 < lanes ∧ i1 ≤ 255 ∧ i2 ≤ 255 then
      let n : Slice := Slice.ofMem { region := 1, base := nbase, bytes := nbytes }
      let s : Slice := Slice.ofMem { region := 1, base := nbase, bytes := sbytes }
      let hs : Slice := Slice.ofMem { region := 0, base := hbase, bytes := hbytes }
      some (ppRun lanes h.1 n i1 i2 (fun V f => find V f hs s))
    else none
  | "pppre", [lanes, needle, i1, i2, hbase, hay] => do
    let lanes ← lanes.toNat?
    let nbytes ← parseHex needle
    let i1 ← i1.toNat?
    let i2 ← i2.toNat?
    let hbase ← hbase.toNat?
    let hbytes ← parseHex hay
    if h : 0 < lanes ∧ i1 ≤ 255 ∧ i2 ≤ 255 then
      let n : Slice := Slice.ofMem { region := 1, base := 0, bytes := nbytes }
      let hs : Slice := Slice.ofMem { region := 0, base := hbase, bytes := hbytes }
      some (ppRun lanes h.1 n i1 i2 (fun V f => findPrefilter V f hs))
    else none
  | _, _ => none

end Memchr.Driver
