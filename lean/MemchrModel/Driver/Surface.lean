/-
Driver ops for the API surface that the other ops reach only indirectly.

  memchrs <backend> <needles-hex> fwd|rev <base> <soff> <eoff> <hay-hex>   (soff <= eoff)
      `<backend>::memchr::{One,Two,Three}::{find,rfind}(&hay[soff..eoff])` (slice form,
      `Api.sliceFind`), answered as an offset from `<base>`.
  counts  <backend> <needle-hex> <base> <soff> <eoff> <hay-hex>
      `<backend>::memchr::One::count(&hay[soff..eoff])` (`Api.sliceCount`).
  iterdn / iterdr <backend> <needles-hex> <base> <hay-hex> <ops>
      `Memchr{,2,3}::new(..)` is the same iterator as `memchr{,2,3}_iter`; `memrchr{,2,3}_iter`
      is `.rev()` of it: `n` of the reversed iterator is `b` of the model iterator and vice versa.
  iseqraw <basex> <hex x> <basey> <hex y>     `is_equal_raw(x, y, n)` (equal lengths)
  rkraw fwd|rev <baseh> <hex hay> <basen>|@<off> <hex needle>
      `rabinkarp::Finder::find_raw` / `FinderRev::rfind_raw`; with `@<off>` the needle pointers
      point into the haystack region at `<off>`.
  ppforeign <isa> <hex short needle> <hex long needle> <i1> <i2>
      `Pair::with_indices(long, i1, i2)` given to `<isa>::packedpair::Finder::with_pair(short, ..)`:
      `built`, or the panic of `needle[index]` when an offset is outside the short needle.
  findfree <cfg> fwd|rev <hex needle> <hbase> <hex hay>
      `memmem::find_iter(hay, needle)` / `memmem::rfind_iter(hay, needle)` run to exhaustion:
      the matches, `;`-separated (`-` when there is none).
-/
import MemchrModel.Driver.Util
import MemchrModel.Driver.MemchrApi
import MemchrModel.Driver.Memmem
import MemchrModel.Driver.IsEqualRk
import MemchrModel.Driver.ShiftOrPair

namespace Memchr.Driver

open Memchr.Api Memchr.Memmem

/-- `Rev<I>`: swap the two ends -/
def swapEnds : List Op → List Op
  | [] => []
  | .next :: r => .nextBack :: swapEnds r
  | .nextBack :: r => .next :: swapEnds r
  | o :: r => o :: swapEnds r

/-- all matches of `find_iter` up to the first `None` (`fuel` = `len + 2` never runs out) -/
def collectFwd (cfg : Api.Cfg) : Nat → FindIter → List Nat → M (List Nat)
  | 0, _, _ => fail (.panic "model: find_iter exhaustion ran out of fuel")
  | fuel + 1, it, acc => do
    match ← it.next cfg with
    | (none, _) => pure acc.reverse
    | (some i, it') => collectFwd cfg fuel it' (i :: acc)

def collectRev (cfg : Api.Cfg) : Nat → FindRevIter → List Nat → M (List Nat)
  | 0, _, _ => fail (.panic "model: rfind_iter exhaustion ran out of fuel")
  | fuel + 1, it, acc => do
    match ← it.next cfg with
    | (none, _) => pure acc.reverse
    | (some i, it') => collectRev cfg fuel it' (i :: acc)

def fmtMatches (l : List Nat) : String :=
  if l.isEmpty then "-" else ";".intercalate (l.map toString)

def handleSurface (op : String) (args : List String) : Option String :=
  match op, args with
  | "memchrs", [b, ns, dir, base, soff, eoff, hay] => do
    let b ← Backend.ofName? b
    let ns ← parseNeedles13 ns
    let rev ← (if dir == "fwd" then some false else if dir == "rev" then some true else none)
    let base ← base.toNat?
    let soff ← soff.toNat?
    let eoff ← eoff.toNat?
    let bytes ← parseHex hay
    if soff > eoff || eoff > bytes.size then none else
    let m : Mem := { region := 0, base := base, bytes := bytes }
    let s : Slice := ⟨m, soff, eoff - soff⟩
    some (fmtRes (fun o => fmtOptNat (o.map (· + soff))) 1 (sliceFind b ns rev s {}))
  | "counts", [b, n1, base, soff, eoff, hay] => do
    let b ← Backend.ofName? b
    let n1 ← (match parseNeedles n1 with | some [a] => some a | _ => none)
    let base ← base.toNat?
    let soff ← soff.toNat?
    let eoff ← eoff.toNat?
    let bytes ← parseHex hay
    if soff > eoff || eoff > bytes.size then none else
    let m : Mem := { region := 0, base := base, bytes := bytes }
    let s : Slice := ⟨m, soff, eoff - soff⟩
    some (fmtRes toString 1 (sliceCount b n1 s {}))
  | "iterdr", [b, ns, base, hay, ops] => do
    let b ← Backend.ofName? b
    let ns ← parseNeedles13 ns
    let base ← base.toNat?
    let bytes ← parseHex hay
    let ops ← parseOps ops
    let m : Mem := { region := 0, base := base, bytes := bytes }
    let it := Iter.new (Slice.ofMem m)
    let r := Iter.run (RawFns.ofBackend b ns m) (swapEnds ops) it {}
    some (fmtRes (fun (p : List Api.Out × Iter) => fmtOuts p.1) 1 r)
  | "iseqraw", [bx, x, by_, y] => do
    let xb ← parseHex x
    let yb ← parseHex y
    if xb.size != yb.size then none else
    let bx ← bx.toNat?
    let by_ ← by_.toNat?
    let mx : Mem := { region := 0, base := bx, bytes := xb }
    let my : Mem := { region := 1, base := by_, bytes := yb }
    some (fmtRes fmtBool 1 (IsEqual.isEqualRaw mx my bx by_ xb.size {}))
  | "rkraw", [dir, bh, h, bn, n] => do
    let hb ← parseHex h
    let nb ← parseHex n
    let bh ← bh.toNat?
    let mh : Mem := { region := 0, base := bh, bytes := hb }
    let cons := mkSlice 2 0 nb
    let (mn, nstart) ← (if bn.startsWith "@" then do
        let off ← (bn.drop 1).toString.toNat?
        if off + nb.size > hb.size then none else some (mh, bh + off)
      else do
        let bn ← bn.toNat?
        some (({ region := 1, base := bn, bytes := nb } : Mem), bn))
    let nend := nstart + nb.size
    if dir == "fwd" then
      some (fmtRes (fun o => fmtOptNat (o.map (· - bh))) 1
        ((RabinKarp.Finder.new cons >>= fun f => f.findRaw mh mn bh (bh + hb.size) nstart nend) {}))
    else if dir == "rev" then
      some (fmtRes (fun o => fmtOptNat (o.map (· - bh))) 1
        ((RabinKarp.FinderRev.new cons >>= fun f => f.rfindRaw mh mn bh (bh + hb.size) nstart nend) {}))
    else none
  | "ppforeign", [_isa, short, long, i1, i2] => do
    let sb ← parseHex short
    let lb ← parseHex long
    let i1 ← parseU8 i1
    let i2 ← parseU8 i2
    let ns : Slice := Slice.ofMem { region := 1, base := 0, bytes := sb }
    let nl : Slice := Slice.ofMem { region := 2, base := 0, bytes := lb }
    match Pair.withIndices nl i1 i2 with
    | none => some "ok badpair steps=0 loads=-"
    | some p =>
      match Fallback.withPair ns p {} with
      | .fault e => some (fmtFault e)
      | .ok none _ => some "ok nofinder steps=0 loads=-"
      | .ok (some _) _ => some "ok built steps=0 loads=-"
  | "findfree", [cfg, dir, needle, hbase, hay] => do
    let cfg ← parseMemmemCfg cfg
    let n := mmNeedle (← parseHex needle)
    let hbase ← hbase.toNat?
    let h := mmHay hbase (← parseHex hay)
    if dir == "fwd" then
      some (afterBuild (mmBuild cfg .auto Pair.defaultRank n) fun f =>
        fmtResV fmtMatches (collectFwd cfg (h.len + 2) (f.findIter h) [] {}))
    else if dir == "rev" then
      some (afterBuild (FinderRev.new n) fun f =>
        fmtResV fmtMatches (collectRev cfg (h.len + 2) (f.rfindIter h) [] {}))
    else none
  | _, _ => none

end Memchr.Driver
