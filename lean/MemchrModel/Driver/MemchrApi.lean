/-
Driver ops for the per-ISA wrappers, the dispatch and the iterators (`Model/MemchrApi.lean`).

  memchr <backend> <needles-hex 1..3 bytes> fwd|rev <base> <soff> <eoff> <hay-hex>
  count  <backend> <needle-hex>                     <base> <soff> <eoff> <hay-hex>
  iter   <backend> <needles-hex 1..3 bytes> <base> <hay-hex> <ops>
  select <arch> <ctSse2> <ctAvx2> <ctNeon> <std> <cpuAvx2> [<force: none|noavx2|nosse2>]

`<backend>` is `avx2|sse2|neon|simd128|swar`; `base` is the (decimal) address of the first
haystack byte, `soff`/`eoff` the offsets of `start`/`end` from it (`soff` may be `>= eoff`).
`memchr` answers `none` or the offset of the hit from `base`.
`<ops>` is a string over `n` (next), `b` (next_back), `s` (size_hint), `c` (count of a clone;
non consuming), or `-` for no operation; the answer lists one result per operation, comma
separated: `none`/`<idx>` for `n`/`b`, `<lo>:<hi>` for `s`, `<k>` for `c`.
`<arch>` is `x86_64|aarch64|wasm32simd128|other`; flags are `0|1`.

  conc <backend> <threads> <seed> <calls>

exercises the executable `unsafe_ifunc!` cell model (`Model/Concurrency.lean`): an LCG seeded
with `<seed>` draws, for each of the threads `0..threads-1`, `<calls>` find/rfind calls
(haystack of length 0..80 over the alphabet `61..64`, 1-3 needle bytes from `61..65`, base
address `1000..1063`, mostly the whole haystack as window, sometimes an arbitrary (possibly
reversed) sub-window) and a schedule of `3 * threads * calls` steps `(thread, load choice)`
with the load choice drawn among the values stored in `FN` so far; if calls are still pending
the schedule is extended round-robin with load choice 0. `Concurrency.runSchedule` is run
for the forward cell and again (same calls, same schedule) for the reverse cell, with a `Cfg`
whose `select` is `<backend>`. The answer is `ok <k> steps=0 loads=-` where `k` = number of
completed calls whose outcome is not `ok (specFind ..)`, plus the number of calls that did not
complete (`k = 0` by `Concurrency.C15_find`).
For `avx2|sse2|swar` the `Cfg` is an `x86_64` one (`x86Detect cfg = <backend>`). `neon` and
`simd128` are chosen at compile time in the source (`defraw!`, no `FN` cell, no shared state):
for them every call of the same queues runs `memchrRaw cfg` directly.
-/
import MemchrModel.Driver.Util
import MemchrModel.Spec.Byte
import MemchrModel.Model.MemchrApi
import MemchrModel.Model.Concurrency

namespace Memchr.Driver

open Memchr.Api

/-- 1 to 3 needle bytes -/
def parseNeedles13 (s : String) : Option Needles :=
  match parseNeedles s with
  | some [a] => some ⟨a, []⟩
  | some [a, b] => some ⟨a, [b]⟩
  | some [a, b, c] => some ⟨a, [b, c]⟩
  | _ => none

def parseFlag : String → Option Bool
  | "0" => some false
  | "1" => some true
  | _ => none

def parseArch : String → Option Arch
  | "x86_64" => some .x86_64
  | "aarch64" => some .aarch64
  | "wasm32simd128" => some .wasm32simd128
  | "other" => some .other
  | _ => none

def parseForce : String → Option Force
  | "none" => some .none
  | "noavx2" => some .noavx2
  | "nosse2" => some .nosse2
  | _ => none

def parseOps (s : String) : Option (List Op) :=
  if s == "-" then some [] else
  s.toList.mapM fun
    | 'n' => some Op.next
    | 'b' => some Op.nextBack
    | 's' => some Op.sizeHint
    | 'c' => some Op.count
    | _ => none

def fmtOut : Out → String
  | .idx o => fmtOptNat o
  | .hint lo hi => s!"{lo}:{fmtOptNat hi}"
  | .cnt k => toString k

def fmtOuts (os : List Out) : String :=
  if os.isEmpty then "-" else ",".intercalate (os.map fmtOut)

def parseCfg (arch sse2 avx2 neon std cpu : String) (force : Force) : Option Cfg := do
  let arch ← parseArch arch
  let sse2 ← parseFlag sse2
  let avx2 ← parseFlag avx2
  let neon ← parseFlag neon
  let std ← parseFlag std
  let cpu ← parseFlag cpu
  pure { arch := arch, ctSse2 := sse2, ctAvx2 := avx2, ctNeon := neon, std := std,
         cpuAvx2 := cpu, force := force }

/-! ### `conc` -/

open Memchr.Concurrency in
/-- a `Cfg` with `select cfg = b` -/
def cfgOfBackend : Backend → Cfg
  | .avx2 => { arch := .x86_64, ctSse2 := true, ctAvx2 := true, ctNeon := false, std := true, cpuAvx2 := true }
  | .sse2 => { arch := .x86_64, ctSse2 := true, ctAvx2 := false, ctNeon := false, std := true, cpuAvx2 := false }
  | .swar => { arch := .x86_64, ctSse2 := false, ctAvx2 := false, ctNeon := false, std := true, cpuAvx2 := false }
  | .neon => { arch := .aarch64, ctSse2 := false, ctAvx2 := false, ctNeon := true, std := true, cpuAvx2 := false }
  | .simd128 => { arch := .wasm32simd128, ctSse2 := false, ctAvx2 := false, ctNeon := false, std := true, cpuAvx2 := false }

/-- 64-bit LCG (Knuth's MMIX constants) -/
def lcgNext (s : Nat) : Nat := (s * 6364136223846793005 + 1442695040888963407) % 2 ^ 64

/-- a number `< n` (0 when `n = 0`) from the high bits, and the next state -/
def lcgDraw (s n : Nat) : Nat × Nat :=
  let s' := lcgNext s
  ((s' / 2 ^ 33) % n, s')

def lcgBytes (lo span : Nat) : Nat → Nat → List UInt8 × Nat
  | 0, s => ([], s)
  | k + 1, s =>
    let (x, s) := lcgDraw s span
    let (rest, s) := lcgBytes lo span k s
    (UInt8.ofNat (lo + x) :: rest, s)

open Memchr.Concurrency in
def genCall (s : Nat) : FindArgs × Nat :=
  let (len, s) := lcgDraw s 81
  let (hay, s) := lcgBytes 0x61 4 len s
  let (nn, s) := lcgDraw s 3
  let (nb, s) := lcgBytes 0x61 5 (nn + 1) s
  let ns : Needles := match nb with
    | a :: rest => ⟨a, rest⟩
    | [] => ⟨0x61, []⟩
  let (boff, s) := lcgDraw s 64
  let base := 1000 + boff
  let m : Mem := { region := 0, base := base, bytes := hay.toArray }
  let (sub, s) := lcgDraw s 4
  if sub == 0 then
    let (so, s) := lcgDraw s (len + 1)
    let (eo, s) := lcgDraw s (len + 1)
    (⟨ns, m, base + so, base + eo⟩, s)
  else (⟨ns, m, base, base + len⟩, s)

open Memchr.Concurrency in
def genCalls : Nat → Nat → List FindArgs × Nat
  | 0, s => ([], s)
  | k + 1, s =>
    let (a, s) := genCall s
    let (rest, s) := genCalls k s
    (a :: rest, s)

open Memchr.Concurrency in
def genQueues : Nat → Nat → Nat → List (List FindArgs) × Nat
  | 0, _, s => ([], s)
  | t + 1, calls, s =>
    let (q, s) := genCalls calls s
    let (rest, s) := genQueues t calls s
    (q :: rest, s)

open Memchr.Concurrency in
/-- `k` random steps; the load choice is drawn among the values stored so far (the store
history does not depend on the direction of the search, so the schedule generated against the
forward cell is reused for the reverse one) -/
def genSchedule (cfg : Cfg) (threads : Nat) :
    Nat → State FindArgs (Option Nat) → Nat → Schedule × State FindArgs (Option Nat)
  | 0, st, _ => ([], st)
  | k + 1, st, s =>
    let (tid, s) := lcgDraw s threads
    let (idx, s) := lcgDraw s st.stored.length
    let (rest, st') := genSchedule cfg threads k (step (findIfunc false) cfg st tid idx) s
    ((tid, idx) :: rest, st')

/-- `rounds` round-robin rounds over the threads, load choice 0 -/
def roundRobin (threads rounds : Nat) : Concurrency.Schedule :=
  (List.range rounds).flatMap (fun _ => (List.range threads).map (fun t => (t, 0)))

/-- address of the first / last needle byte of the window (`Api.specFind` of
`Proofs/MemchrApi.lean`, restated here because driver files import no proof file) -/
def specFindD (ns : Needles) (rev : Bool) (m : Mem) (start end_ : Nat) : Option Nat :=
  let w := m.window start (end_ - start)
  (if rev then Spec.lastIdx ns.confirm w else Spec.firstIdx ns.confirm w).map (start + ·)

open Memchr.Concurrency in
def badResults (rev : Bool) (rs : List (Nat × FindArgs × Res (Option Nat))) : Nat :=
  (rs.filter (fun r =>
    r.2.2.val? != some (specFindD r.2.1.ns rev r.2.1.m r.2.1.start r.2.1.end_))).length

open Memchr.Concurrency in
def runConc (b : Backend) (threads seed calls : Nat) : Nat :=
  let cfg := cfgOfBackend b
  let (qs, s) := genQueues threads calls seed
  let qa := qs.toArray
  let queue : Nat → List FindArgs := fun t => qa.getD t []
  let total := threads * calls
  match b with
  | .neon | .simd128 =>
    -- compile-time choice: no cell; every call runs `memchr_raw` directly
    let all := qs.flatten
    let run (rev : Bool) : Nat :=
      badResults rev (all.map (fun a => (0, a, memchrRaw cfg a.ns rev a.m a.start a.end_ {})))
    run false + run true
  | _ =>
    let (sched, st) := genSchedule cfg threads (3 * total) (init queue) s
    let done := (List.range threads).all (fun t => (st.queue t).isEmpty)
    let sched := if done then sched else sched ++ roundRobin threads (2 * calls)
    let run (rev : Bool) : Nat :=
      let fin := runSchedule (findIfunc rev) cfg (init queue) sched
      badResults rev fin.results + (total - fin.results.length)
    run false + run true

def handleMemchrApi (op : String) (args : List String) : Option String :=
  match op, args with
  | "memchr", [b, ns, dir, base, soff, eoff, hay] => do
    let b ← Backend.ofName? b
    let ns ← parseNeedles13 ns
    let rev ← (if dir == "fwd" then some false else if dir == "rev" then some true else none)
    let base ← base.toNat?
    let soff ← soff.toNat?
    let eoff ← eoff.toNat?
    let bytes ← parseHex hay
    let m : Mem := { region := 0, base := base, bytes := bytes }
    let r := rawFind b ns rev m (base + soff) (base + eoff) {}
    some (fmtRes (fun o => fmtOptNat (o.map (· - base))) 1 r)
  | "count", [b, n1, base, soff, eoff, hay] => do
    let b ← Backend.ofName? b
    let n1 ← (match parseNeedles n1 with | some [a] => some a | _ => none)
    let base ← base.toNat?
    let soff ← soff.toNat?
    let eoff ← eoff.toNat?
    let bytes ← parseHex hay
    let m : Mem := { region := 0, base := base, bytes := bytes }
    some (fmtRes toString 1 (rawCount b n1 m (base + soff) (base + eoff) {}))
  | "iter", [b, ns, base, hay, ops] => do
    let b ← Backend.ofName? b
    let ns ← parseNeedles13 ns
    let base ← base.toNat?
    let bytes ← parseHex hay
    let ops ← parseOps ops
    let m : Mem := { region := 0, base := base, bytes := bytes }
    let it := Iter.new (Slice.ofMem m)
    let r := Iter.run (RawFns.ofBackend b ns m) ops it {}
    some (fmtRes (fun (p : List Out × Iter) => fmtOuts p.1) 1 r)
  | "select", [arch, sse2, avx2, neon, std, cpu] => do
    let cfg ← parseCfg arch sse2 avx2 neon std cpu .none
    some s!"ok {(select cfg).name}"
  | "select", [arch, sse2, avx2, neon, std, cpu, force] => do
    let cfg ← parseCfg arch sse2 avx2 neon std cpu (← parseForce force)
    some s!"ok {(select cfg).name}"
  | "conc", [b, threads, seed, calls] => do
    let b ← Backend.ofName? b
    let threads ← threads.toNat?
    let seed ← seed.toNat?
    let calls ← calls.toNat?
    some s!"ok {runConc b threads seed calls} steps=0 loads=-"
  | _, _ => none

end Memchr.Driver
