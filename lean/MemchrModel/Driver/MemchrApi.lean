/-
Driver ops for the per-ISA wrappers, the dispatch and the iterators (`Model/MemchrApi.lean`).

  memchr <backend> <needles-hex 1..3 bytes> fwd|rev <base> <soff> <eoff> <hay-hex>
  count  <backend> <needle-hex>                     <base> <soff> <eoff> <hay-hex>
  iter   <backend> <needles-hex 1..3 bytes> <base> <hay-hex> <ops>
  select <arch> <ctSse2> <ctAvx2> <ctNeon> <std> <cpuAvx2> [<force: none|noavx2|nosse2>]

`<backend>` is `avx2|sse2|neon|simd128|swar`; `base` is the (decimal) address of the first
haystack byte, `soff`/`eoff` the offsets of `start`/`end` from it (`soff` may be `>= eoff`).
`memchr` answers `none` or the offset of the hit from `base`.
`<ops>` is a string over `n` (next), `b` (next_back), `s` (size_hint), `c` (count of a clone;
non consuming), or `-` for no operation; the answer lists one result per operation, comma
separated: `none`/`<idx>` for `n`/`b`, `<lo>:<hi>` for `s`, `<k>` for `c`.
`<arch>` is `x86_64|aarch64|wasm32simd128|other`; flags are `0|1`.
-/
import MemchrModel.Driver.Util
import MemchrModel.Model.MemchrApi

namespace Memchr.Driver

open Memchr.Api

/-- 1 to 3 needle bytes -/
def parseNeedles13 (s : String) : Option Needles :=
  match parseNeedles s with
  | some [a] => some ⟨a, []⟩
  | some [a, b] => some ⟨a, [b]⟩
  | some [a, b, c] => some ⟨a, [b, c]⟩
  | _ => none

def parseFlag : String → Option Bool
  | "0" => some false
  | "1" => some true
  | _ => none

def parseArch : String → Option Arch
  | "x86_64" => some .x86_64
  | "aarch64" => some .aarch64
  | "wasm32simd128" => some .wasm32simd128
  | "other" => some .other
  | _ => none

def parseForce : String → Option Force
  | "none" => some .none
  | "noavx2" => some .noavx2
  | "nosse2" => some .nosse2
  | _ => none

def parseOps (s : String) : Option (List Op) :=
  if s == "-" then some [] else
  s.toList.mapM fun
    | 'n' => some Op.next
    | 'b' => some Op.nextBack
    | 's' => some Op.sizeHint
    | 'c' => some Op.count
    | _ => none

def fmtOut : Out → String
  | .idx o => fmtOptNat o
  | .hint lo hi => s!"{lo}:{fmtOptNat hi}"
  | .cnt k => toString k

def fmtOuts (os : List Out) : String :=
  if os.isEmpty then "-" else ",".intercalate (os.map fmtOut)

def parseCfg (arch sse2 avx2 neon std cpu : String) (force : Force) : Option Cfg := do
  let arch ← parseArch arch
  let sse2 ← parseFlag sse2
  let avx2 ← parseFlag avx2
  let neon ← parseFlag neon
  let std ← parseFlag std
  let cpu ← parseFlag cpu
  pure { arch := arch, ctSse2 := sse2, ctAvx2 := avx2, ctNeon := neon, std := std,
         cpuAvx2 := cpu, force := force }

def handleMemchrApi (op : String) (args : List String) : Option String :=
  match op, args with
  | "memchr", [b, ns, dir, base, soff, eoff, hay] => do
    let b ← Backend.ofName? b
    let ns ← parseNeedles13 ns
    let rev ← (if dir == "fwd" then some false else if dir == "rev" then some true else none)
    let base ← base.toNat?
    let soff ← soff.toNat?
    let eoff ← eoff.toNat?
    let bytes ← parseHex hay
    let m : Mem := { region := 0, base := base, bytes := bytes }
    let r := rawFind b ns rev m (base + soff) (base + eoff) {}
    some (fmtRes (fun o => fmtOptNat (o.map (· - base))) 1 r)
  | "count", [b, n1, base, soff, eoff, hay] => do
    let b ← Backend.ofName? b
    let n1 ← (match parseNeedles n1 with | some [a] => some a | _ => none)
    let base ← base.toNat?
    let soff ← soff.toNat?
    let eoff ← eoff.toNat?
    let bytes ← parseHex hay
    let m : Mem := { region := 0, base := base, bytes := bytes }
    some (fmtRes toString 1 (rawCount b n1 m (base + soff) (base + eoff) {}))
  | "iter", [b, ns, base, hay, ops] => do
    let b ← Backend.ofName? b
    let ns ← parseNeedles13 ns
    let base ← base.toNat?
    let bytes ← parseHex hay
    let ops ← parseOps ops
    let m : Mem := { region := 0, base := base, bytes := bytes }
    let it := Iter.new (Slice.ofMem m)
    let r := Iter.run (RawFns.ofBackend b ns m) ops it {}
    some (fmtRes (fun (p : List Out × Iter) => fmtOuts p.1) 1 r)
  | "select", [arch, sse2, avx2, neon, std, cpu] => do
    let cfg ← parseCfg arch sse2 avx2 neon std cpu .none
    some s!"ok {(select cfg).name}"
  | "select", [arch, sse2, avx2, neon, std, cpu, force] => do
    let cfg ← parseCfg arch sse2 avx2 neon std cpu (← parseForce force)
    some s!"ok {(select cfg).name}"
  | _, _ => none

end Memchr.Driver
