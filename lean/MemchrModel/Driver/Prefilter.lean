/-
Driver op for the adaptive prefilter state machine.

  prestate <skips> <skipped> <ops>     ops: comma separated `u<k>` (update(k)) | `e` (is_effective)

answer: `ok <answers as a 0/1 string or ->;<skips>:<skipped> steps=0 loads=-` or a fault.
-/
import MemchrModel.Driver.Util
import MemchrModel.Model.Prefilter

namespace Memchr.Driver

def runPreOps (st : PrefilterState) (ops : List String) (acc : String) : M (String × PrefilterState) :=
  match ops with
  | [] => pure (acc, st)
  | op :: rest =>
    if op == "e" then do
      let (b, st') ← st.isEffective
      runPreOps st' rest (acc ++ (if b then "1" else "0"))
    else if op.startsWith "u" then
      match (op.drop 1).toNat? with
      | some k => runPreOps (st.update k) rest acc
      | none => fail (.panic "bad-op")
    else fail (.panic "bad-op")

def handlePrefilter (op : String) (args : List String) : Option String :=
  match op, args with
  | "prestate", [skips, skipped, ops] => do
    let skips ← skips.toNat?
    let skipped ← skipped.toNat?
    if skips ≥ 2 ^ 32 || skipped ≥ 2 ^ 32 then none else
    let st : PrefilterState := ⟨skips.toUInt32, skipped.toUInt32⟩
    let r := runPreOps st (if ops == "-" then [] else ops.splitOn ",") "" {}
    some (fmtRes (fun (p : String × PrefilterState) =>
      s!"{if p.1.isEmpty then "-" else p.1};{p.2.skips.toNat}:{p.2.skipped.toNat}") 1 r)
  | _, _ => none

end Memchr.Driver
