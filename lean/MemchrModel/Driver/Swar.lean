/-
Driver ops for the portable SWAR byte search (`src/arch/all/memchr.rs`).

  swar      <needles-hex (1..3 bytes)> fwd|rev <base> <soff> <eoff> <hay-hex>
  swarcount <needle-hex (1 byte)>              <base> <soff> <eoff> <hay-hex>

`base` is the (decimal) address of the first haystack byte, `soff`/`eoff` the offsets of
`start`/`end` from it (`soff >= eoff` is allowed: `None` / `0`). One needle byte runs
`One::{find_raw, rfind_raw}`, two or three run `Two::`/`Three::`. Results are offsets from
`base`.
-/
import MemchrModel.Driver.Util
import MemchrModel.Model.Swar

namespace Memchr.Driver

def handleSwar (op : String) (args : List String) : Option String :=
  match op, args with
  | "swar", [ns, dir, base, soff, eoff, hay] => do
    let ns ← parseNeedles ns
    let base ← base.toNat?
    let soff ← soff.toNat?
    let eoff ← eoff.toNat?
    let bytes ← parseHex hay
    let rev ← (if dir == "fwd" then some false else if dir == "rev" then some true else none)
    let m : Mem := { region := 0, base := base, bytes := bytes }
    let fmt := fun (o : Option Nat) => fmtOptNat (o.map (· - base))
    match ns with
    | [n1] =>
      let r := if rev then Swar.One.rfindRaw n1 m (base + soff) (base + eoff) {}
               else Swar.One.findRaw n1 m (base + soff) (base + eoff) {}
      some (fmtRes fmt 1 r)
    | n1 :: rest =>
      if rest.length ≤ 2 then
        let r := if rev then Swar.Multi.rfindRaw ⟨n1, rest⟩ m (base + soff) (base + eoff) {}
                 else Swar.Multi.findRaw ⟨n1, rest⟩ m (base + soff) (base + eoff) {}
        some (fmtRes fmt 1 r)
      else none
    | [] => none
  | "swarcount", [n1, base, soff, eoff, hay] => do
    let ns ← parseNeedles n1
    let base ← base.toNat?
    let soff ← soff.toNat?
    let eoff ← eoff.toNat?
    let bytes ← parseHex hay
    let m : Mem := { region := 0, base := base, bytes := bytes }
    match ns with
    | [n1] => some (fmtRes toString 1 (Swar.One.countRaw n1 m (base + soff) (base + eoff) {}))
    | _ => none
  | _, _ => none

end Memchr.Driver
