/-
C02  Reverse byte search returns exactly the last matching position.
-/
import MemchrModel.Proofs.MemchrGeneric
import MemchrModel.Proofs.Sensible
import MemchrModel.Generated.Consts

namespace Memchr.Props.C02

open Memchr

/-- The generic vector `rfind_raw` of `One`/`Two`/`Three` on ANY lawful vector type returns the
address of the last byte of `[start, end)` that equals a needle, `none` iff there is none,
without any fault, for every memory region (every alignment of `start` and `end`) and every
window of at least `V::BYTES` bytes. -/
theorem generic_rfind (V : VecImpl) (L : Lawful V) (ns : Needles) (u : Nat) (hu : 0 < u)
    (m : Mem) (start end_ : Nat) (c : Ctr)
    (hs : m.base ≤ start) (he : end_ ≤ m.base + m.bytes.size) (hlen : start + V.bytes ≤ end_) :
    ∃ c', Generic.rfindRaw V ns u hu m start end_ c =
      .ok ((Spec.lastIdx ns.confirm (m.window start (end_ - start))).map (start + ·)) c' :=
  Generic.rfindRaw_correct V L ns u hu m start end_ c hs he hlen

theorem unroll_pos : 0 < Generated.oneUnroll ∧ 0 < Generated.twoUnroll ∧ 0 < Generated.threeUnroll := by
  decide

/-- AVX2 instance, `Three`, with the source's unroll factor. -/
theorem avx2_three (n1 n2 n3 : UInt8) (m : Mem) (start end_ : Nat) (c : Ctr)
    (hs : m.base ≤ start) (he : end_ ≤ m.base + m.bytes.size) (hlen : start + 32 ≤ end_) :
    ∃ c', Generic.rfindRaw Sensible.avx2 ⟨n1, [n2, n3]⟩ Generated.threeUnroll unroll_pos.2.2 m start end_ c =
      .ok ((Spec.lastIdx (Needles.confirm ⟨n1, [n2, n3]⟩) (m.window start (end_ - start))).map (start + ·)) c' :=
  generic_rfind Sensible.avx2 Sensible.lawful_avx2 ⟨n1, [n2, n3]⟩ Generated.threeUnroll unroll_pos.2.2
    m start end_ c hs he hlen

example : ∃ (m : Mem) (start end_ : Nat), m.base ≤ start ∧ end_ ≤ m.base + m.bytes.size ∧ start + 32 ≤ end_ :=
  ⟨⟨0, 1001, Array.replicate 80 0⟩, 1003, 1077, by decide, by simp, by decide⟩

end Memchr.Props.C02

#print axioms Memchr.Props.C02.generic_rfind
#print axioms Memchr.Props.C02.unroll_pos
#print axioms Memchr.Props.C02.avx2_three
