/-
C02  Reverse byte search returns exactly the last matching position.

Only statements, one-line proofs from the master lemmas, non-vacuity examples and
`#print axioms`.

How the clauses of the property are covered:

  clause                                                   theorems
  -------------------------------------------------------  -------------------------------------
  what "last match" / "none iff there is none" mean        `spec_some_iff`, `spec_none_iff`
  vector routine, any lawful vector type, window >= 1 vec  `generic_rfind`
    ... instances SSE2 / AVX2 / NEON / wasm simd128        `avx2_three`, `sse2_rfind`,
                                                           `avx2_rfind`, `neon_rfind`,
                                                           `simd128_rfind`
  SWAR (`arch::all`), every `start`/`end`                  `swar_one`, `swar_multi`, `swar_two`,
                                                           `swar_three`
  raw-pointer form `rfind_raw` of EVERY backend, every
    window (short, empty, reversed) -> last match           `raw_every_backend`
    returned pointer inside `[start, end)`, last,
    `none` iff absent (pointwise reading)                   `raw_pointwise`
    `None` when `start >= end` (no precondition)            `raw_none_when_start_ge_end`
  slice form `rfind` of every backend's searcher            `slice_every_backend`
  `memrchr`/`memrchr2`/`memrchr3`, every configuration      `memrchr_last`, `memrchr_pointwise`
  returned index `< haystack.len()`                         `index_lt_len`

The dispatch facts (the public routine runs the backend `select` picks; it is an available one)
are stated once for both directions in `Props/C01.lean` (`dispatch_runs_selected` has a `rev`
argument, `selected_is_available`).

In every theorem `= .ok v c'` means: the run returns normally (no out-of-bounds or misaligned
load, no pointer arithmetic leaving the allocation, no overflow, no failed debug assertion)
and the returned value is `v`.
-/
import MemchrModel.Proofs.MemchrGeneric
import MemchrModel.Proofs.Sensible
import MemchrModel.Proofs.Neon
import MemchrModel.Proofs.Swar
import MemchrModel.Proofs.MemchrApi
import MemchrModel.Proofs.PropsBridge2
import MemchrModel.Generated.Consts

namespace Memchr.Props.C02

open Memchr

/-! ### the specification -/

/-- Meaning of the specification function: `Spec.lastIdx p l = some i` says exactly that `i` is
an index of `l`, the byte there satisfies `p`, and no larger index does ("the largest index
whose byte equals one of the needles"). -/
theorem spec_some_iff {p : UInt8 → Bool} {l : List UInt8} {i : Nat} :
    Spec.lastIdx p l = some i ↔
      ∃ h : i < l.length, p l[i] = true ∧ ∀ j (hj : j < l.length), i < j → p l[j] = false :=
  Spec.lastIdx_eq_some_iff

/-- Meaning of the specification function: it is `none` exactly when no byte satisfies `p`
("`None` exactly when there is none"). -/
theorem spec_none_iff {p : UInt8 → Bool} {l : List UInt8} :
    Spec.lastIdx p l = none ↔ ∀ x ∈ l, p x = false :=
  Spec.lastIdx_eq_none_iff

/-! ### the generic vector routine and its instances -/

/-- The generic vector `rfind_raw` of `One`/`Two`/`Three` on ANY lawful vector type returns the
address of the last byte of `[start, end)` that equals a needle, `none` iff there is none,
without any fault, for every memory region (every alignment of `start` and `end`) and every
window of at least `V::BYTES` bytes. -/
theorem generic_rfind (V : VecImpl) (L : Lawful V) (ns : Needles) (u : Nat) (hu : 0 < u)
    (m : Mem) (start end_ : Nat) (c : Ctr)
    (hs : m.base ≤ start) (he : end_ ≤ m.base + m.bytes.size) (hlen : start + V.bytes ≤ end_) :
    ∃ c', Generic.rfindRaw V ns u hu m start end_ c =
      .ok ((Spec.lastIdx ns.confirm (m.window start (end_ - start))).map (start + ·)) c' :=
  Generic.rfindRaw_correct V L ns u hu m start end_ c hs he hlen

/-- the unroll factors in the source are positive (re-checked against the regenerated
constants) -/
theorem unroll_pos : 0 < Generated.oneUnroll ∧ 0 < Generated.twoUnroll ∧ 0 < Generated.threeUnroll := by
  decide

/-- AVX2 instance, `Three`, with the source's unroll factor. -/
theorem avx2_three (n1 n2 n3 : UInt8) (m : Mem) (start end_ : Nat) (c : Ctr)
    (hs : m.base ≤ start) (he : end_ ≤ m.base + m.bytes.size) (hlen : start + 32 ≤ end_) :
    ∃ c', Generic.rfindRaw Sensible.avx2 ⟨n1, [n2, n3]⟩ Generated.threeUnroll unroll_pos.2.2 m start end_ c =
      .ok ((Spec.lastIdx (Needles.confirm ⟨n1, [n2, n3]⟩) (m.window start (end_ - start))).map (start + ·)) c' :=
  generic_rfind Sensible.avx2 Sensible.lawful_avx2 ⟨n1, [n2, n3]⟩ Generated.threeUnroll unroll_pos.2.2
    m start end_ c hs he hlen

/-- hypotheses are satisfiable: an 80-byte region at an odd base address, both `start` and `end`
unaligned -/
example : ∃ (m : Mem) (start end_ : Nat), m.base ≤ start ∧ end_ ≤ m.base + m.bytes.size ∧ start + 32 ≤ end_ :=
  ⟨⟨0, 1001, Array.replicate 80 0⟩, 1003, 1077, by decide, by simp, by decide⟩

/-- SSE2 instance (`__m128i`, 16 lanes) of `generic_rfind`: `One`, `Two` and `Three`, any unroll
factor, windows of at least 16 bytes. -/
theorem sse2_rfind (ns : Needles) (u : Nat) (hu : 0 < u) (m : Mem) (start end_ : Nat) (c : Ctr)
    (hs : m.base ≤ start) (he : end_ ≤ m.base + m.bytes.size) (hlen : start + 16 ≤ end_) :
    ∃ c', Generic.rfindRaw Sensible.sse2 ns u hu m start end_ c =
      .ok ((Spec.lastIdx ns.confirm (m.window start (end_ - start))).map (start + ·)) c' :=
  generic_rfind Sensible.sse2 Sensible.lawful_sse2 ns u hu m start end_ c hs he hlen

/-- AVX2 instance (`__m256i`, 32 lanes) of `generic_rfind`: windows of at least 32 bytes. -/
theorem avx2_rfind (ns : Needles) (u : Nat) (hu : 0 < u) (m : Mem) (start end_ : Nat) (c : Ctr)
    (hs : m.base ≤ start) (he : end_ ≤ m.base + m.bytes.size) (hlen : start + 32 ≤ end_) :
    ∃ c', Generic.rfindRaw Sensible.avx2 ns u hu m start end_ c =
      .ok ((Spec.lastIdx ns.confirm (m.window start (end_ - start))).map (start + ·)) c' :=
  generic_rfind Sensible.avx2 Sensible.lawful_avx2 ns u hu m start end_ c hs he hlen

/-- NEON instance (`uint8x16_t`; 64-bit nibble mask, lane `i` is bit `4i + 3`;
`last_offset = 16 - (leading_zeros >> 2) - 1`, both subtractions checked) of `generic_rfind`: `Neon.lawful` is the proof that
the NEON mask operations satisfy the laws the generic routine relies on. Windows of at least 16
bytes. -/
theorem neon_rfind (ns : Needles) (u : Nat) (hu : 0 < u) (m : Mem) (start end_ : Nat) (c : Ctr)
    (hs : m.base ≤ start) (he : end_ ≤ m.base + m.bytes.size) (hlen : start + 16 ≤ end_) :
    ∃ c', Generic.rfindRaw Neon.impl ns u hu m start end_ c =
      .ok ((Spec.lastIdx ns.confirm (m.window start (end_ - start))).map (start + ·)) c' :=
  generic_rfind Neon.impl Neon.lawful ns u hu m start end_ c hs he hlen

/-- wasm simd128 instance (`v128`, 16 lanes) of `generic_rfind`. Windows of at least 16 bytes. -/
theorem simd128_rfind (ns : Needles) (u : Nat) (hu : 0 < u) (m : Mem) (start end_ : Nat) (c : Ctr)
    (hs : m.base ≤ start) (he : end_ ≤ m.base + m.bytes.size) (hlen : start + 16 ≤ end_) :
    ∃ c', Generic.rfindRaw Sensible.simd128 ns u hu m start end_ c =
      .ok ((Spec.lastIdx ns.confirm (m.window start (end_ - start))).map (start + ·)) c' :=
  generic_rfind Sensible.simd128 Sensible.lawful_simd128 ns u hu m start end_ c hs he hlen

/-- hypotheses of the 16-byte instances are satisfiable: a 40-byte region at an odd base -/
example : ∃ (m : Mem) (start end_ : Nat), m.base ≤ start ∧ end_ ≤ m.base + m.bytes.size ∧ start + 16 ≤ end_ :=
  ⟨⟨0, 1001, Array.replicate 40 0⟩, 1003, 1041, by decide, by simp, by decide⟩

/-! ### SWAR (`src/arch/all/memchr.rs`): every `start` / `end` -/

/-- SWAR `One::rfind_raw` for EVERY pair `start`, `end`: when `start < end` the window must lie
inside the region (any length >= 1, any alignment of `end`, including windows shorter than one
`usize` word); when `start >= end` there is no precondition and the result is `none`. Last
match, `none` iff absent, no fault. -/
theorem swar_one (n1 : UInt8) (m : Mem) (start end_ : Nat) (c : Ctr)
    (hb : start < end_ → m.base ≤ start ∧ end_ ≤ m.base + m.bytes.size) :
    ∃ c', Swar.One.rfindRaw n1 m start end_ c =
      .ok ((Spec.lastIdx (· == n1) (m.window start (end_ - start))).map (start + ·)) c' :=
  Swar.One.rfindRaw_correct_eq n1 m start end_ c hb

/-- SWAR `Two::rfind_raw` / `Three::rfind_raw` (one shared body) for EVERY pair `start`, `end`,
as in `swar_one`. -/
theorem swar_multi (ns : Needles) (m : Mem) (start end_ : Nat) (c : Ctr)
    (hb : start < end_ → m.base ≤ start ∧ end_ ≤ m.base + m.bytes.size) :
    ∃ c', Swar.Multi.rfindRaw ns m start end_ c =
      .ok ((Spec.lastIdx ns.confirm (m.window start (end_ - start))).map (start + ·)) c' :=
  Swar.Multi.rfindRaw_correct ns m start end_ c hb

/-- SWAR `Two::rfind_raw` with the predicate written out (`n1 = n2` allowed). -/
theorem swar_two (n1 n2 : UInt8) (m : Mem) (start end_ : Nat) (c : Ctr)
    (hb : start < end_ → m.base ≤ start ∧ end_ ≤ m.base + m.bytes.size) :
    ∃ c', Swar.Multi.rfindRaw ⟨n1, [n2]⟩ m start end_ c =
      .ok ((Spec.lastIdx (fun b => b == n1 || b == n2)
        (m.window start (end_ - start))).map (start + ·)) c' :=
  Swar.Two.rfindRaw_correct n1 n2 m start end_ c hb

/-- SWAR `Three::rfind_raw` with the predicate written out. -/
theorem swar_three (n1 n2 n3 : UInt8) (m : Mem) (start end_ : Nat) (c : Ctr)
    (hb : start < end_ → m.base ≤ start ∧ end_ ≤ m.base + m.bytes.size) :
    ∃ c', Swar.Multi.rfindRaw ⟨n1, [n2, n3]⟩ m start end_ c =
      .ok ((Spec.lastIdx (fun b => b == n1 || b == n2 || b == n3)
        (m.window start (end_ - start))).map (start + ·)) c' :=
  Swar.Three.rfindRaw_correct n1 n2 n3 m start end_ c hb

/-- the SWAR precondition is satisfiable by a non-trivial input (a 20-byte region at the odd
base address 3, window `[4, 22)`) -/
example : ∃ (m : Mem) (start end_ : Nat), start < end_ ∧
    (start < end_ → m.base ≤ start ∧ end_ ≤ m.base + m.bytes.size) :=
  ⟨⟨0, 3, Array.replicate 20 7⟩, 4, 22, by decide, fun _ => ⟨by decide, by simp⟩⟩

/-! ### raw-pointer form, every backend -/

/-- Raw-pointer form, EVERY backend (SWAR, SSE2, AVX2, NEON, wasm simd128; `rawFind b ns true`
is `<backend>::memchr::{One,Two,Three}::rfind_raw` including the wrapper's short-haystack
routing), for ALL `start`, `end` with `[start, end)` inside the region — including
`start >= end` (value `none`) and windows shorter than a vector: the result is the address of
the last needle byte, `none` iff there is none. -/
theorem raw_every_backend (b : Api.Backend) (ns : Needles) (m : Mem) (start end_ : Nat) (c : Ctr)
    (hs : m.base ≤ start) (he : end_ ≤ m.base + m.bytes.size) :
    ∃ c', Api.rawFind b ns true m start end_ c =
      .ok ((Spec.lastIdx ns.confirm (m.window start (end_ - start))).map (start + ·)) c' :=
  Api.C02_raw b ns m start end_ c hs he

/-- The same read pointwise, with no specification function: for every backend `rfind_raw`
returns normally with some `r` such that
* `r = none` exactly when no address of `[start, end)` holds a needle byte;
* a returned pointer `a` lies inside `[start, end)`, holds a needle byte, and no later address
  of the window does. -/
theorem raw_pointwise (b : Api.Backend) (ns : Needles) (m : Mem) (start end_ : Nat) (c : Ctr)
    (hs : m.base ≤ start) (he : end_ ≤ m.base + m.bytes.size) :
    ∃ r c', Api.rawFind b ns true m start end_ c = .ok r c' ∧
      (r = none ↔ ∀ a, start ≤ a → a < end_ → ns.confirm (m.byteAt a) = false) ∧
      (∀ a, r = some a → start ≤ a ∧ a < end_ ∧ ns.confirm (m.byteAt a) = true ∧
        ∀ a', a < a' → a' < end_ → ns.confirm (m.byteAt a') = false) :=
  Bridge2.rawFind_last_pointwise b ns m start end_ c hs he

/-- For every backend, with NO hypothesis on the pointers, `rfind_raw` returns `none` when
`start >= end`, taking no step and performing no load. -/
theorem raw_none_when_start_ge_end (b : Api.Backend) (ns : Needles) (m : Mem) (start end_ : Nat)
    (c : Ctr) (h : start ≥ end_) : Api.rawFind b ns true m start end_ c = .ok none c :=
  Api.rawFind_reversed b ns true m start end_ c h

/-- hypotheses are satisfiable: a 40-byte region at an odd base address, a 5-byte window -/
example : ∃ (m : Mem) (start end_ : Nat), m.base ≤ start ∧ end_ ≤ m.base + m.bytes.size ∧
    start < end_ :=
  ⟨⟨0, 1001, Array.replicate 40 0⟩, 1003, 1008, by decide, by simp, by decide⟩

/-! ### slice forms -/

/-- Slice form `rfind(haystack)` of every backend's `One`/`Two`/`Three`: the largest index of the
slice holding a needle byte, `none` iff there is none, for every valid slice. -/
theorem slice_every_backend (b : Api.Backend) (ns : Needles) (hay : Slice) (hv : hay.Valid)
    (c : Ctr) :
    ∃ c', Api.sliceFind b ns true hay c = .ok (Spec.lastIdx ns.confirm hay.toList) c' :=
  Bridge2.sliceFind_rev b ns hay hv c

/-- `memrchr` / `memrchr2` / `memrchr3` under EVERY build / CPU configuration: the largest index
of the haystack holding a needle byte, `none` iff there is none. -/
theorem memrchr_last (cfg : Api.Cfg) (ns : Needles) (hay : Slice) (hv : hay.Valid) (c : Ctr) :
    ∃ c', Api.memchr cfg ns true hay c = .ok (Spec.lastIdx ns.confirm hay.toList) c' :=
  Bridge2.memchr_rev cfg ns hay hv c

/-- an index produced by the specification (hence by every routine above) is inside the
haystack -/
theorem index_lt_len (ns : Needles) (hay : Slice) (i : Nat)
    (h : Spec.lastIdx ns.confirm hay.toList = some i) : i < hay.len := by
  simpa using Bridge2.lastIdx_lt h

/-- `memrchr` & co. read pointwise (`hay.getD i` is byte `i` of the slice): the call returns
normally with some `r` such that
* `r = none` exactly when no index of the haystack holds a needle byte;
* a returned index `i` is `< hay.len`, holds a needle byte, and no larger index does. -/
theorem memrchr_pointwise (cfg : Api.Cfg) (ns : Needles) (hay : Slice) (hv : hay.Valid) (c : Ctr) :
    ∃ r c', Api.memchr cfg ns true hay c = .ok r c' ∧
      (r = none ↔ ∀ i, i < hay.len → ns.confirm (hay.getD i) = false) ∧
      (∀ i, r = some i → i < hay.len ∧ ns.confirm (hay.getD i) = true ∧
        ∀ j, i < j → j < hay.len → ns.confirm (hay.getD j) = false) :=
  Bridge2.memchr_rev_pointwise cfg ns hay hv c

/-- a valid, non-trivial slice: bytes 3..13 of a 40-byte region at an odd address -/
example : (⟨⟨0, 1001, Array.replicate 40 0⟩, 3, 10⟩ : Slice).Valid := by
  simp [Slice.Valid]

end Memchr.Props.C02

#print axioms Memchr.Props.C02.spec_some_iff
#print axioms Memchr.Props.C02.spec_none_iff
#print axioms Memchr.Props.C02.generic_rfind
#print axioms Memchr.Props.C02.unroll_pos
#print axioms Memchr.Props.C02.avx2_three
#print axioms Memchr.Props.C02.sse2_rfind
#print axioms Memchr.Props.C02.avx2_rfind
#print axioms Memchr.Props.C02.neon_rfind
#print axioms Memchr.Props.C02.simd128_rfind
#print axioms Memchr.Props.C02.swar_one
#print axioms Memchr.Props.C02.swar_multi
#print axioms Memchr.Props.C02.swar_two
#print axioms Memchr.Props.C02.swar_three
#print axioms Memchr.Props.C02.raw_every_backend
#print axioms Memchr.Props.C02.raw_pointwise
#print axioms Memchr.Props.C02.raw_none_when_start_ge_end
#print axioms Memchr.Props.C02.slice_every_backend
#print axioms Memchr.Props.C02.memrchr_last
#print axioms Memchr.Props.C02.index_lt_len
#print axioms Memchr.Props.C02.memrchr_pointwise
