/-
C18  is_equal, is_prefix and is_suffix coincide with slice comparison.
-/
import MemchrModel.Proofs.IsEqual

namespace Memchr.Props.C18

open Memchr

/-- `is_equal_raw(x, y, n)` on two readable ranges (anywhere in memory, any alignment) returns
whether the ranges hold the same bytes; it never reads outside them and never faults. -/
theorem is_equal_raw (mx my : Mem) (x y n : Nat) (c : Ctr)
    (hx1 : mx.base ≤ x) (hx2 : x + n ≤ mx.base + mx.bytes.size)
    (hy1 : my.base ≤ y) (hy2 : y + n ≤ my.base + my.bytes.size) :
    ∃ c', IsEqual.isEqualRaw mx my x y n c = .ok (decide (mx.window x n = my.window y n)) c' ∧
      c'.steps ≤ c.steps + n / 4 + 2 :=
  IsEqual.isEqualRaw_correct mx my x y n c hx1 hx2 hy1 hy2

/-- `is_equal(x, y)` is true exactly when `x == y` (including the length guard). -/
theorem is_equal (x y : Slice) (c : Ctr) (hx : x.Valid) (hy : y.Valid) :
    ∃ c', IsEqual.isEqual x y c = .ok (decide (x.toList = y.toList)) c' ∧
      c'.steps ≤ c.steps + x.len / 4 + 2 :=
  IsEqual.isEqual_correct x y c hx hy

/-- `is_prefix(h, n)` is true exactly when `h.starts_with(n)`. -/
theorem is_prefix (h n : Slice) (c : Ctr) (hh : h.Valid) (hn : n.Valid) :
    ∃ c', IsEqual.isPrefix h n c = .ok (decide (n.toList <+: h.toList)) c' ∧
      c'.steps ≤ c.steps + n.len / 4 + 2 :=
  IsEqual.isPrefix_correct h n c hh hn

/-- `is_suffix(h, n)` is true exactly when `h.ends_with(n)`. -/
theorem is_suffix (h n : Slice) (c : Ctr) (hh : h.Valid) (hn : n.Valid) :
    ∃ c', IsEqual.isSuffix h n c = .ok (decide (n.toList <:+ h.toList)) c' ∧
      c'.steps ≤ c.steps + n.len / 4 + 2 :=
  IsEqual.isSuffix_correct h n c hh hn

/-- hypotheses are satisfiable: a 7-byte slice at offset 3 of a 12-byte region at an odd base -/
example : (⟨⟨0, 1001, Array.replicate 12 7⟩, 3, 7⟩ : Slice).Valid := by
  simp [Slice.Valid]

end Memchr.Props.C18

#print axioms Memchr.Props.C18.is_equal_raw
#print axioms Memchr.Props.C18.is_equal
#print axioms Memchr.Props.C18.is_prefix
#print axioms Memchr.Props.C18.is_suffix
