/-
C17  Searching performs no heap allocation.

Constructing a `Finder` / `FinderRev` from a borrowed needle and running `find`, `rfind`,
`find_iter`, `rfind_iter`, or any memchr-family function or iterator allocates no heap memory,
for every input; only the explicitly owning conversions (`into_owned`) and the Shift-Or searcher
allocate.

WHAT THESE THEOREMS ARE ABOUT, AND WHAT THEY CANNOT SHOW.  In the model (`Model/Memmem.lean`) the
global allocator is a counter `Heap.allocs`, and the only model functions that receive the heap
are the two places of `src/memmem/mod.rs` / `src/cow.rs` that can reach the allocator:
`CowBytes::into_owned` (`Box::<[u8]>::from`) and the derived `Clone for CowBytes`
(`Box<[u8]>::clone`).  Construction (`Searcher::new`, `FinderBuilder::build_*`) and every search
routine (`Searcher::find`, Two-Way, Rabin-Karp, the packed-pair finders, the prefilters, the
`memchr` family) are modelled as functions that do not take the heap at all, so in the model
they cannot allocate BY CONSTRUCTION.  The theorems below are therefore about the OWNERSHIP
BOOKKEEPING: which handle conversions copy the needle, how often, and that nothing else touches
the counter.  What the model cannot exhibit is an allocation hidden INSIDE a search or
construction routine (a `Vec` in a searcher, a boxed closure, a `format!` on an error path):
that the Rust routines really are allocation-free is what the counting-allocator correspondence
run checks on the real code (allocator calls observed = `refAllocs` of the model), not these
theorems.  The memchr-family functions and iterators (`Model/MemchrApi.lean`) and Shift-Or
(`Model/ShiftOr.lean`) have no heap parameter either; Shift-Or's documented allocation (its mask
table) is not modelled.

Contents

  the exact allocation count of ANY operation sequence          `finder_run_allocs`,
    (the allocation clauses of the `run_ok` theorems)             `finder_rev_run_allocs`,
                                                                  `find_iter_run_allocs`,
                                                                  `rfind_iter_run_allocs`
  what the count `refAllocs` is, in plain words                  `ref_allocs_eqs`
  without `into_owned`, from a borrowed needle: zero              `ref_allocs_borrowed`,
                                                                  `finder_no_alloc`,
                                                                  `find_iter_no_alloc`,
                                                                  `rfind_iter_no_alloc`
  the empty needle never allocates (a zero-length `Box<[u8]>`)   `ref_allocs_empty`

Only statements, one-line proofs from the master lemmas (`Proofs/Memmem.lean`,
`Proofs/SearcherTwoWay.lean`, `Proofs/PropsBridge3.lean`), non-vacuity examples and
`#print axioms`.
-/
import MemchrModel.Proofs.PropsBridge3

namespace Memchr.Props.C17

open Memchr Memchr.Memmem

/-! ### the count -/

/-- **What `refAllocs len own ops` is** (`len` = needle length, `own` = whether the handle's
needle is currently borrowed or owned, `ops` = the operations classified as `as_ref` /
`into_owned` / `clone` / anything else): the sum over the operations of
* `into_owned()` of a BORROWED needle: one allocation (none for the empty needle), after which
  the needle is owned;
* `clone()` of an OWNED needle: one allocation (none for the empty needle), still owned;
* `into_owned()` of an owned needle, `clone()` of a borrowed one, `as_ref()` (after which the
  needle is borrowed), and every other operation (`find`, `rfind`, `next`, `size_hint`,
  `needle`): nothing. -/
theorem ref_allocs_eqs (len : Nat) (o : Ownership) (op : OwnOp) (ops : List OwnOp) :
    refAllocs len o [] = 0 ∧
    refAllocs len o (op :: ops) = op.cost len o + refAllocs len (op.next o) ops ∧
    OwnOp.cost len .borrowed .intoOwned = (if len = 0 then 0 else 1) ∧
    OwnOp.cost len .owned .clone = (if len = 0 then 0 else 1) ∧
    OwnOp.cost len .owned .intoOwned = 0 ∧ OwnOp.cost len .borrowed .clone = 0 ∧
    OwnOp.cost len o .asRef = 0 ∧ OwnOp.cost len o .other = 0 ∧
    OwnOp.next o .asRef = .borrowed ∧ OwnOp.next o .intoOwned = .owned ∧
    OwnOp.next o .clone = o ∧ OwnOp.next o .other = o :=
  ⟨rfl, rfl, rfl, rfl, rfl, rfl, OwnOp.cost_asRef len o, OwnOp.cost_other len o,
   rfl, rfl, rfl, rfl⟩

/-- **Without `into_owned`, nothing that starts from a borrowed needle allocates**: for every
needle length and every operation list not containing `into_owned` the count is 0 (a `clone` of
a borrowed needle copies the reference; `as_ref` keeps it borrowed). -/
theorem ref_allocs_borrowed (len : Nat) (ops : List OwnOp) (h : OwnOp.intoOwned ∉ ops) :
    refAllocs len .borrowed ops = 0 :=
  Memmem.refAllocs_borrowed len ops h

/-- **The empty needle never allocates**, whatever the ownership and the operations: boxing a
zero-length slice does not call the allocator. -/
theorem ref_allocs_empty (o : Ownership) (ops : List OwnOp) : refAllocs 0 o ops = 0 :=
  Memmem.refAllocs_empty o ops

/-! ### exact counts for any operation sequence -/

/-- **`Finder`, exact count.** For every configuration, `FinderBuilder` finder (any prefilter
setting and ranker), valid needle, and EVERY list of operations (`find` on valid haystacks,
`needle`, `as_ref`, `clone`, `into_owned`): construction and the whole run return normally and
the allocator is called exactly `refAllocs needle.len .borrowed ..` times - construction itself
and every `find` contribute nothing. (The first conjunct is C16.) -/
theorem finder_run_allocs (cfg : Api.Cfg) (b : FinderBuilder) (rank : UInt8 → UInt8)
    (needle : Slice) (hn : needle.Valid) (ops : List FinderOp) (hops : ∀ op ∈ ops, op.Ok)
    (h : Heap) (c : Ctr) :
    ∃ f' h' c', (b.buildForwardWithRanker cfg rank needle >>= fun f => Finder.run cfg ops f h) c =
        .ok (refFinder needle.toArray ops, f', h') c' ∧
      h'.allocs = h.allocs + refAllocs needle.len .borrowed (ops.map FinderOp.own) :=
  Memmem.C16.finder_run_all cfg b rank needle hn ops hops h c

/-- **`FinderRev`, exact count**: `FinderRev::new(needle)` and every list of operations
(`find` = `rfind`). -/
theorem finder_rev_run_allocs (cfg : Api.Cfg) (needle : Slice) (hn : needle.Valid)
    (ops : List FinderOp) (hops : ∀ op ∈ ops, op.Ok) (h : Heap) (c : Ctr) :
    ∃ f' h' c', (FinderRev.new needle >>= fun f => FinderRev.run cfg ops f h) c =
        .ok (Bridge3.refFinderRev needle.toArray ops, f', h') c' ∧
      h'.allocs = h.allocs + refAllocs needle.len .borrowed (ops.map FinderOp.own) :=
  Bridge3.finderRev_run_all cfg needle hn ops hops h c

/-- **`find_iter`, exact count**: build a finder, `find_iter(haystack)`, then EVERY list of
`next` / `size_hint` / `clone` / `into_owned`: the allocator is called exactly `refAllocs` times
(`next` and `size_hint` contribute nothing). -/
theorem find_iter_run_allocs (cfg : Api.Cfg) (b : FinderBuilder) (rank : UInt8 → UInt8)
    (needle hay : Slice) (hn : needle.Valid) (hh : hay.Valid) (ops : List IterOp) (h : Heap)
    (c : Ctr) :
    ∃ it' h' c', (b.buildForwardWithRanker cfg rank needle >>= fun f =>
        FindIter.run cfg ops (f.findIter hay) h) c =
        .ok (refFwd hay.toArray needle.toArray ops 0, it', h') c' ∧
      h'.allocs = h.allocs + refAllocs needle.len .borrowed (ops.map IterOp.own) :=
  Bridge3.findIter_run_all cfg b rank needle hay hn hh ops h c

/-- **`rfind_iter`, exact count**: `FinderRev::new(needle).rfind_iter(haystack)`, then every
list of `next` / `size_hint` / `clone` / `into_owned`. -/
theorem rfind_iter_run_allocs (cfg : Api.Cfg) (needle hay : Slice) (hn : needle.Valid)
    (hh : hay.Valid) (ops : List IterOp) (h : Heap) (c : Ctr) :
    ∃ it' h' c', (FinderRev.new needle >>= fun f =>
        FindRevIter.run cfg ops (f.rfindIter hay) h) c =
        .ok (refRev hay.toArray needle.toArray ops (some hay.len), it', h') c' ∧
      h'.allocs = h.allocs + refAllocs needle.len .borrowed (ops.map IterOp.own) :=
  Bridge3.rfindIter_run_all cfg needle hay hn hh ops h c

/-! ### no allocation without `into_owned` -/

/-- **`Finder`: no allocation.** ANY finder for the needle bytes of `n0` whose needle is
borrowed (in particular every freshly built one) and ANY operation list without `into_owned` -
any number of `find` (valid haystacks), `as_ref`, `clone`, `needle`, in any order - leaves the
allocation counter unchanged. -/
theorem finder_no_alloc (cfg : Api.Cfg) (n0 : Slice) (hn0 : n0.Valid) (ops : List FinderOp)
    (hops : ∀ op ∈ ops, op.Ok) (hno : FinderOp.intoOwned ∉ ops) (f : Finder) (hg : f.GoodFor n0)
    (hb : f.needle.own = .borrowed) (h : Heap) (c : Ctr) :
    ∃ outs f' h' c', Finder.run cfg ops f h c = .ok (outs, f', h') c' ∧ h'.allocs = h.allocs :=
  Memmem.C17.finder_no_alloc cfg n0 hn0 ops hops hno f hg hb (fun _ => twoWayFwdOk) h c

/-- **`find_iter`: no allocation**: `k` calls of `next()` on `finder.find_iter(haystack)`,
construction of the finder included, for every `k` (the second conjunct of `C08.find_iter_all`;
for operation lists with `size_hint` and `clone` use `find_iter_run_allocs` and
`iter_ops_borrowed`). -/
theorem find_iter_no_alloc (cfg : Api.Cfg) (b : FinderBuilder) (rank : UInt8 → UInt8)
    (needle hay : Slice) (hn : needle.Valid) (hh : hay.Valid) (k : Nat) (h : Heap) (c : Ctr) :
    ∃ it' h' c', (b.buildForwardWithRanker cfg rank needle >>= fun f =>
        FindIter.run cfg (List.replicate k .next) (f.findIter hay) h) c =
        .ok ((List.range k).map
          (fun i => Out.idx ((Spec.greedyFwd hay.toArray needle.toArray)[i]?)), it', h') c' ∧
      h'.allocs = h.allocs :=
  Memmem.C08.find_iter_all cfg b rank needle hay hn hh k h c

/-- **`rfind_iter`: no allocation**: `k` calls of `next()` on
`FinderRev::new(needle).rfind_iter(haystack)`, for every `k`. -/
theorem rfind_iter_no_alloc (cfg : Api.Cfg) (needle hay : Slice) (hn : needle.Valid)
    (hh : hay.Valid) (k : Nat) (h : Heap) (c : Ctr) :
    ∃ it' h' c', (FinderRev.new needle >>= fun f =>
        FindRevIter.run cfg (List.replicate k .next) (f.rfindIter hay) h) c =
        .ok ((List.range k).map
          (fun i => Out.idx ((Spec.greedyRev hay.toArray needle.toArray)[i]?)), it', h') c' ∧
      h'.allocs = h.allocs :=
  Memmem.C08.rfind_iter_all cfg needle hay hn hh k h c

/-- The count in `find_iter_run_allocs` / `rfind_iter_run_allocs` is 0 for every iterator
operation list without `into_owned`, and the one in `finder_run_allocs` /
`finder_rev_run_allocs` is 0 for every finder operation list without `into_owned`. -/
theorem iter_ops_borrowed (len : Nat) :
    (∀ ops : List IterOp, IterOp.intoOwned ∉ ops →
      refAllocs len .borrowed (ops.map IterOp.own) = 0) ∧
    (∀ ops : List FinderOp, FinderOp.intoOwned ∉ ops →
      refAllocs len .borrowed (ops.map FinderOp.own) = 0) :=
  ⟨Bridge3.refAllocs_iter_borrowed len, Bridge3.refAllocs_finder_borrowed len⟩

/-! ### the hypotheses are satisfiable; the count is not always zero -/

/-- a valid needle and haystack, an operation list without `into_owned` all of whose `find`
haystacks are valid -/
example : (⟨⟨1, 1048577, #[0, 97, 98, 0]⟩, 1, 2⟩ : Slice).Valid ∧
    (⟨⟨0, 4099, #[120, 97, 98, 97, 98, 120]⟩, 1, 4⟩ : Slice).Valid ∧
    FinderOp.Ok (.find ⟨⟨0, 4099, #[120, 97, 98, 97, 98, 120]⟩, 1, 4⟩) ∧
    FinderOp.intoOwned ∉ [FinderOp.find ⟨⟨0, 4099, #[120, 97, 98, 97, 98, 120]⟩, 1, 4⟩,
      .asRef, .clone, .needle] := by
  refine ⟨by simp [Slice.Valid], by simp [Slice.Valid], by simp [FinderOp.Ok, Slice.Valid],
    by simp⟩

/-- a good finder with a borrowed needle exists (hypotheses of `finder_no_alloc`) -/
example : Finder.GoodFor (Slice.ofMem ⟨1, 64, #[]⟩)
      { needle := CowBytes.new (Slice.ofMem ⟨1, 64, #[]⟩),
        searcher := { kind := .empty, rabinkarp := RabinKarp.Finder.spec [] } } ∧
    (CowBytes.new (Slice.ofMem ⟨1, 64, #[]⟩)).own = .borrowed :=
  ⟨⟨⟨by simp [Slice.Valid, Slice.ofMem, CowBytes.new], rfl⟩, rfl, rfl⟩, rfl⟩

/-- the exact count on an instance: for a 3-byte needle, `into_owned` of the borrowed needle,
a search, `clone` (of the now owned needle), `as_ref`, `clone` (of the borrowed view) allocate
exactly twice; the same operations on the empty needle allocate nothing -/
example : refAllocs 3 .borrowed [.intoOwned, .other, .clone, .asRef, .clone] = 2 ∧
    refAllocs 0 .borrowed [.intoOwned, .other, .clone, .asRef, .clone] = 0 := by
  decide

end Memchr.Props.C17

#print axioms Memchr.Props.C17.ref_allocs_eqs
#print axioms Memchr.Props.C17.ref_allocs_borrowed
#print axioms Memchr.Props.C17.ref_allocs_empty
#print axioms Memchr.Props.C17.finder_run_allocs
#print axioms Memchr.Props.C17.finder_rev_run_allocs
#print axioms Memchr.Props.C17.find_iter_run_allocs
#print axioms Memchr.Props.C17.rfind_iter_run_allocs
#print axioms Memchr.Props.C17.finder_no_alloc
#print axioms Memchr.Props.C17.find_iter_no_alloc
#print axioms Memchr.Props.C17.rfind_iter_no_alloc
#print axioms Memchr.Props.C17.iter_ops_borrowed
