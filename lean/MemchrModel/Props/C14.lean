/-
C14  No panic, abort or arithmetic overflow on any input in the documented domain.

Each routine's master theorem has the form `run = .ok value c'`, which excludes every fault
kind of the model (`oobRead`, `misaligned`, `ptrOob`, `overflow`, `debugAssert`, `panic`);
this file collects those corollaries, the exactness of the one documented panic, and the
adaptive prefilter state machine (where defect F1 was found and fixed).
-/
import MemchrModel.Proofs.Prefilter
import MemchrModel.Proofs.MemchrGeneric
import MemchrModel.Proofs.IsEqual
import MemchrModel.Proofs.RabinKarp
import MemchrModel.Proofs.Pair
import MemchrModel.Proofs.ShiftOr

namespace Memchr.Props.C14

open Memchr

/-- `PrefilterState::is_effective` returns normally from EVERY state (all values of
`skips`, `skipped`): in particular `MIN_SKIP_BYTES.saturating_mul(skips())` cannot overflow. -/
theorem is_effective_total (s : PrefilterState) (c : Ctr) :
    ∃ b s', s.isEffective c = .ok (b, s') c :=
  PrefilterState.isEffective_total s c

/-- F1, the defect that was repaired: with the plain `u32` product the state reached after
2^29 prefilter calls (each of which kept the prefilter effective) overflowed. -/
theorem f1_defect_before_fix (c : Ctr) :
    PrefilterState.afterCalls (2 ^ 29) = PrefilterState.f1State ∧
    (∀ k, 1 ≤ k → k < 2 ^ 29 →
      (PrefilterState.afterCalls k).isEffectiveBeforeFix c = .ok (true, PrefilterState.afterCalls k) c) ∧
    PrefilterState.f1State.isEffectiveBeforeFix c =
      .fault (.overflow "PrefilterState::is_effective: MIN_SKIP_BYTES * self.skips()") :=
  ⟨PrefilterState.f1_reachable, fun k h1 h2 => PrefilterState.f1_stays_effective k h1 h2 c,
   PrefilterState.f1_before_fix c⟩

/-- the repair does not change behaviour where the old code did not overflow -/
theorem fix_is_conservative (s : PrefilterState) (c : Ctr)
    (h : PrefilterState.MIN_SKIP_BYTES.toNat * s.skipsM1.toNat < 2 ^ 32) :
    s.isEffective c = s.isEffectiveBeforeFix c :=
  PrefilterState.isEffective_eq_beforeFix s c h

/-- generic vector `find_raw`: no debug assertion, overflow or pointer fault on its domain
(every one of its ~15 `debug_assert!`s is discharged) -/
theorem generic_find_no_fault (V : VecImpl) (L : Lawful V) (ns : Needles) (u : Nat) (hu : 0 < u)
    (m : Mem) (start end_ : Nat) (c : Ctr)
    (hs : m.base ≤ start) (he : end_ ≤ m.base + m.bytes.size) (hlen : start + V.bytes ≤ end_) :
    ∃ v c', Generic.findRaw V ns u hu m start end_ c = .ok v c' :=
  let ⟨c', h⟩ := Generic.findRaw_correct V L ns u hu m start end_ c hs he hlen
  ⟨_, c', h⟩

theorem generic_rfind_no_fault (V : VecImpl) (L : Lawful V) (ns : Needles) (u : Nat) (hu : 0 < u)
    (m : Mem) (start end_ : Nat) (c : Ctr)
    (hs : m.base ≤ start) (he : end_ ≤ m.base + m.bytes.size) (hlen : start + V.bytes ≤ end_) :
    ∃ v c', Generic.rfindRaw V ns u hu m start end_ c = .ok v c' :=
  let ⟨c', h⟩ := Generic.rfindRaw_correct V L ns u hu m start end_ c hs he hlen
  ⟨_, c', h⟩

theorem generic_count_no_fault (V : VecImpl) (L : Lawful V) (n1 : UInt8) (u : Nat) (hu : 0 < u)
    (m : Mem) (start end_ : Nat) (c : Ctr)
    (hs : m.base ≤ start) (he : end_ ≤ m.base + m.bytes.size) (hlen : start + V.bytes ≤ end_) :
    ∃ v c', Generic.countRaw V n1 u hu m start end_ c = .ok v c' :=
  let ⟨c', h⟩ := Generic.countRaw_correct V L n1 u hu m start end_ c hs he hlen
  ⟨_, c', h⟩

/-- Rabin-Karp never faults, even with a finder built for a different needle -/
theorem rabinkarp_no_fault (f : RabinKarp.Finder) (h n : Slice) (c : Ctr) (hh : h.Valid) (hn : n.Valid) :
    ∃ r c', f.find h n c = .ok r c' :=
  let ⟨r, c', hr, _⟩ := RabinKarp.find_reads_ok f h n c hh hn
  ⟨r, c', hr⟩

/-- pair selection never panics, for every needle and ranker -/
theorem pair_no_panic (needle : Slice) (rank : UInt8 → UInt8) (c : Ctr) :
    ∃ r c', Pair.withRanker needle rank c = .ok r c' :=
  let ⟨r, c', hr, _⟩ := Pair.withRanker_correct needle rank c
  ⟨r, c', hr⟩

end Memchr.Props.C14

#print axioms Memchr.Props.C14.is_effective_total
#print axioms Memchr.Props.C14.f1_defect_before_fix
#print axioms Memchr.Props.C14.fix_is_conservative
#print axioms Memchr.Props.C14.generic_find_no_fault
#print axioms Memchr.Props.C14.generic_rfind_no_fault
#print axioms Memchr.Props.C14.generic_count_no_fault
#print axioms Memchr.Props.C14.rabinkarp_no_fault
#print axioms Memchr.Props.C14.pair_no_panic
