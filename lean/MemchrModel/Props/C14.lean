/-
C14  No panic, abort or arithmetic overflow on any input in the documented domain.

Each routine's master theorem has the form `run = .ok value c'`, which excludes every fault
kind of the model (`oobRead`, `misaligned`, `ptrOob`, `overflow`, `debugAssert`, `panic`);
this file collects those corollaries, the exactness of the one documented panic, and the
adaptive prefilter state machine (where defect F1 was found and fixed).

The documented panic (`packedpair_find_panics_iff`, `packedpair_prefilter_panics_iff` and the
instances `DocumentedPanicExact`): a packed-pair finder panics exactly when the haystack is
shorter than `min_haystack_len`, at its `assert!`, and nowhere else.

The last sections cover Two-Way (forward with any sound - or merely total - prefilter in any
prefilter state, reverse; all the `i - critical_pos + 1`, `pos - nlen + i - 1` index arithmetic
and slice indexing), and the substring API built on it: the meta searcher, `memmem::find` /
`rfind`, `Finder` / `FinderRev` under any operation sequence, and both iterators under any
operation sequence.  The top-level byte-search functions and iterators are in C01, C02, C06, C07
(each `= .ok ..` conclusion there is a no-fault statement).
-/
import MemchrModel.Proofs.Prefilter
import MemchrModel.Proofs.MemchrGeneric
import MemchrModel.Proofs.IsEqual
import MemchrModel.Proofs.RabinKarp
import MemchrModel.Proofs.Pair
import MemchrModel.Proofs.ShiftOr
import MemchrModel.Proofs.Sensible
import MemchrModel.Proofs.Neon
import MemchrModel.Proofs.Swar
import MemchrModel.Proofs.PairFallback
import MemchrModel.Proofs.PackedPair
import MemchrModel.Proofs.PropsBridge3

namespace Memchr.Props.C14

open Memchr

/-- `PrefilterState::is_effective` returns normally from EVERY state (all values of
`skips`, `skipped`): in particular `MIN_SKIP_BYTES.saturating_mul(skips())` cannot overflow. -/
theorem is_effective_total (s : PrefilterState) (c : Ctr) :
    ∃ b s', s.isEffective c = .ok (b, s') c :=
  PrefilterState.isEffective_total s c

/-- F1, the defect that was repaired: with the plain `u32` product the state reached after
2^29 prefilter calls (each of which kept the prefilter effective) overflowed. -/
theorem f1_defect_before_fix (c : Ctr) :
    PrefilterState.afterCalls (2 ^ 29) = PrefilterState.f1State ∧
    (∀ k, 1 ≤ k → k < 2 ^ 29 →
      (PrefilterState.afterCalls k).isEffectiveBeforeFix c = .ok (true, PrefilterState.afterCalls k) c) ∧
    PrefilterState.f1State.isEffectiveBeforeFix c =
      .fault (.overflow "PrefilterState::is_effective: MIN_SKIP_BYTES * self.skips()") :=
  ⟨PrefilterState.f1_reachable, fun k h1 h2 => PrefilterState.f1_stays_effective k h1 h2 c,
   PrefilterState.f1_before_fix c⟩

/-- the repair does not change behaviour where the old code did not overflow -/
theorem fix_is_conservative (s : PrefilterState) (c : Ctr)
    (h : PrefilterState.MIN_SKIP_BYTES.toNat * s.skipsM1.toNat < 2 ^ 32) :
    s.isEffective c = s.isEffectiveBeforeFix c :=
  PrefilterState.isEffective_eq_beforeFix s c h

/-- generic vector `find_raw`: no debug assertion, overflow or pointer fault on its domain
(every one of its ~15 `debug_assert!`s is discharged) -/
theorem generic_find_no_fault (V : VecImpl) (L : Lawful V) (ns : Needles) (u : Nat) (hu : 0 < u)
    (m : Mem) (start end_ : Nat) (c : Ctr)
    (hs : m.base ≤ start) (he : end_ ≤ m.base + m.bytes.size) (hlen : start + V.bytes ≤ end_) :
    ∃ v c', Generic.findRaw V ns u hu m start end_ c = .ok v c' :=
  let ⟨c', h⟩ := Generic.findRaw_correct V L ns u hu m start end_ c hs he hlen
  ⟨_, c', h⟩

/-- generic vector `rfind_raw`: the same, for every lawful `V`, needle set, unroll factor, region
and window of at least `V::BYTES` bytes -/
theorem generic_rfind_no_fault (V : VecImpl) (L : Lawful V) (ns : Needles) (u : Nat) (hu : 0 < u)
    (m : Mem) (start end_ : Nat) (c : Ctr)
    (hs : m.base ≤ start) (he : end_ ≤ m.base + m.bytes.size) (hlen : start + V.bytes ≤ end_) :
    ∃ v c', Generic.rfindRaw V ns u hu m start end_ c = .ok v c' :=
  let ⟨c', h⟩ := Generic.rfindRaw_correct V L ns u hu m start end_ c hs he hlen
  ⟨_, c', h⟩

/-- generic vector `count_raw`: the same, for every lawful `V`, needle byte, unroll factor,
region and window of at least `V::BYTES` bytes -/
theorem generic_count_no_fault (V : VecImpl) (L : Lawful V) (n1 : UInt8) (u : Nat) (hu : 0 < u)
    (m : Mem) (start end_ : Nat) (c : Ctr)
    (hs : m.base ≤ start) (he : end_ ≤ m.base + m.bytes.size) (hlen : start + V.bytes ≤ end_) :
    ∃ v c', Generic.countRaw V n1 u hu m start end_ c = .ok v c' :=
  let ⟨c', h⟩ := Generic.countRaw_correct V L n1 u hu m start end_ c hs he hlen
  ⟨_, c', h⟩

/-- Rabin-Karp never faults, even with a finder built for a different needle -/
theorem rabinkarp_no_fault (f : RabinKarp.Finder) (h n : Slice) (c : Ctr) (hh : h.Valid) (hn : n.Valid) :
    ∃ r c', f.find h n c = .ok r c' :=
  let ⟨r, c', hr, _⟩ := RabinKarp.find_reads_ok f h n c hh hn
  ⟨r, c', hr⟩

/-- pair selection never panics, for every needle and ranker -/
theorem pair_no_panic (needle : Slice) (rank : UInt8 → UInt8) (c : Ctr) :
    ∃ r c', Pair.withRanker needle rank c = .ok r c' :=
  let ⟨r, c', hr, _⟩ := Pair.withRanker_correct needle rank c
  ⟨r, c', hr⟩

/-- Rabin-Karp reverse never faults either, for an arbitrary `FinderRev`, every valid haystack
and needle. -/
theorem rabinkarp_rfind_no_fault (f : RabinKarp.FinderRev) (h n : Slice) (c : Ctr) (hh : h.Valid)
    (hn : n.Valid) :
    ∃ r c', f.rfind h n c = .ok r c' :=
  let ⟨r, c', hr, _⟩ := RabinKarp.rfind_reads_ok f h n c hh hn
  ⟨r, c', hr⟩

/-! ### the documented panic of the packed-pair finders -/

/-- THE DOCUMENTED PANIC IS EXACT (`find`). For every lawful vector type `V`, EVERY finder value
with distinct indices whose `min_haystack_len` covers both vector loads (`FinderOk`, which every
finder built by `Finder::new` from distinct in-range indices satisfies), every valid haystack,
every valid search needle (the construction needle or any other) and every counter state:
`find` ends in the panic of its `assert!(haystack.len() >= self.min_haystack_len)` if and only
if the haystack is shorter than `min_haystack_len` - neither missing nor spurious. -/
theorem packedpair_find_panics_iff (V : VecImpl) (L : Lawful V) (f : PackedPair.Finder)
    (hok : PackedPair.FinderOk V f) (hay needle : Slice) (hh : hay.Valid) (hn : needle.Valid)
    (c : Ctr) :
    PackedPair.find V f hay needle c = .fault (.panic "packedpair::find: haystack too small") ↔
      hay.len < f.minHaystackLen :=
  PackedPair.find_panics_iff L f hok hay needle hh hn c

/-- THE DOCUMENTED PANIC IS EXACT (`find_prefilter`). Same quantification (no needle): the panic
of the `assert!` happens iff `haystack.len() < min_haystack_len`, and on every haystack of at
least `min_haystack_len` bytes the call returns normally (no fault of any kind). -/
theorem packedpair_prefilter_panics_iff (V : VecImpl) (L : Lawful V) (f : PackedPair.Finder)
    (hok : PackedPair.FinderOk V f) (hay : Slice) (hh : hay.Valid) (c : Ctr) :
    (PackedPair.findPrefilter V f hay c =
        .fault (.panic "packedpair::find_prefilter: haystack too small") ↔
      hay.len < f.minHaystackLen) ∧
    (f.minHaystackLen ≤ hay.len → ∃ r c', PackedPair.findPrefilter V f hay c = .ok r c') :=
  PackedPair.findPrefilter_panics_iff L f hok hay hh c

/-- `find` with the construction needle, both sides of `min_haystack_len`, for every lawful `V`,
valid haystack and needle and finder built by `Finder::new(needle, Pair{i1, i2})` with distinct
in-range offsets: either the haystack is too short and the call panics at the `assert!`, or it
is long enough and the call returns normally. Nothing else can happen. -/
theorem packedpair_find_panics_or_ok (V : VecImpl) (L : Lawful V) (hay needle : Slice)
    (hh : hay.Valid) (hn : needle.Valid) (i1 i2 : Nat) (hne : i1 ≠ i2) (h1 : i1 < needle.len)
    (h2 : i2 < needle.len) (f : PackedPair.Finder) (c0 c0' : Ctr)
    (hf : PackedPair.Finder.new V needle i1 i2 c0 = .ok f c0') (c : Ctr) :
    (hay.len < f.minHaystackLen ∧
      PackedPair.find V f hay needle c =
        .fault (.panic "packedpair::find: haystack too small")) ∨
    (f.minHaystackLen ≤ hay.len ∧ ∃ r c', PackedPair.find V f hay needle c = .ok r c') :=
  PackedPair.find_panics_or_ok L hay needle hh hn i1 i2 hne h1 h2 f c0 c0' hf c

/-- `find` with a FOREIGN search needle that is not longer than the haystack, on a haystack of
at least `min_haystack_len` bytes (every lawful `V`, every `FinderOk` finder): returns normally
- no debug assertion (the `overlap < V::BYTES` assertion that defect O3 reached is
unreachable since the fix), no overflow, no pointer fault - with the lowest scanned offset where
the pair matches and the search needle occurs, within the cost bound. (For a search needle
LONGER than the haystack see C05 `packedpair_find_ptrOob_iff`, observation O2.) -/
theorem packedpair_find_foreign_no_fault (V : VecImpl) (L : Lawful V) (f : PackedPair.Finder)
    (hok : PackedPair.FinderOk V f) (hay needle : Slice) (hh : hay.Valid) (hn : needle.Valid)
    (hlen : f.minHaystackLen ≤ hay.len) (hnl : needle.len ≤ hay.len) (c : Ctr) :
    ∃ r c', PackedPair.find V f hay needle c = .ok r c' ∧ PackedPair.FindRes' V f hay needle r ∧
      c'.steps ≤ c.steps + PackedPair.findCost V f hay needle :=
  PackedPair.find_foreign_no_fault L f hok hay needle hh hn hlen hnl c

/-- The exactness of the documented panic for one concrete vector type `V`: for every `FinderOk`
finder, valid haystack, valid search needle and counter, `find` panics at its `assert!` iff the
haystack is shorter than `min_haystack_len`, `find_prefilter` panics at its `assert!` iff the
haystack is shorter than `min_haystack_len`, and otherwise `find_prefilter` returns normally. -/
def DocumentedPanicExact (V : VecImpl) : Prop :=
  ∀ (f : PackedPair.Finder) (hay needle : Slice) (c : Ctr), PackedPair.FinderOk V f →
    hay.Valid → needle.Valid →
    (PackedPair.find V f hay needle c = .fault (.panic "packedpair::find: haystack too small") ↔
      hay.len < f.minHaystackLen) ∧
    (PackedPair.findPrefilter V f hay c =
        .fault (.panic "packedpair::find_prefilter: haystack too small") ↔
      hay.len < f.minHaystackLen) ∧
    (f.minHaystackLen ≤ hay.len → ∃ r c', PackedPair.findPrefilter V f hay c = .ok r c')

/-- `DocumentedPanicExact` holds for every lawful vector type. -/
theorem packedpair_documented_panic_exact (V : VecImpl) (L : Lawful V) : DocumentedPanicExact V :=
  fun f hay needle c hok hh hn =>
    ⟨packedpair_find_panics_iff V L f hok hay needle hh hn c,
     packedpair_prefilter_panics_iff V L f hok hay hh c⟩

/-- SSE2 packed-pair finder: the documented panic is exact. -/
theorem packedpair_documented_panic_exact_sse2 : DocumentedPanicExact Sensible.sse2 :=
  packedpair_documented_panic_exact Sensible.sse2 Sensible.lawful_sse2

/-- AVX2 packed-pair finder: the documented panic is exact. -/
theorem packedpair_documented_panic_exact_avx2 : DocumentedPanicExact Sensible.avx2 :=
  packedpair_documented_panic_exact Sensible.avx2 Sensible.lawful_avx2

/-- NEON packed-pair finder: the documented panic is exact. -/
theorem packedpair_documented_panic_exact_neon : DocumentedPanicExact Neon.impl :=
  packedpair_documented_panic_exact Neon.impl Neon.lawful

/-- simd128 packed-pair finder: the documented panic is exact. -/
theorem packedpair_documented_panic_exact_simd128 : DocumentedPanicExact Sensible.simd128 :=
  packedpair_documented_panic_exact Sensible.simd128 Sensible.lawful_simd128

/-- hypotheses are satisfiable on BOTH sides of `min_haystack_len` (4-lane checked vector type,
finder for "abcdefgh" with the pair `(0, 1)`, `min_haystack_len = 8`): the 40-byte haystack is
long enough, the 1-byte slice "z" used as a haystack is too short; "z" is also a foreign search
needle not longer than the haystack -/
example : PackedPair.FinderOk Sensible.small4 (PackedPair.mkFinder Sensible.small4 PackedPair.exNeedle 0 1) ∧
    PackedPair.exHay.Valid ∧ PackedPair.exForeign.Valid ∧
    (PackedPair.mkFinder Sensible.small4 PackedPair.exNeedle 0 1).minHaystackLen ≤ PackedPair.exHay.len ∧
    PackedPair.exForeign.len < (PackedPair.mkFinder Sensible.small4 PackedPair.exNeedle 0 1).minHaystackLen ∧
    PackedPair.exForeign.len ≤ PackedPair.exHay.len :=
  ⟨PackedPair.mkFinder_ok _ 0 1 (by decide), by unfold Slice.Valid; decide,
   by unfold Slice.Valid; decide, by decide, by decide, by decide⟩

/-! ### SWAR, Shift-Or, portable prefilter -/

/-- Portable SWAR `One::{find_raw, rfind_raw, count_raw}` and `Two`/`Three::{find_raw,
rfind_raw}` (`ns = ⟨s1, [s2]⟩` resp. `⟨s1, [s2, s3]⟩`; any number of needle bytes) for EVERY
needle, region and pair `start`, `end` (the window must lie in the region only when it is
non-empty): none of the `debug_assert!`s on pointer order and residual length fires, no `usize`
subtraction overflows, no pointer leaves the allocation. -/
theorem swar_no_fault (n1 : UInt8) (ns : Needles) (m : Mem) (start end_ : Nat) (c : Ctr)
    (hb : start < end_ → m.base ≤ start ∧ end_ ≤ m.base + m.bytes.size) :
    (∃ v c', Swar.One.findRaw n1 m start end_ c = .ok v c') ∧
    (∃ v c', Swar.One.rfindRaw n1 m start end_ c = .ok v c') ∧
    (∃ v c', Swar.One.countRaw n1 m start end_ c = .ok v c') ∧
    (∃ v c', Swar.Multi.findRaw ns m start end_ c = .ok v c') ∧
    (∃ v c', Swar.Multi.rfindRaw ns m start end_ c = .ok v c') :=
  ⟨let ⟨c', h⟩ := Swar.One.findRaw_correct n1 m start end_ c hb; ⟨_, c', h⟩,
   let ⟨c', h⟩ := Swar.One.rfindRaw_correct n1 m start end_ c hb; ⟨_, c', h⟩,
   let ⟨c', h⟩ := Swar.One.countRaw_correct n1 m start end_ c hb; ⟨_, c', h⟩,
   let ⟨c', h⟩ := Swar.Multi.findRaw_correct ns m start end_ c hb; ⟨_, c', h⟩,
   let ⟨c', h⟩ := Swar.Multi.rfindRaw_correct ns m start end_ c hb; ⟨_, c', h⟩⟩

/-- hypothesis of `swar_no_fault` is satisfiable with a non-empty unaligned window -/
example : ∃ (m : Mem) (start end_ : Nat), start < end_ ∧
    (start < end_ → m.base ≤ start ∧ end_ ≤ m.base + m.bytes.size) :=
  ⟨⟨0, 3, Array.replicate 20 7⟩, 4, 22, by decide, fun _ => ⟨by decide, by simp⟩⟩

/-- Shift-Or `Finder::new` for EVERY needle slice (any length): returns normally (for a needle
of more than 15 bytes with `None`; otherwise `1 << i` is never shifted by 16 or more). -/
theorem shiftor_new_no_fault (needle : Slice) (c : Ctr) :
    ∃ r, ShiftOr.Finder.new needle c = .ok r c ∧ (r = none ↔ needle.len > 15) :=
  let ⟨r, h, hnone, _⟩ := ShiftOr.Finder.new_correct needle c
  ⟨r, h, hnone⟩

/-- Shift-Or `find` for every valid needle of at most 15 bytes and every valid haystack: the
finder is built and `find` returns normally (`1 << needle_len` does not overflow the `u16`
mask, `i + 1 - needle_len` does not underflow). -/
theorem shiftor_find_no_fault (needle hay : Slice) (hvn : needle.Valid) (hvh : hay.Valid)
    (hlen : needle.len ≤ 15) (c : Ctr) :
    ∃ f r c', ShiftOr.Finder.new needle c = .ok (some f) c ∧ f.find hay c = .ok r c' :=
  let ⟨f, h1, h2⟩ := ShiftOr.shiftOr_correct needle hay hvn hvh hlen c
  ⟨f, _, c, h1, h2⟩

/-- Portable packed-pair `find_prefilter` for every `memchr` that is correct (`MemchrOk`,
explicit hypothesis), EVERY finder value and every valid haystack of ANY length (there is no
minimum): returns normally - `&haystack[i..]` never panics, `i.checked_sub(index1)` and
`checked_add(index2)` are handled. -/
theorem fallback_prefilter_no_fault {memchr : UInt8 → Slice → M (Option Nat)} {K : Nat}
    (hm : Fallback.MemchrOk memchr K) (f : Fallback.Finder) (hay : Slice) (hv : hay.Valid)
    (c : Ctr) :
    ∃ r c', Fallback.findPrefilter memchr f hay c = .ok r c' :=
  let ⟨r, c', h, _⟩ := Fallback.findPrefilter_correct hm f hay hv c
  ⟨r, c', h⟩

/-- Portable `packedpair::Finder::new` for EVERY needle slice: returns normally (the `u8`
conversions and `needle[index]` cannot panic), `None` iff the needle has fewer than 2 bytes. -/
theorem fallback_new_no_fault (needle : Slice) (c : Ctr) :
    ∃ r c', Fallback.Finder.new needle c = .ok r c' ∧ (r = none ↔ needle.len < 2) :=
  let ⟨r, c', h, hnone, _⟩ := Fallback.Finder.new_correct needle c
  ⟨r, c', h, hnone⟩

/-- hypotheses of the Shift-Or and portable prefilter theorems are satisfiable -/
example : (Slice.ofMem ⟨1, 64, #[97, 98, 97]⟩).Valid ∧
    (Slice.ofMem ⟨0, 4096, #[120, 97, 98, 97, 98, 97]⟩).Valid ∧
    (Slice.ofMem ⟨1, 64, #[97, 98, 97]⟩).len ≤ 15 ∧ Fallback.MemchrOk Fallback.specMemchr 0 :=
  ⟨Nat.le_of_eq (Nat.zero_add _), Nat.le_of_eq (Nat.zero_add _), by decide, Fallback.specMemchr_ok⟩

/-! ### Two-Way (`src/arch/all/twoway.rs`) -/

/-- **Two-Way forward never faults, with any sound prefilter, in any prefilter state.**
`twoway::Finder::new(needle)` then `find_with_prefilter(pre, haystack, needle)` for every valid
needle and haystack, every optional prefilter `pre` with strategy `strat` (`PreOK`) that is
sound for the needle on the haystack (`TwoWay.PreSound`; hypothesis only when `pre` is `Some`)
and EVERY `PrefilterState` inside `pre`: returns normally - no `usize` subtraction underflows,
no slice index is out of range, the `u32` arithmetic of the adaptive state does not overflow
(F1) - with some result `r` and the updated prefilter. (`Props/C03`: `r` is the leftmost
occurrence.) -/
theorem twoway_find_no_fault (needle haystack : Slice) (pre : Option Pre) (c : Ctr)
    (strat : Slice → M (Option Nat)) (hnv : needle.Valid) (hhv : haystack.Valid)
    (hpre : TwoWay.PreOK strat pre)
    (hsound : pre ≠ none → TwoWay.PreSound needle haystack strat) :
    ∃ r pre' c', (TwoWay.Finder.new needle >>= fun tw =>
        TwoWay.Finder.findWithPrefilter tw pre haystack needle) c = .ok (r, pre') c' :=
  let ⟨pre', c', h, _⟩ := TwoWay.find_correct needle haystack pre c strat hnv hhv hpre hsound
  ⟨_, pre', c', h⟩

/-- **Two-Way forward never faults even with an UNSOUND prefilter**: the same call with ANY
optional prefilter whose strategy merely returns normally on the tails of the haystack (it may
skip matches or report nonsense candidates): the run returns normally, and a reported `Some(q)`
is a real occurrence of the needle. -/
theorem twoway_find_no_fault_any_prefilter (needle haystack : Slice) (pre : Option Pre) (c : Ctr)
    (strat : Slice → M (Option Nat)) (hnv : needle.Valid) (hhv : haystack.Valid)
    (hpre : TwoWay.PreOK strat pre)
    (htotal : pre ≠ none → ∀ a, a ≤ haystack.len → ∀ c, ∃ r c',
      strat (TwoWay.tailFrom haystack a) c = .ok r c') :
    ∃ r pre' c', (TwoWay.Finder.new needle >>= fun tw =>
        TwoWay.Finder.findWithPrefilter tw pre haystack needle) c = .ok (r, pre') c' ∧
      ∀ q, r = some q → Spec.OccAt haystack.toArray needle.toArray q :=
  Bridge3.twoway_find_any_prefilter needle haystack pre c strat hnv hhv hpre htotal

/-- **Two-Way reverse never faults**: `twoway::FinderRev::new(needle).rfind(haystack, needle)`
for every valid needle and haystack returns normally. -/
theorem twoway_rfind_no_fault (needle haystack : Slice) (c : Ctr) (hnv : needle.Valid)
    (hhv : haystack.Valid) :
    ∃ r c', (TwoWay.FinderRev.new needle >>= fun tw =>
        TwoWay.FinderRev.rfind tw haystack needle) c = .ok r c' :=
  let ⟨c', h, _⟩ := TwoWay.rfind_correct needle haystack c hnv hhv
  ⟨_, c', h⟩

/-- hypotheses are satisfiable: valid needle and haystack; no prefilter; the always-`Some(0)`
strategy is sound and total for every needle and haystack -/
example :
    let needle := Slice.ofMem ⟨1, 4096, "abaab".toUTF8.data⟩
    let haystack := Slice.ofMem ⟨0, 8192, "abaaabaabab".toUTF8.data⟩
    needle.Valid ∧ haystack.Valid ∧ TwoWay.PreOK (fun _ => pure none) none ∧
    TwoWay.PreSound needle haystack (fun _ => pure (some 0)) ∧
    (∀ a, a ≤ haystack.len → ∀ c : Ctr, ∃ r c',
      (fun _ => pure (some 0) : Slice → M (Option Nat)) (TwoWay.tailFrom haystack a) c =
        .ok r c') :=
  ⟨by unfold Slice.Valid; decide, by unfold Slice.Valid; decide, (fun p hp => by cases hp),
   (fun a _ c => ⟨some 0, c, rfl, nofun, fun cnd h q _ => by cases h; exact Nat.zero_le _⟩),
   (fun a _ c => ⟨some 0, c, rfl⟩)⟩

/-! ### the substring API (`src/memmem/searcher.rs`, `src/memmem/mod.rs`) -/

/-- **The meta searcher never faults**: for every configuration, prefilter setting, ranker,
valid needle and haystack and EVERY prefilter state, `Searcher::new` returns normally (no
`debug_assert`, no index panic in the pair / prefilter construction) and `Searcher::find`
returns normally, whichever strategy was chosen. -/
theorem searcher_find_no_fault (cfg : Api.Cfg) (pf : Memmem.PrefilterConfig)
    (rank : UInt8 → UInt8) (needle hay : Slice) (hn : needle.Valid) (hh : hay.Valid)
    (st : PrefilterState) (c : Ctr) :
    ∃ s c1, Memmem.Searcher.new cfg pf rank needle c = .ok s c1 ∧ ∀ c2, ∃ r st' c3,
      s.find cfg st hay needle c2 = .ok (r, st') c3 :=
  let ⟨s, c1, h, hf⟩ := Memmem.C03.find_all cfg pf rank needle hay hn hh st c
  ⟨s, c1, h, fun c2 => let ⟨st', c3, e⟩ := hf c2; ⟨_, st', c3, e⟩⟩

/-- **The reverse meta searcher never faults**: `SearcherRev::new(needle)` and
`rfind(haystack, needle)` return normally for every configuration, valid needle and haystack. -/
theorem searcher_rfind_no_fault (cfg : Api.Cfg) (needle hay : Slice) (hn : needle.Valid)
    (hh : hay.Valid) (c : Ctr) :
    ∃ s c1, Memmem.SearcherRev.new needle c = .ok s c1 ∧ ∀ c2, ∃ r c3,
      s.rfind cfg hay needle c2 = .ok r c3 :=
  let ⟨s, c1, h, hf⟩ := Memmem.C04.rfind_all cfg needle hay hn hh c
  ⟨s, c1, h, fun c2 => let ⟨c3, e⟩ := hf c2; ⟨_, c3, e⟩⟩

/-- **`memmem::find` and `memmem::rfind` return normally** for every configuration and every
valid needle and haystack. -/
theorem memmem_no_fault (cfg : Api.Cfg) (needle hay : Slice) (hn : needle.Valid) (hh : hay.Valid)
    (c : Ctr) :
    (∃ r c', Memmem.find cfg hay needle c = .ok r c') ∧
    (∃ r c', Memmem.rfind cfg hay needle c = .ok r c') :=
  ⟨let ⟨c', h⟩ := Memmem.C03.oneshot_all cfg needle hay hn hh c; ⟨_, c', h⟩,
   let ⟨c', h⟩ := Memmem.C04.oneshot_all cfg needle hay hn hh c; ⟨_, c', h⟩⟩

/-- **Every `Finder` method returns normally, in any order**: a `FinderBuilder` finder (any
configuration, prefilter setting, ranker, valid needle) under EVERY list of operations `find`
(valid haystacks), `needle`, `as_ref`, `clone`, `into_owned`. -/
theorem finder_ops_no_fault (cfg : Api.Cfg) (b : Memmem.FinderBuilder) (rank : UInt8 → UInt8)
    (needle : Slice) (hn : needle.Valid) (ops : List Memmem.FinderOp)
    (hops : ∀ op ∈ ops, op.Ok) (h : Memmem.Heap) (c : Ctr) :
    ∃ r c', (b.buildForwardWithRanker cfg rank needle >>= fun f =>
      Memmem.Finder.run cfg ops f h) c = .ok r c' :=
  let ⟨_, _, c', e, _⟩ := Memmem.C16.finder_run_all cfg b rank needle hn ops hops h c
  ⟨_, c', e⟩

/-- **Every `FinderRev` method returns normally, in any order** (`find` = `rfind`). -/
theorem finder_rev_ops_no_fault (cfg : Api.Cfg) (needle : Slice) (hn : needle.Valid)
    (ops : List Memmem.FinderOp) (hops : ∀ op ∈ ops, op.Ok) (h : Memmem.Heap) (c : Ctr) :
    ∃ r c', (Memmem.FinderRev.new needle >>= fun f => Memmem.FinderRev.run cfg ops f h) c =
      .ok r c' :=
  let ⟨_, _, c', e, _⟩ := Bridge3.finderRev_run_all cfg needle hn ops hops h c
  ⟨_, c', e⟩

/-- **`find_iter` returns normally under every operation sequence**: `next`, `size_hint`,
`clone`, `into_owned` in any order and number (also long after exhaustion; `pos + idx` and
`pos + max(needle.len(), 1)` do not overflow, `haystack.get(pos..)` handles `pos > len`). -/
theorem find_iter_ops_no_fault (cfg : Api.Cfg) (b : Memmem.FinderBuilder) (rank : UInt8 → UInt8)
    (needle hay : Slice) (hn : needle.Valid) (hh : hay.Valid) (ops : List Memmem.IterOp)
    (h : Memmem.Heap) (c : Ctr) :
    ∃ r c', (b.buildForwardWithRanker cfg rank needle >>= fun f =>
      Memmem.FindIter.run cfg ops (f.findIter hay) h) c = .ok r c' :=
  let ⟨_, _, c', e, _⟩ := Bridge3.findIter_run_all cfg b rank needle hay hn hh ops h c
  ⟨_, c', e⟩

/-- **`rfind_iter` returns normally under every operation sequence** (`&haystack[..pos]` never
panics, `pos.checked_sub(1)` is handled). -/
theorem rfind_iter_ops_no_fault (cfg : Api.Cfg) (needle hay : Slice) (hn : needle.Valid)
    (hh : hay.Valid) (ops : List Memmem.IterOp) (h : Memmem.Heap) (c : Ctr) :
    ∃ r c', (Memmem.FinderRev.new needle >>= fun f =>
      Memmem.FindRevIter.run cfg ops (f.rfindIter hay) h) c = .ok r c' :=
  let ⟨_, _, c', e, _⟩ := Bridge3.rfindIter_run_all cfg needle hay hn hh ops h c
  ⟨_, c', e⟩

/-- hypotheses of the substring API theorems are satisfiable: a 40-byte needle (a Two-Way
branch) and a 100-byte haystack are valid slices; a `find` operation on a valid haystack is
`Ok` -/
example : (Slice.ofMem ⟨1, 64, Array.replicate 40 97⟩).Valid ∧
    (Slice.ofMem ⟨0, 4096, Array.replicate 100 97⟩).Valid ∧
    Memmem.FinderOp.Ok (.find (Slice.ofMem ⟨0, 4096, Array.replicate 100 97⟩)) := by
  simp [Slice.Valid, Slice.ofMem, Memmem.FinderOp.Ok]

end Memchr.Props.C14

#print axioms Memchr.Props.C14.is_effective_total
#print axioms Memchr.Props.C14.f1_defect_before_fix
#print axioms Memchr.Props.C14.fix_is_conservative
#print axioms Memchr.Props.C14.generic_find_no_fault
#print axioms Memchr.Props.C14.generic_rfind_no_fault
#print axioms Memchr.Props.C14.generic_count_no_fault
#print axioms Memchr.Props.C14.rabinkarp_no_fault
#print axioms Memchr.Props.C14.pair_no_panic
#print axioms Memchr.Props.C14.rabinkarp_rfind_no_fault
#print axioms Memchr.Props.C14.packedpair_find_panics_iff
#print axioms Memchr.Props.C14.packedpair_prefilter_panics_iff
#print axioms Memchr.Props.C14.packedpair_find_panics_or_ok
#print axioms Memchr.Props.C14.packedpair_find_foreign_no_fault
#print axioms Memchr.Props.C14.packedpair_documented_panic_exact
#print axioms Memchr.Props.C14.packedpair_documented_panic_exact_sse2
#print axioms Memchr.Props.C14.packedpair_documented_panic_exact_avx2
#print axioms Memchr.Props.C14.packedpair_documented_panic_exact_neon
#print axioms Memchr.Props.C14.packedpair_documented_panic_exact_simd128
#print axioms Memchr.Props.C14.swar_no_fault
#print axioms Memchr.Props.C14.shiftor_new_no_fault
#print axioms Memchr.Props.C14.shiftor_find_no_fault
#print axioms Memchr.Props.C14.fallback_prefilter_no_fault
#print axioms Memchr.Props.C14.fallback_new_no_fault
#print axioms Memchr.Props.C14.twoway_find_no_fault
#print axioms Memchr.Props.C14.twoway_find_no_fault_any_prefilter
#print axioms Memchr.Props.C14.twoway_rfind_no_fault
#print axioms Memchr.Props.C14.searcher_find_no_fault
#print axioms Memchr.Props.C14.searcher_rfind_no_fault
#print axioms Memchr.Props.C14.memmem_no_fault
#print axioms Memchr.Props.C14.finder_ops_no_fault
#print axioms Memchr.Props.C14.finder_rev_ops_no_fault
#print axioms Memchr.Props.C14.find_iter_ops_no_fault
#print axioms Memchr.Props.C14.rfind_iter_ops_no_fault
