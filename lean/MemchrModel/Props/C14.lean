/-
C14  No panic, abort or arithmetic overflow on any input in the documented domain.
(first instalment: the adaptive prefilter state machine; the other routines are corollaries
of their master theorems, `= .ok ..` excludes every fault, and are added as they land)
-/
import MemchrModel.Proofs.Prefilter

namespace Memchr.Props.C14

open Memchr

/-- `PrefilterState::is_effective` returns normally from EVERY state (all 2^64 values of
`skips`, `skipped`): in particular the product `MIN_SKIP_BYTES * skips()` cannot overflow. -/
theorem is_effective_total (s : PrefilterState) (c : Ctr) :
    ∃ b s', s.isEffective c = .ok (b, s') c :=
  PrefilterState.isEffective_total s c

end Memchr.Props.C14

#print axioms Memchr.Props.C14.is_effective_total
