/-
C01  Forward byte search returns exactly the first matching position.

Only statements, one-line proofs from the master lemmas, non-vacuity examples and
`#print axioms`.
-/
import MemchrModel.Proofs.MemchrGeneric
import MemchrModel.Proofs.Sensible
import MemchrModel.Generated.Consts

namespace Memchr.Props.C01

open Memchr

/-- The generic vector `find_raw` of `One`/`Two`/`Three` (`ns` = 1, 2 or 3 needle bytes, any
unroll factor) on ANY lawful vector type returns the address of the first byte of
`[start, end)` that equals a needle, `none` iff there is none, without any fault, for every
memory region (every base address, so every alignment of `start` and `end`) and every window
of at least `V::BYTES` bytes. -/
theorem generic_find (V : VecImpl) (L : Lawful V) (ns : Needles) (u : Nat) (hu : 0 < u)
    (m : Mem) (start end_ : Nat) (c : Ctr)
    (hs : m.base ≤ start) (he : end_ ≤ m.base + m.bytes.size) (hlen : start + V.bytes ≤ end_) :
    ∃ c', Generic.findRaw V ns u hu m start end_ c =
      .ok ((Spec.firstIdx ns.confirm (m.window start (end_ - start))).map (start + ·)) c' :=
  Generic.findRaw_correct V L ns u hu m start end_ c hs he hlen

/-- the unroll factors in the source are positive (re-checked against the regenerated
constants) -/
theorem unroll_pos : 0 < Generated.oneUnroll ∧ 0 < Generated.twoUnroll ∧ 0 < Generated.threeUnroll := by
  decide

/-- SSE2 instance with the source's unroll factor for `One`. -/
theorem sse2_one (n1 : UInt8) (m : Mem) (start end_ : Nat) (c : Ctr)
    (hs : m.base ≤ start) (he : end_ ≤ m.base + m.bytes.size) (hlen : start + 16 ≤ end_) :
    ∃ c', Generic.findRaw Sensible.sse2 ⟨n1, []⟩ Generated.oneUnroll unroll_pos.1 m start end_ c =
      .ok ((Spec.firstIdx (Needles.confirm ⟨n1, []⟩) (m.window start (end_ - start))).map (start + ·)) c' :=
  generic_find Sensible.sse2 Sensible.lawful_sse2 ⟨n1, []⟩ Generated.oneUnroll unroll_pos.1
    m start end_ c hs he hlen

/-- hypotheses are satisfiable: a 40-byte region at an odd base address -/
example : ∃ (m : Mem) (start end_ : Nat), m.base ≤ start ∧ end_ ≤ m.base + m.bytes.size ∧ start + 16 ≤ end_ :=
  ⟨⟨0, 1001, Array.replicate 40 0⟩, 1003, 1041, by decide, by simp, by decide⟩

end Memchr.Props.C01

#print axioms Memchr.Props.C01.generic_find
#print axioms Memchr.Props.C01.unroll_pos
#print axioms Memchr.Props.C01.sse2_one
