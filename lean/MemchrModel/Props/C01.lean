/-
C01  Forward byte search returns exactly the first matching position.

Only statements, one-line proofs from the master lemmas, non-vacuity examples and
`#print axioms`.

How the clauses of the property are covered:

  clause                                                   theorems
  -------------------------------------------------------  -------------------------------------
  what "first match" / "none iff absent" mean              `spec_some_iff`, `spec_none_iff`,
                                                           `needle_iff`
  vector routine, any lawful vector type, window >= 1 vec  `generic_find`
    ... instances SSE2 / AVX2 / NEON / wasm simd128        `sse2_one`, `sse2_find`, `avx2_find`,
                                                           `neon_find`, `simd128_find`
  SWAR (`arch::all`), every `start`/`end`                  `swar_one`, `swar_multi`, `swar_two`,
                                                           `swar_three`
  raw-pointer form `find_raw` of EVERY backend, every
    window (short, empty, reversed) -> first match          `raw_every_backend`
    returned pointer inside `[start, end)`, first,
    `none` iff absent (pointwise reading)                   `raw_pointwise`
    `None` when `start >= end` (no precondition)            `raw_none_when_start_ge_end`
  slice form `find` of every backend's searcher             `slice_every_backend`
  `memchr`/`memchr2`/`memchr3`, every configuration         `memchr_first`, `memchr_pointwise`
  returned index `< haystack.len()`                         `index_lt_len`
  the public routine runs the backend `select` picks,
    which is always an available one                        `dispatch_runs_selected`,
                                                            `selected_is_available`

In every theorem `= .ok v c'` means: the run returns normally (no out-of-bounds or misaligned
load, no pointer arithmetic leaving the allocation, no overflow, no failed debug assertion)
and the returned value is `v`.
-/
import MemchrModel.Proofs.MemchrGeneric
import MemchrModel.Proofs.Sensible
import MemchrModel.Proofs.Neon
import MemchrModel.Proofs.Swar
import MemchrModel.Proofs.MemchrApi
import MemchrModel.Proofs.PropsBridge2
import MemchrModel.Generated.Consts

namespace Memchr.Props.C01

open Memchr

/-! ### the specification -/

/-- Meaning of the specification function: `Spec.firstIdx p l = some i` says exactly that `i` is
an index of `l`, the byte there satisfies `p`, and no smaller index does ("the smallest index
whose byte equals one of the needles"). -/
theorem spec_some_iff {p : UInt8 → Bool} {l : List UInt8} {i : Nat} :
    Spec.firstIdx p l = some i ↔
      ∃ h : i < l.length, p l[i] = true ∧ ∀ j (hj : j < i), p (l[j]'(Nat.lt_trans hj h)) = false :=
  Spec.firstIdx_eq_some_iff

/-- Meaning of the specification function: it is `none` exactly when no byte satisfies `p`
("`None` exactly when no such index exists"). -/
theorem spec_none_iff {p : UInt8 → Bool} {l : List UInt8} :
    Spec.firstIdx p l = none ↔ ∀ x ∈ l, p x = false :=
  Spec.firstIdx_eq_none_iff

/-- The predicate `ns.confirm` used everywhere below is "the byte equals one of the needle
bytes" (1, 2 or 3 of them for `One`/`Two`/`Three`; duplicates allowed). -/
theorem needle_iff (ns : Needles) (b : UInt8) :
    ns.confirm b = true ↔ b = ns.first ∨ b ∈ ns.rest :=
  Bridge2.confirm_iff ns b

/-! ### the generic vector routine and its instances -/

/-- The generic vector `find_raw` of `One`/`Two`/`Three` (`ns` = 1, 2 or 3 needle bytes, any
unroll factor) on ANY lawful vector type returns the address of the first byte of
`[start, end)` that equals a needle, `none` iff there is none, without any fault, for every
memory region (every base address, so every alignment of `start` and `end`) and every window
of at least `V::BYTES` bytes. -/
theorem generic_find (V : VecImpl) (L : Lawful V) (ns : Needles) (u : Nat) (hu : 0 < u)
    (m : Mem) (start end_ : Nat) (c : Ctr)
    (hs : m.base ≤ start) (he : end_ ≤ m.base + m.bytes.size) (hlen : start + V.bytes ≤ end_) :
    ∃ c', Generic.findRaw V ns u hu m start end_ c =
      .ok ((Spec.firstIdx ns.confirm (m.window start (end_ - start))).map (start + ·)) c' :=
  Generic.findRaw_correct V L ns u hu m start end_ c hs he hlen

/-- the unroll factors in the source are positive (re-checked against the regenerated
constants) -/
theorem unroll_pos : 0 < Generated.oneUnroll ∧ 0 < Generated.twoUnroll ∧ 0 < Generated.threeUnroll := by
  decide

/-- SSE2 instance with the source's unroll factor for `One`. -/
theorem sse2_one (n1 : UInt8) (m : Mem) (start end_ : Nat) (c : Ctr)
    (hs : m.base ≤ start) (he : end_ ≤ m.base + m.bytes.size) (hlen : start + 16 ≤ end_) :
    ∃ c', Generic.findRaw Sensible.sse2 ⟨n1, []⟩ Generated.oneUnroll unroll_pos.1 m start end_ c =
      .ok ((Spec.firstIdx (Needles.confirm ⟨n1, []⟩) (m.window start (end_ - start))).map (start + ·)) c' :=
  generic_find Sensible.sse2 Sensible.lawful_sse2 ⟨n1, []⟩ Generated.oneUnroll unroll_pos.1
    m start end_ c hs he hlen

/-- hypotheses are satisfiable: a 40-byte region at an odd base address -/
example : ∃ (m : Mem) (start end_ : Nat), m.base ≤ start ∧ end_ ≤ m.base + m.bytes.size ∧ start + 16 ≤ end_ :=
  ⟨⟨0, 1001, Array.replicate 40 0⟩, 1003, 1041, by decide, by simp, by decide⟩

/-- SSE2 instance (`__m128i`, 16 lanes, 1 mask bit per lane) of `generic_find`: `One`, `Two`
and `Three`, any unroll factor, windows of at least 16 bytes. -/
theorem sse2_find (ns : Needles) (u : Nat) (hu : 0 < u) (m : Mem) (start end_ : Nat) (c : Ctr)
    (hs : m.base ≤ start) (he : end_ ≤ m.base + m.bytes.size) (hlen : start + 16 ≤ end_) :
    ∃ c', Generic.findRaw Sensible.sse2 ns u hu m start end_ c =
      .ok ((Spec.firstIdx ns.confirm (m.window start (end_ - start))).map (start + ·)) c' :=
  generic_find Sensible.sse2 Sensible.lawful_sse2 ns u hu m start end_ c hs he hlen

/-- AVX2 instance (`__m256i`, 32 lanes) of `generic_find`: windows of at least 32 bytes. -/
theorem avx2_find (ns : Needles) (u : Nat) (hu : 0 < u) (m : Mem) (start end_ : Nat) (c : Ctr)
    (hs : m.base ≤ start) (he : end_ ≤ m.base + m.bytes.size) (hlen : start + 32 ≤ end_) :
    ∃ c', Generic.findRaw Sensible.avx2 ns u hu m start end_ c =
      .ok ((Spec.firstIdx ns.confirm (m.window start (end_ - start))).map (start + ·)) c' :=
  generic_find Sensible.avx2 Sensible.lawful_avx2 ns u hu m start end_ c hs he hlen

/-- NEON instance (`uint8x16_t`; the mask is the 64-bit `vshrn_n_u16(.., 4)` nibble mask
`& 0x8888888888888888`: lane `i` owns nibble `i` and is bit `4i + 3`;
`first_offset = trailing_zeros >> 2`) of `generic_find`: `Neon.lawful` is the proof that the
NEON mask operations satisfy the laws the generic routine relies on (under the intrinsic
semantics listed as trusted in `Model/Neon.lean`). Windows of at least 16 bytes. -/
theorem neon_find (ns : Needles) (u : Nat) (hu : 0 < u) (m : Mem) (start end_ : Nat) (c : Ctr)
    (hs : m.base ≤ start) (he : end_ ≤ m.base + m.bytes.size) (hlen : start + 16 ≤ end_) :
    ∃ c', Generic.findRaw Neon.impl ns u hu m start end_ c =
      .ok ((Spec.firstIdx ns.confirm (m.window start (end_ - start))).map (start + ·)) c' :=
  generic_find Neon.impl Neon.lawful ns u hu m start end_ c hs he hlen

/-- wasm simd128 instance (`v128`, 16 lanes, `i8x16_bitmask`) of `generic_find`. Windows of at
least 16 bytes. -/
theorem simd128_find (ns : Needles) (u : Nat) (hu : 0 < u) (m : Mem) (start end_ : Nat) (c : Ctr)
    (hs : m.base ≤ start) (he : end_ ≤ m.base + m.bytes.size) (hlen : start + 16 ≤ end_) :
    ∃ c', Generic.findRaw Sensible.simd128 ns u hu m start end_ c =
      .ok ((Spec.firstIdx ns.confirm (m.window start (end_ - start))).map (start + ·)) c' :=
  generic_find Sensible.simd128 Sensible.lawful_simd128 ns u hu m start end_ c hs he hlen

/-- hypotheses of the 32-byte instance are satisfiable: an 80-byte region at an odd base -/
example : ∃ (m : Mem) (start end_ : Nat), m.base ≤ start ∧ end_ ≤ m.base + m.bytes.size ∧ start + 32 ≤ end_ :=
  ⟨⟨0, 1001, Array.replicate 80 0⟩, 1003, 1077, by decide, by simp, by decide⟩

/-! ### SWAR (`src/arch/all/memchr.rs`): every `start` / `end` -/

/-- SWAR `One::find_raw` for EVERY pair `start`, `end`: when `start < end` the window must lie
inside the region (any length >= 1, any alignment, including windows shorter than one `usize`
word); when `start >= end` there is no precondition at all and the result is `none` (the window
`m.window start 0` is empty). First match, `none` iff absent, no fault (in particular every
`*const usize` read is 8-aligned and in bounds). -/
theorem swar_one (n1 : UInt8) (m : Mem) (start end_ : Nat) (c : Ctr)
    (hb : start < end_ → m.base ≤ start ∧ end_ ≤ m.base + m.bytes.size) :
    ∃ c', Swar.One.findRaw n1 m start end_ c =
      .ok ((Spec.firstIdx (· == n1) (m.window start (end_ - start))).map (start + ·)) c' :=
  Swar.One.findRaw_correct_eq n1 m start end_ c hb

/-- SWAR `Two::find_raw` / `Three::find_raw` (one shared body; `ns` = the 2 or 3 needle bytes,
indeed any number) for EVERY pair `start`, `end`, as in `swar_one`. -/
theorem swar_multi (ns : Needles) (m : Mem) (start end_ : Nat) (c : Ctr)
    (hb : start < end_ → m.base ≤ start ∧ end_ ≤ m.base + m.bytes.size) :
    ∃ c', Swar.Multi.findRaw ns m start end_ c =
      .ok ((Spec.firstIdx ns.confirm (m.window start (end_ - start))).map (start + ·)) c' :=
  Swar.Multi.findRaw_correct ns m start end_ c hb

/-- SWAR `Two::find_raw` with the predicate written out (`b == n1 || b == n2`; `n1 = n2`
allowed). -/
theorem swar_two (n1 n2 : UInt8) (m : Mem) (start end_ : Nat) (c : Ctr)
    (hb : start < end_ → m.base ≤ start ∧ end_ ≤ m.base + m.bytes.size) :
    ∃ c', Swar.Multi.findRaw ⟨n1, [n2]⟩ m start end_ c =
      .ok ((Spec.firstIdx (fun b => b == n1 || b == n2)
        (m.window start (end_ - start))).map (start + ·)) c' :=
  Swar.Two.findRaw_correct n1 n2 m start end_ c hb

/-- SWAR `Three::find_raw` with the predicate written out. -/
theorem swar_three (n1 n2 n3 : UInt8) (m : Mem) (start end_ : Nat) (c : Ctr)
    (hb : start < end_ → m.base ≤ start ∧ end_ ≤ m.base + m.bytes.size) :
    ∃ c', Swar.Multi.findRaw ⟨n1, [n2, n3]⟩ m start end_ c =
      .ok ((Spec.firstIdx (fun b => b == n1 || b == n2 || b == n3)
        (m.window start (end_ - start))).map (start + ·)) c' :=
  Swar.Three.findRaw_correct n1 n2 n3 m start end_ c hb

/-- the SWAR precondition is satisfiable by a non-trivial input (a 20-byte region at the odd
base address 3, window `[4, 22)`), and trivially true when `start >= end` -/
example : ∃ (m : Mem) (start end_ : Nat), start < end_ ∧
    (start < end_ → m.base ≤ start ∧ end_ ≤ m.base + m.bytes.size) :=
  ⟨⟨0, 3, Array.replicate 20 7⟩, 4, 22, by decide, fun _ => ⟨by decide, by simp⟩⟩

/-! ### raw-pointer form, every backend -/

/-- Raw-pointer form, EVERY backend (`b` ranges over SWAR, SSE2, AVX2, NEON, wasm simd128;
`rawFind b ns false` is `<backend>::memchr::{One,Two,Three}::find_raw` including the wrapper's
short-haystack routing: byte-by-byte below 16 bytes, SSE2 below 32 bytes on AVX2), for ALL
`start`, `end` with `[start, end)` inside the region — in particular `start >= end` (then the
window `m.window start 0` is empty and the value is `none`) and windows shorter than a
vector: the result is the address of the first needle byte, `none` iff there is none. -/
theorem raw_every_backend (b : Api.Backend) (ns : Needles) (m : Mem) (start end_ : Nat) (c : Ctr)
    (hs : m.base ≤ start) (he : end_ ≤ m.base + m.bytes.size) :
    ∃ c', Api.rawFind b ns false m start end_ c =
      .ok ((Spec.firstIdx ns.confirm (m.window start (end_ - start))).map (start + ·)) c' :=
  Api.C01_raw b ns m start end_ c hs he

/-- The same read pointwise, clause by clause, with no specification function: for every backend
`find_raw` returns normally with some `r` such that
* `r = none` exactly when no address of `[start, end)` holds a needle byte;
* a returned pointer `a` lies inside `[start, end)`, holds a needle byte, and no earlier address
  of the window does. -/
theorem raw_pointwise (b : Api.Backend) (ns : Needles) (m : Mem) (start end_ : Nat) (c : Ctr)
    (hs : m.base ≤ start) (he : end_ ≤ m.base + m.bytes.size) :
    ∃ r c', Api.rawFind b ns false m start end_ c = .ok r c' ∧
      (r = none ↔ ∀ a, start ≤ a → a < end_ → ns.confirm (m.byteAt a) = false) ∧
      (∀ a, r = some a → start ≤ a ∧ a < end_ ∧ ns.confirm (m.byteAt a) = true ∧
        ∀ a', start ≤ a' → a' < a → ns.confirm (m.byteAt a') = false) :=
  Bridge2.rawFind_first_pointwise b ns m start end_ c hs he

/-- "and return None when start >= end": for every backend, with NO hypothesis on the pointers
(they may be dangling or outside every region), `find_raw` returns `none`, takes no step and
performs no load (the counters `c` are returned unchanged). -/
theorem raw_none_when_start_ge_end (b : Api.Backend) (ns : Needles) (m : Mem) (start end_ : Nat)
    (c : Ctr) (h : start ≥ end_) : Api.rawFind b ns false m start end_ c = .ok none c :=
  Api.rawFind_reversed b ns false m start end_ c h

/-- hypotheses are satisfiable: a 40-byte region at an odd base address, a 5-byte window (shorter
than every vector) -/
example : ∃ (m : Mem) (start end_ : Nat), m.base ≤ start ∧ end_ ≤ m.base + m.bytes.size ∧
    start < end_ :=
  ⟨⟨0, 1001, Array.replicate 40 0⟩, 1003, 1008, by decide, by simp, by decide⟩

/-! ### slice forms -/

/-- Slice form `find(haystack)` of every backend's `One`/`Two`/`Three` (through
`search_slice_with_raw`: pointer -> index conversion included): the smallest index of the slice
holding a needle byte, `none` iff there is none, for every valid slice (every length from 0,
every alignment). -/
theorem slice_every_backend (b : Api.Backend) (ns : Needles) (hay : Slice) (hv : hay.Valid)
    (c : Ctr) :
    ∃ c', Api.sliceFind b ns false hay c = .ok (Spec.firstIdx ns.confirm hay.toList) c' :=
  Bridge2.sliceFind_fwd b ns hay hv c

/-- `memchr` / `memchr2` / `memchr3` (`ns` = the 1, 2 or 3 needle bytes) under EVERY build / CPU
configuration `cfg` (target architecture, compile-time target features, `std`, run-time AVX2
detection, forced-unavailable hook): the smallest index of the haystack holding a needle byte,
`none` iff there is none. -/
theorem memchr_first (cfg : Api.Cfg) (ns : Needles) (hay : Slice) (hv : hay.Valid) (c : Ctr) :
    ∃ c', Api.memchr cfg ns false hay c = .ok (Spec.firstIdx ns.confirm hay.toList) c' :=
  Bridge2.memchr_fwd cfg ns hay hv c

/-- "a returned index is always less than haystack.len()": whatever the predicate and the
bytes, an index produced by the specification (hence, by `memchr_first` and
`slice_every_backend`, by every routine) is inside the haystack. -/
theorem index_lt_len (ns : Needles) (hay : Slice) (i : Nat)
    (h : Spec.firstIdx ns.confirm hay.toList = some i) : i < hay.len := by
  simpa using Bridge2.firstIdx_lt h

/-- `memchr` & co. read pointwise, clause by clause (`hay.getD i` is byte `i` of the slice):
the call returns normally with some `r` such that
* `r = none` exactly when no index of the haystack holds a needle byte;
* a returned index `i` is `< hay.len`, holds a needle byte, and no smaller index does. -/
theorem memchr_pointwise (cfg : Api.Cfg) (ns : Needles) (hay : Slice) (hv : hay.Valid) (c : Ctr) :
    ∃ r c', Api.memchr cfg ns false hay c = .ok r c' ∧
      (r = none ↔ ∀ i, i < hay.len → ns.confirm (hay.getD i) = false) ∧
      (∀ i, r = some i → i < hay.len ∧ ns.confirm (hay.getD i) = true ∧
        ∀ j, j < i → ns.confirm (hay.getD j) = false) :=
  Bridge2.memchr_fwd_pointwise cfg ns hay hv c

/-- a valid, non-trivial slice: bytes 3..13 of a 40-byte region at an odd address -/
example : (⟨⟨0, 1001, Array.replicate 40 0⟩, 3, 10⟩ : Slice).Valid := by
  simp [Slice.Valid]

/-! ### dispatch -/

/-- Dispatch: the public raw routine of a configuration (the `cfg` chain of `src/memchr.rs`,
`detect` of `unsafe_ifunc!` on x86_64, `defraw!` with its `debug_assert!(is_available())` on
aarch64 / wasm32) IS the raw routine of the backend `Api.select cfg`; the debug assertion never
fires. (`rev = false`: `memchr*_raw`; `rev = true`: `memrchr*_raw`.) -/
theorem dispatch_runs_selected (cfg : Api.Cfg) (ns : Needles) (rev : Bool) (m : Mem)
    (start end_ : Nat) :
    Api.memchrRaw cfg ns rev m start end_ = Api.rawFind (Api.select cfg) ns rev m start end_ :=
  Api.memchrRaw_eq_select cfg ns rev m start end_

/-- Dispatch never selects a vector backend whose `is_available()` is false for the
configuration, nor one of another architecture (the `#[target_feature]` safety obligation of the
`unsafe` calls in `unsafe_ifunc!` / `defraw!`). -/
theorem selected_is_available (cfg : Api.Cfg) :
    (Api.select cfg = .avx2 → cfg.arch = .x86_64 ∧ Api.avx2Available cfg = true) ∧
    (Api.select cfg = .sse2 → cfg.arch = .x86_64 ∧ Api.sse2Available cfg = true) ∧
    (Api.select cfg = .neon → cfg.arch = .aarch64 ∧ Api.neonAvailable cfg = true) ∧
    (Api.select cfg = .simd128 → cfg.arch = .wasm32simd128 ∧ Api.simd128Available cfg = true) :=
  Api.select_available cfg

end Memchr.Props.C01

#print axioms Memchr.Props.C01.spec_some_iff
#print axioms Memchr.Props.C01.spec_none_iff
#print axioms Memchr.Props.C01.needle_iff
#print axioms Memchr.Props.C01.generic_find
#print axioms Memchr.Props.C01.unroll_pos
#print axioms Memchr.Props.C01.sse2_one
#print axioms Memchr.Props.C01.sse2_find
#print axioms Memchr.Props.C01.avx2_find
#print axioms Memchr.Props.C01.neon_find
#print axioms Memchr.Props.C01.simd128_find
#print axioms Memchr.Props.C01.swar_one
#print axioms Memchr.Props.C01.swar_multi
#print axioms Memchr.Props.C01.swar_two
#print axioms Memchr.Props.C01.swar_three
#print axioms Memchr.Props.C01.raw_every_backend
#print axioms Memchr.Props.C01.raw_pointwise
#print axioms Memchr.Props.C01.raw_none_when_start_ge_end
#print axioms Memchr.Props.C01.slice_every_backend
#print axioms Memchr.Props.C01.memchr_first
#print axioms Memchr.Props.C01.index_lt_len
#print axioms Memchr.Props.C01.memchr_pointwise
#print axioms Memchr.Props.C01.dispatch_runs_selected
#print axioms Memchr.Props.C01.selected_is_available
