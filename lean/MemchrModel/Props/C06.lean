/-
C06  Byte-search iterators yield every match exactly once in any call order.

Only statements, one-line proofs from the master lemmas (`Proofs/MemchrApiIter.lean`,
`Proofs/PropsBridge2.lean`), a non-vacuity example and `#print axioms`.

Vocabulary (all in `Model/MemchrApi.lean` / `Proofs/MemchrApiIter.lean`):

* `Api.Op` is one call on the iterator: `next`, `nextBack`, `sizeHint`, or `count` (the latter
  on a clone, so it observes without consuming). `Api.Out` is what the call returned:
  `.idx o` (an `Option` index), `.hint lo hi`, `.cnt k`.
* `Api.Iter.run f ops it` is the model of the REAL iterator (`arch::generic::memchr::Iter`
  with its three raw pointers) performing the calls `ops` in order with the raw routines `f`
  (`RawFns.ofCfg cfg ns m`: `Memchr`/`Memchr2`/`Memchr3` of `src/memchr.rs` for a build / CPU
  configuration; `RawFns.ofBackend b ns m`: `OneIter`/`TwoIter`/`ThreeIter` of a backend). It
  returns the list of outputs and the final iterator.
* `Api.absRun ops rem` is the ABSTRACT iterator: its state `rem` is a list of positions;
  `next` returns and removes the head, `next_back` returns and removes the last element,
  `size_hint` and `count` report `rem.length` and change nothing (`abs_next`, `abs_nextBack`,
  `abs_sizeHint`, `abs_count`, `absRun_nil`, `absRun_cons` below are its complete definition).
  Its initial state is `Api.allMatches hay ns`, which `allMatches_spec` pins down as exactly the
  match positions of the haystack in increasing order.
* `Api.OutsOk outs aouts`: the real outputs `outs` are acceptable for the abstract outputs
  `aouts`: same length, and pointwise `OutOk` (`outsOk_nil`, `outsOk_cons`): `next`,
  `next_back` and `count` results must be EQUAL to the abstract ones (`outOk_idx`, `outOk_cnt`);
  for `size_hint` the real iterator must return `(0, Some h)` with `remaining <= h`, where
  `remaining` is the number of elements the abstract iterator has left (`outOk_hint`). That is
  the property's "upper bound at least the number of matches still to come, lower bound at most
  that number" (the real lower bound is the constant 0).
* `Api.Refines hay ns it rem`: the real iterator state `it` represents the abstract state
  `rem`: same memory region, `original_start` is the haystack pointer,
  `hay.ptr <= start <= end <= hay.ptr + hay.len`, and `rem` is the list of match positions
  (indices relative to the haystack) inside the current window `[start, end)`.

How the clauses of the property are covered:

  any sequence of next()/next_back() calls, every needle set,   `refines_backend`,
    haystack, backend / configuration: yields match positions    `refines_cfg`
    from the front ascending, from the back descending
  never twice, never a non-matching position, all of them        `every_match_exactly_once_*`
                                                                 with `allMatches_spec`
  after the ends meet, `None` forever                            `none_forever`
  size_hint bounds at every point                                `outOk_hint` (inside
                                                                 `refines_*`), `size_hint_bounds`
-/
import MemchrModel.Proofs.MemchrApiIter
import MemchrModel.Proofs.PropsBridge2

namespace Memchr.Props.C06

open Memchr Memchr.Api

/-! ### the abstract iterator, completely -/

/-- abstract `next`: returns the first remaining position (`none` when empty) and removes it -/
theorem abs_next (rem : List Nat) : absStep .next rem = (.idx rem.head?, rem.tail) := rfl

/-- abstract `next_back`: returns the last remaining position (`none` when empty) and removes
it -/
theorem abs_nextBack (rem : List Nat) :
    absStep .nextBack rem = (.idx rem.getLast?, rem.dropLast) := rfl

/-- abstract `size_hint`: the exact number of remaining positions, state unchanged -/
theorem abs_sizeHint (rem : List Nat) :
    absStep .sizeHint rem = (.hint rem.length (some rem.length), rem) := rfl

/-- abstract `count` (on a clone): the number of remaining positions, state unchanged -/
theorem abs_count (rem : List Nat) : absStep .count rem = (.cnt rem.length, rem) := rfl

/-- running no operation returns no output -/
theorem absRun_nil (rem : List Nat) : absRun [] rem = ([], rem) := rfl

/-- running `op :: ops` performs `op`, then `ops` from the resulting state -/
theorem absRun_cons (op : Op) (ops : List Op) (rem : List Nat) :
    absRun (op :: ops) rem =
      ((absStep op rem).1 :: (absRun ops (absStep op rem).2).1, (absRun ops (absStep op rem).2).2) := by
  cases op <;> rfl

/-- The abstract initial state is what it should be: exactly the positions of the haystack
holding a needle byte (`hay.mem.byteAt (hay.ptr + i)` is byte `i` of the haystack), in strictly
increasing order (hence without repetition). -/
theorem allMatches_spec (hay : Slice) (ns : Needles) :
    (allMatches hay ns).Pairwise (· < ·) ∧
    ∀ i, i ∈ allMatches hay ns ↔ i < hay.len ∧ ns.confirm (hay.mem.byteAt (hay.ptr + i)) = true :=
  Api.allMatches_spec hay ns

/-! ### what `OutsOk` demands -/

/-- a `next` / `next_back` result must equal the abstract one -/
theorem outOk_idx (o o' : Option Nat) : OutOk (.idx o) (.idx o') ↔ o = o' := Iff.rfl

/-- a `count` result must equal the abstract one -/
theorem outOk_cnt (k k' : Nat) : OutOk (.cnt k) (.cnt k') ↔ k = k' := Iff.rfl

/-- What is demanded of `size_hint`: against the abstract answer `.hint n _` (`n` = number of
matches still to come) the real `(lo, hi)` must have lower bound `lo = 0` (so `lo <= n`) and an
upper bound `hi = Some h` with `n <= h`. -/
theorem outOk_hint (lo : Nat) (hi : Option Nat) (n : Nat) (k : Option Nat) :
    OutOk (.hint lo hi) (.hint n k) ↔ lo = 0 ∧ ∃ h, hi = some h ∧ n ≤ h := Iff.rfl

/-- outputs of different kinds are never acceptable for each other (e.g. an index where a hint
is expected) -/
theorem outOk_mismatch (o : Option Nat) (lo : Nat) (hi : Option Nat) (k : Nat) :
    ¬ OutOk (.idx o) (.hint lo hi) ∧ ¬ OutOk (.idx o) (.cnt k) ∧ ¬ OutOk (.hint lo hi) (.idx o) ∧
    ¬ OutOk (.hint lo hi) (.cnt k) ∧ ¬ OutOk (.cnt k) (.idx o) ∧ ¬ OutOk (.cnt k) (.hint lo hi) :=
  ⟨id, id, id, id, id, id⟩

/-- `OutsOk` relates the empty output list only to the empty one -/
theorem outsOk_nil (bs : List Out) : OutsOk [] bs ↔ bs = [] :=
  ⟨fun h => by cases h; rfl, fun h => h ▸ OutsOk.nil⟩

/-- `OutsOk` is pointwise `OutOk` (in particular both lists have the same length) -/
theorem outsOk_cons (a : Out) (as bs : List Out) :
    OutsOk (a :: as) bs ↔ ∃ b bs', bs = b :: bs' ∧ OutOk a b ∧ OutsOk as bs' :=
  ⟨fun h => by cases h with | cons h1 h2 => exact ⟨_, _, rfl, h1, h2⟩,
   fun ⟨_, _, e, h1, h2⟩ => e ▸ OutsOk.cons h1 h2⟩

/-! ### the refinement theorems -/

/-- `OneIter` / `TwoIter` / `ThreeIter` of EVERY backend's wrapper module: for every valid
haystack slice, every needle set, and EVERY finite sequence `ops` of `next` / `next_back` /
`size_hint` / `count` calls on a fresh iterator (every interleaving, every call history), the
run does not fault, its outputs are acceptable (`OutsOk`: equal, except that `size_hint` may
over-approximate from above) for those of the abstract iterator started on all match positions,
and the final real state represents the final abstract state. -/
theorem refines_backend (b : Backend) (ns : Needles) (hay : Slice) (hv : hay.Valid)
    (ops : List Op) (c : Ctr) :
    ∃ outs it' c', Iter.run (RawFns.ofBackend b ns hay.mem) ops (Iter.new hay) c
        = .ok (outs, it') c' ∧
      OutsOk outs (absRun ops (allMatches hay ns)).1 ∧
      Refines hay ns it' (absRun ops (allMatches hay ns)).2 :=
  Api.C06_refines_backend b ns hay hv ops c

/-- The public iterators `Memchr` / `Memchr2` / `Memchr3` (`memchr_iter`, `memchr2_iter`,
`memchr3_iter`, and their `.rev()` through `next_back`) under EVERY build / CPU configuration:
same statement as `refines_backend`. -/
theorem refines_cfg (cfg : Cfg) (ns : Needles) (hay : Slice) (hv : hay.Valid)
    (ops : List Op) (c : Ctr) :
    ∃ outs it' c', Iter.run (RawFns.ofCfg cfg ns hay.mem) ops (Iter.new hay) c
        = .ok (outs, it') c' ∧
      OutsOk outs (absRun ops (allMatches hay ns)).1 ∧
      Refines hay ns it' (absRun ops (allMatches hay ns)).2 :=
  Api.C06_refines_cfg cfg ns hay hv ops c

/-- the only hypothesis (`hay.Valid`) is satisfiable by a non-trivial input: bytes 3..13 of a
40-byte region at an odd address -/
example : (⟨⟨0, 1001, Array.replicate 40 0⟩, 3, 10⟩ : Slice).Valid := by
  simp [Slice.Valid]

/-- "after the two ends meet returns None forever": from any iterator state that represents
the empty abstract state (which, by `refines_*`, is every state reached once `next` or
`next_back` has returned `None`, or once all matches have been handed out), EVERY further
sequence of calls, in any order, returns `None` from `next`/`next_back`, 0 from `count`, and
`(0, Some _)` from `size_hint`; nothing faults and the state stays empty. `RawOk f ns hay.mem`
says that `f` consists of correct raw routines; `Api.rawOk_ofBackend` / `Api.rawOk_ofCfg` prove it
for every backend / configuration. -/
theorem none_forever {f : RawFns} {ns : Needles} {hay : Slice} (hv : hay.Valid)
    (hf : RawOk f ns hay.mem) {it : Iter} (R : Refines hay ns it []) (ops : List Op) (c : Ctr) :
    ∃ outs it' c', Iter.run f ops it c = .ok (outs, it') c' ∧ Refines hay ns it' [] ∧
      ∀ o ∈ outs, o = .idx none ∨ o = .cnt 0 ∨ ∃ h, o = .hint 0 (some h) :=
  Api.C06_none_forever hv hf R ops c

/-- the hypothesis `RawOk` of `none_forever` holds for the iterators of every backend and of
every configuration -/
theorem rawOk_everywhere (b : Backend) (cfg : Cfg) (ns : Needles) (m : Mem) :
    RawOk (RawFns.ofBackend b ns m) ns m ∧ RawOk (RawFns.ofCfg cfg ns m) ns m :=
  ⟨Api.rawOk_ofBackend b ns m, Api.rawOk_ofCfg cfg ns m⟩

/-- the hypothesis `Refines hay ns it []` of `none_forever` is satisfiable: a fresh iterator
over a haystack without any match (here: the empty haystack) -/
example : Refines ⟨⟨0, 1001, Array.replicate 40 0⟩, 3, 0⟩ ⟨1, []⟩
    (Iter.new ⟨⟨0, 1001, Array.replicate 40 0⟩, 3, 0⟩) [] :=
  Api.refines_new _ _

/-- `size_hint` at every reachable point, directly on the real iterator: in any state `it`
representing the abstract state `rem` (by `refines_*`: every state reachable from a fresh
iterator), `size_hint()` is `(0, Some h)` with `rem.length <= h`, i.e. lower bound <= matches
still to come <= upper bound. -/
theorem size_hint_bounds {hay : Slice} {ns : Needles} {it : Iter} {rem : List Nat}
    (R : Refines hay ns it rem) :
    it.sizeHint.1 = 0 ∧ ∃ h, it.sizeHint.2 = some h ∧ rem.length ≤ h :=
  Bridge2.sizeHint_of_refines R

/-! ### every match exactly once, without the abstract iterator -/

/-- The property in one equation on the REAL outputs (public iterators, every configuration).
`Bridge2.fronts ops outs` is the list of positions returned by the `next` calls of the run, in
call order; `Bridge2.backs ops outs` the list returned by the `next_back` calls, in call order;
`rem` the match positions inside the final window. Then

    fronts ++ rem ++ reverse backs  =  all match positions of the haystack, ascending.

Since that list is strictly increasing (`allMatches_spec`): `next` yields ascending positions,
`next_back` descending ones, nothing is yielded twice or by both ends, only matching positions
are yielded, and what was not yielded is exactly what is still inside the window. -/
theorem every_match_exactly_once_cfg (cfg : Cfg) (ns : Needles) (hay : Slice) (hv : hay.Valid)
    (ops : List Op) (c : Ctr) :
    ∃ outs it' c' rem, Iter.run (RawFns.ofCfg cfg ns hay.mem) ops (Iter.new hay) c
        = .ok (outs, it') c' ∧
      Refines hay ns it' rem ∧
      Bridge2.fronts ops outs ++ rem ++ (Bridge2.backs ops outs).reverse = allMatches hay ns :=
  Bridge2.run_partition_cfg cfg ns hay hv ops c

/-- the same for `OneIter`/`TwoIter`/`ThreeIter` of every backend -/
theorem every_match_exactly_once_backend (b : Backend) (ns : Needles) (hay : Slice)
    (hv : hay.Valid) (ops : List Op) (c : Ctr) :
    ∃ outs it' c' rem, Iter.run (RawFns.ofBackend b ns hay.mem) ops (Iter.new hay) c
        = .ok (outs, it') c' ∧
      Refines hay ns it' rem ∧
      Bridge2.fronts ops outs ++ rem ++ (Bridge2.backs ops outs).reverse = allMatches hay ns :=
  Bridge2.run_partition_backend b ns hay hv ops c

/-- `fronts` / `backs` do what the docstring above says on a sample run: calls
`next, size_hint, next_back, next, next_back` with outputs `2, (0, 9), 7, 4, None` -/
example :
    Bridge2.fronts [.next, .sizeHint, .nextBack, .next, .nextBack]
      [.idx (some 2), .hint 0 (some 9), .idx (some 7), .idx (some 4), .idx none] = [2, 4] ∧
    Bridge2.backs [.next, .sizeHint, .nextBack, .next, .nextBack]
      [.idx (some 2), .hint 0 (some 9), .idx (some 7), .idx (some 4), .idx none] = [7] := by
  decide

/-- the public iterators of a configuration are literally the wrapper iterators of the backend
`select` picks (so `refines_cfg` is `refines_backend` at `b = select cfg`) -/
theorem cfg_iter_is_backend_iter (cfg : Cfg) (ns : Needles) (m : Mem) :
    RawFns.ofCfg cfg ns m = RawFns.ofBackend (select cfg) ns m :=
  Bridge2.ofCfg_eq_ofBackend cfg ns m

end Memchr.Props.C06

#print axioms Memchr.Props.C06.abs_next
#print axioms Memchr.Props.C06.abs_nextBack
#print axioms Memchr.Props.C06.abs_sizeHint
#print axioms Memchr.Props.C06.abs_count
#print axioms Memchr.Props.C06.absRun_nil
#print axioms Memchr.Props.C06.absRun_cons
#print axioms Memchr.Props.C06.allMatches_spec
#print axioms Memchr.Props.C06.outOk_idx
#print axioms Memchr.Props.C06.outOk_cnt
#print axioms Memchr.Props.C06.outOk_hint
#print axioms Memchr.Props.C06.outOk_mismatch
#print axioms Memchr.Props.C06.outsOk_nil
#print axioms Memchr.Props.C06.outsOk_cons
#print axioms Memchr.Props.C06.refines_backend
#print axioms Memchr.Props.C06.refines_cfg
#print axioms Memchr.Props.C06.none_forever
#print axioms Memchr.Props.C06.rawOk_everywhere
#print axioms Memchr.Props.C06.size_hint_bounds
#print axioms Memchr.Props.C06.every_match_exactly_once_cfg
#print axioms Memchr.Props.C06.every_match_exactly_once_backend
#print axioms Memchr.Props.C06.cfg_iter_is_backend_iter
