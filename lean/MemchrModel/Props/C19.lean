/-
C19  Pair selection yields valid, distinct needle offsets for every ranker.
-/
import MemchrModel.Proofs.Pair
import MemchrModel.Proofs.PairFallback
import MemchrModel.Proofs.PairImpure

namespace Memchr.Props.C19

open Memchr

/-- the scan window of `Pair::with_ranker` fits a `u8` index (re-checked against the constants
regenerated from the source: `take(max)` with `max = u8::MAX`, `skip(2)`) -/
theorem scan_window : Generated.pairScanMax ≤ 255 ∧ Generated.pairScanSkip = 2 :=
  ⟨Pair.pairScanMax_le, Pair.pairScanSkip_eq⟩

/-- For EVERY needle and EVERY ranker `rank : u8 → u8` (constant, adversarial, non-injective):
`Pair::with_ranker` returns normally (neither `u8::try_from(i).unwrap()` nor the final
`assert_ne!` can fire), returns `None` exactly when the needle has fewer than 2 bytes, and
otherwise two different offsets inside the needle, both at most 254. -/
theorem with_ranker (needle : Slice) (rank : UInt8 → UInt8) (c : Ctr) :
    ∃ r c', Pair.withRanker needle rank c = .ok r c' ∧
      (r = none ↔ needle.len < 2) ∧
      (∀ p, r = some p → p.ValidFor needle ∧ p.index1.toNat ≤ 254 ∧ p.index2.toNat ≤ 254) ∧
      c'.steps ≤ c.steps + min needle.len 255 ∧ c'.loads = c.loads :=
  Pair.withRanker_correct needle rank c

/-- The same for rankers that are NOT functions of the byte: `HeuristicFrequencyRank::rank` takes
`&self`, so an implementation may have interior state (a call counter in a `Cell`, a `RefCell`,
an atomic, ...) and answer differently each time it is asked about the same byte.  Such a
ranker is an arbitrary state type `σ`, transition `rank : σ → u8 → u8 × σ` and initial state
`s0`; the model `Pair.withRankerS` threads the state through the `rank` calls in the order the
Rust evaluates them.  For EVERY needle and EVERY such ranker the selection returns normally,
`None` exactly below 2 bytes, otherwise two different offsets inside the needle, both at most
254, in at most `min(needle.len(), 255)` steps. -/
theorem with_ranker_impure {σ : Type} (needle : Slice) (rank : σ → UInt8 → UInt8 × σ) (s0 : σ)
    (c : Ctr) :
    ∃ r s' c', Pair.withRankerS needle rank s0 c = .ok (r, s') c' ∧
      (r = none ↔ needle.len < 2) ∧
      (∀ p, r = some p → p.ValidFor needle ∧ p.index1.toNat ≤ 254 ∧ p.index2.toNat ≤ 254) ∧
      c'.steps ≤ c.steps + min needle.len 255 ∧ c'.loads = c.loads :=
  Pair.withRankerS_correct needle rank s0 c

/-- A pure ranker is the special case `σ = Unit`: the stateful model then coincides with
`Pair.withRanker` (same fault, or same answer and counter). -/
theorem with_ranker_impure_extends (needle : Slice) (f : UInt8 → UInt8) (c : Ctr) :
    Pair.withRankerS needle (fun _ b => (f b, ())) () c =
      ((fun r => (r, ())) <$> Pair.withRanker needle f) c :=
  Pair.withRankerS_pure_map needle f c

/-- `Pair::with_indices` accepts exactly the pairs of distinct in-range offsets and reports
the pair it was given. -/
theorem with_indices (needle : Slice) (i1 i2 : UInt8) (p : Pair) :
    Pair.withIndices needle i1 i2 = some p ↔
      p = ⟨i1, i2⟩ ∧ i1 ≠ i2 ∧ i1.toNat < needle.len ∧ i2.toNat < needle.len :=
  Pair.withIndices_eq_some_iff needle i1 i2 p

/-- The portable finder built from a valid pair reports that pair and the needle bytes at it. -/
theorem fallback_reports_pair (needle : Slice) (p : Pair) (hp : p.ValidFor needle) (c : Ctr) :
    Fallback.withPair needle p c =
      .ok (some ⟨p, needle.getD p.index1.toNat, needle.getD p.index2.toNat⟩) c :=
  Fallback.withPair_ok needle p hp c

end Memchr.Props.C19

#print axioms Memchr.Props.C19.scan_window
#print axioms Memchr.Props.C19.with_ranker
#print axioms Memchr.Props.C19.with_ranker_impure
#print axioms Memchr.Props.C19.with_ranker_impure_extends
#print axioms Memchr.Props.C19.with_indices
#print axioms Memchr.Props.C19.fallback_reports_pair
