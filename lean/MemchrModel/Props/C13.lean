/-
C13  Substring search does work linear in haystack plus needle length.

STATUS: PROVED at full strength (headline: `linear_work` at the end of this file).

What is counted.  A "step" is one tick of the model's step counter (`Ctr.steps`).  The model ticks
exactly where hook H2 (`#[cfg(memchr_verif)] crate::verif::tick(kind)`) ticks in the Rust source,
the same number of times on every path:
* one per vector chunk inspected by the generic `memchr` family (`VECTOR_CHUNK`), one per SWAR
  word (`SWAR_WORD`), one per byte of every byte-at-a-time loop (`BYTE`);
* one per 4-byte word (and tail) compared by `is_equal_raw` (`IS_EQUAL`);
* one per Rabin-Karp hash update, construction and rolling (`RK_HASH`);
* one per Two-Way outer iteration and per byte comparison (`TW_ITER`, `TW_CMP`), one per iteration
  of the maximal-suffix computations and of the byte-set / period preprocessing (`TW_SUFFIX`,
  `MISC`);
* one per packed-pair chunk and per candidate confirmed (`PP_CHUNK`, `PP_CANDIDATE`), one per
  iteration of the portable prefilter and of pair selection (`FALLBACK_PRE`, `MISC`);
* one per prefilter call of the meta searcher (`PRE_CALL`).
The kind is ignored: the model has one counter, so every bound below bounds the SUM of all kinds.
The differential driver compares the model's counter with the Rust counters for equality on every
operation, which is what ties the numbers here to the compiled code.

What is not modelled.  Wall-clock time, cache and branch behaviour, the cost of one vector
instruction versus one byte comparison (each is "one step"), allocation.  Shift-Or has no `tick`
hook in its loop and is not reachable from the meta searcher; its loop runs exactly
`haystack.len()` iterations by construction of the model (`ShiftOr.findLoop`).

Contents
* obligations on the generated constants the linearity argument relies on (`MAX_LEN`, the
  Rabin-Karp thresholds, the pair scan limit): changing one of them in `/repo` makes this file fail
  to compile;
* the ingredient bounds: `is_equal_raw` (`n / 4 + 2`), Rabin-Karp (a product, linear below the
  constant thresholds), generic packed pair (a product, linear for needles of at most `MAX_LEN`
  bytes), portable prefilter, pair selection, Two-Way without a prefilter (construction
  `6 * needle.len + 2`, search `3 * haystack.len + 2 * needle.len + 1`, forward and reverse);
* the dispatched `memchr` / `memrchr` family: `scanned + 2` steps (`memchr_cost`, `memrchr_cost`);
* every prefilter strategy: `4 * consumed + 1020` steps per call (`prefilter_cost`);
* Two-Way forward WITH a prefilter, every `PrefilterState`, adaptive shut-off included:
  `1031 * scanned + 2 * needle.len + 1022` (`twoway_pre_cost`);
* the meta searcher: `Searcher::new` `7 * needle.len + 257`, `Searcher::find`
  `1031 * scanned + 17 * needle.len + 2000`, `SearcherRev::new` `7 * needle.len + 2`,
  `SearcherRev::rfind` `3 * scannedRev + 17 * needle.len + 192` (`searcher_*_cost`);
* `Finder::new(..).find(..)`, the one-shot `memmem::find` / `memmem::rfind`
  (`finder_find_cost`, `oneshot_find_cost`, `oneshot_rfind_cost`);
* complete traversals: `find_iter` `2079 * haystack.len + 24 * needle.len + 2000 * k + 3305`,
  `rfind_iter` `23 * haystack.len + 24 * needle.len + 192 * k + 194` for `k` calls of `next()`
  (`find_iter_total_cost`, `rfind_iter_total_cost`);
* the headline `linear_work`: explicit `A = 2079`, `B = 5305` with
  `steps <= A * (haystack.len + needle.len) + B * (matches + 1)` for build + find / rfind / one-shot
  find / rfind / complete `find_iter` / `rfind_iter`, for every configuration, prefilter setting,
  ranker, needle and haystack.

Only statements, one-line proofs from the master lemmas (`Proofs/Cost*.lean`; the arithmetic
rewriting of bounds into linear form is in `Proofs/PropsBridge.lean` and
`Proofs/PropsBridge4.lean`), non-vacuity examples and `#print axioms`.
-/
import MemchrModel.Proofs.IsEqual
import MemchrModel.Proofs.RabinKarp
import MemchrModel.Proofs.PackedPair
import MemchrModel.Proofs.Pair
import MemchrModel.Proofs.PairFallback
import MemchrModel.Proofs.Sensible
import MemchrModel.Proofs.Neon
import MemchrModel.Proofs.PropsBridge
import MemchrModel.Proofs.PropsBridge3
import MemchrModel.Proofs.PropsBridge4
import MemchrModel.Generated.Consts

namespace Memchr.Props.C13

open Memchr

/-! ### obligations on the constants regenerated from the source on every run

If one of these constants is changed in `/repo` (e.g. `MAX_LEN = usize::MAX`, the mutation
mentioned in the property text), the regenerated `Generated/Consts.lean` makes the
corresponding theorem below fail to compile. -/

/-- `MAX_LEN` of `do_packed_search` (`src/memmem/searcher.rs`): the vector searcher only owns
needles of at most 64 bytes (32 in the source), so its confirm-by-memcmp costs a bounded number
of steps per candidate. -/
theorem maxlen_bounded : Generated.packedMaxLen ≤ 64 := by decide

/-- `rabinkarp::is_fast` (`src/arch/all/rabinkarp.rs`): the searcher prefers Rabin-Karp only for
haystacks shorter than a constant of at most 64 bytes (16 in the source). -/
theorem rk_fast_threshold_bounded : Generated.rkFastThreshold ≤ 64 := by decide

/-- the one-shot `memmem::find` / `memmem::rfind` (`src/memmem/mod.rs`) use Rabin-Karp only for
haystacks shorter than a constant of at most 64 bytes (64 in the source), forward and reverse. -/
theorem oneshot_thresholds_bounded :
    Generated.oneshotFwdThreshold ≤ 64 ∧ Generated.oneshotRevThreshold ≤ 64 := by decide

/-- `Pair::with_ranker` scans at most the first 255 needle bytes (`take(u8::MAX)`), so pair
selection costs a bounded number of steps whatever the needle length. -/
theorem pair_scan_bounded : Generated.pairScanMax ≤ 255 := by decide

/-! ### `is_equal_raw` -/

/-- `is_equal_raw(x, y, n)` for every two readable ranges of `n` bytes (any regions, addresses,
alignments, counter state): returns normally with the comparison result in at most `n / 4 + 2`
steps (one per 4-byte word plus the tail). -/
theorem is_equal_raw_cost (mx my : Mem) (x y n : Nat) (c : Ctr)
    (hx1 : mx.base ≤ x) (hx2 : x + n ≤ mx.base + mx.bytes.size)
    (hy1 : my.base ≤ y) (hy2 : y + n ≤ my.base + my.bytes.size) :
    ∃ c', IsEqual.isEqualRaw mx my x y n c = .ok (decide (mx.window x n = my.window y n)) c' ∧
      c'.steps ≤ c.steps + n / 4 + 2 :=
  IsEqual.isEqualRaw_correct mx my x y n c hx1 hx2 hy1 hy2

/-- hypotheses are satisfiable: 6 bytes at addresses 101 and 201 of two small regions -/
example : ∃ (mx my : Mem) (x y n : Nat), mx.base ≤ x ∧ x + n ≤ mx.base + mx.bytes.size ∧
    my.base ≤ y ∧ y + n ≤ my.base + my.bytes.size ∧ 0 < n :=
  ⟨⟨0, 100, #[1, 2, 3, 4, 5, 6, 7]⟩, ⟨1, 200, #[9, 2, 3, 4, 5, 6, 7, 8]⟩, 101, 201, 6,
    by decide, by decide, by decide, by decide, by decide⟩

/-! ### Rabin-Karp -/

/-- Rabin-Karp forward, construction included, for every valid haystack `h` and needle `n`: the
leftmost occurrence in at most `2 * (h.len + 1) * (n.len / 4 + 2) + 2 * n.len` steps. This is a
product of the two lengths (each of the `h.len - n.len + 1` windows may be confirmed by
`is_equal_raw`); the meta searcher only calls Rabin-Karp on haystacks shorter than a constant
(see `rk_fast_threshold_bounded`, `oneshot_thresholds_bounded` and the next theorem). -/
theorem rabinkarp_find_cost (h n : Slice) (c : Ctr) (hh : h.Valid) (hn : n.Valid) :
    ∃ c', (RabinKarp.Finder.new n >>= fun f => f.find h n) c =
        .ok (Spec.leftmost h.toArray n.toArray) c' ∧
      c'.steps ≤ c.steps + 2 * (h.len + 1) * (n.len / 4 + 2) + 2 * n.len :=
  RabinKarp.find_correct h n c hh hn

/-- Rabin-Karp reverse, construction included: the rightmost occurrence within the same bound
(same remark). -/
theorem rabinkarp_rfind_cost (h n : Slice) (c : Ctr) (hh : h.Valid) (hn : n.Valid) :
    ∃ c', (RabinKarp.FinderRev.new n >>= fun f => f.rfind h n) c =
        .ok (Spec.rightmost h.toArray n.toArray) c' ∧
      c'.steps ≤ c.steps + 2 * (h.len + 1) * (n.len / 4 + 2) + 2 * n.len :=
  RabinKarp.rfind_correct h n c hh hn

/-- Rabin-Karp forward on a haystack of at most `T` bytes (every valid haystack and needle,
every `T`): at most `2 * (T + 1) * (n.len / 4 + 2) + 2 * n.len` steps, i.e. linear in the needle
length for the constant thresholds `T = 15` / `T = 63` of the callers. -/
theorem rabinkarp_find_cost_short_haystack (h n : Slice) (c : Ctr) (hh : h.Valid) (hn : n.Valid)
    (T : Nat) (hT : h.len ≤ T) :
    ∃ r c', (RabinKarp.Finder.new n >>= fun f => f.find h n) c = .ok r c' ∧
      c'.steps ≤ c.steps + 2 * (T + 1) * (n.len / 4 + 2) + 2 * n.len :=
  PropsBridge.rabinkarp_find_cost_short h n c hh hn T hT

/-- Reverse version of `rabinkarp_find_cost_short_haystack`. -/
theorem rabinkarp_rfind_cost_short_haystack (h n : Slice) (c : Ctr) (hh : h.Valid) (hn : n.Valid)
    (T : Nat) (hT : h.len ≤ T) :
    ∃ r c', (RabinKarp.FinderRev.new n >>= fun f => f.rfind h n) c = .ok r c' ∧
      c'.steps ≤ c.steps + 2 * (T + 1) * (n.len / 4 + 2) + 2 * n.len :=
  PropsBridge.rabinkarp_rfind_cost_short h n c hh hn T hT

/-- hypotheses are satisfiable: a 5-byte haystack (below both thresholds) and a 3-byte needle -/
example : (⟨⟨0, 4096, #[9, 1, 2, 1, 2, 3, 9]⟩, 1, 5⟩ : Slice).Valid ∧
    (⟨⟨1, 8192, #[7, 1, 2, 3]⟩, 1, 3⟩ : Slice).Valid ∧
    (⟨⟨0, 4096, #[9, 1, 2, 1, 2, 3, 9]⟩, 1, 5⟩ : Slice).len ≤ 15 := by
  simp [Slice.Valid]

/-! ### generic packed pair -/

/-- Packed pair `find` for every lawful `V`, valid haystack and needle, finder built by
`Finder::new(needle, Pair{i1, i2})` with distinct in-range offsets, and haystack of at least
`min_haystack_len` bytes: returns normally in at most
`(len / BYTES + 2) * (1 + BYTES * (needle.len / 4 + 3))` steps (chunks times the worst cost of a
chunk: one step plus up to `BYTES` confirmations by `is_equal_raw`). -/
theorem packedpair_find_cost (V : VecImpl) (L : Lawful V) (hay needle : Slice)
    (hh : hay.Valid) (hn : needle.Valid) (i1 i2 : Nat) (hne : i1 ≠ i2) (h1 : i1 < needle.len)
    (h2 : i2 < needle.len) (f : PackedPair.Finder) (c0 c0' : Ctr)
    (hf : PackedPair.Finder.new V needle i1 i2 c0 = .ok f c0')
    (hlen : f.minHaystackLen ≤ hay.len) (c : Ctr) :
    ∃ r c', PackedPair.find V f hay needle c = .ok r c' ∧
      c'.steps ≤ c.steps + (hay.len / V.bytes + 2) * (1 + V.bytes * (needle.len / 4 + 3)) :=
  PackedPair.find_cost L hay needle hh hn i1 i2 hne h1 h2 f c0 c0' hf hlen c

/-- The same for a needle of at most `N` bytes (every `N`; the searcher guarantees
`N = MAX_LEN`, see `maxlen_bounded`), in explicitly linear form: at most
`(N / 4 + 4) * haystack.len() + 2 * (1 + BYTES * (N / 4 + 3))` steps. With `N = usize::MAX`
(the mutation of the property text) the factor of `haystack.len()` would grow with the needle. -/
theorem packedpair_find_cost_linear (V : VecImpl) (L : Lawful V) (hay needle : Slice)
    (hh : hay.Valid) (hn : needle.Valid) (i1 i2 : Nat) (hne : i1 ≠ i2) (h1 : i1 < needle.len)
    (h2 : i2 < needle.len) (f : PackedPair.Finder) (c0 c0' : Ctr)
    (hf : PackedPair.Finder.new V needle i1 i2 c0 = .ok f c0')
    (hlen : f.minHaystackLen ≤ hay.len) (N : Nat) (hN : needle.len ≤ N) (c : Ctr) :
    ∃ r c', PackedPair.find V f hay needle c = .ok r c' ∧
      c'.steps ≤ c.steps + (N / 4 + 4) * hay.len + 2 * (1 + V.bytes * (N / 4 + 3)) :=
  PropsBridge.packedpair_find_cost_linear L hay needle hh hn i1 i2 hne h1 h2 f c0 c0' hf hlen N hN c

/-- Packed pair `find` with a FOREIGN search needle no longer than the haystack (every lawful
`V`, every `FinderOk` finder, every valid haystack of at least `min_haystack_len` bytes): still
within `findCost` = `((len - min_haystack_len) / BYTES + 2) * (1 + BYTES * (needle.len / 4 + 3))`
steps. -/
theorem packedpair_find_foreign_cost (V : VecImpl) (L : Lawful V) (f : PackedPair.Finder)
    (hok : PackedPair.FinderOk V f) (hay needle : Slice) (hh : hay.Valid) (hn : needle.Valid)
    (hlen : f.minHaystackLen ≤ hay.len) (hnl : needle.len ≤ hay.len) (c : Ctr) :
    ∃ r c', PackedPair.find V f hay needle c = .ok r c' ∧ PackedPair.FindRes' V f hay needle r ∧
      c'.steps ≤ c.steps + PackedPair.findCost V f hay needle :=
  PackedPair.find_foreign_no_fault L f hok hay needle hh hn hlen hnl c

/-- Packed pair `find_prefilter` for every lawful `V`, every `FinderOk` finder and every valid
haystack of at least `min_haystack_len` bytes: one step per chunk inspected - at most
`x / BYTES + 2` steps when it answers `Some(x)`, at most `len / BYTES + 2` when it answers
`None`. (A caller that restarts the prefilter after each candidate therefore pays for the bytes
skipped plus a constant per call.) -/
theorem packedpair_prefilter_cost (V : VecImpl) (L : Lawful V) (f : PackedPair.Finder)
    (hok : PackedPair.FinderOk V f) (hay : Slice) (hh : hay.Valid)
    (hlen : f.minHaystackLen ≤ hay.len) (c : Ctr) :
    ∃ r c', PackedPair.findPrefilter V f hay c = .ok r c' ∧
      (∀ x, r = some x → c'.steps ≤ c.steps + x / V.bytes + 2) ∧
      (r = none → c'.steps ≤ c.steps + hay.len / V.bytes + 2) :=
  PackedPair.findPrefilter_cost L f hok hay hh hlen c

/-- AVX2 instance of `packedpair_find_cost_linear` with the needle bound `MAX_LEN` taken from the
regenerated constants: the step count is at most
`(MAX_LEN / 4 + 4) * haystack.len() + 2 * (1 + 32 * (MAX_LEN / 4 + 3))`. -/
theorem packedpair_find_cost_avx2 (hay needle : Slice)
    (hh : hay.Valid) (hn : needle.Valid) (i1 i2 : Nat) (hne : i1 ≠ i2) (h1 : i1 < needle.len)
    (h2 : i2 < needle.len) (f : PackedPair.Finder) (c0 c0' : Ctr)
    (hf : PackedPair.Finder.new Sensible.avx2 needle i1 i2 c0 = .ok f c0')
    (hlen : f.minHaystackLen ≤ hay.len) (hN : needle.len ≤ Generated.packedMaxLen) (c : Ctr) :
    ∃ r c', PackedPair.find Sensible.avx2 f hay needle c = .ok r c' ∧
      c'.steps ≤ c.steps + (Generated.packedMaxLen / 4 + 4) * hay.len +
        2 * (1 + Sensible.avx2.bytes * (Generated.packedMaxLen / 4 + 3)) :=
  packedpair_find_cost_linear Sensible.avx2 Sensible.lawful_avx2 hay needle hh hn i1 i2 hne h1 h2
    f c0 c0' hf hlen Generated.packedMaxLen hN c

/-- hypotheses are satisfiable (AVX2): needle "abcdefgh" of `8 <= MAX_LEN` bytes, pair `(0, 7)`,
finder with `min_haystack_len = max(8, 7 + 32) = 39`, the 40-byte example haystack -/
example : PackedPair.exHay.Valid ∧ PackedPair.exNeedle.Valid ∧ (0 : Nat) ≠ 7 ∧
    0 < PackedPair.exNeedle.len ∧ 7 < PackedPair.exNeedle.len ∧
    PackedPair.Finder.new Sensible.avx2 PackedPair.exNeedle 0 7 {} =
      .ok (PackedPair.mkFinder Sensible.avx2 PackedPair.exNeedle 0 7) {} ∧
    PackedPair.FinderOk Sensible.avx2 (PackedPair.mkFinder Sensible.avx2 PackedPair.exNeedle 0 7) ∧
    (PackedPair.mkFinder Sensible.avx2 PackedPair.exNeedle 0 7).minHaystackLen ≤
      PackedPair.exHay.len ∧
    PackedPair.exNeedle.len ≤ Generated.packedMaxLen :=
  ⟨by unfold Slice.Valid; decide, by unfold Slice.Valid; decide, by decide, by decide, by decide,
   PackedPair.new_ok _ 0 7 {} (by decide) (by decide), PackedPair.mkFinder_ok _ 0 7 (by decide),
   by decide, by decide⟩

/-! ### portable prefilter and pair selection -/

/-- Portable `find_prefilter` for every `memchr` that finds the first position of a byte within
`scanned + K` steps (`MemchrOk memchr K`: `scanned` = the position found plus one, or the length
when absent), every finder and every valid haystack: the least candidate in at most
`(K + 2) * haystack.len() + K + 1` steps - each loop iteration consumes at least the bytes its
`memchr` call scanned, so restarts do not add up to more than linear work. -/
theorem fallback_prefilter_cost {memchr : UInt8 → Slice → M (Option Nat)} {K : Nat}
    (hm : Fallback.MemchrOk memchr K) (f : Fallback.Finder) (hay : Slice) (hv : hay.Valid)
    (c : Ctr) :
    ∃ r c', Fallback.findPrefilter memchr f hay c = .ok r c' ∧
      Fallback.PreRes f.byte1 f.byte2 f.pair.index1.toNat f.pair.index2.toNat hay r ∧
      c'.steps ≤ c.steps + (K + 2) * hay.len + K + 1 :=
  Fallback.findPrefilter_correct hm f hay hv c

/-- Pair selection `Pair::with_ranker` for EVERY needle and ranker: at most
`min(needle.len(), 255)` steps (and no raw load), whatever the needle length. -/
theorem pair_with_ranker_cost (needle : Slice) (rank : UInt8 → UInt8) (c : Ctr) :
    ∃ r c', Pair.withRanker needle rank c = .ok r c' ∧
      (r = none ↔ needle.len < 2) ∧
      (∀ p, r = some p → p.ValidFor needle ∧ p.index1.toNat ≤ 254 ∧ p.index2.toNat ≤ 254) ∧
      c'.steps ≤ c.steps + min needle.len 255 ∧ c'.loads = c.loads :=
  Pair.withRanker_correct needle rank c

/-- hypotheses of `fallback_prefilter_cost` are satisfiable: the specification `memchr`
(`K = 0`) and a 9-byte haystack -/
example : Fallback.MemchrOk Fallback.specMemchr 0 ∧
    (Slice.ofMem ⟨0, 4096, #[120, 120, 97, 98, 99, 97, 98, 120, 120]⟩).Valid :=
  ⟨Fallback.specMemchr_ok, Nat.le_of_eq (Nat.zero_add _)⟩

/-! ### Two-Way (`src/arch/all/twoway.rs`) -/

/-- **Two-Way forward, construction + search**: `twoway::Finder::new(needle).find(haystack,
needle)` for EVERY valid needle and haystack (periodic needles in haystacks made of their own
near-periods, `a^m` in `(a^(m-1) b)^r`, Fibonacci / Thue-Morse words - there is no side
condition) returns the leftmost occurrence in at most `3 * haystack.len + 8 * needle.len + 3`
steps (one step per byte comparison and per byte-set shift). -/
theorem twoway_find_cost (needle haystack : Slice) (c : Ctr) (hnv : needle.Valid)
    (hhv : haystack.Valid) :
    ∃ c', (TwoWay.Finder.new needle >>= fun tw => TwoWay.Finder.find tw haystack needle) c =
        .ok (Spec.leftmost haystack.toArray needle.toArray) c' ∧
      c'.steps ≤ c.steps + 3 * haystack.len + 8 * needle.len + 3 :=
  TwoWay.find_correct_nopre needle haystack c hnv hhv

/-- **Two-Way reverse, construction + search**: `twoway::FinderRev::new(needle).rfind(haystack,
needle)` for every valid needle and haystack: the rightmost occurrence in at most
`3 * haystack.len + 8 * needle.len + 3` steps. -/
theorem twoway_rfind_cost (needle haystack : Slice) (c : Ctr) (hnv : needle.Valid)
    (hhv : haystack.Valid) :
    ∃ c', (TwoWay.FinderRev.new needle >>= fun tw => TwoWay.FinderRev.rfind tw haystack needle) c =
        .ok (Spec.rightmost haystack.toArray needle.toArray) c' ∧
      c'.steps ≤ c.steps + 3 * haystack.len + 8 * needle.len + 3 :=
  TwoWay.rfind_correct needle haystack c hnv hhv

/-- **Two-Way forward construction alone** (`twoway::Finder::new`: the byte set, two maximal
suffix computations, the period check), for every valid needle: returns normally in at most
`6 * needle.len + 2` steps. -/
theorem twoway_new_cost (needle : Slice) (c : Ctr) (hnv : needle.Valid) :
    ∃ tw c', TwoWay.Finder.new needle c = .ok tw c' ∧
      c'.steps ≤ c.steps + 6 * needle.len + 2 :=
  let ⟨tw, c', h, hs, _⟩ := TwoWay.finder_new_spec needle c hnv
  ⟨tw, c', h, hs⟩

/-- **Two-Way reverse construction alone** (`twoway::FinderRev::new`), for every valid needle:
at most `6 * needle.len + 2` steps. -/
theorem twoway_rev_new_cost (needle : Slice) (c : Ctr) (hnv : needle.Valid) :
    ∃ tw c', TwoWay.FinderRev.new needle c = .ok tw c' ∧
      c'.steps ≤ c.steps + 6 * needle.len + 2 :=
  let ⟨tw, c', h, hs, _⟩ := TwoWay.finderRev_new_spec needle c hnv
  ⟨tw, c', h, hs⟩

/-- **One forward search with an already constructed finder** (how `Finder` and `find_iter` use
Two-Way: construct once, search many times): for every valid needle and haystack and the value
`tw` that `twoway::Finder::new(needle)` returned, `tw.find(haystack, needle)` from any counter
state returns the leftmost occurrence in at most `3 * haystack.len + 2 * needle.len + 1`
steps. -/
theorem twoway_search_cost (needle haystack : Slice) (tw : TwoWay.TwoWay) (c0 c0' : Ctr)
    (hnv : needle.Valid) (hhv : haystack.Valid)
    (hnew : TwoWay.Finder.new needle c0 = .ok tw c0') (c : Ctr) :
    ∃ c', TwoWay.Finder.find tw haystack needle c =
        .ok (Spec.leftmost haystack.toArray needle.toArray) c' ∧
      c'.steps ≤ c.steps + 3 * haystack.len + 2 * needle.len + 1 :=
  Bridge3.twoway_search_cost needle haystack tw c0 c0' hnv hhv hnew c

/-- **One reverse search with an already constructed finder**: likewise for the value returned
by `twoway::FinderRev::new(needle)`. -/
theorem twoway_rsearch_cost (needle haystack : Slice) (tw : TwoWay.TwoWay) (c0 c0' : Ctr)
    (hnv : needle.Valid) (hhv : haystack.Valid)
    (hnew : TwoWay.FinderRev.new needle c0 = .ok tw c0') (c : Ctr) :
    ∃ c', TwoWay.FinderRev.rfind tw haystack needle c =
        .ok (Spec.rightmost haystack.toArray needle.toArray) c' ∧
      c'.steps ≤ c.steps + 3 * haystack.len + 2 * needle.len + 1 :=
  Bridge3.twoway_rsearch_cost needle haystack tw c0 c0' hnv hhv hnew c

/-- hypotheses are satisfiable: the periodic needle "abaab" and the haystack "abaaabaabab" are
valid slices, and `Finder::new` / `FinderRev::new` do return a value for the needle (by
`twoway_new_cost` / `twoway_rev_new_cost`, from every counter state) -/
example :
    let needle := Slice.ofMem ⟨1, 4096, "abaab".toUTF8.data⟩
    let haystack := Slice.ofMem ⟨0, 8192, "abaaabaabab".toUTF8.data⟩
    needle.Valid ∧ haystack.Valid ∧ (∃ tw c', TwoWay.Finder.new needle {} = .ok tw c') ∧
    (∃ tw c', TwoWay.FinderRev.new needle {} = .ok tw c') :=
  have hv : (Slice.ofMem ⟨1, 4096, "abaab".toUTF8.data⟩).Valid := by unfold Slice.Valid; decide
  ⟨hv, by unfold Slice.Valid; decide,
   let ⟨tw, c', h, _⟩ := twoway_new_cost _ {} hv; ⟨tw, c', h⟩,
   let ⟨tw, c', h, _⟩ := twoway_rev_new_cost _ {} hv; ⟨tw, c', h⟩⟩

/-! ### the dispatched `memchr` family (`src/memchr.rs`, every backend) -/

section Full

open Memchr.Memmem

/-- **`memchr` / `memchr2` / `memchr3`** of every build + CPU configuration `cfg` (every backend:
the generic vector routine on SSE2 / AVX2 / NEON / simd128 including the wrappers' byte loops, and
SWAR), every needle set `ns` (1 to 3 bytes), every valid haystack and counter state: returns the
index of the first needle byte without a fault in at most `scanned + 2` steps, where `scanned` =
index + 1, or `haystack.len()` when there is none.  Counted: vector chunks, SWAR words, byte-loop
bytes. -/
theorem memchr_cost (cfg : Api.Cfg) (ns : Needles) (hay : Slice) (hv : hay.Valid) (c : Ctr) :
    ∃ c', Api.memchr cfg ns false hay c = .ok (Api.specIdx ns false hay) c' ∧
      c'.steps ≤ c.steps + Api.scannedFwd (Api.specIdx ns false hay) hay.len + 2 :=
  Cost.memchr cfg ns hay hv c

/-- **`memrchr` / `memrchr2` / `memrchr3`**, likewise: the index of the last needle byte in at
most `scanned + 2` steps, `scanned` = `haystack.len()` - index, or `haystack.len()` when there is
none. -/
theorem memrchr_cost (cfg : Api.Cfg) (ns : Needles) (hay : Slice) (hv : hay.Valid) (c : Ctr) :
    ∃ c', Api.memchr cfg ns true hay c = .ok (Api.specIdx ns true hay) c' ∧
      c'.steps ≤ c.steps + Api.scannedRev (Api.specIdx ns true hay) hay.len + 2 :=
  Cost.memrchr cfg ns hay hv c

/-- hypotheses are satisfiable: a 9-byte haystack -/
example : (Slice.ofMem ⟨0, 4096, #[120, 120, 97, 98, 99, 97, 98, 120, 120]⟩).Valid :=
  Nat.le_of_eq (Nat.zero_add _)

/-! ### prefilters and Two-Way with a prefilter -/

/-- **Every prefilter strategy `Searcher::new` can build** (`p.GoodFor n`: the portable
packed-pair prefilter on top of the dispatched `memchr`, a vector `find_prefilter`, or
`find_simple` for haystacks below `min_haystack_len`), for every configuration, valid needle and
valid haystack: one call returns normally, is sound (every occurrence `q` of the needle forces a
candidate `a <= q`), a candidate lies inside the haystack, and the call costs at most
`4 * consumed + 1020` steps, `consumed` = candidate offset + 1, or `haystack.len()` when there is
no candidate.  (The constant 1020 comes from the pair offsets being `u8`s.) -/
theorem prefilter_cost (cfg : Api.Cfg) {n : Slice} (hn : n.Valid) {p : Prefilter}
    (hg : p.GoodFor n) (hay : Slice) (hh : hay.Valid) (c : Ctr) :
    ∃ r c', p.find cfg hay c = .ok r c' ∧
      (∀ q, Spec.OccAt hay.toArray n.toArray q → ∃ a, r = some a ∧ a ≤ q) ∧
      (∀ x, r = some x → x < hay.len) ∧
      c'.steps ≤ c.steps + 4 * Fallback.scanned r hay.len + 1020 :=
  Cost.prefilter cfg hn hg hay hh c

/-- **Two-Way forward WITH a prefilter** (`find_with_prefilter(pre, haystack, n)`, the case the
adaptive shut-off `PrefilterState::is_effective` exists for).  Quantified over: every valid needle
`n0` with the finder `tw` that `twoway::Finder::new(n0)` returned, every valid search needle `n`
holding the bytes of `n0`, every valid haystack, and `pre = None` or ANY `Pre` (any
`PrefilterState`: any `skips` / `skipped` counters, inert or not) whose strategy is sound on every
valid haystack (`hsound`) and costs at most `4 * consumed + 1020` steps per call with candidates
inside the slice (`hcost`, `TwoWay.StratCost`; both hold for every strategy of `prefilter_cost`).
Conclusion: the leftmost occurrence, no fault, at most
`1031 * scanned + 2 * needle.len() + 1022` steps, `scanned` = answer + 1, or `haystack.len()` for
`None`.  Counted: Two-Way iterations and comparisons, prefilter calls and everything they tick. -/
theorem twoway_pre_cost (n0 n hay : Slice) (tw : TwoWay.TwoWay) (c0 c0' : Ctr)
    (hn0 : n0.Valid) (hn : n.Valid) (hh : hay.Valid) (hbytes : n.toList = n0.toList)
    (hnew : TwoWay.Finder.new n0 c0 = .ok tw c0') (pre : Option Pre)
    (hsound : ∀ p, pre = some p → ∀ h' : Slice, h'.Valid → ∀ c, ∃ r c', p.strat h' c = .ok r c' ∧
      ∀ q, Spec.OccAt h'.toArray n.toArray q → ∃ a, r = some a ∧ a ≤ q)
    (hcost : ∀ p, pre = some p → TwoWay.StratCost p.strat) (c : Ctr) :
    ∃ pre' c', TwoWay.Finder.findWithPrefilter tw pre hay n c =
        .ok (Spec.leftmost hay.toArray n.toArray, pre') c' ∧
      c'.steps ≤ c.steps + 1031 * Fallback.scanned (Spec.leftmost hay.toArray n.toArray) hay.len +
        2 * n.len + 1022 :=
  Cost.twoway_pre n0 n hay tw c0 c0' hn0 hn hh hbytes hnew pre hsound hcost c

/-- hypotheses of `twoway_pre_cost` are satisfiable: valid slices, a finder exists, and `pre =
None` satisfies `hsound` / `hcost` vacuously; the strategy "never a candidate restriction"
(`fun _ => pure none`) has the required cost, and so has every strategy of `prefilter_cost` -/
example : Cost.exNeedle.Valid ∧ Cost.exHay.Valid ∧ Cost.exNeedle.toList = Cost.exNeedle.toList ∧
    (∃ tw c0', TwoWay.Finder.new Cost.exNeedle {} = .ok tw c0') ∧
    (∀ p : Pre, (none : Option Pre) = some p → TwoWay.StratCost p.strat) ∧
    TwoWay.StratCost (fun _ => pure none) ∧
    (∀ (cfg : Api.Cfg) (p : Prefilter), p.GoodFor Cost.exNeedle → TwoWay.StratCost (p.find cfg)) :=
  ⟨Cost.exNeedle_valid, Cost.exHay_valid, rfl,
   let ⟨tw, c', h, _⟩ := twoway_new_cost Cost.exNeedle {} Cost.exNeedle_valid; ⟨tw, c', h⟩,
   (fun _ h => nomatch h), TwoWay.stratCost_none,
   fun cfg _ hg sub hv => Cost.prefilter_costs cfg Cost.exNeedle_valid hg sub hv⟩

/-! ### the meta searcher (`src/memmem/searcher.rs`) -/

/-- **`Searcher::new(prefilter, ranker, needle)`** for every configuration, prefilter setting
(`none` / `auto`), ranker and valid needle: returns normally a searcher that is good for the needle
and gives the vector (packed pair) kind only needles of at most `MAX_LEN` bytes, in at most
`7 * needle.len() + 257` steps.  Counted: Rabin-Karp hash construction, pair selection, Two-Way
preprocessing. -/
theorem searcher_new_cost (cfg : Api.Cfg) (pf : PrefilterConfig) (rank : UInt8 → UInt8)
    (needle : Slice) (hn : needle.Valid) (c : Ctr) :
    ∃ s c', Searcher.new cfg pf rank needle c = .ok s c' ∧ s.GoodFor needle ∧
      PackedOk needle s ∧ c'.steps ≤ c.steps + 7 * needle.len + 257 :=
  Cost.searcher_new cfg pf rank needle hn c

/-- **`Searcher::find`** for the searcher `s` that `Searcher::new` returned for `n0` (any
configuration, prefilter setting, ranker), every valid search needle `n` holding the bytes of
`n0`, every valid haystack, EVERY `PrefilterState` and counter state - every strategy: empty
needle, one byte (`memchr`), Rabin-Karp on short haystacks, packed pair, Two-Way with or without a
prefilter: the leftmost occurrence without a fault in at most
`1031 * scanned + 17 * needle.len() + 2000` steps, `scanned` = answer + 1, or `haystack.len()` when
the answer is `None`. -/
theorem searcher_find_cost (cfg : Api.Cfg) (pf : PrefilterConfig) (rank : UInt8 → UInt8)
    (n0 : Slice) (hn0 : n0.Valid) (c0 c0' : Ctr) (s : Searcher)
    (hnew : Searcher.new cfg pf rank n0 c0 = .ok s c0')
    (n hay : Slice) (hn : n.Valid) (hh : hay.Valid) (hb : n.toList = n0.toList)
    (st : PrefilterState) (c : Ctr) :
    ∃ st' c', s.find cfg st hay n c = .ok (Spec.leftmost hay.toArray n.toArray, st') c' ∧
      c'.steps ≤ c.steps + 1031 * Fallback.scanned (Spec.leftmost hay.toArray n.toArray) hay.len +
        17 * n.len + 2000 :=
  Cost.searcher_find cfg pf rank n0 hn0 c0 c0' s hnew n hay hn hh hb st c

/-- **`SearcherRev::new(needle)`** for every valid needle: a reverse searcher that is good for the
needle in at most `7 * needle.len() + 2` steps. -/
theorem searcher_rev_new_cost (needle : Slice) (hn : needle.Valid) (c : Ctr) :
    ∃ s c', SearcherRev.new needle c = .ok s c' ∧ s.GoodFor needle ∧
      c'.steps ≤ c.steps + 7 * needle.len + 2 :=
  Cost.searcher_rev_new needle hn c

/-- **`SearcherRev::rfind`** for the searcher `SearcherRev::new` returned for `n0`, every
configuration, every valid search needle `n` holding the bytes of `n0`, every valid haystack: the
rightmost occurrence in at most `3 * scannedRev + 17 * needle.len() + 192` steps, `scannedRev` =
`haystack.len()` - answer, or `haystack.len()` when the answer is `None`. -/
theorem searcher_rfind_cost (cfg : Api.Cfg) (n0 : Slice) (hn0 : n0.Valid) (c0 c0' : Ctr)
    (s : SearcherRev) (hnew : SearcherRev.new n0 c0 = .ok s c0')
    (n hay : Slice) (hn : n.Valid) (hh : hay.Valid) (hb : n.toList = n0.toList) (c : Ctr) :
    ∃ c', s.rfind cfg hay n c = .ok (Spec.rightmost hay.toArray n.toArray) c' ∧
      c'.steps ≤ c.steps + 3 * Api.scannedRev (Spec.rightmost hay.toArray n.toArray) hay.len +
        17 * n.len + 192 :=
  Cost.searcher_rfind cfg n0 hn0 c0 c0' s hnew n hay hn hh hb c

/-- hypotheses of `searcher_find_cost` / `searcher_rfind_cost` are satisfiable: for every
configuration `Searcher::new` / `SearcherRev::new` do return a searcher for the example needle
"abaab", the slices are valid and the search needle has the bytes of the construction needle -/
example (cfg : Api.Cfg) :
    (∃ s c0', Searcher.new cfg .auto Pair.defaultRank Cost.exNeedle {} = .ok s c0') ∧
    (∃ s c0', SearcherRev.new Cost.exNeedle {} = .ok s c0') ∧
    Cost.exNeedle.Valid ∧ Cost.exHay.Valid ∧ Cost.exNeedle.toList = Cost.exNeedle.toList :=
  ⟨let ⟨s, c', e, _⟩ := searcher_new_cost cfg .auto Pair.defaultRank _ Cost.exNeedle_valid {}
   ⟨s, c', e⟩,
   let ⟨s, c', e, _⟩ := searcher_rev_new_cost _ Cost.exNeedle_valid {}; ⟨s, c', e⟩,
   Cost.exNeedle_valid, Cost.exHay_valid, rfl⟩

/-! ### `Finder` and the one-shot functions (`src/memmem/mod.rs`) -/

/-- **`Finder::new(needle).find(haystack)`**, construction included, every configuration, valid
needle and haystack: the leftmost occurrence in at most
`1031 * scanned + 24 * needle.len() + 2257` steps. -/
theorem finder_find_cost (cfg : Api.Cfg) (needle hay : Slice) (hn : needle.Valid)
    (hh : hay.Valid) (c : Ctr) :
    ∃ c', (Finder.new cfg needle >>= fun f => f.find cfg hay) c =
        .ok (Spec.leftmost hay.toArray needle.toArray) c' ∧
      c'.steps ≤ c.steps +
        1031 * Fallback.scanned (Spec.leftmost hay.toArray needle.toArray) hay.len +
        24 * needle.len + 2257 :=
  Cost.finder_find cfg needle hay hn hh c

/-- **The one-shot `memmem::find(haystack, needle)`** (Rabin-Karp below the one-shot threshold,
`Finder::new` + `find` otherwise), every configuration, valid needle and haystack: the leftmost
occurrence in at most `1031 * scanned + 24 * needle.len() + 2257` steps. -/
theorem oneshot_find_cost (cfg : Api.Cfg) (needle hay : Slice) (hn : needle.Valid)
    (hh : hay.Valid) (c : Ctr) :
    ∃ c', Memmem.find cfg hay needle c = .ok (Spec.leftmost hay.toArray needle.toArray) c' ∧
      c'.steps ≤ c.steps +
        1031 * Fallback.scanned (Spec.leftmost hay.toArray needle.toArray) hay.len +
        24 * needle.len + 2257 :=
  Cost.oneshot_find cfg needle hay hn hh c

/-- **The one-shot `memmem::rfind(haystack, needle)`**, likewise: the rightmost occurrence in at
most `3 * scannedRev + 24 * needle.len() + 194` steps. -/
theorem oneshot_rfind_cost (cfg : Api.Cfg) (needle hay : Slice) (hn : needle.Valid)
    (hh : hay.Valid) (c : Ctr) :
    ∃ c', Memmem.rfind cfg hay needle c = .ok (Spec.rightmost hay.toArray needle.toArray) c' ∧
      c'.steps ≤ c.steps +
        3 * Api.scannedRev (Spec.rightmost hay.toArray needle.toArray) hay.len +
        24 * needle.len + 194 :=
  Cost.oneshot_rfind cfg needle hay hn hh c

/-! ### complete iterator traversals -/

/-- **A complete `find_iter` traversal.**  Build a finder with any builder `b` (prefilter setting)
and ranker in any configuration, then call `next()` `k` times on `finder.find_iter(haystack)`, for
every `k` up to `matches + 1` (`matches` = length of the greedy non-overlapping match sequence; `k
= matches + 1` is the complete traversal: all matches and the first `None`), every valid needle
and haystack, heap and counter state: the observations are the first `k` entries of the greedy
match sequence (then `None`), and the whole run - construction and all restarts included - costs
at most `2079 * haystack.len + 24 * needle.len + 2000 * k + 3305` steps. -/
theorem find_iter_total_cost (cfg : Api.Cfg) (b : FinderBuilder) (rank : UInt8 → UInt8)
    (needle hay : Slice) (hn : needle.Valid) (hh : hay.Valid) (k : Nat)
    (hk : k ≤ (Spec.greedyFwd hay.toArray needle.toArray).length + 1) (h : Heap) (c : Ctr) :
    ∃ it' h' c', (b.buildForwardWithRanker cfg rank needle >>= fun f =>
        FindIter.run cfg (List.replicate k .next) (f.findIter hay) h) c =
        .ok ((List.range k).map
          (fun i => Out.idx ((Spec.greedyFwd hay.toArray needle.toArray)[i]?)), it', h') c' ∧
      c'.steps ≤ c.steps + 2079 * hay.len + 24 * needle.len + 2000 * k + 3305 :=
  Cost.find_iter_total cfg b rank needle hay hn hh k hk h c

/-- **A complete `rfind_iter` traversal.**  `FinderRev::new(needle)`, then `k` calls of `next()`
on `finder.rfind_iter(haystack)` for every `k` up to the number of reverse greedy matches plus
one: the observations are the first `k` entries of the reverse greedy match sequence (then
`None`), and the whole run - construction included - costs at most
`23 * haystack.len + 24 * needle.len + 192 * k + 194` steps. -/
theorem rfind_iter_total_cost (cfg : Api.Cfg) (needle hay : Slice) (hn : needle.Valid)
    (hh : hay.Valid) (k : Nat)
    (hk : k ≤ (Spec.greedyRev hay.toArray needle.toArray).length + 1) (h : Heap) (c : Ctr) :
    ∃ it' h' c', (FinderRev.new needle >>= fun f =>
        FindRevIter.run cfg (List.replicate k .next) (f.rfindIter hay) h) c =
        .ok ((List.range k).map
          (fun i => Out.idx ((Spec.greedyRev hay.toArray needle.toArray)[i]?)), it', h') c' ∧
      c'.steps ≤ c.steps + 23 * hay.len + 24 * needle.len + 192 * k + 194 :=
  Cost.rfind_iter_total cfg needle hay hn hh k hk h c

/-! ### the headline -/

/-- the number of matches `find_iter` reports is at most `haystack.len() + 1` (attained by the
empty needle), for every needle and every valid haystack; so the `matches` term of `linear_work`
is itself linear in the haystack length -/
theorem match_count_le (needle hay : Slice) (hh : hay.Valid) :
    (Spec.greedyFwd hay.toArray needle.toArray).length ≤ hay.len + 1 :=
  Slice.toArray_size hh ▸ Bridge3.greedyFwd_length_le hay.toArray needle.toArray

/-- **C13, linear work.**  There are explicit constants `A = 2079` and `B = 5305`, chosen before
and independently of everything else, such that for EVERY build + CPU configuration `cfg`, every
builder `b` (prefilter setting `none` / `auto`), every ranker, every valid needle and every valid
haystack (no side condition: periodic needles, `a^m` in `(a^(m-1) b)^r`, two rare bytes recurring
at every position, a candidate-free prefix followed by dense false candidates, ...), with
`matchCount` = the number of non-overlapping matches `find_iter` reports
(`(Spec.greedyFwd ..).length`) and

  `budget = A * (haystack.len + needle.len) + B * (matchCount + 1)`,

from every heap and counter state each of the following returns normally, with exactly the
specified result, having ticked the step counter at most `budget` times, construction included:
1. `b.build_forward_with_ranker(ranker, needle)` then `find(haystack)`: the leftmost occurrence;
2. `FinderRev::new(needle)` then `rfind(haystack)`: the rightmost occurrence;
3. the one-shot `memmem::find(haystack, needle)`;
4. the one-shot `memmem::rfind(haystack, needle)`;
5. build a finder, then `k` calls of `next()` on `find_iter(haystack)`, for every `k` up to
   `matchCount + 1` (the complete traversal: every match, then the first `None`);
6. `FinderRev::new(needle)`, then `k` calls of `next()` on `rfind_iter(haystack)`, for every `k`
   up to the number of matches `rfind_iter` reports plus one (the complete reverse traversal).
A step is a tick of the model counter, placed where hook H2 ticks in the Rust (see the file
header).  For a non-empty needle `matchCount <= haystack.len / needle.len`, and always
`matchCount <= haystack.len + 1` (`Bridge3.greedyFwd_length_le_div`, `match_count_le`), so
`budget <= (A + B) * (haystack.len + needle.len) + 2 * B`: no input family makes the work
quadratic. -/
theorem linear_work :
    ∃ A B : Nat, A = 2079 ∧ B = 5305 ∧
      ∀ (cfg : Api.Cfg) (b : FinderBuilder) (rank : UInt8 → UInt8) (needle hay : Slice),
        needle.Valid → hay.Valid →
      ∀ (matchCount budget : Nat),
        matchCount = (Spec.greedyFwd hay.toArray needle.toArray).length →
        budget = A * (hay.len + needle.len) + B * (matchCount + 1) →
      ∀ (h : Heap) (c : Ctr),
        (∃ c', (b.buildForwardWithRanker cfg rank needle >>= fun f => f.find cfg hay) c =
            .ok (Spec.leftmost hay.toArray needle.toArray) c' ∧
          c'.steps ≤ c.steps + budget) ∧
        (∃ c', (FinderRev.new needle >>= fun f => f.rfind cfg hay) c =
            .ok (Spec.rightmost hay.toArray needle.toArray) c' ∧
          c'.steps ≤ c.steps + budget) ∧
        (∃ c', Memmem.find cfg hay needle c =
            .ok (Spec.leftmost hay.toArray needle.toArray) c' ∧
          c'.steps ≤ c.steps + budget) ∧
        (∃ c', Memmem.rfind cfg hay needle c =
            .ok (Spec.rightmost hay.toArray needle.toArray) c' ∧
          c'.steps ≤ c.steps + budget) ∧
        (∀ k, k ≤ matchCount + 1 →
          ∃ it' h' c', (b.buildForwardWithRanker cfg rank needle >>= fun f =>
              FindIter.run cfg (List.replicate k .next) (f.findIter hay) h) c =
              .ok ((List.range k).map
                (fun i => Out.idx ((Spec.greedyFwd hay.toArray needle.toArray)[i]?)), it', h') c' ∧
            c'.steps ≤ c.steps + budget) ∧
        (∀ k, k ≤ (Spec.greedyRev hay.toArray needle.toArray).length + 1 →
          ∃ it' h' c', (FinderRev.new needle >>= fun f =>
              FindRevIter.run cfg (List.replicate k .next) (f.rfindIter hay) h) c =
              .ok ((List.range k).map
                (fun i => Out.idx ((Spec.greedyRev hay.toArray needle.toArray)[i]?)), it', h') c' ∧
            c'.steps ≤ c.steps + budget) :=
  Bridge4.linear_work

/-- the hypotheses of `linear_work` are satisfiable by a non-trivial input: the periodic needle
"abaab" and the haystack "abaaabaabab" are valid slices, the needle occurs (leftmost at offset 4),
`matchCount = 1`, and the budget for this input is `2079 * (11 + 5) + 5305 * 2 = 43874` -/
example : Cost.exNeedle.Valid ∧ Cost.exHay.Valid ∧
    Spec.leftmost Cost.exHay.toArray Cost.exNeedle.toArray = some 4 ∧
    (1 : Nat) = (Spec.greedyFwd Cost.exHay.toArray Cost.exNeedle.toArray).length ∧
    (43874 : Nat) = 2079 * (Cost.exHay.len + Cost.exNeedle.len) + 5305 * (1 + 1) :=
  ⟨Cost.exNeedle_valid, Cost.exHay_valid, by decide, by decide, by decide⟩

end Full

end Memchr.Props.C13

#print axioms Memchr.Props.C13.maxlen_bounded
#print axioms Memchr.Props.C13.rk_fast_threshold_bounded
#print axioms Memchr.Props.C13.oneshot_thresholds_bounded
#print axioms Memchr.Props.C13.pair_scan_bounded
#print axioms Memchr.Props.C13.is_equal_raw_cost
#print axioms Memchr.Props.C13.rabinkarp_find_cost
#print axioms Memchr.Props.C13.rabinkarp_rfind_cost
#print axioms Memchr.Props.C13.rabinkarp_find_cost_short_haystack
#print axioms Memchr.Props.C13.rabinkarp_rfind_cost_short_haystack
#print axioms Memchr.Props.C13.packedpair_find_cost
#print axioms Memchr.Props.C13.packedpair_find_cost_linear
#print axioms Memchr.Props.C13.packedpair_find_foreign_cost
#print axioms Memchr.Props.C13.packedpair_prefilter_cost
#print axioms Memchr.Props.C13.packedpair_find_cost_avx2
#print axioms Memchr.Props.C13.fallback_prefilter_cost
#print axioms Memchr.Props.C13.pair_with_ranker_cost
#print axioms Memchr.Props.C13.twoway_find_cost
#print axioms Memchr.Props.C13.twoway_rfind_cost
#print axioms Memchr.Props.C13.twoway_new_cost
#print axioms Memchr.Props.C13.twoway_rev_new_cost
#print axioms Memchr.Props.C13.twoway_search_cost
#print axioms Memchr.Props.C13.twoway_rsearch_cost
#print axioms Memchr.Props.C13.memchr_cost
#print axioms Memchr.Props.C13.memrchr_cost
#print axioms Memchr.Props.C13.prefilter_cost
#print axioms Memchr.Props.C13.twoway_pre_cost
#print axioms Memchr.Props.C13.searcher_new_cost
#print axioms Memchr.Props.C13.searcher_find_cost
#print axioms Memchr.Props.C13.searcher_rev_new_cost
#print axioms Memchr.Props.C13.searcher_rfind_cost
#print axioms Memchr.Props.C13.finder_find_cost
#print axioms Memchr.Props.C13.oneshot_find_cost
#print axioms Memchr.Props.C13.oneshot_rfind_cost
#print axioms Memchr.Props.C13.find_iter_total_cost
#print axioms Memchr.Props.C13.rfind_iter_total_cost
#print axioms Memchr.Props.C13.match_count_le
#print axioms Memchr.Props.C13.linear_work
