/-
C13  Substring search does work linear in haystack plus needle length.

STATUS: PARTIAL.  This file states every step-count bound that is proved today (the step
counter ticks exactly where the Rust has a `crate::verif::tick` hook) and the obligations on
the generated constants that the linearity argument relies on.

Proved here
* Two-Way, the searcher behind every needle the vector searcher does not own: construction
  (forward and reverse) `6 * needle.len + 2` steps; one search with a constructed finder
  `3 * haystack.len + 2 * needle.len + 1` steps; construction + search
  `3 * haystack.len + 8 * needle.len + 3` steps - for EVERY needle and haystack, forward (without
  a prefilter) and reverse: no input family makes Two-Way quadratic;
* `is_equal_raw` (the confirm-by-memcmp): `n / 4 + 2` steps;
* Rabin-Karp forward / reverse: `2 * (h.len + 1) * (n.len / 4 + 2) + 2 * n.len` steps,
  construction included - a product, but the meta searcher only calls Rabin-Karp on haystacks
  shorter than a constant (`rk_fast_threshold_bounded`, `oneshot_thresholds_bounded`), which
  makes it `constant * needle.len() + constant` (`rabinkarp_*_cost_short_haystack`);
* generic packed pair `find`: `(len / BYTES + 2) * (1 + BYTES * (needle.len / 4 + 3))` steps -
  again a product, but the meta searcher only gives the vector searcher needles of at most
  `MAX_LEN` bytes (`maxlen_bounded`), which makes it `constant * haystack.len() + constant`
  (`packedpair_find_cost_linear`); `find_prefilter`: one step per chunk;
* portable prefilter: `(K + 2) * haystack.len() + K + 1` steps for a `memchr` whose own cost is
  `scanned + K`;
* pair selection: `min(needle.len(), 255)` steps (`pair_scan_bounded`).

STILL MISSING (C13 is not fully proved)
* the cost of the forward Two-Way search WITH a prefilter (`find_with_prefilter` with
  `Some(pre)`): its value is proved for every prefilter state (`Props/C03`, `Props/C12`), its step
  count is not - the argument needs that the adaptive shut-off (`PrefilterState::is_effective`,
  C14) bounds the total prefilter work by a constant times the bytes skipped;
* the cost of the dispatched `memchr` / `memrchr` (one-byte needles, and the `memchr` inside the
  portable prefilter, whose bound here is parametric in `MemchrOk memchr K`): C01/C02 state
  values, no step bounds;
* the meta searcher totals (`src/memmem/searcher.rs`): values are proved for every branch
  (`Props/C03`, `Props/C04`), and each branch's ingredient has a bound in this file (Rabin-Karp
  only below the thresholds, packed pair only for needles of `2..=MAX_LEN` bytes, Two-Way without
  prefilter), but the composed bound for `Searcher::new` + `Searcher::find` / `SearcherRev` is not
  stated as one theorem;
* totals for a complete `find_iter` / `rfind_iter` traversal (the sum over the restarts);
* Shift-Or has no `tick` hook in its loop (it is not reachable from the meta searcher), so no
  step bound is stated for it; its loop runs exactly `haystack.len()` iterations by
  construction of the model (`ShiftOr.findLoop`).

Only statements, one-line proofs from the master lemmas (the arithmetic rewriting of two bounds
into linear form is in `Proofs/PropsBridge.lean`), non-vacuity examples and `#print axioms`.
-/
import MemchrModel.Proofs.IsEqual
import MemchrModel.Proofs.RabinKarp
import MemchrModel.Proofs.PackedPair
import MemchrModel.Proofs.Pair
import MemchrModel.Proofs.PairFallback
import MemchrModel.Proofs.Sensible
import MemchrModel.Proofs.Neon
import MemchrModel.Proofs.PropsBridge
import MemchrModel.Proofs.PropsBridge3
import MemchrModel.Generated.Consts

namespace Memchr.Props.C13

open Memchr

/-! ### obligations on the constants regenerated from the source on every run

If one of these constants is changed in `/repo` (e.g. `MAX_LEN = usize::MAX`, the mutation
mentioned in the property text), the regenerated `Generated/Consts.lean` makes the
corresponding theorem below fail to compile. -/

/-- `MAX_LEN` of `do_packed_search` (`src/memmem/searcher.rs`): the vector searcher only owns
needles of at most 64 bytes (32 in the source), so its confirm-by-memcmp costs a bounded number
of steps per candidate. -/
theorem maxlen_bounded : Generated.packedMaxLen ≤ 64 := by decide

/-- `rabinkarp::is_fast` (`src/arch/all/rabinkarp.rs`): the searcher prefers Rabin-Karp only for
haystacks shorter than a constant of at most 64 bytes (16 in the source). -/
theorem rk_fast_threshold_bounded : Generated.rkFastThreshold ≤ 64 := by decide

/-- the one-shot `memmem::find` / `memmem::rfind` (`src/memmem/mod.rs`) use Rabin-Karp only for
haystacks shorter than a constant of at most 64 bytes (64 in the source), forward and reverse. -/
theorem oneshot_thresholds_bounded :
    Generated.oneshotFwdThreshold ≤ 64 ∧ Generated.oneshotRevThreshold ≤ 64 := by decide

/-- `Pair::with_ranker` scans at most the first 255 needle bytes (`take(u8::MAX)`), so pair
selection costs a bounded number of steps whatever the needle length. -/
theorem pair_scan_bounded : Generated.pairScanMax ≤ 255 := by decide

/-! ### `is_equal_raw` -/

/-- `is_equal_raw(x, y, n)` for every two readable ranges of `n` bytes (any regions, addresses,
alignments, counter state): returns normally with the comparison result in at most `n / 4 + 2`
steps (one per 4-byte word plus the tail). -/
theorem is_equal_raw_cost (mx my : Mem) (x y n : Nat) (c : Ctr)
    (hx1 : mx.base ≤ x) (hx2 : x + n ≤ mx.base + mx.bytes.size)
    (hy1 : my.base ≤ y) (hy2 : y + n ≤ my.base + my.bytes.size) :
    ∃ c', IsEqual.isEqualRaw mx my x y n c = .ok (decide (mx.window x n = my.window y n)) c' ∧
      c'.steps ≤ c.steps + n / 4 + 2 :=
  IsEqual.isEqualRaw_correct mx my x y n c hx1 hx2 hy1 hy2

/-- hypotheses are satisfiable: 6 bytes at addresses 101 and 201 of two small regions -/
example : ∃ (mx my : Mem) (x y n : Nat), mx.base ≤ x ∧ x + n ≤ mx.base + mx.bytes.size ∧
    my.base ≤ y ∧ y + n ≤ my.base + my.bytes.size ∧ 0 < n :=
  ⟨⟨0, 100, #[1, 2, 3, 4, 5, 6, 7]⟩, ⟨1, 200, #[9, 2, 3, 4, 5, 6, 7, 8]⟩, 101, 201, 6,
    by decide, by decide, by decide, by decide, by decide⟩

/-! ### Rabin-Karp -/

/-- Rabin-Karp forward, construction included, for every valid haystack `h` and needle `n`: the
leftmost occurrence in at most `2 * (h.len + 1) * (n.len / 4 + 2) + 2 * n.len` steps. This is a
product of the two lengths (each of the `h.len - n.len + 1` windows may be confirmed by
`is_equal_raw`); the meta searcher only calls Rabin-Karp on haystacks shorter than a constant
(see `rk_fast_threshold_bounded`, `oneshot_thresholds_bounded` and the next theorem). -/
theorem rabinkarp_find_cost (h n : Slice) (c : Ctr) (hh : h.Valid) (hn : n.Valid) :
    ∃ c', (RabinKarp.Finder.new n >>= fun f => f.find h n) c =
        .ok (Spec.leftmost h.toArray n.toArray) c' ∧
      c'.steps ≤ c.steps + 2 * (h.len + 1) * (n.len / 4 + 2) + 2 * n.len :=
  RabinKarp.find_correct h n c hh hn

/-- Rabin-Karp reverse, construction included: the rightmost occurrence within the same bound
(same remark). -/
theorem rabinkarp_rfind_cost (h n : Slice) (c : Ctr) (hh : h.Valid) (hn : n.Valid) :
    ∃ c', (RabinKarp.FinderRev.new n >>= fun f => f.rfind h n) c =
        .ok (Spec.rightmost h.toArray n.toArray) c' ∧
      c'.steps ≤ c.steps + 2 * (h.len + 1) * (n.len / 4 + 2) + 2 * n.len :=
  RabinKarp.rfind_correct h n c hh hn

/-- Rabin-Karp forward on a haystack of at most `T` bytes (every valid haystack and needle,
every `T`): at most `2 * (T + 1) * (n.len / 4 + 2) + 2 * n.len` steps, i.e. linear in the needle
length for the constant thresholds `T = 15` / `T = 63` of the callers. -/
theorem rabinkarp_find_cost_short_haystack (h n : Slice) (c : Ctr) (hh : h.Valid) (hn : n.Valid)
    (T : Nat) (hT : h.len ≤ T) :
    ∃ r c', (RabinKarp.Finder.new n >>= fun f => f.find h n) c = .ok r c' ∧
      c'.steps ≤ c.steps + 2 * (T + 1) * (n.len / 4 + 2) + 2 * n.len :=
  PropsBridge.rabinkarp_find_cost_short h n c hh hn T hT

/-- Reverse version of `rabinkarp_find_cost_short_haystack`. -/
theorem rabinkarp_rfind_cost_short_haystack (h n : Slice) (c : Ctr) (hh : h.Valid) (hn : n.Valid)
    (T : Nat) (hT : h.len ≤ T) :
    ∃ r c', (RabinKarp.FinderRev.new n >>= fun f => f.rfind h n) c = .ok r c' ∧
      c'.steps ≤ c.steps + 2 * (T + 1) * (n.len / 4 + 2) + 2 * n.len :=
  PropsBridge.rabinkarp_rfind_cost_short h n c hh hn T hT

/-- hypotheses are satisfiable: a 5-byte haystack (below both thresholds) and a 3-byte needle -/
example : (⟨⟨0, 4096, #[9, 1, 2, 1, 2, 3, 9]⟩, 1, 5⟩ : Slice).Valid ∧
    (⟨⟨1, 8192, #[7, 1, 2, 3]⟩, 1, 3⟩ : Slice).Valid ∧
    (⟨⟨0, 4096, #[9, 1, 2, 1, 2, 3, 9]⟩, 1, 5⟩ : Slice).len ≤ 15 := by
  simp [Slice.Valid]

/-! ### generic packed pair -/

/-- Packed pair `find` for every lawful `V`, valid haystack and needle, finder built by
`Finder::new(needle, Pair{i1, i2})` with distinct in-range offsets, and haystack of at least
`min_haystack_len` bytes: returns normally in at most
`(len / BYTES + 2) * (1 + BYTES * (needle.len / 4 + 3))` steps (chunks times the worst cost of a
chunk: one step plus up to `BYTES` confirmations by `is_equal_raw`). -/
theorem packedpair_find_cost (V : VecImpl) (L : Lawful V) (hay needle : Slice)
    (hh : hay.Valid) (hn : needle.Valid) (i1 i2 : Nat) (hne : i1 ≠ i2) (h1 : i1 < needle.len)
    (h2 : i2 < needle.len) (f : PackedPair.Finder) (c0 c0' : Ctr)
    (hf : PackedPair.Finder.new V needle i1 i2 c0 = .ok f c0')
    (hlen : f.minHaystackLen ≤ hay.len) (c : Ctr) :
    ∃ r c', PackedPair.find V f hay needle c = .ok r c' ∧
      c'.steps ≤ c.steps + (hay.len / V.bytes + 2) * (1 + V.bytes * (needle.len / 4 + 3)) :=
  PackedPair.find_cost L hay needle hh hn i1 i2 hne h1 h2 f c0 c0' hf hlen c

/-- The same for a needle of at most `N` bytes (every `N`; the searcher guarantees
`N = MAX_LEN`, see `maxlen_bounded`), in explicitly linear form: at most
`(N / 4 + 4) * haystack.len() + 2 * (1 + BYTES * (N / 4 + 3))` steps. With `N = usize::MAX`
(the mutation of the property text) the factor of `haystack.len()` would grow with the needle. -/
theorem packedpair_find_cost_linear (V : VecImpl) (L : Lawful V) (hay needle : Slice)
    (hh : hay.Valid) (hn : needle.Valid) (i1 i2 : Nat) (hne : i1 ≠ i2) (h1 : i1 < needle.len)
    (h2 : i2 < needle.len) (f : PackedPair.Finder) (c0 c0' : Ctr)
    (hf : PackedPair.Finder.new V needle i1 i2 c0 = .ok f c0')
    (hlen : f.minHaystackLen ≤ hay.len) (N : Nat) (hN : needle.len ≤ N) (c : Ctr) :
    ∃ r c', PackedPair.find V f hay needle c = .ok r c' ∧
      c'.steps ≤ c.steps + (N / 4 + 4) * hay.len + 2 * (1 + V.bytes * (N / 4 + 3)) :=
  PropsBridge.packedpair_find_cost_linear L hay needle hh hn i1 i2 hne h1 h2 f c0 c0' hf hlen N hN c

/-- Packed pair `find` with a FOREIGN search needle no longer than the haystack (every lawful
`V`, every `FinderOk` finder, every valid haystack of at least `min_haystack_len` bytes): still
within `findCost` = `((len - min_haystack_len) / BYTES + 2) * (1 + BYTES * (needle.len / 4 + 3))`
steps. -/
theorem packedpair_find_foreign_cost (V : VecImpl) (L : Lawful V) (f : PackedPair.Finder)
    (hok : PackedPair.FinderOk V f) (hay needle : Slice) (hh : hay.Valid) (hn : needle.Valid)
    (hlen : f.minHaystackLen ≤ hay.len) (hnl : needle.len ≤ hay.len) (c : Ctr) :
    ∃ r c', PackedPair.find V f hay needle c = .ok r c' ∧ PackedPair.FindRes' V f hay needle r ∧
      c'.steps ≤ c.steps + PackedPair.findCost V f hay needle :=
  PackedPair.find_foreign_no_fault L f hok hay needle hh hn hlen hnl c

/-- Packed pair `find_prefilter` for every lawful `V`, every `FinderOk` finder and every valid
haystack of at least `min_haystack_len` bytes: one step per chunk inspected - at most
`x / BYTES + 2` steps when it answers `Some(x)`, at most `len / BYTES + 2` when it answers
`None`. (A caller that restarts the prefilter after each candidate therefore pays for the bytes
skipped plus a constant per call.) -/
theorem packedpair_prefilter_cost (V : VecImpl) (L : Lawful V) (f : PackedPair.Finder)
    (hok : PackedPair.FinderOk V f) (hay : Slice) (hh : hay.Valid)
    (hlen : f.minHaystackLen ≤ hay.len) (c : Ctr) :
    ∃ r c', PackedPair.findPrefilter V f hay c = .ok r c' ∧
      (∀ x, r = some x → c'.steps ≤ c.steps + x / V.bytes + 2) ∧
      (r = none → c'.steps ≤ c.steps + hay.len / V.bytes + 2) :=
  PackedPair.findPrefilter_cost L f hok hay hh hlen c

/-- AVX2 instance of `packedpair_find_cost_linear` with the needle bound `MAX_LEN` taken from the
regenerated constants: the step count is at most
`(MAX_LEN / 4 + 4) * haystack.len() + 2 * (1 + 32 * (MAX_LEN / 4 + 3))`. -/
theorem packedpair_find_cost_avx2 (hay needle : Slice)
    (hh : hay.Valid) (hn : needle.Valid) (i1 i2 : Nat) (hne : i1 ≠ i2) (h1 : i1 < needle.len)
    (h2 : i2 < needle.len) (f : PackedPair.Finder) (c0 c0' : Ctr)
    (hf : PackedPair.Finder.new Sensible.avx2 needle i1 i2 c0 = .ok f c0')
    (hlen : f.minHaystackLen ≤ hay.len) (hN : needle.len ≤ Generated.packedMaxLen) (c : Ctr) :
    ∃ r c', PackedPair.find Sensible.avx2 f hay needle c = .ok r c' ∧
      c'.steps ≤ c.steps + (Generated.packedMaxLen / 4 + 4) * hay.len +
        2 * (1 + Sensible.avx2.bytes * (Generated.packedMaxLen / 4 + 3)) :=
  packedpair_find_cost_linear Sensible.avx2 Sensible.lawful_avx2 hay needle hh hn i1 i2 hne h1 h2
    f c0 c0' hf hlen Generated.packedMaxLen hN c

/-- hypotheses are satisfiable (AVX2): needle "abcdefgh" of `8 <= MAX_LEN` bytes, pair `(0, 7)`,
finder with `min_haystack_len = max(8, 7 + 32) = 39`, the 40-byte example haystack -/
example : PackedPair.exHay.Valid ∧ PackedPair.exNeedle.Valid ∧ (0 : Nat) ≠ 7 ∧
    0 < PackedPair.exNeedle.len ∧ 7 < PackedPair.exNeedle.len ∧
    PackedPair.Finder.new Sensible.avx2 PackedPair.exNeedle 0 7 {} =
      .ok (PackedPair.mkFinder Sensible.avx2 PackedPair.exNeedle 0 7) {} ∧
    PackedPair.FinderOk Sensible.avx2 (PackedPair.mkFinder Sensible.avx2 PackedPair.exNeedle 0 7) ∧
    (PackedPair.mkFinder Sensible.avx2 PackedPair.exNeedle 0 7).minHaystackLen ≤
      PackedPair.exHay.len ∧
    PackedPair.exNeedle.len ≤ Generated.packedMaxLen :=
  ⟨by unfold Slice.Valid; decide, by unfold Slice.Valid; decide, by decide, by decide, by decide,
   PackedPair.new_ok _ 0 7 {} (by decide) (by decide), PackedPair.mkFinder_ok _ 0 7 (by decide),
   by decide, by decide⟩

/-! ### portable prefilter and pair selection -/

/-- Portable `find_prefilter` for every `memchr` that finds the first position of a byte within
`scanned + K` steps (`MemchrOk memchr K`: `scanned` = the position found plus one, or the length
when absent), every finder and every valid haystack: the least candidate in at most
`(K + 2) * haystack.len() + K + 1` steps - each loop iteration consumes at least the bytes its
`memchr` call scanned, so restarts do not add up to more than linear work. -/
theorem fallback_prefilter_cost {memchr : UInt8 → Slice → M (Option Nat)} {K : Nat}
    (hm : Fallback.MemchrOk memchr K) (f : Fallback.Finder) (hay : Slice) (hv : hay.Valid)
    (c : Ctr) :
    ∃ r c', Fallback.findPrefilter memchr f hay c = .ok r c' ∧
      Fallback.PreRes f.byte1 f.byte2 f.pair.index1.toNat f.pair.index2.toNat hay r ∧
      c'.steps ≤ c.steps + (K + 2) * hay.len + K + 1 :=
  Fallback.findPrefilter_correct hm f hay hv c

/-- Pair selection `Pair::with_ranker` for EVERY needle and ranker: at most
`min(needle.len(), 255)` steps (and no raw load), whatever the needle length. -/
theorem pair_with_ranker_cost (needle : Slice) (rank : UInt8 → UInt8) (c : Ctr) :
    ∃ r c', Pair.withRanker needle rank c = .ok r c' ∧
      (r = none ↔ needle.len < 2) ∧
      (∀ p, r = some p → p.ValidFor needle ∧ p.index1.toNat ≤ 254 ∧ p.index2.toNat ≤ 254) ∧
      c'.steps ≤ c.steps + min needle.len 255 ∧ c'.loads = c.loads :=
  Pair.withRanker_correct needle rank c

/-- hypotheses of `fallback_prefilter_cost` are satisfiable: the specification `memchr`
(`K = 0`) and a 9-byte haystack -/
example : Fallback.MemchrOk Fallback.specMemchr 0 ∧
    (Slice.ofMem ⟨0, 4096, #[120, 120, 97, 98, 99, 97, 98, 120, 120]⟩).Valid :=
  ⟨Fallback.specMemchr_ok, Nat.le_of_eq (Nat.zero_add _)⟩

/-! ### Two-Way (`src/arch/all/twoway.rs`) -/

/-- **Two-Way forward, construction + search**: `twoway::Finder::new(needle).find(haystack,
needle)` for EVERY valid needle and haystack (periodic needles in haystacks made of their own
near-periods, `a^m` in `(a^(m-1) b)^r`, Fibonacci / Thue-Morse words - there is no side
condition) returns the leftmost occurrence in at most `3 * haystack.len + 8 * needle.len + 3`
steps (one step per byte comparison and per byte-set shift). -/
theorem twoway_find_cost (needle haystack : Slice) (c : Ctr) (hnv : needle.Valid)
    (hhv : haystack.Valid) :
    ∃ c', (TwoWay.Finder.new needle >>= fun tw => TwoWay.Finder.find tw haystack needle) c =
        .ok (Spec.leftmost haystack.toArray needle.toArray) c' ∧
      c'.steps ≤ c.steps + 3 * haystack.len + 8 * needle.len + 3 :=
  TwoWay.find_correct_nopre needle haystack c hnv hhv

/-- **Two-Way reverse, construction + search**: `twoway::FinderRev::new(needle).rfind(haystack,
needle)` for every valid needle and haystack: the rightmost occurrence in at most
`3 * haystack.len + 8 * needle.len + 3` steps. -/
theorem twoway_rfind_cost (needle haystack : Slice) (c : Ctr) (hnv : needle.Valid)
    (hhv : haystack.Valid) :
    ∃ c', (TwoWay.FinderRev.new needle >>= fun tw => TwoWay.FinderRev.rfind tw haystack needle) c =
        .ok (Spec.rightmost haystack.toArray needle.toArray) c' ∧
      c'.steps ≤ c.steps + 3 * haystack.len + 8 * needle.len + 3 :=
  TwoWay.rfind_correct needle haystack c hnv hhv

/-- **Two-Way forward construction alone** (`twoway::Finder::new`: the byte set, two maximal
suffix computations, the period check), for every valid needle: returns normally in at most
`6 * needle.len + 2` steps. -/
theorem twoway_new_cost (needle : Slice) (c : Ctr) (hnv : needle.Valid) :
    ∃ tw c', TwoWay.Finder.new needle c = .ok tw c' ∧
      c'.steps ≤ c.steps + 6 * needle.len + 2 :=
  let ⟨tw, c', h, hs, _⟩ := TwoWay.finder_new_spec needle c hnv
  ⟨tw, c', h, hs⟩

/-- **Two-Way reverse construction alone** (`twoway::FinderRev::new`), for every valid needle:
at most `6 * needle.len + 2` steps. -/
theorem twoway_rev_new_cost (needle : Slice) (c : Ctr) (hnv : needle.Valid) :
    ∃ tw c', TwoWay.FinderRev.new needle c = .ok tw c' ∧
      c'.steps ≤ c.steps + 6 * needle.len + 2 :=
  let ⟨tw, c', h, hs, _⟩ := TwoWay.finderRev_new_spec needle c hnv
  ⟨tw, c', h, hs⟩

/-- **One forward search with an already constructed finder** (how `Finder` and `find_iter` use
Two-Way: construct once, search many times): for every valid needle and haystack and the value
`tw` that `twoway::Finder::new(needle)` returned, `tw.find(haystack, needle)` from any counter
state returns the leftmost occurrence in at most `3 * haystack.len + 2 * needle.len + 1`
steps. -/
theorem twoway_search_cost (needle haystack : Slice) (tw : TwoWay.TwoWay) (c0 c0' : Ctr)
    (hnv : needle.Valid) (hhv : haystack.Valid)
    (hnew : TwoWay.Finder.new needle c0 = .ok tw c0') (c : Ctr) :
    ∃ c', TwoWay.Finder.find tw haystack needle c =
        .ok (Spec.leftmost haystack.toArray needle.toArray) c' ∧
      c'.steps ≤ c.steps + 3 * haystack.len + 2 * needle.len + 1 :=
  Bridge3.twoway_search_cost needle haystack tw c0 c0' hnv hhv hnew c

/-- **One reverse search with an already constructed finder**: likewise for the value returned
by `twoway::FinderRev::new(needle)`. -/
theorem twoway_rsearch_cost (needle haystack : Slice) (tw : TwoWay.TwoWay) (c0 c0' : Ctr)
    (hnv : needle.Valid) (hhv : haystack.Valid)
    (hnew : TwoWay.FinderRev.new needle c0 = .ok tw c0') (c : Ctr) :
    ∃ c', TwoWay.FinderRev.rfind tw haystack needle c =
        .ok (Spec.rightmost haystack.toArray needle.toArray) c' ∧
      c'.steps ≤ c.steps + 3 * haystack.len + 2 * needle.len + 1 :=
  Bridge3.twoway_rsearch_cost needle haystack tw c0 c0' hnv hhv hnew c

/-- hypotheses are satisfiable: the periodic needle "abaab" and the haystack "abaaabaabab" are
valid slices, and `Finder::new` / `FinderRev::new` do return a value for the needle (by
`twoway_new_cost` / `twoway_rev_new_cost`, from every counter state) -/
example :
    let needle := Slice.ofMem ⟨1, 4096, "abaab".toUTF8.data⟩
    let haystack := Slice.ofMem ⟨0, 8192, "abaaabaabab".toUTF8.data⟩
    needle.Valid ∧ haystack.Valid ∧ (∃ tw c', TwoWay.Finder.new needle {} = .ok tw c') ∧
    (∃ tw c', TwoWay.FinderRev.new needle {} = .ok tw c') :=
  have hv : (Slice.ofMem ⟨1, 4096, "abaab".toUTF8.data⟩).Valid := by unfold Slice.Valid; decide
  ⟨hv, by unfold Slice.Valid; decide,
   let ⟨tw, c', h, _⟩ := twoway_new_cost _ {} hv; ⟨tw, c', h⟩,
   let ⟨tw, c', h, _⟩ := twoway_rev_new_cost _ {} hv; ⟨tw, c', h⟩⟩

end Memchr.Props.C13

#print axioms Memchr.Props.C13.maxlen_bounded
#print axioms Memchr.Props.C13.rk_fast_threshold_bounded
#print axioms Memchr.Props.C13.oneshot_thresholds_bounded
#print axioms Memchr.Props.C13.pair_scan_bounded
#print axioms Memchr.Props.C13.is_equal_raw_cost
#print axioms Memchr.Props.C13.rabinkarp_find_cost
#print axioms Memchr.Props.C13.rabinkarp_rfind_cost
#print axioms Memchr.Props.C13.rabinkarp_find_cost_short_haystack
#print axioms Memchr.Props.C13.rabinkarp_rfind_cost_short_haystack
#print axioms Memchr.Props.C13.packedpair_find_cost
#print axioms Memchr.Props.C13.packedpair_find_cost_linear
#print axioms Memchr.Props.C13.packedpair_find_foreign_cost
#print axioms Memchr.Props.C13.packedpair_prefilter_cost
#print axioms Memchr.Props.C13.packedpair_find_cost_avx2
#print axioms Memchr.Props.C13.fallback_prefilter_cost
#print axioms Memchr.Props.C13.pair_with_ranker_cost
#print axioms Memchr.Props.C13.twoway_find_cost
#print axioms Memchr.Props.C13.twoway_rfind_cost
#print axioms Memchr.Props.C13.twoway_new_cost
#print axioms Memchr.Props.C13.twoway_rev_new_cost
#print axioms Memchr.Props.C13.twoway_search_cost
#print axioms Memchr.Props.C13.twoway_rsearch_cost
