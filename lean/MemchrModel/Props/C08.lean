/-
C08  Substring iterators yield the greedy non-overlapping match sequence.

For every haystack and needle, `find_iter` yields exactly the offsets obtained by repeatedly
taking the leftmost occurrence and resuming right after its end, and `rfind_iter` yields the
mirror-image sequence from the right; for the empty needle they yield every offset
`0..=haystack.len()` exactly once (ascending resp. descending).  Both terminate, keep returning
`None` afterwards, and `find_iter`'s `size_hint` always brackets the number of matches still to
come.

How the clauses of the property map onto this file

  what the two reference sequences are, in plain terms          `greedy_fwd_unfold`,
    (`Spec.greedyFwd`, `Spec.greedyRev`: the unfolding equations   `next_fwd_some_iff`, `.._none_iff`,
    and what their inner searches mean)                            `greedy_rev_unfold`,
                                                                   `next_rev_some_iff`, `.._none_iff`
  the empty needle: every offset exactly once, ascending /       `greedy_fwd_empty`,
    descending                                                     `greedy_rev_empty`
  `find_iter` yields the forward sequence, then `None` forever   `find_iter_all`, `top_find_iter`
  `rfind_iter` yields the reverse sequence, then `None` forever  `rfind_iter_all`, `top_rfind_iter`
  both terminate: the sequences are finite                       `greedy_fwd_length`,
                                                                   `greedy_rev_length`
  `size_hint` brackets what is still to come, in every           `size_hint`, `size_hint_future`,
    reachable state of the iteration                               `reachable_good`

The iterators are run by the operation machines `FindIter.run` / `FindRevIter.run`
(`Model/Memmem.lean`): a list of operations (`next`, `size_hint`, `clone`, `into_owned`) is
applied to an iterator and the observations are collected; `List.replicate k .next` is "call
`next()` `k` times" and `Out.idx o` is the observation "`next()` returned `o`".  The theorems
hold for EVERY `k`, so for `i` beyond the length of the reference sequence the `i`-th call
returns `None` (`L[i]? = none`): the iterator is fused.

The only hypotheses are `needle.Valid` and `hay.Valid`.  Only statements, one-line proofs from
the master lemmas (`Proofs/Memmem.lean`, `Proofs/SearcherTwoWay.lean`, `Proofs/PropsBridge3.lean`),
non-vacuity examples and `#print axioms`.
-/
import MemchrModel.Proofs.PropsBridge3

namespace Memchr.Props.C08

open Memchr Memchr.Memmem

/-! ### the forward reference sequence `Spec.greedyFwd` in plain terms

`Spec.greedyFwd hay needle` is by definition `Spec.greedyFwdFrom hay needle 0 (hay.len() + 1)`:
the matches from position 0 on (the last argument is recursion fuel; `hay.len() + 1` always
suffices). -/

/-- **Unfolding equation, forward.** The matches from position `pos` on are: nothing, if the
inner search (next two theorems: the least occurrence at or after `pos`) finds none; otherwise
that occurrence `i` followed by the matches from position `i + max(1, needle.len())` on - right
after its end, or one further for the empty needle. -/
theorem greedy_fwd_unfold (hay needle : Array UInt8) (pos : Nat) :
    Spec.greedyFwdFrom hay needle pos (hay.size + 1) =
      match Spec.leftmostFrom hay needle pos (hay.size + 1 - pos) with
      | none => []
      | some i => i :: Spec.greedyFwdFrom hay needle (i + max 1 needle.size) (hay.size + 1) :=
  Bridge3.greedyFwdFrom_unfold hay needle pos

/-- The inner search of the forward sequence returns `Some(r)` exactly when `r >= pos`, the
needle occurs at `r`, and it occurs at no offset in `pos .. r`: the leftmost occurrence at or
after `pos`. -/
theorem next_fwd_some_iff (hay needle : Array UInt8) (pos r : Nat) :
    Spec.leftmostFrom hay needle pos (hay.size + 1 - pos) = some r ↔
      pos ≤ r ∧ Spec.OccAt hay needle r ∧ ∀ j, pos ≤ j → j < r → ¬ Spec.OccAt hay needle j :=
  Bridge3.leftmostFrom_pos_some_iff hay needle pos r

/-- ... and `None` exactly when no occurrence starts at or after `pos`. -/
theorem next_fwd_none_iff (hay needle : Array UInt8) (pos : Nat) :
    Spec.leftmostFrom hay needle pos (hay.size + 1 - pos) = none ↔
      ∀ j, pos ≤ j → ¬ Spec.OccAt hay needle j :=
  Bridge3.leftmostFrom_pos_none_iff hay needle pos

/-- **The empty needle, forward:** the sequence is `[0, 1, .., hay.len()]` - every offset
`0..=hay.len()` exactly once, ascending. -/
theorem greedy_fwd_empty (hay needle : Array UInt8) (h : needle.size = 0) :
    Spec.greedyFwd hay needle = List.range (hay.size + 1) :=
  Bridge3.greedyFwd_empty hay needle h

/-- The forward sequence is finite: at most `hay.len() + 1` matches, and at most
`hay.len() / needle.len()` for a non-empty needle (the matches do not overlap). -/
theorem greedy_fwd_length (hay needle : Array UInt8) :
    (Spec.greedyFwd hay needle).length ≤ hay.size + 1 ∧
    (0 < needle.size → (Spec.greedyFwd hay needle).length ≤ hay.size / needle.size) :=
  ⟨Bridge3.greedyFwd_length_le hay needle, Bridge3.greedyFwd_length_le_div hay needle⟩

/-! ### the reverse reference sequence `Spec.greedyRev` in plain terms

`Spec.greedyRev hay needle` is by definition
`Spec.greedyRevFrom hay needle hay.len() (hay.len() + 1)`: the matches that end at or before
`bound = hay.len()` (the last argument is recursion fuel). -/

/-- **Unfolding equation, reverse.** The matches ending at or before `bound` are: nothing, if
the needle is longer than `bound` or the inner search (next two theorems: the greatest
occurrence that ends at or before `bound`) finds none; otherwise that occurrence `i` followed by
the matches ending at or before `i` (they do not overlap the one just reported) - for the empty
needle, which matched at `i = bound` itself, followed by the matches ending at or before `i - 1`,
stopping after offset 0. -/
theorem greedy_rev_unfold (hay needle : Array UInt8) (bound : Nat) (hb : bound ≤ hay.size) :
    Spec.greedyRevFrom hay needle bound (hay.size + 1) =
      if bound < needle.size then [] else
      match Spec.rightmostBelow hay needle (bound - needle.size + 1) with
      | none => []
      | some i =>
        if needle.size = 0 then
          (if i = 0 then [i] else i :: Spec.greedyRevFrom hay needle (i - 1) (hay.size + 1))
        else i :: Spec.greedyRevFrom hay needle i (hay.size + 1) :=
  Bridge3.greedyRevFrom_unfold hay needle bound hb

/-- The inner search of the reverse sequence returns `Some(r)` exactly when the needle occurs at
`r`, that occurrence ends at or before `bound`, and no occurrence at a larger offset does: the
rightmost occurrence inside `hay[..bound]`. -/
theorem next_rev_some_iff (hay needle : Array UInt8) (bound r : Nat) (hb : needle.size ≤ bound) :
    Spec.rightmostBelow hay needle (bound - needle.size + 1) = some r ↔
      r + needle.size ≤ bound ∧ Spec.OccAt hay needle r ∧
        ∀ j, r < j → j + needle.size ≤ bound → ¬ Spec.OccAt hay needle j :=
  Bridge3.rightmostBelow_bound_some_iff hay needle bound r hb

/-- ... and `None` exactly when no occurrence ends at or before `bound`. -/
theorem next_rev_none_iff (hay needle : Array UInt8) (bound : Nat) (hb : needle.size ≤ bound) :
    Spec.rightmostBelow hay needle (bound - needle.size + 1) = none ↔
      ∀ j, j + needle.size ≤ bound → ¬ Spec.OccAt hay needle j :=
  Bridge3.rightmostBelow_bound_none_iff hay needle bound hb

/-- **The empty needle, reverse:** the sequence is `[hay.len(), .., 1, 0]` - every offset
`0..=hay.len()` exactly once, descending. -/
theorem greedy_rev_empty (hay needle : Array UInt8) (h : needle.size = 0) :
    Spec.greedyRev hay needle = (List.range (hay.size + 1)).reverse :=
  Bridge3.greedyRev_empty hay needle h

/-- The reverse sequence is finite: at most `hay.len() + 1` matches. -/
theorem greedy_rev_length (hay needle : Array UInt8) :
    (Spec.greedyRev hay needle).length ≤ hay.size + 1 :=
  Bridge3.greedyRev_length_le hay needle

/-! ### `find_iter` -/

/-- **`finder.find_iter(haystack)` yields exactly the forward greedy sequence, then `None`
forever.** For every configuration, every `FinderBuilder` finder (prefilter `None` / `Auto`, any
ranker), every valid needle and haystack and EVERY `k`: building the finder and calling `next()`
`k` times on `finder.find_iter(haystack)` returns normally; the `i`-th call (`i < k`) returns
`(Spec.greedyFwd haystack needle)[i]?` - the `i`-th entry of the sequence, `None` once `i` is
past its end (however much later, and whatever the adaptive prefilter did on the early part of
the haystack: its state is carried inside the iterator and never shows); and nothing is
allocated. -/
theorem find_iter_all (cfg : Api.Cfg) (b : FinderBuilder) (rank : UInt8 → UInt8)
    (needle hay : Slice) (hn : needle.Valid) (hh : hay.Valid) (k : Nat) (h : Heap) (c : Ctr) :
    ∃ it' h' c', (b.buildForwardWithRanker cfg rank needle >>= fun f =>
        FindIter.run cfg (List.replicate k .next) (f.findIter hay) h) c =
        .ok ((List.range k).map
          (fun i => Out.idx ((Spec.greedyFwd hay.toArray needle.toArray)[i]?)), it', h') c' ∧
      h'.allocs = h.allocs :=
  Memmem.C08.find_iter_all cfg b rank needle hay hn hh k h c

/-- **The top-level `memmem::find_iter(haystack, needle)`** (it moves a `Finder::new(needle)`
into the iterator instead of borrowing it): the same, for every configuration, valid needle and
haystack and every `k`. -/
theorem top_find_iter (cfg : Api.Cfg) (needle hay : Slice) (hn : needle.Valid)
    (hh : hay.Valid) (k : Nat) (h : Heap) (c : Ctr) :
    ∃ it' h' c', (Memmem.findIter cfg hay needle >>= fun it =>
        FindIter.run cfg (List.replicate k .next) it h) c =
        .ok ((List.range k).map
          (fun i => Out.idx ((Spec.greedyFwd hay.toArray needle.toArray)[i]?)), it', h') c' ∧
      h'.allocs = h.allocs :=
  Memmem.C08.top_find_iter cfg needle hay hn hh (fun _ => twoWayFwdOk) k h c

/-! ### `rfind_iter` -/

/-- **`finder_rev.rfind_iter(haystack)` yields exactly the reverse greedy sequence, then `None`
forever.** For every configuration, valid needle and haystack and EVERY `k`: `FinderRev::new`
and `k` calls of `next()` on `rfind_iter(haystack)` return normally; the `i`-th call returns
`(Spec.greedyRev haystack needle)[i]?`; nothing is allocated. -/
theorem rfind_iter_all (cfg : Api.Cfg) (needle hay : Slice) (hn : needle.Valid)
    (hh : hay.Valid) (k : Nat) (h : Heap) (c : Ctr) :
    ∃ it' h' c', (FinderRev.new needle >>= fun f =>
        FindRevIter.run cfg (List.replicate k .next) (f.rfindIter hay) h) c =
        .ok ((List.range k).map
          (fun i => Out.idx ((Spec.greedyRev hay.toArray needle.toArray)[i]?)), it', h') c' ∧
      h'.allocs = h.allocs :=
  Memmem.C08.rfind_iter_all cfg needle hay hn hh k h c

/-- **The top-level `memmem::rfind_iter(haystack, needle)`**: the same. -/
theorem top_rfind_iter (cfg : Api.Cfg) (needle hay : Slice) (hn : needle.Valid)
    (hh : hay.Valid) (k : Nat) (h : Heap) (c : Ctr) :
    ∃ it' h' c', (Memmem.rfindIter hay needle >>= fun it =>
        FindRevIter.run cfg (List.replicate k .next) it h) c =
        .ok ((List.range k).map
          (fun i => Out.idx ((Spec.greedyRev hay.toArray needle.toArray)[i]?)), it', h') c' ∧
      h'.allocs = h.allocs :=
  Bridge3.top_rfind_iter cfg needle hay hn hh k h c

/-! ### `size_hint` -/

/-- **`FindIter::size_hint` brackets the number of matches still to come, in every state.** For
every forward iterator `it` over `hay` holding a finder for the needle bytes `n0`
(`FindIter.GoodFor`: ANY position, ANY prefilter state, borrowed or owned needle - by
`reachable_good` every state an iteration can reach): the lower bound is at most, and the upper
bound - when there is one - at least, the length of the greedy sequence from the iterator's
position, which by `size_hint_future` is exactly the list of matches its later `next()` calls
return. (`FindRevIter` does not override `size_hint`: it is the trivially correct `(0, None)`,
see `FindRevIter.step`.) -/
theorem size_hint {n0 hay : Slice} (hn0 : n0.Valid) (hh : hay.Valid) {it : FindIter}
    (hg : it.GoodFor n0 hay) :
    it.sizeHint.1 ≤
      (Spec.greedyFwdFrom hay.toArray n0.toArray it.pos (hay.toArray.size + 1)).length ∧
    ∀ hi, it.sizeHint.2 = some hi →
      (Spec.greedyFwdFrom hay.toArray n0.toArray it.pos (hay.toArray.size + 1)).length ≤ hi :=
  Memmem.C08.size_hint hn0 hh hg

/-- The same with the future spelled out: in every good state there is ONE list `L` (the greedy
sequence from the iterator's position) such that for every `k`, `k` further calls of `next()`
return `L[0]?, .., L[k-1]?` (so exactly `L.length` further matches, then `None` forever) and
leave a good state, and `size_hint()` brackets `L.length`. -/
theorem size_hint_future (cfg : Api.Cfg) {n0 hay : Slice} (hn0 : n0.Valid) (hh : hay.Valid)
    {it : FindIter} (hg : it.GoodFor n0 hay) :
    ∃ L : List Nat,
      L = Spec.greedyFwdFrom hay.toArray n0.toArray it.pos (hay.toArray.size + 1) ∧
      (∀ (k : Nat) (h : Heap) (c : Ctr), ∃ it' h' c',
        FindIter.run cfg (List.replicate k .next) it h c =
          .ok ((List.range k).map (fun i => Out.idx (L[i]?)), it', h') c' ∧
        it'.GoodFor n0 hay) ∧
      it.sizeHint.1 ≤ L.length ∧ ∀ hi, it.sizeHint.2 = some hi → L.length ≤ hi :=
  Bridge3.findIter_size_hint_future cfg hn0 hh hg

/-- Every state that `finder.find_iter(haystack)` reaches - after ANY sequence of `next`,
`size_hint`, `clone`, `into_owned` operations, i.e. at every prefix of an iteration - is a good
state, so `size_hint` / `size_hint_future` apply to it. -/
theorem reachable_good (cfg : Api.Cfg) (b : FinderBuilder) (rank : UInt8 → UInt8)
    (needle hay : Slice) (hn : needle.Valid) (hh : hay.Valid) (ops : List IterOp) (h : Heap)
    (c : Ctr) :
    ∃ outs it' h' c', (b.buildForwardWithRanker cfg rank needle >>= fun f =>
        FindIter.run cfg ops (f.findIter hay) h) c = .ok (outs, it', h') c' ∧
      it'.GoodFor needle hay :=
  Bridge3.findIter_reachable_good cfg b rank needle hay hn hh ops h c

/-! ### the hypotheses are satisfiable -/

/-- a self-overlapping needle "aa" in the repetitive haystack "aaaaa", as valid slices (sub-slices
of larger regions at odd addresses); the reference sequences are `[0, 2]` and `[3, 1]` -/
example : (⟨⟨1, 1048577, #[0, 97, 97, 0]⟩, 1, 2⟩ : Slice).Valid ∧
    (⟨⟨0, 4099, #[120, 97, 97, 97, 97, 97, 120]⟩, 1, 5⟩ : Slice).Valid ∧
    Spec.greedyFwd #[97, 97, 97, 97, 97] #[97, 97] = [0, 2] ∧
    Spec.greedyRev #[97, 97, 97, 97, 97] #[97, 97] = [3, 1] := by
  refine ⟨by simp [Slice.Valid], by simp [Slice.Valid], by decide, by decide⟩

/-- the empty needle in "ab": `[0, 1, 2]` and `[2, 1, 0]` -/
example : Spec.greedyFwd #[97, 98] #[] = [0, 1, 2] ∧ Spec.greedyRev #[97, 98] #[] = [2, 1, 0] := by
  decide

/-- a good iterator state exists (hypothesis of `size_hint`): position 3 of a 5-byte haystack,
with a searcher for the empty needle and an arbitrary prefilter state -/
example : FindIter.GoodFor (Slice.ofMem ⟨1, 64, #[]⟩) (Slice.ofMem ⟨0, 4096, Array.replicate 5 97⟩)
    { haystack := Slice.ofMem ⟨0, 4096, Array.replicate 5 97⟩, prestate := ⟨7, 9⟩,
      finder := { needle := CowBytes.new (Slice.ofMem ⟨1, 64, #[]⟩),
                  searcher := { kind := .empty, rabinkarp := RabinKarp.Finder.spec [] } },
      pos := 3 } :=
  ⟨rfl, ⟨by simp [Slice.Valid, Slice.ofMem, CowBytes.new], rfl⟩, rfl, rfl⟩

end Memchr.Props.C08

#print axioms Memchr.Props.C08.greedy_fwd_unfold
#print axioms Memchr.Props.C08.next_fwd_some_iff
#print axioms Memchr.Props.C08.next_fwd_none_iff
#print axioms Memchr.Props.C08.greedy_fwd_empty
#print axioms Memchr.Props.C08.greedy_fwd_length
#print axioms Memchr.Props.C08.greedy_rev_unfold
#print axioms Memchr.Props.C08.next_rev_some_iff
#print axioms Memchr.Props.C08.next_rev_none_iff
#print axioms Memchr.Props.C08.greedy_rev_empty
#print axioms Memchr.Props.C08.greedy_rev_length
#print axioms Memchr.Props.C08.find_iter_all
#print axioms Memchr.Props.C08.top_find_iter
#print axioms Memchr.Props.C08.rfind_iter_all
#print axioms Memchr.Props.C08.top_rfind_iter
#print axioms Memchr.Props.C08.size_hint
#print axioms Memchr.Props.C08.size_hint_future
#print axioms Memchr.Props.C08.reachable_good
