/-
C10  Performance heuristics never change search results.

A substring finder returns the same results whether prefilters are disabled (`Prefilter::None`)
or automatic, and whatever byte-frequency ranker it is built with - including constant,
adversarial or non-injective rankers - for every needle and haystack.  The adaptive decision to
stop using a prefilter mid-search is likewise invisible in the results.

How the clauses of the property map onto this file

  prefilter setting and ranker do not matter (nor does the        `find_indep_all` (searcher level),
    configuration, C09): two searchers for one needle built         `builder_indep_all` (API level)
    with ANY two settings return the same value
  "the adaptive decision is invisible": the two searches may      `find_indep_all` (the two
    start from ANY two `PrefilterState`s - the state is the         states `st`, `st'`)
    whole history of candidate hits / misses that moves the
    prefilter between effective and inert - and still agree
  the adaptive decision itself never faults, in any state         `is_effective_total`
  the branches that never reach Two-Way, on their own             `find_indep`
  the ranker / prefilter setting only ever enter `Searcher::new`  `new_eq_of_vecKind`
    next to a summary `vecKind` of the configuration

The common value is the leftmost occurrence (`Props/C03`, `find_all`: each of the two runs
returns `Spec.leftmost`); here only the agreement is stated, which is what C10 asks.  That the
prefilter state carried by a `find_iter` across calls, and by a reused `Finder`, never shows
either is `Props/C08` (`find_iter_all`) and `Props/C16`.

The ranker is an arbitrary function `UInt8 → UInt8` (all 256^256 of them: constant 0, constant
255, identity, reversed, rankers that make the needle's bytes the most common, ...).  The only
hypotheses are `needle.Valid` and `hay.Valid`.

Only statements, one-line proofs from the master lemmas (`Proofs/Searcher.lean`,
`Proofs/SearcherTwoWay.lean`, `Proofs/Prefilter.lean`), non-vacuity examples and `#print axioms`.
-/
import MemchrModel.Proofs.SearcherTwoWay
import MemchrModel.Proofs.Prefilter

namespace Memchr.Props.C10

open Memchr Memchr.Memmem

/-- **Searcher level: prefilter setting, ranker, configuration and prefilter history are all
invisible.** For ANY two configurations `cfg`, `cfg'`, ANY two prefilter settings `pf`, `pf'`
(`None` / `Auto`), ANY two rankers, every valid needle and haystack, and ANY two prefilter states
`st`, `st'` (every history of the adaptive prefilter: fresh, effective after many skips, inert):
both constructions return normally, and the two searches return normally with the SAME value `v`
(the final prefilter states `t`, `t'` and the counters may differ). -/
theorem find_indep_all (cfg cfg' : Api.Cfg) (pf pf' : PrefilterConfig)
    (rank rank' : UInt8 → UInt8) (needle hay : Slice) (hn : needle.Valid) (hh : hay.Valid)
    (st st' : PrefilterState) (c c' : Ctr) :
    ∃ s s' c1 c1', Searcher.new cfg pf rank needle c = .ok s c1 ∧
      Searcher.new cfg' pf' rank' needle c' = .ok s' c1' ∧
      ∀ c2 c2', ∃ v t t' c3 c3', s.find cfg st hay needle c2 = .ok (v, t) c3 ∧
        s'.find cfg' st' hay needle c2' = .ok (v, t') c3' :=
  Memmem.C10.find_indep_all cfg cfg' pf pf' rank rank' needle hay hn hh st st' c c'

/-- **API level.** Two finders for the same needle built by ANY two `FinderBuilder`s (prefilter
`None` or `Auto`) with ANY two rankers in ANY two configurations: `find(haystack)` returns the
same value `v`, for every valid needle and haystack. -/
theorem builder_indep_all (cfg cfg' : Api.Cfg) (b b' : FinderBuilder)
    (rank rank' : UInt8 → UInt8) (needle hay : Slice) (hn : needle.Valid) (hh : hay.Valid)
    (c c' : Ctr) :
    ∃ v c1 c1', (b.buildForwardWithRanker cfg rank needle >>= fun f => f.find cfg hay) c =
        .ok v c1 ∧
      (b'.buildForwardWithRanker cfg' rank' needle >>= fun f => f.find cfg' hay) c' =
        .ok v c1' :=
  Memmem.C10.builder_indep_all cfg cfg' b b' rank rank' needle hay hn hh c c'

/-- The same as `find_indep_all` for the branches of `Searcher::new` that never reach Two-Way, on
their own (this theorem does not depend on any Two-Way proof). `reachesTwoWay cfg needle` is
"the needle has two or more bytes, and the configuration has no vector packed-pair finder or the
needle is outside `do_packed_search`'s 2..=32 bytes"; its negation leaves the empty needle, one
byte, and the packed vector searcher with its Rabin-Karp path. -/
theorem find_indep (cfg cfg' : Api.Cfg) (pf pf' : PrefilterConfig)
    (rank rank' : UInt8 → UInt8) (needle hay : Slice) (hn : needle.Valid) (hh : hay.Valid)
    (hno : ¬ reachesTwoWay cfg needle) (hno' : ¬ reachesTwoWay cfg' needle)
    (st st' : PrefilterState) (c c' : Ctr) :
    ∃ s s' c1 c1', Searcher.new cfg pf rank needle c = .ok s c1 ∧
      Searcher.new cfg' pf' rank' needle c' = .ok s' c1' ∧
      ∀ c2 c2', ∃ v t t' c3 c3', s.find cfg st hay needle c2 = .ok (v, t) c3 ∧
        s'.find cfg' st' hay needle c2' = .ok (v, t') c3' :=
  Memmem.C10.find_indep cfg cfg' pf pf' rank rank' needle hay hn hh
    (fun h => (h.elim hno hno').elim) st st' c c'

/-- `Searcher::new` looks at the build / CPU configuration only through `vecKind cfg` (which
vector packed-pair finder is available, if any): two configurations with the same `vecKind`
build the same searcher - same value, same steps, same faults - for every prefilter setting,
ranker and needle. So the heuristics (ranker, prefilter setting) interact with nothing else. -/
theorem new_eq_of_vecKind (cfg cfg' : Api.Cfg) (h : vecKind cfg = vecKind cfg')
    (pf : PrefilterConfig) (rank : UInt8 → UInt8) (n : Slice) :
    Searcher.new cfg pf rank n = Searcher.new cfg' pf rank n :=
  Searcher.new_eq_of_vecKind cfg cfg' h pf rank n

/-- **The adaptive decision never faults.** `PrefilterState::is_effective` returns normally from
EVERY state (all `2^64` values of `skips`, `skipped`), leaving the counters untouched: it
answers `b` and possibly switches the state to inert. (This is where defect F1 was: the `u32`
product `MIN_SKIP_BYTES * skips` overflowed; see `Props/C14`.) -/
theorem is_effective_total (s : PrefilterState) (c : Ctr) :
    ∃ b s', s.isEffective c = .ok (b, s') c :=
  PrefilterState.isEffective_total s c

/-! ### the hypotheses are satisfiable, the quantified domains are not trivial -/

/-- valid slices: a 40-byte needle (a Two-Way-with-prefilter branch, where ranker, prefilter
setting and prefilter state all matter to the code path) and a 100-byte haystack -/
example : (Slice.ofMem ⟨1, 64, Array.replicate 40 97⟩).Valid ∧
    (Slice.ofMem ⟨0, 4096, Array.replicate 100 97⟩).Valid := by
  simp [Slice.Valid, Slice.ofMem]

/-- prefilter states on both sides of the adaptive decision: the fresh state is not inert, the
state `skips = 0` is; and rankers that are constant, or not injective, are rankers -/
example : PrefilterState.new.isInert = false ∧ (⟨0, 0⟩ : PrefilterState).isInert = true ∧
    (∃ rank : UInt8 → UInt8, ∀ b, rank b = 0) ∧ (∃ rank : UInt8 → UInt8, ∀ b, rank b = 255) :=
  ⟨by decide, by decide, ⟨fun _ => 0, fun _ => rfl⟩, ⟨fun _ => 255, fun _ => rfl⟩⟩

/-- the side conditions of `find_indep` are satisfiable: a one-byte needle never reaches
Two-Way, in any configuration -/
example (cfg : Api.Cfg) : ¬ reachesTwoWay cfg (Slice.ofMem ⟨1, 64, #[97]⟩) :=
  fun h => absurd h.1 (by decide)

/-- two different configurations with the same `vecKind` (hypothesis of `new_eq_of_vecKind`):
x86_64 + SSE2 with AVX2 detected at run time, and with AVX2 enabled at compile time -/
example : vecKind { arch := .x86_64, ctSse2 := true, ctAvx2 := false, ctNeon := false,
                    std := true, cpuAvx2 := true } =
    vecKind { arch := .x86_64, ctSse2 := true, ctAvx2 := true, ctNeon := false,
              std := false, cpuAvx2 := false } := by
  decide

end Memchr.Props.C10

#print axioms Memchr.Props.C10.find_indep_all
#print axioms Memchr.Props.C10.builder_indep_all
#print axioms Memchr.Props.C10.find_indep
#print axioms Memchr.Props.C10.new_eq_of_vecKind
#print axioms Memchr.Props.C10.is_effective_total
