/-
C04  Reverse substring search returns exactly the rightmost occurrence.

For every haystack and needle, `memmem::rfind` and `FinderRev::rfind` return `Some(i)` where `i`
is the largest offset with `haystack[i..i + needle.len()] == needle`, and `None` exactly when the
needle does not occur.  The empty needle matches at offset `haystack.len()`.

How the clauses of the property map onto this file

  what "the rightmost occurrence" means (the specification       `spec_some_iff`, `spec_none_iff`,
    `Spec.rightmost`: `Some(i)` iff the needle occurs at `i`       `spec_empty`
    and at no larger offset; `None` iff it occurs nowhere)
  the reverse meta searcher `SearcherRev::new(needle)` +          `rfind_all` (every branch),
    `rfind(haystack, needle)` of `src/memmem/searcher.rs`         `rfind` (needles of at most one
                                                                   byte, on their own)
  `FinderRev::new(needle).rfind(haystack)`                        `finder_rfind_all`
  the one-shot `memmem::rfind(haystack, needle)`                  `oneshot_all`
  the empty needle                                                `rfind_empty`, `oneshot_empty`
  the reverse Two-Way searcher behind every needle of two or      `twoway_rfind_correct`
    more bytes

The reverse searcher has no prefilter and no prefilter state; the configuration `cfg` only
selects the backend of the `memrchr` used for one-byte needles.

A conclusion `run = .ok v c'` says the run returns normally with the value `v`: no panic, debug
assertion, overflow, out-of-bounds read, misaligned load or out-of-allocation pointer.  The only
hypotheses are `needle.Valid` and `hay.Valid` ("the slice lies inside its memory region").

Only statements, one-line proofs from the master lemmas (`Proofs/Searcher.lean`,
`Proofs/Memmem.lean`, `Proofs/SearcherTwoWay.lean`, `Proofs/TwoWayRevCert.lean`), non-vacuity
examples and `#print axioms`.
-/
import MemchrModel.Proofs.SearcherTwoWay

namespace Memchr.Props.C04

open Memchr Memchr.Memmem

/-! ### what the specification `Spec.rightmost` means -/

/-- `Spec.rightmost hay needle = Some(r)` exactly when the needle occurs at offset `r`
(`OccAt`: `r + needle.len() <= hay.len()` and `hay[r + k] = needle[k]` for every
`k < needle.len()`) and at no offset `j > r`: `r` is the LARGEST offset of an occurrence. -/
theorem spec_some_iff (hay needle : Array UInt8) (r : Nat) :
    Spec.rightmost hay needle = some r ↔
      Spec.OccAt hay needle r ∧ ∀ j, r < j → ¬ Spec.OccAt hay needle j :=
  Spec.rightmost_eq_some_iff hay needle r

/-- `Spec.rightmost hay needle = None` exactly when the needle occurs at NO offset. -/
theorem spec_none_iff (hay needle : Array UInt8) :
    Spec.rightmost hay needle = none ↔ ∀ j, ¬ Spec.OccAt hay needle j :=
  Spec.rightmost_eq_none_iff hay needle

/-- For the empty needle the specification is `Some(hay.len())`, for every haystack. -/
theorem spec_empty (hay needle : Array UInt8) (h : needle.size = 0) :
    Spec.rightmost hay needle = some hay.size :=
  Memmem.rightmost_empty h

/-! ### the reverse meta searcher -/

/-- **`SearcherRev::new(needle)` then `SearcherRev::rfind(haystack, needle)`, every branch.**
For EVERY configuration, valid needle and haystack (all lengths: empty needle, one byte, two or
more bytes = reverse Two-Way, or Rabin-Karp when the haystack is shorter than 16 bytes; haystack
shorter than the needle) and every counter state: construction returns normally, and `rfind`
returns normally with exactly the rightmost occurrence (`Spec.rightmost`, see `spec_some_iff` /
`spec_none_iff`). -/
theorem rfind_all (cfg : Api.Cfg) (needle hay : Slice) (hn : needle.Valid) (hh : hay.Valid)
    (c : Ctr) :
    ∃ s c1, SearcherRev.new needle c = .ok s c1 ∧ ∀ c2, ∃ c3,
      s.rfind cfg hay needle c2 = .ok (Spec.rightmost hay.toArray needle.toArray) c3 :=
  Memmem.C04.rfind_all cfg needle hay hn hh c

/-- Needles of at most one byte (the empty needle; one byte = the dispatched `memrchr`), on
their own: this theorem does not depend on any Two-Way proof. Same conclusion as `rfind_all`. -/
theorem rfind (cfg : Api.Cfg) (needle hay : Slice) (hn : needle.Valid) (hh : hay.Valid)
    (hbranch : needle.len ≤ 1) (c : Ctr) :
    ∃ s c1, SearcherRev.new needle c = .ok s c1 ∧ ∀ c2, ∃ c3,
      s.rfind cfg hay needle c2 = .ok (Spec.rightmost hay.toArray needle.toArray) c3 :=
  Memmem.C04.rfind cfg needle hay hn hh hbranch c

/-- **The empty needle matches at offset `haystack.len()`**: for every configuration and every
valid haystack (the empty one included) the reverse searcher built for a zero-length needle
returns `Some(haystack.len())`. -/
theorem rfind_empty (cfg : Api.Cfg) (needle hay : Slice) (hn : needle.Valid) (hh : hay.Valid)
    (h0 : needle.len = 0) (c : Ctr) :
    ∃ s c1, SearcherRev.new needle c = .ok s c1 ∧ ∀ c2, ∃ c3,
      s.rfind cfg hay needle c2 = .ok (some hay.len) c3 :=
  Memmem.C04.rfind_empty cfg needle hay hn hh h0 c

/-! ### the public API: `FinderRev`, `memmem::rfind` -/

/-- **`FinderRev::new(needle).rfind(haystack)`** (also what `FinderBuilder::build_reverse`
gives), every configuration, valid needle and haystack: construction and search return normally
with exactly the rightmost occurrence. -/
theorem finder_rfind_all (cfg : Api.Cfg) (needle hay : Slice) (hn : needle.Valid)
    (hh : hay.Valid) (c : Ctr) :
    ∃ c', (FinderRev.new needle >>= fun f => f.rfind cfg hay) c =
      .ok (Spec.rightmost hay.toArray needle.toArray) c' :=
  Memmem.C04.finder_rfind_all cfg needle hay hn hh c

/-- **The one-shot `memmem::rfind(haystack, needle)`**, every configuration, valid needle and
haystack (haystacks shorter than 64 bytes go to reverse Rabin-Karp, longer ones to
`FinderRev::new(needle).rfind(haystack)`): returns normally with exactly the rightmost
occurrence. -/
theorem oneshot_all (cfg : Api.Cfg) (needle hay : Slice) (hn : needle.Valid) (hh : hay.Valid)
    (c : Ctr) :
    ∃ c', Memmem.rfind cfg hay needle c = .ok (Spec.rightmost hay.toArray needle.toArray) c' :=
  Memmem.C04.oneshot_all cfg needle hay hn hh c

/-- `memmem::rfind(haystack, b"")` is `Some(haystack.len())` for every valid haystack, the empty
one included. -/
theorem oneshot_empty (cfg : Api.Cfg) (needle hay : Slice) (hn : needle.Valid) (hh : hay.Valid)
    (h0 : needle.len = 0) (c : Ctr) :
    ∃ c', Memmem.rfind cfg hay needle c = .ok (some hay.len) c' :=
  Memmem.C04.oneshot_empty cfg needle hay hn hh h0 c

/-! ### reverse Two-Way, the searcher behind every needle of two or more bytes -/

/-- **`twoway::FinderRev::new(needle)` then `rfind(haystack, needle)`**, for every valid needle
and haystack (any lengths): construction and search return normally with exactly the rightmost
occurrence, within `3 * haystack.len + 8 * needle.len + 3` steps in total. -/
theorem twoway_rfind_correct (needle haystack : Slice) (c : Ctr) (hnv : needle.Valid)
    (hhv : haystack.Valid) :
    ∃ c', (TwoWay.FinderRev.new needle >>= fun tw => TwoWay.FinderRev.rfind tw haystack needle) c =
        .ok (Spec.rightmost haystack.toArray needle.toArray) c' ∧
      c'.steps ≤ c.steps + 3 * haystack.len + 8 * needle.len + 3 :=
  TwoWay.rfind_correct needle haystack c hnv hhv

/-! ### the hypotheses are satisfiable -/

/-- two valid non-trivial slices (sub-slices of larger regions at odd addresses): the needle
"abc" occurs twice in the haystack "xabcxabc" -/
example : (⟨⟨1, 1048577, #[0, 97, 98, 99, 0]⟩, 1, 3⟩ : Slice).Valid ∧
    (⟨⟨0, 4099, #[120, 120, 97, 98, 99, 120, 97, 98, 99, 120]⟩, 1, 8⟩ : Slice).Valid := by
  simp [Slice.Valid]

/-- a one-byte needle (side condition of `rfind`), the empty needle, the empty haystack and a
100-byte haystack are all valid slices -/
example : (Slice.ofMem ⟨1, 64, #[97]⟩).Valid ∧ (Slice.ofMem ⟨1, 64, #[97]⟩).len ≤ 1 ∧
    (Slice.ofMem ⟨1, 64, #[]⟩).Valid ∧ (Slice.ofMem ⟨1, 64, #[]⟩).len = 0 ∧
    (Slice.ofMem ⟨0, 4096, #[]⟩).Valid ∧ (Slice.ofMem ⟨0, 4096, Array.replicate 100 97⟩).Valid := by
  simp [Slice.Valid, Slice.ofMem]

end Memchr.Props.C04

#print axioms Memchr.Props.C04.spec_some_iff
#print axioms Memchr.Props.C04.spec_none_iff
#print axioms Memchr.Props.C04.spec_empty
#print axioms Memchr.Props.C04.rfind_all
#print axioms Memchr.Props.C04.rfind
#print axioms Memchr.Props.C04.rfind_empty
#print axioms Memchr.Props.C04.finder_rfind_all
#print axioms Memchr.Props.C04.oneshot_all
#print axioms Memchr.Props.C04.oneshot_empty
#print axioms Memchr.Props.C04.twoway_rfind_correct
