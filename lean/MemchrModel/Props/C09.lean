/-
C09  Every backend and build configuration returns identical answers.

Only statements, one-line proofs from the master lemmas (`Proofs/MemchrApi.lean`,
`Proofs/PropsBridge2.lean`, `Proofs/SearcherTwoWay.lean`), non-vacuity examples and
`#print axioms`.

A configuration `Api.Cfg` is: target architecture (`x86_64`, `aarch64`, `wasm32` with
`simd128`, anything else), the compile-time target features `sse2` / `avx2` / `neon`, the cargo
feature `std` (the only cargo feature the dispatch code looks at: `alloc` vs none makes no
difference to the byte-search routines), what run-time detection reports for AVX2, and the
verification hook that forces `is_available()` of AVX2 / SSE2 to false. `Api.select cfg` is the
backend the public routines run under that configuration (`C01.dispatch_runs_selected`).

Covered here:

  same value for any two configurations (forward / reverse,       `agree`, `agree_count`
    1-3 needles; count), the specified one
  same value for any two BACKENDS called directly (raw form)      `backends_agree`,
                                                                  `backends_agree_count`
  which backend each configuration selects                        `select_table` (concrete),
                                                                  `select_x86_avx2`, `.._sse2`,
                                                                  `.._swar`, `select_aarch64`,
                                                                  `select_wasm`, `select_other`
  the iterators of a configuration are those of the selected      `iterators_follow_select`
    backend (and all refine one abstract iterator: `Props/C06`)

  substring search (`src/memmem/searcher.rs`: which of packed     `agree_memmem_find`,
    pair / Two-Way with or without prefilter / Rabin-Karp serves  `agree_memmem_rfind`,
    a needle depends on the configuration): same value for any    `agree_finder_find`,
    two configurations - one-shot functions, finders, the meta    `agree_finder_rfind`,
    searcher from any prefilter state, both iterators             `agree_searcher_find`,
                                                                  `agree_searcher_rfind`,
                                                                  `agree_find_iter`,
                                                                  `agree_rfind_iter`
  which vector finder the meta searcher may use under each        `veckind_table`,
    configuration, and that it depends on nothing else            `searcher_new_eq_of_veckind`

(The cargo features `alloc` / none only remove `Finder::into_owned` and friends from the API; the
search code they leave is the code modelled here.)
-/
import MemchrModel.Proofs.MemchrApi
import MemchrModel.Proofs.PropsBridge2
import MemchrModel.Proofs.SearcherTwoWay

namespace Memchr.Props.C09

open Memchr Memchr.Api

/-! ### identical answers -/

/-- Any two build / CPU configurations `cfg1`, `cfg2` (any architecture, any compile-time
features, with or without `std`, whatever CPU detection reports, forced or not), called with the
same needles and the same valid haystack — `memchr`/`memchr2`/`memchr3` for `rev = false`,
`memrchr`/`memrchr2`/`memrchr3` for `rev = true` — both return normally, with the SAME value
`v`; `v` is the specified first / last needle index (`Api.specIdx`, see `C01.memchr_first`,
`C02.memrchr_last`), and when present it is `< hay.len`. The counters (steps, loads) may
differ: `c1'`, `c2'` are unrelated. -/
theorem agree (cfg1 cfg2 : Cfg) (ns : Needles) (rev : Bool) (hay : Slice)
    (hv : hay.Valid) (c1 c2 : Ctr) :
    ∃ v c1' c2', memchr cfg1 ns rev hay c1 = .ok v c1' ∧ memchr cfg2 ns rev hay c2 = .ok v c2' ∧
      v = specIdx ns rev hay ∧ ∀ i, v = some i → i < hay.len :=
  Api.C09_agree cfg1 cfg2 ns rev hay hv c1 c2

/-- The same for `memchr_iter(n1, hay).count()`: any two configurations return the same number,
the number of haystack bytes equal to the needle. -/
theorem agree_count (cfg1 cfg2 : Cfg) (n1 : UInt8) (hay : Slice)
    (hv : hay.Valid) (c1 c2 : Ctr) :
    ∃ v c1' c2', count cfg1 n1 hay c1 = .ok v c1' ∧ count cfg2 n1 hay c2 = .ok v c2' ∧
      v = Spec.countP (· == n1) (hay.mem.window hay.ptr hay.len) :=
  Api.C09_agree_count cfg1 cfg2 n1 hay hv c1 c2

/-- a valid, non-trivial slice: bytes 3..13 of a 40-byte region at an odd address -/
example : (⟨⟨0, 1001, Array.replicate 40 0⟩, 3, 10⟩ : Slice).Valid := by
  simp [Slice.Valid]

/-- Any two BACKENDS (SWAR, SSE2, AVX2, NEON, wasm simd128) called directly through their
`One`/`Two`/`Three::{find_raw, rfind_raw}` on the same window inside a region (any `start`,
`end`, including empty, reversed and sub-vector windows) return the same value. -/
theorem backends_agree (b1 b2 : Backend) (ns : Needles) (rev : Bool) (m : Mem)
    (start end_ : Nat) (c1 c2 : Ctr) (hs : m.base ≤ start) (he : end_ ≤ m.base + m.bytes.size) :
    ∃ v c1' c2', rawFind b1 ns rev m start end_ c1 = .ok v c1' ∧
      rawFind b2 ns rev m start end_ c2 = .ok v c2' :=
  Bridge2.backends_agree b1 b2 ns rev m start end_ c1 c2 hs he

/-- the same for `One::count_raw` -/
theorem backends_agree_count (b1 b2 : Backend) (n1 : UInt8) (m : Mem)
    (start end_ : Nat) (c1 c2 : Ctr) (hs : m.base ≤ start) (he : end_ ≤ m.base + m.bytes.size) :
    ∃ v c1' c2', rawCount b1 n1 m start end_ c1 = .ok v c1' ∧
      rawCount b2 n1 m start end_ c2 = .ok v c2' :=
  Bridge2.backends_agree_count b1 b2 n1 m start end_ c1 c2 hs he

/-- hypotheses are satisfiable: a 40-byte region at an odd base address, a 5-byte window -/
example : ∃ (m : Mem) (start end_ : Nat), m.base ≤ start ∧ end_ ≤ m.base + m.bytes.size ∧
    start < end_ :=
  ⟨⟨0, 1001, Array.replicate 40 0⟩, 1003, 1008, by decide, by simp, by decide⟩

/-- The public iterators `Memchr`/`Memchr2`/`Memchr3` of a configuration are literally the
wrapper iterators of the backend `select` picks; by `C06.refines_backend` all of them produce
the outputs of one and the same abstract iterator. -/
theorem iterators_follow_select (cfg : Cfg) (ns : Needles) (m : Mem) :
    RawFns.ofCfg cfg ns m = RawFns.ofBackend (select cfg) ns m :=
  Bridge2.ofCfg_eq_ofBackend cfg ns m

/-! ### which backend serves which configuration -/

/-- The value of `select` on representative configurations (`force` left at its default
`.none` unless shown):
1. x86_64, sse2 at compile time, `std`, CPU has AVX2                    -> AVX2
2. x86_64, sse2, `std`, CPU without AVX2                                -> SSE2
3. x86_64, sse2, no `std` (no run-time detection), no compile-time avx2 -> SSE2 (even if the CPU
   has AVX2)
4. x86_64, sse2 + avx2 at compile time, no `std`                        -> AVX2
5. x86_64 without sse2 at compile time (e.g. a soft-float target)       -> SWAR
6. aarch64 with neon                                                    -> NEON
7. aarch64 without neon                                                 -> SWAR
8. wasm32 with simd128                                                  -> simd128
9. any other architecture (features irrelevant)                         -> SWAR
10. case 1 with the hook forcing AVX2 unavailable                       -> SSE2
11. case 1 with the hook forcing SSE2 (and AVX2) unavailable            -> SWAR -/
theorem select_table :
    select { arch := .x86_64, ctSse2 := true, ctAvx2 := false, ctNeon := false,
             std := true, cpuAvx2 := true } = .avx2 ∧
    select { arch := .x86_64, ctSse2 := true, ctAvx2 := false, ctNeon := false,
             std := true, cpuAvx2 := false } = .sse2 ∧
    select { arch := .x86_64, ctSse2 := true, ctAvx2 := false, ctNeon := false,
             std := false, cpuAvx2 := true } = .sse2 ∧
    select { arch := .x86_64, ctSse2 := true, ctAvx2 := true, ctNeon := false,
             std := false, cpuAvx2 := false } = .avx2 ∧
    select { arch := .x86_64, ctSse2 := false, ctAvx2 := false, ctNeon := false,
             std := true, cpuAvx2 := true } = .swar ∧
    select { arch := .aarch64, ctSse2 := false, ctAvx2 := false, ctNeon := true,
             std := true, cpuAvx2 := false } = .neon ∧
    select { arch := .aarch64, ctSse2 := false, ctAvx2 := false, ctNeon := false,
             std := true, cpuAvx2 := false } = .swar ∧
    select { arch := .wasm32simd128, ctSse2 := false, ctAvx2 := false, ctNeon := false,
             std := true, cpuAvx2 := false } = .simd128 ∧
    select { arch := .other, ctSse2 := true, ctAvx2 := true, ctNeon := true,
             std := true, cpuAvx2 := true } = .swar ∧
    select { arch := .x86_64, ctSse2 := true, ctAvx2 := false, ctNeon := false,
             std := true, cpuAvx2 := true, force := .noavx2 } = .sse2 ∧
    select { arch := .x86_64, ctSse2 := true, ctAvx2 := false, ctNeon := false,
             std := true, cpuAvx2 := true, force := .nosse2 } = .swar := by
  decide

/-- x86_64 in general: AVX2 is selected whenever sse2 is a compile-time feature, nothing is
forced, and AVX2 is either a compile-time feature or (`std` and the CPU reports it). -/
theorem select_x86_avx2 (cfg : Cfg) (ha : cfg.arch = .x86_64) (hs : cfg.ctSse2 = true)
    (hf : cfg.force = .none) (h : cfg.ctAvx2 = true ∨ (cfg.std = true ∧ cfg.cpuAvx2 = true)) :
    select cfg = .avx2 :=
  Bridge2.select_x86_avx2 cfg ha hs hf h

/-- x86_64 in general: SSE2 is selected when sse2 is a compile-time feature, SSE2 is not forced
off, and AVX2 is unavailable: forced off, or not a compile-time feature and not detectable (no
`std`) or not present. -/
theorem select_x86_sse2 (cfg : Cfg) (ha : cfg.arch = .x86_64) (hs : cfg.ctSse2 = true)
    (hf : cfg.force ≠ .nosse2)
    (h : cfg.force = .noavx2 ∨
      (cfg.ctAvx2 = false ∧ (cfg.std = false ∨ cfg.cpuAvx2 = false))) :
    select cfg = .sse2 :=
  Bridge2.select_x86_sse2 cfg ha hs hf h

/-- x86_64 in general: the portable SWAR code is selected when sse2 is not a compile-time
feature or SSE2 is forced off. (The three x86_64 theorems are exhaustive.) -/
theorem select_x86_swar (cfg : Cfg) (ha : cfg.arch = .x86_64)
    (h : cfg.ctSse2 = false ∨ cfg.force = .nosse2) : select cfg = .swar :=
  Bridge2.select_x86_swar cfg ha h

/-- aarch64: NEON iff `neon` is a compile-time feature, else SWAR (no run-time detection) -/
theorem select_aarch64 (cfg : Cfg) (ha : cfg.arch = .aarch64) :
    select cfg = if cfg.ctNeon then .neon else .swar :=
  Bridge2.select_aarch64 cfg ha

/-- wasm32 with `simd128`: always simd128 -/
theorem select_wasm (cfg : Cfg) (ha : cfg.arch = .wasm32simd128) : select cfg = .simd128 :=
  Bridge2.select_wasm cfg ha

/-- every other architecture (including wasm32 without `simd128`): always SWAR -/
theorem select_other (cfg : Cfg) (ha : cfg.arch = .other) : select cfg = .swar :=
  Bridge2.select_other cfg ha

/-- the side conditions of the general x86_64 theorems are satisfiable and every backend is
selected by some configuration (`select` is onto) -/
example : ∀ b : Backend, ∃ cfg : Cfg, select cfg = b := by
  intro b
  cases b
  · exact ⟨{ arch := .x86_64, ctSse2 := true, ctAvx2 := true, ctNeon := false, std := false, cpuAvx2 := false }, by decide⟩
  · exact ⟨{ arch := .x86_64, ctSse2 := true, ctAvx2 := false, ctNeon := false, std := false, cpuAvx2 := false }, by decide⟩
  · exact ⟨{ arch := .aarch64, ctSse2 := false, ctAvx2 := false, ctNeon := true, std := false, cpuAvx2 := false }, by decide⟩
  · exact ⟨{ arch := .wasm32simd128, ctSse2 := false, ctAvx2 := false, ctNeon := false, std := false, cpuAvx2 := false }, by decide⟩
  · exact ⟨{ arch := .other, ctSse2 := false, ctAvx2 := false, ctNeon := false, std := false, cpuAvx2 := false }, by decide⟩

/-! ### substring search: identical answers under every configuration

In `src/memmem/searcher.rs` the configuration decides which strategy serves a needle (a vector
packed-pair searcher of the selected ISA, Two-Way with a vector or the portable prefilter,
plain Two-Way, Rabin-Karp for short haystacks) and which `memchr` backend one-byte needles use.
`Memmem.vecKind cfg` is the summary of the `cfg` chain + `is_available()`. -/

/-- **`memmem::find(haystack, needle)`**: any two configurations, the same valid needle and
haystack: both calls return normally with the SAME value `v`, the leftmost occurrence
(`Spec.leftmost`, see `Props/C03`). The counters may differ. -/
theorem agree_memmem_find (cfg1 cfg2 : Cfg) (needle hay : Slice) (hn : needle.Valid)
    (hh : hay.Valid) (c1 c2 : Ctr) :
    ∃ v c1' c2', Memmem.find cfg1 hay needle c1 = .ok v c1' ∧
      Memmem.find cfg2 hay needle c2 = .ok v c2' ∧
      v = Spec.leftmost hay.toArray needle.toArray :=
  let ⟨c1', h1⟩ := Memmem.C03.oneshot_all cfg1 needle hay hn hh c1
  let ⟨c2', h2⟩ := Memmem.C03.oneshot_all cfg2 needle hay hn hh c2
  ⟨_, c1', c2', h1, h2, rfl⟩

/-- **`memmem::rfind(haystack, needle)`**: likewise, the rightmost occurrence (`Props/C04`). -/
theorem agree_memmem_rfind (cfg1 cfg2 : Cfg) (needle hay : Slice) (hn : needle.Valid)
    (hh : hay.Valid) (c1 c2 : Ctr) :
    ∃ v c1' c2', Memmem.rfind cfg1 hay needle c1 = .ok v c1' ∧
      Memmem.rfind cfg2 hay needle c2 = .ok v c2' ∧
      v = Spec.rightmost hay.toArray needle.toArray :=
  let ⟨c1', h1⟩ := Memmem.C04.oneshot_all cfg1 needle hay hn hh c1
  let ⟨c2', h2⟩ := Memmem.C04.oneshot_all cfg2 needle hay hn hh c2
  ⟨_, c1', c2', h1, h2, rfl⟩

/-- **`FinderBuilder` / `Finder::new` + `find`**: the same builder `b` and ranker under any two
configurations (so possibly two different strategies): `find(haystack)` returns the same value,
for every valid needle and haystack. -/
theorem agree_finder_find (cfg1 cfg2 : Cfg) (b : Memmem.FinderBuilder) (rank : UInt8 → UInt8)
    (needle hay : Slice) (hn : needle.Valid) (hh : hay.Valid) (c1 c2 : Ctr) :
    ∃ v c1' c2', (b.buildForwardWithRanker cfg1 rank needle >>= fun f => f.find cfg1 hay) c1 =
        .ok v c1' ∧
      (b.buildForwardWithRanker cfg2 rank needle >>= fun f => f.find cfg2 hay) c2 = .ok v c2' :=
  Memmem.C10.builder_indep_all cfg1 cfg2 b b rank rank needle hay hn hh c1 c2

/-- **`FinderRev::new(needle).rfind(haystack)`** under any two configurations: the same value,
the rightmost occurrence. -/
theorem agree_finder_rfind (cfg1 cfg2 : Cfg) (needle hay : Slice) (hn : needle.Valid)
    (hh : hay.Valid) (c1 c2 : Ctr) :
    ∃ v c1' c2', (Memmem.FinderRev.new needle >>= fun f => f.rfind cfg1 hay) c1 = .ok v c1' ∧
      (Memmem.FinderRev.new needle >>= fun f => f.rfind cfg2 hay) c2 = .ok v c2' ∧
      v = Spec.rightmost hay.toArray needle.toArray :=
  let ⟨c1', h1⟩ := Memmem.C04.finder_rfind_all cfg1 needle hay hn hh c1
  let ⟨c2', h2⟩ := Memmem.C04.finder_rfind_all cfg2 needle hay hn hh c2
  ⟨_, c1', c2', h1, h2, rfl⟩

/-- **The meta searcher `Searcher::new(..).find(..)`** with the same prefilter setting, ranker
and initial prefilter state under any two configurations: both constructions return normally and
the two searches return the same value `v` (instance of `C10.find_indep_all`, which also lets
the prefilter setting, ranker and state differ). -/
theorem agree_searcher_find (cfg1 cfg2 : Cfg) (pf : Memmem.PrefilterConfig)
    (rank : UInt8 → UInt8) (needle hay : Slice) (hn : needle.Valid) (hh : hay.Valid)
    (st : PrefilterState) (c1 c2 : Ctr) :
    ∃ s s' c1' c2', Memmem.Searcher.new cfg1 pf rank needle c1 = .ok s c1' ∧
      Memmem.Searcher.new cfg2 pf rank needle c2 = .ok s' c2' ∧
      ∀ d1 d2, ∃ v t t' d1' d2', s.find cfg1 st hay needle d1 = .ok (v, t) d1' ∧
        s'.find cfg2 st hay needle d2 = .ok (v, t') d2' :=
  Memmem.C10.find_indep_all cfg1 cfg2 pf pf rank rank needle hay hn hh st st c1 c2

/-- **The reverse meta searcher `SearcherRev::new(needle).rfind(..)`**: construction does not
look at the configuration at all, and `rfind` under EVERY configuration returns the rightmost
occurrence - hence the same value under any two. -/
theorem agree_searcher_rfind (needle hay : Slice) (hn : needle.Valid) (hh : hay.Valid)
    (c : Ctr) :
    ∃ s c1, Memmem.SearcherRev.new needle c = .ok s c1 ∧ ∀ (cfg : Cfg) (c2 : Ctr), ∃ c3,
      s.rfind cfg hay needle c2 = .ok (Spec.rightmost hay.toArray needle.toArray) c3 :=
  let ⟨s, c1, h, _, hf⟩ := Memmem.SearcherRev.new_rfind needle hn (fun _ => Memmem.twoWayRevOk) c
  ⟨s, c1, h, fun cfg c2 => hf cfg needle hay hn hh rfl c2⟩

/-- **`find_iter`** under any two configurations: `k` calls of `next()` return the same list of
results (the first `k` entries of the greedy sequence `Spec.greedyFwd`, then `None`s; see
`Props/C08`), for every `k`. -/
theorem agree_find_iter (cfg1 cfg2 : Cfg) (b : Memmem.FinderBuilder) (rank : UInt8 → UInt8)
    (needle hay : Slice) (hn : needle.Valid) (hh : hay.Valid) (k : Nat) (h1 h2 : Memmem.Heap)
    (c1 c2 : Ctr) :
    ∃ outs it1 h1' c1' it2 h2' c2', (b.buildForwardWithRanker cfg1 rank needle >>= fun f =>
        Memmem.FindIter.run cfg1 (List.replicate k .next) (f.findIter hay) h1) c1 =
        .ok (outs, it1, h1') c1' ∧
      (b.buildForwardWithRanker cfg2 rank needle >>= fun f =>
        Memmem.FindIter.run cfg2 (List.replicate k .next) (f.findIter hay) h2) c2 =
        .ok (outs, it2, h2') c2' :=
  let ⟨it1, h1', c1', e1, _⟩ := Memmem.C08.find_iter_all cfg1 b rank needle hay hn hh k h1 c1
  let ⟨it2, h2', c2', e2, _⟩ := Memmem.C08.find_iter_all cfg2 b rank needle hay hn hh k h2 c2
  ⟨_, it1, h1', c1', it2, h2', c2', e1, e2⟩

/-- **`rfind_iter`** under any two configurations: likewise with `Spec.greedyRev`. -/
theorem agree_rfind_iter (cfg1 cfg2 : Cfg) (needle hay : Slice) (hn : needle.Valid)
    (hh : hay.Valid) (k : Nat) (h1 h2 : Memmem.Heap) (c1 c2 : Ctr) :
    ∃ outs it1 h1' c1' it2 h2' c2', (Memmem.FinderRev.new needle >>= fun f =>
        Memmem.FindRevIter.run cfg1 (List.replicate k .next) (f.rfindIter hay) h1) c1 =
        .ok (outs, it1, h1') c1' ∧
      (Memmem.FinderRev.new needle >>= fun f =>
        Memmem.FindRevIter.run cfg2 (List.replicate k .next) (f.rfindIter hay) h2) c2 =
        .ok (outs, it2, h2') c2' :=
  let ⟨it1, h1', c1', e1, _⟩ := Memmem.C08.rfind_iter_all cfg1 needle hay hn hh k h1 c1
  let ⟨it2, h2', c2', e2, _⟩ := Memmem.C08.rfind_iter_all cfg2 needle hay hn hh k h2 c2
  ⟨_, it1, h1', c1', it2, h2', c2', e1, e2⟩

/-- valid slices for the substring theorems: a 40-byte needle (served by Two-Way with a
prefilter or plain Two-Way depending on the configuration) and a 100-byte haystack -/
example : (Slice.ofMem ⟨1, 64, Array.replicate 40 97⟩).Valid ∧
    (Slice.ofMem ⟨0, 4096, Array.replicate 100 97⟩).Valid := by
  simp [Slice.Valid, Slice.ofMem]

/-- The vector packed-pair finder the meta searcher may use (`Memmem.vecKind`, the summary of
the `cfg` chain of `Searcher::new` and the `is_available()` functions) on the representative
configurations of `select_table` (same numbering): AVX2, SSE2, SSE2, AVX2, none, NEON, none,
simd128, none, SSE2 (AVX2 forced off), none (SSE2 forced off). `none` means: Two-Way with the
portable prefilter (or without prefilter) for every needle of two or more bytes. -/
theorem veckind_table :
    Memmem.vecKind { arch := .x86_64, ctSse2 := true, ctAvx2 := false, ctNeon := false,
                     std := true, cpuAvx2 := true } = some .avx2 ∧
    Memmem.vecKind { arch := .x86_64, ctSse2 := true, ctAvx2 := false, ctNeon := false,
                     std := true, cpuAvx2 := false } = some .sse2 ∧
    Memmem.vecKind { arch := .x86_64, ctSse2 := true, ctAvx2 := false, ctNeon := false,
                     std := false, cpuAvx2 := true } = some .sse2 ∧
    Memmem.vecKind { arch := .x86_64, ctSse2 := true, ctAvx2 := true, ctNeon := false,
                     std := false, cpuAvx2 := false } = some .avx2 ∧
    Memmem.vecKind { arch := .x86_64, ctSse2 := false, ctAvx2 := false, ctNeon := false,
                     std := true, cpuAvx2 := true } = none ∧
    Memmem.vecKind { arch := .aarch64, ctSse2 := false, ctAvx2 := false, ctNeon := true,
                     std := true, cpuAvx2 := false } = some .neon ∧
    Memmem.vecKind { arch := .aarch64, ctSse2 := false, ctAvx2 := false, ctNeon := false,
                     std := true, cpuAvx2 := false } = none ∧
    Memmem.vecKind { arch := .wasm32simd128, ctSse2 := false, ctAvx2 := false, ctNeon := false,
                     std := true, cpuAvx2 := false } = some .simd128 ∧
    Memmem.vecKind { arch := .other, ctSse2 := true, ctAvx2 := true, ctNeon := true,
                     std := true, cpuAvx2 := true } = none ∧
    Memmem.vecKind { arch := .x86_64, ctSse2 := true, ctAvx2 := false, ctNeon := false,
                     std := true, cpuAvx2 := true, force := .noavx2 } = some .sse2 ∧
    Memmem.vecKind { arch := .x86_64, ctSse2 := true, ctAvx2 := false, ctNeon := false,
                     std := true, cpuAvx2 := true, force := .nosse2 } = none := by
  decide

/-- `Searcher::new` depends on the configuration ONLY through `vecKind`: two configurations with
the same `vecKind` build literally the same searcher (same value, same steps, same faults), for
every prefilter setting, ranker and needle. -/
theorem searcher_new_eq_of_veckind (cfg cfg' : Cfg) (h : Memmem.vecKind cfg = Memmem.vecKind cfg')
    (pf : Memmem.PrefilterConfig) (rank : UInt8 → UInt8) (n : Slice) :
    Memmem.Searcher.new cfg pf rank n = Memmem.Searcher.new cfg' pf rank n :=
  Memmem.Searcher.new_eq_of_vecKind cfg cfg' h pf rank n

end Memchr.Props.C09

#print axioms Memchr.Props.C09.agree
#print axioms Memchr.Props.C09.agree_count
#print axioms Memchr.Props.C09.backends_agree
#print axioms Memchr.Props.C09.backends_agree_count
#print axioms Memchr.Props.C09.iterators_follow_select
#print axioms Memchr.Props.C09.select_table
#print axioms Memchr.Props.C09.select_x86_avx2
#print axioms Memchr.Props.C09.select_x86_sse2
#print axioms Memchr.Props.C09.select_x86_swar
#print axioms Memchr.Props.C09.select_aarch64
#print axioms Memchr.Props.C09.select_wasm
#print axioms Memchr.Props.C09.select_other
#print axioms Memchr.Props.C09.agree_memmem_find
#print axioms Memchr.Props.C09.agree_memmem_rfind
#print axioms Memchr.Props.C09.agree_finder_find
#print axioms Memchr.Props.C09.agree_finder_rfind
#print axioms Memchr.Props.C09.agree_searcher_find
#print axioms Memchr.Props.C09.agree_searcher_rfind
#print axioms Memchr.Props.C09.agree_find_iter
#print axioms Memchr.Props.C09.agree_rfind_iter
#print axioms Memchr.Props.C09.veckind_table
#print axioms Memchr.Props.C09.searcher_new_eq_of_veckind
