/-
C15  Concurrent use gives the same answers as sequential use.

Only statements, one-line proofs from the master lemmas (`Proofs/Concurrency.lean`), a concrete
racing schedule and `#print axioms`.

WHAT THE MODEL IS (`Model/Concurrency.lean`). The only shared mutable state the byte-search
routines have is the cell `static FN: AtomicPtr<()>` of `unsafe_ifunc!`
(`src/arch/x86_64/memchr.rs`), one per dispatched routine (`memchr_raw`, `memrchr_raw`,
`memchr2_raw`, `memrchr2_raw`, `memchr3_raw`, `memrchr3_raw`, `count_raw`; `Ifunc` is one such
instantiation). A `State` records EVERY value ever stored into `FN` (`stored`, initially
`[detect]`), per thread the value its `FN.load(Relaxed)` returned and has not yet called
(`pending`), per thread the calls it still has to make (`queue`), and the outcomes of the
completed calls (`results`). One `step` of thread `tid` is: load `FN`; or, having loaded
`detect`, run `detect` (choose `x86Detect cfg`, `FN.store(Relaxed)`, call the choice); or,
having loaded `find_<b>`, call it. A `Schedule` is a list of `(thread, idx)`: which thread moves
next, and — if the move is a load — WHICH of the values ever stored the load returns
(`idx` modulo the number of stored values).

The cell exists only on x86_64 (`x86Detect cfg` is `Api.select cfg` there). On aarch64, wasm32
and every other architecture the implementation is fixed at compile time and the routines have
no shared mutable state at all, so there is nothing to schedule.

WHAT THE THEOREMS COVER. They quantify over every `queue` (any number of threads, any calls
per thread, any arguments, so first and subsequent calls) and every `Schedule` (every
interleaving of the threads' loads / stores / calls, and for every relaxed load every result
drawn from the set of values EVER stored, however stale). That is a superset of the behaviours
the C++11 / Rust memory model allows for relaxed atomics on a single location, so the
conclusions hold for every real execution that the assumptions below admit.

WHAT THE MODEL CANNOT EXPRESS (trusted, not proved):
* tearing: a load returns one of the stored pointers, never a mixture of two (guaranteed by
  `AtomicPtr`; on the hardware, an aligned pointer-sized access);
* the hardware memory model and the compiler: that `Ordering::Relaxed` loads/stores of one
  location behave as "some previously stored value" (out-of-thin-air values are excluded);
* data races on non-atomic memory: the haystack is assumed not to be written during a search
  (Rust's `&[u8]` guarantees it; for the raw-pointer forms it is the caller's obligation), and
  each call's counters / stack are private (every call starts from the empty counter `{}`);
* that transmuting the loaded pointer to the real function type and calling it is what
  `I.run b` models; that `detect`'s choice `x86Detect cfg` is the same in all threads (CPU
  features do not change while the process runs);
* progress / fairness: the theorems are about the calls that complete (`race` shows calls do
  complete); a schedule that never lets a thread move is not excluded.
* `Finder` / `FinderRev` / cloned iterators shared or sent across threads: the searchers hold
  no interior mutability (per-search state such as `PrefilterState` lives on the caller's
  stack), and in this model they are immutable values, so concurrent use is the same function
  applied to the same arguments; that `unsafe impl Send/Sync` for the raw-pointer iterator is
  sound is a statement about Rust's type system, outside the model.
  What IS proved about them (`shared_finder`, `shared_finder_rev`, `find_keeps_finder`): a
  `find` / `rfind` step returns the very same finder value, and in EVERY global order of
  `find` calls made by any number of threads on one shared finder, each thread observes exactly
  what it observes running its own calls alone - the leftmost / rightmost occurrence in each
  of its haystacks.  A call is one atomic step of that order; that is justified by the absence
  of interior mutability (checked on every run by the extractor's structural fact "no
  Cell/RefCell/Atomic/static mut in the searcher types", and observed by the fresh-process
  barrier runs that race real threads on a shared `Finder`), not by the theorem.
-/
import MemchrModel.Proofs.Concurrency
import MemchrModel.Proofs.SharedFinder

namespace Memchr.Props.C15

open Memchr Memchr.Api Memchr.Concurrency

/-- General form, for any instantiation `I` of `unsafe_ifunc!` and any predicate `P` on
(arguments, outcome): if the implementation `detect` chooses (`x86Detect cfg`) satisfies `P` on
every argument tuple when run in isolation (from the empty counter `{}`), then in every state
reachable from the initial one (`FN = detect`, nothing loaded) by ANY schedule — any number of
threads, any per-thread call sequences `queue`, any interleaving, any choice of load results
among the values ever stored — every completed call satisfies `P`. In particular no call ever
ran an implementation other than the chosen one, and no call jumped through a garbage
pointer. -/
theorem any_schedule {Args R : Type} (I : Ifunc Args R) (cfg : Cfg) (P : Args → Res R → Prop)
    (hP : ∀ a, P a (I.run (x86Detect cfg) a {})) (queue : Nat → List Args) (sched : Schedule) :
    ∀ r ∈ (runSchedule I cfg (init queue) sched).results, P r.2.1 r.2.2 :=
  Concurrency.any_schedule I cfg P hP queue sched

/-- "every call returns exactly what it would return in isolation": the outcome recorded for
every completed call `(thread, args, outcome)`, under any schedule, is EQUAL (value, or fault,
and counters) to the outcome of running the chosen implementation alone on the same
arguments. -/
theorem same_as_isolated {Args R : Type} (I : Ifunc Args R) (cfg : Cfg)
    (queue : Nat → List Args) (sched : Schedule) :
    ∀ r ∈ (runSchedule I cfg (init queue) sched).results,
      r.2.2 = I.run (x86Detect cfg) r.2.1 {} :=
  Concurrency.any_schedule I cfg (fun a res => res = I.run (x86Detect cfg) a {}) (fun _ => rfl)
    queue sched

/-- The sequential reference: one thread making one call from the initial state (load `detect`,
run it) gets exactly the isolated outcome of the chosen implementation — the oracle that
`same_as_isolated` compares every concurrent call with. -/
theorem sequential_first_call {Args R : Type} (I : Ifunc Args R) (cfg : Cfg) (a : Args) :
    (runSchedule I cfg (init (fun t => if t = 0 then [a] else [])) [(0, 0), (0, 0)]).results
      = [(0, a, I.run (x86Detect cfg) a {})] :=
  rfl

/-- The six dispatched search routines (`rev = false`: `memchr_raw`, `memchr2_raw`,
`memchr3_raw`; `rev = true`: `memrchr_raw`, `memrchr2_raw`, `memrchr3_raw`; the needle set is
part of each call's arguments): under any schedule, every completed call whose window
`[start, end)` lies inside its memory region returned normally with the specified value — the
address of the first / last needle byte of the window, `none` iff there is none
(`Api.specFind`, spelled out in `C01.raw_every_backend` / `C02.raw_every_backend`). -/
theorem find_any_schedule (rev : Bool) (cfg : Cfg) (queue : Nat → List FindArgs)
    (sched : Schedule) :
    ∀ r ∈ (runSchedule (findIfunc rev) cfg (init queue) sched).results,
      r.2.1.m.base ≤ r.2.1.start → r.2.1.end_ ≤ r.2.1.m.base + r.2.1.m.bytes.size →
      ∃ c', r.2.2 = .ok (specFind r.2.1.ns rev r.2.1.m r.2.1.start r.2.1.end_) c' :=
  Concurrency.C15_find rev cfg queue sched

/-- The seventh dispatched routine, `count_raw`: under any schedule, every completed call on a
window inside its region returned the number of bytes of the window equal to the needle. -/
theorem count_any_schedule (cfg : Cfg) (queue : Nat → List CountArgs) (sched : Schedule) :
    ∀ r ∈ (runSchedule countIfunc cfg (init queue) sched).results,
      r.2.1.m.base ≤ r.2.1.start → r.2.1.end_ ≤ r.2.1.m.base + r.2.1.m.bytes.size →
      ∃ c', r.2.2 = .ok (specCount r.2.1.n1 r.2.1.m r.2.1.start r.2.1.end_) c' :=
  Concurrency.C15_count cfg queue sched

/-- The model is not vacuous — a concrete two-thread race on the very first calls (the same
schedule as the `example` at the end of `Proofs/Concurrency.lean`, which is anonymous and cannot
be referenced, so it is re-checked here by evaluation). Haystack `"baba"` at address 1001,
needle `'a'`, each thread calls `memchr_raw` twice, x86_64 with AVX2 detected at run time.
Schedule: both threads load `detect` before either stores; both run `detect` (two stores);
thread 1's second call loads the initial, stale `detect` AGAIN (index 0) and runs it (third
store); thread 0's second call loads a stored implementation (index 2) and calls it. All four
calls complete, in the order thread 0, 1, 1, 0 (most recent first), all with the same
arguments; `FN` was stored to three times, always with `find_avx2`. By `find_any_schedule` and
`race_value` each of the four calls returned `some 1002`. -/
theorem race :
    let m : Mem := ⟨0, 1001, #[0x62, 0x61, 0x62, 0x61]⟩
    let a : FindArgs := ⟨⟨0x61, []⟩, m, 1001, 1005⟩
    let cfg : Cfg := { arch := .x86_64, ctSse2 := true, ctAvx2 := false, ctNeon := false,
                       std := true, cpuAvx2 := true }
    let st := runSchedule (findIfunc false) cfg (init (fun t => if t < 2 then [a, a] else []))
      [(0, 0), (1, 0), (0, 0), (1, 0), (1, 0), (1, 0), (0, 2), (0, 0)]
    st.results.map (fun r => r.1) = [0, 1, 1, 0]
    ∧ st.results.map (fun r => (r.2.1.start, r.2.1.end_)) =
        [(1001, 1005), (1001, 1005), (1001, 1005), (1001, 1005)]
    ∧ st.stored = [.detect, .impl .avx2, .impl .avx2, .impl .avx2] := by
  decide

/-- the specified value for the calls of `race`: the first `'a'` of `"baba"` at 1001 is at
address 1002, and the window `[1001, 1005)` satisfies the hypotheses of `find_any_schedule` -/
theorem race_value :
    specFind ⟨0x61, []⟩ false ⟨0, 1001, #[0x62, 0x61, 0x62, 0x61]⟩ 1001 1005 = some 1002 ∧
    (1001 : Nat) ≤ 1001 ∧ 1005 ≤ 1001 + (#[0x62, 0x61, 0x62, 0x61] : Array UInt8).size := by
  decide

/-! ### one substring finder shared by several threads -/

open Memchr.Memmem Memchr.SharedFinder in
/-- **A shared `Finder`.** `s : Sched` is a global order of `find` calls, each tagged with the
thread that made it (`(thread, haystack)`); `opsOf s` is what the one shared finder sees,
`alone t s` are thread `t`'s calls in program order, `project t s outs` the outputs at `t`'s
calls.  For every configuration, every `FinderBuilder` finder (any prefilter setting, any
ranker), every valid needle and EVERY such order on valid haystacks: the run returns normally,
every call observes the leftmost occurrence of the needle in ITS haystack, and every thread
observes exactly what a finder for the same needle yields when that thread's calls run alone
(same builder, same initial heap and counter).  The number of threads, the calls per thread
and the interleaving are all universally quantified. -/
theorem shared_finder (cfg : Api.Cfg) (b : FinderBuilder) (rank : UInt8 → UInt8)
    (needle : Slice) (hn : needle.Valid) (s : Sched) (hs : ∀ p ∈ s, p.2.Valid)
    (h : Heap) (c : Ctr) :
    ∃ outs f' h' c',
      (b.buildForwardWithRanker cfg rank needle >>= fun f => Finder.run cfg (opsOf s) f h) c =
        .ok (outs, f', h') c' ∧
      outs = s.map (fun p => Memmem.Out.idx (Spec.leftmost p.2.toArray needle.toArray)) ∧
      ∀ t, ∃ f1 h1 c1,
        (b.buildForwardWithRanker cfg rank needle >>= fun f =>
          Finder.run cfg (opsOf (alone t s)) f h) c = .ok (project t s outs, f1, h1) c1 :=
  SharedFinder.shared_finder cfg b rank needle hn s hs h c

open Memchr.Memmem Memchr.SharedFinder in
/-- **A shared `FinderRev`**: the same with `rfind` and the rightmost occurrence. -/
theorem shared_finder_rev (cfg : Api.Cfg) (needle : Slice) (hn : needle.Valid) (s : Sched)
    (hs : ∀ p ∈ s, p.2.Valid) (h : Heap) (c : Ctr) :
    ∃ outs f' h' c',
      (FinderRev.new needle >>= fun f => FinderRev.run cfg (opsOf s) f h) c =
        .ok (outs, f', h') c' ∧
      outs = s.map (fun p => Memmem.Out.idx (Spec.rightmost p.2.toArray needle.toArray)) ∧
      ∀ t, ∃ f1 h1 c1,
        (FinderRev.new needle >>= fun f => FinderRev.run cfg (opsOf (alone t s)) f h) c =
          .ok (project t s outs, f1, h1) c1 :=
  SharedFinder.shared_finder_rev cfg needle hn s hs h c

open Memchr.Memmem in
/-- `find(&self)` cannot change what another thread sees: whenever the model's `find` step
returns, the finder and the heap it returns are the ones it was given. -/
theorem find_keeps_finder (cfg : Api.Cfg) (hay : Slice) (f : Finder) (h : Heap) (c : Ctr)
    (o : Option Memmem.Out) (f' : Finder) (h' : Heap) (c' : Ctr)
    (hstep : f.step cfg (.find hay) h c = .ok (o, f', h') c') : f' = f ∧ h' = h :=
  SharedFinder.find_keeps_finder cfg hay f h c o f' h' c' hstep

open Memchr.Memmem Memchr.SharedFinder in
/-- the hypotheses of `shared_finder` are satisfiable, and the bookkeeping is not trivial: three
threads, five calls on two different valid haystacks, interleaved; thread 1 made the calls at
positions 1 and 3, thread 7 none -/
example :
    let n : Slice := ⟨⟨1, 1048577, #[0, 97, 98, 0]⟩, 1, 2⟩
    let a : Slice := ⟨⟨0, 4099, #[120, 97, 98, 97, 98, 120]⟩, 1, 4⟩
    let b : Slice := ⟨⟨2, 8192, #[97, 98]⟩, 0, 2⟩
    let s : Sched := [(0, a), (1, b), (2, a), (1, a), (0, b)]
    n.Valid ∧ (∀ p ∈ s, p.2.Valid) ∧
    (alone 1 s).map (·.1) = [1, 1] ∧ (alone 7 s).length = 0 ∧
    project 1 s ([.idx (some 0), .idx (some 10), .idx none, .idx (some 30), .idx (some 40)] : List Memmem.Out) =
      [.idx (some 10), .idx (some 30)] := by
  refine ⟨by simp [Slice.Valid], ?_, by decide, by decide, by decide⟩
  intro p hp
  simp at hp
  rcases hp with rfl | rfl | rfl | rfl | rfl <;> simp [Slice.Valid]

end Memchr.Props.C15

#print axioms Memchr.Props.C15.any_schedule
#print axioms Memchr.Props.C15.same_as_isolated
#print axioms Memchr.Props.C15.sequential_first_call
#print axioms Memchr.Props.C15.find_any_schedule
#print axioms Memchr.Props.C15.count_any_schedule
#print axioms Memchr.Props.C15.race
#print axioms Memchr.Props.C15.race_value
#print axioms Memchr.Props.C15.shared_finder
#print axioms Memchr.Props.C15.shared_finder_rev
#print axioms Memchr.Props.C15.find_keeps_finder
