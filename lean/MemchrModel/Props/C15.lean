/-
C15  Concurrent use gives the same answers as sequential use.

Only statements, one-line proofs from the master lemmas (`Proofs/Concurrency.lean`), a concrete
racing schedule and `#print axioms`.

WHAT THE MODEL IS (`Model/Concurrency.lean`). The only shared mutable state the byte-search
routines have is the cell `static FN: AtomicPtr<()>` of `unsafe_ifunc!`
(`src/arch/x86_64/memchr.rs`), one per dispatched routine (`memchr_raw`, `memrchr_raw`,
`memchr2_raw`, `memrchr2_raw`, `memchr3_raw`, `memrchr3_raw`, `count_raw`; `Ifunc` is one such
instantiation). A `State` records EVERY value ever stored into `FN` (`stored`, initially
`[detect]`), per thread the value its `FN.load(Relaxed)` returned and has not yet called
(`pending`), per thread the calls it still has to make (`queue`), and the outcomes of the
completed calls (`results`). One `step` of thread `tid` is: load `FN`; or, having loaded
`detect`, run `detect` (choose `x86Detect cfg`, `FN.store(Relaxed)`, call the choice); or,
having loaded `find_<b>`, call it. A `Schedule` is a list of `(thread, idx)`: which thread moves
next, and — if the move is a load — WHICH of the values ever stored the load returns
(`idx` modulo the number of stored values).

The cell exists only on x86_64 (`x86Detect cfg` is `Api.select cfg` there). On aarch64, wasm32
and every other architecture the implementation is fixed at compile time and the routines have
no shared mutable state at all, so there is nothing to schedule.

WHAT THE THEOREMS COVER. They quantify over every `queue` (any number of threads, any calls
per thread, any arguments, so first and subsequent calls) and every `Schedule` (every
interleaving of the threads' loads / stores / calls, and for every relaxed load every result
drawn from the set of values EVER stored, however stale). That is a superset of the behaviours
the C++11 / Rust memory model allows for relaxed atomics on a single location, so the
conclusions hold for every real execution that the assumptions below admit.

WHAT THE MODEL CANNOT EXPRESS (trusted, not proved):
* tearing: a load returns one of the stored pointers, never a mixture of two (guaranteed by
  `AtomicPtr`; on the hardware, an aligned pointer-sized access);
* the hardware memory model and the compiler: that `Ordering::Relaxed` loads/stores of one
  location behave as "some previously stored value" (out-of-thin-air values are excluded);
* data races on non-atomic memory: the haystack is assumed not to be written during a search
  (Rust's `&[u8]` guarantees it; for the raw-pointer forms it is the caller's obligation), and
  each call's counters / stack are private (every call starts from the empty counter `{}`);
* that transmuting the loaded pointer to the real function type and calling it is what
  `I.run b` models; that `detect`'s choice `x86Detect cfg` is the same in all threads (CPU
  features do not change while the process runs);
* progress / fairness: the theorems are about the calls that complete (`race` shows calls do
  complete); a schedule that never lets a thread move is not excluded.
* `Finder` / `FinderRev` / cloned iterators shared or sent across threads: the searchers hold
  no interior mutability (per-search state such as `PrefilterState` lives on the caller's
  stack), and in this model they are immutable values, so concurrent use is the same function
  applied to the same arguments; that `unsafe impl Send/Sync` for the raw-pointer iterator is
  sound is a statement about Rust's type system, outside the model.
  -- TODO(memmem): once the substring searcher proofs land, restate here that `Searcher.find`
  -- takes the searcher by shared reference and returns a value depending only on its arguments.
-/
import MemchrModel.Proofs.Concurrency

namespace Memchr.Props.C15

open Memchr Memchr.Api Memchr.Concurrency

/-- General form, for any instantiation `I` of `unsafe_ifunc!` and any predicate `P` on
(arguments, outcome): if the implementation `detect` chooses (`x86Detect cfg`) satisfies `P` on
every argument tuple when run in isolation (from the empty counter `{}`), then in every state
reachable from the initial one (`FN = detect`, nothing loaded) by ANY schedule — any number of
threads, any per-thread call sequences `queue`, any interleaving, any choice of load results
among the values ever stored — every completed call satisfies `P`. In particular no call ever
ran an implementation other than the chosen one, and no call jumped through a garbage
pointer. -/
theorem any_schedule {Args R : Type} (I : Ifunc Args R) (cfg : Cfg) (P : Args → Res R → Prop)
    (hP : ∀ a, P a (I.run (x86Detect cfg) a {})) (queue : Nat → List Args) (sched : Schedule) :
    ∀ r ∈ (runSchedule I cfg (init queue) sched).results, P r.2.1 r.2.2 :=
  Concurrency.any_schedule I cfg P hP queue sched

/-- "every call returns exactly what it would return in isolation": the outcome recorded for
every completed call `(thread, args, outcome)`, under any schedule, is EQUAL (value, or fault,
and counters) to the outcome of running the chosen implementation alone on the same
arguments. -/
theorem same_as_isolated {Args R : Type} (I : Ifunc Args R) (cfg : Cfg)
    (queue : Nat → List Args) (sched : Schedule) :
    ∀ r ∈ (runSchedule I cfg (init queue) sched).results,
      r.2.2 = I.run (x86Detect cfg) r.2.1 {} :=
  Concurrency.any_schedule I cfg (fun a res => res = I.run (x86Detect cfg) a {}) (fun _ => rfl)
    queue sched

/-- The sequential reference: one thread making one call from the initial state (load `detect`,
run it) gets exactly the isolated outcome of the chosen implementation — the oracle that
`same_as_isolated` compares every concurrent call with. -/
theorem sequential_first_call {Args R : Type} (I : Ifunc Args R) (cfg : Cfg) (a : Args) :
    (runSchedule I cfg (init (fun t => if t = 0 then [a] else [])) [(0, 0), (0, 0)]).results
      = [(0, a, I.run (x86Detect cfg) a {})] :=
  rfl

/-- The six dispatched search routines (`rev = false`: `memchr_raw`, `memchr2_raw`,
`memchr3_raw`; `rev = true`: `memrchr_raw`, `memrchr2_raw`, `memrchr3_raw`; the needle set is
part of each call's arguments): under any schedule, every completed call whose window
`[start, end)` lies inside its memory region returned normally with the specified value — the
address of the first / last needle byte of the window, `none` iff there is none
(`Api.specFind`, spelled out in `C01.raw_every_backend` / `C02.raw_every_backend`). -/
theorem find_any_schedule (rev : Bool) (cfg : Cfg) (queue : Nat → List FindArgs)
    (sched : Schedule) :
    ∀ r ∈ (runSchedule (findIfunc rev) cfg (init queue) sched).results,
      r.2.1.m.base ≤ r.2.1.start → r.2.1.end_ ≤ r.2.1.m.base + r.2.1.m.bytes.size →
      ∃ c', r.2.2 = .ok (specFind r.2.1.ns rev r.2.1.m r.2.1.start r.2.1.end_) c' :=
  Concurrency.C15_find rev cfg queue sched

/-- The seventh dispatched routine, `count_raw`: under any schedule, every completed call on a
window inside its region returned the number of bytes of the window equal to the needle. -/
theorem count_any_schedule (cfg : Cfg) (queue : Nat → List CountArgs) (sched : Schedule) :
    ∀ r ∈ (runSchedule countIfunc cfg (init queue) sched).results,
      r.2.1.m.base ≤ r.2.1.start → r.2.1.end_ ≤ r.2.1.m.base + r.2.1.m.bytes.size →
      ∃ c', r.2.2 = .ok (specCount r.2.1.n1 r.2.1.m r.2.1.start r.2.1.end_) c' :=
  Concurrency.C15_count cfg queue sched

/-- The model is not vacuous — a concrete two-thread race on the very first calls (the same
schedule as the `example` at the end of `Proofs/Concurrency.lean`, which is anonymous and cannot
be referenced, so it is re-checked here by evaluation). Haystack `"baba"` at address 1001,
needle `'a'`, each thread calls `memchr_raw` twice, x86_64 with AVX2 detected at run time.
Schedule: both threads load `detect` before either stores; both run `detect` (two stores);
thread 1's second call loads the initial, stale `detect` AGAIN (index 0) and runs it (third
store); thread 0's second call loads a stored implementation (index 2) and calls it. All four
calls complete, in the order thread 0, 1, 1, 0 (most recent first), all with the same
arguments; `FN` was stored to three times, always with `find_avx2`. By `find_any_schedule` and
`race_value` each of the four calls returned `some 1002`. -/
theorem race :
    let m : Mem := ⟨0, 1001, #[0x62, 0x61, 0x62, 0x61]⟩
    let a : FindArgs := ⟨⟨0x61, []⟩, m, 1001, 1005⟩
    let cfg : Cfg := { arch := .x86_64, ctSse2 := true, ctAvx2 := false, ctNeon := false,
                       std := true, cpuAvx2 := true }
    let st := runSchedule (findIfunc false) cfg (init (fun t => if t < 2 then [a, a] else []))
      [(0, 0), (1, 0), (0, 0), (1, 0), (1, 0), (1, 0), (0, 2), (0, 0)]
    st.results.map (fun r => r.1) = [0, 1, 1, 0]
    ∧ st.results.map (fun r => (r.2.1.start, r.2.1.end_)) =
        [(1001, 1005), (1001, 1005), (1001, 1005), (1001, 1005)]
    ∧ st.stored = [.detect, .impl .avx2, .impl .avx2, .impl .avx2] := by
  decide

/-- the specified value for the calls of `race`: the first `'a'` of `"baba"` at 1001 is at
address 1002, and the window `[1001, 1005)` satisfies the hypotheses of `find_any_schedule` -/
theorem race_value :
    specFind ⟨0x61, []⟩ false ⟨0, 1001, #[0x62, 0x61, 0x62, 0x61]⟩ 1001 1005 = some 1002 ∧
    (1001 : Nat) ≤ 1001 ∧ 1005 ≤ 1001 + (#[0x62, 0x61, 0x62, 0x61] : Array UInt8).size := by
  decide

end Memchr.Props.C15

#print axioms Memchr.Props.C15.any_schedule
#print axioms Memchr.Props.C15.same_as_isolated
#print axioms Memchr.Props.C15.sequential_first_call
#print axioms Memchr.Props.C15.find_any_schedule
#print axioms Memchr.Props.C15.count_any_schedule
#print axioms Memchr.Props.C15.race
#print axioms Memchr.Props.C15.race_value
