/-
C07  Byte counting equals the number of matching bytes.

Only statements, one-line proofs from the master lemmas, non-vacuity examples and
`#print axioms`.

How the clauses of the property are covered:

  clause                                                   theorems
  -------------------------------------------------------  -------------------------------------
  vector `count_raw`, any lawful vector type, >= 1 vector  `generic_count`
    ... instances SSE2 / AVX2 / NEON / wasm simd128        `sse2_count`, `avx2_count`,
                                                           `neon_count`, `simd128_count`
  SWAR module's scalar `One::count_raw`, every start/end   `swar_count`
  `One::count_raw` of EVERY backend, every window           `raw_every_backend`,
    (short, empty; reversed needs no precondition)          `raw_zero_when_start_ge_end`
  `One::count(haystack)` of every backend (slice form)      `slice_every_backend`
  `memchr_iter(n, hay).count()` (fresh iterator), every
    configuration                                           `memchr_iter_count`
  `count()` on an iterator ALREADY ADVANCED from either
    end returns the number of matches not yet yielded       `iter_count`, `iter_count_backend`,
                                                            `iter_count_not_yet_yielded`

`Spec.countP p l` is `List.countP p l`, the number of positions of `l` whose byte satisfies `p`.
-/
import MemchrModel.Proofs.MemchrGeneric
import MemchrModel.Proofs.Sensible
import MemchrModel.Proofs.Neon
import MemchrModel.Proofs.Swar
import MemchrModel.Proofs.MemchrApi
import MemchrModel.Proofs.MemchrApiIter
import MemchrModel.Proofs.PropsBridge2
import MemchrModel.Generated.Consts

namespace Memchr.Props.C07

open Memchr

/-! ### the generic vector routine and its instances -/

/-- The generic vector `count_raw` on ANY lawful vector type returns exactly the number of
bytes of `[start, end)` equal to the needle, without any fault, for every memory region and
every window of at least `V::BYTES` bytes. -/
theorem generic_count (V : VecImpl) (L : Lawful V) (n1 : UInt8) (u : Nat) (hu : 0 < u)
    (m : Mem) (start end_ : Nat) (c : Ctr)
    (hs : m.base ≤ start) (he : end_ ≤ m.base + m.bytes.size) (hlen : start + V.bytes ≤ end_) :
    ∃ c', Generic.countRaw V n1 u hu m start end_ c =
      .ok (Spec.countP (· == n1) (m.window start (end_ - start))) c' :=
  Generic.countRaw_correct V L n1 u hu m start end_ c hs he hlen

/-- the unroll factor of `One` in the source is positive (re-checked against the regenerated
constants) -/
theorem unroll_pos : 0 < Generated.oneUnroll := by decide

/-- SSE2 instance with the source's unroll factor. -/
theorem sse2_count (n1 : UInt8) (m : Mem) (start end_ : Nat) (c : Ctr)
    (hs : m.base ≤ start) (he : end_ ≤ m.base + m.bytes.size) (hlen : start + 16 ≤ end_) :
    ∃ c', Generic.countRaw Sensible.sse2 n1 Generated.oneUnroll unroll_pos m start end_ c =
      .ok (Spec.countP (· == n1) (m.window start (end_ - start))) c' :=
  generic_count Sensible.sse2 Sensible.lawful_sse2 n1 Generated.oneUnroll unroll_pos m start end_ c hs he hlen

/-- hypotheses are satisfiable: a 40-byte region at an odd base address -/
example : ∃ (m : Mem) (start end_ : Nat), m.base ≤ start ∧ end_ ≤ m.base + m.bytes.size ∧ start + 16 ≤ end_ :=
  ⟨⟨0, 1001, Array.replicate 40 0⟩, 1003, 1041, by decide, by simp, by decide⟩

/-- AVX2 instance (32 lanes, popcount of a 32-bit movemask), any unroll factor. -/
theorem avx2_count (n1 : UInt8) (u : Nat) (hu : 0 < u) (m : Mem) (start end_ : Nat) (c : Ctr)
    (hs : m.base ≤ start) (he : end_ ≤ m.base + m.bytes.size) (hlen : start + 32 ≤ end_) :
    ∃ c', Generic.countRaw Sensible.avx2 n1 u hu m start end_ c =
      .ok (Spec.countP (· == n1) (m.window start (end_ - start))) c' :=
  generic_count Sensible.avx2 Sensible.lawful_avx2 n1 u hu m start end_ c hs he hlen

/-- NEON instance: `movemask` narrows the comparison result to a 64-bit mask with one nibble per
lane and keeps one bit per nibble (`& 0x8888888888888888`), so that `count_ones` of the mask is
the number of matching lanes; `Neon.lawful` contains the proof. Any unroll factor, windows of at
least 16 bytes. -/
theorem neon_count (n1 : UInt8) (u : Nat) (hu : 0 < u) (m : Mem) (start end_ : Nat) (c : Ctr)
    (hs : m.base ≤ start) (he : end_ ≤ m.base + m.bytes.size) (hlen : start + 16 ≤ end_) :
    ∃ c', Generic.countRaw Neon.impl n1 u hu m start end_ c =
      .ok (Spec.countP (· == n1) (m.window start (end_ - start))) c' :=
  generic_count Neon.impl Neon.lawful n1 u hu m start end_ c hs he hlen

/-- wasm simd128 instance, any unroll factor, windows of at least 16 bytes. -/
theorem simd128_count (n1 : UInt8) (u : Nat) (hu : 0 < u) (m : Mem) (start end_ : Nat) (c : Ctr)
    (hs : m.base ≤ start) (he : end_ ≤ m.base + m.bytes.size) (hlen : start + 16 ≤ end_) :
    ∃ c', Generic.countRaw Sensible.simd128 n1 u hu m start end_ c =
      .ok (Spec.countP (· == n1) (m.window start (end_ - start))) c' :=
  generic_count Sensible.simd128 Sensible.lawful_simd128 n1 u hu m start end_ c hs he hlen

/-- hypotheses of the 32-byte instance are satisfiable: an 80-byte region at an odd base -/
example : ∃ (m : Mem) (start end_ : Nat), m.base ≤ start ∧ end_ ≤ m.base + m.bytes.size ∧ start + 32 ≤ end_ :=
  ⟨⟨0, 1001, Array.replicate 80 0⟩, 1003, 1077, by decide, by simp, by decide⟩

/-! ### SWAR module -/

/-- `arch::all::memchr::One::count_raw` (the scalar byte-by-byte loop that replaced the SWAR
count) for EVERY pair `start`, `end`: when `start < end` the window must lie inside the region
(any length, any alignment); when `start >= end` there is no precondition and the result is 0. -/
theorem swar_count (n1 : UInt8) (m : Mem) (start end_ : Nat) (c : Ctr)
    (hb : start < end_ → m.base ≤ start ∧ end_ ≤ m.base + m.bytes.size) :
    ∃ c', Swar.One.countRaw n1 m start end_ c =
      .ok (Spec.countP (· == n1) (m.window start (end_ - start))) c' :=
  Swar.One.countRaw_correct n1 m start end_ c hb

/-- the precondition is satisfiable by a non-trivial input -/
example : ∃ (m : Mem) (start end_ : Nat), start < end_ ∧
    (start < end_ → m.base ≤ start ∧ end_ ≤ m.base + m.bytes.size) :=
  ⟨⟨0, 3, Array.replicate 20 7⟩, 4, 22, by decide, fun _ => ⟨by decide, by simp⟩⟩

/-! ### every backend -/

/-- `One::count_raw` of EVERY backend (SWAR module, SSE2, AVX2, NEON, wasm simd128; including
the wrappers' routing of windows shorter than a vector to the byte-by-byte loop and, on AVX2, of
16..31-byte windows to SSE2) for ALL `start`, `end` with `[start, end)` inside the region,
including `start >= end` (value 0): the number of bytes of the window equal to the needle. -/
theorem raw_every_backend (b : Api.Backend) (n1 : UInt8) (m : Mem) (start end_ : Nat) (c : Ctr)
    (hs : m.base ≤ start) (he : end_ ≤ m.base + m.bytes.size) :
    ∃ c', Api.rawCount b n1 m start end_ c =
      .ok (Spec.countP (· == n1) (m.window start (end_ - start))) c' :=
  Api.C07_raw b n1 m start end_ c hs he

/-- for every backend, with NO hypothesis on the pointers, `count_raw` returns 0 when
`start >= end`, taking no step and performing no load -/
theorem raw_zero_when_start_ge_end (b : Api.Backend) (n1 : UInt8) (m : Mem) (start end_ : Nat)
    (c : Ctr) (h : start ≥ end_) : Api.rawCount b n1 m start end_ c = .ok 0 c :=
  Bridge2.rawCount_reversed b n1 m start end_ c h

/-- hypotheses are satisfiable: a 40-byte region at an odd base address, a 5-byte window -/
example : ∃ (m : Mem) (start end_ : Nat), m.base ≤ start ∧ end_ ≤ m.base + m.bytes.size ∧
    start < end_ :=
  ⟨⟨0, 1001, Array.replicate 40 0⟩, 1003, 1008, by decide, by simp, by decide⟩

/-- `<backend>::memchr::One::count(haystack)` (slice form) of every backend: the number of bytes
of the slice equal to the needle, for every valid slice (every length from 0, every
alignment). -/
theorem slice_every_backend (b : Api.Backend) (n1 : UInt8) (hay : Slice) (hv : hay.Valid)
    (c : Ctr) :
    ∃ c', Api.sliceCount b n1 hay c = .ok (Spec.countP (· == n1) hay.toList) c' :=
  Bridge2.sliceCount_toList b n1 hay hv c

/-- `memchr_iter(n1, haystack).count()` — the `Iterator::count` specialisation of `Memchr` on a
FRESH iterator — under every build / CPU configuration: the number of bytes of the haystack
equal to the needle. (Stated on the address window in `Api.count_correct`; `hay.toList` is that
window.) -/
theorem memchr_iter_count (cfg : Api.Cfg) (n1 : UInt8) (hay : Slice) (hv : hay.Valid) (c : Ctr) :
    ∃ c', Api.count cfg n1 hay c = .ok (Spec.countP (· == n1) hay.toList) c' :=
  Bridge2.count_toList cfg n1 hay hv c

/-- the same in the form proved in `Proofs/MemchrApi.lean` (address window of the slice) -/
theorem memchr_iter_count_window (cfg : Api.Cfg) (n1 : UInt8) (hay : Slice) (hv : hay.Valid)
    (c : Ctr) :
    ∃ c', Api.count cfg n1 hay c =
      .ok (Spec.countP (· == n1) (hay.mem.window hay.ptr hay.len)) c' :=
  Api.count_correct cfg n1 hay hv c

/-- a valid, non-trivial slice: bytes 3..13 of a 40-byte region at an odd address -/
example : (⟨⟨0, 1001, Array.replicate 40 0⟩, 3, 10⟩ : Slice).Valid := by
  simp [Slice.Valid]

/-! ### count on a partially consumed iterator -/

/-- "When called on an iterator that has already been advanced from either end, count() returns
the number of matches not yet yielded": take a fresh `Memchr`/`Memchr2`/`Memchr3` iterator (any
configuration, any haystack, any needles), apply ANY finite sequence `ops` of `next` /
`next_back` / `size_hint` / `clone().count()` calls, then call `count`. The run does not fault,
and `count` returns the length of what the abstract iterator (see `Props/C06.lean`: the sorted
list of all match positions, `next` pops the front, `next_back` pops the back) has left. For
`Memchr` this is `count_raw` on the CURRENT window `[start, end)`, for `Memchr2`/`Memchr3` the
default `next` loop. -/
theorem iter_count (cfg : Api.Cfg) (ns : Needles) (hay : Slice) (hv : hay.Valid)
    (ops : List Api.Op) (c : Ctr) :
    ∃ outs it' c' c'', Api.Iter.run (Api.RawFns.ofCfg cfg ns hay.mem) ops (Api.Iter.new hay) c
        = .ok (outs, it') c' ∧
      it'.countWith (Api.RawFns.ofCfg cfg ns hay.mem) c'
        = .ok (Api.absRun ops (Api.allMatches hay ns)).2.length c'' :=
  Api.C07_iter_count cfg ns hay hv ops c

/-- the same for `OneIter`/`TwoIter`/`ThreeIter` of every backend's wrapper module -/
theorem iter_count_backend (b : Api.Backend) (ns : Needles) (hay : Slice) (hv : hay.Valid)
    (ops : List Api.Op) (c : Ctr) :
    ∃ outs it' c' c'', Api.Iter.run (Api.RawFns.ofBackend b ns hay.mem) ops (Api.Iter.new hay) c
        = .ok (outs, it') c' ∧
      it'.countWith (Api.RawFns.ofBackend b ns hay.mem) c'
        = .ok (Api.absRun ops (Api.allMatches hay ns)).2.length c'' :=
  Api.C07_iter_count_backend b ns hay hv ops c

/-- The same with "not yet yielded" spelled out on the REAL outputs, without the abstract
iterator: `Bridge2.fronts ops outs` / `Bridge2.backs ops outs` are the positions the `next` /
`next_back` calls of the prefix actually returned; the value `k` returned by `count` afterwards
satisfies  (yielded from the front) + k + (yielded from the back) = number of match positions
of the haystack. -/
theorem iter_count_not_yet_yielded (cfg : Api.Cfg) (ns : Needles) (hay : Slice) (hv : hay.Valid)
    (ops : List Api.Op) (c : Ctr) :
    ∃ outs it' c' k c'', Api.Iter.run (Api.RawFns.ofCfg cfg ns hay.mem) ops (Api.Iter.new hay) c
        = .ok (outs, it') c' ∧
      it'.countWith (Api.RawFns.ofCfg cfg ns hay.mem) c' = .ok k c'' ∧
      (Bridge2.fronts ops outs).length + k + (Bridge2.backs ops outs).length
        = (Api.allMatches hay ns).length :=
  Bridge2.count_after_prefix cfg ns hay hv ops c

end Memchr.Props.C07

#print axioms Memchr.Props.C07.generic_count
#print axioms Memchr.Props.C07.unroll_pos
#print axioms Memchr.Props.C07.sse2_count
#print axioms Memchr.Props.C07.avx2_count
#print axioms Memchr.Props.C07.neon_count
#print axioms Memchr.Props.C07.simd128_count
#print axioms Memchr.Props.C07.swar_count
#print axioms Memchr.Props.C07.raw_every_backend
#print axioms Memchr.Props.C07.raw_zero_when_start_ge_end
#print axioms Memchr.Props.C07.slice_every_backend
#print axioms Memchr.Props.C07.memchr_iter_count
#print axioms Memchr.Props.C07.memchr_iter_count_window
#print axioms Memchr.Props.C07.iter_count
#print axioms Memchr.Props.C07.iter_count_backend
#print axioms Memchr.Props.C07.iter_count_not_yet_yielded
