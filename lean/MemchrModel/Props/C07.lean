/-
C07  Byte counting equals the number of matching bytes.
-/
import MemchrModel.Proofs.MemchrGeneric
import MemchrModel.Proofs.Sensible
import MemchrModel.Generated.Consts

namespace Memchr.Props.C07

open Memchr

/-- The generic vector `count_raw` on ANY lawful vector type returns exactly the number of
bytes of `[start, end)` equal to the needle, without any fault, for every memory region and
every window of at least `V::BYTES` bytes. -/
theorem generic_count (V : VecImpl) (L : Lawful V) (n1 : UInt8) (u : Nat) (hu : 0 < u)
    (m : Mem) (start end_ : Nat) (c : Ctr)
    (hs : m.base ≤ start) (he : end_ ≤ m.base + m.bytes.size) (hlen : start + V.bytes ≤ end_) :
    ∃ c', Generic.countRaw V n1 u hu m start end_ c =
      .ok (Spec.countP (· == n1) (m.window start (end_ - start))) c' :=
  Generic.countRaw_correct V L n1 u hu m start end_ c hs he hlen

theorem unroll_pos : 0 < Generated.oneUnroll := by decide

theorem sse2_count (n1 : UInt8) (m : Mem) (start end_ : Nat) (c : Ctr)
    (hs : m.base ≤ start) (he : end_ ≤ m.base + m.bytes.size) (hlen : start + 16 ≤ end_) :
    ∃ c', Generic.countRaw Sensible.sse2 n1 Generated.oneUnroll unroll_pos m start end_ c =
      .ok (Spec.countP (· == n1) (m.window start (end_ - start))) c' :=
  generic_count Sensible.sse2 Sensible.lawful_sse2 n1 Generated.oneUnroll unroll_pos m start end_ c hs he hlen

example : ∃ (m : Mem) (start end_ : Nat), m.base ≤ start ∧ end_ ≤ m.base + m.bytes.size ∧ start + 16 ≤ end_ :=
  ⟨⟨0, 1001, Array.replicate 40 0⟩, 1003, 1041, by decide, by simp, by decide⟩

end Memchr.Props.C07

#print axioms Memchr.Props.C07.generic_count
#print axioms Memchr.Props.C07.unroll_pos
#print axioms Memchr.Props.C07.sse2_count
