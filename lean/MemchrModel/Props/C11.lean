/-
C11  Candidate prefilters never skip a real match.

For the generic (vector) packed-pair prefilter on every lawful vector type - and its SSE2,
AVX2, NEON and simd128 instances - and for the portable prefilter
(`src/arch/all/packedpair/mod.rs`): whenever the needle occurs in the haystack the prefilter
returns a candidate no greater than the first occurrence; `None` only if the needle does not
occur; a returned candidate is a position where the two selected needle bytes are present at
their offsets.

The portable prefilter calls `memchr`; its theorems are parametric in a `memchr` that is
assumed to return the first position of the byte (`Fallback.MemchrOk memchr K`; the hypothesis
is kept explicit), and are instantiated with the specification `Fallback.specMemchr`.

The last section covers the prefilter strategies as the substring meta searcher
(`src/memmem/searcher.rs`) actually runs them: `Prefilter::find` for EVERY strategy
`Searcher::new` builds - the vector kinds on haystacks of at least `min_haystack_len()` bytes,
their PRIVATE short-haystack path `Prefilter::find_simple` (first position of the rarest byte
minus its needle offset) below that, and the portable kind with the crate's real, dispatched
`memchr` of every configuration (no hypothesis about `memchr` left) - in the form Two-Way
consumes (`PreSound`, unfolded in `pre_sound_iff`).

Only statements, one-line proofs from the master lemmas, non-vacuity examples and
`#print axioms`.
-/
import MemchrModel.Proofs.PackedPair
import MemchrModel.Proofs.Sensible
import MemchrModel.Proofs.Neon
import MemchrModel.Proofs.PairFallback
import MemchrModel.Proofs.PropsBridge3

namespace Memchr.Props.C11

open Memchr

/-! ### generic vector prefilter (`src/arch/generic/packedpair.rs`) -/

/-- The statement of C11 for one vector type `V`. For every valid haystack and needle, every
pair of distinct in-range needle offsets `i1 ≠ i2` (in either order), the finder `f` returned
by `Finder::new(needle, Pair{i1, i2})`, every haystack of at least `f.min_haystack_len` bytes
and every counter state, `find_prefilter(haystack)`
* returns normally (no fault of any kind);
* a returned candidate `x` has both pair positions inside the haystack and
  `hay[x + i1] = needle[i1]`, `hay[x + i2] = needle[i2]`;
* for EVERY occurrence `q` of the needle (in particular the first one, wherever it lies,
  including the last overlapping chunk and the final `needle.len()` bytes) the result is
  `Some(x)` with `x <= q`;
* hence `None` implies that the needle does not occur;
* it costs `x / BYTES + 1` steps for `Some(x)` and `(len - min_haystack_len) / BYTES + 2` for
  `None`. -/
def PrefilterNeverSkips (V : VecImpl) : Prop :=
  ∀ (hay needle : Slice), hay.Valid → needle.Valid →
  ∀ (i1 i2 : Nat), i1 ≠ i2 → i1 < needle.len → i2 < needle.len →
  ∀ (f : PackedPair.Finder) (c0 c0' : Ctr), PackedPair.Finder.new V needle i1 i2 c0 = .ok f c0' →
  f.minHaystackLen ≤ hay.len →
  ∀ (c : Ctr),
    ∃ r c', PackedPair.findPrefilter V f hay c = .ok r c' ∧
      (∀ x, r = some x → x + max i1 i2 < hay.len ∧
        hay.toArray[x + i1]? = needle.toArray[i1]? ∧
        hay.toArray[x + i2]? = needle.toArray[i2]?) ∧
      (∀ q, Spec.OccAt hay.toArray needle.toArray q → ∃ x, r = some x ∧ x ≤ q) ∧
      (r = none → ∀ q, ¬ Spec.OccAt hay.toArray needle.toArray q) ∧
      c'.steps ≤ c.steps + PackedPair.preCost' V f hay r

/-- C11 holds for the generic packed-pair prefilter on EVERY lawful vector type. -/
theorem generic_prefilter_never_skips (V : VecImpl) (L : Lawful V) : PrefilterNeverSkips V :=
  fun hay needle hh hn i1 i2 hne h1 h2 f c0 c0' hf hlen c =>
    PackedPair.findPrefilter_sound L hay needle hh hn i1 i2 hne h1 h2 f c0 c0' hf hlen c

/-- C11 for the SSE2 prefilter (`src/arch/x86_64/sse2/packedpair.rs`, 16-byte vectors). -/
theorem sse2_prefilter_never_skips : PrefilterNeverSkips Sensible.sse2 :=
  generic_prefilter_never_skips Sensible.sse2 Sensible.lawful_sse2

/-- C11 for the AVX2 prefilter (`src/arch/x86_64/avx2/packedpair.rs`, 32-byte vectors). -/
theorem avx2_prefilter_never_skips : PrefilterNeverSkips Sensible.avx2 :=
  generic_prefilter_never_skips Sensible.avx2 Sensible.lawful_avx2

/-- C11 for the NEON prefilter (`src/arch/aarch64/neon/packedpair.rs`, nibble masks). -/
theorem neon_prefilter_never_skips : PrefilterNeverSkips Neon.impl :=
  generic_prefilter_never_skips Neon.impl Neon.lawful

/-- C11 for the simd128 prefilter (`src/arch/wasm32/simd128/packedpair.rs`). -/
theorem simd128_prefilter_never_skips : PrefilterNeverSkips Sensible.simd128 :=
  generic_prefilter_never_skips Sensible.simd128 Sensible.lawful_simd128

/-- The exact value of the vector prefilter, for EVERY finder value with distinct indices whose
`min_haystack_len` covers both loads (`FinderOk`; not only those built from a needle), every
lawful `V` and every valid haystack of at least `min_haystack_len` bytes: the LOWEST offset
among the scanned ones `0 .. len - min_haystack_len + BYTES - 1` where the finder's byte pair
matches (`PreRes'`), `None` iff there is none. -/
theorem generic_prefilter_exact (V : VecImpl) (L : Lawful V) (f : PackedPair.Finder)
    (hok : PackedPair.FinderOk V f) (hay : Slice) (hh : hay.Valid)
    (hlen : f.minHaystackLen ≤ hay.len) (c : Ctr) :
    ∃ r c', PackedPair.findPrefilter V f hay c = .ok r c' ∧ PackedPair.PreRes' V f hay r ∧
      c'.steps ≤ c.steps + PackedPair.preCost' V f hay r :=
  PackedPair.findPrefilter_spec L f hok hay hh hlen c

/-- hypotheses are satisfiable (SSE2): needle "abcdefgh", pair `(0, 7)`, finder with
`min_haystack_len = 23`, a 40-byte haystack holding the needle at offset 21 (i.e. inside the
last, overlapping chunk) -/
example : PackedPair.exHay.Valid ∧ PackedPair.exNeedle.Valid ∧ (0 : Nat) ≠ 7 ∧
    0 < PackedPair.exNeedle.len ∧ 7 < PackedPair.exNeedle.len ∧
    PackedPair.Finder.new Sensible.sse2 PackedPair.exNeedle 0 7 {} =
      .ok (PackedPair.mkFinder Sensible.sse2 PackedPair.exNeedle 0 7) {} ∧
    (PackedPair.mkFinder Sensible.sse2 PackedPair.exNeedle 0 7).minHaystackLen ≤
      PackedPair.exHay.len :=
  ⟨by unfold Slice.Valid; decide, by unfold Slice.Valid; decide, by decide, by decide, by decide,
   PackedPair.new_ok _ 0 7 {} (by decide) (by decide), by decide⟩

/-! ### portable prefilter (`src/arch/all/packedpair/mod.rs`) -/

/-- C11 for the portable prefilter, for EVERY `memchr` implementation that returns the first
position of the byte within `scanned + K` steps (`MemchrOk memchr K`, explicit hypothesis),
every valid needle and haystack (ANY lengths: there is no minimum haystack length) and every
pair `p` valid for the needle (two distinct in-range `u8` offsets, as `Pair::new`,
`Pair::with_ranker`, `Pair::with_indices` return; `index1 > index2` allowed):
(a) `Finder::with_pair` builds a finder and `find_prefilter` returns normally;
(b) an answer `Some(a)` has `hay[a + index1] = needle[index1]` and
    `hay[a + index2] = needle[index2]`, both in range;
(c) every occurrence `q` of the needle forces an answer `Some(a)` with `a <= q`;
(d) hence `None` implies that the needle does not occur;
(e) at most `(K + 2) * haystack.len() + K + 1` steps. -/
theorem fallback_prefilter_never_skips {memchr : UInt8 → Slice → M (Option Nat)} {K : Nat}
    (hm : Fallback.MemchrOk memchr K) (needle hay : Slice) (hvn : needle.Valid) (hvh : hay.Valid)
    (p : Pair) (hp : p.ValidFor needle) (c : Ctr) :
    ∃ f r c', Fallback.withPair needle p c = .ok (some f) c ∧
      Fallback.findPrefilter memchr f hay c = .ok r c' ∧
      (∀ a, r = some a →
        a + p.index1.toNat < hay.len ∧
        hay.getD (a + p.index1.toNat) = needle.getD p.index1.toNat ∧
        a + p.index2.toNat < hay.len ∧
        hay.getD (a + p.index2.toNat) = needle.getD p.index2.toNat) ∧
      (∀ q, Spec.OccAt hay.toArray needle.toArray q → ∃ a, r = some a ∧ a ≤ q) ∧
      (r = none → ∀ q, ¬ Spec.OccAt hay.toArray needle.toArray q) ∧
      c'.steps ≤ c.steps + (K + 2) * hay.len + K + 1 :=
  Fallback.findPrefilter_sound hm needle hay hvn hvh p hp c

/-- The specification `memchr` (returns `Spec.firstIdx` at no cost) satisfies the hypothesis
`MemchrOk` with `K = 0`, so the hypothesis of the previous theorem is not vacuous. -/
theorem spec_memchr_ok : Fallback.MemchrOk Fallback.specMemchr 0 :=
  Fallback.specMemchr_ok

/-- `fallback_prefilter_never_skips` instantiated with the specification `memchr` (`K = 0`):
no hypothesis about `memchr` is left; the step bound becomes `2 * haystack.len() + 1`. -/
theorem fallback_prefilter_never_skips_spec (needle hay : Slice) (hvn : needle.Valid)
    (hvh : hay.Valid) (p : Pair) (hp : p.ValidFor needle) (c : Ctr) :
    ∃ f r c', Fallback.withPair needle p c = .ok (some f) c ∧
      Fallback.findPrefilter Fallback.specMemchr f hay c = .ok r c' ∧
      (∀ a, r = some a →
        a + p.index1.toNat < hay.len ∧
        hay.getD (a + p.index1.toNat) = needle.getD p.index1.toNat ∧
        a + p.index2.toNat < hay.len ∧
        hay.getD (a + p.index2.toNat) = needle.getD p.index2.toNat) ∧
      (∀ q, Spec.OccAt hay.toArray needle.toArray q → ∃ a, r = some a ∧ a ≤ q) ∧
      (r = none → ∀ q, ¬ Spec.OccAt hay.toArray needle.toArray q) ∧
      c'.steps ≤ c.steps + (0 + 2) * hay.len + 0 + 1 :=
  Fallback.findPrefilter_sound Fallback.specMemchr_ok needle hay hvn hvh p hp c

/-- The exact value of the portable prefilter for EVERY finder value (any pair, any two bytes)
and every valid haystack, given a correct `memchr`: the LEAST candidate offset (`PreRes`: both
pair positions in range and holding the finder's bytes), `None` iff there is no candidate. -/
theorem fallback_prefilter_exact {memchr : UInt8 → Slice → M (Option Nat)} {K : Nat}
    (hm : Fallback.MemchrOk memchr K) (f : Fallback.Finder) (hay : Slice) (hv : hay.Valid)
    (c : Ctr) :
    ∃ r c', Fallback.findPrefilter memchr f hay c = .ok r c' ∧
      Fallback.PreRes f.byte1 f.byte2 f.pair.index1.toNat f.pair.index2.toNat hay r ∧
      c'.steps ≤ c.steps + (K + 2) * hay.len + K + 1 :=
  Fallback.findPrefilter_correct hm f hay hv c

/-- hypotheses are satisfiable: needle "abcab" with the pair `(2, 0)` (`index1 > index2`) and
the haystack "xxabcabxx" -/
example : (Slice.ofMem ⟨1, 64, #[97, 98, 99, 97, 98]⟩).Valid ∧
    (Slice.ofMem ⟨0, 4096, #[120, 120, 97, 98, 99, 97, 98, 120, 120]⟩).Valid ∧
    Pair.ValidFor ⟨2, 0⟩ (Slice.ofMem ⟨1, 64, #[97, 98, 99, 97, 98]⟩) :=
  ⟨Nat.le_of_eq (Nat.zero_add _), Nat.le_of_eq (Nat.zero_add _), ⟨by decide, by decide, by decide⟩⟩

/-! ### the prefilter strategies of the substring meta searcher (`src/memmem/searcher.rs`) -/

/-- **What "sound" means** (`Memmem.PreSound x strat`, the contract between a prefilter strategy
and Two-Way, for needle bytes `x`): on EVERY valid haystack slice the strategy returns normally,
and every occurrence `q` of the needle in that slice forces an answer `Some(a)` with `a <= q` -
a candidate no greater than the first occurrence; so `None` is only possible when the needle
does not occur (`pre_sound_none`). -/
theorem pre_sound_iff (x : Array UInt8) (strat : Slice → M (Option Nat)) :
    Memmem.PreSound x strat ↔
      ∀ (hay : Slice), hay.Valid → ∀ c, ∃ r c', strat hay c = .ok r c' ∧
        ∀ q, Spec.OccAt hay.toArray x q → ∃ a, r = some a ∧ a ≤ q :=
  Iff.rfl

/-- A sound strategy answers `None` only if the needle occurs nowhere in the haystack. -/
theorem pre_sound_none {x : Array UInt8} {strat : Slice → M (Option Nat)}
    (h : Memmem.PreSound x strat) (hay : Slice) (hv : hay.Valid) (c c' : Ctr)
    (hr : strat hay c = .ok none c') (q : Nat) : ¬ Spec.OccAt hay.toArray x q :=
  Memmem.PreSound.none_sound h hay hv c c' hr q

/-- **Every prefilter strategy of the meta searcher never skips a match, on every haystack.**
For every configuration, every valid needle `n` and every `Prefilter` value `p` as
`Prefilter::fallback` / `Prefilter::sse2 / avx2 / neon / simd128` build it for `n`
(`Prefilter.GoodFor n p`: `rarest_byte` is the needle byte at `rarest_offset`, and the wrapped
finder was built from a pair valid for `n`; by `searcher_new_prefilter_sound` every prefilter
inside a searcher returned by `Searcher::new` is such a value): `Prefilter::find(haystack)` on
EVERY valid haystack (any length - in particular shorter than the vector finder's
`min_haystack_len()`, where the private `find_simple` runs) returns normally, and every
occurrence `q` of the needle forces an answer `Some(a)` with `a <= q`. -/
theorem searcher_prefilter_sound (cfg : Api.Cfg) {n : Slice} (hn : n.Valid)
    {p : Memmem.Prefilter} (hg : p.GoodFor n) :
    ∀ (hay : Slice), hay.Valid → ∀ c, ∃ r c', p.find cfg hay c = .ok r c' ∧
      ∀ q, Spec.OccAt hay.toArray n.toArray q → ∃ a, r = some a ∧ a ≤ q :=
  Memmem.Prefilter.find_sound cfg hn hg

/-- **The private short-haystack path `Prefilter::find_simple`** (portable SWAR `memchr` for
`rarest_byte`, then `saturating_sub(rarest_offset)`), for every valid needle and every
`Prefilter` whose `rarest_offset` lies inside the needle and whose `rarest_byte` is the needle
byte there: on EVERY valid haystack (any length, the empty one included) it returns normally and
every occurrence `q` of the needle forces an answer `Some(a)` with `a <= q`. -/
theorem find_simple_sound (needle : Slice) (hvn : needle.Valid) (p : Memmem.Prefilter)
    (hoff : p.rarestOffset.toNat < needle.len)
    (hbyte : p.rarestByte = needle.getD p.rarestOffset.toNat) :
    ∀ (hay : Slice), hay.Valid → ∀ c, ∃ r c', p.findSimple hay c = .ok r c' ∧
      ∀ q, Spec.OccAt hay.toArray needle.toArray q → ∃ a, r = some a ∧ a ≤ q :=
  Memmem.findSimple_sound needle hvn p hoff hbyte

/-- **The portable prefilter with the crate's own `memchr`**, as the meta searcher calls it
(`prefilter_kind_fallback`): for EVERY configuration `cfg` (whichever backend its dispatched
`memchr` selects), every valid needle, and every portable finder holding a pair valid for the
needle and the needle's bytes at the pair's offsets: sound on every valid haystack. This removes
the `MemchrOk` hypothesis of `fallback_prefilter_never_skips` for the real `memchr`. -/
theorem fallback_prefilter_dispatched_memchr_sound (cfg : Api.Cfg) (needle : Slice)
    (hvn : needle.Valid) (f : Fallback.Finder) (hp : f.pair.ValidFor needle)
    (hb1 : f.byte1 = needle.getD f.pair.index1.toNat)
    (hb2 : f.byte2 = needle.getD f.pair.index2.toNat) :
    ∀ (hay : Slice), hay.Valid → ∀ c, ∃ r c',
      Fallback.findPrefilter (Memmem.topMemchr cfg) f hay c = .ok r c' ∧
      ∀ q, Spec.OccAt hay.toArray needle.toArray q → ∃ a, r = some a ∧ a ≤ q :=
  Memmem.fallback_sound (Memmem.topMemchr_val cfg) needle hvn f hp hb1 hb2

/-- **The per-ISA wrapper types** `<isa>::packedpair::Finder::find_prefilter` (SSE2, AVX2 - which
routes haystacks shorter than its 32-byte finder's minimum to its SSE2 finder -, NEON, simd128)
for a wrapper built by `with_pair(needle, pair)` from a pair valid for the needle
(`VecFinder.GoodFor`), on every valid haystack of at least `min_haystack_len()` bytes: returns
normally and never skips an occurrence. -/
theorem vec_wrapper_prefilter_sound {n : Slice} {vf : Memmem.VecFinder} (hg : vf.GoodFor n)
    (hay : Slice) (hh : hay.Valid) (hn : n.Valid) (hlen : vf.minHaystackLen ≤ hay.len) (c : Ctr) :
    ∃ r c', vf.findPrefilter hay c = .ok r c' ∧
      ∀ q, Spec.OccAt hay.toArray n.toArray q → ∃ a, r = some a ∧ a ≤ q :=
  Memmem.VecFinder.findPrefilter_ok hg hay hh hn hlen c

/-- **Every prefilter `Searcher::new` hands to Two-Way is sound.** For every configuration,
prefilter setting, ranker (any function `u8 -> u8`: the ranker only chooses WHICH two needle
bytes the prefilter looks for) and valid needle: `Searcher::new` returns normally, and if the
searcher it returns is of the kind `TwoWayWithPrefilter { finder, prestrat }` then `prestrat` is
a `GoodFor` value and its `find` is sound under that configuration. -/
theorem searcher_new_prefilter_sound (cfg : Api.Cfg) (pf : Memmem.PrefilterConfig)
    (rank : UInt8 → UInt8) (n : Slice) (hn : n.Valid) (c : Ctr) :
    ∃ s c', Memmem.Searcher.new cfg pf rank n c = .ok s c' ∧
      ∀ tw p, s.kind = .twoWayWithPrefilter tw p →
        p.GoodFor n ∧ Memmem.PreSound n.toArray (p.find cfg) :=
  Bridge3.searcher_new_prefilter_sound cfg pf rank n hn c

/-- hypotheses are satisfiable: for the needle "abcab" a `Prefilter` of the portable kind with
the pair `(2, 0)` - `rarest_offset = 2`, `rarest_byte = b'c'` - is `GoodFor` the needle (and so
satisfies the hypotheses of `find_simple_sound` and
`fallback_prefilter_dispatched_memchr_sound` too) -/
example :
    let needle := Slice.ofMem ⟨1, 64, #[97, 98, 99, 97, 98]⟩
    let p : Memmem.Prefilter :=
      { kind := .fallback { pair := ⟨2, 0⟩, byte1 := 99, byte2 := 97 },
        rarestByte := 99, rarestOffset := 2 }
    needle.Valid ∧ p.GoodFor needle :=
  ⟨Nat.le_of_eq (Nat.zero_add _), by decide, by decide, ⟨by decide, by decide, by decide⟩,
    by decide, by decide⟩

end Memchr.Props.C11

#print axioms Memchr.Props.C11.generic_prefilter_never_skips
#print axioms Memchr.Props.C11.sse2_prefilter_never_skips
#print axioms Memchr.Props.C11.avx2_prefilter_never_skips
#print axioms Memchr.Props.C11.neon_prefilter_never_skips
#print axioms Memchr.Props.C11.simd128_prefilter_never_skips
#print axioms Memchr.Props.C11.generic_prefilter_exact
#print axioms Memchr.Props.C11.fallback_prefilter_never_skips
#print axioms Memchr.Props.C11.spec_memchr_ok
#print axioms Memchr.Props.C11.fallback_prefilter_never_skips_spec
#print axioms Memchr.Props.C11.fallback_prefilter_exact
#print axioms Memchr.Props.C11.pre_sound_iff
#print axioms Memchr.Props.C11.pre_sound_none
#print axioms Memchr.Props.C11.searcher_prefilter_sound
#print axioms Memchr.Props.C11.find_simple_sound
#print axioms Memchr.Props.C11.fallback_prefilter_dispatched_memchr_sound
#print axioms Memchr.Props.C11.vec_wrapper_prefilter_sound
#print axioms Memchr.Props.C11.searcher_new_prefilter_sound
