/-
C12  Each public substring building block agrees with naive search.

On its documented domain each low-level searcher returns exactly `Spec.leftmost` (resp.
`Spec.rightmost`) of the needle in the haystack - the naive definition: the least (greatest)
offset at which the needle occurs, `none` if there is none - and constructors report
unsupported inputs by returning `None` (or, for the unreachable index case of the vector
packed-pair constructor, by the bounds-check panic) rather than by answering wrongly.

Covered: Two-Way forward and reverse (every needle and haystack; the constructors are total and
the values they compute are certified, `twoway_cert_fwd` / `twoway_cert_rev`); Rabin-Karp forward
and reverse; Shift-Or (needles up to 15 bytes); the generic packed pair `find` on every lawful
vector type with the SSE2, AVX2, NEON and simd128 instances; the constructors
`shiftor::Finder::new`, `packedpair::Finder::new` (vector), `Pair::with_indices`, portable
`packedpair::Finder::new`.

Only statements, one-line proofs from the master lemmas, non-vacuity examples and
`#print axioms`.
-/
import MemchrModel.Proofs.RabinKarp
import MemchrModel.Proofs.ShiftOr
import MemchrModel.Proofs.Pair
import MemchrModel.Proofs.PairFallback
import MemchrModel.Proofs.PackedPair
import MemchrModel.Proofs.Sensible
import MemchrModel.Proofs.Neon
import MemchrModel.Proofs.TwoWayCert
import MemchrModel.Proofs.TwoWayRevCert

namespace Memchr.Props.C12

open Memchr

/-! ### Rabin-Karp (`src/arch/all/rabinkarp.rs`) -/

/-- `rabinkarp::Finder::new(needle).find(haystack, needle)` for EVERY valid haystack and needle
(all lengths: empty needle, needle longer than the haystack, needles longer than 32 bytes whose
`hash_2pow` wraps to 0, colliding hashes) returns exactly the leftmost occurrence, without any
fault; the steps (construction included) are at most
`2 * (h.len + 1) * (n.len / 4 + 2) + 2 * n.len`. -/
theorem rabinkarp_find (h n : Slice) (c : Ctr) (hh : h.Valid) (hn : n.Valid) :
    ∃ c', (RabinKarp.Finder.new n >>= fun f => f.find h n) c =
        .ok (Spec.leftmost h.toArray n.toArray) c' ∧
      c'.steps ≤ c.steps + 2 * (h.len + 1) * (n.len / 4 + 2) + 2 * n.len :=
  RabinKarp.find_correct h n c hh hn

/-- `rabinkarp::FinderRev::new(needle).rfind(haystack, needle)` for every valid haystack and
needle returns exactly the rightmost occurrence, without any fault; same step bound. -/
theorem rabinkarp_rfind (h n : Slice) (c : Ctr) (hh : h.Valid) (hn : n.Valid) :
    ∃ c', (RabinKarp.FinderRev.new n >>= fun f => f.rfind h n) c =
        .ok (Spec.rightmost h.toArray n.toArray) c' ∧
      c'.steps ≤ c.steps + 2 * (h.len + 1) * (n.len / 4 + 2) + 2 * n.len :=
  RabinKarp.rfind_correct h n c hh hn

/-- The same when the finder was constructed from another slice `n0` (valid or not) holding the
same bytes as the search needle `n` (the documented usage: "the needle given to `find` must be
the one given to `new`" is about contents, not addresses). -/
theorem rabinkarp_find_same_bytes (h n0 n : Slice) (c : Ctr) (hh : h.Valid) (hn : n.Valid)
    (hb : n0.toList = n.toList) :
    ∃ c', (RabinKarp.Finder.new n0 >>= fun f => f.find h n) c =
        .ok (Spec.leftmost h.toArray n.toArray) c' ∧
      c'.steps ≤ c.steps + 2 * (h.len + 1) * (n.len / 4 + 2) + 2 * n.len :=
  RabinKarp.find_correct_same_bytes h n0 n c hh hn hb

/-- Reverse version of `rabinkarp_find_same_bytes`. -/
theorem rabinkarp_rfind_same_bytes (h n0 n : Slice) (c : Ctr) (hh : h.Valid) (hn : n.Valid)
    (hb : n0.toList = n.toList) :
    ∃ c', (RabinKarp.FinderRev.new n0 >>= fun f => f.rfind h n) c =
        .ok (Spec.rightmost h.toArray n.toArray) c' ∧
      c'.steps ≤ c.steps + 2 * (h.len + 1) * (n.len / 4 + 2) + 2 * n.len :=
  RabinKarp.rfind_correct_same_bytes h n0 n c hh hn hb

/-- hypotheses are satisfiable: sub-slices of larger regions; the needle `[1, 2, 3]` occurs in
`[1, 2, 1, 2, 3]` after a partial match -/
example : (⟨⟨0, 4096, #[9, 1, 2, 1, 2, 3, 9]⟩, 1, 5⟩ : Slice).Valid ∧
    (⟨⟨1, 8192, #[7, 1, 2, 3]⟩, 1, 3⟩ : Slice).Valid := by
  simp [Slice.Valid]

/-! ### Shift-Or (`src/arch/all/shiftor.rs`) -/

/-- For EVERY valid needle of at most 15 bytes (`MAX_NEEDLE_LEN`; a matching 15-byte needle
included) and every valid haystack: `shiftor::Finder::new(needle)` returns a finder and its
`find(haystack)` returns exactly the leftmost occurrence; neither faults (the `1 << n` shifts
stay below 16 bits) and neither touches the step counter or load trace. -/
theorem shiftor_find (needle hay : Slice) (hvn : needle.Valid) (hvh : hay.Valid)
    (hlen : needle.len ≤ 15) (c : Ctr) :
    ∃ f, ShiftOr.Finder.new needle c = .ok (some f) c ∧
      f.find hay c = .ok (Spec.leftmost hay.toArray needle.toArray) c :=
  ShiftOr.shiftOr_correct needle hay hvn hvh hlen c

/-- Constructor: for EVERY needle slice, `shiftor::Finder::new` answers `None` exactly when the
needle is longer than 15 bytes (it reports the unsupported input instead of building a finder
that would answer wrongly). -/
theorem shiftor_new_none_iff (needle : Slice) (c : Ctr) :
    ShiftOr.Finder.new needle c = .ok none c ↔ needle.len > 15 :=
  ShiftOr.new_eq_none_iff needle c

/-- The empty needle: for every (even invalid) haystack slice, the finder is built and `find`
returns `Some(0)`, as naive search does. -/
theorem shiftor_find_empty (needle hay : Slice) (h : needle.len = 0) (c : Ctr) :
    ∃ f, ShiftOr.Finder.new needle c = .ok (some f) c ∧ f.find hay c = .ok (some 0) c :=
  ShiftOr.find_empty needle hay h c

/-- hypotheses are satisfiable: needle "aba" in "xababa" (overlapping occurrences) -/
example : (Slice.ofMem ⟨1, 64, #[97, 98, 97]⟩).Valid ∧
    (Slice.ofMem ⟨0, 4096, #[120, 97, 98, 97, 98, 97]⟩).Valid ∧
    (Slice.ofMem ⟨1, 64, #[97, 98, 97]⟩).len ≤ 15 :=
  ⟨Nat.le_of_eq (Nat.zero_add _), Nat.le_of_eq (Nat.zero_add _), by decide⟩

/-! ### generic packed pair `find` (`src/arch/generic/packedpair.rs`) -/

/-- The statement of C12 for the packed-pair `find` of one vector type `V`. For every valid
haystack and needle, every pair of distinct in-range needle offsets `i1 ≠ i2`, the finder `f`
returned by `Finder::new(needle, Pair{i1, i2})`, every haystack of at least
`f.min_haystack_len` bytes and every counter state: `find(haystack, needle)` returns exactly
the leftmost occurrence of the needle (wherever it lies: main loop chunks, the final
overlapping chunk with its masked lanes, the last `needle.len()` bytes), without any fault,
within `findCost` =
`((len - min_haystack_len) / BYTES + 2) * (1 + BYTES * (needle.len / 4 + 3))` steps. -/
def FindIsLeftmost (V : VecImpl) : Prop :=
  ∀ (hay needle : Slice), hay.Valid → needle.Valid →
  ∀ (i1 i2 : Nat), i1 ≠ i2 → i1 < needle.len → i2 < needle.len →
  ∀ (f : PackedPair.Finder) (c0 c0' : Ctr), PackedPair.Finder.new V needle i1 i2 c0 = .ok f c0' →
  f.minHaystackLen ≤ hay.len →
  ∀ (c : Ctr),
    ∃ c', PackedPair.find V f hay needle c = .ok (Spec.leftmost hay.toArray needle.toArray) c' ∧
      c'.steps ≤ c.steps + PackedPair.findCost V f hay needle

/-- C12 holds for the generic packed-pair `find` on EVERY lawful vector type. -/
theorem packedpair_find (V : VecImpl) (L : Lawful V) : FindIsLeftmost V :=
  fun hay needle hh hn i1 i2 hne h1 h2 f c0 c0' hf hlen c =>
    PackedPair.find_correct L hay needle hh hn i1 i2 hne h1 h2 f c0 c0' hf hlen c

/-- C12 for `arch::x86_64::sse2::packedpair::Finder::find`. -/
theorem packedpair_find_sse2 : FindIsLeftmost Sensible.sse2 :=
  packedpair_find Sensible.sse2 Sensible.lawful_sse2

/-- C12 for `arch::x86_64::avx2::packedpair::Finder::find`. -/
theorem packedpair_find_avx2 : FindIsLeftmost Sensible.avx2 :=
  packedpair_find Sensible.avx2 Sensible.lawful_avx2

/-- C12 for `arch::aarch64::neon::packedpair::Finder::find`. -/
theorem packedpair_find_neon : FindIsLeftmost Neon.impl :=
  packedpair_find Neon.impl Neon.lawful

/-- C12 for `arch::wasm32::simd128::packedpair::Finder::find`. -/
theorem packedpair_find_simd128 : FindIsLeftmost Sensible.simd128 :=
  packedpair_find Sensible.simd128 Sensible.lawful_simd128

/-- hypotheses are satisfiable (SSE2): needle "abcdefgh", pair `(0, 7)`, finder with
`min_haystack_len = 23`, a 40-byte haystack with a false start at offset 2 and the needle at
offset 21 -/
example : PackedPair.exHay.Valid ∧ PackedPair.exNeedle.Valid ∧ (0 : Nat) ≠ 7 ∧
    0 < PackedPair.exNeedle.len ∧ 7 < PackedPair.exNeedle.len ∧
    PackedPair.Finder.new Sensible.sse2 PackedPair.exNeedle 0 7 {} =
      .ok (PackedPair.mkFinder Sensible.sse2 PackedPair.exNeedle 0 7) {} ∧
    (PackedPair.mkFinder Sensible.sse2 PackedPair.exNeedle 0 7).minHaystackLen ≤
      PackedPair.exHay.len :=
  ⟨by unfold Slice.Valid; decide, by unfold Slice.Valid; decide, by decide, by decide, by decide,
   PackedPair.new_ok _ 0 7 {} (by decide) (by decide), by decide⟩

/-! ### constructors -/

/-- Vector `packedpair::Finder::new(needle, pair)` for every `V`, needle and pair of in-range
offsets: returns normally, without touching the counter, the finder holding the two needle
bytes at the offsets and `min_haystack_len = max(needle.len(), max(i1, i2) + BYTES)`. -/
theorem packedpair_new_ok (V : VecImpl) (needle : Slice) (i1 i2 : Nat) (c : Ctr)
    (h1 : i1 < needle.len) (h2 : i2 < needle.len) :
    PackedPair.Finder.new V needle i1 i2 c = .ok (PackedPair.mkFinder V needle i1 i2) c :=
  PackedPair.new_ok needle i1 i2 c h1 h2

/-- Vector `packedpair::Finder::new` with an offset outside the needle (not reachable through
`Pair::new` / `Pair::with_indices`, which only hand out in-range offsets): the needle indexing
panics - no finder answering wrongly is built. -/
theorem packedpair_new_panics (V : VecImpl) (needle : Slice) (i1 i2 : Nat) (c : Ctr)
    (h : ¬ (i1 < needle.len ∧ i2 < needle.len)) :
    ∃ s, PackedPair.Finder.new V needle i1 i2 c = .fault (.panic s) :=
  PackedPair.new_panics needle i1 i2 c h

/-- `Pair::with_indices(needle, i1, i2)` for every needle and every two `u8` offsets: `Some`
exactly for two DISTINCT offsets INSIDE the needle, and then the pair it was given; `None` for
every unsupported input. -/
theorem pair_with_indices (needle : Slice) (i1 i2 : UInt8) (p : Pair) :
    Pair.withIndices needle i1 i2 = some p ↔
      p = ⟨i1, i2⟩ ∧ i1 ≠ i2 ∧ i1.toNat < needle.len ∧ i2.toNat < needle.len :=
  Pair.withIndices_eq_some_iff needle i1 i2 p

/-- Portable `packedpair::Finder::new(needle)` for EVERY needle slice: returns normally; `None`
exactly when the needle has fewer than 2 bytes; otherwise a finder whose pair is valid for the
needle and whose two bytes are the needle bytes at the pair's offsets; at most
`min(needle.len(), 255)` steps. -/
theorem fallback_new (needle : Slice) (c : Ctr) :
    ∃ r c', Fallback.Finder.new needle c = .ok r c' ∧ (r = none ↔ needle.len < 2) ∧
      (∀ f, r = some f → f.pair.ValidFor needle ∧
        f.byte1 = needle.getD f.pair.index1.toNat ∧ f.byte2 = needle.getD f.pair.index2.toNat) ∧
      c'.steps ≤ c.steps + min needle.len 255 :=
  Fallback.Finder.new_correct needle c

/-! ### Two-Way (`src/arch/all/twoway.rs`) -/

/-- **Two-Way forward.** `twoway::Finder::new(needle).find(haystack, needle)` for EVERY valid
needle and haystack (all lengths: empty needle, needle longer than the haystack; periodic
needles = the `Small { period }` case, non-periodic = `Large { shift }`; every critical-position
shape) returns exactly the leftmost occurrence, without any fault (none of the index computations
`i - critical_pos + 1`, `pos + needle.len() - 1`, ... underflows or leaves a slice), within
`3 * haystack.len + 8 * needle.len + 3` steps, construction included. -/
theorem twoway_find (needle haystack : Slice) (c : Ctr) (hnv : needle.Valid)
    (hhv : haystack.Valid) :
    ∃ c', (TwoWay.Finder.new needle >>= fun tw => TwoWay.Finder.find tw haystack needle) c =
        .ok (Spec.leftmost haystack.toArray needle.toArray) c' ∧
      c'.steps ≤ c.steps + 3 * haystack.len + 8 * needle.len + 3 :=
  TwoWay.find_correct_nopre needle haystack c hnv hhv

/-- **Two-Way reverse.** `twoway::FinderRev::new(needle).rfind(haystack, needle)` for every valid
needle and haystack returns exactly the rightmost occurrence, without any fault, within the same
step bound. -/
theorem twoway_rfind (needle haystack : Slice) (c : Ctr) (hnv : needle.Valid)
    (hhv : haystack.Valid) :
    ∃ c', (TwoWay.FinderRev.new needle >>= fun tw => TwoWay.FinderRev.rfind tw haystack needle) c =
        .ok (Spec.rightmost haystack.toArray needle.toArray) c' ∧
      c'.steps ≤ c.steps + 3 * haystack.len + 8 * needle.len + 3 :=
  TwoWay.rfind_correct needle haystack c hnv hhv

/-- **Two-Way forward with a prefilter** (`find_with_prefilter`, the form the meta searcher
calls): for every valid needle and haystack and every optional prefilter `pre` with strategy
`strat` (`PreOK`) that is sound for this needle on this haystack (`TwoWay.PreSound`: on every
tail of the haystack it returns normally and its candidate is at or before the first occurrence
in the tail, `None` only when there is none), in EVERY prefilter state: exactly the leftmost
occurrence, no fault; the prefilter keeps its strategy. -/
theorem twoway_find_with_prefilter (needle haystack : Slice) (pre : Option Pre) (c : Ctr)
    (strat : Slice → M (Option Nat)) (hnv : needle.Valid) (hhv : haystack.Valid)
    (hpre : TwoWay.PreOK strat pre)
    (hsound : pre ≠ none → TwoWay.PreSound needle haystack strat) :
    ∃ pre' c', (TwoWay.Finder.new needle >>= fun tw =>
          TwoWay.Finder.findWithPrefilter tw pre haystack needle) c =
        .ok (Spec.leftmost haystack.toArray needle.toArray, pre') c' ∧
      TwoWay.PreOK strat pre' ∧ (pre = none → pre' = none) ∧
      (pre = none → c'.steps ≤ c.steps + 3 * haystack.len + 8 * needle.len + 3) :=
  TwoWay.find_correct needle haystack pre c strat hnv hhv hpre hsound

/-- **The forward constructor is total and its output is certified.** For EVERY valid needle
`twoway::Finder::new` returns normally (there is no unsupported input to report), and the
`critical_pos` and `shift` it stores satisfy the certificate `CertFwd` - in one sentence: every
local repetition of the needle at `critical_pos` is a period of the whole needle and is longer
than `critical_pos` (a critical factorisation), and `Small { period }` holds the needle's
smallest period while `Large { shift }` holds a positive shift not exceeding it. The certificate
is a decidable statement about the needle alone (`TwoWay.certFwdCheck_iff`), and it is all the
search loops need (`TwoWay.find_eq_of_cert`). -/
theorem twoway_cert_fwd (needle : Slice) (hnv : needle.Valid) (c : Ctr) :
    ∃ tw c', TwoWay.Finder.new needle c = .ok tw c' ∧
      TwoWay.CertFwd needle.toArray tw.criticalPos tw.shift :=
  TwoWay.cert_fwd needle hnv c

/-- **The reverse constructor is total and its output is certified**: for every valid needle
`twoway::FinderRev::new` returns normally and its `critical_pos` and `shift` satisfy `CertRev`,
the mirror image of `CertFwd` (`critical_pos` inside the needle; every local repetition at
`critical_pos` is a period of the whole needle longer than the RIGHT part
`needle.len() - critical_pos`; same clause on `shift`). -/
theorem twoway_cert_rev (needle : Slice) (hnv : needle.Valid) (c : Ctr) :
    ∃ tw c', TwoWay.FinderRev.new needle c = .ok tw c' ∧
      TwoWay.CertRev needle.toArray tw.criticalPos tw.shift :=
  TwoWay.cert_rev needle hnv c

/-- What the certificate says, unfolded (`Per x k`: `k >= 1` and `x[t] = x[t + k]` whenever
`t + k < |x|`; `LR x crit k`: the same only for `crit - k <= t < crit`). -/
theorem twoway_cert_fwd_iff (x : Array UInt8) (crit : Nat) (shift : TwoWay.Shift) :
    TwoWay.CertFwd x crit shift ↔
      (∀ k, 1 ≤ k → TwoWay.LR x crit k → TwoWay.Per x k ∧ crit < k) ∧
      match shift with
      | .large s => (0 < x.size → 1 ≤ s) ∧ ∀ k, TwoWay.Per x k → s ≤ k
      | .small p => TwoWay.Per x p ∧ ∀ k, TwoWay.Per x k → p ≤ k :=
  Iff.rfl

/-- hypotheses are satisfiable: the needle "abaab" (certificate: `critical_pos = 2`,
`Small { period: 3 }`) and the haystack "abaaabaabab"; no prefilter; and a sound prefilter
strategy exists for every needle and haystack ("every position is a candidate") -/
example :
    let needle := Slice.ofMem ⟨1, 4096, "abaab".toUTF8.data⟩
    let haystack := Slice.ofMem ⟨0, 8192, "abaaabaabab".toUTF8.data⟩
    needle.Valid ∧ haystack.Valid ∧ TwoWay.PreOK (fun _ => pure none) none ∧
    TwoWay.CertFwd needle.toArray 2 (.small 3) ∧
    TwoWay.PreSound needle haystack (fun _ => pure (some 0)) :=
  ⟨by unfold Slice.Valid; decide, by unfold Slice.Valid; decide, (fun p hp => by cases hp),
   by decide,
   fun a _ c => ⟨some 0, c, rfl, nofun, fun cnd h q _ => by cases h; exact Nat.zero_le _⟩⟩

end Memchr.Props.C12

#print axioms Memchr.Props.C12.rabinkarp_find
#print axioms Memchr.Props.C12.rabinkarp_rfind
#print axioms Memchr.Props.C12.rabinkarp_find_same_bytes
#print axioms Memchr.Props.C12.rabinkarp_rfind_same_bytes
#print axioms Memchr.Props.C12.shiftor_find
#print axioms Memchr.Props.C12.shiftor_new_none_iff
#print axioms Memchr.Props.C12.shiftor_find_empty
#print axioms Memchr.Props.C12.packedpair_find
#print axioms Memchr.Props.C12.packedpair_find_sse2
#print axioms Memchr.Props.C12.packedpair_find_avx2
#print axioms Memchr.Props.C12.packedpair_find_neon
#print axioms Memchr.Props.C12.packedpair_find_simd128
#print axioms Memchr.Props.C12.packedpair_new_ok
#print axioms Memchr.Props.C12.packedpair_new_panics
#print axioms Memchr.Props.C12.pair_with_indices
#print axioms Memchr.Props.C12.fallback_new
#print axioms Memchr.Props.C12.twoway_find
#print axioms Memchr.Props.C12.twoway_rfind
#print axioms Memchr.Props.C12.twoway_find_with_prefilter
#print axioms Memchr.Props.C12.twoway_cert_fwd
#print axioms Memchr.Props.C12.twoway_cert_rev
#print axioms Memchr.Props.C12.twoway_cert_fwd_iff
