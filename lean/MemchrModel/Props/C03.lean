/-
C03  Forward substring search returns exactly the leftmost occurrence.

For every haystack and needle, `memmem::find`, `Finder::find` and a finder built by
`FinderBuilder` return `Some(i)` where `i` is the smallest offset with
`haystack[i..i + needle.len()] == needle`, and `None` exactly when the needle does not occur.
The empty needle matches at offset 0 of every haystack, including the empty one.

How the clauses of the property map onto this file

  what "the leftmost occurrence" means (the specification        `spec_some_iff`, `spec_none_iff`,
    `Spec.leftmost`: `Some(i)` iff the needle occurs at `i`        `spec_empty`
    and at no smaller offset; `None` iff it occurs nowhere)
  the meta searcher `Searcher::new(..).find(..)` of               `find_all` (every branch),
    `src/memmem/searcher.rs`, every configuration, prefilter      `find` (the branches that never
    setting, ranker, needle, haystack AND prefilter state          reach Two-Way, on their own)
  `FinderBuilder::build_forward_with_ranker(..).find(..)`,        `builder_find_all`,
    `Finder::new(needle).find(haystack)`                           `finder_find_all`
  the one-shot `memmem::find(haystack, needle)`                   `oneshot_all`
  the empty needle                                                `find_empty`, `oneshot_empty`
  the Two-Way searcher behind needles the vector searcher does    `twoway_find_correct`
    not own (with any sound prefilter, in any prefilter state)

A conclusion `run = .ok v c'` says the run returns normally with the value `v`: no panic, debug
assertion, overflow, out-of-bounds read, misaligned load or out-of-allocation pointer.  The only
hypotheses are `needle.Valid` and `hay.Valid` ("the slice lies inside its memory region", which
every Rust `&[u8]` does); they are satisfiable by the examples below.

Only statements, one-line proofs from the master lemmas (`Proofs/Searcher.lean`,
`Proofs/Memmem.lean`, `Proofs/SearcherTwoWay.lean`, `Proofs/TwoWayCert.lean`), non-vacuity
examples and `#print axioms`.
-/
import MemchrModel.Proofs.SearcherTwoWay

namespace Memchr.Props.C03

open Memchr Memchr.Memmem

/-! ### what the specification `Spec.leftmost` means -/

/-- `Spec.leftmost hay needle = Some(r)` exactly when the needle occurs at offset `r`
(`OccAt`: `r + needle.len() <= hay.len()` and `hay[r + k] = needle[k]` for every
`k < needle.len()`) and at no offset `j < r`: `r` is the SMALLEST offset of an occurrence. -/
theorem spec_some_iff (hay needle : Array UInt8) (r : Nat) :
    Spec.leftmost hay needle = some r ↔
      Spec.OccAt hay needle r ∧ ∀ j, j < r → ¬ Spec.OccAt hay needle j :=
  Spec.leftmost_eq_some_iff hay needle r

/-- `Spec.leftmost hay needle = None` exactly when the needle occurs at NO offset. -/
theorem spec_none_iff (hay needle : Array UInt8) :
    Spec.leftmost hay needle = none ↔ ∀ j, ¬ Spec.OccAt hay needle j :=
  Spec.leftmost_eq_none_iff hay needle

/-- For the empty needle the specification is `Some(0)`, for every haystack (the empty one
included: there is no hypothesis on `hay`). -/
theorem spec_empty (hay needle : Array UInt8) (h : needle.size = 0) :
    Spec.leftmost hay needle = some 0 :=
  Memmem.leftmost_empty h

/-! ### the meta searcher -/

/-- **`Searcher::new(prefilter, ranker, needle)` then `Searcher::find(prestate, haystack,
needle)`, every branch.**  For EVERY build / CPU configuration `cfg`, prefilter setting
(`None` / `Auto`), ranker function `u8 -> u8`, valid needle and haystack (all lengths: empty
needle, one byte, 2..=32 bytes, longer; haystack shorter than the needle, shorter than 16 bytes,
shorter than the vector searcher's minimum, long), EVERY `PrefilterState` `st` (every history of
the adaptive prefilter) and every counter state: construction returns normally, and `find`
returns normally with exactly the leftmost occurrence (`Spec.leftmost`, see `spec_some_iff` /
`spec_none_iff`). `st'` is the prefilter state afterwards. -/
theorem find_all (cfg : Api.Cfg) (pf : PrefilterConfig) (rank : UInt8 → UInt8)
    (needle hay : Slice) (hn : needle.Valid) (hh : hay.Valid) (st : PrefilterState) (c : Ctr) :
    ∃ s c1, Searcher.new cfg pf rank needle c = .ok s c1 ∧ ∀ c2, ∃ st' c3,
      s.find cfg st hay needle c2 = .ok (Spec.leftmost hay.toArray needle.toArray, st') c3 :=
  Memmem.C03.find_all cfg pf rank needle hay hn hh st c

/-- The branches of `Searcher::new` that never reach Two-Way, on their own (this theorem does not
depend on any Two-Way proof): the empty needle, a one-byte needle (the dispatched `memchr`), and
needles of 2..=32 bytes (`do_packed_search`) when the configuration has a vector packed-pair
finder (`vecKind cfg` is `Some`), including their Rabin-Karp path for haystacks shorter than the
finder's `min_haystack_len`. Same conclusion as `find_all`. -/
theorem find (cfg : Api.Cfg) (pf : PrefilterConfig) (rank : UInt8 → UInt8)
    (needle hay : Slice) (hn : needle.Valid) (hh : hay.Valid)
    (hbranch : needle.len ≤ 1 ∨ ((vecKind cfg).isSome = true ∧ doPackedSearch needle = true))
    (st : PrefilterState) (c : Ctr) :
    ∃ s c1, Searcher.new cfg pf rank needle c = .ok s c1 ∧ ∀ c2, ∃ st' c3,
      s.find cfg st hay needle c2 = .ok (Spec.leftmost hay.toArray needle.toArray, st') c3 :=
  Memmem.C03.find cfg pf rank needle hay hn hh hbranch st c

/-- **The empty needle matches at offset 0 of every haystack, including the empty one**: for
every configuration, prefilter setting, ranker, prefilter state and every valid haystack (no
lower bound on `hay.len`), the searcher built for a zero-length needle returns `Some(0)`. -/
theorem find_empty (cfg : Api.Cfg) (pf : PrefilterConfig) (rank : UInt8 → UInt8)
    (needle hay : Slice) (hn : needle.Valid) (hh : hay.Valid) (h0 : needle.len = 0)
    (st : PrefilterState) (c : Ctr) :
    ∃ s c1, Searcher.new cfg pf rank needle c = .ok s c1 ∧ ∀ c2, ∃ st' c3,
      s.find cfg st hay needle c2 = .ok (some 0, st') c3 :=
  Memmem.C03.find_empty cfg pf rank needle hay hn hh h0 st c

/-! ### the public API: `FinderBuilder`, `Finder`, `memmem::find` -/

/-- **A finder built by `FinderBuilder`** (any builder value `b`, i.e. prefilter `None` or
`Auto`; any ranker: `build_forward_with_ranker`), in every configuration, for every valid needle
and haystack: building and then `Finder::find(haystack)` return normally with exactly the
leftmost occurrence. -/
theorem builder_find_all (cfg : Api.Cfg) (b : FinderBuilder) (rank : UInt8 → UInt8)
    (needle hay : Slice) (hn : needle.Valid) (hh : hay.Valid) (c : Ctr) :
    ∃ c', (b.buildForwardWithRanker cfg rank needle >>= fun f => f.find cfg hay) c =
      .ok (Spec.leftmost hay.toArray needle.toArray) c' :=
  Memmem.C03.builder_find_all cfg b rank needle hay hn hh c

/-- **`Finder::new(needle).find(haystack)`** (the default builder and the default byte-frequency
ranker), every configuration, valid needle and haystack: exactly the leftmost occurrence. -/
theorem finder_find_all (cfg : Api.Cfg) (needle hay : Slice) (hn : needle.Valid) (hh : hay.Valid)
    (c : Ctr) :
    ∃ c', (Finder.new cfg needle >>= fun f => f.find cfg hay) c =
      .ok (Spec.leftmost hay.toArray needle.toArray) c' :=
  Memmem.C03.finder_find cfg needle hay hn hh (fun _ => twoWayFwdOk) c

/-- **The one-shot `memmem::find(haystack, needle)`**, every configuration, valid needle and
haystack (haystacks shorter than 64 bytes go to Rabin-Karp, longer ones to
`Finder::new(needle).find(haystack)`): returns normally with exactly the leftmost occurrence. -/
theorem oneshot_all (cfg : Api.Cfg) (needle hay : Slice) (hn : needle.Valid) (hh : hay.Valid)
    (c : Ctr) :
    ∃ c', Memmem.find cfg hay needle c = .ok (Spec.leftmost hay.toArray needle.toArray) c' :=
  Memmem.C03.oneshot_all cfg needle hay hn hh c

/-- `memmem::find(haystack, b"")` is `Some(0)` for every valid haystack, the empty one
included. -/
theorem oneshot_empty (cfg : Api.Cfg) (needle hay : Slice) (hn : needle.Valid) (hh : hay.Valid)
    (h0 : needle.len = 0) (c : Ctr) :
    ∃ c', Memmem.find cfg hay needle c = .ok (some 0) c' :=
  Memmem.C03.oneshot_empty cfg needle hay hn hh h0 c

/-! ### Two-Way, the searcher behind every other needle -/

/-- **`twoway::Finder::new(needle)` then `find_with_prefilter(pre, haystack, needle)`** (what the
meta searcher runs for needles of two or more bytes that the vector searcher does not own), for
every valid needle and haystack, every optional prefilter `pre` whose strategy is `strat`
(`PreOK`) in EVERY prefilter state, provided - when there is a prefilter - that the strategy is
sound for this needle on this haystack (`TwoWay.PreSound`: run on any tail of the haystack it
returns normally and never reports a candidate beyond the first occurrence in that tail; every
strategy the meta searcher builds is, see `Props/C11`): construction and search return normally
with exactly the leftmost occurrence; the prefilter keeps its strategy (and stays absent if it
was absent); without a prefilter the whole call takes at most
`3 * haystack.len + 8 * needle.len + 3` steps. -/
theorem twoway_find_correct (needle haystack : Slice) (pre : Option Pre) (c : Ctr)
    (strat : Slice → M (Option Nat)) (hnv : needle.Valid) (hhv : haystack.Valid)
    (hpre : TwoWay.PreOK strat pre)
    (hsound : pre ≠ none → TwoWay.PreSound needle haystack strat) :
    ∃ pre' c', (TwoWay.Finder.new needle >>= fun tw =>
          TwoWay.Finder.findWithPrefilter tw pre haystack needle) c =
        .ok (Spec.leftmost haystack.toArray needle.toArray, pre') c' ∧
      TwoWay.PreOK strat pre' ∧ (pre = none → pre' = none) ∧
      (pre = none → c'.steps ≤ c.steps + 3 * haystack.len + 8 * needle.len + 3) :=
  TwoWay.find_correct needle haystack pre c strat hnv hhv hpre hsound

/-! ### the hypotheses are satisfiable -/

/-- two valid non-trivial slices (sub-slices of larger regions at odd addresses): the needle
"abc" occurs twice in the haystack "xabcxabc" -/
example : (⟨⟨1, 1048577, #[0, 97, 98, 99, 0]⟩, 1, 3⟩ : Slice).Valid ∧
    (⟨⟨0, 4099, #[120, 120, 97, 98, 99, 120, 97, 98, 99, 120]⟩, 1, 8⟩ : Slice).Valid := by
  simp [Slice.Valid]

/-- a needle of 40 bytes (longer than the vector searcher's 32: a Two-Way branch), the empty
needle, the empty haystack and a 100-byte haystack are all valid slices -/
example : (Slice.ofMem ⟨1, 64, Array.replicate 40 97⟩).Valid ∧
    (Slice.ofMem ⟨1, 64, #[]⟩).Valid ∧ (Slice.ofMem ⟨1, 64, #[]⟩).len = 0 ∧
    (Slice.ofMem ⟨0, 4096, #[]⟩).Valid ∧ (Slice.ofMem ⟨0, 4096, Array.replicate 100 97⟩).Valid := by
  simp [Slice.Valid, Slice.ofMem]

/-- the side condition of `find` is satisfiable: x86_64 with SSE2 has a vector finder and "abc"
is in `do_packed_search`'s range -/
example : (vecKind { arch := .x86_64, ctSse2 := true, ctAvx2 := false, ctNeon := false,
                     std := true, cpuAvx2 := true }).isSome = true ∧
    doPackedSearch ⟨⟨1, 1048577, #[0, 97, 98, 99, 0]⟩, 1, 3⟩ = true := by
  refine ⟨by decide, by decide⟩

/-- the hypotheses of `twoway_find_correct` are satisfiable without a prefilter ... -/
example : TwoWay.PreOK (fun _ => pure none) none := fun p hp => by cases hp

/-- ... and with one: "every position is a candidate" is a sound strategy for every needle and
haystack -/
example (needle haystack : Slice) : TwoWay.PreSound needle haystack (fun _ => pure (some 0)) :=
  fun a _ c => ⟨some 0, c, rfl, nofun, fun cnd h q _ => by cases h; exact Nat.zero_le _⟩

end Memchr.Props.C03

#print axioms Memchr.Props.C03.spec_some_iff
#print axioms Memchr.Props.C03.spec_none_iff
#print axioms Memchr.Props.C03.spec_empty
#print axioms Memchr.Props.C03.find_all
#print axioms Memchr.Props.C03.find
#print axioms Memchr.Props.C03.find_empty
#print axioms Memchr.Props.C03.builder_find_all
#print axioms Memchr.Props.C03.finder_find_all
#print axioms Memchr.Props.C03.oneshot_all
#print axioms Memchr.Props.C03.oneshot_empty
#print axioms Memchr.Props.C03.twoway_find_correct
