/-
C05  Safe searches never read outside the slices they are given; aligned loads are aligned.

In the model every raw load goes through `Mem.loadU` / `Mem.loadA` / `Mem.read`, which fault
with `.oobRead` when the range is not inside the region and (`loadA`) with `.misaligned` when
the address is not a multiple of the width; pointer arithmetic that leaves the allocation
faults with `.ptrOob`.  A conclusion of the form `∃ v c', run = .ok v c'` therefore says: the
run performs NO load outside its region, NO misaligned aligned-load and NO out-of-allocation
pointer arithmetic (nor any other fault).  The memory region `m` (resp. the slice's region) is
arbitrary: every base address, hence every alignment of `start`/`end` and every distance to
the region's end (the "unmapped page").

Contents
* in domain (corollaries of the master theorems): generic vector find/rfind/count for every
  lawful vector type and the instances SSE2, AVX2, simd128, NEON; SWAR One/Two/Three for ALL
  `start`/`end`; `is_equal_raw`, `is_equal`, `is_prefix`, `is_suffix`; Rabin-Karp; packed pair
  `find` / `find_prefilter`; Shift-Or and pair selection (safe code: no raw load at all);
* out of domain: Rabin-Karp with an arbitrary finder; packed pair `find` with an arbitrary
  search needle, where exactly one possibility other than a normal return remains: the pointer
  arithmetic `end.sub(needle.len())` leaves the allocation WITHOUT a read (observation O2);
  packed pair below `min_haystack_len` is the documented panic before any load (C14);
* Two-Way forward / reverse (its search loops are safe code: checked slice indexing only; the
  constructors call `is_suffix` / `is_prefix`, whose raw loads stay inside the needle) and the
  substring API built on top of it - the meta searcher under every configuration (which decides
  which raw-load code runs: vector packed pair, vector / portable prefilter, SWAR or vector
  `memchr`, `is_equal_raw` confirmations), `memmem::find` / `rfind`, `Finder` / `FinderRev`,
  `find_iter` / `rfind_iter` (whose sub-slices `&haystack[pos..]`, `&haystack[..pos]` start or
  end anywhere inside the haystack).

Not covered here: the top-level byte-search functions and iterators (`memchr`, `memrchr`,
`memchr_iter`, ...: C01, C02, C06, C07 - each `= .ok ..` conclusion there is a no-fault
statement); Two-Way `find` / `rfind` called directly with a search needle that differs from the
construction needle (safe code - in the model its loops perform checked indexing only, no raw
load -, but no theorem is stated for that out-of-domain use).

Only statements, one-line proofs from the master lemmas, non-vacuity examples and
`#print axioms`.
-/
import MemchrModel.Proofs.MemchrGeneric
import MemchrModel.Proofs.Sensible
import MemchrModel.Proofs.Neon
import MemchrModel.Proofs.Swar
import MemchrModel.Proofs.IsEqual
import MemchrModel.Proofs.RabinKarp
import MemchrModel.Proofs.ShiftOr
import MemchrModel.Proofs.Pair
import MemchrModel.Proofs.PairFallback
import MemchrModel.Proofs.PackedPair
import MemchrModel.Proofs.PropsBridge3

namespace Memchr.Props.C05

open Memchr

/-! ### generic vector `memchr` family (`src/arch/generic/memchr.rs`) -/

/-- Generic vector `find_raw` (`One`/`Two`/`Three`: `ns` = 1, 2 or 3 needle bytes, every
unroll factor `u`) on EVERY lawful vector type `V`, every memory region `m` (every base
address), every window `[start, end)` of at least `V::BYTES` bytes inside it and every
counter state: the run returns normally, i.e. every unaligned load, every aligned load (which
is checked for alignment when the ISA's instruction requires it) and every pointer `add`/`sub`
stays inside `m`. -/
theorem generic_find_reads_ok (V : VecImpl) (L : Lawful V) (ns : Needles) (u : Nat) (hu : 0 < u)
    (m : Mem) (start end_ : Nat) (c : Ctr)
    (hs : m.base ≤ start) (he : end_ ≤ m.base + m.bytes.size) (hlen : start + V.bytes ≤ end_) :
    ∃ v c', Generic.findRaw V ns u hu m start end_ c = .ok v c' :=
  let ⟨c', h⟩ := Generic.findRaw_correct V L ns u hu m start end_ c hs he hlen
  ⟨_, c', h⟩

/-- The same for the generic vector `rfind_raw`: over every lawful `V`, needle set, unroll
factor, region and window of at least `V::BYTES` bytes, no load or pointer leaves the region
and no aligned load is misaligned. -/
theorem generic_rfind_reads_ok (V : VecImpl) (L : Lawful V) (ns : Needles) (u : Nat) (hu : 0 < u)
    (m : Mem) (start end_ : Nat) (c : Ctr)
    (hs : m.base ≤ start) (he : end_ ≤ m.base + m.bytes.size) (hlen : start + V.bytes ≤ end_) :
    ∃ v c', Generic.rfindRaw V ns u hu m start end_ c = .ok v c' :=
  let ⟨c', h⟩ := Generic.rfindRaw_correct V L ns u hu m start end_ c hs he hlen
  ⟨_, c', h⟩

/-- The same for the generic vector `count_raw` (`One` only): over every lawful `V`, needle
byte, unroll factor, region and window of at least `V::BYTES` bytes. -/
theorem generic_count_reads_ok (V : VecImpl) (L : Lawful V) (n1 : UInt8) (u : Nat) (hu : 0 < u)
    (m : Mem) (start end_ : Nat) (c : Ctr)
    (hs : m.base ≤ start) (he : end_ ≤ m.base + m.bytes.size) (hlen : start + V.bytes ≤ end_) :
    ∃ v c', Generic.countRaw V n1 u hu m start end_ c = .ok v c' :=
  let ⟨c', h⟩ := Generic.countRaw_correct V L n1 u hu m start end_ c hs he hlen
  ⟨_, c', h⟩

/-- What the three theorems above say for one concrete vector type `V`: for every needle set,
needle byte, unroll factor, region, window of at least `V::BYTES` bytes and counter,
`find_raw`, `rfind_raw` and `count_raw` return normally (no out-of-region or misaligned load,
no out-of-allocation pointer). -/
def VectorReadsOk (V : VecImpl) : Prop :=
  ∀ (ns : Needles) (n1 : UInt8) (u : Nat) (hu : 0 < u) (m : Mem) (start end_ : Nat) (c : Ctr),
    m.base ≤ start → end_ ≤ m.base + m.bytes.size → start + V.bytes ≤ end_ →
    (∃ v c', Generic.findRaw V ns u hu m start end_ c = .ok v c') ∧
    (∃ v c', Generic.rfindRaw V ns u hu m start end_ c = .ok v c') ∧
    (∃ v c', Generic.countRaw V n1 u hu m start end_ c = .ok v c')

/-- `VectorReadsOk` holds for every lawful vector type. -/
theorem generic_reads_ok (V : VecImpl) (L : Lawful V) : VectorReadsOk V :=
  fun ns n1 u hu m start end_ c hs he hlen =>
    ⟨generic_find_reads_ok V L ns u hu m start end_ c hs he hlen,
     generic_rfind_reads_ok V L ns u hu m start end_ c hs he hlen,
     generic_count_reads_ok V L n1 u hu m start end_ c hs he hlen⟩

/-- SSE2 (`__m128i`, 16 bytes, `_mm_load_si128` requires 16-byte alignment): find, rfind and
count never load outside the region and never issue a misaligned aligned load. -/
theorem sse2_reads_ok : VectorReadsOk Sensible.sse2 :=
  generic_reads_ok Sensible.sse2 Sensible.lawful_sse2

/-- AVX2 (`__m256i`, 32 bytes, `_mm256_load_si256` requires 32-byte alignment). -/
theorem avx2_reads_ok : VectorReadsOk Sensible.avx2 :=
  generic_reads_ok Sensible.avx2 Sensible.lawful_avx2

/-- wasm32 simd128 (`v128`, 16 bytes). -/
theorem simd128_reads_ok : VectorReadsOk Sensible.simd128 :=
  generic_reads_ok Sensible.simd128 Sensible.lawful_simd128

/-- aarch64 NEON (`uint8x16_t`, 16 bytes, nibble mask in a `u64`; `load_aligned` is an unaligned
load on this ISA, so only the bounds matter). -/
theorem neon_reads_ok : VectorReadsOk Neon.impl :=
  generic_reads_ok Neon.impl Neon.lawful

/-- hypotheses are satisfiable: a 80-byte region at an odd base address, a 74-byte window at
another odd address (long enough for AVX2) -/
example : ∃ (m : Mem) (start end_ : Nat), m.base ≤ start ∧ end_ ≤ m.base + m.bytes.size ∧
    start + Sensible.avx2.bytes ≤ end_ :=
  ⟨⟨0, 1001, Array.replicate 80 0⟩, 1003, 1077, by decide, by simp, by decide⟩

/-! ### portable SWAR fallback (`src/arch/all/memchr.rs`) -/

/-- SWAR `One::find_raw` for EVERY needle byte, region and EVERY pair `start`, `end` (the only
requirement, and only when `start < end`, is that the window lies in the region): the unaligned
`usize` head/tail loads stay in the region, every aligned `*const usize` read is at a multiple
of 8 and in the region, and the byte-at-a-time loops stay in the window. -/
theorem swar_one_find_reads_ok (n1 : UInt8) (m : Mem) (start end_ : Nat) (c : Ctr)
    (hb : start < end_ → m.base ≤ start ∧ end_ ≤ m.base + m.bytes.size) :
    ∃ v c', Swar.One.findRaw n1 m start end_ c = .ok v c' :=
  let ⟨c', h⟩ := Swar.One.findRaw_correct n1 m start end_ c hb
  ⟨_, c', h⟩

/-- SWAR `One::rfind_raw`, same quantification as `swar_one_find_reads_ok`. -/
theorem swar_one_rfind_reads_ok (n1 : UInt8) (m : Mem) (start end_ : Nat) (c : Ctr)
    (hb : start < end_ → m.base ≤ start ∧ end_ ≤ m.base + m.bytes.size) :
    ∃ v c', Swar.One.rfindRaw n1 m start end_ c = .ok v c' :=
  let ⟨c', h⟩ := Swar.One.rfindRaw_correct n1 m start end_ c hb
  ⟨_, c', h⟩

/-- SWAR `One::count_raw`, same quantification as `swar_one_find_reads_ok`. -/
theorem swar_one_count_reads_ok (n1 : UInt8) (m : Mem) (start end_ : Nat) (c : Ctr)
    (hb : start < end_ → m.base ≤ start ∧ end_ ≤ m.base + m.bytes.size) :
    ∃ v c', Swar.One.countRaw n1 m start end_ c = .ok v c' :=
  let ⟨c', h⟩ := Swar.One.countRaw_correct n1 m start end_ c hb
  ⟨_, c', h⟩

/-- SWAR `Two::find_raw` / `Three::find_raw` (`ns = ⟨s1, [s2]⟩` resp. `⟨s1, [s2, s3]⟩`; stated
for any number of needle bytes), every region and EVERY `start`, `end`: no load outside the
region, no misaligned word read. -/
theorem swar_multi_find_reads_ok (ns : Needles) (m : Mem) (start end_ : Nat) (c : Ctr)
    (hb : start < end_ → m.base ≤ start ∧ end_ ≤ m.base + m.bytes.size) :
    ∃ v c', Swar.Multi.findRaw ns m start end_ c = .ok v c' :=
  let ⟨c', h⟩ := Swar.Multi.findRaw_correct ns m start end_ c hb
  ⟨_, c', h⟩

/-- SWAR `Two::rfind_raw` / `Three::rfind_raw`, same quantification as
`swar_multi_find_reads_ok`. -/
theorem swar_multi_rfind_reads_ok (ns : Needles) (m : Mem) (start end_ : Nat) (c : Ctr)
    (hb : start < end_ → m.base ≤ start ∧ end_ ≤ m.base + m.bytes.size) :
    ∃ v c', Swar.Multi.rfindRaw ns m start end_ c = .ok v c' :=
  let ⟨c', h⟩ := Swar.Multi.rfindRaw_correct ns m start end_ c hb
  ⟨_, c', h⟩

/-- The `Two` and `Three` instances of the two theorems above, forward and reverse, for all
needle bytes `n1 n2 n3`. -/
theorem swar_two_three_reads_ok (n1 n2 n3 : UInt8) (m : Mem) (start end_ : Nat) (c : Ctr)
    (hb : start < end_ → m.base ≤ start ∧ end_ ≤ m.base + m.bytes.size) :
    (∃ v c', Swar.Multi.findRaw ⟨n1, [n2]⟩ m start end_ c = .ok v c') ∧
    (∃ v c', Swar.Multi.rfindRaw ⟨n1, [n2]⟩ m start end_ c = .ok v c') ∧
    (∃ v c', Swar.Multi.findRaw ⟨n1, [n2, n3]⟩ m start end_ c = .ok v c') ∧
    (∃ v c', Swar.Multi.rfindRaw ⟨n1, [n2, n3]⟩ m start end_ c = .ok v c') :=
  ⟨swar_multi_find_reads_ok _ m start end_ c hb, swar_multi_rfind_reads_ok _ m start end_ c hb,
   swar_multi_find_reads_ok _ m start end_ c hb, swar_multi_rfind_reads_ok _ m start end_ c hb⟩

/-- With `start >= end` (empty or inverted window) the SWAR routines need NO hypothesis about
the pointers at all: whatever the addresses and the region, nothing faults. -/
theorem swar_empty_window_reads_ok (n1 : UInt8) (ns : Needles) (m : Mem) (start end_ : Nat)
    (c : Ctr) (h : end_ ≤ start) :
    (∃ v c', Swar.One.findRaw n1 m start end_ c = .ok v c') ∧
    (∃ v c', Swar.One.rfindRaw n1 m start end_ c = .ok v c') ∧
    (∃ v c', Swar.One.countRaw n1 m start end_ c = .ok v c') ∧
    (∃ v c', Swar.Multi.findRaw ns m start end_ c = .ok v c') ∧
    (∃ v c', Swar.Multi.rfindRaw ns m start end_ c = .ok v c') :=
  have hb : start < end_ → m.base ≤ start ∧ end_ ≤ m.base + m.bytes.size :=
    fun h' => absurd h' (Nat.not_lt.mpr h)
  ⟨swar_one_find_reads_ok n1 m start end_ c hb, swar_one_rfind_reads_ok n1 m start end_ c hb,
   swar_one_count_reads_ok n1 m start end_ c hb, swar_multi_find_reads_ok ns m start end_ c hb,
   swar_multi_rfind_reads_ok ns m start end_ c hb⟩

/-- hypothesis of the SWAR theorems is satisfiable with a non-empty window: 18 bytes at the odd
address 4 of a 20-byte region based at 3 (shorter than three words, unaligned at both ends) -/
example : ∃ (m : Mem) (start end_ : Nat), start < end_ ∧
    (start < end_ → m.base ≤ start ∧ end_ ≤ m.base + m.bytes.size) :=
  ⟨⟨0, 3, Array.replicate 20 7⟩, 4, 22, by decide, fun _ => ⟨by decide, by simp⟩⟩

/-! ### `is_equal_raw` and friends (`src/arch/all/mod.rs`) -/

/-- `is_equal_raw(x, y, n)` for every two regions, every two addresses (any alignment) and every
`n` such that `[x, x+n)` and `[y, y+n)` are readable: every 4-, 2- and 1-byte unaligned load
stays inside its range. -/
theorem is_equal_raw_reads_ok (mx my : Mem) (x y n : Nat) (c : Ctr)
    (hx1 : mx.base ≤ x) (hx2 : x + n ≤ mx.base + mx.bytes.size)
    (hy1 : my.base ≤ y) (hy2 : y + n ≤ my.base + my.bytes.size) :
    ∃ v c', IsEqual.isEqualRaw mx my x y n c = .ok v c' :=
  let ⟨c', h, _⟩ := IsEqual.isEqualRaw_correct mx my x y n c hx1 hx2 hy1 hy2
  ⟨_, c', h⟩

/-- The safe wrappers `is_equal`, `is_prefix`, `is_suffix` on every two valid slices (any
lengths, including a needle longer than the haystack): no load outside the slices' regions. -/
theorem is_equal_prefix_suffix_reads_ok (h n : Slice) (c : Ctr) (hh : h.Valid) (hn : n.Valid) :
    (∃ v c', IsEqual.isEqual h n c = .ok v c') ∧
    (∃ v c', IsEqual.isPrefix h n c = .ok v c') ∧
    (∃ v c', IsEqual.isSuffix h n c = .ok v c') :=
  ⟨let ⟨c', e, _⟩ := IsEqual.isEqual_correct h n c hh hn; ⟨_, c', e⟩,
   let ⟨c', e, _⟩ := IsEqual.isPrefix_correct h n c hh hn; ⟨_, c', e⟩,
   let ⟨c', e, _⟩ := IsEqual.isSuffix_correct h n c hh hn; ⟨_, c', e⟩⟩

/-- hypotheses are satisfiable: two 7-byte sub-slices at offset 3 of 12-byte regions at odd
bases (slice-level), i.e. addresses 1004 and 2004, `n = 7` (raw level) -/
example : (⟨⟨0, 1001, Array.replicate 12 7⟩, 3, 7⟩ : Slice).Valid ∧
    (⟨⟨1, 2001, Array.replicate 12 7⟩, 3, 7⟩ : Slice).Valid := by
  simp [Slice.Valid]

/-! ### Rabin-Karp (`src/arch/all/rabinkarp.rs`) -/

/-- OUT OF DOMAIN, forward. For an ARBITRARY finder value (any stored hash and `hash_2pow`, e.g.
built for a different needle), every valid haystack and every valid needle (any lengths,
needle longer than the haystack included): `find` returns normally - no fault of any kind, in
particular no `.oobRead`, `.misaligned`, `.ptrOob` -, a reported offset is a true occurrence,
and the step bound holds. -/
theorem rabinkarp_find_reads_ok (f : RabinKarp.Finder) (h n : Slice) (c : Ctr)
    (hh : h.Valid) (hn : n.Valid) :
    ∃ r c', f.find h n c = .ok r c' ∧
      (∀ i, r = some i → Spec.OccAt h.toArray n.toArray i) ∧
      c'.steps ≤ c.steps + 2 * (h.len + 1) * (n.len / 4 + 2) + n.len :=
  RabinKarp.find_reads_ok f h n c hh hn

/-- OUT OF DOMAIN, reverse: as `rabinkarp_find_reads_ok` for an arbitrary `FinderRev`. -/
theorem rabinkarp_rfind_reads_ok (f : RabinKarp.FinderRev) (h n : Slice) (c : Ctr)
    (hh : h.Valid) (hn : n.Valid) :
    ∃ r c', f.rfind h n c = .ok r c' ∧
      (∀ i, r = some i → Spec.OccAt h.toArray n.toArray i) ∧
      c'.steps ≤ c.steps + 2 * (h.len + 1) * (n.len / 4 + 2) + n.len :=
  RabinKarp.rfind_reads_ok f h n c hh hn

/-- Construction included, forward: a finder built by `Finder::new` from ANY slice `n0` (valid
or not: the construction uses safe iteration only), then searched with any valid haystack and
any valid needle `n` (related to `n0` or not). -/
theorem rabinkarp_new_find_reads_ok (h n0 n : Slice) (c : Ctr) (hh : h.Valid) (hn : n.Valid) :
    ∃ r c', (RabinKarp.Finder.new n0 >>= fun f => f.find h n) c = .ok r c' ∧
      (∀ i, r = some i → Spec.OccAt h.toArray n.toArray i) ∧
      c'.steps ≤ c.steps + 2 * (h.len + 1) * (n.len / 4 + 2) + n.len + n0.len :=
  RabinKarp.new_find_reads_ok h n0 n c hh hn

/-- Construction included, reverse: as `rabinkarp_new_find_reads_ok` for `FinderRev`. -/
theorem rabinkarp_new_rfind_reads_ok (h n0 n : Slice) (c : Ctr) (hh : h.Valid) (hn : n.Valid) :
    ∃ r c', (RabinKarp.FinderRev.new n0 >>= fun f => f.rfind h n) c = .ok r c' ∧
      (∀ i, r = some i → Spec.OccAt h.toArray n.toArray i) ∧
      c'.steps ≤ c.steps + 2 * (h.len + 1) * (n.len / 4 + 2) + n.len + n0.len :=
  RabinKarp.new_rfind_reads_ok h n0 n c hh hn

/-- hypotheses are satisfiable: sub-slices of larger regions at page-like bases -/
example : (⟨⟨0, 4096, #[9, 1, 2, 1, 2, 3, 9]⟩, 1, 5⟩ : Slice).Valid ∧
    (⟨⟨1, 8192, #[7, 1, 2, 3]⟩, 1, 3⟩ : Slice).Valid := by
  simp [Slice.Valid]

/-! ### generic packed pair (`src/arch/generic/packedpair.rs`) -/

/-- IN DOMAIN. For every lawful `V`, every valid haystack and needle, a finder built by
`Finder::new(needle, Pair{i1, i2})` with two distinct in-range indices, and a haystack of at
least `min_haystack_len` bytes: `find(haystack, needle)` returns normally - both vector loads
of every chunk (at `cur + index1` and `cur + index2`, including the final chunk re-aligned to
`end - min_haystack_len`) and every confirmation `is_equal_raw` stay inside the slices. -/
theorem packedpair_find_reads_ok (V : VecImpl) (L : Lawful V) (hay needle : Slice)
    (hh : hay.Valid) (hn : needle.Valid) (i1 i2 : Nat) (hne : i1 ≠ i2) (h1 : i1 < needle.len)
    (h2 : i2 < needle.len) (f : PackedPair.Finder) (c0 c0' : Ctr)
    (hf : PackedPair.Finder.new V needle i1 i2 c0 = .ok f c0')
    (hlen : f.minHaystackLen ≤ hay.len) (c : Ctr) :
    ∃ r c', PackedPair.find V f hay needle c = .ok r c' :=
  let ⟨c', h, _⟩ := PackedPair.find_correct L hay needle hh hn i1 i2 hne h1 h2 f c0 c0' hf hlen c
  ⟨_, c', h⟩

/-- `find_prefilter` for every lawful `V`, EVERY finder value with distinct indices whose
`min_haystack_len` covers both vector loads (`FinderOk`), and every valid haystack of at least
`min_haystack_len` bytes: returns normally (no load outside the haystack). -/
theorem packedpair_prefilter_reads_ok (V : VecImpl) (L : Lawful V) (f : PackedPair.Finder)
    (hok : PackedPair.FinderOk V f) (hay : Slice) (hh : hay.Valid)
    (hlen : f.minHaystackLen ≤ hay.len) (c : Ctr) :
    ∃ r c', PackedPair.findPrefilter V f hay c = .ok r c' :=
  (PackedPair.findPrefilter_panics_iff L f hok hay hh c).2 hlen

/-- OUT OF DOMAIN. `find` is a safe function and accepts ANY search needle (any bytes, any
length, unrelated to the construction needle). For every lawful `V`, every `FinderOk` finder,
every valid haystack of at least `min_haystack_len` bytes and every valid search needle, the
run cannot end in a debug assertion, a panic, an overflow, an out-of-bounds read or a
misaligned load. The ONE remaining possibility besides a normal return is the pointer
arithmetic `end.sub(needle.len())` in `find_in_chunk` leaving the haystack's allocation
(`.ptrOob siteEndSub`): undefined behaviour in Rust, but WITHOUT any read (observation O2; it
happens exactly when `packedpair_find_ptrOob_iff` says). -/
theorem packedpair_find_foreign_no_fault_but_ptrOob (V : VecImpl) (L : Lawful V)
    (f : PackedPair.Finder) (hok : PackedPair.FinderOk V f) (hay needle : Slice)
    (hh : hay.Valid) (hn : needle.Valid) (hlen : f.minHaystackLen ≤ hay.len) (c : Ctr) :
    (∀ s, PackedPair.find V f hay needle c ≠ .fault (.debugAssert s)) ∧
    (∀ s, PackedPair.find V f hay needle c ≠ .fault (.panic s)) ∧
    (∀ s, PackedPair.find V f hay needle c ≠ .fault (.overflow s)) ∧
    (∀ r a l, PackedPair.find V f hay needle c ≠ .fault (.oobRead r a l)) ∧
    (∀ a w, PackedPair.find V f hay needle c ≠ .fault (.misaligned a w)) ∧
    (∀ s, PackedPair.find V f hay needle c = .fault (.ptrOob s) → s = PackedPair.siteEndSub) :=
  PackedPair.find_no_fault_but_ptrOob L f hok hay needle hh hn hlen c

/-- OUT OF DOMAIN, the same as a dichotomy: normal return, or the O2 pointer fault (no read). -/
theorem packedpair_find_foreign_reads_ok (V : VecImpl) (L : Lawful V)
    (f : PackedPair.Finder) (hok : PackedPair.FinderOk V f) (hay needle : Slice)
    (hh : hay.Valid) (hn : needle.Valid) (hlen : f.minHaystackLen ≤ hay.len) (c : Ctr) :
    (∃ r c', PackedPair.find V f hay needle c = .ok r c') ∨
    PackedPair.find V f hay needle c = .fault (.ptrOob PackedPair.siteEndSub) :=
  PackedPair.find_reads_ok L f hok hay needle hh hn hlen c

/-- O2, EXACTLY. Under the hypotheses of the previous theorem, `end.sub(needle.len())` leaves
the allocation iff the search needle is longer than the part of the haystack's region that ends
with the haystack (`hay.off + hay.len`) AND the finder's byte pair matches at some offset `q`
inspected by the main loop. A search needle no longer than the haystack can never trigger it. -/
theorem packedpair_find_ptrOob_iff (V : VecImpl) (L : Lawful V)
    (f : PackedPair.Finder) (hok : PackedPair.FinderOk V f) (hay needle : Slice)
    (hh : hay.Valid) (hn : needle.Valid) (hlen : f.minHaystackLen ≤ hay.len) (c : Ctr) :
    PackedPair.find V f hay needle c = .fault (.ptrOob PackedPair.siteEndSub) ↔
      hay.off + hay.len < needle.len ∧
        ∃ q, q ≤ hay.len - f.minHaystackLen + q % V.bytes ∧ f.CandAt hay q :=
  PackedPair.find_ptrOob_iff L f hok hay needle hh hn hlen c

/-- What the out-of-domain theorems say for one concrete vector type: for every `FinderOk`
finder, valid haystack of at least `min_haystack_len` bytes, valid search needle and counter,
`find` returns normally or stops at the O2 pointer computation, and `find_prefilter` returns
normally. -/
def PackedPairReadsOk (V : VecImpl) : Prop :=
  ∀ (f : PackedPair.Finder) (hay needle : Slice) (c : Ctr), PackedPair.FinderOk V f →
    hay.Valid → needle.Valid → f.minHaystackLen ≤ hay.len →
    ((∃ r c', PackedPair.find V f hay needle c = .ok r c') ∨
      PackedPair.find V f hay needle c = .fault (.ptrOob PackedPair.siteEndSub)) ∧
    (∃ r c', PackedPair.findPrefilter V f hay c = .ok r c')

/-- `PackedPairReadsOk` holds for every lawful vector type. -/
theorem packedpair_reads_ok (V : VecImpl) (L : Lawful V) : PackedPairReadsOk V :=
  fun f hay needle c hok hh hn hlen =>
    ⟨packedpair_find_foreign_reads_ok V L f hok hay needle hh hn hlen c,
     packedpair_prefilter_reads_ok V L f hok hay hh hlen c⟩

/-- SSE2 packed pair finder. -/
theorem packedpair_sse2_reads_ok : PackedPairReadsOk Sensible.sse2 :=
  packedpair_reads_ok Sensible.sse2 Sensible.lawful_sse2

/-- AVX2 packed pair finder. -/
theorem packedpair_avx2_reads_ok : PackedPairReadsOk Sensible.avx2 :=
  packedpair_reads_ok Sensible.avx2 Sensible.lawful_avx2

/-- simd128 packed pair finder. -/
theorem packedpair_simd128_reads_ok : PackedPairReadsOk Sensible.simd128 :=
  packedpair_reads_ok Sensible.simd128 Sensible.lawful_simd128

/-- NEON packed pair finder. -/
theorem packedpair_neon_reads_ok : PackedPairReadsOk Neon.impl :=
  packedpair_reads_ok Neon.impl Neon.lawful

/-- hypotheses are satisfiable (SSE2): needle "abcdefgh", pair `(0, 7)`, `min_haystack_len = 23`,
a 40-byte haystack at address 64; and a foreign one-byte search needle -/
example : PackedPair.exHay.Valid ∧ PackedPair.exNeedle.Valid ∧ PackedPair.exForeign.Valid ∧
    PackedPair.Finder.new Sensible.sse2 PackedPair.exNeedle 0 7 {} =
      .ok (PackedPair.mkFinder Sensible.sse2 PackedPair.exNeedle 0 7) {} ∧
    PackedPair.FinderOk Sensible.sse2 (PackedPair.mkFinder Sensible.sse2 PackedPair.exNeedle 0 7) ∧
    (PackedPair.mkFinder Sensible.sse2 PackedPair.exNeedle 0 7).minHaystackLen ≤
      PackedPair.exHay.len :=
  ⟨by unfold Slice.Valid; decide, by unfold Slice.Valid; decide, by unfold Slice.Valid; decide,
   PackedPair.new_ok _ 0 7 {} (by decide) (by decide), PackedPair.mkFinder_ok _ 0 7 (by decide),
   by decide⟩

/-! ### safe code without raw loads: Shift-Or, pair selection, portable prefilter -/

/-- Shift-Or (`src/arch/all/shiftor.rs`) is safe code: for EVERY needle slice (valid or not, any
length) `Finder::new` returns normally and leaves the counter - hence the load trace -
untouched: it performs no raw load at all. -/
theorem shiftor_new_no_loads (needle : Slice) (c : Ctr) :
    ∃ r, ShiftOr.Finder.new needle c = .ok r c :=
  let ⟨r, h, _⟩ := ShiftOr.Finder.new_correct needle c
  ⟨r, h⟩

/-- Shift-Or `find`: for every valid needle of at most 15 bytes and every valid haystack the
finder is built and `find` returns normally with the load trace unchanged (no raw load). -/
theorem shiftor_find_no_loads (needle hay : Slice) (hvn : needle.Valid) (hvh : hay.Valid)
    (hlen : needle.len ≤ 15) (c : Ctr) :
    ∃ f r c', ShiftOr.Finder.new needle c = .ok (some f) c ∧ f.find hay c = .ok r c' ∧
      c'.loads = c.loads :=
  let ⟨f, h1, h2⟩ := ShiftOr.shiftOr_correct needle hay hvn hvh hlen c
  ⟨f, _, c, h1, h2, rfl⟩

/-- Pair selection `Pair::with_ranker` for EVERY needle slice and EVERY ranker: returns
normally and performs no raw load (`c'.loads = c.loads`); indexing is bounds-checked slice
indexing that is shown never to panic. -/
theorem pair_with_ranker_no_loads (needle : Slice) (rank : UInt8 → UInt8) (c : Ctr) :
    ∃ r c', Pair.withRanker needle rank c = .ok r c' ∧ c'.loads = c.loads :=
  let ⟨r, c', h, _, _, _, hl⟩ := Pair.withRanker_correct needle rank c
  ⟨r, c', h, hl⟩

/-- `Pair::new` (default byte-frequency ranker), same statement. -/
theorem pair_new_no_loads (needle : Slice) (c : Ctr) :
    ∃ r c', Pair.new needle c = .ok r c' ∧ c'.loads = c.loads :=
  let ⟨r, c', h, _, _, _, hl⟩ := Pair.new_correct needle c
  ⟨r, c', h, hl⟩

/-- Portable packed-pair finder construction `Finder::with_pair` from a pair valid for the
needle: returns normally with the counter (and load trace) untouched. -/
theorem fallback_with_pair_no_loads (needle : Slice) (p : Pair) (hp : p.ValidFor needle) (c : Ctr) :
    ∃ r, Fallback.withPair needle p c = .ok r c :=
  ⟨_, Fallback.withPair_ok needle p hp c⟩

/-- The same constructor with ANY pair, in particular one selected on a different (longer)
needle: it builds the finder or panics on the checked index; it panics exactly when an offset
is outside the needle, and never reads (counter and load trace untouched either way). -/
theorem fallback_with_pair_foreign (needle : Slice) (p : Pair) (c : Ctr) :
    (p.index1.toNat < needle.len ∧ p.index2.toNat < needle.len ∧
      ∃ r, Fallback.withPair needle p c = .ok r c) ∨
    ((¬ (p.index1.toNat < needle.len ∧ p.index2.toNat < needle.len)) ∧
      ∃ site, Fallback.withPair needle p c = .fault (.panic site)) := by
  rcases Fallback.withPair_total needle p c with ⟨h1, h2, h⟩ | h
  · exact .inl ⟨h1, h2, _, h⟩
  · exact .inr h

/-- Portable `find_prefilter` (safe code; its only memory access besides checked indexing is the
`memchr` it calls, which is a parameter here and assumed correct, `MemchrOk`): for every finder
and every valid haystack it returns normally. -/
theorem fallback_prefilter_reads_ok {memchr : UInt8 → Slice → M (Option Nat)} {K : Nat}
    (hm : Fallback.MemchrOk memchr K) (f : Fallback.Finder) (hay : Slice) (hv : hay.Valid)
    (c : Ctr) :
    ∃ r c', Fallback.findPrefilter memchr f hay c = .ok r c' :=
  let ⟨r, c', h, _⟩ := Fallback.findPrefilter_correct hm f hay hv c
  ⟨r, c', h⟩

/-- hypotheses are satisfiable: needle "aba" at address 64, haystack "xababa" at address 4096,
the pair `(2, 0)`, and the specification `memchr` -/
example : (Slice.ofMem ⟨1, 64, #[97, 98, 97]⟩).Valid ∧
    (Slice.ofMem ⟨0, 4096, #[120, 97, 98, 97, 98, 97]⟩).Valid ∧
    (Slice.ofMem ⟨1, 64, #[97, 98, 97]⟩).len ≤ 15 ∧
    Pair.ValidFor ⟨2, 0⟩ (Slice.ofMem ⟨1, 64, #[97, 98, 97]⟩) ∧
    Fallback.MemchrOk Fallback.specMemchr 0 :=
  ⟨Nat.le_of_eq (Nat.zero_add _), Nat.le_of_eq (Nat.zero_add _), by decide,
   ⟨by decide, by decide, by decide⟩, Fallback.specMemchr_ok⟩

/-! ### Two-Way and the substring API (`src/arch/all/twoway.rs`, `src/memmem/*.rs`)

As everywhere in this file, `run = .ok v c'` excludes every fault of the model, in particular
`.oobRead` (a raw load outside its region), `.misaligned` (an aligned load at an unaligned
address) and `.ptrOob`; the slices are arbitrary valid windows of arbitrary regions, so they may
start at any alignment and end exactly at the end of their region (the "unmapped page"). -/

/-- **Two-Way forward**: `twoway::Finder::new(needle)` then `find_with_prefilter(pre, haystack,
needle)` for every valid needle and haystack and every optional prefilter whose strategy returns
normally on the tails of the haystack (sound or not), in every prefilter state: returns normally
- the constructor's `is_suffix` loads stay inside the needle, the search loops only index inside
the two slices. -/
theorem twoway_find_reads_ok (needle haystack : Slice) (pre : Option Pre) (c : Ctr)
    (strat : Slice → M (Option Nat)) (hnv : needle.Valid) (hhv : haystack.Valid)
    (hpre : TwoWay.PreOK strat pre)
    (htotal : pre ≠ none → ∀ a, a ≤ haystack.len → ∀ c, ∃ r c',
      strat (TwoWay.tailFrom haystack a) c = .ok r c') :
    ∃ r c', (TwoWay.Finder.new needle >>= fun tw =>
        TwoWay.Finder.findWithPrefilter tw pre haystack needle) c = .ok r c' :=
  let ⟨r, pre', c', h, _⟩ :=
    Bridge3.twoway_find_any_prefilter needle haystack pre c strat hnv hhv hpre htotal
  ⟨(r, pre'), c', h⟩

/-- **Two-Way reverse**: `twoway::FinderRev::new(needle).rfind(haystack, needle)` for every valid
needle and haystack returns normally. -/
theorem twoway_rfind_reads_ok (needle haystack : Slice) (c : Ctr) (hnv : needle.Valid)
    (hhv : haystack.Valid) :
    ∃ r c', (TwoWay.FinderRev.new needle >>= fun tw =>
        TwoWay.FinderRev.rfind tw haystack needle) c = .ok r c' :=
  let ⟨c', h, _⟩ := TwoWay.rfind_correct needle haystack c hnv hhv
  ⟨_, c', h⟩

/-- **The meta searcher under EVERY configuration** (every backend choice for the packed-pair
searcher, the prefilter and `memchr`), prefilter setting, ranker, valid needle and haystack and
prefilter state: `Searcher::new` and `Searcher::find` return normally - whichever vector or SWAR
code the configuration selects, none of its loads leaves the haystack or the needle and every
aligned load is aligned. -/
theorem searcher_find_reads_ok (cfg : Api.Cfg) (pf : Memmem.PrefilterConfig)
    (rank : UInt8 → UInt8) (needle hay : Slice) (hn : needle.Valid) (hh : hay.Valid)
    (st : PrefilterState) (c : Ctr) :
    ∃ s c1, Memmem.Searcher.new cfg pf rank needle c = .ok s c1 ∧ ∀ c2, ∃ r c3,
      s.find cfg st hay needle c2 = .ok r c3 :=
  let ⟨s, c1, h, hf⟩ := Memmem.C03.find_all cfg pf rank needle hay hn hh st c
  ⟨s, c1, h, fun c2 => let ⟨st', c3, e⟩ := hf c2; ⟨(_, st'), c3, e⟩⟩

/-- **The reverse meta searcher under every configuration**: `SearcherRev::new` and `rfind`
return normally for every valid needle and haystack. -/
theorem searcher_rfind_reads_ok (cfg : Api.Cfg) (needle hay : Slice) (hn : needle.Valid)
    (hh : hay.Valid) (c : Ctr) :
    ∃ s c1, Memmem.SearcherRev.new needle c = .ok s c1 ∧ ∀ c2, ∃ r c3,
      s.rfind cfg hay needle c2 = .ok r c3 :=
  let ⟨s, c1, h, hf⟩ := Memmem.C04.rfind_all cfg needle hay hn hh c
  ⟨s, c1, h, fun c2 => let ⟨c3, e⟩ := hf c2; ⟨_, c3, e⟩⟩

/-- **`memmem::find`, `memmem::rfind`, `Finder::new(..).find(..)`, `FinderRev::new(..).rfind(..)`**
under every configuration, for every valid needle and haystack: all four return normally. -/
theorem memmem_reads_ok (cfg : Api.Cfg) (needle hay : Slice) (hn : needle.Valid) (hh : hay.Valid)
    (c : Ctr) :
    (∃ r c', Memmem.find cfg hay needle c = .ok r c') ∧
    (∃ r c', Memmem.rfind cfg hay needle c = .ok r c') ∧
    (∃ r c', (Memmem.Finder.new cfg needle >>= fun f => f.find cfg hay) c = .ok r c') ∧
    (∃ r c', (Memmem.FinderRev.new needle >>= fun f => f.rfind cfg hay) c = .ok r c') :=
  ⟨let ⟨c', h⟩ := Memmem.C03.oneshot_all cfg needle hay hn hh c; ⟨_, c', h⟩,
   let ⟨c', h⟩ := Memmem.C04.oneshot_all cfg needle hay hn hh c; ⟨_, c', h⟩,
   let ⟨c', h⟩ := Memmem.C03.finder_find cfg needle hay hn hh (fun _ => Memmem.twoWayFwdOk) c
   ⟨_, c', h⟩,
   let ⟨c', h⟩ := Memmem.C04.finder_rfind_all cfg needle hay hn hh c; ⟨_, c', h⟩⟩

/-- **`find_iter` under every operation sequence** (`next`, `size_hint`, `clone`, `into_owned`,
any order and number; each `next` searches the sub-slice `&haystack[pos..]`, which starts
anywhere inside the haystack - any alignment - and ends with it; after `into_owned` the needle
lives in a fresh heap region): returns normally under every configuration. -/
theorem find_iter_reads_ok (cfg : Api.Cfg) (b : Memmem.FinderBuilder) (rank : UInt8 → UInt8)
    (needle hay : Slice) (hn : needle.Valid) (hh : hay.Valid) (ops : List Memmem.IterOp)
    (h : Memmem.Heap) (c : Ctr) :
    ∃ r c', (b.buildForwardWithRanker cfg rank needle >>= fun f =>
      Memmem.FindIter.run cfg ops (f.findIter hay) h) c = .ok r c' :=
  let ⟨_, _, c', e, _⟩ := Bridge3.findIter_run_all cfg b rank needle hay hn hh ops h c
  ⟨_, c', e⟩

/-- **`rfind_iter` under every operation sequence** (each `next` searches `&haystack[..pos]`,
which ends anywhere inside the haystack): returns normally under every configuration. -/
theorem rfind_iter_reads_ok (cfg : Api.Cfg) (needle hay : Slice) (hn : needle.Valid)
    (hh : hay.Valid) (ops : List Memmem.IterOp) (h : Memmem.Heap) (c : Ctr) :
    ∃ r c', (Memmem.FinderRev.new needle >>= fun f =>
      Memmem.FindRevIter.run cfg ops (f.rfindIter hay) h) c = .ok r c' :=
  let ⟨_, _, c', e, _⟩ := Bridge3.rfindIter_run_all cfg needle hay hn hh ops h c
  ⟨_, c', e⟩

/-- hypotheses are satisfiable: a 40-byte needle at an odd address and a 100-byte haystack that
ends exactly at the end of its region (the slice is the whole region), a sub-slice of a larger
region at an odd offset, no prefilter -/
example : (Slice.ofMem ⟨1, 65, Array.replicate 40 97⟩).Valid ∧
    (Slice.ofMem ⟨0, 4096 - 100, Array.replicate 100 97⟩).Valid ∧
    (⟨⟨0, 4099, #[120, 120, 97, 98, 99, 120, 97, 98, 99, 120]⟩, 1, 8⟩ : Slice).Valid ∧
    TwoWay.PreOK (fun _ => pure none) none := by
  refine ⟨by simp [Slice.Valid, Slice.ofMem], by simp [Slice.Valid, Slice.ofMem],
    by simp [Slice.Valid], fun p hp => by cases hp⟩

end Memchr.Props.C05

#print axioms Memchr.Props.C05.generic_find_reads_ok
#print axioms Memchr.Props.C05.generic_rfind_reads_ok
#print axioms Memchr.Props.C05.generic_count_reads_ok
#print axioms Memchr.Props.C05.generic_reads_ok
#print axioms Memchr.Props.C05.sse2_reads_ok
#print axioms Memchr.Props.C05.avx2_reads_ok
#print axioms Memchr.Props.C05.simd128_reads_ok
#print axioms Memchr.Props.C05.neon_reads_ok
#print axioms Memchr.Props.C05.swar_one_find_reads_ok
#print axioms Memchr.Props.C05.swar_one_rfind_reads_ok
#print axioms Memchr.Props.C05.swar_one_count_reads_ok
#print axioms Memchr.Props.C05.swar_multi_find_reads_ok
#print axioms Memchr.Props.C05.swar_multi_rfind_reads_ok
#print axioms Memchr.Props.C05.swar_two_three_reads_ok
#print axioms Memchr.Props.C05.swar_empty_window_reads_ok
#print axioms Memchr.Props.C05.is_equal_raw_reads_ok
#print axioms Memchr.Props.C05.is_equal_prefix_suffix_reads_ok
#print axioms Memchr.Props.C05.rabinkarp_find_reads_ok
#print axioms Memchr.Props.C05.rabinkarp_rfind_reads_ok
#print axioms Memchr.Props.C05.rabinkarp_new_find_reads_ok
#print axioms Memchr.Props.C05.rabinkarp_new_rfind_reads_ok
#print axioms Memchr.Props.C05.packedpair_find_reads_ok
#print axioms Memchr.Props.C05.packedpair_prefilter_reads_ok
#print axioms Memchr.Props.C05.packedpair_find_foreign_no_fault_but_ptrOob
#print axioms Memchr.Props.C05.packedpair_find_foreign_reads_ok
#print axioms Memchr.Props.C05.packedpair_find_ptrOob_iff
#print axioms Memchr.Props.C05.packedpair_reads_ok
#print axioms Memchr.Props.C05.packedpair_sse2_reads_ok
#print axioms Memchr.Props.C05.packedpair_avx2_reads_ok
#print axioms Memchr.Props.C05.packedpair_simd128_reads_ok
#print axioms Memchr.Props.C05.packedpair_neon_reads_ok
#print axioms Memchr.Props.C05.shiftor_new_no_loads
#print axioms Memchr.Props.C05.shiftor_find_no_loads
#print axioms Memchr.Props.C05.pair_with_ranker_no_loads
#print axioms Memchr.Props.C05.pair_new_no_loads
#print axioms Memchr.Props.C05.fallback_with_pair_no_loads
#print axioms Memchr.Props.C05.fallback_with_pair_foreign
#print axioms Memchr.Props.C05.fallback_prefilter_reads_ok
#print axioms Memchr.Props.C05.twoway_find_reads_ok
#print axioms Memchr.Props.C05.twoway_rfind_reads_ok
#print axioms Memchr.Props.C05.searcher_find_reads_ok
#print axioms Memchr.Props.C05.searcher_rfind_reads_ok
#print axioms Memchr.Props.C05.memmem_reads_ok
#print axioms Memchr.Props.C05.find_iter_reads_ok
#print axioms Memchr.Props.C05.rfind_iter_reads_ok
