/-
C16  A finder is a pure function of its needle: reuse, clone, borrow, own.

The result of searching a haystack with a `Finder` or `FinderRev` depends only on the needle and
that haystack, never on which haystacks were searched before.  `as_ref()`, `clone()` and
`into_owned()` of a finder or of a partially consumed `find_iter` / `rfind_iter` behave
identically to the original from that point on, even after the original needle buffer is gone,
and `needle()` returns the construction needle.

How this is stated.  A finder (iterator) is driven by the operation machines of
`Model/Memmem.lean`: `Finder.run cfg ops f heap` applies a LIST of operations to the finder -
`find(haystack)`, `needle()`, and the conversions `as_ref()` / `clone()` / `into_owned()`, each
of which REPLACES the finder by its result (so everything after it runs on the converted value;
`into_owned` moves the needle bytes into a fresh heap region, after which the original buffer is
no longer referenced) - and collects the observations.  The theorems say that the list of
observations equals that of a reference machine (`refFinder`, `refFinderRev`, `refFwd`, `refRev`)
which is a function of the NEEDLE BYTES and the operations alone: it has no finder, no prefilter
state, no heap and no history.

  what the reference machines are, in plain words                 `ref_finder_eqs`,
                                                                   `ref_finder_rev_eqs`
  `Finder`: any operation sequence observes `refFinder`           `finder_run_all`
  `FinderRev`: any operation sequence observes `refFinderRev`     `finder_rev_run_all`
  two finders for the same needle bytes - however built,          `finder`, `finder_rev`
    borrowed or owned, whatever they searched before - under
    sequences that agree up to conversions observe the same
  partially consumed `find_iter` / `rfind_iter`: the same, from   `find_iter`, `rfind_iter`
    any common position

The only hypotheses are that the needle and the haystacks are valid slices.  Only statements,
one-line proofs from the master lemmas (`Proofs/Memmem.lean`, `Proofs/SearcherTwoWay.lean`,
`Proofs/PropsBridge3.lean`), non-vacuity examples and `#print axioms`.
-/
import MemchrModel.Proofs.PropsBridge3

namespace Memchr.Props.C16

open Memchr Memchr.Memmem

/-! ### the reference machines -/

/-- **What `refFinder x ops` is**, equation by equation (`x` = the needle bytes): a
`find(haystack)` observes the leftmost occurrence of `x` in THAT haystack (`Spec.leftmost`, see
`Props/C03`) - nothing of earlier operations enters; `needle()` observes `x`; `as_ref()`,
`into_owned()` and `clone()` observe nothing and change nothing for what follows. -/
theorem ref_finder_eqs (x : Array UInt8) (hay : Slice) (ops : List FinderOp) :
    refFinder x [] = [] ∧
    refFinder x (.find hay :: ops) = .idx (Spec.leftmost hay.toArray x) :: refFinder x ops ∧
    refFinder x (.needle :: ops) = .bytes x :: refFinder x ops ∧
    refFinder x (.asRef :: ops) = refFinder x ops ∧
    refFinder x (.intoOwned :: ops) = refFinder x ops ∧
    refFinder x (.clone :: ops) = refFinder x ops :=
  ⟨rfl, rfl, rfl, rfl, rfl, rfl⟩

/-- **What `refFinderRev x ops` is**: the same with the rightmost occurrence
(`Spec.rightmost`, see `Props/C04`). -/
theorem ref_finder_rev_eqs (x : Array UInt8) (hay : Slice) (ops : List FinderOp) :
    Bridge3.refFinderRev x [] = [] ∧
    Bridge3.refFinderRev x (.find hay :: ops) =
      .idx (Spec.rightmost hay.toArray x) :: Bridge3.refFinderRev x ops ∧
    Bridge3.refFinderRev x (.needle :: ops) = .bytes x :: Bridge3.refFinderRev x ops ∧
    Bridge3.refFinderRev x (.asRef :: ops) = Bridge3.refFinderRev x ops ∧
    Bridge3.refFinderRev x (.intoOwned :: ops) = Bridge3.refFinderRev x ops ∧
    Bridge3.refFinderRev x (.clone :: ops) = Bridge3.refFinderRev x ops :=
  ⟨rfl, rfl, rfl, rfl, rfl, rfl⟩

/-! ### `Finder` and `FinderRev` -/

/-- **A `Finder` is a pure function of its needle.** For every configuration, every
`FinderBuilder` finder (prefilter `None` / `Auto`, any ranker), every valid needle and EVERY
list of operations whose `find` haystacks are valid slices (`FinderOp.Ok`): building the finder
and running the operations returns normally and observes exactly `refFinder needle ops` - every
`find` is the leftmost occurrence in its own haystack whatever was searched before (including
haystacks that exhaust the prefilter), every `needle()` is the construction needle, and
`as_ref` / `clone` / `into_owned` are invisible from that point on. (The second conjunct is the
exact allocation count, `Props/C17`.) -/
theorem finder_run_all (cfg : Api.Cfg) (b : FinderBuilder) (rank : UInt8 → UInt8)
    (needle : Slice) (hn : needle.Valid) (ops : List FinderOp) (hops : ∀ op ∈ ops, op.Ok)
    (h : Heap) (c : Ctr) :
    ∃ f' h' c', (b.buildForwardWithRanker cfg rank needle >>= fun f => Finder.run cfg ops f h) c =
        .ok (refFinder needle.toArray ops, f', h') c' ∧
      h'.allocs = h.allocs + refAllocs needle.len .borrowed (ops.map FinderOp.own) :=
  Memmem.C16.finder_run_all cfg b rank needle hn ops hops h c

/-- **A `FinderRev` is a pure function of its needle**: `FinderRev::new(needle)` and any list
of operations (`find` = `rfind`) observes exactly `refFinderRev needle ops`. -/
theorem finder_rev_run_all (cfg : Api.Cfg) (needle : Slice) (hn : needle.Valid)
    (ops : List FinderOp) (hops : ∀ op ∈ ops, op.Ok) (h : Heap) (c : Ctr) :
    ∃ f' h' c', (FinderRev.new needle >>= fun f => FinderRev.run cfg ops f h) c =
        .ok (Bridge3.refFinderRev needle.toArray ops, f', h') c' ∧
      h'.allocs = h.allocs + refAllocs needle.len .borrowed (ops.map FinderOp.own) :=
  Bridge3.finderRev_run_all cfg needle hn ops hops h c

/-- **Two finders, two histories, one answer.** Let `f`, `f'` be ANY two forward finders for
the needle bytes of `n0` (`Finder.GoodFor n0`: what any construction followed by any operations
yields - built with any settings in any configuration, borrowed or owned, with the needle bytes
in any memory region, having searched anything before), and `ops`, `ops'` two operation lists
that are equal once every `as_ref` / `clone` / `into_owned` is removed (`isConv`). Then both runs
return normally with the SAME list of observations. -/
theorem finder (cfg cfg' : Api.Cfg) (n0 : Slice) (hn0 : n0.Valid) (ops ops' : List FinderOp)
    (hops : ∀ op ∈ ops, op.Ok) (hops' : ∀ op ∈ ops', op.Ok)
    (hsame : ops.filter (fun o => !o.isConv) = ops'.filter (fun o => !o.isConv))
    (f f' : Finder) (hg : f.GoodFor n0) (hg' : f'.GoodFor n0) (h h' : Heap) (c c' : Ctr) :
    ∃ outs f1 h1 c1 f1' h1' c1', Finder.run cfg ops f h c = .ok (outs, f1, h1) c1 ∧
      Finder.run cfg' ops' f' h' c' = .ok (outs, f1', h1') c1' :=
  Memmem.C16.finder cfg cfg' n0 hn0 ops ops' hops hops' hsame f f' hg hg' (fun _ => twoWayFwdOk)
    h h' c c'

/-- The same for any two reverse finders for the same needle bytes. -/
theorem finder_rev (cfg cfg' : Api.Cfg) (n0 : Slice) (hn0 : n0.Valid)
    (ops ops' : List FinderOp) (hops : ∀ op ∈ ops, op.Ok) (hops' : ∀ op ∈ ops', op.Ok)
    (hsame : ops.filter (fun o => !o.isConv) = ops'.filter (fun o => !o.isConv))
    (f f' : FinderRev) (hg : f.GoodFor n0) (hg' : f'.GoodFor n0) (h h' : Heap) (c c' : Ctr) :
    ∃ outs f1 h1 c1 f1' h1' c1', FinderRev.run cfg ops f h c = .ok (outs, f1, h1) c1 ∧
      FinderRev.run cfg' ops' f' h' c' = .ok (outs, f1', h1') c1' :=
  Bridge3.finderRev_pure cfg cfg' n0 hn0 ops ops' hops hops' hsame f f' hg hg' h h' c c'

/-! ### partially consumed iterators -/

/-- **A partially consumed `find_iter` and its `clone()` / `into_owned()`.** Let `it`, `it'` be
ANY two forward iterators over the same haystack for the same needle bytes at the SAME position
(`FindIter.GoodFor`; e.g. an iterator after some `next()` calls and its clone or owned form) -
whatever their prefilter states, ownership and configuration - and `ops`, `ops'` two lists of
`next` / `size_hint` / `clone` / `into_owned` that are equal once `clone` / `into_owned` are
removed. Then both runs return normally with the SAME observations: from that point on the
converted iterator behaves identically to the original. -/
theorem find_iter (cfg cfg' : Api.Cfg) (n0 hay : Slice) (hn0 : n0.Valid) (hh : hay.Valid)
    (ops ops' : List IterOp)
    (hsame : ops.filter (fun o => !o.isConv) = ops'.filter (fun o => !o.isConv))
    (it it' : FindIter) (hg : it.GoodFor n0 hay) (hg' : it'.GoodFor n0 hay)
    (hpos : it.pos = it'.pos) (h h' : Heap) (c c' : Ctr) :
    ∃ outs i1 h1 c1 i1' h1' c1', FindIter.run cfg ops it h c = .ok (outs, i1, h1) c1 ∧
      FindIter.run cfg' ops' it' h' c' = .ok (outs, i1', h1') c1' :=
  Memmem.C16.find_iter cfg cfg' n0 hay hn0 hh ops ops' hsame it it' hg hg' hpos
    (fun _ => twoWayFwdOk) h h' c c'

/-- **The same for a partially consumed `rfind_iter`** (its state is `pos : Option<usize>`). -/
theorem rfind_iter (cfg cfg' : Api.Cfg) (n0 hay : Slice) (hn0 : n0.Valid) (hh : hay.Valid)
    (ops ops' : List IterOp)
    (hsame : ops.filter (fun o => !o.isConv) = ops'.filter (fun o => !o.isConv))
    (it it' : FindRevIter) (hg : it.GoodFor n0 hay) (hg' : it'.GoodFor n0 hay)
    (hpos : it.pos = it'.pos) (h h' : Heap) (c c' : Ctr) :
    ∃ outs i1 h1 c1 i1' h1' c1', FindRevIter.run cfg ops it h c = .ok (outs, i1, h1) c1 ∧
      FindRevIter.run cfg' ops' it' h' c' = .ok (outs, i1', h1') c1' :=
  Memmem.C16.rfind_iter cfg cfg' n0 hay hn0 hh ops ops' hsame it it' hg hg' hpos
    (fun _ => twoWayRevOk) h h' c c'

/-! ### the hypotheses are satisfiable -/

/-- a valid needle, a valid haystack, an operation list all of whose `find` haystacks are valid,
and a second list that differs from it only by conversions -/
example : (⟨⟨1, 1048577, #[0, 97, 98, 0]⟩, 1, 2⟩ : Slice).Valid ∧
    (∀ op ∈ [FinderOp.find ⟨⟨0, 4099, #[120, 97, 98, 97, 98, 120]⟩, 1, 4⟩, .intoOwned,
        .find ⟨⟨0, 4099, #[120, 97, 98, 97, 98, 120]⟩, 1, 4⟩, .clone, .needle], op.Ok) ∧
    [FinderOp.asRef, .needle, .clone].filter (fun o => !o.isConv) =
      [FinderOp.needle, .intoOwned].filter (fun o => !o.isConv) := by
  refine ⟨by simp [Slice.Valid], ?_, by simp [FinderOp.isConv]⟩
  intro op hop
  simp at hop
  rcases hop with rfl | rfl | rfl | rfl | rfl <;> simp [FinderOp.Ok, Slice.Valid]

/-- a good finder exists (hypothesis of `finder`): the empty-needle finder, here in its owned
form with the (zero) needle bytes in another region than the construction needle -/
example : Finder.GoodFor (Slice.ofMem ⟨1, 64, #[]⟩)
    { needle := { own := .owned, bytes := Slice.ofMem ⟨1, 16777216, #[]⟩ },
      searcher := { kind := .empty, rabinkarp := RabinKarp.Finder.spec [] } } :=
  ⟨⟨by simp [Slice.Valid, Slice.ofMem], rfl⟩, rfl, rfl⟩

/-- two good iterators at the same position with DIFFERENT prefilter states and ownership
(hypotheses of `find_iter`) -/
example :
    let hay := Slice.ofMem ⟨0, 4096, Array.replicate 5 97⟩
    let n0 := Slice.ofMem ⟨1, 64, #[]⟩
    let s : Searcher := { kind := .empty, rabinkarp := RabinKarp.Finder.spec [] }
    let it : FindIter := { haystack := hay, prestate := PrefilterState.new,
                           finder := { needle := CowBytes.new n0, searcher := s }, pos := 3 }
    let it' : FindIter := { haystack := hay, prestate := ⟨0, 0⟩,
                            finder := { needle := { own := .owned, bytes := n0 }, searcher := s },
                            pos := 3 }
    it.GoodFor n0 hay ∧ it'.GoodFor n0 hay ∧ it.pos = it'.pos :=
  ⟨⟨rfl, ⟨by simp [Slice.Valid, Slice.ofMem, CowBytes.new], rfl⟩, rfl, rfl⟩,
   ⟨rfl, ⟨by simp [Slice.Valid, Slice.ofMem], rfl⟩, rfl, rfl⟩, rfl⟩

end Memchr.Props.C16

#print axioms Memchr.Props.C16.ref_finder_eqs
#print axioms Memchr.Props.C16.ref_finder_rev_eqs
#print axioms Memchr.Props.C16.finder_run_all
#print axioms Memchr.Props.C16.finder_rev_run_all
#print axioms Memchr.Props.C16.finder
#print axioms Memchr.Props.C16.finder_rev
#print axioms Memchr.Props.C16.find_iter
#print axioms Memchr.Props.C16.rfind_iter
