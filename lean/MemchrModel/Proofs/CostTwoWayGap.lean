/-
C13, item 3, the combinatorial part: `GapOK` holds for every needle in the `Small` case of
`Finder::new`, for every haystack.

`x = u v` with `|u| = crit`; `p` is the smallest period of `x`, `crit <= p`, `crit + p <= |x|`,
`2 * crit < |x|`, and `crit` is a critical position in the strong form `Core`.

1. `vper_min`: `p` is also the smallest period of `v` (a smaller period `k` of `v` would make
   `p - k` a local repetition at `crit`, hence a period of `x`).
2. `vper_sub`: (weak Fine-Wilf) if `v` has periods `a > b` with `a + b <= |v|` then `a - b` is a
   period of `v`; hence a period `d` of `v` with `d + p <= |v|` is a multiple of `p`
   (`dvd_of_vper`).
3. Two full right matches at distance `d` make `d` a period of `v`.  If `d + p <= |v|`, `d` is a
   multiple of `p` and the left part of the second match lies inside the matched region of the
   first and equals `u` by periodicity: the second position is an occurrence.  Otherwise
   `d >= max(p, |v| - p + 1) > |x| / 4`.
-/
import MemchrModel.Proofs.CostTwoWay
import MemchrModel.Proofs.TwoWayCert

namespace Memchr.TwoWay

open Memchr

/-- `k >= 1` is a period of `v = n[c..]` -/
def VPer (n : Slice) (c k : Nat) : Prop :=
  1 ≤ k ∧ ∀ t, c ≤ t → t + k < n.len → n.getD t = n.getD (t + k)

section

variable {n : Slice} {c p : Nat}

theorem vper_of_per (hp1 : 1 ≤ p) (hper : ∀ t, t + p < n.len → n.getD t = n.getD (t + p)) :
    VPer n c p :=
  ⟨hp1, fun t _ ht => hper t ht⟩

/-- `p` is the smallest period of `v` -/
theorem vper_min (hn : n.Valid) (hcore : Core n.toArray c)
    (hper : ∀ t, t + p < n.len → n.getD t = n.getD (t + p))
    (hmin : ∀ k, Per n.toArray k → p ≤ k) (hpl : c + p ≤ n.len)
    {k : Nat} (hk : VPer n c k) : p ≤ k := by
  apply Classical.byContradiction
  intro hlt
  have hkp : k < p := by omega
  obtain ⟨hk1, hk2⟩ := hk
  have hlr : LR n.toArray c (p - k) := by
    apply lr_of_getD hn
    intro t h1 h2 h3
    have e1 := hper t (by omega)
    have e2 := hk2 (t + (p - k)) h1 (by omega)
    rw [show t + (p - k) + k = t + p by omega] at e2
    rw [e1, e2]
  have := hmin (p - k) (hcore (p - k) (by omega) hlr).1
  omega

/-- weak Fine-Wilf step on `v` -/
theorem vper_sub {a b : Nat} (ha : VPer n c a) (hb : VPer n c b) (hba : b < a)
    (hab : c + a + b ≤ n.len) : VPer n c (a - b) := by
  obtain ⟨ha1, ha2⟩ := ha
  obtain ⟨hb1, hb2⟩ := hb
  refine ⟨by omega, fun t ht1 ht2 => ?_⟩
  by_cases hta : t + a < n.len
  · have e1 := ha2 t ht1 hta
    have e2 := hb2 (t + (a - b)) (by omega) (by omega)
    rw [show t + (a - b) + b = t + a by omega] at e2
    rw [e1, e2]
  · have e1 := hb2 (t - b) (by omega) (by omega)
    have e2 := ha2 (t - b) (by omega) (by omega)
    rw [show t - b + b = t by omega] at e1
    rw [show t - b + a = t + (a - b) by omega] at e2
    rw [← e1, e2]

/-- a period `d` of `v` with `d + p <= |v|` is a multiple of the smallest period `p` -/
theorem dvd_of_vper (hp : VPer n c p) (hmin : ∀ k, VPer n c k → p ≤ k) :
    ∀ d, VPer n c d → c + d + p ≤ n.len → p ∣ d := by
  intro d
  induction d using Nat.strongRecOn with
  | _ d ih =>
    intro hd hdp
    have hpd := hmin d hd
    by_cases heq : d = p
    · subst heq; exact Nat.dvd_refl _
    · have hlt : p < d := by omega
      have hsub := vper_sub hd hp hlt (by omega)
      have := ih (d - p) (by have := hp.1; omega) hsub (by omega)
      have e : d = (d - p) + p := by omega
      rw [e]
      exact Nat.dvd_add this (Nat.dvd_refl _)

/-- periodicity over a multiple of the period -/
theorem per_mul (hper : ∀ t, t + p < n.len → n.getD t = n.getD (t + p)) (j : Nat) :
    ∀ t, t + p * j < n.len → n.getD t = n.getD (t + p * j) := by
  induction j with
  | zero => intro t _; simp
  | succ j ih =>
    intro t ht
    rw [Nat.mul_succ] at ht ⊢
    have e1 := ih t (by omega)
    have e2 := hper (t + p * j) (by omega)
    rw [e1, e2, Nat.add_assoc]

end

/-- **`GapOK` for every needle in the `Small` case and every haystack.** -/
theorem gapOK (hay n : Slice) (hn : n.Valid) (c p : Nat) (hcore : Core n.toArray c)
    (hper : Per n.toArray p) (hmin : ∀ k, Per n.toArray k → p ≤ k) (hcp : c ≤ p)
    (hpl : c + p ≤ n.len) (h2c : 2 * c < n.len) : GapOK hay n c := by
  intro q q' hqq hm hm' ⟨t0, ht0, hne⟩
  have hperD := per_getD hn hper
  have hp1 := hper.1
  have hvp : VPer n c p := vper_of_per hp1 hperD
  have hvmin : ∀ k, VPer n c k → p ≤ k := fun k hk => vper_min hn hcore hperD hmin hpl hk
  -- the distance is a period of `v`
  have hd : VPer n c (q' - q) := by
    refine ⟨by omega, fun t ht1 ht2 => ?_⟩
    have e1 := hm (t + (q' - q)) (by omega) ht2
    have e2 := hm' t ht1 (by omega)
    rw [e1, e2]
    congr 1
    omega
  have hpd := hvmin _ hd
  by_cases hsmall : c + (q' - q) + p ≤ n.len
  · -- the second position is an occurrence: contradiction
    exfalso
    obtain ⟨j, hj⟩ := dvd_of_vper hvp hvmin _ hd hsmall
    apply hne
    by_cases ht0c : c ≤ t0
    · exact hm' t0 ht0c ht0
    · have e1 := per_mul hperD j t0 (by rw [← hj]; omega)
      have e2 := hm (t0 + p * j) (by rw [← hj]; omega) (by rw [← hj]; omega)
      rw [e1, e2, ← hj]
      congr 1
      omega
  · omega

/-! ### what `Finder::new` returns, beyond `finder_new_spec` -/

theorem shiftForward_post (needle : Slice) (plb crit : Nat) :
    Post (Shift.forward needle plb crit) (fun sh =>
      match sh with
      | .large s => s ≤ needle.len
      | .small q => crit * 2 < needle.len ∧ crit + q ≤ needle.len) := by
  unfold Shift.forward
  apply Post.bind (Post.of_free (Free.csub _ _ _))
  rintro d ⟨hd, rfl⟩
  split
  · apply Post.pure
    dsimp only
    omega
  · rename_i h2
    apply Post.bind (Post.of_free (Free.take _ _ _))
    rintro u ⟨_, rfl⟩
    apply Post.bind (Post.of_free (Free.drop _ _ _))
    rintro v ⟨_, rfl⟩
    apply Post.bind (Post.of_free (Free.take _ _ _))
    rintro vp ⟨hvp, rfl⟩
    apply Post.bind_right
    intro b
    split
    · apply Post.pure
      dsimp only
      omega
    · apply Post.pure
      dsimp only at hvp ⊢
      omega

theorem finderNew_post (needle : Slice) :
    Post (Finder.new needle) (fun tw =>
      match tw.shift with
      | .large s => s ≤ needle.len
      | .small q => tw.criticalPos * 2 < needle.len ∧ tw.criticalPos + q ≤ needle.len) := by
  unfold Finder.new
  apply Post.bind_right; intro byteset
  apply Post.bind_right; intro minSuffix
  apply Post.bind_right; intro maxSuffix
  split
  rename_i plb crit _
  apply Post.bind (shiftForward_post needle plb crit)
  intro sh hsh
  apply Post.pure
  exact hsh

/-! ### item 3 of the C13 cost plan -/

/-- the prefilter "strategy" of a search without prefilter -/
theorem stratCost_none : StratCost (fun _ => pure none) := by
  intro sub _
  apply Costs.pure
  exact ⟨by omega, nofun⟩

/-- **`Cost.twoway_pre`, cost form.**  Two-Way forward (`find_with_prefilter`) for the finder
built by `Finder::new` from a needle with the bytes of the search needle, on any valid haystack,
with no prefilter or with ANY prefilter strategy that costs at most `4 * consumed + 1020` steps per
call (soundness of the strategy is not needed here), in ANY `PrefilterState`: at most
`1031 * scanned + 2 * needle.len() + 1022` steps, `scanned` = index of the answer + 1, or the
haystack length when the answer is `None`.  Both the `Large` and the `Small` case, unconditional. -/
theorem findWithPrefilter_costs (n0 n hay : Slice) (tw : TwoWay) (c0 c0' : Ctr)
    (hn0 : n0.Valid) (hn : n.Valid) (hh : hay.Valid) (hbytes : n.toList = n0.toList)
    (hnew : Finder.new n0 c0 = .ok tw c0') (strat : Slice → M (Option Nat))
    (hstrat : StratCost strat) (pre : Option Pre) (hpre : PreOK strat pre) :
    Costs (Finder.findWithPrefilter tw pre hay n) (fun x k =>
      PreOK strat x.2 ∧ k ≤ 1031 * Fallback.scanned x.1 hay.len + 2 * n.len + 1022) := by
  have harr := toArray_eq_of_toList_eq hn hn0 hbytes
  have hlen : n.len = n0.len := by
    rw [← Slice.toArray_size hn, ← Slice.toArray_size hn0, harr]
  obtain ⟨tw1, c1, e1, _, _, hcl, hsp, hhalf⟩ := finder_new_spec n0 c0 hn0
  rw [hnew] at e1
  simp only [Res.ok.injEq] at e1
  obtain ⟨rfl, rfl⟩ := e1
  obtain ⟨tw2, c2, e2, hcert⟩ := cert_fwd n0 hn0 c0
  rw [hnew] at e2
  simp only [Res.ok.injEq] at e2
  obtain ⟨rfl, rfl⟩ := e2
  have hpost := (finderNew_post n0).out c0 tw c0' hnew
  unfold Finder.findWithPrefilter
  cases hshift : tw.shift with
  | small p =>
    rw [hshift] at hpost hcert
    dsimp only at hpost ⊢
    unfold Finder.findSmallImp
    split
    · apply Costs.pure
      exact ⟨hpre, by omega⟩
    · rename_i h0
      have hpos : 0 < n.len := Nat.pos_of_ne_zero h0
      have hsp' := hsp (by omega)
      rw [hshift] at hsp'
      obtain ⟨hc, hper, hcp, hpn⟩ := hsp'
      obtain ⟨hcore, _, hmin⟩ := hcert
      rw [← harr] at hper hcore hmin
      apply (smallLoop_costs tw n hay hpos p strat hh hstrat (by omega) hper.1 hcp (by omega)
        (per_getD hn hper)
        (gapOK hay n hn tw.criticalPos p hcore hper hmin hcp (by omega) (by omega))
        pre 0 0 hpre (Nat.zero_le _) hpos (MatchR.empty _ _ _ _) none nofun).mono
      rintro ⟨r, pre'⟩ k ⟨h1, h2⟩
      refine ⟨h1, ?_⟩
      simp only [fund] at h2
      dsimp only at h2 ⊢
      omega
  | large s =>
    rw [hshift] at hpost
    dsimp only at hpost ⊢
    unfold Finder.findLargeImp
    split
    · apply Costs.pure
      exact ⟨hpre, by omega⟩
    · rename_i h0
      have hpos : 0 < n.len := Nat.pos_of_ne_zero h0
      apply (largeLoop_costs tw n hay hpos s strat hh hstrat (by omega)
        (by have := hhalf s hshift; omega) (by omega) pre 0 hpre (Nat.zero_le _)).mono
      rintro ⟨r, pre'⟩ k ⟨h1, h2⟩
      refine ⟨h1, ?_⟩
      dsimp only at h2 ⊢
      omega

end Memchr.TwoWay

namespace Memchr.Cost

open Memchr.TwoWay

/-- **`Cost.twoway_pre`.**  `Finder::new(n0)` then `find_with_prefilter(pre, haystack, n)` (search
needle `n` with the bytes of `n0`), for every valid needle and haystack, `pre = None` or any
prefilter that is sound on every valid haystack and costs at most `4 * consumed + 1020` steps per
call, in every `PrefilterState`: the leftmost occurrence, no fault, and at most
`1031 * scanned + 2 * needle.len() + 1022` steps for the search (`scanned` = answer + 1, or
`haystack.len()` for `None`); in particular at most
`1031 * haystack.len() + 2 * needle.len() + 1022`. -/
theorem twoway_pre (n0 n hay : Slice) (tw : TwoWay) (c0 c0' : Ctr)
    (hn0 : n0.Valid) (hn : n.Valid) (hh : hay.Valid) (hbytes : n.toList = n0.toList)
    (hnew : Finder.new n0 c0 = .ok tw c0') (pre : Option Pre)
    (hsound : ∀ p, pre = some p → ∀ h' : Slice, h'.Valid → ∀ c, ∃ r c', p.strat h' c = .ok r c' ∧
      ∀ q, Spec.OccAt h'.toArray n.toArray q → ∃ a, r = some a ∧ a ≤ q)
    (hcost : ∀ p, pre = some p → StratCost p.strat) (c : Ctr) :
    ∃ pre' c', Finder.findWithPrefilter tw pre hay n c =
        .ok (Spec.leftmost hay.toArray n.toArray, pre') c' ∧
      c'.steps ≤ c.steps + 1031 * Fallback.scanned (Spec.leftmost hay.toArray n.toArray) hay.len +
        2 * n.len + 1022 := by
  obtain ⟨tw2, c2, e2, hcert⟩ := cert_fwd n0 hn0 c0
  rw [hnew] at e2
  simp only [Res.ok.injEq] at e2
  obtain ⟨rfl, rfl⟩ := e2
  obtain ⟨pre', c', e⟩ := find_ok_of_cert n0 n hay tw c0 c0' hn0 hn hh hbytes hnew hcert pre hsound c
  refine ⟨pre', c', e, ?_⟩
  cases pre with
  | none =>
    obtain ⟨k, ek, _, hk⟩ := findWithPrefilter_costs n0 n hay tw c0 c0' hn0 hn hh hbytes hnew
      (fun _ => pure none) stratCost_none none (fun p hp => by cases hp) c _ c' e
    dsimp only at hk
    omega
  | some p =>
    obtain ⟨k, ek, _, hk⟩ := findWithPrefilter_costs n0 n hay tw c0 c0' hn0 hn hh hbytes hnew
      p.strat (hcost p rfl) (some p) (fun p' hp' => by cases hp'; rfl) c _ c' e
    dsimp only at hk
    omega

end Memchr.Cost
