/-
`rfind_raw`: loop lemmas and the master theorem.
-/
import MemchrModel.Proofs.MemchrGenericLemmas

namespace Memchr.Generic

open Memchr

variable {V : VecImpl}

theorem revLoop1_spec (L : Lawful V) (ns : Needles) (m : Mem) (start hi cur : Nat) (c : Ctr)
    (hb : m.base ≤ start) (hsc : start ≤ cur) (hch : cur ≤ hi) (hle : start + V.bytes ≤ hi)
    (he : hi ≤ m.base + m.bytes.size) (hno : NoHit m ns.confirm cur hi) :
    ∃ r c', revLoop1 V ns m start cur c = .ok r c' ∧ LastRes m ns.confirm start hi r := by
  fun_induction revLoop1 V ns m start cur generalizing c with
  | case1 cur h ih =>
    have hd := Mem.distance_ok m "rfind_raw: cur.distance(start)" cur start hb (by omega)
      (by omega)
    have hda : decide (cur - start ≥ V.bytes) = true := by simp; omega
    have hps := Mem.psub_ok m "rfind_raw: cur.sub(V::BYTES)" cur V.bytes (by omega) (by omega)
    obtain ⟨r, c1, hrun, hres⟩ := searchChunk_last L ns m (cur - V.bytes) c (by omega) (by omega)
    have e : cur - V.bytes + V.bytes = cur := by omega
    rw [e] at hres
    simp only [hd, pure_bind', dbgAssert_ok _ hda, hps, bind_ok hrun]
    cases r with
    | some p =>
      exact ⟨some p, c1, rfl, hres.extend hno (Nat.le_refl _) hch (by omega)⟩
    | none =>
      exact ih c1 (by omega) (by omega) (NoHit.union hres hno (Nat.le_refl _))
  | case2 cur h h2 =>
    have hd := Mem.distance_ok m "rfind_raw: cur.distance(start) (head)" cur start hb (by omega)
      (by omega)
    have hda : decide (cur - start < V.bytes) = true := by simp; omega
    obtain ⟨r, c1, hrun, hres⟩ := searchChunk_last L ns m start c hb (by omega)
    simp only [hd, pure_bind', dbgAssert_ok _ hda]
    refine ⟨r, c1, hrun, ?_⟩
    cases r with
    | some p => exact hres.extend hno (by omega) hle (Nat.le_refl _)
    | none => exact NoHit.union hres hno (by omega)
  | case3 cur h h2 =>
    have : cur = start := by omega
    subst this
    exact ⟨none, c, rfl, hno⟩

theorem revLoopN_spec (L : Lawful V) (ns : Needles) (u : Nat) (hu : 0 < u) (m : Mem)
    (start hi cur : Nat) (c : Ctr)
    (hb : m.base ≤ start) (hsc : start ≤ cur) (hch : cur ≤ hi) (hle : start + V.bytes ≤ hi)
    (hal : cur % V.bytes = 0)
    (he : hi ≤ m.base + m.bytes.size) (hno : NoHit m ns.confirm cur hi) :
    ∃ r c', revLoopN V ns u hu m start cur c = .ok r c' ∧ LastRes m ns.confirm start hi r := by
  fun_induction revLoopN V ns u hu m start cur generalizing c with
  | case1 cur h ih =>
    have hda : (cur % V.bytes == 0) = true := by simp [hal]
    have hps := Mem.psub_ok m "rfind_raw: cur.sub(Self::LOOP_SIZE)" cur (u * V.bytes)
      (by omega) (by omega)
    have hal' : (cur - u * V.bytes) % V.bytes = 0 := by
      rw [Nat.mul_comm, Nat.sub_mul_mod (by rw [Nat.mul_comm]; omega)]; exact hal
    obtain ⟨r, c1, hbl, hres⟩ := block_last L ns u m (cur - u * V.bytes) c (by omega) (by omega)
      (fun _ => hal')
    have e : cur - u * V.bytes + u * V.bytes = cur := by omega
    rw [e] at hres
    simp only [dbgAssert_ok _ hda, pure_bind', hps, bind_ok hbl]
    cases r with
    | some p =>
      exact ⟨some p, c1, rfl, hres.extend hno (Nat.le_refl _) hch (by omega)⟩
    | none =>
      exact ih c1 (by omega) (by omega) hal' (NoHit.union hres hno (Nat.le_refl _))
  | case2 cur h =>
    exact revLoop1_spec L ns m start hi cur c hb hsc hch hle he hno

theorem rfindRaw_spec (L : Lawful V) (ns : Needles) (u : Nat) (hu : 0 < u)
    (m : Mem) (start end_ : Nat) (c : Ctr)
    (hs : m.base ≤ start) (he : end_ ≤ m.base + m.bytes.size) (hlen : start + V.bytes ≤ end_) :
    ∃ r c', rfindRaw V ns u hu m start end_ c = .ok r c' ∧
      LastRes m ns.confirm start end_ r := by
  have hpos := V.bytes_pos
  have hmod : end_ % V.bytes < V.bytes := Nat.mod_lt _ hpos
  have hda1 : decide (V.bytes ≤ 32) = true := by simp [L.bytes_le]
  have hd := Mem.distance_ok m "rfind_raw: end.distance(start)" end_ start hs (by omega) he
  have hda2 : decide (end_ - start ≥ V.bytes) = true := by simp; omega
  have hps := Mem.psub_ok m "rfind_raw: end.sub(V::BYTES)" end_ V.bytes (by omega) he
  obtain ⟨r, c1, hsc, hres⟩ := searchChunk_last L ns m (end_ - V.bytes) c (by omega) (by omega)
  have e : end_ - V.bytes + V.bytes = end_ := by omega
  rw [e] at hres
  unfold rfindRaw
  simp only [dbgAssert_ok _ hda1, pure_bind', hd, dbgAssert_ok _ hda2, hps, bind_ok hsc]
  cases r with
  | some p =>
    exact ⟨some p, c1, rfl,
      hres.extend (NoHit.empty m _ (Nat.le_refl end_)) (Nat.le_refl _) (Nat.le_refl _) (by omega)⟩
  | none =>
    have hps2 := Mem.psub_ok m "rfind_raw: end.sub(end & V::ALIGN)" end_ (end_ &&& V.align)
      (by rw [and_align L]; omega) he
    have hda3 : (decide (start ≤ end_ - (end_ &&& V.align)) &&
        decide (end_ - (end_ &&& V.align) ≤ end_)) = true := by
      rw [and_align L]; simp; omega
    have hpa := Mem.padd_ok m "rfind_raw: start.add(V::BYTES)" start V.bytes hs (by omega)
    have hal : (end_ - (end_ &&& V.align)) % V.bytes = 0 := by
      rw [and_align L]; exact align_down_mod _ _
    have hno : NoHit m ns.confirm (end_ - (end_ &&& V.align)) end_ := by
      apply NoHit.mono hres _ (Nat.le_refl _)
      rw [and_align L]; omega
    have hcur1 : start ≤ end_ - (end_ &&& V.align) := by rw [and_align L]; omega
    have hcur2 : end_ - (end_ &&& V.align) ≤ end_ := by omega
    simp only [hps2, pure_bind', dbgAssert_ok _ hda3, hpa]
    by_cases hbig : end_ - start ≥ u * V.bytes
    · have hpa2 := Mem.padd_ok m "rfind_raw: start.add(Self::LOOP_SIZE)" start (u * V.bytes)
        hs (by omega)
      simp only [hbig, if_true, hpa2, pure_bind']
      exact revLoopN_spec L ns u hu m start end_ _ c1 hs hcur1 hcur2 hlen hal he hno
    · simp only [hbig, if_false]
      exact revLoop1_spec L ns m start end_ _ c1 hs hcur1 hcur2 hlen he hno

end Memchr.Generic
