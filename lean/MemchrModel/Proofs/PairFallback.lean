/-
The architecture independent packed-pair prefilter (`packedpair::Finder::find_prefilter`):
property C11.

Given a correct `memchr` (`Fallback.MemchrOk`), `find_prefilter` never faults, returns exactly
the least *candidate* offset (an offset `q` with `hay[q + index1] = byte1` and
`hay[q + index2] = byte2`, both in range), `None` iff there is no candidate, and costs a
number of steps linear in the haystack length.  Every occurrence of the needle is a candidate,
so the prefilter has no false negatives.
-/
import MemchrModel.Proofs.Pair
import MemchrModel.Proofs.IsEqualLemmas
import MemchrModel.Spec.Substr

namespace Memchr.Fallback

open Memchr

/-! ### candidates -/

/-- offset `q` passes the two-byte predicate of the finder -/
def Cand (b1 b2 : UInt8) (i1 i2 : Nat) (hay : Slice) (q : Nat) : Prop :=
  q + i1 < hay.len ∧ hay.getD (q + i1) = b1 ∧ q + i2 < hay.len ∧ hay.getD (q + i2) = b2

/-- `r` is the least candidate, if any -/
def PreRes (b1 b2 : UInt8) (i1 i2 : Nat) (hay : Slice) : Option Nat → Prop
  | none => ∀ q, ¬ Cand b1 b2 i1 i2 hay q
  | some a => Cand b1 b2 i1 i2 hay a ∧ ∀ q, Cand b1 b2 i1 i2 hay q → a ≤ q

/-- the cost bound of the loop started at `i` with `n = hay.len - i` bytes left -/
def loopCost (K n : Nat) : Nat := (K + 2) * n + K + 1

theorem loopCost_step (K n k : Nat) (h : k + 1 ≤ n) :
    1 + (k + 1) + K + loopCost K (n - (k + 1)) ≤ loopCost K n := by
  unfold loopCost
  obtain ⟨m, rfl⟩ : ∃ m, n = m + (k + 1) := ⟨n - (k + 1), by omega⟩
  have e : m + (k + 1) - (k + 1) = m := by omega
  rw [e, Nat.mul_add, Nat.mul_succ]
  have := Nat.le_mul_of_pos_left (n := K + 2) k (by omega)
  omega

theorem loopCost_ret (K n k : Nat) (h : k + 1 ≤ n) : 1 + (k + 1) + K ≤ loopCost K n := by
  have := loopCost_step K n k h
  omega

theorem loopCost_none (K n : Nat) : 1 + n + K ≤ loopCost K n := by
  unfold loopCost
  have := Nat.le_mul_of_pos_left (n := K + 2) n (by omega)
  omega

/-! ### sub-slices -/

theorem drop_ok (s : Slice) (site : String) {i : Nat} (h : i ≤ s.len) :
    s.drop site i = pure ⟨s.mem, s.off + i, s.len - i⟩ := by
  simp [Slice.drop, h]

theorem drop_valid {s : Slice} (hv : s.Valid) {i : Nat} (h : i ≤ s.len) :
    Slice.Valid ⟨s.mem, s.off + i, s.len - i⟩ := by
  unfold Slice.Valid at *
  show s.off + i + (s.len - i) ≤ s.mem.bytes.size
  omega

theorem drop_getD (s : Slice) (i k : Nat) :
    Slice.getD ⟨s.mem, s.off + i, s.len - i⟩ k = s.getD (i + k) := by
  simp only [Slice.getD, Nat.add_assoc]

/-- what a correct `memchr` says about `&haystack[i..]` -/
theorem firstIdx_drop_some {s : Slice} {i k : Nat} {b : UInt8}
    (h : Spec.firstIdx (· == b) (Slice.toList ⟨s.mem, s.off + i, s.len - i⟩) = some k) :
    k < s.len - i ∧ s.getD (i + k) = b ∧ ∀ j, j < k → s.getD (i + j) ≠ b := by
  rw [Spec.firstIdx_eq_some_iff] at h
  obtain ⟨hk, hp, hn⟩ := h
  have hk' : k < s.len - i := by simpa using hk
  refine ⟨hk', ?_, ?_⟩
  · rw [Slice.toList_getElem, drop_getD] at hp
    simpa using hp
  · intro j hj
    have := hn j hj
    rw [Slice.toList_getElem, drop_getD] at this
    simpa using this

theorem firstIdx_drop_none {s : Slice} {i : Nat} {b : UInt8}
    (h : Spec.firstIdx (· == b) (Slice.toList ⟨s.mem, s.off + i, s.len - i⟩) = none) :
    ∀ j, i ≤ j → j < s.len → s.getD j ≠ b := by
  rw [Spec.firstIdx_eq_none_iff] at h
  intro j h1 h2
  have hj : j - i < (Slice.toList ⟨s.mem, s.off + i, s.len - i⟩).length := by
    simp; omega
  have := h _ (List.getElem_mem hj)
  rw [Slice.toList_getElem, drop_getD] at this
  have e : i + (j - i) = j := by omega
  rw [e] at this
  simpa using this

/-! ### the loop -/

theorem get?_eq (s : Slice) (i : Nat) :
    s.get? i = if i < s.len then some (s.getD i) else none := rfl

/-- Loop invariant: every candidate `q` has `i ≤ q + index1` (its first byte has not been
skipped) and `i ≤ hay.len` (so `&haystack[i..]` does not panic). -/
theorem findPrefilterLoop_correct {memchr : UInt8 → Slice → M (Option Nat)} {K : Nat}
    (hm : MemchrOk memchr K) (f : Finder) (hay : Slice) (hv : hay.Valid)
    (index1 index2 i : Nat) (c : Ctr) (hi : i ≤ hay.len)
    (hinv : ∀ q, Cand f.byte1 f.byte2 index1 index2 hay q → i ≤ q + index1) :
    ∃ r c', findPrefilterLoop memchr f hay index1 index2 i c = .ok r c' ∧
      PreRes f.byte1 f.byte2 index1 index2 hay r ∧
      c'.steps ≤ c.steps + loopCost K (hay.len - i) := by
  fun_induction findPrefilterLoop memchr f hay index1 index2 i generalizing c with
  | case2 i hgt => exact absurd hi hgt
  | case1 i _ ihA =>
    obtain ⟨c2, hmem, hcost⟩ := hm f.byte1 ⟨hay.mem, hay.off + i, hay.len - i⟩
      { c with steps := c.steps + 1 } (drop_valid hv hi)
    simp only [bind, drop_ok hay _ hi, pure]
    have hrun : ∀ (g : Option Nat → M (Option Nat)),
        M.bind (tick 1) (fun _ => M.bind (M.pure (⟨hay.mem, hay.off + i, hay.len - i⟩ : Slice))
          (fun sub => M.bind (memchr f.byte1 sub) g)) c =
        g (Spec.firstIdx (· == f.byte1) (Slice.toList ⟨hay.mem, hay.off + i, hay.len - i⟩)) c2 := by
      intro g
      simp only [M.bind, tick_run, M.pure, hmem]
    rw [hrun]
    cases hfi : Spec.firstIdx (· == f.byte1) (Slice.toList ⟨hay.mem, hay.off + i, hay.len - i⟩) with
    | none =>
      rw [hfi] at hcost
      have hno := firstIdx_drop_none hfi
      refine ⟨none, c2, rfl, ?_, ?_⟩
      · intro q hq
        exact hno (q + index1) (hinv q hq) hq.1 hq.2.1
      · have := loopCost_none K (hay.len - i)
        simp only [scanned] at hcost
        show c2.steps ≤ c.steps + _
        have e : ({ c with steps := c.steps + 1 } : Ctr).steps = c.steps + 1 := rfl
        omega
    | some k =>
      rw [hfi] at hcost
      obtain ⟨hk, hbyte, hfirst⟩ := firstIdx_drop_some hfi
      have e : ({ c with steps := c.steps + 1 } : Ctr).steps = c.steps + 1 := rfl
      simp only [scanned] at hcost
      -- every candidate starts at or after the byte found
      have hge : ∀ q, Cand f.byte1 f.byte2 index1 index2 hay q → i + k ≤ q + index1 := by
        intro q hq
        have h1 := hinv q hq
        by_cases hlt : q + index1 < i + k
        · have := hfirst (q + index1 - i) (by omega)
          have e' : i + (q + index1 - i) = q + index1 := by omega
          rw [e'] at this
          exact absurd hq.2.1 this
        · omega
      -- the `continue` branches: no candidate is aligned with the byte found
      have hcont : (∀ q, Cand f.byte1 f.byte2 index1 index2 hay q → q + index1 ≠ i + k) →
          ∃ r c', findPrefilterLoop memchr f hay index1 index2 (i + k + 1) c2 = .ok r c' ∧
            PreRes f.byte1 f.byte2 index1 index2 hay r ∧
            c'.steps ≤ c.steps + loopCost K (hay.len - i) := by
        intro hne
        obtain ⟨r, c', h1, h2, h3⟩ := ihA k c2 (by omega) (fun q hq => by
          have := hge q hq; have := hne q hq; omega)
        refine ⟨r, c', h1, h2, ?_⟩
        have := loopCost_step K (hay.len - i) k (by omega)
        have e2 : hay.len - (i + k + 1) = hay.len - i - (k + 1) := by omega
        rw [e2] at h3
        omega
      dsimp only
      by_cases hsub : i + k < index1
      · simp only [hsub, if_true]
        exact hcont (fun q hq => by omega)
      · simp only [hsub, if_false, get?_eq]
        by_cases hin : i + k - index1 + index2 < hay.len
        · simp only [hin, if_true]
          by_cases hb : hay.getD (i + k - index1 + index2) = f.byte2
          · have hbne : (hay.getD (i + k - index1 + index2) != f.byte2) = false := by
              simp [hb]
            simp only [hbne, Bool.false_eq_true, if_false]
            refine ⟨some (i + k - index1), c2, rfl, ⟨⟨?_, ?_, hin, hb⟩, ?_⟩, ?_⟩
            · omega
            · have e' : i + k - index1 + index1 = i + k := by omega
              rw [e']; exact hbyte
            · intro q hq
              have := hge q hq; omega
            · have := loopCost_ret K (hay.len - i) k (by omega)
              omega
          · have hbne : (hay.getD (i + k - index1 + index2) != f.byte2) = true := by
              simp [hb]
            simp only [hbne, if_true]
            refine hcont (fun q hq hqe => hb ?_)
            have e' : q = i + k - index1 := by omega
            rw [← e']; exact hq.2.2.2
        · simp only [hin, if_false]
          refine hcont (fun q hq hqe => hin ?_)
          have e' : q = i + k - index1 := by omega
          rw [← e']; exact hq.2.2.1

/-! ### master theorems -/

theorem specMemchr_ok : MemchrOk specMemchr 0 := by
  intro b s c _
  exact ⟨c, rfl, by omega⟩

/-- **C11 (exact form)** `find_prefilter(haystack)`, for every finder and every valid
haystack, given a correct `memchr`: no fault (`&haystack[i..]` never panics), the answer is the
least candidate offset (`None` iff there is none), and the cost is at most
`(K + 2) * haystack.len() + K + 1` steps. -/
theorem findPrefilter_correct {memchr : UInt8 → Slice → M (Option Nat)} {K : Nat}
    (hm : MemchrOk memchr K) (f : Finder) (hay : Slice) (hv : hay.Valid) (c : Ctr) :
    ∃ r c', findPrefilter memchr f hay c = .ok r c' ∧
      PreRes f.byte1 f.byte2 f.pair.index1.toNat f.pair.index2.toNat hay r ∧
      c'.steps ≤ c.steps + (K + 2) * hay.len + K + 1 := by
  obtain ⟨r, c', h1, h2, h3⟩ := findPrefilterLoop_correct hm f hay hv
    f.pair.index1.toNat f.pair.index2.toNat 0 c (Nat.zero_le _) (fun _ _ => Nat.zero_le _)
  refine ⟨r, c', h1, h2, ?_⟩
  simp only [loopCost, Nat.sub_zero] at h3
  omega

/-- `Finder::with_pair(needle, pair)` for a pair that is valid for the needle: `needle[index]`
does not panic. -/
theorem withPair_ok (needle : Slice) (p : Pair) (hp : p.ValidFor needle) (c : Ctr) :
    withPair needle p c =
      .ok (some ⟨p, needle.getD p.index1.toNat, needle.getD p.index2.toNat⟩) c := by
  simp [withPair, Slice.get, hp.lt1, hp.lt2, bind, M.bind, pure, M.pure]

/-- `Finder::with_pair(needle, pair)` for ANY pair (e.g. one selected on another, longer
needle): it either builds the finder or panics on the bounds-checked `needle[index]`; it
panics exactly when an offset lies outside the needle, and in both cases the counter (hence
the load trace) is untouched: nothing outside the needle is ever read. -/
theorem withPair_total (needle : Slice) (p : Pair) (c : Ctr) :
    (p.index1.toNat < needle.len ∧ p.index2.toNat < needle.len ∧
      withPair needle p c =
        .ok (some ⟨p, needle.getD p.index1.toNat, needle.getD p.index2.toNat⟩) c) ∨
    ((¬ (p.index1.toNat < needle.len ∧ p.index2.toNat < needle.len)) ∧
      ∃ site, withPair needle p c = .fault (.panic site)) := by
  by_cases h1 : p.index1.toNat < needle.len
  · by_cases h2 : p.index2.toNat < needle.len
    · left
      exact ⟨h1, h2, by simp [withPair, Slice.get, h1, h2, bind, M.bind, pure, M.pure]⟩
    · right
      exact ⟨fun h => h2 h.2, "with_pair: needle[usize::from(pair.index2())]",
        by simp [withPair, Slice.get, h1, h2, bind, M.bind, pure, M.pure, fail]⟩
  · right
    exact ⟨fun h => h1 h.1, "with_pair: needle[usize::from(pair.index1())]",
      by simp [withPair, Slice.get, h1, bind, M.bind, fail]⟩

/-- `Finder::new(needle)`: `None` iff the needle is shorter than 2, no fault. -/
theorem Finder.new_correct (needle : Slice) (c : Ctr) :
    ∃ r c', Finder.new needle c = .ok r c' ∧ (r = none ↔ needle.len < 2) ∧
      (∀ f, r = some f → f.pair.ValidFor needle ∧
        f.byte1 = needle.getD f.pair.index1.toNat ∧ f.byte2 = needle.getD f.pair.index2.toNat) ∧
      c'.steps ≤ c.steps + min needle.len 255 := by
  obtain ⟨r, c', h1, h2, h3, h4, _⟩ := Pair.new_correct needle c
  unfold Finder.new
  cases r with
  | none =>
    refine ⟨none, c', by simp [bind, M.bind, h1, pure, M.pure], ?_, by simp, h4⟩
    simpa using h2
  | some p =>
    have hp := (h3 p rfl).1
    refine ⟨_, c', by simp only [bind, M.bind, h1]; exact withPair_ok needle p hp c', ?_, ?_, h4⟩
    · have : ¬ needle.len < 2 := fun h => by have := h2.mpr h; cases this
      simp [this]
    · intro f hf
      cases hf
      exact ⟨hp, rfl, rfl⟩

/-- every occurrence of the needle is a candidate -/
theorem cand_of_occAt {needle hay : Slice} (hvn : needle.Valid) (hvh : hay.Valid) {p : Pair}
    (hp : p.ValidFor needle) {q : Nat} (h : Spec.OccAt hay.toArray needle.toArray q) :
    Cand (needle.getD p.index1.toNat) (needle.getD p.index2.toNat) p.index1.toNat
      p.index2.toNat hay q := by
  obtain ⟨h1, h2⟩ := h
  rw [Slice.toArray_size hvh, Slice.toArray_size hvn] at h1
  rw [Slice.toArray_size hvn] at h2
  have key : ∀ k, k < needle.len → q + k < hay.len ∧ hay.getD (q + k) = needle.getD k := by
    intro k hk
    have := h2 k hk
    rw [Slice.toArray_getElem? hvh (q + k) (by omega), Slice.toArray_getElem? hvn k hk] at this
    exact ⟨by omega, Option.some.inj this⟩
  exact ⟨(key _ hp.lt1).1, (key _ hp.lt1).2, (key _ hp.lt2).1, (key _ hp.lt2).2⟩

/-- **C11** The portable packed-pair prefilter built by `Finder::with_pair(needle, pair)` from a
pair valid for the needle (as `Pair::new`, `Pair::with_ranker`, `Pair::with_indices` return),
run on any valid haystack, given a correct `memchr`:
(a) neither the construction nor the search faults;
(b) an answer `Some(a)` satisfies `hay[a + index1] = needle[index1]` and
    `hay[a + index2] = needle[index2]`, both in range;
(c) if the needle occurs at `q` the answer is `Some(a)` with `a <= q`; hence `None` implies
    that the needle does not occur;
(d) at most `(K + 2) * haystack.len() + K + 1` steps. -/
theorem findPrefilter_sound {memchr : UInt8 → Slice → M (Option Nat)} {K : Nat}
    (hm : MemchrOk memchr K) (needle hay : Slice) (hvn : needle.Valid) (hvh : hay.Valid)
    (p : Pair) (hp : p.ValidFor needle) (c : Ctr) :
    ∃ f r c', withPair needle p c = .ok (some f) c ∧
      findPrefilter memchr f hay c = .ok r c' ∧
      (∀ a, r = some a →
        a + p.index1.toNat < hay.len ∧
        hay.getD (a + p.index1.toNat) = needle.getD p.index1.toNat ∧
        a + p.index2.toNat < hay.len ∧
        hay.getD (a + p.index2.toNat) = needle.getD p.index2.toNat) ∧
      (∀ q, Spec.OccAt hay.toArray needle.toArray q → ∃ a, r = some a ∧ a ≤ q) ∧
      (r = none → ∀ q, ¬ Spec.OccAt hay.toArray needle.toArray q) ∧
      c'.steps ≤ c.steps + (K + 2) * hay.len + K + 1 := by
  obtain ⟨r, c', h1, h2, h3⟩ := findPrefilter_correct hm
    ⟨p, needle.getD p.index1.toNat, needle.getD p.index2.toNat⟩ hay hvh c
  refine ⟨_, r, c', withPair_ok needle p hp c, h1, ?_, ?_, ?_, h3⟩
  · intro a ha
    subst ha
    exact h2.1
  · intro q hq
    have hc := cand_of_occAt hvn hvh hp hq
    cases r with
    | none => exact absurd hc (h2 q)
    | some a => exact ⟨a, rfl, h2.2 q hc⟩
  · intro hr q hq
    subst hr
    exact h2 q (cand_of_occAt hvn hvh hp hq)

/-- the hypotheses of `findPrefilter_sound` are satisfiable: needle `"abcab"` with the pair
`(2, 0)` in the haystack `"xxabcabxx"` -/
example : ∃ f r c', withPair (Slice.ofMem ⟨1, 64, #[97, 98, 99, 97, 98]⟩) ⟨2, 0⟩ {} =
      .ok (some f) {} ∧
    findPrefilter specMemchr f (Slice.ofMem ⟨0, 4096, #[120, 120, 97, 98, 99, 97, 98, 120, 120]⟩)
      {} = .ok r c' ∧ (∀ q, Spec.OccAt
        (Slice.ofMem ⟨0, 4096, #[120, 120, 97, 98, 99, 97, 98, 120, 120]⟩).toArray
        (Slice.ofMem ⟨1, 64, #[97, 98, 99, 97, 98]⟩).toArray q → ∃ a, r = some a ∧ a ≤ q) := by
  obtain ⟨f, r, c', h1, h2, _, h4, _⟩ := findPrefilter_sound specMemchr_ok
    (Slice.ofMem ⟨1, 64, #[97, 98, 99, 97, 98]⟩)
    (Slice.ofMem ⟨0, 4096, #[120, 120, 97, 98, 99, 97, 98, 120, 120]⟩)
    (Nat.le_of_eq (Nat.zero_add _)) (Nat.le_of_eq (Nat.zero_add _)) ⟨2, 0⟩
    ⟨by decide, by decide, by decide⟩ {}
  exact ⟨f, r, c', h1, h2, h4⟩

end Memchr.Fallback
