/-
Vector / mask layer for the generic `memchr` proofs.

Every boolean vector that the algorithms build from a chunk loaded at address `a` is, as a
list of lanes, equal to the canonical vector `bvec n f` for a lane predicate `f`; every mask
built from such vectors represents the same predicate through `L.bit` (`MaskRep`).
-/
import MemchrModel.Base.Lemmas
import MemchrModel.Spec.Byte
import MemchrModel.Model.MemchrGeneric

namespace Memchr.Generic

open Memchr

/-- canonical boolean vector with lane predicate `f` -/
def bvec (n : Nat) (f : Nat → Bool) : Vec :=
  (List.range n).map (fun i => if f i then 0xFF else 0x00)

@[simp] theorem bvec_length (n : Nat) (f : Nat → Bool) : (bvec n f).length = n := by
  simp [bvec]

theorem bvec_isBool (n : Nat) (f : Nat → Bool) : Vec.IsBool (bvec n f) := by
  intro x hx
  simp only [bvec, List.mem_map, List.mem_range] at hx
  obtain ⟨i, _, rfl⟩ := hx
  cases f i <;> simp

theorem bvec_lane (n : Nat) (f : Nat → Bool) (i : Nat) (h : i < n) :
    Vec.lane (bvec n f) i = f i := by
  simp only [Vec.lane, bvec, List.getElem?_map, List.getElem?_range h, Option.map_some]
  cases f i <;> decide

theorem bvec_congr (n : Nat) (f g : Nat → Bool) (h : ∀ i, i < n → f i = g i) :
    bvec n f = bvec n g := by
  unfold bvec
  apply List.map_congr_left
  intro i hi
  rw [h i (List.mem_range.mp hi)]

theorem splat_eq_map (n : Nat) (b : UInt8) : Vec.splat n b = (List.range n).map (fun _ => b) := by
  simp [Vec.splat, List.map_const']

theorem cmpeq_splat_window (m : Mem) (a n : Nat) (b : UInt8) :
    Vec.cmpeq (Vec.splat n b) (m.window a n) = bvec n (fun i => m.byteAt (a + i) == b) := by
  rw [splat_eq_map]
  unfold Vec.cmpeq Mem.window bvec
  rw [List.zipWith_map, List.zipWith_self]
  apply List.map_congr_left
  intro i _
  by_cases h : m.byteAt (a + i) = b
  · simp [h]
  · have h' : ¬ b = m.byteAt (a + i) := fun e => h e.symm
    simp [h, h']

theorem or_bvec (n : Nat) (f g : Nat → Bool) :
    Vec.or (bvec n f) (bvec n g) = bvec n (fun i => f i || g i) := by
  unfold Vec.or bvec
  rw [List.zipWith_map, List.zipWith_self]
  apply List.map_congr_left
  intro i _
  cases hf : f i <;> cases hg : g i <;> simp [hf, hg]

theorem splat_zero_eq (n : Nat) : Vec.splat n 0 = bvec n (fun _ => false) := by
  rw [splat_eq_map]; simp [bvec]

/-! ### needle predicate of a chunk -/

/-- "the byte at `a + i` is one of the needles" -/
def hitF (m : Mem) (p : UInt8 → Bool) (a : Nat) : Nat → Bool := fun i => p (m.byteAt (a + i))

variable (V : VecImpl)

theorem foldl_or_rest (m : Mem) (a : Nat) (rest : List UInt8) (g : Nat → Bool) :
    (rest.map (fun n => bvec V.bytes (fun i => m.byteAt (a + i) == n))).foldl Vec.or
        (bvec V.bytes g)
      = bvec V.bytes (fun i => g i || rest.contains (m.byteAt (a + i))) := by
  induction rest generalizing g with
  | nil => simp
  | cons r rest ih =>
    simp only [List.map_cons, List.foldl_cons, or_bvec]
    rw [ih]
    apply bvec_congr
    intro i _
    by_cases h : m.byteAt (a + i) = r
    · simp [h]
    · simp [h, beq_eq_false_iff_ne.mpr h]

theorem chunkOr_eq (ns : Needles) (m : Mem) (a : Nat) :
    chunkOr (chunkEqs V ns (m.window a V.bytes)) = bvec V.bytes (hitF m ns.confirm a) := by
  simp only [chunkOr, chunkEqs, cmpeq_splat_window]
  rw [foldl_or_rest]
  apply bvec_congr
  intro i _
  by_cases h : m.byteAt (a + i) = ns.first <;> simp [h, hitF, Needles.confirm, Needles.toList]

/-! ### masks -/

variable {V}

/-- mask `mk` is well formed and its lanes below `V.bytes` are `f` -/
def MaskRep (L : Lawful V) (mk : V.Mask) (f : Nat → Bool) : Prop :=
  L.wf mk ∧ ∀ i, i < V.bytes → L.bit mk i = f i

theorem MaskRep.movemask (L : Lawful V) (f : Nat → Bool) :
    MaskRep L (V.movemask (bvec V.bytes f)) f := by
  refine ⟨L.movemask_wf _ (bvec_length _ _) (bvec_isBool _ _), ?_⟩
  intro i hi
  rw [L.movemask_bit _ i (bvec_length _ _) (bvec_isBool _ _) hi, bvec_lane _ _ _ hi]

theorem MaskRep.mor {L : Lawful V} {a b : V.Mask} {f g : Nat → Bool}
    (ha : MaskRep L a f) (hb : MaskRep L b g) : MaskRep L (V.mor a b) (fun i => f i || g i) := by
  refine ⟨L.mor_wf _ _ ha.1 hb.1, ?_⟩
  intro i hi
  rw [L.mor_bit _ _ _ ha.1 hb.1, ha.2 i hi, hb.2 i hi]

theorem MaskRep.congr {L : Lawful V} {a : V.Mask} {f g : Nat → Bool}
    (ha : MaskRep L a f) (h : ∀ i, i < V.bytes → f i = g i) : MaskRep L a g :=
  ⟨ha.1, fun i hi => by rw [ha.2 i hi, h i hi]⟩

theorem MaskRep.hasNonZero_iff {L : Lawful V} {a : V.Mask} {f : Nat → Bool}
    (ha : MaskRep L a f) : V.hasNonZero a = true ↔ ∃ i, i < V.bytes ∧ f i = true := by
  rw [L.hasNonZero_iff _ ha.1]
  constructor
  · rintro ⟨i, hi⟩
    have hlt := L.bit_lt _ _ ha.1 hi
    exact ⟨i, hlt, by rw [← ha.2 i hlt]; exact hi⟩
  · rintro ⟨i, hlt, hi⟩
    exact ⟨i, by rw [ha.2 i hlt]; exact hi⟩

theorem MaskRep.firstOffset {L : Lawful V} {a : V.Mask} {f : Nat → Bool}
    (ha : MaskRep L a f) (hex : ∃ i, i < V.bytes ∧ f i = true) (c : Ctr) :
    ∃ k, V.firstOffset a c = .ok k c ∧ k < V.bytes ∧ f k = true ∧ ∀ j, j < k → f j = false := by
  obtain ⟨i, hlt, hi⟩ := hex
  obtain ⟨k, hrun, hk, hmin⟩ := L.firstOffset_spec a c ha.1 ⟨i, by rw [ha.2 i hlt]; exact hi⟩
  have hklt := L.bit_lt _ _ ha.1 hk
  refine ⟨k, hrun, hklt, by rw [← ha.2 k hklt]; exact hk, ?_⟩
  intro j hj
  rw [← ha.2 j (Nat.lt_trans hj hklt)]
  exact hmin j hj

theorem MaskRep.lastOffset {L : Lawful V} {a : V.Mask} {f : Nat → Bool}
    (ha : MaskRep L a f) (hex : ∃ i, i < V.bytes ∧ f i = true) (c : Ctr) :
    ∃ k, V.lastOffset a c = .ok k c ∧ k < V.bytes ∧ f k = true ∧
      ∀ j, k < j → j < V.bytes → f j = false := by
  obtain ⟨i, hlt, hi⟩ := hex
  obtain ⟨k, hrun, hk, hmax⟩ := L.lastOffset_spec a c ha.1 ⟨i, by rw [ha.2 i hlt]; exact hi⟩
  have hklt := L.bit_lt _ _ ha.1 hk
  refine ⟨k, hrun, hklt, by rw [← ha.2 k hklt]; exact hk, ?_⟩
  intro j hj hjlt
  rw [← ha.2 j hjlt]
  exact hmax j hj

theorem MaskRep.countOnes {L : Lawful V} {a : V.Mask} {f : Nat → Bool}
    (ha : MaskRep L a f) : V.countOnes a = ((List.range V.bytes).filter f).length := by
  rw [L.countOnes_eq _ ha.1]
  congr 1
  apply List.filter_congr
  intro i hi
  exact ha.2 i (List.mem_range.mp hi)

theorem foldl_mor_rest (L : Lawful V) (m : Mem) (a : Nat) (rest : List UInt8) (mk : V.Mask)
    (g : Nat → Bool) (hmk : MaskRep L mk g) :
    MaskRep L
      (((rest.map (fun n => bvec V.bytes (fun i => m.byteAt (a + i) == n))).map
        V.movemask).foldl V.mor mk)
      (fun i => g i || rest.contains (m.byteAt (a + i))) := by
  induction rest generalizing mk g with
  | nil => simpa using hmk
  | cons r rest ih =>
    simp only [List.map_cons, List.foldl_cons]
    refine (ih _ _ (hmk.mor (MaskRep.movemask L _))).congr ?_
    intro i _
    by_cases h : m.byteAt (a + i) = r
    · simp [h]
    · simp [h, beq_eq_false_iff_ne.mpr h]

theorem chunkMask_rep (L : Lawful V) (ns : Needles) (m : Mem) (a : Nat) :
    MaskRep L (chunkMask V (chunkEqs V ns (m.window a V.bytes))) (hitF m ns.confirm a) := by
  simp only [chunkMask, chunkEqs, cmpeq_splat_window]
  refine (foldl_mor_rest L m a ns.rest _ _ (MaskRep.movemask L _)).congr ?_
  intro i _
  by_cases h : m.byteAt (a + i) = ns.first <;> simp [h, hitF, Needles.confirm, Needles.toList]

end Memchr.Generic
