/-
`Lawful Neon.impl`: the aarch64 NEON `uint8x16_t` / `NeonMoveMask(u64)` operations described
through `bit m i := m.toNat.testBit (4 * i + 3)` on masks whose set bits are all at
positions `4i + 3` (`Wf`).

Sanity checks of the model (run with `lake env lean`):
```
open Memchr Memchr.Neon
def bv (l : List Nat) : Vec := (List.range 16).map (fun i => if l.contains i then 0xFF else 0)
#eval String.ofList (Nat.toDigits 16 (movemask (bv [0, 5, 15])).toNat)  -- "8000000000800008"
#eval willHaveNonZero (bv [15])                                          -- true
#eval willHaveNonZero (bv [])                                            -- false
#eval (allExceptLS 3 {}).val?.map (fun x => String.ofList (Nat.toDigits 16 x.toNat))
                                                                 -- some "ffffffffffffffe0"
#eval (allExceptLS 16 {}).val?                                           -- none (debug_assert)
#eval (firstOffset (movemask (bv [5, 15])) {}).val?                      -- some 5
#eval (lastOffset (movemask (bv [5, 15])) {}).val?                       -- some 15
#eval (firstOffset (movemask (bv [])) {}).val?                           -- some 16
#eval (lastOffset (movemask (bv [])) {}).val?                            -- none (16 - 16 - 1)
#eval impl.countOnes (movemask (bv [1, 2, 3, 4, 5, 15]))                 -- 6
```
-/
import MemchrModel.Base.Lemmas
import MemchrModel.Model.Neon
import MemchrModel.Proofs.NeonBits

namespace Memchr.Neon

open Memchr Bits

/-- well-formed NEON mask: every set bit is at a position `4i + 3`
(equivalently `m & !0x8888888888888888 == 0`; see `wf_iff_and_mask`) -/
def Wf (m : UInt64) : Prop := NibWf m.toNat

/-- lane `i` is set in mask `m` -/
def bit (m : UInt64) (i : Nat) : Bool := m.toNat.testBit (4 * i + 3)

theorem bit_lt (m : UInt64) (i : Nat) (hb : bit m i = true) : i < 16 := by
  have h1 := Nat.ge_two_pow_of_testBit hb
  have h2 : 2 ^ (4 * i + 3) < 2 ^ 64 := Nat.lt_of_le_of_lt h1 m.toNat_lt
  have := (Nat.pow_lt_pow_iff_right (by decide)).mp h2
  omega

/-- `Wf` is the same as "no bit outside `0x8888888888888888`". -/
theorem wf_iff_and_mask (m : UInt64) : Wf m ↔ m &&& maskConst = m := by
  constructor
  · intro hw
    apply UInt64.toNat_inj.mp
    rw [UInt64.toNat_and, maskConst_toNat]
    apply Nat.eq_of_testBit_eq
    intro j
    rw [Nat.testBit_and, maskNat_testBit]
    cases h : m.toNat.testBit j with
    | false => simp
    | true =>
      have h1 := hw j h
      have h2 : j < 64 :=
        (Nat.pow_lt_pow_iff_right (by decide)).mp
          (Nat.lt_of_le_of_lt (Nat.ge_two_pow_of_testBit h) m.toNat_lt)
      simp [h1, h2]
  · intro h
    unfold Wf; rw [← h, UInt64.toNat_and, maskConst_toNat]
    exact nibWf_and_right _ nibWf_maskNat

theorem exists_bit_of_ne_zero (m : UInt64) (hw : Wf m) (hne : m.toNat ≠ 0) :
    ∃ i, bit m i = true := by
  obtain ⟨j, hj⟩ := Nat.exists_testBit_of_ne_zero hne
  have := hw j hj
  refine ⟨j / 4, ?_⟩
  unfold bit
  have e : 4 * (j / 4) + 3 = j := by omega
  rw [e]; exact hj

theorem toNat_ne_zero_of_bit (m : UInt64) (hex : ∃ i, bit m i = true) : m.toNat ≠ 0 := by
  obtain ⟨i, hi⟩ := hex
  intro h0; simp [bit, h0] at hi

theorem ne_zero_iff (m : UInt64) (hw : Wf m) : (m != 0) = true ↔ ∃ i, bit m i = true := by
  constructor
  · intro h
    have hne : m.toNat ≠ 0 := by
      intro h0
      have : m = 0 := UInt64.toNat_inj.mp (by rw [h0]; rfl)
      simp [this] at h
    exact exists_bit_of_ne_zero m hw hne
  · intro hex
    have := toNat_ne_zero_of_bit m hex
    have : m ≠ 0 := by
      intro h0; subst h0; exact this rfl
    simpa using this

/-! ### `movemask` -/

theorem toNat_movemask (v : Vec) :
    (movemask v).toNat = (leNat (shrn4 (asU16s v)) % 2 ^ 64) &&& 0x8888888888888888 := by
  show ((leNat (shrn4 (asU16s v))).toUInt64 &&& maskConst).toNat = _
  rw [UInt64.toNat_and, maskConst_toNat]
  rfl

theorem movemask_wf (v : Vec) : Wf (movemask v) := by
  unfold Wf; rw [toNat_movemask]
  exact nibWf_and_right _ nibWf_maskNat

theorem movemask_bit (v : Vec) (i : Nat) (hv : v.length = 16) (hb : v.IsBool) (hi : i < 16) :
    bit (movemask v) i = v.lane i := by
  unfold bit Vec.lane
  rw [toNat_movemask, Nat.testBit_and, maskNat_testBit, Nat.testBit_mod_two_pow,
    narrowed_testBit v hb (by rw [hv])]
  have h1 : 4 * i + 3 < 64 := by omega
  have h2 : (4 * i + 3) % 4 = 3 := by omega
  simp [h1, h2]

/-! ### `movemask_will_have_non_zero` -/

theorem willHaveNonZero_iff_exists_ne (v : Vec) (hv : v.length = 16) :
    willHaveNonZero v = true ↔ ¬ ∀ x ∈ v, x = 0 := by
  have hlen : (pairMax v).length = 8 := by rw [pairMax_length, hv]
  have htake : (pmaxq v v).take 8 = pairMax v := List.take_left' hlen
  have hlt : leNat (pairMax v) < 2 ^ 64 := by
    have := leNat_lt (pairMax v); rw [hlen] at this; exact this
  have hto : (le64 (pairMax v)).toNat = leNat (pairMax v) := by
    show leNat (pairMax v) % 2 ^ 64 = _
    exact Nat.mod_eq_of_lt hlt
  have hz : le64 (pairMax v) = 0 ↔ ∀ x ∈ v, x = 0 := by
    rw [← pairMax_all_zero v (by rw [hv]), ← leNat_eq_zero, ← hto]
    constructor
    · intro h; rw [h]; rfl
    · intro h; exact UInt64.toNat_inj.mp (by rw [h]; rfl)
  show (le64 ((pmaxq v v).take 8) != 0) = true ↔ _
  rw [htake, ← hz]
  simp

theorem exists_lane_iff (v : Vec) (hv : v.length = 16) (hb : v.IsBool) :
    (∃ i, i < 16 ∧ v.lane i = true) ↔ ¬ ∀ x ∈ v, x = 0 := by
  constructor
  · intro ⟨i, _, hi⟩ hall
    unfold Vec.lane at hi
    have hi' : v[i]? = some 0xFF := by simpa using hi
    have := hall _ (List.mem_of_getElem? hi')
    exact absurd this (by decide)
  · intro hn
    have : ∃ x ∈ v, x ≠ 0 := by
      apply Classical.byContradiction
      intro hc; apply hn
      intro x hx
      apply Classical.byContradiction
      intro hx0; exact hc ⟨x, hx, hx0⟩
    obtain ⟨x, hx, hx0⟩ := this
    have hxff : x = 0xFF := by
      rcases hb x hx with h | h
      · exact absurd h hx0
      · exact h
    obtain ⟨i, hi, hget⟩ := List.getElem_of_mem hx
    refine ⟨i, by omega, ?_⟩
    unfold Vec.lane
    rw [List.getElem?_eq_getElem hi, hget, hxff]
    rfl

theorem will_iff (v : Vec) (hv : v.length = 16) (hb : v.IsBool) :
    willHaveNonZero v = true ↔ ∃ i, i < 16 ∧ v.lane i = true := by
  rw [willHaveNonZero_iff_exists_ne v hv, exists_lane_iff v hv hb]

/-! ### `and` / `or` -/

theorem mand_wf (a b : UInt64) (ha : Wf a) : Wf (a &&& b) := by
  unfold Wf; rw [UInt64.toNat_and]; exact nibWf_and_left _ ha

theorem mor_wf (a b : UInt64) (ha : Wf a) (hb : Wf b) : Wf (a ||| b) := by
  unfold Wf; rw [UInt64.toNat_or]; exact nibWf_or ha hb

theorem mor_bit (a b : UInt64) (i : Nat) : bit (a ||| b) i = (bit a i || bit b i) := by
  unfold bit; rw [UInt64.toNat_or, Nat.testBit_or]

theorem mand_bit (a b : UInt64) (i : Nat) : bit (a &&& b) i = (bit a i && bit b i) := by
  unfold bit; rw [UInt64.toNat_and, Nat.testBit_and]

/-! ### `count_ones` -/

theorem countOnes_eq (m : UInt64) (hw : Wf m) :
    popcount m.toNat = ((List.range 16).filter (bit m)).length :=
  popcount_nib m.toNat m.toNat_lt hw

/-! ### `first_offset` / `last_offset` -/

theorem firstOffset_spec (m : UInt64) (c : Ctr) (hw : Wf m) (hex : ∃ i, bit m i = true) :
    ∃ k, firstOffset m c = .ok k c ∧ bit m k = true ∧ ∀ j, j < k → bit m j = false := by
  obtain ⟨h1, h2⟩ := tz_nib m.toNat m.toNat_lt hw hex
  exact ⟨tz 64 m.toNat >>> 2, rfl, h1, h2⟩

theorem lastOffset_spec (m : UInt64) (c : Ctr) (hw : Wf m) (hex : ∃ i, bit m i = true) :
    ∃ k, lastOffset m c = .ok k c ∧ bit m k = true ∧ ∀ j, k < j → bit m j = false := by
  have hne := toNat_ne_zero_of_bit m hex
  obtain ⟨k, hk, hlen, ht, hl⟩ := bitLen_nib m.toNat m.toNat_lt hw hne
  refine ⟨k, ?_, ht, hl⟩
  have elz : lz 64 m.toNat >>> 2 = 15 - k := by
    unfold lz; rw [hlen, Nat.shiftRight_eq_div_pow]; omega
  have e1 : 15 - k ≤ 16 := by omega
  have e2 : 1 ≤ 16 - (15 - k) := by omega
  have e3 : 16 - (15 - k) - 1 = k := by omega
  unfold lastOffset
  simp only [M.bind_run, elz, csub_of_le _ e1, M.pure_run, csub_of_le _ e2, e3]

/-! ### `clear_least_significant_bit` -/

theorem clearLSB_spec (m : UInt64) (c : Ctr) (hw : Wf m) (hex : ∃ i, bit m i = true) :
    ∃ m', clearLSB m c = .ok m' c ∧ Wf m' ∧
      ∀ k, (bit m k = true ∧ ∀ j, j < k → bit m j = false) →
        ∀ i, bit m' i = (bit m i && i != k) := by
  have hnat := toNat_ne_zero_of_bit m hex
  have hne' : m ≠ 0 := by
    intro h0; subst h0; exact hnat rfl
  have h1 : (1 : UInt64) ≤ m := by
    rw [UInt64.le_iff_toNat_le]; show 1 ≤ m.toNat; omega
  have hsub : (m - 1).toNat = m.toNat - 1 := by
    rw [UInt64.toNat_sub_of_le _ _ h1]; rfl
  have hto : (m &&& (m - 1)).toNat = m.toNat &&& (m.toNat - 1) := by
    rw [UInt64.toNat_and, hsub]
  refine ⟨m &&& (m - 1), ?_, mand_wf m _ hw, ?_⟩
  · have : (m == 0) = false := by simpa using hne'
    simp [clearLSB, this]
  · intro k ⟨hk, hl⟩ i
    have hlow : ∀ j, j < 4 * k + 3 → m.toNat.testBit j = false := by
      intro j hj
      cases h : m.toNat.testBit j with
      | false => rfl
      | true =>
        have hm := hw j h
        have := hl (j / 4) (by omega)
        unfold bit at this
        have e : 4 * (j / 4) + 3 = j := by omega
        rw [e, h] at this
        exact absurd this (by decide)
    unfold bit; rw [hto, and_pred_testBit (4 * k + 3) m.toNat hk hlow (4 * i + 3)]
    by_cases hik : i = k
    · subst hik; simp
    · have hne : 4 * i + 3 ≠ 4 * k + 3 := by omega
      have e1 : (4 * i + 3 != 4 * k + 3) = true := bne_iff_ne.mpr hne
      have e2 : (i != k) = true := bne_iff_ne.mpr hik
      rw [e1, e2]

/-! ### `all_zeros_except_least_significant` -/

theorem toNat_allExceptLS_mask (n : Nat) (hn : n < 16) :
    (~~~ ((((1 : UInt64) <<< n.toUInt64) <<< 2) - 1)).toNat = 2 ^ 64 - 1 - (2 ^ (n + 2) - 1) := by
  have hn64 : n.toUInt64.toNat = n := by
    show n % 2 ^ 64 = n
    exact Nat.mod_eq_of_lt (by omega)
  have hpow : 2 ^ n < 2 ^ 64 := Nat.pow_lt_pow_right (by decide) (by omega)
  have hpow2 : 2 ^ (n + 2) < 2 ^ 64 := Nat.pow_lt_pow_right (by decide) (by omega)
  have hshl : ((1 : UInt64) <<< n.toUInt64).toNat = 2 ^ n := by
    rw [UInt64.toNat_shiftLeft, hn64, Nat.mod_eq_of_lt (by omega : n < 64)]
    show (1 <<< n) % 2 ^ 64 = 2 ^ n
    rw [Nat.one_shiftLeft, Nat.mod_eq_of_lt hpow]
  have hshl2 : (((1 : UInt64) <<< n.toUInt64) <<< 2).toNat = 2 ^ (n + 2) := by
    rw [UInt64.toNat_shiftLeft, hshl]
    show (2 ^ n <<< 2) % 2 ^ 64 = 2 ^ (n + 2)
    rw [Nat.shiftLeft_eq, ← Nat.pow_add, Nat.mod_eq_of_lt hpow2]
  have h1 : (1 : UInt64) ≤ ((1 : UInt64) <<< n.toUInt64) <<< 2 := by
    rw [UInt64.le_iff_toNat_le, hshl2]
    show 1 ≤ 2 ^ (n + 2)
    exact Nat.two_pow_pos _
  rw [UInt64.toNat_not, UInt64.toNat_sub_of_le _ _ h1, hshl2]
  rfl

theorem allExceptLS_run (n : Nat) (c : Ctr) (hn : n < 16) :
    allExceptLS n c = .ok (~~~ ((((1 : UInt64) <<< n.toUInt64) <<< 2) - 1)) c := by
  have hnz : ((((1 : UInt64) <<< n.toUInt64) <<< 2) == 0) = false := by
    have h := toNat_allExceptLS_mask n hn
    cases hb : ((((1 : UInt64) <<< n.toUInt64) <<< 2) == 0) with
    | false => rfl
    | true =>
      exfalso
      have h0 : (((1 : UInt64) <<< n.toUInt64) <<< 2) = 0 := by simpa using hb
      rw [h0] at h
      have hp : 0 < 2 ^ (n + 2) := Nat.two_pow_pos _
      have hlt : 2 ^ (n + 2) < 2 ^ 64 := Nat.pow_lt_pow_right (by decide) (by omega)
      have hv : (~~~ ((0 : UInt64) - 1)).toNat = 0 := by decide
      rw [hv] at h
      omega
  have h16 : decide (n < Generated.neonMaskLanes) = true := by
    simp [Generated.neonMaskLanes, hn]
  have h64 : n < 64 := by omega
  simp only [allExceptLS, h16, dbgAssert_true, h64, if_true, hnz, bind, pure]
  rfl

theorem mand_allExceptLS_bit (n : Nat) (hn : n < 16) (m : UInt64) (j : Nat) :
    (m &&& ~~~ ((((1 : UInt64) <<< n.toUInt64) <<< 2) - 1)).toNat.testBit j =
      (m.toNat.testBit j && decide (n + 2 ≤ j)) := by
  rw [UInt64.toNat_and, toNat_allExceptLS_mask n hn, Nat.testBit_and,
    not_low_mask_testBit64 (n + 2) j (by omega)]
  by_cases hj : j < 64
  · simp [hj]
  · have : m.toNat.testBit j = false := by
      apply Nat.testBit_lt_two_pow
      exact Nat.lt_of_lt_of_le m.toNat_lt (Nat.pow_le_pow_right (by decide) (by omega))
    simp [this]

/-- The mask produced by `all_zeros_except_least_significant(n)` keeps exactly the bits at
positions `>= n + 2`, i.e. (on a well-formed mask) the lanes `i` with `n + 2 <= 4 i + 3`:
it clears only lanes `i < (n - 1) / 4` or so, NOT all lanes `< n`. -/
theorem allExceptLS_exact (n : Nat) (c : Ctr) (hn : n < 16) :
    ∃ k, allExceptLS n c = .ok k c ∧
      ∀ m i, bit (m &&& k) i = (bit m i && decide (n + 2 ≤ 4 * i + 3)) :=
  ⟨_, allExceptLS_run n c hn, fun m i => mand_allExceptLS_bit n hn m (4 * i + 3)⟩

theorem allExceptLS_spec (n : Nat) (c : Ctr) (hn : n < 16) :
    ∃ k, allExceptLS n c = .ok k c ∧
      ∀ m, Wf m → Wf (m &&& k) ∧ (∀ i, bit (m &&& k) i = true → bit m i = true) ∧
        (∀ i, n ≤ i → bit (m &&& k) i = bit m i) := by
  obtain ⟨k, hrun, hbit⟩ := allExceptLS_exact n c hn
  refine ⟨k, hrun, ?_⟩
  intro m hw
  refine ⟨mand_wf m _ hw, ?_, ?_⟩
  · intro i hi
    rw [hbit] at hi
    simp at hi; exact hi.1
  · intro i hni
    rw [hbit]
    have : n + 2 ≤ 4 * i + 3 := by omega
    simp [this]

theorem allExceptLS_zero (c : Ctr) :
    ∃ k, allExceptLS 0 c = .ok k c ∧
      ∀ m, Wf m → Wf (m &&& k) ∧ ∀ i, bit (m &&& k) i = bit m i := by
  obtain ⟨k, hrun, h⟩ := allExceptLS_spec 0 c (by decide)
  refine ⟨k, hrun, ?_⟩
  intro m hw
  obtain ⟨h1, _, h3⟩ := h m hw
  exact ⟨h1, fun i => h3 i (Nat.zero_le i)⟩

/-- `Lawful` for the aarch64 NEON vector type. -/
def lawful : Lawful Neon.impl where
  bytes_le := by decide
  pow2 := ⟨4, rfl⟩
  align_eq := rfl
  wf := Wf
  bit := bit
  bit_lt := fun m i _ hb => bit_lt m i hb
  movemask_wf := fun v _ _ => movemask_wf v
  movemask_bit := fun v i hv hb hi => movemask_bit v i hv hb hi
  will_iff := fun v hv hb => will_iff v hv hb
  hasNonZero_iff := fun m hw => ne_zero_iff m hw
  mor_wf := fun a b ha hb => mor_wf a b ha hb
  mor_bit := fun a b i _ _ => mor_bit a b i
  mand_wf := fun a b ha _ => mand_wf a b ha
  mand_bit := fun a b i _ _ => mand_bit a b i
  countOnes_eq := fun m hw => countOnes_eq m hw
  firstOffset_spec := fun m c hw hex => firstOffset_spec m c hw hex
  lastOffset_spec := fun m c hw hex => lastOffset_spec m c hw hex
  clearLSB_spec := fun m c hw hex => clearLSB_spec m c hw hex
  allExceptLS_spec := fun n c hn => allExceptLS_spec n c hn
  allExceptLS_zero := fun c => allExceptLS_zero c

/-- The laws are not vacuous: a concrete boolean vector, its mask and the lane view. -/
example :
    let v : Vec := [0xFF, 0, 0, 0, 0, 0xFF, 0, 0, 0, 0, 0, 0, 0, 0, 0, 0xFF]
    v.length = 16 ∧ movemask v = 0x8000000000800008 ∧
      (List.range 16).filter (bit (movemask v)) = [0, 5, 15] ∧
      willHaveNonZero v = true := by decide

/-- The known oddity (DESIGN O1), concretely: `all_zeros_except_least_significant(8)` is
`!0x3FF`; and-ing it with the all-lanes mask clears lanes 0 and 1 only, lanes 2..7 survive
although they are `< 8`. (Harmless for the callers, which only need lanes `>= n` kept and no
lane invented; see `Lawful.allExceptLS_spec`.) -/
example :
    (allExceptLS 8 {}).val? = some 0xFFFFFFFFFFFFFC00 ∧
      (List.range 16).filter (bit ((0x8888888888888888 : UInt64) &&& 0xFFFFFFFFFFFFFC00)) =
        [2, 3, 4, 5, 6, 7, 8, 9, 10, 11, 12, 13, 14, 15] := by decide

#print axioms lawful
#print axioms allExceptLS_exact
#print axioms wf_iff_and_mask

end Memchr.Neon
