/-
Master theorems for the portable SWAR byte search `src/arch/all/memchr.rs`
(`One`, `Two`, `Three`: `find_raw`, `rfind_raw`; `One::count_raw`), for every needle, every
memory region (every base address, hence every alignment of `start` and `end`) and every
pair `start`, `end` — including `start >= end` (result `None` / `0`, no memory access, no
precondition) and windows shorter than one word.

`= .ok (spec) c'` means: the run returns normally — no out-of-bounds load, no misaligned
`*const usize` dereference (every `read()` address is a multiple of 8), no pointer arithmetic
leaving the allocation, no overflow, no debug assertion failure — and the value is the naive
specification.

The only bit-level fact used is the no-false-negative direction of `has_zero_byte`
(`hasZeroByte_of_zero_byte` in `Proofs/SwarBits.lean`, kernel-checked, no `bv_decide`).
-/
import MemchrModel.Base.Lemmas
import MemchrModel.Spec.Byte
import MemchrModel.Model.Swar
import MemchrModel.Proofs.SwarOne
import MemchrModel.Proofs.SwarMulti

namespace Memchr.Swar

open Memchr Memchr.Generic

/-- `One::confirm`: `self.s1 == haystack_byte` -/
theorem One.confirm_eq (n1 : UInt8) : (One.needles n1).confirm = fun b => b == n1 := by
  funext b
  simp only [Needles.confirm, Needles.toList, One.needles, List.contains_cons, List.contains_nil,
    Bool.or_false]

/-- `Two::confirm` -/
theorem confirm_two (n1 n2 b : UInt8) :
    (Needles.mk n1 [n2]).confirm b = (b == n1 || b == n2) := by
  simp only [Needles.confirm, Needles.toList, List.contains_cons, List.contains_nil, Bool.or_false]

/-- `Three::confirm` -/
theorem confirm_three (n1 n2 n3 b : UInt8) :
    (Needles.mk n1 [n2, n3]).confirm b = (b == n1 || b == n2 || b == n3) := by
  simp only [Needles.confirm, Needles.toList, List.contains_cons, List.contains_nil, Bool.or_false,
    Bool.or_assoc]

/-- The precondition of every theorem below is satisfiable by a non-trivial input: a 20-byte
region at the odd base address 3 and the window `[4, 22)` inside it. -/
example : ∃ (m : Mem) (start end_ : Nat), start < end_ ∧
    (start < end_ → m.base ≤ start ∧ end_ ≤ m.base + m.bytes.size) :=
  ⟨⟨0, 3, #[1, 2, 3, 4, 5, 6, 7, 8, 9, 10, 11, 12, 13, 14, 15, 16, 17, 18, 19, 20]⟩, 4, 22,
    by decide, by decide⟩

/-! ### `One` -/

theorem One.findRaw_correct (n1 : UInt8) (m : Mem) (start end_ : Nat) (c : Ctr)
    (hb : start < end_ → m.base ≤ start ∧ end_ ≤ m.base + m.bytes.size) :
    ∃ c', One.findRaw n1 m start end_ c =
      .ok ((Spec.firstIdx (One.needles n1).confirm (m.window start (end_ - start))).map
        (start + ·)) c' := by
  obtain ⟨r, c', hrun, hres⟩ := One.findRaw_spec n1 m start end_ c hb
  exact ⟨c', by rw [hrun, hres.eq_spec]⟩

theorem One.rfindRaw_correct (n1 : UInt8) (m : Mem) (start end_ : Nat) (c : Ctr)
    (hb : start < end_ → m.base ≤ start ∧ end_ ≤ m.base + m.bytes.size) :
    ∃ c', One.rfindRaw n1 m start end_ c =
      .ok ((Spec.lastIdx (One.needles n1).confirm (m.window start (end_ - start))).map
        (start + ·)) c' := by
  obtain ⟨r, c', hrun, hres⟩ := One.rfindRaw_spec n1 m start end_ c hb
  exact ⟨c', by rw [hrun, hres.eq_spec]⟩

theorem One.countRaw_correct (n1 : UInt8) (m : Mem) (start end_ : Nat) (c : Ctr)
    (hb : start < end_ → m.base ≤ start ∧ end_ ≤ m.base + m.bytes.size) :
    ∃ c', One.countRaw n1 m start end_ c =
      .ok (Spec.countP (· == n1) (m.window start (end_ - start))) c' :=
  One.countRaw_spec n1 m start end_ c hb

/-- the same with the predicate written `· == n1` -/
theorem One.findRaw_correct_eq (n1 : UInt8) (m : Mem) (start end_ : Nat) (c : Ctr)
    (hb : start < end_ → m.base ≤ start ∧ end_ ≤ m.base + m.bytes.size) :
    ∃ c', One.findRaw n1 m start end_ c =
      .ok ((Spec.firstIdx (· == n1) (m.window start (end_ - start))).map (start + ·)) c' := by
  rw [← One.confirm_eq]; exact One.findRaw_correct n1 m start end_ c hb

theorem One.rfindRaw_correct_eq (n1 : UInt8) (m : Mem) (start end_ : Nat) (c : Ctr)
    (hb : start < end_ → m.base ≤ start ∧ end_ ≤ m.base + m.bytes.size) :
    ∃ c', One.rfindRaw n1 m start end_ c =
      .ok ((Spec.lastIdx (· == n1) (m.window start (end_ - start))).map (start + ·)) c' := by
  rw [← One.confirm_eq]; exact One.rfindRaw_correct n1 m start end_ c hb

/-! ### `Two` and `Three` (`ns = ⟨s1, [s2]⟩` resp. `⟨s1, [s2, s3]⟩`; any number of needles) -/

theorem Multi.findRaw_correct (ns : Needles) (m : Mem) (start end_ : Nat) (c : Ctr)
    (hb : start < end_ → m.base ≤ start ∧ end_ ≤ m.base + m.bytes.size) :
    ∃ c', Multi.findRaw ns m start end_ c =
      .ok ((Spec.firstIdx ns.confirm (m.window start (end_ - start))).map (start + ·)) c' := by
  obtain ⟨r, c', hrun, hres⟩ := Multi.findRaw_spec ns m start end_ c hb
  exact ⟨c', by rw [hrun, hres.eq_spec]⟩

theorem Multi.rfindRaw_correct (ns : Needles) (m : Mem) (start end_ : Nat) (c : Ctr)
    (hb : start < end_ → m.base ≤ start ∧ end_ ≤ m.base + m.bytes.size) :
    ∃ c', Multi.rfindRaw ns m start end_ c =
      .ok ((Spec.lastIdx ns.confirm (m.window start (end_ - start))).map (start + ·)) c' := by
  obtain ⟨r, c', hrun, hres⟩ := Multi.rfindRaw_spec ns m start end_ c hb
  exact ⟨c', by rw [hrun, hres.eq_spec]⟩

theorem Two.findRaw_correct (n1 n2 : UInt8) (m : Mem) (start end_ : Nat) (c : Ctr)
    (hb : start < end_ → m.base ≤ start ∧ end_ ≤ m.base + m.bytes.size) :
    ∃ c', Multi.findRaw ⟨n1, [n2]⟩ m start end_ c =
      .ok ((Spec.firstIdx (fun b => b == n1 || b == n2)
        (m.window start (end_ - start))).map (start + ·)) c' := by
  have e : (fun b => b == n1 || b == n2) = (Needles.mk n1 [n2]).confirm :=
    funext fun b => (confirm_two n1 n2 b).symm
  rw [e]; exact Multi.findRaw_correct _ m start end_ c hb

theorem Two.rfindRaw_correct (n1 n2 : UInt8) (m : Mem) (start end_ : Nat) (c : Ctr)
    (hb : start < end_ → m.base ≤ start ∧ end_ ≤ m.base + m.bytes.size) :
    ∃ c', Multi.rfindRaw ⟨n1, [n2]⟩ m start end_ c =
      .ok ((Spec.lastIdx (fun b => b == n1 || b == n2)
        (m.window start (end_ - start))).map (start + ·)) c' := by
  have e : (fun b => b == n1 || b == n2) = (Needles.mk n1 [n2]).confirm :=
    funext fun b => (confirm_two n1 n2 b).symm
  rw [e]; exact Multi.rfindRaw_correct _ m start end_ c hb

theorem Three.findRaw_correct (n1 n2 n3 : UInt8) (m : Mem) (start end_ : Nat) (c : Ctr)
    (hb : start < end_ → m.base ≤ start ∧ end_ ≤ m.base + m.bytes.size) :
    ∃ c', Multi.findRaw ⟨n1, [n2, n3]⟩ m start end_ c =
      .ok ((Spec.firstIdx (fun b => b == n1 || b == n2 || b == n3)
        (m.window start (end_ - start))).map (start + ·)) c' := by
  have e : (fun b => b == n1 || b == n2 || b == n3) = (Needles.mk n1 [n2, n3]).confirm :=
    funext fun b => (confirm_three n1 n2 n3 b).symm
  rw [e]; exact Multi.findRaw_correct _ m start end_ c hb

theorem Three.rfindRaw_correct (n1 n2 n3 : UInt8) (m : Mem) (start end_ : Nat) (c : Ctr)
    (hb : start < end_ → m.base ≤ start ∧ end_ ≤ m.base + m.bytes.size) :
    ∃ c', Multi.rfindRaw ⟨n1, [n2, n3]⟩ m start end_ c =
      .ok ((Spec.lastIdx (fun b => b == n1 || b == n2 || b == n3)
        (m.window start (end_ - start))).map (start + ·)) c' := by
  have e : (fun b => b == n1 || b == n2 || b == n3) = (Needles.mk n1 [n2, n3]).confirm :=
    funext fun b => (confirm_three n1 n2 n3 b).symm
  rw [e]; exact Multi.rfindRaw_correct _ m start end_ c hb

end Memchr.Swar

section AxiomCheck
open Memchr.Swar
#print axioms hasZeroByte_of_zero_byte
#print axioms One.findRaw_correct
#print axioms One.rfindRaw_correct
#print axioms One.countRaw_correct
#print axioms Multi.findRaw_correct
#print axioms Multi.rfindRaw_correct
#print axioms Three.rfindRaw_correct
end AxiomCheck
