/-
The public substring API (`Model/Memmem.lean`): C03 / C04 for `Finder::find`,
`FinderRev::rfind` and the one-shot `memmem::find` / `memmem::rfind`; C08 for `FindIter` /
`FindRevIter`; C10, C16, C17.

Everything is derived from `Proofs/Searcher.lean`.  The only hypotheses are `TwoWayFwdOk` /
`TwoWayRevOk` (what is needed from Two-Way), and they are only taken where the searcher's
strategy is one of the Two-Way kinds; theorems that take them unconditionally are named
`..._partial`.

Method for the iterators and the op machines: (A) the model machine run on a list of
operations produces exactly the outputs of a pure reference machine over the specification
(`refFwd`, `refRev`, `refFinder`), whatever the interleaving of `clone` / `into_owned` /
`as_ref` (C16) and whatever the prefilter state (C10); (B) pure facts about the reference
machines: `next` yields `Spec.greedyFwd` / `Spec.greedyRev` then `None` forever, `size_hint`
brackets what is still to come (C08); the allocation count is `refAllocs` (C17).
-/
import MemchrModel.Model.Memmem
import MemchrModel.Proofs.Searcher

namespace Memchr.Memmem
open Memchr
open Memchr.TwoWay (bind_ok pure_bind' get_ok Occ occ_iff)

/-! ### ownership: `CowBytes`, the heap -/

/-- the boxed copy holds the same bytes, is a valid slice, and costs one allocation unless the
slice is empty -/
theorem Heap.boxFrom_spec (h : Heap) (b : Slice) (hb : b.Valid) :
    (h.boxFrom b).1.Valid ∧ (h.boxFrom b).1.toList = b.toList ∧
    (h.boxFrom b).2.allocs = h.allocs + (if b.len = 0 then 0 else 1) := by
  have hs := Slice.toArray_size hb
  generalize hs' : (⟨{ region := b.mem.region, base := h.next, bytes := b.toArray }, 0, b.len⟩ :
    Slice) = s'
  have hlen : s'.len = b.len := by rw [← hs']
  have hval : s'.Valid := by
    rw [← hs']
    show 0 + b.len ≤ b.toArray.size
    omega
  have hget : ∀ i, i < b.len → s'.getD i = b.getD i := by
    intro i hi
    rw [← hs']
    simp only [Slice.getD, Nat.zero_add, Slice.toArray_getElem? hb i hi, Option.getD_some]
  have hlist : s'.toList = b.toList := by
    apply List.ext_getElem?
    intro i
    by_cases hi : i < b.len
    · rw [Slice.toList_getElem? s' i (by omega), Slice.toList_getElem? b i hi, hget i hi]
    · rw [List.getElem?_eq_none (by simp; omega), List.getElem?_eq_none (by simp; omega)]
  unfold Heap.boxFrom
  simp only [hs']
  by_cases h0 : b.len = 0
  · rw [if_pos h0, if_pos h0]
    exact ⟨hval, hlist, rfl⟩
  · rw [if_neg h0, if_neg h0]
    exact ⟨hval, hlist, rfl⟩

/-- one allocation, unless the needle is empty -/
def allocCost (len : Nat) : Nat := if len = 0 then 0 else 1

/-- ownership after / allocations made by the three handle conversions -/
inductive OwnOp where
  | asRef | intoOwned | clone | other
  deriving Repr, DecidableEq

def OwnOp.next : Ownership → OwnOp → Ownership
  | _, .asRef => .borrowed
  | _, .intoOwned => .owned
  | o, .clone => o
  | o, .other => o

/-- `into_owned` of a borrowed needle and `clone` of an owned one allocate; nothing else does -/
def OwnOp.cost (len : Nat) : Ownership → OwnOp → Nat
  | .borrowed, .intoOwned => allocCost len
  | .owned, .clone => allocCost len
  | _, _ => 0

/-- the allocation count of an operation sequence: a function of the initial ownership, the
needle length and the operations alone -/
def refAllocs (len : Nat) : Ownership → List OwnOp → Nat
  | _, [] => 0
  | o, op :: ops => op.cost len o + refAllocs len (op.next o) ops

/-- a needle holding the bytes of `n0` -/
def CowBytes.Holds (n0 : Slice) (c : CowBytes) : Prop := c.bytes.Valid ∧ c.bytes.toList = n0.toList

theorem CowBytes.intoOwned_spec {n0 : Slice} {c : CowBytes} (hc : c.Holds n0) (h : Heap) :
    (c.intoOwned h).1.Holds n0 ∧ (c.intoOwned h).1.own = .owned ∧
    (c.intoOwned h).2.allocs = h.allocs + OwnOp.cost n0.len c.own .intoOwned := by
  obtain ⟨hv, hb⟩ := hc
  have hl : c.bytes.len = n0.len := (same_bytes hb).1
  obtain ⟨a1, a2, a3⟩ := Heap.boxFrom_spec h c.bytes hv
  unfold CowBytes.intoOwned
  cases ho : c.own with
  | borrowed => exact ⟨⟨a1, a2.trans hb⟩, rfl, by rw [a3, hl]; rfl⟩
  | owned => exact ⟨⟨hv, hb⟩, rfl, rfl⟩

theorem CowBytes.clone_spec {n0 : Slice} {c : CowBytes} (hc : c.Holds n0) (h : Heap) :
    (c.clone h).1.Holds n0 ∧ (c.clone h).1.own = c.own ∧
    (c.clone h).2.allocs = h.allocs + OwnOp.cost n0.len c.own .clone := by
  obtain ⟨hv, hb⟩ := hc
  have hl : c.bytes.len = n0.len := (same_bytes hb).1
  obtain ⟨a1, a2, a3⟩ := Heap.boxFrom_spec h c.bytes hv
  unfold CowBytes.clone
  cases ho : c.own with
  | borrowed => exact ⟨⟨hv, hb⟩, ho, rfl⟩
  | owned => exact ⟨⟨a1, a2.trans hb⟩, rfl, by rw [a3, hl]; rfl⟩

theorem OwnOp.cost_other (len : Nat) (o : Ownership) : OwnOp.cost len o .other = 0 := by
  cases o <;> rfl

theorem OwnOp.cost_asRef (len : Nat) (o : Ownership) : OwnOp.cost len o .asRef = 0 := by
  cases o <;> rfl

/-! ### `Finder` -/

/-- a forward finder for the bytes of `n0` -/
def Finder.GoodFor (n0 : Slice) (f : Finder) : Prop :=
  f.needle.Holds n0 ∧ f.searcher.GoodFor n0

/-- `FinderBuilder::build_forward_with_ranker`: returns normally, for every configuration,
prefilter setting and ranker; the needle is borrowed (no allocation: the function does not even
take the heap). -/
theorem FinderBuilder.build_ok (cfg : Api.Cfg) (b : FinderBuilder) (rank : UInt8 → UInt8)
    (n0 : Slice) (hn0 : n0.Valid) (htw : reachesTwoWay cfg n0 → TwoWayFwdOk) (c : Ctr) :
    ∃ f c', b.buildForwardWithRanker cfg rank n0 c = .ok f c' ∧ f.GoodFor n0 ∧
      f.needle.own = .borrowed ∧ f.needle.bytes = n0 ∧
      (f.searcher.usesTwoWay → reachesTwoWay cfg n0) := by
  obtain ⟨s, c', h, hg, hu⟩ := Searcher.new_ok cfg b.prefilter rank n0 hn0 htw c
  exact ⟨_, c', by simp only [FinderBuilder.buildForwardWithRanker, bind_ok h]; rfl,
    ⟨⟨hn0, rfl⟩, hg⟩, rfl, rfl, hu⟩

/-- **C03 / C16 for `Finder::find`**: the result is the leftmost occurrence of the needle's
bytes; it depends on nothing else (a fresh `PrefilterState` per call). -/
theorem Finder.find_ok (cfg : Api.Cfg) {n0 : Slice} {f : Finder} (hg : f.GoodFor n0)
    (hn0 : n0.Valid) (htw : f.searcher.usesTwoWay → TwoWayFwdOk) (hay : Slice) (hh : hay.Valid)
    (c : Ctr) :
    ∃ c', f.find cfg hay c = .ok (Spec.leftmost hay.toArray n0.toArray) c' := by
  obtain ⟨⟨hv, hb⟩, hs⟩ := hg
  obtain ⟨st', c', h⟩ := Searcher.find_good cfg (hs.congr hb) htw hay hh hv PrefilterState.new c
  rw [toArray_congr hv hn0 hb] at h
  exact ⟨c', by simp only [Finder.find, CowBytes.asSlice, bind_ok h]; rfl⟩

theorem Finder.asRef_good {n0 : Slice} {f : Finder} (hg : f.GoodFor n0) :
    f.asRef.GoodFor n0 ∧ f.asRef.searcher = f.searcher ∧ f.asRef.needle.own = .borrowed :=
  ⟨⟨hg.1, hg.2⟩, rfl, rfl⟩

theorem Finder.intoOwned_good {n0 : Slice} {f : Finder} (hg : f.GoodFor n0) (h : Heap) :
    (f.intoOwned h).1.GoodFor n0 ∧ (f.intoOwned h).1.searcher = f.searcher ∧
    (f.intoOwned h).1.needle.own = .owned ∧
    (f.intoOwned h).2.allocs = h.allocs + OwnOp.cost n0.len f.needle.own .intoOwned := by
  obtain ⟨a, b, c⟩ := CowBytes.intoOwned_spec hg.1 h
  exact ⟨⟨a, hg.2⟩, rfl, b, c⟩

theorem Finder.clone_good {n0 : Slice} {f : Finder} (hg : f.GoodFor n0) (h : Heap) :
    (f.clone h).1.GoodFor n0 ∧ (f.clone h).1.searcher = f.searcher ∧
    (f.clone h).1.needle.own = f.needle.own ∧
    (f.clone h).2.allocs = h.allocs + OwnOp.cost n0.len f.needle.own .clone := by
  obtain ⟨a, b, c⟩ := CowBytes.clone_spec hg.1 h
  exact ⟨⟨a, hg.2⟩, rfl, b, c⟩

/-- `needle()` returns the construction bytes -/
theorem Finder.needle_ok {n0 : Slice} {f : Finder} (hg : f.GoodFor n0) (hn0 : n0.Valid) :
    f.needleSlice.toArray = n0.toArray := toArray_congr hg.1.1 hn0 hg.1.2

/-! ### C16 / C17: the `Finder` op machine against its reference -/

/-- reference outputs of a `Finder` op sequence: a function of the needle bytes and the ops -/
def refFinder (x : Array UInt8) : List FinderOp → List Out
  | [] => []
  | .find hay :: ops => .idx (Spec.leftmost hay.toArray x) :: refFinder x ops
  | .needle :: ops => .bytes x :: refFinder x ops
  | .asRef :: ops => refFinder x ops
  | .intoOwned :: ops => refFinder x ops
  | .clone :: ops => refFinder x ops

def FinderOp.own : FinderOp → OwnOp
  | .asRef => .asRef
  | .intoOwned => .intoOwned
  | .clone => .clone
  | _ => .other

/-- the haystack of a `find` op is a valid slice -/
def FinderOp.Ok : FinderOp → Prop
  | .find hay => hay.Valid
  | _ => True

/-- **C16 + C17 (+ C03, C10).** Any operation sequence on a finder built for the bytes of `n0`
returns normally; its observations are `refFinder` (every `find` is the leftmost occurrence in
its own haystack, whatever was searched before; `needle()` is the construction bytes; `as_ref`,
`clone`, `into_owned` are invisible), and the allocator is called exactly `refAllocs` times. -/
theorem Finder.run_ok (cfg : Api.Cfg) (n0 : Slice) (hn0 : n0.Valid) (ops : List FinderOp)
    (hops : ∀ op ∈ ops, op.Ok) (f : Finder) (hg : f.GoodFor n0)
    (htw : f.searcher.usesTwoWay → TwoWayFwdOk) (h : Heap) (c : Ctr) :
    ∃ f' h' c', Finder.run cfg ops f h c = .ok (refFinder n0.toArray ops, f', h') c' ∧
      f'.GoodFor n0 ∧ f'.searcher = f.searcher ∧
      h'.allocs = h.allocs + refAllocs n0.len f.needle.own (ops.map FinderOp.own) := by
  induction ops generalizing f h c with
  | nil => exact ⟨f, h, c, rfl, hg, rfl, rfl⟩
  | cons op ops ih =>
    have hops' : ∀ op ∈ ops, op.Ok := fun o ho => hops o (List.mem_cons_of_mem _ ho)
    have hop : op.Ok := hops op List.mem_cons_self
    -- one step, then the induction hypothesis
    have fin : ∀ (o : Option Out) (f1 : Finder) (h1 : Heap) (c1 : Ctr),
        Finder.step cfg op f h c = .ok (o, f1, h1) c1 → f1.GoodFor n0 → f1.searcher = f.searcher →
        f1.needle.own = (FinderOp.own op).next f.needle.own →
        h1.allocs = h.allocs + (FinderOp.own op).cost n0.len f.needle.own →
        o.toList ++ refFinder n0.toArray ops = refFinder n0.toArray (op :: ops) →
        ∃ f' h' c', Finder.run cfg (op :: ops) f h c =
            .ok (refFinder n0.toArray (op :: ops), f', h') c' ∧
          f'.GoodFor n0 ∧ f'.searcher = f.searcher ∧
          h'.allocs = h.allocs + refAllocs n0.len f.needle.own ((op :: ops).map FinderOp.own) := by
      intro o f1 h1 c1 hstep hg1 hs1 ho1 ha1 hout
      obtain ⟨f', h', c', hr, a, b, d⟩ := ih hops' f1 hg1 (by rw [hs1]; exact htw) h1 c1
      refine ⟨f', h', c', ?_, a, b.trans hs1, ?_⟩
      · simp only [Finder.run, bind_ok hstep, bind_ok hr]
        rw [← hout]; rfl
      · rw [d, ha1, ho1]; simp only [List.map_cons, refAllocs]; omega
    cases op with
    | find hay =>
      obtain ⟨c1, h1⟩ := Finder.find_ok cfg hg hn0 htw hay hop c
      exact fin _ f h c1 (by simp only [Finder.step, bind_ok h1]; rfl) hg rfl rfl
        (by simp [FinderOp.own, OwnOp.cost_other]) rfl
    | asRef =>
      obtain ⟨a, b, d⟩ := Finder.asRef_good hg
      exact fin none _ h c rfl a b d (by simp [FinderOp.own, OwnOp.cost_asRef]) rfl
    | intoOwned =>
      obtain ⟨a, b, d, e⟩ := Finder.intoOwned_good hg h
      exact fin none _ _ c rfl a b d e rfl
    | clone =>
      obtain ⟨a, b, d, e⟩ := Finder.clone_good hg h
      exact fin none _ _ c rfl a b d e rfl
    | needle =>
      exact fin (some (.bytes f.needleSlice.toArray)) f h c rfl hg rfl rfl
        (by simp [FinderOp.own, OwnOp.cost_other]) (by rw [Finder.needle_ok hg hn0]; rfl)

/-- **C17**: without `into_owned`, nothing that starts from a borrowed needle allocates -/
theorem refAllocs_borrowed (len : Nat) (ops : List OwnOp) (h : OwnOp.intoOwned ∉ ops) :
    refAllocs len .borrowed ops = 0 := by
  induction ops with
  | nil => rfl
  | cons op ops ih =>
    have h1 : op ≠ .intoOwned := fun e => h (e ▸ List.mem_cons_self)
    have h2 : OwnOp.intoOwned ∉ ops := fun e => h (List.mem_cons_of_mem _ e)
    cases op with
    | intoOwned => exact absurd rfl h1
    | asRef => simpa [refAllocs, OwnOp.cost, OwnOp.next] using ih h2
    | clone => simpa [refAllocs, OwnOp.cost, OwnOp.next] using ih h2
    | other => simpa [refAllocs, OwnOp.cost, OwnOp.next] using ih h2

/-- the empty needle never allocates -/
theorem refAllocs_empty (o : Ownership) (ops : List OwnOp) : refAllocs 0 o ops = 0 := by
  induction ops generalizing o with
  | nil => rfl
  | cons op ops ih =>
    simp only [refAllocs, ih, Nat.add_zero]
    cases o <;> cases op <;> rfl

/-! ### C03: `Finder::new(needle).find(haystack)`, `memmem::find` -/

/-- **C03** for a finder built by `FinderBuilder` with any prefilter setting and ranker, in any
configuration; `TwoWayFwdOk` only where the construction reaches Two-Way. -/
theorem C03.builder_find (cfg : Api.Cfg) (b : FinderBuilder) (rank : UInt8 → UInt8)
    (needle hay : Slice) (hn : needle.Valid) (hh : hay.Valid)
    (htw : reachesTwoWay cfg needle → TwoWayFwdOk) (c : Ctr) :
    ∃ c', (b.buildForwardWithRanker cfg rank needle >>= fun f => f.find cfg hay) c =
      .ok (Spec.leftmost hay.toArray needle.toArray) c' := by
  obtain ⟨f, c1, h, hg, _, _, hu⟩ := FinderBuilder.build_ok cfg b rank needle hn htw c
  obtain ⟨c', h'⟩ := Finder.find_ok cfg hg hn (fun u => htw (hu u)) hay hh c1
  exact ⟨c', by rw [bind_ok h, h']⟩

/-- **C03** `Finder::new(needle).find(haystack)` -/
theorem C03.finder_find (cfg : Api.Cfg) (needle hay : Slice) (hn : needle.Valid) (hh : hay.Valid)
    (htw : reachesTwoWay cfg needle → TwoWayFwdOk) (c : Ctr) :
    ∃ c', (Finder.new cfg needle >>= fun f => f.find cfg hay) c =
      .ok (Spec.leftmost hay.toArray needle.toArray) c' :=
  C03.builder_find cfg FinderBuilder.new Pair.defaultRank needle hay hn hh htw c

/-- **C03.oneshot** `memmem::find(haystack, needle)`, general form: haystacks shorter than 64
bytes go to Rabin-Karp (unconditional); longer ones to `Finder::new(needle).find(haystack)`. -/
theorem C03.oneshot_gen (cfg : Api.Cfg) (needle hay : Slice) (hn : needle.Valid) (hh : hay.Valid)
    (htw : Generated.oneshotFwdThreshold ≤ hay.len → reachesTwoWay cfg needle → TwoWayFwdOk)
    (c : Ctr) :
    ∃ c', Memmem.find cfg hay needle c = .ok (Spec.leftmost hay.toArray needle.toArray) c' := by
  unfold Memmem.find
  by_cases hs : hay.len < Generated.oneshotFwdThreshold
  · simp only [hs, if_true]
    obtain ⟨c', h, _⟩ := RabinKarp.find_correct hay needle c hh hn
    exact ⟨c', h⟩
  · simp only [hs, if_false]
    exact C03.finder_find cfg needle hay hn hh (htw (by omega)) c

/-- **C03.oneshot**, unconditional part: short haystacks, needles of at most one byte, and
needles of 2..=32 bytes when the configuration has a vector finder. -/
theorem C03.oneshot (cfg : Api.Cfg) (needle hay : Slice) (hn : needle.Valid) (hh : hay.Valid)
    (hbranch : hay.len < Generated.oneshotFwdThreshold ∨ needle.len ≤ 1 ∨
      ((vecKind cfg).isSome = true ∧ doPackedSearch needle = true)) (c : Ctr) :
    ∃ c', Memmem.find cfg hay needle c = .ok (Spec.leftmost hay.toArray needle.toArray) c' := by
  apply C03.oneshot_gen cfg needle hay hn hh _ c
  rintro hl ⟨h2, h⟩
  exfalso
  rcases hbranch with h1 | h1 | ⟨hv, hd⟩
  · omega
  · omega
  · rcases h with h | h
    · rw [h] at hv; cases hv
    · rw [h] at hd; cases hd

/-- **C03.oneshot**, everything, under `TwoWayFwdOk`.
FULL STATEMENT: the same without `tw`. -/
theorem C03.oneshot_partial (tw : TwoWayFwdOk) (cfg : Api.Cfg) (needle hay : Slice)
    (hn : needle.Valid) (hh : hay.Valid) (c : Ctr) :
    ∃ c', Memmem.find cfg hay needle c = .ok (Spec.leftmost hay.toArray needle.toArray) c' :=
  C03.oneshot_gen cfg needle hay hn hh (fun _ _ => tw) c

/-- the empty needle is found at offset 0, also in the empty haystack -/
theorem C03.oneshot_empty (cfg : Api.Cfg) (needle hay : Slice) (hn : needle.Valid)
    (hh : hay.Valid) (h0 : needle.len = 0) (c : Ctr) :
    ∃ c', Memmem.find cfg hay needle c = .ok (some 0) c' := by
  have := C03.oneshot cfg needle hay hn hh (Or.inr (Or.inl (by omega))) c
  rwa [leftmost_empty (by rw [Slice.toArray_size hn]; exact h0)] at this

/-! ### C10 at the API level -/

/-- **C10 (+ C09)**: `FinderBuilder` finders for the same needle built with any two
configurations, prefilter settings and rankers agree on every haystack (and the adaptive
prefilter state never shows: each result is `Spec.leftmost`). -/
theorem C10.builder_indep (cfg cfg' : Api.Cfg) (b b' : FinderBuilder)
    (rank rank' : UInt8 → UInt8) (needle hay : Slice) (hn : needle.Valid) (hh : hay.Valid)
    (htw : reachesTwoWay cfg needle ∨ reachesTwoWay cfg' needle → TwoWayFwdOk) (c c' : Ctr) :
    ∃ v c1 c1', (b.buildForwardWithRanker cfg rank needle >>= fun f => f.find cfg hay) c =
        .ok v c1 ∧
      (b'.buildForwardWithRanker cfg' rank' needle >>= fun f => f.find cfg' hay) c' =
        .ok v c1' := by
  obtain ⟨c1, h⟩ := C03.builder_find cfg b rank needle hay hn hh (fun r => htw (Or.inl r)) c
  obtain ⟨c1', h'⟩ := C03.builder_find cfg' b' rank' needle hay hn hh (fun r => htw (Or.inr r)) c'
  exact ⟨_, c1, c1', h, h'⟩

theorem C10.builder_indep_partial (tw : TwoWayFwdOk) (cfg cfg' : Api.Cfg) (b b' : FinderBuilder)
    (rank rank' : UInt8 → UInt8) (needle hay : Slice) (hn : needle.Valid) (hh : hay.Valid)
    (c c' : Ctr) :
    ∃ v c1 c1', (b.buildForwardWithRanker cfg rank needle >>= fun f => f.find cfg hay) c =
        .ok v c1 ∧
      (b'.buildForwardWithRanker cfg' rank' needle >>= fun f => f.find cfg' hay) c' =
        .ok v c1' :=
  C10.builder_indep cfg cfg' b b' rank rank' needle hay hn hh (fun _ => tw) c c'

/-! ### `FinderRev`, C04 -/

/-- a reverse finder for the bytes of `n0` -/
def FinderRev.GoodFor (n0 : Slice) (f : FinderRev) : Prop :=
  f.needle.Holds n0 ∧ f.searcher.GoodFor n0

theorem FinderRev.new_ok (n0 : Slice) (hn0 : n0.Valid) (htw : 2 ≤ n0.len → TwoWayRevOk) (c : Ctr) :
    ∃ f c', FinderRev.new n0 c = .ok f c' ∧ f.GoodFor n0 ∧ f.needle.own = .borrowed ∧
      (f.searcher.usesTwoWay → 2 ≤ n0.len) := by
  obtain ⟨s, c', h, hg, hu⟩ := SearcherRev.new_ok n0 hn0 htw c
  exact ⟨_, c', by simp only [FinderRev.new, FinderBuilder.buildReverse, bind_ok h]; rfl,
    ⟨⟨hn0, rfl⟩, hg⟩, rfl, hu⟩

theorem FinderRev.rfind_ok (cfg : Api.Cfg) {n0 : Slice} {f : FinderRev} (hg : f.GoodFor n0)
    (hn0 : n0.Valid) (htw : f.searcher.usesTwoWay → TwoWayRevOk) (hay : Slice) (hh : hay.Valid)
    (c : Ctr) :
    ∃ c', f.rfind cfg hay c = .ok (Spec.rightmost hay.toArray n0.toArray) c' := by
  obtain ⟨⟨hv, hb⟩, hs⟩ := hg
  obtain ⟨c', h⟩ := SearcherRev.rfind_good cfg (hs.congr hb) htw hay hh hv c
  rw [toArray_congr hv hn0 hb] at h
  exact ⟨c', h⟩

theorem FinderRev.asRef_good {n0 : Slice} {f : FinderRev} (hg : f.GoodFor n0) :
    f.asRef.GoodFor n0 ∧ f.asRef.searcher = f.searcher ∧ f.asRef.needle.own = .borrowed :=
  ⟨⟨hg.1, hg.2⟩, rfl, rfl⟩

theorem FinderRev.intoOwned_good {n0 : Slice} {f : FinderRev} (hg : f.GoodFor n0) (h : Heap) :
    (f.intoOwned h).1.GoodFor n0 ∧ (f.intoOwned h).1.searcher = f.searcher ∧
    (f.intoOwned h).1.needle.own = .owned ∧
    (f.intoOwned h).2.allocs = h.allocs + OwnOp.cost n0.len f.needle.own .intoOwned := by
  obtain ⟨a, b, c⟩ := CowBytes.intoOwned_spec hg.1 h
  exact ⟨⟨a, hg.2⟩, rfl, b, c⟩

theorem FinderRev.clone_good {n0 : Slice} {f : FinderRev} (hg : f.GoodFor n0) (h : Heap) :
    (f.clone h).1.GoodFor n0 ∧ (f.clone h).1.searcher = f.searcher ∧
    (f.clone h).1.needle.own = f.needle.own ∧
    (f.clone h).2.allocs = h.allocs + OwnOp.cost n0.len f.needle.own .clone := by
  obtain ⟨a, b, c⟩ := CowBytes.clone_spec hg.1 h
  exact ⟨⟨a, hg.2⟩, rfl, b, c⟩

theorem FinderRev.needle_ok {n0 : Slice} {f : FinderRev} (hg : f.GoodFor n0) (hn0 : n0.Valid) :
    f.needleSlice.toArray = n0.toArray := toArray_congr hg.1.1 hn0 hg.1.2

/-- **C04** `FinderRev::new(needle).rfind(haystack)` -/
theorem C04.finder_rfind (cfg : Api.Cfg) (needle hay : Slice) (hn : needle.Valid)
    (hh : hay.Valid) (htw : 2 ≤ needle.len → TwoWayRevOk) (c : Ctr) :
    ∃ c', (FinderRev.new needle >>= fun f => f.rfind cfg hay) c =
      .ok (Spec.rightmost hay.toArray needle.toArray) c' := by
  obtain ⟨f, c1, h, hg, _, hu⟩ := FinderRev.new_ok needle hn htw c
  obtain ⟨c', h'⟩ := FinderRev.rfind_ok cfg hg hn (fun u => htw (hu u)) hay hh c1
  exact ⟨c', by rw [bind_ok h, h']⟩

theorem C04.oneshot_gen (cfg : Api.Cfg) (needle hay : Slice) (hn : needle.Valid) (hh : hay.Valid)
    (htw : Generated.oneshotRevThreshold ≤ hay.len → 2 ≤ needle.len → TwoWayRevOk) (c : Ctr) :
    ∃ c', Memmem.rfind cfg hay needle c = .ok (Spec.rightmost hay.toArray needle.toArray) c' := by
  unfold Memmem.rfind
  by_cases hs : hay.len < Generated.oneshotRevThreshold
  · simp only [hs, if_true]
    obtain ⟨c', h, _⟩ := RabinKarp.rfind_correct hay needle c hh hn
    exact ⟨c', h⟩
  · simp only [hs, if_false]
    exact C04.finder_rfind cfg needle hay hn hh (htw (by omega)) c

/-- **C04.oneshot** `memmem::rfind`, unconditional part: haystacks shorter than 64 bytes or
needles of at most one byte. -/
theorem C04.oneshot (cfg : Api.Cfg) (needle hay : Slice) (hn : needle.Valid) (hh : hay.Valid)
    (hbranch : hay.len < Generated.oneshotRevThreshold ∨ needle.len ≤ 1) (c : Ctr) :
    ∃ c', Memmem.rfind cfg hay needle c = .ok (Spec.rightmost hay.toArray needle.toArray) c' :=
  C04.oneshot_gen cfg needle hay hn hh (fun _ _ => by exfalso; omega) c

/-- **C04.oneshot**, everything, under `TwoWayRevOk`. FULL STATEMENT: the same without `tw`. -/
theorem C04.oneshot_partial (tw : TwoWayRevOk) (cfg : Api.Cfg) (needle hay : Slice)
    (hn : needle.Valid) (hh : hay.Valid) (c : Ctr) :
    ∃ c', Memmem.rfind cfg hay needle c = .ok (Spec.rightmost hay.toArray needle.toArray) c' :=
  C04.oneshot_gen cfg needle hay hn hh (fun _ _ => tw) c

/-- the empty needle's last match is at `haystack.len()` -/
theorem C04.oneshot_empty (cfg : Api.Cfg) (needle hay : Slice) (hn : needle.Valid)
    (hh : hay.Valid) (h0 : needle.len = 0) (c : Ctr) :
    ∃ c', Memmem.rfind cfg hay needle c = .ok (some hay.len) c' := by
  have := C04.oneshot cfg needle hay hn hh (Or.inr (by omega)) c
  rwa [rightmost_empty (by rw [Slice.toArray_size hn]; exact h0), Slice.toArray_size hh] at this

/-! ### C08 forward, pure part: the reference machine and `Spec.greedyFwd` -/

/-- the formula of `FindIter::size_hint` -/
def hintOf (hayLen nLen pos : Nat) : Nat × Option Nat :=
  if hayLen < pos then (0, some 0)
  else
    match nLen with
    | 0 => (usizeSatAdd (hayLen - pos) 1, usizeCheckedAdd (hayLen - pos) 1)
    | nl => (0, some ((hayLen - pos) / nl))

/-- reference `FindIter`: the state is `pos` alone -/
def refFwd (hay x : Array UInt8) : List IterOp → Nat → List Out
  | [], _ => []
  | .next :: ops, pos =>
    match Spec.leftmostFrom hay x pos (hay.size + 1 - pos) with
    | none => .idx none :: refFwd hay x ops pos
    | some i => .idx (some i) :: refFwd hay x ops (i + max x.size 1)
  | .sizeHint :: ops, pos =>
    .hint (hintOf hay.size x.size pos).1 (hintOf hay.size x.size pos).2 :: refFwd hay x ops pos
  | .clone :: ops, pos => refFwd hay x ops pos
  | .intoOwned :: ops, pos => refFwd hay x ops pos

theorem greedyFwdFrom_none {hay x : Array UInt8} {pos : Nat}
    (h : Spec.leftmostFrom hay x pos (hay.size + 1 - pos) = none) (fuel : Nat) :
    Spec.greedyFwdFrom hay x pos fuel = [] := by
  cases fuel with
  | zero => rfl
  | succ f => simp only [Spec.greedyFwdFrom, h]

theorem greedyFwdFrom_some {hay x : Array UInt8} {pos i : Nat}
    (h : Spec.leftmostFrom hay x pos (hay.size + 1 - pos) = some i) (fuel : Nat) :
    Spec.greedyFwdFrom hay x pos (fuel + 1) =
      i :: Spec.greedyFwdFrom hay x (i + max 1 x.size) fuel := by
  simp only [Spec.greedyFwdFrom, h]

theorem range_succ_map {α : Type} (f : Nat → α) (k : Nat) :
    (List.range (k + 1)).map f = f 0 :: (List.range k).map (fun j => f (j + 1)) := by
  rw [List.range_succ_eq_map, List.map_cons, List.map_map]
  rfl

/-- **C08 (pure)**: `k` calls of `next()` from position `pos` yield the first `k` entries of
`greedyFwdFrom .. pos` followed by `None`s, for any sufficient fuel. -/
theorem refFwd_nexts (hay x : Array UInt8) (k : Nat) : ∀ (pos fuel : Nat),
    hay.size + 1 - pos ≤ fuel →
    refFwd hay x (List.replicate k .next) pos =
      (List.range k).map (fun i => Out.idx ((Spec.greedyFwdFrom hay x pos fuel)[i]?)) := by
  induction k with
  | zero => intro pos fuel _; rfl
  | succ k ih =>
    intro pos fuel hf
    rw [List.replicate_succ, range_succ_map]
    simp only [refFwd]
    cases hl : Spec.leftmostFrom hay x pos (hay.size + 1 - pos) with
    | none =>
      simp only []
      rw [ih pos fuel hf, greedyFwdFrom_none hl]
      simp
    | some i =>
      simp only []
      obtain ⟨h1, h2, _, _⟩ := (Spec.leftmostFrom_eq_some_iff _ _ _ _ _).mp hl
      obtain ⟨f', rfl⟩ : ∃ f', fuel = f' + 1 := ⟨fuel - 1, by omega⟩
      rw [greedyFwdFrom_some hl, Nat.max_comm x.size 1, ih (i + max 1 x.size) f' (by omega)]
      simp

/-- **C08.find_iter (pure)**: from the start the `next()` results are `Spec.greedyFwd` and then
`None` forever. -/
theorem refFwd_greedy (hay x : Array UInt8) (k : Nat) :
    refFwd hay x (List.replicate k .next) 0 =
      (List.range k).map (fun i => Out.idx ((Spec.greedyFwd hay x)[i]?)) :=
  refFwd_nexts hay x k 0 (hay.size + 1) (by omega)

/-- past the end nothing is left -/
theorem greedyFwdFrom_past {hay x : Array UInt8} {pos : Nat} (h : hay.size < pos) (fuel : Nat) :
    Spec.greedyFwdFrom hay x pos fuel = [] := by
  apply greedyFwdFrom_none
  have : hay.size + 1 - pos = 0 := by omega
  rw [this]; rfl

/-- the empty needle: every offset `pos ..= len` exactly once -/
theorem greedyFwdFrom_empty {hay x : Array UInt8} (hx : x.size = 0) : ∀ (fuel pos : Nat),
    pos ≤ hay.size → hay.size + 1 - pos ≤ fuel →
    Spec.greedyFwdFrom hay x pos fuel = (List.range (hay.size + 1 - pos)).map (pos + ·) := by
  intro fuel
  induction fuel with
  | zero => intro pos h1 h2; omega
  | succ f ih =>
    intro pos h1 h2
    have hl : Spec.leftmostFrom hay x pos (hay.size + 1 - pos) = some pos := by
      rw [Spec.leftmostFrom_eq_some_iff]
      exact ⟨Nat.le_refl _, by omega, (occAt_empty hx pos).mpr h1, fun j a b => by omega⟩
    rw [greedyFwdFrom_some hl, hx]
    obtain ⟨m, hm⟩ : ∃ m, hay.size + 1 - pos = m + 1 := ⟨hay.size - pos, by omega⟩
    rw [hm, range_succ_map]
    by_cases hlast : pos = hay.size
    · rw [greedyFwdFrom_past (by simp; omega)]
      have : m = 0 := by omega
      subst this; simp
    · rw [show pos + max 1 0 = pos + 1 from rfl, ih (pos + 1) (by omega) (by omega)]
      have : hay.size + 1 - (pos + 1) = m := by omega
      rw [this]
      simp only [Nat.add_zero, List.cons.injEq, true_and]
      apply List.map_congr_left
      intro j _; omega

/-- a non-empty needle: at most `(len - pos) / needle.len` non-overlapping matches remain -/
theorem greedyFwdFrom_length_le {hay x : Array UInt8} (hx : 0 < x.size) : ∀ (fuel pos : Nat),
    (Spec.greedyFwdFrom hay x pos fuel).length ≤ (hay.size - pos) / x.size := by
  intro fuel
  induction fuel with
  | zero => intro pos; simp [Spec.greedyFwdFrom]
  | succ f ih =>
    intro pos
    cases hl : Spec.leftmostFrom hay x pos (hay.size + 1 - pos) with
    | none => rw [greedyFwdFrom_none hl]; simp
    | some i =>
      obtain ⟨h1, _, ho, _⟩ := (Spec.leftmostFrom_eq_some_iff _ _ _ _ _).mp hl
      have hfit := ho.1
      rw [greedyFwdFrom_some hl, List.length_cons]
      have hm : max 1 x.size = x.size := by omega
      rw [hm]
      have h2 := ih (i + x.size)
      have e : hay.size - i = (hay.size - (i + x.size)) + x.size := by omega
      have h3 : (hay.size - i) / x.size = (hay.size - (i + x.size)) / x.size + 1 := by
        rw [e, Nat.add_div_right _ hx]
      have h4 : (hay.size - i) / x.size ≤ (hay.size - pos) / x.size :=
        Nat.div_le_div_right (by omega)
      omega

/-- **C08 (pure)**: `size_hint` brackets the number of matches still to come, in every state -/
theorem hint_brackets (hay x : Array UInt8) (pos fuel : Nat) (hf : hay.size + 1 - pos ≤ fuel) :
    (hintOf hay.size x.size pos).1 ≤ (Spec.greedyFwdFrom hay x pos fuel).length ∧
    ∀ hi, (hintOf hay.size x.size pos).2 = some hi →
      (Spec.greedyFwdFrom hay x pos fuel).length ≤ hi := by
  unfold hintOf
  by_cases hp : hay.size < pos
  · simp only [hp, if_true]
    rw [greedyFwdFrom_past hp]
    exact ⟨Nat.le_refl _, fun hi h => by simp⟩
  · simp only [hp, if_false]
    cases hx : x.size with
    | zero =>
      simp only []
      rw [greedyFwdFrom_empty hx fuel pos (by omega) hf]
      simp only [List.length_map, List.length_range, usizeSatAdd, usizeCheckedAdd]
      refine ⟨by split <;> omega, fun hi h => ?_⟩
      split at h
      · cases h
      · cases h; omega
    | succ m =>
      simp only []
      refine ⟨Nat.zero_le _, fun hi h => ?_⟩
      cases h
      rw [← hx]
      exact greedyFwdFrom_length_le (by omega) fuel pos

/-! ### C08 forward: the model iterator against the reference -/

/-- `&haystack[pos..]` -/
def dropSlice (s : Slice) (pos : Nat) : Slice := ⟨s.mem, s.off + pos, s.len - pos⟩

theorem dropSlice_valid {s : Slice} (hv : s.Valid) {pos : Nat} (h : pos ≤ s.len) :
    (dropSlice s pos).Valid := Fallback.drop_valid hv h

/-- occurrences in `&haystack[pos..]` are the occurrences in `haystack` at or after `pos` -/
theorem occAt_drop {hay : Slice} (hh : hay.Valid) (x : Array UInt8) {pos : Nat}
    (hp : pos ≤ hay.len) (q : Nat) :
    Spec.OccAt (dropSlice hay pos).toArray x q ↔ Spec.OccAt hay.toArray x (pos + q) := by
  have hv := dropSlice_valid hh hp
  unfold Spec.OccAt
  rw [Slice.toArray_size hv, Slice.toArray_size hh]
  have hlen : (dropSlice hay pos).len = hay.len - pos := rfl
  have key : ∀ k, q + k < hay.len - pos →
      (dropSlice hay pos).toArray[q + k]? = hay.toArray[pos + q + k]? := by
    intro k hk
    rw [Slice.toArray_getElem? hv _ (by rw [hlen]; exact hk),
      Slice.toArray_getElem? hh _ (by omega)]
    show some (Slice.getD ⟨hay.mem, hay.off + pos, hay.len - pos⟩ (q + k)) = _
    rw [Fallback.drop_getD, Nat.add_assoc]
  rw [hlen]
  constructor
  · rintro ⟨h1, h2⟩
    exact ⟨by omega, fun k hk => by rw [← key k (by omega)]; exact h2 k hk⟩
  · rintro ⟨h1, h2⟩
    exact ⟨by omega, fun k hk => by rw [key k (by omega)]; exact h2 k hk⟩

/-- the leftmost occurrence in `&haystack[pos..]`, shifted back, is the leftmost occurrence
at or after `pos` -/
theorem leftmost_drop {hay : Slice} (hh : hay.Valid) (x : Array UInt8) {pos : Nat}
    (hp : pos ≤ hay.len) :
    (Spec.leftmost (dropSlice hay pos).toArray x).map (pos + ·) =
      Spec.leftmostFrom hay.toArray x pos (hay.toArray.size + 1 - pos) := by
  rw [Slice.toArray_size hh]
  cases hr : Spec.leftmostFrom hay.toArray x pos (hay.len + 1 - pos) with
  | none =>
    rw [Spec.leftmostFrom_eq_none_iff] at hr
    have : Spec.leftmost (dropSlice hay pos).toArray x = none := by
      rw [Spec.leftmost_eq_none_iff]
      intro j hj
      rw [occAt_drop hh x hp] at hj
      have hle := hj.le_size
      rw [Slice.toArray_size hh] at hle
      exact hr (pos + j) (by omega) (by omega) hj
    rw [this]; rfl
  | some r =>
    obtain ⟨h1, h2, h3, h4⟩ := (Spec.leftmostFrom_eq_some_iff _ _ _ _ _).mp hr
    have : Spec.leftmost (dropSlice hay pos).toArray x = some (r - pos) := by
      rw [Spec.leftmost_eq_some_iff]
      refine ⟨?_, fun j hj ho => ?_⟩
      · rw [occAt_drop hh x hp, show pos + (r - pos) = r by omega]; exact h3
      · rw [occAt_drop hh x hp] at ho
        exact h4 (pos + j) (by omega) (by omega) ho
    rw [this]
    simp only [Option.map_some, Option.some.injEq]; omega

/-- a forward iterator over `hay` for the bytes of `n0` (any position, any prefilter state) -/
def FindIter.GoodFor (n0 hay : Slice) (it : FindIter) : Prop :=
  it.haystack = hay ∧ it.finder.GoodFor n0

/-- one `next()`: the leftmost occurrence at or after `pos`; `pos` moves past it -/
theorem FindIter.next_ok (cfg : Api.Cfg) {n0 hay : Slice} (hn0 : n0.Valid) (hh : hay.Valid)
    {it : FindIter} (hg : it.GoodFor n0 hay) (htw : it.finder.searcher.usesTwoWay → TwoWayFwdOk)
    (c : Ctr) :
    ∃ it' c', it.next cfg c =
        .ok (Spec.leftmostFrom hay.toArray n0.toArray it.pos (hay.toArray.size + 1 - it.pos), it') c' ∧
      it'.GoodFor n0 hay ∧ it'.finder = it.finder ∧
      it'.pos = (match Spec.leftmostFrom hay.toArray n0.toArray it.pos
          (hay.toArray.size + 1 - it.pos) with
        | none => it.pos
        | some i => i + max n0.toArray.size 1) := by
  obtain ⟨hhay, ⟨hv, hb⟩, hs⟩ := hg
  have hnl : it.finder.needleSlice.len = n0.len := (same_bytes hb).1
  unfold FindIter.next
  rw [hhay]
  by_cases hp : it.pos > hay.len
  · have hz : hay.toArray.size + 1 - it.pos = 0 := by rw [Slice.toArray_size hh]; omega
    simp only [hp, if_true, hz]
    exact ⟨it, c, rfl, ⟨hhay, ⟨hv, hb⟩, hs⟩, rfl, rfl⟩
  · have hp' : it.pos ≤ hay.len := by omega
    simp only [hp, if_false]
    obtain ⟨st', c', h⟩ := Searcher.find_good cfg (hs.congr hb) htw (dropSlice hay it.pos)
      (dropSlice_valid hh hp') hv it.prestate c
    rw [toArray_congr hv hn0 hb] at h
    have hd := leftmost_drop hh n0.toArray hp'
    have h' : it.finder.searcher.find cfg it.prestate
        ⟨hay.mem, hay.off + it.pos, hay.len - it.pos⟩ it.finder.needleSlice c = _ := h
    simp only [bind_ok h']
    rw [← hd]
    cases hl : Spec.leftmost (dropSlice hay it.pos).toArray n0.toArray with
    | none => exact ⟨_, c', rfl, ⟨rfl, ⟨hv, hb⟩, hs⟩, rfl, rfl⟩
    | some idx =>
      refine ⟨_, c', rfl, ⟨rfl, ⟨hv, hb⟩, hs⟩, rfl, ?_⟩
      simp only [Option.map_some, hnl, Slice.toArray_size hn0]

theorem FindIter.sizeHint_eq {n0 hay : Slice} (hn0 : n0.Valid) (hh : hay.Valid) {it : FindIter}
    (hg : it.GoodFor n0 hay) :
    it.sizeHint = hintOf hay.toArray.size n0.toArray.size it.pos := by
  obtain ⟨hhay, ⟨hv, hb⟩, hs⟩ := hg
  have hnl : it.finder.needleSlice.len = n0.len := (same_bytes hb).1
  unfold FindIter.sizeHint hintOf
  rw [hhay, hnl, Slice.toArray_size hn0, Slice.toArray_size hh]
  split
  · rfl
  · cases n0.len <;> rfl

def IterOp.own : IterOp → OwnOp
  | .clone => .clone
  | .intoOwned => .intoOwned
  | _ => .other

/-- **C08 / C16 / C17 / C10 for `FindIter`** (part A): any sequence of `next`, `size_hint`,
`clone`, `into_owned` on a forward iterator in any state returns normally with exactly the
observations of the reference machine started at the same position, and `refAllocs`
allocations. -/
theorem FindIter.run_ok (cfg : Api.Cfg) (n0 hay : Slice) (hn0 : n0.Valid) (hh : hay.Valid)
    (ops : List IterOp) (it : FindIter) (hg : it.GoodFor n0 hay)
    (htw : it.finder.searcher.usesTwoWay → TwoWayFwdOk) (h : Heap) (c : Ctr) :
    ∃ it' h' c', FindIter.run cfg ops it h c =
        .ok (refFwd hay.toArray n0.toArray ops it.pos, it', h') c' ∧
      it'.GoodFor n0 hay ∧
      h'.allocs = h.allocs + refAllocs n0.len it.finder.needle.own (ops.map IterOp.own) := by
  induction ops generalizing it h c with
  | nil => exact ⟨it, h, c, rfl, hg, rfl⟩
  | cons op ops ih =>
    have fin : ∀ (o : Option Out) (it1 : FindIter) (h1 : Heap) (c1 : Ctr),
        FindIter.step cfg op it h c = .ok (o, it1, h1) c1 → it1.GoodFor n0 hay →
        it1.finder.searcher = it.finder.searcher →
        it1.finder.needle.own = (IterOp.own op).next it.finder.needle.own →
        h1.allocs = h.allocs + (IterOp.own op).cost n0.len it.finder.needle.own →
        o.toList ++ refFwd hay.toArray n0.toArray ops it1.pos =
          refFwd hay.toArray n0.toArray (op :: ops) it.pos →
        ∃ it' h' c', FindIter.run cfg (op :: ops) it h c =
            .ok (refFwd hay.toArray n0.toArray (op :: ops) it.pos, it', h') c' ∧
          it'.GoodFor n0 hay ∧
          h'.allocs = h.allocs +
            refAllocs n0.len it.finder.needle.own ((op :: ops).map IterOp.own) := by
      intro o it1 h1 c1 hstep hg1 hs1 ho1 ha1 hout
      obtain ⟨it', h', c', hr, a, d⟩ := ih it1 hg1 (by rw [hs1]; exact htw) h1 c1
      refine ⟨it', h', c', ?_, a, ?_⟩
      · simp only [FindIter.run, bind_ok hstep, bind_ok hr]
        rw [← hout]; rfl
      · rw [d, ha1, ho1]; simp only [List.map_cons, refAllocs]; omega
    cases op with
    | next =>
      obtain ⟨it1, c1, h1, g1, f1, p1⟩ := FindIter.next_ok cfg hn0 hh hg htw c
      refine fin _ it1 h c1 (by simp only [FindIter.step, bind_ok h1]; rfl) g1 (by rw [f1])
        (by rw [f1]; rfl) (by simp [IterOp.own, OwnOp.cost_other]) ?_
      rw [p1]
      simp only [refFwd]
      cases Spec.leftmostFrom hay.toArray n0.toArray it.pos (hay.toArray.size + 1 - it.pos) <;> rfl
    | sizeHint =>
      refine fin (some (.hint it.sizeHint.1 it.sizeHint.2)) it h c rfl hg rfl rfl
        (by simp [IterOp.own, OwnOp.cost_other]) ?_
      rw [FindIter.sizeHint_eq hn0 hh hg]; rfl
    | clone =>
      obtain ⟨a, b, d, e⟩ := Finder.clone_good hg.2 h
      exact fin none (it.clone h).1 (it.clone h).2 c rfl ⟨hg.1, a⟩ b d e rfl
    | intoOwned =>
      obtain ⟨a, b, d, e⟩ := Finder.intoOwned_good hg.2 h
      exact fin none (it.intoOwned h).1 (it.intoOwned h).2 c rfl ⟨hg.1, a⟩ b d e rfl

/-- `finder.find_iter(haystack)` starts a good iterator at position 0 with a borrowed needle -/
theorem Finder.findIter_good {n0 : Slice} {f : Finder} (hg : f.GoodFor n0) (hay : Slice) :
    (f.findIter hay).GoodFor n0 hay ∧ (f.findIter hay).pos = 0 ∧
    (f.findIter hay).finder.needle.own = .borrowed ∧
    (f.findIter hay).finder.searcher = f.searcher :=
  ⟨⟨rfl, (Finder.asRef_good hg).1⟩, rfl, rfl, rfl⟩

/-- **C08.find_iter**: for a finder built for `needle` (any configuration, prefilter setting,
ranker), `k` calls of `next()` on `finder.find_iter(haystack)` return the first `k` entries of
`Spec.greedyFwd haystack needle` and then `None` forever; no fault, no allocation.
`TwoWayFwdOk` only where the strategy is a Two-Way kind. -/
theorem C08.find_iter (cfg : Api.Cfg) (needle hay : Slice) (hn : needle.Valid) (hh : hay.Valid)
    (f : Finder) (hg : f.GoodFor needle) (htw : f.searcher.usesTwoWay → TwoWayFwdOk)
    (k : Nat) (h : Heap) (c : Ctr) :
    ∃ it' h' c', FindIter.run cfg (List.replicate k .next) (f.findIter hay) h c =
        .ok ((List.range k).map
          (fun i => Out.idx ((Spec.greedyFwd hay.toArray needle.toArray)[i]?)), it', h') c' ∧
      h'.allocs = h.allocs := by
  obtain ⟨g, p, o, s⟩ := Finder.findIter_good hg hay
  obtain ⟨it', h', c', hr, _, ha⟩ := FindIter.run_ok cfg needle hay hn hh
    (List.replicate k .next) (f.findIter hay) g (by rw [s]; exact htw) h c
  rw [p, refFwd_greedy] at hr
  refine ⟨it', h', c', hr, ?_⟩
  rw [ha, o, refAllocs_borrowed _ _ (by simp [IterOp.own])]
  rfl

/-- **C08, `size_hint`**: in every state of a forward iterator (any position, any prefilter
state, borrowed or owned), `size_hint()` brackets the length of the list of matches its later
`next()` calls return (which is `greedyFwdFrom .. pos ..`, by `FindIter.run_ok` and
`refFwd_nexts`). -/
theorem C08.size_hint {n0 hay : Slice} (hn0 : n0.Valid) (hh : hay.Valid) {it : FindIter}
    (hg : it.GoodFor n0 hay) :
    it.sizeHint.1 ≤
      (Spec.greedyFwdFrom hay.toArray n0.toArray it.pos (hay.toArray.size + 1)).length ∧
    ∀ hi, it.sizeHint.2 = some hi →
      (Spec.greedyFwdFrom hay.toArray n0.toArray it.pos (hay.toArray.size + 1)).length ≤ hi := by
  rw [FindIter.sizeHint_eq hn0 hh hg]
  exact hint_brackets hay.toArray n0.toArray it.pos _ (by omega)

/-! ### C08 reverse, pure part -/

/-- one `next()` of the reference `FindRevIter` (state: `pos : Option<usize>`): the result and
the new state -/
def refRevStep (hay x : Array UInt8) : Option Nat → Option Nat × Option Nat
  | none => (none, none)
  | some p =>
    if p < x.size then (none, some p)
    else
      match Spec.rightmostBelow hay x (p - x.size + 1) with
      | none => (none, some p)
      | some i => (some i, if p = i then (if p = 0 then none else some (p - 1)) else some i)

def refRev (hay x : Array UInt8) : List IterOp → Option Nat → List Out
  | [], _ => []
  | .next :: ops, st =>
    .idx (refRevStep hay x st).1 :: refRev hay x ops (refRevStep hay x st).2
  | .sizeHint :: ops, st => .hint 0 none :: refRev hay x ops st
  | .clone :: ops, st => refRev hay x ops st
  | .intoOwned :: ops, st => refRev hay x ops st

/-- what is still to come from a state -/
def revRest (hay x : Array UInt8) (fuel : Nat) : Option Nat → List Nat
  | none => []
  | some p => Spec.greedyRevFrom hay x p fuel

/-- **C08 (pure)**: `k` calls of `next()` from a state yield the first `k` entries of
`greedyRevFrom` at that bound, then `None`s. -/
theorem refRev_nexts (hay x : Array UInt8) (k : Nat) : ∀ (st : Option Nat) (fuel : Nat),
    (∀ p, st = some p → p ≤ hay.size ∧ p + 1 ≤ fuel) →
    refRev hay x (List.replicate k .next) st =
      (List.range k).map (fun j => Out.idx ((revRest hay x fuel st)[j]?)) := by
  induction k with
  | zero => intro st fuel _; rfl
  | succ k ih =>
    intro st fuel hst
    rw [List.replicate_succ, range_succ_map]
    simp only [refRev]
    cases st with
    | none =>
      simp only [refRevStep]
      rw [ih none fuel (by intro p hp; cases hp)]
      simp [revRest]
    | some p =>
      obtain ⟨hp, hf⟩ := hst p rfl
      obtain ⟨f', rfl⟩ : ∃ f', fuel = f' + 1 := ⟨fuel - 1, by omega⟩
      simp only [refRevStep, revRest, Spec.greedyRevFrom]
      by_cases hlt : p < x.size
      · simp only [hlt, if_true]
        rw [ih (some p) (f' + 1) (by intro q hq; cases hq; exact ⟨hp, hf⟩)]
        simp [revRest, Spec.greedyRevFrom, hlt]
      · simp only [hlt, if_false]
        cases hr : Spec.rightmostBelow hay x (p - x.size + 1) with
        | none =>
          simp only []
          rw [ih (some p) (f' + 1) (by intro q hq; cases hq; exact ⟨hp, hf⟩)]
          simp [revRest, Spec.greedyRevFrom, hlt, hr]
        | some i =>
          simp only []
          obtain ⟨h1, h2, h3⟩ := (Spec.rightmostBelow_eq_some_iff _ _ _ _).mp hr
          by_cases hx : x.size = 0
          · -- the empty needle matches at `p` itself
            have hip : i = p := by
              by_cases hlt' : i < p
              · exact absurd ((occAt_empty hx p).mpr hp) (h3 p hlt' (by omega))
              · omega
            subst hip
            simp only [hx, if_true]
            by_cases h0 : i = 0
            · simp only [h0, if_true]
              rw [ih none f' (by intro q hq; cases hq)]
              simp [revRest]
            · simp only [h0, if_false]
              rw [ih (some (i - 1)) f' (by intro q hq; cases hq; exact ⟨by omega, by omega⟩)]
              simp [revRest]
          · have hfit := h2.1
            have hne : p ≠ i := by omega
            simp only [hx, hne, if_false]
            rw [ih (some i) f' (by intro q hq; cases hq; exact ⟨by omega, by omega⟩)]
            simp [revRest]

/-- **C08.rfind_iter (pure)**: from the start the `next()` results are `Spec.greedyRev` and
then `None` forever. -/
theorem refRev_greedy (hay x : Array UInt8) (k : Nat) :
    refRev hay x (List.replicate k .next) (some hay.size) =
      (List.range k).map (fun j => Out.idx ((Spec.greedyRev hay x)[j]?)) :=
  refRev_nexts hay x k (some hay.size) (hay.size + 1)
    (by intro p hp; cases hp; exact ⟨Nat.le_refl _, Nat.le_refl _⟩)

/-! ### C08 reverse: the model iterator against the reference -/

/-- `&haystack[..p]` -/
def takeSlice (s : Slice) (p : Nat) : Slice := ⟨s.mem, s.off, p⟩

theorem takeSlice_valid {s : Slice} (hv : s.Valid) {p : Nat} (h : p ≤ s.len) :
    (takeSlice s p).Valid := by
  unfold Slice.Valid at *
  show s.off + p ≤ s.mem.bytes.size
  omega

/-- occurrences in `&haystack[..p]` are the occurrences in `haystack` that end at or before `p` -/
theorem occAt_take {hay : Slice} (hh : hay.Valid) (x : Array UInt8) {p : Nat}
    (hp : p ≤ hay.len) (q : Nat) :
    Spec.OccAt (takeSlice hay p).toArray x q ↔ Spec.OccAt hay.toArray x q ∧ q + x.size ≤ p := by
  have hv := takeSlice_valid hh hp
  unfold Spec.OccAt
  rw [Slice.toArray_size hv, Slice.toArray_size hh]
  have hlen : (takeSlice hay p).len = p := rfl
  have key : ∀ k, q + k < p → (takeSlice hay p).toArray[q + k]? = hay.toArray[q + k]? := by
    intro k hk
    rw [Slice.toArray_getElem? hv _ (by rw [hlen]; exact hk),
      Slice.toArray_getElem? hh _ (by omega)]
    rfl
  rw [hlen]
  constructor
  · rintro ⟨h1, h2⟩
    exact ⟨⟨by omega, fun k hk => by rw [← key k (by omega)]; exact h2 k hk⟩, h1⟩
  · rintro ⟨⟨h1, h2⟩, h3⟩
    exact ⟨h3, fun k hk => by rw [key k (by omega)]; exact h2 k hk⟩

/-- the rightmost occurrence in `&haystack[..p]` -/
theorem rightmost_take {hay : Slice} (hh : hay.Valid) (x : Array UInt8) {p : Nat}
    (hp : p ≤ hay.len) :
    Spec.rightmost (takeSlice hay p).toArray x =
      if p < x.size then none else Spec.rightmostBelow hay.toArray x (p - x.size + 1) := by
  have hv := takeSlice_valid hh hp
  by_cases hlt : p < x.size
  · simp only [hlt, if_true]
    exact rightmost_of_short (by rw [Slice.toArray_size hv]; exact hlt)
  · simp only [hlt, if_false]
    cases hr : Spec.rightmostBelow hay.toArray x (p - x.size + 1) with
    | none =>
      rw [Spec.rightmostBelow_eq_none_iff] at hr
      rw [Spec.rightmost_eq_none_iff]
      intro j hj
      rw [occAt_take hh x hp] at hj
      exact hr j (by omega) hj.1
    | some r =>
      obtain ⟨h1, h2, h3⟩ := (Spec.rightmostBelow_eq_some_iff _ _ _ _).mp hr
      rw [Spec.rightmost_eq_some_iff]
      refine ⟨(occAt_take hh x hp r).mpr ⟨h2, by omega⟩, fun j hj ho => ?_⟩
      rw [occAt_take hh x hp] at ho
      exact h3 j hj (by omega) ho.1

/-- a reverse iterator over `hay` for the bytes of `n0` -/
def FindRevIter.GoodFor (n0 hay : Slice) (it : FindRevIter) : Prop :=
  it.haystack = hay ∧ it.finder.GoodFor n0 ∧ ∀ p, it.pos = some p → p ≤ hay.len

/-- one `next()` of the model is one step of the reference -/
theorem FindRevIter.next_ok (cfg : Api.Cfg) {n0 hay : Slice} (hn0 : n0.Valid) (hh : hay.Valid)
    {it : FindRevIter} (hg : it.GoodFor n0 hay)
    (htw : it.finder.searcher.usesTwoWay → TwoWayRevOk) (c : Ctr) :
    ∃ it' c', it.next cfg c = .ok ((refRevStep hay.toArray n0.toArray it.pos).1, it') c' ∧
      it'.GoodFor n0 hay ∧ it'.finder = it.finder ∧
      it'.pos = (refRevStep hay.toArray n0.toArray it.pos).2 := by
  obtain ⟨hhay, hf, hpos⟩ := hg
  unfold FindRevIter.next
  cases hp : it.pos with
  | none => exact ⟨it, c, rfl, ⟨hhay, hf, hpos⟩, rfl, by rw [hp]; rfl⟩
  | some p =>
    have hple := hpos p hp
    simp only [hhay]
    have htake : hay.take "FindRevIter::next: &self.haystack[..pos]" p = pure (takeSlice hay p) := by
      simp [Slice.take, hple, takeSlice]
    obtain ⟨c', h⟩ := FinderRev.rfind_ok cfg hf hn0 htw (takeSlice hay p)
      (takeSlice_valid hh hple) c
    rw [rightmost_take hh n0.toArray hple] at h
    simp only [htake, pure_bind', bind_ok h, refRevStep]
    by_cases hlt : p < n0.toArray.size
    · simp only [hlt, if_true]
      exact ⟨it, c', rfl, ⟨hhay, hf, hpos⟩, rfl, hp⟩
    · simp only [hlt, if_false]
      cases hr : Spec.rightmostBelow hay.toArray n0.toArray (p - n0.toArray.size + 1) with
      | none => exact ⟨it, c', rfl, ⟨hhay, hf, hpos⟩, rfl, hp⟩
      | some i =>
        obtain ⟨h1, _, _⟩ := (Spec.rightmostBelow_eq_some_iff _ _ _ _).mp hr
        simp only []
        by_cases hpi : p = i
        · subst hpi
          simp only [beq_self_eq_true, if_true]
          refine ⟨_, c', rfl, ⟨rfl, hf, ?_⟩, rfl, rfl⟩
          intro q hq
          simp only at hq
          split at hq
          · cases hq
          · cases hq; omega
        · have hb : (p == i) = false := by simp [hpi]
          simp only [hb, Bool.false_eq_true, if_false, hpi]
          refine ⟨_, c', rfl, ⟨rfl, hf, ?_⟩, rfl, rfl⟩
          intro q hq
          cases hq; omega

/-- **C08 / C16 / C17 for `FindRevIter`** (part A) -/
theorem FindRevIter.run_ok (cfg : Api.Cfg) (n0 hay : Slice) (hn0 : n0.Valid) (hh : hay.Valid)
    (ops : List IterOp) (it : FindRevIter) (hg : it.GoodFor n0 hay)
    (htw : it.finder.searcher.usesTwoWay → TwoWayRevOk) (h : Heap) (c : Ctr) :
    ∃ it' h' c', FindRevIter.run cfg ops it h c =
        .ok (refRev hay.toArray n0.toArray ops it.pos, it', h') c' ∧
      it'.GoodFor n0 hay ∧
      h'.allocs = h.allocs + refAllocs n0.len it.finder.needle.own (ops.map IterOp.own) := by
  induction ops generalizing it h c with
  | nil => exact ⟨it, h, c, rfl, hg, rfl⟩
  | cons op ops ih =>
    have fin : ∀ (o : Option Out) (it1 : FindRevIter) (h1 : Heap) (c1 : Ctr),
        FindRevIter.step cfg op it h c = .ok (o, it1, h1) c1 → it1.GoodFor n0 hay →
        it1.finder.searcher = it.finder.searcher →
        it1.finder.needle.own = (IterOp.own op).next it.finder.needle.own →
        h1.allocs = h.allocs + (IterOp.own op).cost n0.len it.finder.needle.own →
        o.toList ++ refRev hay.toArray n0.toArray ops it1.pos =
          refRev hay.toArray n0.toArray (op :: ops) it.pos →
        ∃ it' h' c', FindRevIter.run cfg (op :: ops) it h c =
            .ok (refRev hay.toArray n0.toArray (op :: ops) it.pos, it', h') c' ∧
          it'.GoodFor n0 hay ∧
          h'.allocs = h.allocs +
            refAllocs n0.len it.finder.needle.own ((op :: ops).map IterOp.own) := by
      intro o it1 h1 c1 hstep hg1 hs1 ho1 ha1 hout
      obtain ⟨it', h', c', hr, a, d⟩ := ih it1 hg1 (by rw [hs1]; exact htw) h1 c1
      refine ⟨it', h', c', ?_, a, ?_⟩
      · simp only [FindRevIter.run, bind_ok hstep, bind_ok hr]
        rw [← hout]; rfl
      · rw [d, ha1, ho1]; simp only [List.map_cons, refAllocs]; omega
    cases op with
    | next =>
      obtain ⟨it1, c1, h1, g1, f1, p1⟩ := FindRevIter.next_ok cfg hn0 hh hg htw c
      exact fin _ it1 h c1 (by simp only [FindRevIter.step, bind_ok h1]; rfl) g1 (by rw [f1])
        (by rw [f1]; rfl) (by simp [IterOp.own, OwnOp.cost_other]) (by rw [p1]; rfl)
    | sizeHint =>
      exact fin (some (.hint 0 none)) it h c rfl hg rfl rfl
        (by simp [IterOp.own, OwnOp.cost_other]) rfl
    | clone =>
      obtain ⟨a, b, d, e⟩ := FinderRev.clone_good hg.2.1 h
      exact fin none (it.clone h).1 (it.clone h).2 c rfl ⟨hg.1, a, hg.2.2⟩ b d e rfl
    | intoOwned =>
      obtain ⟨a, b, d, e⟩ := FinderRev.intoOwned_good hg.2.1 h
      exact fin none (it.intoOwned h).1 (it.intoOwned h).2 c rfl ⟨hg.1, a, hg.2.2⟩ b d e rfl

theorem FinderRev.rfindIter_good {n0 : Slice} {f : FinderRev} (hg : f.GoodFor n0) (hay : Slice) :
    (f.rfindIter hay).GoodFor n0 hay ∧ (f.rfindIter hay).pos = some hay.len ∧
    (f.rfindIter hay).finder.needle.own = .borrowed ∧
    (f.rfindIter hay).finder.searcher = f.searcher :=
  ⟨⟨rfl, (FinderRev.asRef_good hg).1, fun p hp => by cases hp; exact Nat.le_refl _⟩, rfl, rfl, rfl⟩

/-- **C08.rfind_iter**: `k` calls of `next()` on `finder.rfind_iter(haystack)` return the first
`k` entries of `Spec.greedyRev haystack needle` and then `None` forever; no fault, no
allocation.  `TwoWayRevOk` only where the strategy is Two-Way (needles of two or more bytes). -/
theorem C08.rfind_iter (cfg : Api.Cfg) (needle hay : Slice) (hn : needle.Valid) (hh : hay.Valid)
    (f : FinderRev) (hg : f.GoodFor needle) (htw : f.searcher.usesTwoWay → TwoWayRevOk)
    (k : Nat) (h : Heap) (c : Ctr) :
    ∃ it' h' c', FindRevIter.run cfg (List.replicate k .next) (f.rfindIter hay) h c =
        .ok ((List.range k).map
          (fun i => Out.idx ((Spec.greedyRev hay.toArray needle.toArray)[i]?)), it', h') c' ∧
      h'.allocs = h.allocs := by
  obtain ⟨g, p, o, s⟩ := FinderRev.rfindIter_good hg hay
  obtain ⟨it', h', c', hr, _, ha⟩ := FindRevIter.run_ok cfg needle hay hn hh
    (List.replicate k .next) (f.rfindIter hay) g (by rw [s]; exact htw) h c
  rw [p, ← Slice.toArray_size hh, refRev_greedy] at hr
  refine ⟨it', h', c', hr, ?_⟩
  rw [ha, o, refAllocs_borrowed _ _ (by simp [IterOp.own])]
  rfl

/-! ### end to end: build, iterate -/

/-- **C08.find_iter, end to end** for a `FinderBuilder` finder (any configuration, prefilter
setting and ranker): build, `find_iter`, `k` times `next()`. -/
theorem C08.find_iter_built (cfg : Api.Cfg) (b : FinderBuilder) (rank : UInt8 → UInt8)
    (needle hay : Slice) (hn : needle.Valid) (hh : hay.Valid)
    (htw : reachesTwoWay cfg needle → TwoWayFwdOk) (k : Nat) (h : Heap) (c : Ctr) :
    ∃ it' h' c', (b.buildForwardWithRanker cfg rank needle >>= fun f =>
        FindIter.run cfg (List.replicate k .next) (f.findIter hay) h) c =
        .ok ((List.range k).map
          (fun i => Out.idx ((Spec.greedyFwd hay.toArray needle.toArray)[i]?)), it', h') c' ∧
      h'.allocs = h.allocs := by
  obtain ⟨f, c1, hb, hg, _, _, hu⟩ := FinderBuilder.build_ok cfg b rank needle hn htw c
  obtain ⟨it', h', c', hr, ha⟩ := C08.find_iter cfg needle hay hn hh f hg (fun u => htw (hu u)) k h c1
  exact ⟨it', h', c', by rw [bind_ok hb, hr], ha⟩

/-- FULL STATEMENT: the same without `tw`. -/
theorem C08.find_iter_partial (tw : TwoWayFwdOk) (cfg : Api.Cfg) (b : FinderBuilder)
    (rank : UInt8 → UInt8) (needle hay : Slice) (hn : needle.Valid) (hh : hay.Valid) (k : Nat)
    (h : Heap) (c : Ctr) :
    ∃ it' h' c', (b.buildForwardWithRanker cfg rank needle >>= fun f =>
        FindIter.run cfg (List.replicate k .next) (f.findIter hay) h) c =
        .ok ((List.range k).map
          (fun i => Out.idx ((Spec.greedyFwd hay.toArray needle.toArray)[i]?)), it', h') c' ∧
      h'.allocs = h.allocs :=
  C08.find_iter_built cfg b rank needle hay hn hh (fun _ => tw) k h c

/-- the top-level `memmem::find_iter(haystack, needle)` (it moves the finder into the iterator
instead of borrowing it) -/
theorem C08.top_find_iter (cfg : Api.Cfg) (needle hay : Slice) (hn : needle.Valid)
    (hh : hay.Valid) (htw : reachesTwoWay cfg needle → TwoWayFwdOk) (k : Nat) (h : Heap) (c : Ctr) :
    ∃ it' h' c', (Memmem.findIter cfg hay needle >>= fun it =>
        FindIter.run cfg (List.replicate k .next) it h) c =
        .ok ((List.range k).map
          (fun i => Out.idx ((Spec.greedyFwd hay.toArray needle.toArray)[i]?)), it', h') c' ∧
      h'.allocs = h.allocs := by
  obtain ⟨f, c1, hb, hg, ho, _, hu⟩ :=
    FinderBuilder.build_ok cfg FinderBuilder.new Pair.defaultRank needle hn htw c
  have hb' : Finder.new cfg needle c = .ok f c1 := hb
  obtain ⟨it', h', c', hr, _, ha⟩ := FindIter.run_ok cfg needle hay hn hh
    (List.replicate k .next) (FindIter.new hay f) ⟨rfl, hg⟩ (fun u => htw (hu u)) h c1
  have hp : (FindIter.new hay f).pos = 0 := rfl
  rw [hp, refFwd_greedy] at hr
  refine ⟨it', h', c', by simp only [Memmem.findIter, bind, M.bind, hb', pure, M.pure]; exact hr, ?_⟩
  rw [ha]
  show _ + refAllocs needle.len f.needle.own _ = _
  rw [ho, refAllocs_borrowed _ _ (by simp [IterOp.own])]
  rfl

/-- **C08.rfind_iter, end to end**: `FinderRev::new`, `rfind_iter`, `k` times `next()`. -/
theorem C08.rfind_iter_built (cfg : Api.Cfg) (needle hay : Slice) (hn : needle.Valid)
    (hh : hay.Valid) (htw : 2 ≤ needle.len → TwoWayRevOk) (k : Nat) (h : Heap) (c : Ctr) :
    ∃ it' h' c', (FinderRev.new needle >>= fun f =>
        FindRevIter.run cfg (List.replicate k .next) (f.rfindIter hay) h) c =
        .ok ((List.range k).map
          (fun i => Out.idx ((Spec.greedyRev hay.toArray needle.toArray)[i]?)), it', h') c' ∧
      h'.allocs = h.allocs := by
  obtain ⟨f, c1, hb, hg, _, hu⟩ := FinderRev.new_ok needle hn htw c
  obtain ⟨it', h', c', hr, ha⟩ :=
    C08.rfind_iter cfg needle hay hn hh f hg (fun u => htw (hu u)) k h c1
  exact ⟨it', h', c', by rw [bind_ok hb, hr], ha⟩

/-- FULL STATEMENT: the same without `tw`. -/
theorem C08.rfind_iter_partial (tw : TwoWayRevOk) (cfg : Api.Cfg) (needle hay : Slice)
    (hn : needle.Valid) (hh : hay.Valid) (k : Nat) (h : Heap) (c : Ctr) :
    ∃ it' h' c', (FinderRev.new needle >>= fun f =>
        FindRevIter.run cfg (List.replicate k .next) (f.rfindIter hay) h) c =
        .ok ((List.range k).map
          (fun i => Out.idx ((Spec.greedyRev hay.toArray needle.toArray)[i]?)), it', h') c' ∧
      h'.allocs = h.allocs :=
  C08.rfind_iter_built cfg needle hay hn hh (fun _ => tw) k h c

/-! ### C16: conversions are invisible -/

/-- `as_ref` / `into_owned` / `clone` -/
def FinderOp.isConv : FinderOp → Bool
  | .asRef => true
  | .intoOwned => true
  | .clone => true
  | _ => false

def IterOp.isConv : IterOp → Bool
  | .clone => true
  | .intoOwned => true
  | _ => false

theorem refFinder_filter (x : Array UInt8) (ops : List FinderOp) :
    refFinder x ops = refFinder x (ops.filter (fun o => !o.isConv)) := by
  induction ops with
  | nil => rfl
  | cons op ops ih => cases op <;> simp [refFinder, FinderOp.isConv, ih]

theorem refFwd_filter (hay x : Array UInt8) (ops : List IterOp) : ∀ pos,
    refFwd hay x ops pos = refFwd hay x (ops.filter (fun o => !o.isConv)) pos := by
  induction ops with
  | nil => intro pos; rfl
  | cons op ops ih =>
    intro pos
    cases op <;> simp only [refFwd, IterOp.isConv, List.filter_cons, Bool.not_true,
      Bool.not_false, Bool.false_eq_true, if_true, if_false, ih]

theorem refRev_filter (hay x : Array UInt8) (ops : List IterOp) : ∀ st,
    refRev hay x ops st = refRev hay x (ops.filter (fun o => !o.isConv)) st := by
  induction ops with
  | nil => intro st; rfl
  | cons op ops ih =>
    intro st
    cases op <;> simp only [refRev, IterOp.isConv, List.filter_cons, Bool.not_true,
      Bool.not_false, Bool.false_eq_true, if_true, if_false, ih]

/-- **C16 for finders**: an operation sequence and the same sequence with every `as_ref`,
`clone`, `into_owned` removed (or any others inserted) observe the same values; and two
finders for the same needle bytes - however built, configured, borrowed or owned, and whatever
they searched before - observe the same values. -/
theorem C16.finder (cfg cfg' : Api.Cfg) (n0 : Slice) (hn0 : n0.Valid) (ops ops' : List FinderOp)
    (hops : ∀ op ∈ ops, op.Ok) (hops' : ∀ op ∈ ops', op.Ok)
    (hsame : ops.filter (fun o => !o.isConv) = ops'.filter (fun o => !o.isConv))
    (f f' : Finder) (hg : f.GoodFor n0) (hg' : f'.GoodFor n0)
    (htw : f.searcher.usesTwoWay ∨ f'.searcher.usesTwoWay → TwoWayFwdOk) (h h' : Heap)
    (c c' : Ctr) :
    ∃ outs f1 h1 c1 f1' h1' c1', Finder.run cfg ops f h c = .ok (outs, f1, h1) c1 ∧
      Finder.run cfg' ops' f' h' c' = .ok (outs, f1', h1') c1' := by
  obtain ⟨f1, h1, c1, hr, _⟩ := Finder.run_ok cfg n0 hn0 ops hops f hg (fun u => htw (Or.inl u)) h c
  obtain ⟨f1', h1', c1', hr', _⟩ :=
    Finder.run_ok cfg' n0 hn0 ops' hops' f' hg' (fun u => htw (Or.inr u)) h' c'
  refine ⟨_, f1, h1, c1, f1', h1', c1', hr, ?_⟩
  rw [hr', refFinder_filter _ ops, refFinder_filter _ ops', hsame]

/-- **C16 for `find_iter`**: two forward iterators over the same haystack for the same needle
bytes at the same position - whatever their prefilter states, ownership, configuration - observe
the same values under operation sequences that agree up to `clone` / `into_owned`. -/
theorem C16.find_iter (cfg cfg' : Api.Cfg) (n0 hay : Slice) (hn0 : n0.Valid) (hh : hay.Valid)
    (ops ops' : List IterOp)
    (hsame : ops.filter (fun o => !o.isConv) = ops'.filter (fun o => !o.isConv))
    (it it' : FindIter) (hg : it.GoodFor n0 hay) (hg' : it'.GoodFor n0 hay)
    (hpos : it.pos = it'.pos)
    (htw : it.finder.searcher.usesTwoWay ∨ it'.finder.searcher.usesTwoWay → TwoWayFwdOk)
    (h h' : Heap) (c c' : Ctr) :
    ∃ outs i1 h1 c1 i1' h1' c1', FindIter.run cfg ops it h c = .ok (outs, i1, h1) c1 ∧
      FindIter.run cfg' ops' it' h' c' = .ok (outs, i1', h1') c1' := by
  obtain ⟨i1, h1, c1, hr, _⟩ :=
    FindIter.run_ok cfg n0 hay hn0 hh ops it hg (fun u => htw (Or.inl u)) h c
  obtain ⟨i1', h1', c1', hr', _⟩ :=
    FindIter.run_ok cfg' n0 hay hn0 hh ops' it' hg' (fun u => htw (Or.inr u)) h' c'
  refine ⟨_, i1, h1, c1, i1', h1', c1', hr, ?_⟩
  rw [hr', refFwd_filter _ _ ops, refFwd_filter _ _ ops', hsame, hpos]

/-- **C16 for `rfind_iter`** -/
theorem C16.rfind_iter (cfg cfg' : Api.Cfg) (n0 hay : Slice) (hn0 : n0.Valid) (hh : hay.Valid)
    (ops ops' : List IterOp)
    (hsame : ops.filter (fun o => !o.isConv) = ops'.filter (fun o => !o.isConv))
    (it it' : FindRevIter) (hg : it.GoodFor n0 hay) (hg' : it'.GoodFor n0 hay)
    (hpos : it.pos = it'.pos)
    (htw : it.finder.searcher.usesTwoWay ∨ it'.finder.searcher.usesTwoWay → TwoWayRevOk)
    (h h' : Heap) (c c' : Ctr) :
    ∃ outs i1 h1 c1 i1' h1' c1', FindRevIter.run cfg ops it h c = .ok (outs, i1, h1) c1 ∧
      FindRevIter.run cfg' ops' it' h' c' = .ok (outs, i1', h1') c1' := by
  obtain ⟨i1, h1, c1, hr, _⟩ :=
    FindRevIter.run_ok cfg n0 hay hn0 hh ops it hg (fun u => htw (Or.inl u)) h c
  obtain ⟨i1', h1', c1', hr', _⟩ :=
    FindRevIter.run_ok cfg' n0 hay hn0 hh ops' it' hg' (fun u => htw (Or.inr u)) h' c'
  refine ⟨_, i1, h1, c1, i1', h1', c1', hr, ?_⟩
  rw [hr', refRev_filter _ _ ops, refRev_filter _ _ ops', hsame, hpos]

/-! ### C17 -/

/-- **C17 for finders**: a finder built by `FinderBuilder` (borrowed needle) and any operation
sequence without `into_owned` - any number of `find`, `as_ref`, `clone`, `needle` - leaves the
allocation counter unchanged.  (Construction and the search functions do not even take the
heap: only `into_owned` and `clone` do, and `Finder.run_ok` gives the exact count
`refAllocs` for every sequence.) -/
theorem C17.finder_no_alloc (cfg : Api.Cfg) (n0 : Slice) (hn0 : n0.Valid) (ops : List FinderOp)
    (hops : ∀ op ∈ ops, op.Ok) (hno : FinderOp.intoOwned ∉ ops) (f : Finder) (hg : f.GoodFor n0)
    (hb : f.needle.own = .borrowed) (htw : f.searcher.usesTwoWay → TwoWayFwdOk) (h : Heap)
    (c : Ctr) :
    ∃ outs f' h' c', Finder.run cfg ops f h c = .ok (outs, f', h') c' ∧ h'.allocs = h.allocs := by
  obtain ⟨f', h', c', hr, _, _, ha⟩ := Finder.run_ok cfg n0 hn0 ops hops f hg htw h c
  refine ⟨_, f', h', c', hr, ?_⟩
  rw [ha, hb, refAllocs_borrowed]
  · rfl
  · intro hm
    obtain ⟨op, hop, he⟩ := List.mem_map.mp hm
    cases op <;> simp [FinderOp.own] at he
    exact hno hop

/-- exact count, an instance: `into_owned` of a borrowed non-empty needle, then `clone`, then
`as_ref`, then `clone` again allocates exactly twice -/
example : refAllocs 3 .borrowed [.intoOwned, .other, .clone, .asRef, .clone] = 2 := by decide

/-! ### the hypotheses are satisfiable -/

example : (⟨⟨1, 1048577, #[0, 97, 98, 0]⟩, 1, 2⟩ : Slice).Valid ∧
    (⟨⟨0, 4099, #[120, 97, 98, 97, 98, 120]⟩, 1, 4⟩ : Slice).Valid ∧
    FinderOp.Ok (.find ⟨⟨0, 4099, #[120, 97, 98, 97, 98, 120]⟩, 1, 4⟩) ∧
    FinderOp.intoOwned ∉ [FinderOp.find ⟨⟨0, 4099, #[120, 97, 98, 97, 98, 120]⟩, 1, 4⟩,
      .asRef, .clone, .needle] := by
  refine ⟨by simp [Slice.Valid], by simp [Slice.Valid], by simp [FinderOp.Ok, Slice.Valid],
    by simp⟩

/-! ### iterating to exhaustion (`FindIter.countLoop`, `Finder.countIter`) -/

/-- never more matches than offsets left -/
theorem greedyFwdFrom_length_le_all (hay x : Array UInt8) : ∀ (fuel pos : Nat),
    (Spec.greedyFwdFrom hay x pos fuel).length ≤ hay.size + 1 - pos := by
  intro fuel
  induction fuel with
  | zero => intro pos; simp [Spec.greedyFwdFrom]
  | succ f ih =>
    intro pos
    cases hl : Spec.leftmostFrom hay x pos (hay.size + 1 - pos) with
    | none => rw [greedyFwdFrom_none hl]; simp
    | some i =>
      obtain ⟨h1, _, ho, _⟩ := (Spec.leftmostFrom_eq_some_iff _ _ _ _ _).mp hl
      have hle := ho.le_size
      rw [greedyFwdFrom_some hl, List.length_cons]
      have := ih (i + max 1 x.size)
      omega

/-- the counting loop on a good iterator: with enough fuel it returns `acc` plus the number of
matches still to come, and the fuel fault is not reached -/
theorem FindIter.countLoop_ok (cfg : Api.Cfg) {n0 hay : Slice} (hn0 : n0.Valid) (hh : hay.Valid) :
    ∀ (fuel : Nat) (it : FindIter) (acc g : Nat) (c : Ctr), it.GoodFor n0 hay →
    (it.finder.searcher.usesTwoWay → TwoWayFwdOk) → hay.toArray.size + 1 - it.pos ≤ g →
    (Spec.greedyFwdFrom hay.toArray n0.toArray it.pos g).length + 1 ≤ fuel →
    ∃ c', FindIter.countLoop cfg fuel it acc c =
      .ok (acc + (Spec.greedyFwdFrom hay.toArray n0.toArray it.pos g).length) c' := by
  intro fuel
  induction fuel with
  | zero => intro it acc g c _ _ _ hf; omega
  | succ fuel ih =>
    intro it acc g c hg htw hgf hf
    obtain ⟨it', c1, h1, g1, f1, p1⟩ := FindIter.next_ok cfg hn0 hh hg htw c
    simp only [FindIter.countLoop, bind_ok h1]
    cases hl : Spec.leftmostFrom hay.toArray n0.toArray it.pos (hay.toArray.size + 1 - it.pos) with
    | none =>
      rw [greedyFwdFrom_none hl]
      exact ⟨c1, rfl⟩
    | some i =>
      obtain ⟨a1, a2, _, _⟩ := (Spec.leftmostFrom_eq_some_iff _ _ _ _ _).mp hl
      obtain ⟨g', rfl⟩ : ∃ g', g = g' + 1 := ⟨g - 1, by omega⟩
      rw [hl] at p1
      simp only [] at p1
      rw [greedyFwdFrom_some hl, List.length_cons] at hf ⊢
      rw [Nat.max_comm] at p1
      rw [← p1] at hf ⊢
      obtain ⟨c', h'⟩ := ih it' (acc + 1) g' c1 g1 (by rw [f1]; exact htw) (by omega) (by omega)
      refine ⟨c', ?_⟩
      show FindIter.countLoop cfg fuel it' (acc + 1) c1 = _
      rw [h']; congr 1; omega

/-- **`finder.find_iter(haystack)` run to exhaustion** counts `Spec.greedyFwd` (C08), for a
finder in any ownership state (C16), without a fault and - the function not taking the heap -
without allocation (C17). -/
theorem Finder.countIter_ok (cfg : Api.Cfg) {n0 : Slice} {f : Finder} (hg : f.GoodFor n0)
    (hn0 : n0.Valid) (htw : f.searcher.usesTwoWay → TwoWayFwdOk) (hay : Slice) (hh : hay.Valid)
    (c : Ctr) :
    ∃ c', f.countIter cfg hay c = .ok (Spec.greedyFwd hay.toArray n0.toArray).length c' := by
  obtain ⟨g, p, _, s⟩ := Finder.findIter_good hg hay
  have hb := greedyFwdFrom_length_le_all hay.toArray n0.toArray (hay.toArray.size + 1) 0
  obtain ⟨c', h⟩ := FindIter.countLoop_ok cfg hn0 hh (hay.len + 2) (f.findIter hay) 0
    (hay.toArray.size + 1) c g (by rw [s]; exact htw) (by omega)
    (by rw [p]; rw [Slice.toArray_size hh] at hb ⊢; omega)
  rw [p, Nat.zero_add] at h
  exact ⟨c', h⟩

/-! #### reverse -/

/-- one reference step, on the list of what is still to come -/
theorem revRest_step (hay x : Array UInt8) (st : Option Nat) (g : Nat)
    (hst : ∀ p, st = some p → p ≤ hay.size ∧ p + 1 ≤ g + 1) :
    (match (refRevStep hay x st).1 with
      | none => revRest hay x (g + 1) st = []
      | some i => revRest hay x (g + 1) st = i :: revRest hay x g (refRevStep hay x st).2 ∧
          ∀ q, (refRevStep hay x st).2 = some q → q ≤ hay.size ∧ q + 1 ≤ g ∧
            ∀ p, st = some p → q < p) := by
  cases st with
  | none => simp [refRevStep, revRest]
  | some p =>
    obtain ⟨hp, hf⟩ := hst p rfl
    simp only [refRevStep, revRest, Spec.greedyRevFrom]
    by_cases hlt : p < x.size
    · simp [hlt]
    · simp only [hlt, if_false]
      cases hr : Spec.rightmostBelow hay x (p - x.size + 1) with
      | none => simp
      | some i =>
        simp only []
        obtain ⟨h1, h2, h3⟩ := (Spec.rightmostBelow_eq_some_iff _ _ _ _).mp hr
        by_cases hx : x.size = 0
        · have hip : i = p := by
            by_cases hlt' : i < p
            · exact absurd ((occAt_empty hx p).mpr hp) (h3 p hlt' (by omega))
            · omega
          subst hip
          simp only [hx, if_true]
          by_cases h0 : i = 0
          · simp [h0]
          · simp only [h0, if_false, true_and]
            intro q hq; cases hq
            exact ⟨by omega, by omega, fun p' hp' => by cases hp'; omega⟩
        · have hfit := h2.1
          have hne : p ≠ i := by omega
          simp only [hx, hne, if_false, true_and]
          intro q hq; cases hq
          exact ⟨by omega, by omega, fun p' hp' => by cases hp'; omega⟩

theorem revRest_length_le (hay x : Array UInt8) : ∀ (g : Nat) (st : Option Nat),
    (∀ p, st = some p → p ≤ hay.size ∧ p + 1 ≤ g) →
    (revRest hay x g st).length ≤ (match st with | none => 0 | some p => p + 1) := by
  intro g
  induction g with
  | zero =>
    intro st hst
    cases st with
    | none => simp [revRest]
    | some p => have := (hst p rfl).2; omega
  | succ g ih =>
    intro st hst
    have hs := revRest_step hay x st g hst
    cases hr : (refRevStep hay x st).1 with
    | none => rw [hr] at hs; simp only [] at hs; rw [hs]; simp
    | some i =>
      rw [hr] at hs
      obtain ⟨e, hq⟩ := hs
      rw [e, List.length_cons]
      have := ih _ (fun q h => ⟨(hq q h).1, (hq q h).2.1⟩)
      cases st with
      | none => simp [refRevStep] at hr
      | some p =>
        cases h2 : (refRevStep hay x (some p)).2 with
        | none => rw [h2] at this; simp only [] at this ⊢; omega
        | some q =>
          rw [h2] at this
          have hlt := (hq q h2).2.2 p rfl
          simp only [] at this ⊢
          omega

theorem FindRevIter.countLoop_ok (cfg : Api.Cfg) {n0 hay : Slice} (hn0 : n0.Valid)
    (hh : hay.Valid) : ∀ (fuel : Nat) (it : FindRevIter) (acc g : Nat) (c : Ctr),
    it.GoodFor n0 hay → (it.finder.searcher.usesTwoWay → TwoWayRevOk) →
    (∀ p, it.pos = some p → p ≤ hay.toArray.size ∧ p + 1 ≤ g) →
    (revRest hay.toArray n0.toArray g it.pos).length + 1 ≤ fuel →
    ∃ c', FindRevIter.countLoop cfg fuel it acc c =
      .ok (acc + (revRest hay.toArray n0.toArray g it.pos).length) c' := by
  intro fuel
  induction fuel with
  | zero => intro it acc g c _ _ _ hf; omega
  | succ fuel ih =>
    intro it acc g c hg htw hst hf
    obtain ⟨it', c1, h1, g1, f1, p1⟩ := FindRevIter.next_ok cfg hn0 hh hg htw c
    simp only [FindRevIter.countLoop, bind_ok h1]
    cases g with
    | zero =>
      -- only the exhausted state fits fuel 0
      cases hp : it.pos with
      | some p => have := (hst p hp).2; omega
      | none => simp [refRevStep, revRest]
    | succ g' =>
      have hs := revRest_step hay.toArray n0.toArray it.pos g' hst
      cases hr : (refRevStep hay.toArray n0.toArray it.pos).1 with
      | none =>
        rw [hr] at hs; simp only [] at hs
        rw [hs]
        exact ⟨c1, rfl⟩
      | some i =>
        rw [hr] at hs
        obtain ⟨e, hq⟩ := hs
        simp only []
        rw [e, List.length_cons] at hf ⊢
        rw [← p1] at e hq hf ⊢
        obtain ⟨c', h'⟩ := ih it' (acc + 1) g' c1 g1 (by rw [f1]; exact htw)
          (fun q h => ⟨(hq q h).1, (hq q h).2.1⟩) (by omega)
        refine ⟨c', ?_⟩
        show FindRevIter.countLoop cfg fuel it' (acc + 1) c1 = _
        rw [h']; congr 1; omega

/-- **`finder.rfind_iter(haystack)` run to exhaustion** counts `Spec.greedyRev`. -/
theorem FinderRev.countIter_ok (cfg : Api.Cfg) {n0 : Slice} {f : FinderRev} (hg : f.GoodFor n0)
    (hn0 : n0.Valid) (htw : f.searcher.usesTwoWay → TwoWayRevOk) (hay : Slice) (hh : hay.Valid)
    (c : Ctr) :
    ∃ c', f.countIter cfg hay c = .ok (Spec.greedyRev hay.toArray n0.toArray).length c' := by
  obtain ⟨g, p, _, s⟩ := FinderRev.rfindIter_good hg hay
  have hsz := Slice.toArray_size hh
  have hst : ∀ q, (f.rfindIter hay).pos = some q →
      q ≤ hay.toArray.size ∧ q + 1 ≤ hay.toArray.size + 1 := by
    intro q hq; rw [p] at hq; cases hq; omega
  have hb := revRest_length_le hay.toArray n0.toArray (hay.toArray.size + 1) (f.rfindIter hay).pos hst
  rw [p] at hb
  simp only [] at hb
  obtain ⟨c', h⟩ := FindRevIter.countLoop_ok cfg hn0 hh (hay.len + 2) (f.rfindIter hay) 0
    (hay.toArray.size + 1) c g (by rw [s]; exact htw) hst (by rw [p]; omega)
  rw [p, Nat.zero_add] at h
  have e : Spec.greedyRev hay.toArray n0.toArray =
      revRest hay.toArray n0.toArray (hay.toArray.size + 1) (some hay.len) := by
    rw [← hsz]; rfl
  rw [e]
  exact ⟨c', h⟩

end Memchr.Memmem

section AxiomCheck
open Memchr.Memmem
#print axioms Finder.find_ok
#print axioms Finder.run_ok
#print axioms C03.builder_find
#print axioms C03.oneshot
#print axioms C03.oneshot_partial
#print axioms C03.oneshot_empty
#print axioms C04.finder_rfind
#print axioms C04.oneshot
#print axioms C04.oneshot_partial
#print axioms C04.oneshot_empty
#print axioms C10.builder_indep
#print axioms refFwd_greedy
#print axioms hint_brackets
#print axioms refRev_greedy
#print axioms FindIter.run_ok
#print axioms FindRevIter.run_ok
#print axioms C08.find_iter
#print axioms C08.find_iter_built
#print axioms C08.find_iter_partial
#print axioms C08.top_find_iter
#print axioms C08.size_hint
#print axioms C08.rfind_iter
#print axioms C08.rfind_iter_built
#print axioms C08.rfind_iter_partial
#print axioms C16.finder
#print axioms C16.find_iter
#print axioms C16.rfind_iter
#print axioms C17.finder_no_alloc
#print axioms Finder.countIter_ok
#print axioms FinderRev.countIter_ok
end AxiomCheck
