/-
One `Finder` / `FinderRev` shared by several threads (C15, substring part).

`Finder::find(&self, haystack)` takes the finder by shared reference and the finder has no
interior mutability (the per-search `PrefilterState` is created inside `find` and lives on the
caller's stack), so in the model a search is a function of the finder VALUE and leaves it
unchanged (`Finder.step cfg (.find hay) f h` returns `f`).  A concurrent use of one shared finder
is therefore a global order of `find` calls, each tagged with the thread that made it
(`Sched`); the lemmas here say that what thread `t` observes in ANY such order is what it
observes when it runs its own calls alone.

Only list bookkeeping lives here; the content comes from `Memmem.C16.finder_run_all` /
`Bridge3.finderRev_run_all` (any operation sequence observes the reference machine).
-/
import MemchrModel.Proofs.PropsBridge3

namespace Memchr.SharedFinder

open Memchr Memchr.Memmem

/-- a global order of `find` calls on one shared finder: (thread, haystack) -/
abbrev Sched := List (Nat × Slice)

/-- the operation sequence the shared finder sees -/
def opsOf (s : Sched) : List FinderOp := s.map (fun p => FinderOp.find p.2)

/-- the calls of thread `t`, in its program order -/
def alone (t : Nat) (s : Sched) : Sched := s.filter (fun p => p.1 == t)

/-- what thread `t` observed: the outputs at the positions of its own calls -/
def project (t : Nat) : Sched → List Out → List Out
  | p :: s, o :: outs => if p.1 == t then o :: project t s outs else project t s outs
  | _, _ => []

theorem opsOf_ok (s : Sched) (hs : ∀ p ∈ s, p.2.Valid) : ∀ op ∈ opsOf s, op.Ok := by
  intro op hop
  simp only [opsOf, List.mem_map] at hop
  obtain ⟨p, hp, rfl⟩ := hop
  exact hs p hp

theorem alone_valid (t : Nat) (s : Sched) (hs : ∀ p ∈ s, p.2.Valid) :
    ∀ p ∈ alone t s, p.2.Valid := by
  intro p hp
  exact hs p (List.mem_filter.mp hp).1

/-- the reference machine on a `find`-only sequence: one output per call, each a function of the
needle bytes and THAT call's haystack -/
theorem refFinder_opsOf (x : Array UInt8) (s : Sched) :
    refFinder x (opsOf s) = s.map (fun p => Out.idx (Spec.leftmost p.2.toArray x)) := by
  induction s with
  | nil => rfl
  | cons p s ih => simp only [opsOf, List.map_cons, refFinder] at ih ⊢; rw [ih]

theorem refFinderRev_opsOf (x : Array UInt8) (s : Sched) :
    Bridge3.refFinderRev x (opsOf s) =
      s.map (fun p => Out.idx (Spec.rightmost p.2.toArray x)) := by
  induction s with
  | nil => rfl
  | cons p s ih => simp only [opsOf, List.map_cons, Bridge3.refFinderRev] at ih ⊢; rw [ih]

/-- projecting a per-call map onto thread `t` is the map over `t`'s own calls -/
theorem project_map (t : Nat) (g : Nat × Slice → Out) (s : Sched) :
    project t s (s.map g) = (alone t s).map g := by
  induction s with
  | nil => rfl
  | cons p s ih =>
    simp only [List.map_cons, project, alone, List.filter_cons]
    by_cases h : (p.1 == t) = true
    · simp only [h, if_true, List.map_cons]; rw [ih]; rfl
    · simp only [h, if_false, Bool.false_eq_true]; rw [ih]; rfl

/-- **thread `t` observes, in any global order, what it observes alone** (reference level) -/
theorem project_ref (x : Array UInt8) (t : Nat) (s : Sched) :
    project t s (refFinder x (opsOf s)) = refFinder x (opsOf (alone t s)) := by
  rw [refFinder_opsOf, refFinder_opsOf, project_map]

theorem project_refRev (x : Array UInt8) (t : Nat) (s : Sched) :
    project t s (Bridge3.refFinderRev x (opsOf s)) =
      Bridge3.refFinderRev x (opsOf (alone t s)) := by
  rw [refFinderRev_opsOf, refFinderRev_opsOf, project_map]

/-- a shared forward finder: for every configuration, builder, ranker, valid needle and EVERY
global order `s` of `find` calls on valid haystacks, the run returns normally, and for every
thread `t` the outputs at `t`'s calls are exactly the outputs of building a finder for the
same needle and running `t`'s calls ALONE. -/
theorem shared_finder (cfg : Api.Cfg) (b : FinderBuilder) (rank : UInt8 → UInt8)
    (needle : Slice) (hn : needle.Valid) (s : Sched) (hs : ∀ p ∈ s, p.2.Valid)
    (h : Heap) (c : Ctr) :
    ∃ outs f' h' c',
      (b.buildForwardWithRanker cfg rank needle >>= fun f => Finder.run cfg (opsOf s) f h) c =
        .ok (outs, f', h') c' ∧
      outs = s.map (fun p => Out.idx (Spec.leftmost p.2.toArray needle.toArray)) ∧
      ∀ t, ∃ f1 h1 c1,
        (b.buildForwardWithRanker cfg rank needle >>= fun f =>
          Finder.run cfg (opsOf (alone t s)) f h) c = .ok (project t s outs, f1, h1) c1 := by
  obtain ⟨f', h', c', hrun, _⟩ :=
    Memmem.C16.finder_run_all cfg b rank needle hn (opsOf s) (opsOf_ok s hs) h c
  refine ⟨_, f', h', c', hrun, refFinder_opsOf _ s, ?_⟩
  intro t
  obtain ⟨f1, h1, c1, hrun1, _⟩ :=
    Memmem.C16.finder_run_all cfg b rank needle hn (opsOf (alone t s))
      (opsOf_ok _ (alone_valid t s hs)) h c
  exact ⟨f1, h1, c1, by rw [project_ref]; exact hrun1⟩

/-- the same for a shared `FinderRev` (`find` = `rfind`) -/
theorem shared_finder_rev (cfg : Api.Cfg) (needle : Slice) (hn : needle.Valid) (s : Sched)
    (hs : ∀ p ∈ s, p.2.Valid) (h : Heap) (c : Ctr) :
    ∃ outs f' h' c',
      (FinderRev.new needle >>= fun f => FinderRev.run cfg (opsOf s) f h) c =
        .ok (outs, f', h') c' ∧
      outs = s.map (fun p => Out.idx (Spec.rightmost p.2.toArray needle.toArray)) ∧
      ∀ t, ∃ f1 h1 c1,
        (FinderRev.new needle >>= fun f => FinderRev.run cfg (opsOf (alone t s)) f h) c =
          .ok (project t s outs, f1, h1) c1 := by
  obtain ⟨f', h', c', hrun, _⟩ :=
    Bridge3.finderRev_run_all cfg needle hn (opsOf s) (opsOf_ok s hs) h c
  refine ⟨_, f', h', c', hrun, refFinderRev_opsOf _ s, ?_⟩
  intro t
  obtain ⟨f1, h1, c1, hrun1, _⟩ :=
    Bridge3.finderRev_run_all cfg needle hn (opsOf (alone t s))
      (opsOf_ok _ (alone_valid t s hs)) h c
  exact ⟨f1, h1, c1, by rw [project_refRev]; exact hrun1⟩

/-- `find(&self)` leaves the shared finder as it was: the model's step returns the very same
finder value and heap (there is nothing a concurrent reader could see change). -/
theorem find_keeps_finder (cfg : Api.Cfg) (hay : Slice) (f : Finder) (h : Heap) (c : Ctr)
    (o : Option Out) (f' : Finder) (h' : Heap) (c' : Ctr)
    (hstep : f.step cfg (.find hay) h c = .ok (o, f', h') c') : f' = f ∧ h' = h := by
  simp only [Finder.step, bind, M.bind, pure, M.pure] at hstep
  split at hstep
  · simp only [Res.ok.injEq, Prod.mk.injEq] at hstep
    exact ⟨hstep.1.2.1.symm, hstep.1.2.2.symm⟩
  · cases hstep

end Memchr.SharedFinder
