/-
Helper lemmas for the SWAR proofs: the byte-by-byte helpers of `arch::generic::memchr`
(`fwd_byte_by_byte`, `rev_byte_by_byte`) against the interval predicates `FirstRes` / `LastRes`,
run lemmas for the word loads, and "`has_needle` false ⇒ no needle in the 8-byte window".
-/
import MemchrModel.Proofs.MemchrGenericLemmas
import MemchrModel.Proofs.MemchrGenericCount
import MemchrModel.Proofs.SwarBits
namespace Memchr.Swar
open Memchr Memchr.Generic

/-! ### prepending / appending a hit-free interval -/

theorem FirstRes.prepend {m : Mem} {p : UInt8 → Bool} {lo mid hi : Nat} {r : Option Nat}
    (h1 : FirstRes m p mid hi r) (h2 : NoHit m p lo mid) (hl : lo ≤ mid) :
    FirstRes m p lo hi r := by
  cases r with
  | none => exact NoHit.union h2 h1 (Nat.le_refl _)
  | some x => exact Generic.FirstRes.extend h1 h2 (Nat.le_refl _) hl (Nat.le_refl _)

theorem LastRes.append {m : Mem} {p : UInt8 → Bool} {lo mid hi : Nat} {r : Option Nat}
    (h1 : LastRes m p lo mid r) (h2 : NoHit m p mid hi) (hh : mid ≤ hi) :
    LastRes m p lo hi r := by
  cases r with
  | none => exact NoHit.union h1 h2 (Nat.le_refl _)
  | some x => exact Generic.LastRes.extend h1 h2 (Nat.le_refl _) hh (Nat.le_refl _)

/-! ### the byte-by-byte helpers of `arch::generic::memchr` -/

theorem fwdByteLoop_spec (m : Mem) (p : UInt8 → Bool) (end_ ptr : Nat) (c : Ctr)
    (hb : m.base ≤ ptr) (hpe : ptr ≤ end_) (he : end_ ≤ m.base + m.bytes.size) :
    ∃ r c', Generic.fwdByteLoop m p end_ ptr c = .ok r c' ∧ FirstRes m p ptr end_ r := by
  fun_induction Generic.fwdByteLoop m p end_ ptr generalizing c with
  | case1 ptr h ih =>
    have hr := Mem.read_ok m ptr { c with steps := c.steps + 1 } hb (by omega)
    simp only [M.bind_run, tick_run, hr]
    by_cases hp : p (m.byteAt ptr) = true
    · simp only [hp, if_true]
      exact ⟨some ptr, _, rfl, Nat.le_refl _, h, hp, NoHit.empty m p (Nat.le_refl _)⟩
    · have hpa := Mem.padd_ok m "fwd_byte_by_byte: ptr.offset(1)" ptr 1 hb (by omega)
      simp only [hp, hpa]
      obtain ⟨r, c', hrun, hres⟩ := ih
        { steps := c.steps + 1, loads := ⟨m.region, ptr - m.base, 1, false⟩ :: c.loads }
        (by omega) (by omega)
      refine ⟨r, c', hrun, FirstRes.prepend hres ?_ (by omega)⟩
      intro a ha hlt
      have : a = ptr := by omega
      subst this
      simpa using hp
  | case2 ptr h =>
    exact ⟨none, c, rfl, NoHit.empty m p (by omega)⟩

theorem fwdByteByByte_spec (m : Mem) (p : UInt8 → Bool) (start end_ : Nat) (c : Ctr)
    (hb : m.base ≤ start) (hpe : start ≤ end_) (he : end_ ≤ m.base + m.bytes.size) :
    ∃ r c', Generic.fwdByteByByte m p start end_ c = .ok r c' ∧ FirstRes m p start end_ r := by
  have hda : decide (start ≤ end_) = true := by simp [hpe]
  unfold Generic.fwdByteByByte
  simp only [dbgAssert_ok _ hda, pure_bind']
  exact fwdByteLoop_spec m p end_ start c hb hpe he

theorem revByteLoop_spec (m : Mem) (p : UInt8 → Bool) (start ptr : Nat) (c : Ctr)
    (hb : m.base ≤ start) (hsp : start ≤ ptr) (he : ptr ≤ m.base + m.bytes.size) :
    ∃ r c', Generic.revByteLoop m p start ptr c = .ok r c' ∧ LastRes m p start ptr r := by
  fun_induction Generic.revByteLoop m p start ptr generalizing c with
  | case1 ptr h ih =>
    have hr := Mem.read_ok m (ptr - 1) { c with steps := c.steps + 1 } (by omega) (by omega)
    have hps := Mem.psub_ok m "rev_byte_by_byte: ptr.offset(-1)" ptr 1 (by omega) he
    simp only [M.bind_run, tick_run, hps, M.pure_run, hr]
    by_cases hp : p (m.byteAt (ptr - 1)) = true
    · simp only [hp, if_true]
      exact ⟨some (ptr - 1), _, rfl, by omega, by omega, hp, NoHit.empty m p (by omega)⟩
    · simp only [hp]
      obtain ⟨r, c', hrun, hres⟩ := ih
        { steps := c.steps + 1, loads := ⟨m.region, ptr - 1 - m.base, 1, false⟩ :: c.loads }
        (by omega) (by omega)
      refine ⟨r, c', hrun, LastRes.append hres ?_ (by omega)⟩
      intro a ha hlt
      have : a = ptr - 1 := by omega
      subst this
      simpa using hp
  | case2 ptr h =>
    exact ⟨none, c, rfl, NoHit.empty m p (by omega)⟩

theorem revByteByByte_spec (m : Mem) (p : UInt8 → Bool) (start end_ : Nat) (c : Ctr)
    (hb : m.base ≤ start) (hpe : start ≤ end_) (he : end_ ≤ m.base + m.bytes.size) :
    ∃ r c', Generic.revByteByByte m p start end_ c = .ok r c' ∧ LastRes m p start end_ r := by
  have hda : decide (start ≤ end_) = true := by simp [hpe]
  unfold Generic.revByteByByte
  simp only [dbgAssert_ok _ hda, pure_bind']
  exact revByteLoop_spec m p start end_ c hb hpe he

/-! ### word loads -/

theorem tick_bind {β : Type} (f : Unit → M β) (c : Ctr) :
    (tick >>= f) c = f () { c with steps := c.steps + 1 } := rfl

theorem and_align (x : Nat) : x &&& USIZE_ALIGN = x % 8 :=
  Nat.and_two_pow_sub_one_eq_mod x 3

theorem readWordU_ok (m : Mem) (a : Nat) (c : Ctr) (h1 : m.base ≤ a)
    (h2 : a + 8 ≤ m.base + m.bytes.size) :
    readWordU m a c = .ok (wordOfBytes (m.window a 8))
      { c with loads := ⟨m.region, a - m.base, 8, false⟩ :: c.loads } := by
  unfold readWordU
  simp only [M.bind_run, USIZE_BYTES, Mem.loadU_ok m a 8 c h1 h2, M.pure_run]

theorem readWordA_ok (m : Mem) (a : Nat) (c : Ctr) (h1 : m.base ≤ a)
    (h2 : a + 8 ≤ m.base + m.bytes.size) (h3 : a % 8 = 0) :
    readWordA m a c = .ok (wordOfBytes (m.window a 8))
      { c with loads := ⟨m.region, a - m.base, 8, true⟩ :: c.loads } := by
  unfold readWordA
  simp only [M.bind_run, USIZE_BYTES, Mem.loadA_ok m a 8 true c h1 h2 (fun _ => h3), M.pure_run]

/-- `has_needle(chunk)` false: no needle among the 8 bytes -/
theorem noHit_of_not_hasNeedle (ns : Needles) (m : Mem) (a : Nat)
    (h : ¬ hasNeedle ns (wordOfBytes (m.window a 8)) = true) :
    NoHit m ns.confirm a (a + 8) := by
  intro x hx hlt
  cases hp : ns.confirm (m.byteAt x) with
  | false => rfl
  | true => exact absurd (hasNeedle_of_hit ns m a x hx hlt hp) h

end Memchr.Swar
