/-
Packed pair `find_prefilter`: the tail (re-aligned to `max = end - min_haystack_len`, unmasked)
and the main loop.
-/
import MemchrModel.Proofs.PackedPairFind

namespace Memchr.PackedPair

open Memchr Memchr.Generic

variable {V : VecImpl}

/-- no candidate at an address in `[lo, hi)` -/
def NoCandIn (f : Finder) (hm : Mem) (lo hi : Nat) : Prop :=
  ∀ a, lo ≤ a → a < hi → candA f hm a = false

/-- `find_prefilter` returns the offset of the lowest candidate at an address in
`[start, lim)` -/
def PreRes (f : Finder) (hm : Mem) (start lim : Nat) : Option Nat → Prop
  | some x => start + x < lim ∧ candA f hm (start + x) = true ∧ NoCandIn f hm start (start + x)
  | none => NoCandIn f hm start lim

theorem prefilterTail_run (L : Lawful V) (f : Finder) (hm : Mem) (start end_ max cur : Nat)
    (c : Ctr) (G : Geom V f hm start end_ max) (h1 : max < cur) (h2 : cur ≤ max + V.bytes)
    (hno : NoCandIn f hm start cur) :
    ∃ r c', prefilterTail V f hm start end_ max cur c = .ok r c' ∧
      PreRes f hm start (max + V.bytes) r ∧ c'.steps = c.steps + 1 := by
  obtain ⟨hb, hsm, hme, he, hmin, hmin2⟩ := G
  have hlt : cur < end_ := by omega
  obtain ⟨r, c', hrun, hres, hc'⟩ := findPrefilterInChunk_run L f hm max c (by omega) (by omega)
  unfold prefilterTail
  simp only [hlt, if_true]
  rw [bind_ok hrun]
  cases r with
  | some k =>
    obtain ⟨a1, a2, a3⟩ := hres
    refine ⟨some (max - start + k), c', ?_, ?_, hc'⟩
    · show (matched hm start max k >>= fun r => pure (some r)) c' = _
      rw [bind_ok (matched_run hm start max k c' hb hsm (by omega))]
      rfl
    · have e : start + (max - start + k) = max + k := by omega
      show _ ∧ _ ∧ _
      rw [e]
      refine ⟨by omega, a2, ?_⟩
      intro a ha1 ha2
      by_cases hac : a < cur
      · exact hno a ha1 hac
      · have hj : a = max + (a - max) := by omega
        rw [hj]
        exact a3 (a - max) (by omega)
  | none =>
    refine ⟨none, c', rfl, ?_, hc'⟩
    intro a ha1 ha2
    by_cases hac : a < cur
    · exact hno a ha1 hac
    · have hj : a = max + (a - max) := by omega
      rw [hj]
      exact hres (a - max) (by omega)

/-- step bound of a prefilter run that starts at `cur`: one step per chunk -/
def preCost (V : VecImpl) (start max cur : Nat) : Option Nat → Nat
  | some x => (start + x - cur) / V.bytes + 1
  | none => (max + V.bytes - cur) / V.bytes + 1

theorem prefilterLoop_run (L : Lawful V) (f : Finder) (hm : Mem) (start end_ max cur : Nat)
    (c : Ctr) (G : Geom V f hm start end_ max) (h1 : start ≤ cur) (h2 : cur ≤ max + V.bytes)
    (hno : NoCandIn f hm start cur) :
    ∃ r c', prefilterLoop V f hm start end_ max cur c = .ok r c' ∧
      PreRes f hm start (max + V.bytes) r ∧ c'.steps ≤ c.steps + preCost V start max cur r := by
  have hpos := V.bytes_pos
  fun_induction prefilterLoop V f hm start end_ max cur generalizing c with
  | case1 cur h ih =>
    obtain ⟨hb, hsm, hme, he, hmin, hmin2⟩ := G
    obtain ⟨r, c1, hrun, hres, hc1⟩ := findPrefilterInChunk_run L f hm cur c (by omega)
      (by omega)
    rw [bind_ok hrun]
    cases r with
    | some k =>
      obtain ⟨a1, a2, a3⟩ := hres
      refine ⟨some (cur - start + k), c1, ?_, ?_, ?_⟩
      · show (matched hm start cur k >>= fun r => pure (some r)) c1 = _
        rw [bind_ok (matched_run hm start cur k c1 hb h1 (by omega))]
        rfl
      · have e : start + (cur - start + k) = cur + k := by omega
        show _ ∧ _ ∧ _
        rw [e]
        refine ⟨by omega, a2, ?_⟩
        intro a ha1 ha2
        by_cases hac : a < cur
        · exact hno a ha1 hac
        · have hj : a = cur + (a - cur) := by omega
          rw [hj]
          exact a3 (a - cur) (by omega)
      · rw [hc1]
        exact Nat.add_le_add_left (Nat.le_add_left _ _) _
    | none =>
      have hpa := Mem.padd_ok hm "find_prefilter: cur.add(V::BYTES)" cur V.bytes (by omega)
        (by omega)
      have hno' : NoCandIn f hm start (cur + V.bytes) := by
        intro a ha1 ha2
        by_cases hac : a < cur
        · exact hno a ha1 hac
        · have hj : a = cur + (a - cur) := by omega
          rw [hj]
          exact hres (a - cur) (by omega)
      simp only [hpa, pure_bind']
      obtain ⟨r, c', hrun', hres', hc'⟩ := ih c1 (by omega) (by omega) hno'
      refine ⟨r, c', hrun', hres', ?_⟩
      cases r with
      | some x =>
        obtain ⟨b1, b2, b3⟩ := hres'
        have hge : cur + V.bytes ≤ start + x := by
          by_cases hlt : start + x < cur + V.bytes
          · rw [hno' (start + x) (by omega) hlt] at b2; cases b2
          · omega
        have e : start + x - cur = (start + x - (cur + V.bytes)) + V.bytes := by omega
        simp only [preCost] at hc' ⊢
        rw [e, Nat.add_div_right _ hpos]
        omega
      | none =>
        have e : max + V.bytes - cur = (max + V.bytes - (cur + V.bytes)) + V.bytes := by omega
        simp only [preCost] at hc' ⊢
        rw [e, Nat.add_div_right _ hpos]
        omega
  | case2 cur h =>
    obtain ⟨r, c', hrun, hres, hc'⟩ := prefilterTail_run L f hm start end_ max cur c G
      (by omega) h2 hno
    refine ⟨r, c', hrun, hres, ?_⟩
    rw [hc']
    cases r <;> exact Nat.add_le_add_left (Nat.le_add_left _ _) _

end Memchr.PackedPair
