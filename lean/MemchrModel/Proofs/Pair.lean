/-
Pair selection (`Pair::with_ranker`, `Pair::new`, `Pair::with_indices`): property C19.

For every needle and every ranker the selection returns `None` exactly for needles shorter
than 2 and otherwise two distinct in-range offsets; neither `u8::try_from(i).unwrap()` nor
`assert_ne!(index1, index2)` can fire; the scan costs at most `min(needle.len(), 255)` steps.
-/
import MemchrModel.Base.Lemmas
import MemchrModel.Model.Pair

namespace Memchr.Pair

open Memchr

/-! ### obligations on the generated constants (re-checked whenever they change) -/

/-- `max = usize::from(u8::MAX)` fits the `u8::try_from(i).unwrap()` in the loop -/
theorem pairScanMax_le : Generated.pairScanMax ≤ 255 := by decide

/-- the loop starts right after the two positions used for the initial pair -/
theorem pairScanSkip_eq : Generated.pairScanSkip = 2 := by decide

theorem pairScanMax_ge : 2 ≤ Generated.pairScanMax := by decide

set_option maxRecDepth 8192 in
/-- `RANK` is a `[u8; 256]`: indexing with a `u8` is always in range -/
theorem defaultRankTable_size : Generated.defaultRankTable.size = 256 := by decide

theorem defaultRank_eq (b : UInt8) :
    defaultRank b = Generated.defaultRankTable[b.toNat]'(by
      rw [defaultRankTable_size]; exact UInt8.toNat_lt b) := by
  have h : b.toNat < Generated.defaultRankTable.size := by
    rw [defaultRankTable_size]; exact UInt8.toNat_lt b
  simp [defaultRank, h]

/-! ### the scan loop -/

theorem u8TryFrom_ok (site : String) {i : Nat} (h : i ≤ 255) :
    u8TryFrom site i = pure (UInt8.ofNat i) := by
  simp [u8TryFrom, h]

theorem toNat_ofNat_le {i : Nat} (h : i ≤ 255) : (UInt8.ofNat i).toNat = i :=
  UInt8.toNat_ofNat_of_lt' (by show i < 256; omega)

theorem ne_of_toNat_lt {a b : UInt8} (h : a.toNat < b.toNat) : a ≠ b := by
  intro e; subst e; omega

/-- Loop invariant of the scan: `index1 ≠ index2`, both `< i`, `rare_k = needle[index_k]`.
The loop never faults, keeps the invariant and takes exactly `stop - i` steps. -/
theorem scanLoop_correct (needle : Slice) (rank : UInt8 → UInt8) (stop i : Nat)
    (rare1 index1 rare2 index2 : UInt8) (c : Ctr)
    (hstop : stop ≤ 255) (hi : i ≤ stop)
    (hne : index1 ≠ index2) (h1 : index1.toNat < i) (h2 : index2.toNat < i)
    (hr1 : rare1 = needle.getD index1.toNat) (hr2 : rare2 = needle.getD index2.toNat) :
    ∃ j1 j2 c', scanLoop needle rank stop i rare1 index1 rare2 index2 c = .ok (j1, j2) c' ∧
      j1 ≠ j2 ∧ j1.toNat < stop ∧ j2.toNat < stop ∧
      c'.steps = c.steps + (stop - i) ∧ c'.loads = c.loads := by
  fun_induction scanLoop needle rank stop i rare1 index1 rare2 index2 generalizing c with
  | case1 i rare1 index1 rare2 index2 hlt ihA ihB ihC =>
    have hi255 : i ≤ 255 := by omega
    have hto := toNat_ofNat_le hi255
    have hsteps : ∀ c' : Ctr, c'.steps = c.steps + 1 + (stop - (i + 1)) →
        c'.steps = c.steps + (stop - i) := fun c' h => by omega
    simp only [bind, u8TryFrom_ok _ hi255, pure]
    by_cases hA : rank (needle.getD i) < rank rare1
    · obtain ⟨j1, j2, c', hrun, a1, a2, a3, a4, a5⟩ :=
        ihA (UInt8.ofNat i) { c with steps := c.steps + 1 } (by omega)
          (ne_of_toNat_lt (by rw [hto]; exact h1)).symm (by rw [hto]; omega) (by omega)
          (by rw [hto]) hr1
      refine ⟨j1, j2, c', ?_, a1, a2, a3, hsteps c' a4, a5⟩
      simp only [hA, if_true]
      exact hrun
    · by_cases hB : (needle.getD i != rare1 && decide (rank (needle.getD i) < rank rare2)) = true
      · obtain ⟨j1, j2, c', hrun, a1, a2, a3, a4, a5⟩ :=
          ihB (UInt8.ofNat i) { c with steps := c.steps + 1 } (by omega)
            (ne_of_toNat_lt (by rw [hto]; exact h1)) (by omega) (by rw [hto]; omega)
            hr1 (by rw [hto])
        refine ⟨j1, j2, c', ?_, a1, a2, a3, hsteps c' a4, a5⟩
        simp only [hA, if_false, hB, if_true]
        exact hrun
      · obtain ⟨j1, j2, c', hrun, a1, a2, a3, a4, a5⟩ :=
          ihC { c with steps := c.steps + 1 } (by omega) hne (by omega) (by omega) hr1 hr2
        refine ⟨j1, j2, c', ?_, a1, a2, a3, hsteps c' a4, a5⟩
        simp only [hA, if_false, hB]
        exact hrun
  | case2 i rare1 index1 rare2 index2 hge =>
    refine ⟨index1, index2, c, rfl, hne, by omega, by omega, by omega, rfl⟩

/-! ### `Pair::with_ranker`, `Pair::new` -/

/-- what `with_ranker` / `new` / `with_indices` guarantee about a pair for `needle` -/
structure ValidFor (p : Pair) (needle : Slice) : Prop where
  ne : p.index1 ≠ p.index2
  lt1 : p.index1.toNat < needle.len
  lt2 : p.index2.toNat < needle.len

/-- **C19** `Pair::with_ranker(needle, ranker)`, for every needle and every ranker: no fault
(neither `u8::try_from(i).unwrap()` nor `assert_ne!(index1, index2)` fires, `needle[0]` and
`needle[1]` are in range); the answer is `None` exactly when `needle.len() < 2`, otherwise two
distinct offsets inside the needle, both `<= 254`; at most `min(needle.len(), 255)` steps and
no raw load. -/
theorem withRanker_correct (needle : Slice) (rank : UInt8 → UInt8) (c : Ctr) :
    ∃ r c', withRanker needle rank c = .ok r c' ∧
      (r = none ↔ needle.len < 2) ∧
      (∀ p, r = some p → p.ValidFor needle ∧ p.index1.toNat ≤ 254 ∧ p.index2.toNat ≤ 254) ∧
      c'.steps ≤ c.steps + min needle.len 255 ∧ c'.loads = c.loads := by
  unfold withRanker
  by_cases hlen : needle.len ≤ 1
  · refine ⟨none, c, by simp [hlen], by simp; omega, by simp, by omega, rfl⟩
  · have h0 : 0 < needle.len := by omega
    have h1 : 1 < needle.len := by omega
    have hmax := pairScanMax_le
    have hmax2 := pairScanMax_ge
    have key : ∀ (r1 i1 r2 i2 : UInt8), i1 ≠ i2 → i1.toNat < 2 → i2.toNat < 2 →
        r1 = needle.getD i1.toNat → r2 = needle.getD i2.toNat →
        ∃ j1 j2 c', scanLoop needle rank (min needle.len Generated.pairScanMax)
            Generated.pairScanSkip r1 i1 r2 i2 c = .ok (j1, j2) c' ∧
          j1 ≠ j2 ∧ j1.toNat < min needle.len Generated.pairScanMax ∧
          j2.toNat < min needle.len Generated.pairScanMax ∧
          c'.steps = c.steps + (min needle.len Generated.pairScanMax - 2) ∧
          c'.loads = c.loads := by
      intro r1 i1 r2 i2 hne hi1 hi2 hr1 hr2
      rw [pairScanSkip_eq]
      exact scanLoop_correct needle rank _ 2 r1 i1 r2 i2 c (by omega) (by omega) hne hi1 hi2
        hr1 hr2
    have fin : ∀ (r1 i1 r2 i2 : UInt8), i1 ≠ i2 → i1.toNat < 2 → i2.toNat < 2 →
        r1 = needle.getD i1.toNat → r2 = needle.getD i2.toNat →
        ∃ r c', (do
            let (index1, index2) ←
              scanLoop needle rank (min needle.len Generated.pairScanMax)
                Generated.pairScanSkip r1 i1 r2 i2
            assert "with_ranker: assert_ne!(index1, index2)" (index1 != index2)
            pure (some (Pair.mk index1 index2)) : M (Option Pair)) c = .ok r c' ∧
          (r = none ↔ needle.len < 2) ∧
          (∀ p, r = some p → p.ValidFor needle ∧ p.index1.toNat ≤ 254 ∧ p.index2.toNat ≤ 254) ∧
          c'.steps ≤ c.steps + min needle.len 255 ∧ c'.loads = c.loads := by
      intro r1 i1 r2 i2 hne hi1 hi2 hr1 hr2
      obtain ⟨j1, j2, c', hrun, a1, a2, a3, a4, a5⟩ := key r1 i1 r2 i2 hne hi1 hi2 hr1 hr2
      have hbne : (j1 != j2) = true := bne_iff_ne.mpr a1
      refine ⟨some ⟨j1, j2⟩, c', ?_, by simp; omega, ?_, by omega, a5⟩
      · simp only [bind, M.bind, hrun, hbne, assert_true, pure, M.pure]
      · intro p hp
        cases hp
        exact ⟨⟨a1, by show j1.toNat < _; omega, by show j2.toNat < _; omega⟩,
          by show j1.toNat ≤ _; omega, by show j2.toNat ≤ _; omega⟩
    simp only [hlen, if_false, Slice.get, h0, h1, if_true, bind, M.bind, pure, M.pure]
    by_cases hs : rank (needle.getD 1) < rank (needle.getD 0)
    · simp only [hs, if_true]
      exact fin _ 1 _ 0 (by decide) (by decide) (by decide) rfl rfl
    · simp only [hs, if_false]
      exact fin _ 0 _ 1 (by decide) (by decide) (by decide) rfl rfl

/-- **C19** `Pair::new(needle)` (the default ranker reads `RANK[byte]`, always in range) -/
theorem new_correct (needle : Slice) (c : Ctr) :
    ∃ r c', Pair.new needle c = .ok r c' ∧
      (r = none ↔ needle.len < 2) ∧
      (∀ p, r = some p → p.ValidFor needle ∧ p.index1.toNat ≤ 254 ∧ p.index2.toNat ≤ 254) ∧
      c'.steps ≤ c.steps + min needle.len 255 ∧ c'.loads = c.loads :=
  withRanker_correct needle defaultRank c

/-- **C19** `Pair::with_indices(needle, index1, index2)` -/
theorem withIndices_correct (needle : Slice) (i1 i2 : UInt8) :
    (withIndices needle i1 i2 = some ⟨i1, i2⟩ ∧
      i1 ≠ i2 ∧ i1.toNat < needle.len ∧ i2.toNat < needle.len) ∨
    (withIndices needle i1 i2 = none ∧
      ¬ (i1 ≠ i2 ∧ i1.toNat < needle.len ∧ i2.toNat < needle.len)) := by
  unfold withIndices
  by_cases h0 : i1 = i2
  · right; simp [h0]
  · by_cases h1 : i1.toNat ≥ needle.len
    · right; simp [h0, h1]; all_goals omega
    · by_cases h2 : i2.toNat ≥ needle.len
      · right; simp [h0, h1, h2]; all_goals omega
      · left; simp [h0, h1, h2]; all_goals omega

theorem withIndices_eq_some_iff (needle : Slice) (i1 i2 : UInt8) (p : Pair) :
    withIndices needle i1 i2 = some p ↔
      p = ⟨i1, i2⟩ ∧ i1 ≠ i2 ∧ i1.toNat < needle.len ∧ i2.toNat < needle.len := by
  rcases withIndices_correct needle i1 i2 with ⟨h, a⟩ | ⟨h, a⟩
  · rw [h]
    constructor
    · intro e; cases e; exact ⟨rfl, a⟩
    · rintro ⟨e, _⟩; rw [e]
  · rw [h]
    constructor
    · intro e; cases e
    · rintro ⟨_, b⟩; exact absurd b a

theorem withIndices_validFor {needle : Slice} {i1 i2 : UInt8} {p : Pair}
    (h : withIndices needle i1 i2 = some p) : p.ValidFor needle := by
  obtain ⟨rfl, a, b, c⟩ := (withIndices_eq_some_iff needle i1 i2 p).mp h
  exact ⟨a, b, c⟩

end Memchr.Pair
