/-
C13, item 5: a complete `find_iter` / `rfind_iter` traversal.

Per call (`findIterNext_costs`, `findRevIterNext_costs`): a call that answers `Some` pays for
itself out of the amount the iterator position moves by (`1048` steps per byte forward, `20` per
byte in reverse) plus a constant (`2000` / `192`); a call that answers `None` costs at most one
search of the rest of the haystack.  The sums telescope (`findIterRun_costs`,
`findRevIterRun_costs`): `k` calls cost at most

  `1048 * (haystack.len + 1) + (1031 * haystack.len + 17 * needle.len + 2000) * nones + 2000 * k`

forward and `20 * haystack.len + (3 * haystack.len + 17 * needle.len + 192) * nones + 192 * k` in
reverse, `nones` = number of `None` answers among the `k`.  A traversal up to and including the
first `None` has `nones <= 1` and `k <= matches + 1`.
-/
import MemchrModel.Proofs.CostSearcher

namespace Memchr.Memmem

open Memchr

/-! ### forward -/

/-- cost hypotheses on a forward iterator -/
def FindIter.CostOk (n0 hay : Slice) (it : FindIter) : Prop :=
  it.GoodFor n0 hay ∧ PackedOk n0 it.finder.searcher

theorem findIterNext_costs (cfg : Api.Cfg) {n0 hay : Slice} (_hn0 : n0.Valid) (hh : hay.Valid)
    {it : FindIter} (hg : it.CostOk n0 hay) :
    Costs (it.next cfg) (fun x k => x.2.CostOk n0 hay ∧
      match x.1 with
      | some p => it.pos ≤ p ∧ p + n0.len ≤ hay.len ∧ x.2.pos = p + max n0.len 1 ∧
          k + 1048 * it.pos ≤ 1048 * x.2.pos + 2000
      | none => x.2.pos = it.pos ∧ k ≤ 1031 * (hay.len - it.pos) + 17 * n0.len + 2000) := by
  obtain ⟨⟨hhay, ⟨hv, hb⟩, hs⟩, hp⟩ := hg
  have hnl : it.finder.needleSlice.len = n0.len := (same_bytes hb).1
  have hnl' : it.finder.needle.bytes.len = n0.len := hnl
  have hsz : it.finder.needleSlice.toArray.size = n0.len := by
    rw [← hnl]; exact Slice.toArray_size hv
  unfold FindIter.next
  dsimp only
  rw [hhay]
  split
  · apply Costs.pure
    exact ⟨⟨⟨hhay, ⟨hv, hb⟩, hs⟩, hp⟩, rfl, by omega⟩
  · rename_i hpos
    have hp' : it.pos ≤ hay.len := by omega
    have hsv : (dropSlice hay it.pos).Valid := dropSlice_valid hh hp'
    have hsl : (dropSlice hay it.pos).len = hay.len - it.pos := rfl
    apply Costs.bind ((searcherFind_costs cfg (hs.congr hb) (Cost.packedOk_congr hb hp) hv
      (dropSlice hay it.pos) hsv it.prestate).of_val (fun c => by
        obtain ⟨st', c', e⟩ := Searcher.find_good cfg (hs.congr hb) (fun _ => twoWayFwdOk)
          (dropSlice hay it.pos) hsv hv it.prestate c
        exact ⟨_, c', e, rfl⟩)
      (R := fun x => x.1 = Spec.leftmost (dropSlice hay it.pos).toArray
        it.finder.needleSlice.toArray))
    rintro ⟨r, st⟩ k ⟨hk, hval⟩
    dsimp only at hk hval ⊢
    cases r with
    | none =>
      dsimp only
      apply Costs.pure
      refine ⟨⟨⟨rfl, ⟨hv, hb⟩, hs⟩, hp⟩, rfl, ?_⟩
      simp only [Fallback.scanned, hsl] at hk
      omega
    | some idx =>
      dsimp only
      apply Costs.pure
      have hocc := ((Spec.leftmost_eq_some_iff _ _ idx).mp hval.symm).1.1
      rw [Slice.toArray_size hsv, hsz, hsl] at hocc
      refine ⟨⟨⟨rfl, ⟨hv, hb⟩, hs⟩, hp⟩, by omega, by omega, by dsimp only; rw [hnl], ?_⟩
      simp only [Fallback.scanned] at hk
      dsimp only
      rw [hnl]
      omega

/-- the budget of one `None` answer: one search of the whole haystack -/
def noneCost (n0 hay : Slice) : Nat := 1031 * hay.len + 17 * n0.len + 2000

theorem findIterRun_costs (cfg : Api.Cfg) {n0 hay : Slice} (hn0 : n0.Valid) (hh : hay.Valid)
    (k : Nat) : ∀ (it : FindIter) (h : Heap), it.CostOk n0 hay → it.pos ≤ hay.len + 1 →
    Costs (FindIter.run cfg (List.replicate k .next) it h) (fun x kk =>
      kk + 1048 * it.pos ≤ 1048 * (hay.len + 1) +
        noneCost n0 hay * x.1.count (Out.idx none) + 2000 * k) := by
  induction k with
  | zero =>
    intro it h hg hpos
    apply Costs.pure
    simp only [List.count_nil]
    omega
  | succ k ih =>
    intro it h hg hpos
    rw [List.replicate_succ]
    unfold FindIter.run
    unfold FindIter.step
    dsimp only
    apply Costs.bind (Costs.bind (findIterNext_costs cfg hn0 hh hg) (Q := fun (y : Option Out × FindIter × Heap) k1 =>
        y.2.1.CostOk n0 hay ∧ ∃ o, y.1 = some (Out.idx o) ∧
          match o with
          | some p => it.pos ≤ p ∧ p + n0.len ≤ hay.len ∧ y.2.1.pos = p + max n0.len 1 ∧
              k1 + 1048 * it.pos ≤ 1048 * y.2.1.pos + 2000
          | none => y.2.1.pos = it.pos ∧ k1 ≤ 1031 * (hay.len - it.pos) + 17 * n0.len + 2000) ?_)
    · rintro ⟨o, it1, h1⟩ k1 ⟨hg1, o', ho, hm⟩
      dsimp only at hg1 ho hm ⊢
      subst ho
      have hpos1 : it1.pos ≤ hay.len + 1 := by
        cases o' with
        | none => dsimp only at hm; omega
        | some p => dsimp only at hm; omega
      apply Costs.bind (ih it1 h1 hg1 hpos1)
      rintro ⟨os, it2, h2⟩ k2 hk2
      apply Costs.pure
      dsimp only at hk2 ⊢
      simp only [Option.toList, List.singleton_append, List.count_cons]
      cases o' with
      | none =>
        dsimp only at hm
        simp only [beq_self_eq_true, if_true, Nat.mul_add, Nat.mul_one]
        unfold noneCost at *
        omega
      | some p =>
        dsimp only at hm
        have hne : (Out.idx (some p) == Out.idx none) = false := by simp
        simp only [hne, Bool.false_eq_true, if_false, Nat.add_zero]
        omega
    · rintro ⟨o, it1⟩ k1 ⟨hg1, hm⟩
      apply Costs.pure
      exact ⟨hg1, o, rfl, hm⟩

/-- the observations of a traversal that stops at the first `None` contain at most one `None` -/
theorem count_none_le (g : List Nat) (k : Nat) (hk : k ≤ g.length + 1) :
    ((List.range k).map (fun i => Out.idx (g[i]?))).count (Out.idx none) ≤ 1 := by
  induction k with
  | zero => simp
  | succ k ih =>
    rw [List.range_succ, List.map_append, List.count_append]
    have := ih (by omega)
    simp only [List.map_cons, List.map_nil, List.count_cons, List.count_nil, Nat.zero_add]
    by_cases hkl : k < g.length
    · have e : g[k]? = some g[k] := List.getElem?_eq_getElem hkl
      have hne : (Out.idx (g[k]?) == Out.idx none) = false := by rw [e]; simp
      simp only [hne, Bool.false_eq_true, if_false]
      omega
    · -- `k = g.length`: every earlier observation is a `Some`
      have hall : ((List.range k).map (fun i => Out.idx (g[i]?))).count (Out.idx none) = 0 := by
        rw [List.count_eq_zero]
        intro hmem
        rw [List.mem_map] at hmem
        obtain ⟨i, hi, he⟩ := hmem
        rw [List.mem_range] at hi
        have e : g[i]? = some g[i] := List.getElem?_eq_getElem (by omega)
        rw [e] at he
        cases he
      rw [hall]
      split <;> omega

/-! ### reverse -/

/-- the position of a reverse iterator as a number (`0` when exhausted) -/
def FindRevIter.posVal (it : FindRevIter) : Nat :=
  match it.pos with
  | some p => p
  | none => 0

theorem findRevIterNext_costs (cfg : Api.Cfg) {n0 hay : Slice} (_hn0 : n0.Valid) (hh : hay.Valid)
    {it : FindRevIter} (hg : it.GoodFor n0 hay) :
    Costs (it.next cfg) (fun x k => x.2.GoodFor n0 hay ∧
      match x.1 with
      | some _ => k + 20 * x.2.posVal ≤ 20 * it.posVal + 192
      | none => x.2.posVal = it.posVal ∧ k ≤ 3 * it.posVal + 17 * n0.len + 192) := by
  obtain ⟨hhay, ⟨⟨hv, hb⟩, hs⟩, hpos⟩ := hg
  have hnl : it.finder.needle.asSlice.len = n0.len := (same_bytes hb).1
  have hnl' : it.finder.needle.bytes.len = n0.len := hnl
  have hsz : it.finder.needle.asSlice.toArray.size = n0.len := by
    rw [← hnl]; exact Slice.toArray_size hv
  unfold FindRevIter.next
  cases hp : it.pos with
  | none =>
    dsimp only
    apply Costs.pure
    exact ⟨⟨hhay, ⟨⟨hv, hb⟩, hs⟩, hpos⟩, rfl, by omega⟩
  | some p =>
    have hple := hpos p hp
    have hpv : it.posVal = p := by simp only [FindRevIter.posVal, hp]
    dsimp only
    rw [hhay]
    cstep
    have hsv : (takeSlice hay p).Valid := takeSlice_valid hh hple
    have hsl : (takeSlice hay p).len = p := rfl
    unfold FinderRev.rfind
    apply Costs.bind ((searcherRevRfind_costs cfg (hs.congr hb) hv (takeSlice hay p) hsv).of_val
      (fun c => by
        obtain ⟨c', e⟩ := SearcherRev.rfind_good cfg (hs.congr hb) (fun _ => twoWayRevOk)
          (takeSlice hay p) hsv hv c
        exact ⟨_, c', e, rfl⟩)
      (R := fun r => r = Spec.rightmost (takeSlice hay p).toArray it.finder.needle.asSlice.toArray))
    rintro r k ⟨hk, hval⟩
    cases r with
    | none =>
      dsimp only
      apply Costs.pure
      refine ⟨⟨hhay, ⟨⟨hv, hb⟩, hs⟩, hpos⟩, rfl, ?_⟩
      simp only [Api.scannedRev, hsl] at hk
      rw [hpv]
      omega
    | some i =>
      have hocc := ((Spec.rightmost_eq_some_iff _ _ i).mp hval.symm).1.1
      rw [Slice.toArray_size hsv, hsz, hsl] at hocc
      simp only [Api.scannedRev, hsl] at hk
      dsimp only
      split
      · rename_i hpi
        have hpi' : p = i := by simpa using hpi
        have hpv' : ∀ (x : FindRevIter), x.pos = (if p = 0 then none else some (p - 1)) →
            x.posVal ≤ p := by
          intro x hx
          simp only [FindRevIter.posVal, hx]
          split
          · rename_i q hq
            split at hq
            · cases hq
            · cases hq; omega
          · omega
        apply Costs.pure
        refine ⟨⟨rfl, ⟨⟨hv, hb⟩, hs⟩, ?_⟩, ?_⟩
        · intro q hq
          dsimp only at hq
          split at hq
          · cases hq
          · cases hq; omega
        · dsimp only
          rw [hpv]
          have := hpv' ⟨hay, it.finder, if p = 0 then none else some (p - 1)⟩ rfl
          omega
      · apply Costs.pure
        refine ⟨⟨rfl, ⟨⟨hv, hb⟩, hs⟩, ?_⟩, ?_⟩
        · intro q hq
          cases hq; omega
        · dsimp only
          rw [hpv]
          simp only [FindRevIter.posVal]
          omega

/-- the budget of one `None` answer in reverse -/
def noneCostRev (n0 hay : Slice) : Nat := 3 * hay.len + 17 * n0.len + 192

theorem findRevIterRun_costs (cfg : Api.Cfg) {n0 hay : Slice} (hn0 : n0.Valid) (hh : hay.Valid)
    (k : Nat) : ∀ (it : FindRevIter) (h : Heap), it.GoodFor n0 hay →
    Costs (FindRevIter.run cfg (List.replicate k .next) it h) (fun x kk =>
      kk ≤ 20 * it.posVal + noneCostRev n0 hay * x.1.count (Out.idx none) + 192 * k) := by
  induction k with
  | zero =>
    intro it h hg
    apply Costs.pure
    simp only [List.count_nil]
    omega
  | succ k ih =>
    intro it h hg
    have hpv : it.posVal ≤ hay.len := by
      simp only [FindRevIter.posVal]
      split
      · rename_i p hp; exact hg.2.2 p hp
      · omega
    rw [List.replicate_succ]
    unfold FindRevIter.run
    unfold FindRevIter.step
    dsimp only
    apply Costs.bind (Costs.bind (findRevIterNext_costs cfg hn0 hh hg)
      (Q := fun (y : Option Out × FindRevIter × Heap) k1 =>
        y.2.1.GoodFor n0 hay ∧ ∃ o, y.1 = some (Out.idx o) ∧
          match o with
          | some _ => k1 + 20 * y.2.1.posVal ≤ 20 * it.posVal + 192
          | none => y.2.1.posVal = it.posVal ∧ k1 ≤ 3 * it.posVal + 17 * n0.len + 192) ?_)
    · rintro ⟨o, it1, h1⟩ k1 ⟨hg1, o', ho, hm⟩
      dsimp only at hg1 ho hm ⊢
      subst ho
      apply Costs.bind (ih it1 h1 hg1)
      rintro ⟨os, it2, h2⟩ k2 hk2
      apply Costs.pure
      dsimp only at hk2 ⊢
      simp only [Option.toList, List.singleton_append, List.count_cons]
      cases o' with
      | none =>
        dsimp only at hm
        simp only [beq_self_eq_true, if_true, Nat.mul_add, Nat.mul_one]
        unfold noneCostRev at *
        omega
      | some p =>
        dsimp only at hm
        have hne : (Out.idx (some p) == Out.idx none) = false := by simp
        simp only [hne, Bool.false_eq_true, if_false, Nat.add_zero]
        omega
    · rintro ⟨o, it1⟩ k1 ⟨hg1, hm⟩
      apply Costs.pure
      exact ⟨hg1, o, rfl, hm⟩

end Memchr.Memmem

namespace Memchr.Cost

open Memchr.Memmem

/-- **`Cost.find_iter_total`.**  Build a finder (any configuration, prefilter setting, ranker),
then call `next()` `k` times on `finder.find_iter(haystack)`, for `k` up to `matches + 1` (a
complete traversal: all matches and the first `None`): the observations are the first `k` entries
of the greedy match sequence (then `None`), and the whole run - construction included - costs at
most `2079 * haystack.len + 24 * needle.len + 2000 * k + 3305` steps, i.e. at most
`2079 * (haystack.len + needle.len) + 2000 * (matches + 1) + 3305`. -/
theorem find_iter_total (cfg : Api.Cfg) (b : FinderBuilder) (rank : UInt8 → UInt8)
    (needle hay : Slice) (hn : needle.Valid) (hh : hay.Valid) (k : Nat)
    (hk : k ≤ (Spec.greedyFwd hay.toArray needle.toArray).length + 1) (h : Heap) (c : Ctr) :
    ∃ it' h' c', (b.buildForwardWithRanker cfg rank needle >>= fun f =>
        FindIter.run cfg (List.replicate k .next) (f.findIter hay) h) c =
        .ok ((List.range k).map
          (fun i => Out.idx ((Spec.greedyFwd hay.toArray needle.toArray)[i]?)), it', h') c' ∧
      c'.steps ≤ c.steps + 2079 * hay.len + 24 * needle.len + 2000 * k + 3305 := by
  obtain ⟨it', h', c', e, _⟩ := C08.find_iter_all cfg b rank needle hay hn hh k h c
  refine ⟨it', h', c', e, ?_⟩
  have hc : Costs (b.buildForwardWithRanker cfg rank needle >>= fun f =>
        FindIter.run cfg (List.replicate k .next) (f.findIter hay) h) (fun x kk =>
      kk ≤ 7 * needle.len + 257 + (1048 * (hay.len + 1) +
        noneCost needle hay * x.1.count (Out.idx none) + 2000 * k)) := by
    apply Costs.bind (finderBuild_costs cfg b rank needle hn)
    rintro f k1 ⟨hk1, hg, hp⟩
    obtain ⟨g1, g2, _, g4⟩ := Finder.findIter_good hg hay
    apply (findIterRun_costs cfg hn hh k (f.findIter hay) h ⟨g1, by rw [g4]; exact hp⟩
      (by rw [g2]; omega)).mono
    intro x kk hkk
    rw [g2] at hkk
    omega
  obtain ⟨kk, ek, hkk⟩ := hc c _ c' e
  dsimp only at hkk
  have hcnt := count_none_le (Spec.greedyFwd hay.toArray needle.toArray) k hk
  have : noneCost needle hay * ((List.range k).map
      (fun i => Out.idx ((Spec.greedyFwd hay.toArray needle.toArray)[i]?))).count (Out.idx none) ≤
      noneCost needle hay * 1 := Nat.mul_le_mul_left _ hcnt
  unfold noneCost at *
  omega

/-- **`Cost.rfind_iter_total`.**  `FinderRev::new(needle)`, then `k` calls of `next()` on
`finder.rfind_iter(haystack)` for `k` up to `matches + 1`: the observations are the first `k`
entries of the reverse greedy match sequence (then `None`), and the whole run - construction
included - costs at most `23 * haystack.len + 24 * needle.len + 192 * k + 194` steps. -/
theorem rfind_iter_total (cfg : Api.Cfg) (needle hay : Slice) (hn : needle.Valid)
    (hh : hay.Valid) (k : Nat)
    (hk : k ≤ (Spec.greedyRev hay.toArray needle.toArray).length + 1) (h : Heap) (c : Ctr) :
    ∃ it' h' c', (FinderRev.new needle >>= fun f =>
        FindRevIter.run cfg (List.replicate k .next) (f.rfindIter hay) h) c =
        .ok ((List.range k).map
          (fun i => Out.idx ((Spec.greedyRev hay.toArray needle.toArray)[i]?)), it', h') c' ∧
      c'.steps ≤ c.steps + 23 * hay.len + 24 * needle.len + 192 * k + 194 := by
  obtain ⟨it', h', c', e, _⟩ := C08.rfind_iter_all cfg needle hay hn hh k h c
  refine ⟨it', h', c', e, ?_⟩
  have hc : Costs (FinderRev.new needle >>= fun f =>
        FindRevIter.run cfg (List.replicate k .next) (f.rfindIter hay) h) (fun x kk =>
      kk ≤ 7 * needle.len + 2 + (20 * hay.len +
        noneCostRev needle hay * x.1.count (Out.idx none) + 192 * k)) := by
    unfold FinderRev.new FinderBuilder.buildReverse
    apply Costs.bind (Costs.bind ((searcherRevNew_costs needle hn).of_val (fun c => by
        obtain ⟨s, c', e, hg, _⟩ := SearcherRev.new_ok needle hn (fun _ => twoWayRevOk) c
        exact ⟨s, c', e, hg⟩))
      (Q := fun (f : FinderRev) k1 => k1 ≤ 7 * needle.len + 2 ∧ f.GoodFor needle) ?_)
    · rintro f k1 ⟨hk1, hg⟩
      have hgi := FinderRev.rfindIter_good hg hay
      apply (findRevIterRun_costs cfg hn hh k (f.rfindIter hay) h hgi.1).mono
      intro x kk hkk
      have hpv : (f.rfindIter hay).posVal = hay.len := rfl
      rw [hpv] at hkk
      omega
    · rintro s k1 ⟨hk1, hg⟩
      apply Costs.pure
      exact ⟨by omega, ⟨hn, rfl⟩, hg⟩
  obtain ⟨kk, ek, hkk⟩ := hc c _ c' e
  dsimp only at hkk
  have hcnt := count_none_le (Spec.greedyRev hay.toArray needle.toArray) k hk
  have : noneCostRev needle hay * ((List.range k).map
      (fun i => Out.idx ((Spec.greedyRev hay.toArray needle.toArray)[i]?))).count (Out.idx none) ≤
      noneCostRev needle hay * 1 := Nat.mul_le_mul_left _ hcnt
  unfold noneCostRev at *
  omega

/-! ### the hypotheses are satisfiable -/

section Examples

/-- needle "abaab" (region 1) and haystack "abaaabaabab" (region 0): valid slices -/
def exNeedle : Slice := Slice.ofMem ⟨1, 4096, "abaab".toUTF8.data⟩
def exHay : Slice := Slice.ofMem ⟨0, 8192, "abaaabaabab".toUTF8.data⟩

theorem exNeedle_valid : exNeedle.Valid := by unfold Slice.Valid; decide
theorem exHay_valid : exHay.Valid := by unfold Slice.Valid; decide

/-- `Cost.searcher_find`: a searcher exists for every configuration (here: the hypotheses
`Searcher.new .. = .ok s c0'`, valid slices and equal bytes, for the example needle) -/
example (cfg : Api.Cfg) : ∃ s c0', Searcher.new cfg .auto Pair.defaultRank exNeedle {} = .ok s c0' ∧
    exNeedle.Valid ∧ exHay.Valid ∧ exNeedle.toList = exNeedle.toList := by
  obtain ⟨s, c', e, _⟩ := searcher_new cfg .auto Pair.defaultRank exNeedle exNeedle_valid {}
  exact ⟨s, c', e, exNeedle_valid, exHay_valid, rfl⟩

/-- `Cost.searcher_rfind` -/
example : ∃ s c0', SearcherRev.new exNeedle {} = .ok s c0' := by
  obtain ⟨s, c', e, _⟩ := searcher_rev_new exNeedle exNeedle_valid {}
  exact ⟨s, c', e⟩

/-- `Cost.twoway_pre`: a finder exists, and both kinds of prefilter hypotheses are satisfiable:
no prefilter, and any strategy built by `Searcher::new` (`Prefilter.GoodFor`), which is sound
(`Prefilter.find_sound`) and has the required cost (`Cost.prefilter_costs`) -/
example : ∃ tw c0', TwoWay.Finder.new exNeedle {} = .ok tw c0' := by
  obtain ⟨tw, c', e, _⟩ := TwoWay.finder_new_spec exNeedle {} exNeedle_valid
  exact ⟨tw, c', e⟩

example (cfg : Api.Cfg) {p : Prefilter} (hg : p.GoodFor exNeedle) :
    TwoWay.StratCost (p.find cfg) :=
  fun sub hv => prefilter_costs cfg exNeedle_valid hg sub hv

example : TwoWay.StratCost (fun _ => pure none) := TwoWay.stratCost_none

/-- `Cost.find_iter_total` / `Cost.rfind_iter_total`: `k = 0` always satisfies the bound on `k`;
so does every `k` up to the number of matches plus one -/
example (hay needle : Slice) : 0 ≤ (Spec.greedyFwd hay.toArray needle.toArray).length + 1 :=
  Nat.zero_le _

end Examples

end Memchr.Cost
