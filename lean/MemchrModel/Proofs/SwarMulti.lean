/-
`Two::{find_raw, rfind_raw}` and `Three::{find_raw, rfind_raw}` of `src/arch/all/memchr.rs`
(one model, parametric in the needle bytes): loop lemmas and interval-predicate specifications.
-/
import MemchrModel.Proofs.SwarLemmas
namespace Memchr.Swar
open Memchr Memchr.Generic

namespace Multi

/-! ### `find_raw` -/

theorem findLoop_spec (ns : Needles) (m : Mem) (lo end_ cur : Nat) (c : Ctr)
    (hb : m.base ≤ lo) (hlc : lo ≤ cur) (hce : cur ≤ end_) (h8e : 8 ≤ end_)
    (hal : cur % 8 = 0) (he : end_ ≤ m.base + m.bytes.size)
    (hno : NoHit m ns.confirm lo cur) :
    ∃ cur' c', findLoop ns m (end_ - USIZE_BYTES) cur c = .ok cur' c' ∧ cur ≤ cur' ∧
      cur' ≤ end_ ∧ NoHit m ns.confirm lo cur' := by
  have h8 : USIZE_BYTES = 8 := rfl
  generalize hlim : end_ - USIZE_BYTES = lim
  fun_induction findLoop ns m lim cur generalizing c with
  | case1 cur h ih =>
    have hda : (0 == cur % USIZE_BYTES) = true := by simp [h8, hal]
    have hra := readWordA_ok m cur { c with steps := c.steps + 1 } (by omega) (by omega) hal
    simp only [dbgAssert_ok _ hda, pure_bind', tick_bind, bind_ok hra]
    by_cases hh : hasNeedle ns (wordOfBytes (m.window cur 8)) = true
    · rw [if_pos hh]
      exact ⟨cur, _, rfl, Nat.le_refl _, hce, hno⟩
    · have hpl := Mem.padd_ok m "find_raw: cur.add(USIZE_BYTES)" cur USIZE_BYTES (by omega)
        (by omega)
      rw [if_neg hh]
      simp only [hpl, pure_bind']
      have hno' : NoHit m ns.confirm lo (cur + USIZE_BYTES) := by
        rw [h8]
        exact hno.union (noHit_of_not_hasNeedle _ m cur hh) (Nat.le_refl _)
      obtain ⟨cur', c', hrun, g1, g2, g3⟩ := ih _ (by omega) (by omega) (by omega) hno'
      exact ⟨cur', c', hrun, by omega, g2, g3⟩
  | case2 cur h => exact ⟨cur, c, rfl, Nat.le_refl _, hce, hno⟩

theorem findRaw_spec (ns : Needles) (m : Mem) (start end_ : Nat) (c : Ctr)
    (hb : start < end_ → m.base ≤ start ∧ end_ ≤ m.base + m.bytes.size) :
    ∃ r c', findRaw ns m start end_ c = .ok r c' ∧ FirstRes m ns.confirm start end_ r := by
  have h8 : USIZE_BYTES = 8 := rfl
  unfold findRaw
  by_cases hse : start ≥ end_
  · rw [if_pos hse]
    exact ⟨none, c, rfl, NoHit.empty m _ hse⟩
  · obtain ⟨hs, he⟩ := hb (by omega)
    have hd := Mem.distance_ok m "find_raw: end.distance(start)" end_ start hs (by omega) he
    rw [if_neg hse]
    simp only [hd, pure_bind']
    by_cases hlen : end_ - start < USIZE_BYTES
    · rw [if_pos hlen]
      exact fwdByteByByte_spec m _ start end_ c hs (by omega) he
    · have hru := readWordU_ok m start c hs (by omega)
      rw [if_neg hlen, bind_ok hru, tick_bind]
      by_cases hh : hasNeedle ns (wordOfBytes (m.window start 8)) = true
      · rw [if_pos hh]
        exact fwdByteByByte_spec m _ start end_ _ hs (by omega) he
      · rw [if_neg hh]
        have hmod : start % 8 < 8 := Nat.mod_lt _ (by omega)
        have hcs := csub_of_le "find_raw: USIZE_BYTES - (start.as_usize() & USIZE_ALIGN)"
          (a := USIZE_BYTES) (b := start &&& USIZE_ALIGN) (by rw [and_align]; omega)
        have hpa := Mem.padd_ok m
          "find_raw: start.add(USIZE_BYTES - (start.as_usize() & USIZE_ALIGN))" start
          (USIZE_BYTES - (start &&& USIZE_ALIGN)) hs (by rw [and_align]; omega)
        have hda : decide (start + (USIZE_BYTES - (start &&& USIZE_ALIGN)) > start) = true := by
          rw [and_align]; simp; omega
        have hal : (start + (USIZE_BYTES - (start &&& USIZE_ALIGN))) % 8 = 0 := by
          rw [and_align, h8]; exact align_up_mod _ _ (by omega)
        have hcur1 : start ≤ start + (USIZE_BYTES - (start &&& USIZE_ALIGN)) := by omega
        have hcur2 : start + (USIZE_BYTES - (start &&& USIZE_ALIGN)) ≤ start + 8 := by
          rw [and_align]; omega
        have hno : NoHit m ns.confirm start
            (start + (USIZE_BYTES - (start &&& USIZE_ALIGN))) :=
          (noHit_of_not_hasNeedle _ m start hh).mono (Nat.le_refl _) hcur2
        have hps := Mem.psub_ok m "find_raw: end.sub(USIZE_BYTES)" end_ USIZE_BYTES
          (by omega) he
        have hda2 : decide (end_ - USIZE_BYTES ≥ start) = true := by simp; omega
        simp only [hcs, pure_bind', hpa, dbgAssert_ok _ hda, hps, dbgAssert_ok _ hda2]
        generalize start + (USIZE_BYTES - (start &&& USIZE_ALIGN)) = cur at *
        obtain ⟨cur', c1, hrun1, g1, g2, g3⟩ := findLoop_spec ns m start end_ cur
          { steps := c.steps + 1,
            loads := ⟨m.region, start - m.base, 8, false⟩ :: c.loads }
          hs hcur1 (by omega) (by omega) hal he hno
        rw [bind_ok hrun1]
        obtain ⟨r, c', hrun, hres⟩ := fwdByteByByte_spec m ns.confirm cur' end_ c1
          (by omega) g2 he
        exact ⟨r, c', hrun, FirstRes.prepend hres g3 (by omega)⟩

/-! ### `rfind_raw` -/

theorem rfindLoop_spec (ns : Needles) (m : Mem) (start hi cur : Nat) (c : Ctr)
    (hb : m.base ≤ start) (hsc : start ≤ cur) (hch : cur ≤ hi)
    (hal : cur % 8 = 0) (he : hi ≤ m.base + m.bytes.size)
    (hno : NoHit m ns.confirm cur hi) :
    ∃ cur' c', rfindLoop ns m start cur c = .ok cur' c' ∧ start ≤ cur' ∧ cur' ≤ cur ∧
      cur' ≤ hi ∧ NoHit m ns.confirm cur' hi := by
  have h8 : USIZE_BYTES = 8 := rfl
  fun_induction rfindLoop ns m start cur generalizing c with
  | case1 cur h ih =>
    have hda : (0 == cur % USIZE_BYTES) = true := by simp [h8, hal]
    have hpa := Mem.psub_ok m "rfind_raw: cur.sub(USIZE_BYTES)" cur USIZE_BYTES
      (by omega) (by omega)
    have hra := readWordA_ok m (cur - USIZE_BYTES) { c with steps := c.steps + 1 }
      (by omega) (by omega) (by omega)
    simp only [dbgAssert_ok _ hda, pure_bind', tick_bind, hpa, bind_ok hra]
    by_cases hh : hasNeedle ns (wordOfBytes (m.window (cur - USIZE_BYTES) 8)) = true
    · rw [if_pos hh]
      exact ⟨cur, _, rfl, by omega, Nat.le_refl _, hch, hno⟩
    · have hpl := Mem.psub_ok m "rfind_raw: cur = cur.sub(USIZE_BYTES)" cur USIZE_BYTES
        (by omega) (by omega)
      rw [if_neg hh]
      simp only [hpl, pure_bind']
      have n1' := noHit_of_not_hasNeedle _ m _ hh
      have e1 : cur - USIZE_BYTES + 8 = cur := by omega
      rw [e1] at n1'
      have hno' : NoHit m ns.confirm (cur - USIZE_BYTES) hi := n1'.union hno (Nat.le_refl _)
      obtain ⟨cur', c', hrun, g1, g2, g3, g4⟩ := ih _ (by omega) (by omega) (by omega) hno'
      exact ⟨cur', c', hrun, g1, by omega, g3, g4⟩
  | case2 cur h => exact ⟨cur, c, rfl, hsc, Nat.le_refl _, hch, hno⟩

theorem rfindRaw_spec (ns : Needles) (m : Mem) (start end_ : Nat) (c : Ctr)
    (hb : start < end_ → m.base ≤ start ∧ end_ ≤ m.base + m.bytes.size) :
    ∃ r c', rfindRaw ns m start end_ c = .ok r c' ∧ LastRes m ns.confirm start end_ r := by
  have h8 : USIZE_BYTES = 8 := rfl
  unfold rfindRaw
  by_cases hse : start ≥ end_
  · rw [if_pos hse]
    exact ⟨none, c, rfl, NoHit.empty m _ hse⟩
  · obtain ⟨hs, he⟩ := hb (by omega)
    have hd := Mem.distance_ok m "rfind_raw: end.distance(start)" end_ start hs (by omega) he
    rw [if_neg hse]
    simp only [hd, pure_bind']
    by_cases hlen : end_ - start < USIZE_BYTES
    · rw [if_pos hlen]
      exact revByteByByte_spec m _ start end_ c hs (by omega) he
    · have hps := Mem.psub_ok m "rfind_raw: end.sub(USIZE_BYTES)" end_ USIZE_BYTES (by omega) he
      have hru := readWordU_ok m (end_ - USIZE_BYTES) c (by omega) (by omega)
      rw [if_neg hlen]
      simp only [hps, pure_bind']
      rw [bind_ok hru, tick_bind]
      by_cases hh : hasNeedle ns (wordOfBytes (m.window (end_ - USIZE_BYTES) 8)) = true
      · rw [if_pos hh]
        exact revByteByByte_spec m _ start end_ _ hs (by omega) he
      · rw [if_neg hh]
        have hmod : end_ % 8 < 8 := Nat.mod_lt _ (by omega)
        have hpc := Mem.psub_ok m "rfind_raw: end.sub(end.as_usize() & USIZE_ALIGN)" end_
          (end_ &&& USIZE_ALIGN) (by rw [and_align]; omega) he
        have hda : (decide (start ≤ end_ - (end_ &&& USIZE_ALIGN)) &&
            decide (end_ - (end_ &&& USIZE_ALIGN) ≤ end_)) = true := by
          rw [and_align]; simp; omega
        have hal : (end_ - (end_ &&& USIZE_ALIGN)) % 8 = 0 := by
          rw [and_align]; exact align_down_mod _ _
        have hcur1 : start ≤ end_ - (end_ &&& USIZE_ALIGN) := by rw [and_align]; omega
        have hcur2 : end_ - (end_ &&& USIZE_ALIGN) ≤ end_ := by omega
        have hcur3 : end_ - USIZE_BYTES ≤ end_ - (end_ &&& USIZE_ALIGN) := by
          rw [and_align]; omega
        have e : end_ - USIZE_BYTES + 8 = end_ := by omega
        have hno : NoHit m ns.confirm (end_ - (end_ &&& USIZE_ALIGN)) end_ := by
          have := noHit_of_not_hasNeedle _ m _ hh
          rw [e] at this
          exact this.mono hcur3 (Nat.le_refl _)
        have hpl := Mem.padd_ok m "rfind_raw: start.add(USIZE_BYTES)" start USIZE_BYTES
          hs (by omega)
        simp only [hpc, pure_bind', dbgAssert_ok _ hda, hpl]
        generalize end_ - (end_ &&& USIZE_ALIGN) = cur at *
        obtain ⟨cur', c1, hrun1, g1, g2, g3, g4⟩ := rfindLoop_spec ns m start end_ cur
          { steps := c.steps + 1,
            loads := ⟨m.region, end_ - USIZE_BYTES - m.base, 8, false⟩ :: c.loads }
          hs hcur1 hcur2 hal he hno
        rw [bind_ok hrun1]
        obtain ⟨r, c', hrun, hres⟩ := revByteByByte_spec m ns.confirm start cur' c1
          hs g1 (by omega)
        exact ⟨r, c', hrun, LastRes.append hres g4 g3⟩

end Multi
end Memchr.Swar
