/-
Rabin-Karp (`src/arch/all/rabinkarp.rs`): `Finder::find` returns the leftmost occurrence,
`FinderRev::rfind` the rightmost one (C12), within an explicit step bound; for an arbitrary
(mismatched) finder the search still never faults and only reports true occurrences (C05).
-/
import MemchrModel.Proofs.IsEqual
import MemchrModel.Proofs.RabinKarpHash

namespace Memchr.RabinKarp

open Memchr

/-! ### the confirmation step `self.hash == hash && is_equal_raw(cur, nstart, nlen)` -/

theorem confirm_run (f : Finder) (mh mn : Mem) (cur nstart nlen : Nat) (hash : Hash) (c : Ctr)
    (h1 : mh.base ≤ cur) (h2 : cur + nlen ≤ mh.base + mh.bytes.size)
    (hn1 : mn.base ≤ nstart) (hn2 : nstart + nlen ≤ mn.base + mn.bytes.size) :
    ∃ eq c', confirm f mh mn cur nstart nlen hash c = .ok eq c' ∧
      c'.steps ≤ c.steps + nlen / 4 + 2 ∧
      (eq = true → mh.window cur nlen = mn.window nstart nlen) ∧
      (eq = false → f.hash = hash → mh.window cur nlen ≠ mn.window nstart nlen) := by
  unfold confirm
  by_cases hh : f.hash = hash
  · have hh' : (f.hash == hash) = true := by simpa using hh
    simp only [hh', if_true]
    obtain ⟨c', e, hs⟩ := IsEqual.isEqualRaw_correct mh mn cur nstart nlen c h1 h2 hn1 hn2
    refine ⟨_, c', e, hs, ?_, ?_⟩
    · intro h; simpa using h
    · intro h _; simpa using h
  · have hh' : (f.hash == hash) = false := by simpa using hh
    simp only [hh', Bool.false_eq_true, if_false, M.pure_run]
    exact ⟨false, c, rfl, by omega, fun h => (by cases h), fun _ h => absurd h hh⟩

/-! ### the forward loop -/

theorem findLoop_spec (f : Finder) (mh mn : Mem) (nstart nlen end_ cur : Nat) (hash : Hash)
    (c : Ctr) (h1 : mh.base ≤ cur) (h2 : cur ≤ end_)
    (h3 : end_ + nlen ≤ mh.base + mh.bytes.size)
    (hn1 : mn.base ≤ nstart) (hn2 : nstart + nlen ≤ mn.base + mn.bytes.size) :
    ∃ r c', Finder.findLoop f mh mn nstart nlen end_ cur hash c = .ok r c' ∧
      c'.steps ≤ c.steps + (end_ - cur + 1) * (nlen / 4 + 3) ∧
      (∀ p, r = some p → cur ≤ p ∧ p ≤ end_ ∧ mh.window p nlen = mn.window nstart nlen) ∧
      (f.hash = H (mn.window nstart nlen) → f.hash2pow = pow2 (nlen - 1) →
        hash = H (mh.window cur nlen) →
        ∀ j, cur ≤ j → j ≤ end_ → (∀ p, r = some p → j < p) →
          mh.window j nlen ≠ mn.window nstart nlen) := by
  induction cur, hash using Finder.findLoop.induct f end_ generalizing c with
  | case1 cur hash ih =>
    rw [Finder.findLoop]
    simp only [M.bind_run, tick_run]
    obtain ⟨eq, c2, he, hs2, hsound, hcompl⟩ := confirm_run f mh mn cur nstart nlen hash
      { c with steps := c.steps + 1 } h1 (by omega) hn1 hn2
    rw [he]
    simp only at hs2
    have hK : (end_ - cur + 1) * (nlen / 4 + 3) = (end_ - cur) * (nlen / 4 + 3) + (nlen / 4 + 3) :=
      Nat.succ_mul _ _
    cases eq with
    | true =>
      simp only [if_true, M.pure_run]
      refine ⟨some cur, c2, rfl, by omega, ?_, ?_⟩
      · intro p hp
        cases hp
        exact ⟨Nat.le_refl _, h2, hsound rfl⟩
      · intro _ _ _ j hj1 _ hj3
        have := hj3 cur rfl
        omega
    | false =>
      simp only [Bool.false_eq_true, if_false]
      -- a window equal to the needle has the needle's hash, so it is not skipped
      have hcur : f.hash = H (mn.window nstart nlen) → hash = H (mh.window cur nlen) →
          mh.window cur nlen ≠ mn.window nstart nlen := by
        intro hf hh heq
        exact hcompl rfl (by rw [hf, hh, heq]) heq
      by_cases hge : cur ≥ end_
      · simp only [hge, dite_true, M.pure_run]
        refine ⟨none, c2, rfl, by omega, fun p hp => (by cases hp), ?_⟩
        intro hf _ hh j hj1 hj2 _
        have : j = cur := by omega
        subst this
        exact hcur hf hh
      · simp only [hge, dite_false, M.bind_run]
        rw [Mem.read_ok mh cur _ h1 (by omega)]
        simp only []
        rw [Mem.padd_ok mh _ cur nlen h1 (by omega)]
        simp only [M.pure_run]
        rw [Mem.read_ok mh (cur + nlen) _ (by omega) (by omega)]
        simp only []
        rw [Mem.padd_ok mh _ cur 1 h1 (by omega)]
        simp only [M.pure_run]
        obtain ⟨r, c', e, hs, hs_sound, hs_compl⟩ := ih hge (mh.byteAt cur)
          (mh.byteAt (cur + nlen))
          { steps := c2.steps,
            loads := ⟨mh.region, cur + nlen - mh.base, 1, false⟩ ::
              ⟨mh.region, cur - mh.base, 1, false⟩ :: c2.loads }
          (by omega) (by omega)
        refine ⟨r, c', e, ?_, ?_, ?_⟩
        · simp only at hs
          have : end_ - (cur + 1) + 1 = end_ - cur := by omega
          rw [this] at hs
          omega
        · intro p hp
          obtain ⟨a1, a2, a3⟩ := hs_sound p hp
          exact ⟨by omega, a2, a3⟩
        · intro hf hp2 hh j hj1 hj2 hj3
          by_cases hjc : j = cur
          · subst hjc
            exact hcur hf hh
          · have hnl : 1 ≤ nlen := by
              apply Nat.pos_of_ne_zero
              intro h0
              subst h0
              exact hcur hf hh rfl
            refine hs_compl hf hp2 ?_ j (by omega) hj2 hj3
            rw [hh]
            exact roll_window_fwd f mh cur nlen hnl hp2

/-! ### the reverse loop -/

theorem rfindLoop_spec (f : Finder) (mh mn : Mem) (nstart nlen start cur : Nat) (hash : Hash)
    (c : Ctr) (h1 : mh.base ≤ start) (h2 : start ≤ cur)
    (h3 : cur + nlen ≤ mh.base + mh.bytes.size)
    (hn1 : mn.base ≤ nstart) (hn2 : nstart + nlen ≤ mn.base + mn.bytes.size) :
    ∃ r c', FinderRev.rfindLoop f mh mn nstart nlen start cur hash c = .ok r c' ∧
      c'.steps ≤ c.steps + (cur - start + 1) * (nlen / 4 + 3) ∧
      (∀ p, r = some p → start ≤ p ∧ p ≤ cur ∧ mh.window p nlen = mn.window nstart nlen) ∧
      (f.hash = H (mn.window nstart nlen).reverse → f.hash2pow = pow2 (nlen - 1) →
        hash = H (mh.window cur nlen).reverse →
        ∀ j, start ≤ j → j ≤ cur → (∀ p, r = some p → p < j) →
          mh.window j nlen ≠ mn.window nstart nlen) := by
  induction cur, hash using FinderRev.rfindLoop.induct f start generalizing c with
  | case1 cur hash ih =>
    rw [FinderRev.rfindLoop]
    simp only [M.bind_run, tick_run]
    obtain ⟨eq, c2, he, hs2, hsound, hcompl⟩ := confirm_run f mh mn cur nstart nlen hash
      { c with steps := c.steps + 1 } (by omega) h3 hn1 hn2
    rw [he]
    simp only at hs2
    have hK : (cur - start + 1) * (nlen / 4 + 3) = (cur - start) * (nlen / 4 + 3) + (nlen / 4 + 3) :=
      Nat.succ_mul _ _
    cases eq with
    | true =>
      simp only [if_true, M.pure_run]
      refine ⟨some cur, c2, rfl, by omega, ?_, ?_⟩
      · intro p hp
        cases hp
        exact ⟨h2, Nat.le_refl _, hsound rfl⟩
      · intro _ _ _ j _ hj2 hj3
        have := hj3 cur rfl
        omega
    | false =>
      simp only [Bool.false_eq_true, if_false]
      have hcur : f.hash = H (mn.window nstart nlen).reverse →
          hash = H (mh.window cur nlen).reverse →
          mh.window cur nlen ≠ mn.window nstart nlen := by
        intro hf hh heq
        exact hcompl rfl (by rw [hf, hh, heq]) heq
      by_cases hle : cur ≤ start
      · simp only [hle, dite_true, M.pure_run]
        refine ⟨none, c2, rfl, by omega, fun p hp => (by cases hp), ?_⟩
        intro hf _ hh j hj1 hj2 _
        have : j = cur := by omega
        subst this
        exact hcur hf hh
      · simp only [hle, dite_false, M.bind_run]
        rw [Mem.psub_ok mh _ cur 1 (by omega) (by omega)]
        simp only [M.pure_run]
        rw [Mem.padd_ok mh _ (cur - 1) nlen (by omega) (by omega)]
        simp only [M.pure_run]
        rw [Mem.read_ok mh (cur - 1 + nlen) _ (by omega) (by omega)]
        simp only []
        rw [Mem.read_ok mh (cur - 1) _ (by omega) (by omega)]
        simp only []
        obtain ⟨r, c', e, hs, hs_sound, hs_compl⟩ := ih hle (mh.byteAt (cur - 1 + nlen))
          (mh.byteAt (cur - 1))
          { steps := c2.steps,
            loads := ⟨mh.region, cur - 1 - mh.base, 1, false⟩ ::
              ⟨mh.region, cur - 1 + nlen - mh.base, 1, false⟩ :: c2.loads }
          (by omega) (by omega)
        refine ⟨r, c', e, ?_, ?_, ?_⟩
        · simp only at hs
          have : cur - 1 - start + 1 = cur - start := by omega
          rw [this] at hs
          omega
        · intro p hp
          obtain ⟨a1, a2, a3⟩ := hs_sound p hp
          exact ⟨a1, by omega, a3⟩
        · intro hf hp2 hh j hj1 hj2 hj3
          by_cases hjc : j = cur
          · subst hjc
            exact hcur hf hh
          · have hnl : 1 ≤ nlen := by
              apply Nat.pos_of_ne_zero
              intro h0
              subst h0
              exact hcur hf hh rfl
            refine hs_compl hf hp2 ?_ j hj1 (by omega) hj3
            rw [hh]
            have hc : cur - 1 + 1 = cur := by omega
            have := roll_window_rev f mh (cur - 1) nlen hnl hp2
            rw [hc] at this
            exact this

/-! ### `find` -/

/-- `Finder::find` for an arbitrary finder: never faults, only reports true occurrences,
explicit step bound; and if the finder was built from the needle's bytes no occurrence is
skipped. -/
theorem find_spec (f : Finder) (h n : Slice) (c : Ctr) (hh : h.Valid) (hn : n.Valid) :
    ∃ r c', f.find h n c = .ok r c' ∧
      c'.steps ≤ c.steps + (h.len - n.len + 1) * (n.len / 4 + 3) + n.len ∧
      (∀ i, r = some i → Spec.OccAt h.toArray n.toArray i) ∧
      (f = Finder.spec n.toList → ∀ j, Spec.OccAt h.toArray n.toArray j →
        ∃ i, r = some i ∧ i ≤ j) := by
  have hb1 := hh.ptr_le
  have hb2 := hh.endPtr_le
  have nb1 := hn.ptr_le
  have nb2 := hn.endPtr_le
  unfold Finder.find Finder.findRaw
  simp only [Mem.padd_ok h.mem _ h.ptr h.len hb1 hb2, Mem.padd_ok n.mem _ n.ptr n.len nb1 nb2,
    M.bind_run, M.pure_run,
    Mem.distance_ok h.mem _ (h.ptr + h.len) h.ptr hb1 (by omega) hb2,
    Mem.distance_ok n.mem _ (n.ptr + n.len) n.ptr nb1 (by omega) nb2, Nat.add_sub_cancel_left]
  by_cases hgt : n.len > h.len
  · simp only [hgt, if_true, M.pure_run]
    refine ⟨none, c, rfl, by omega, fun i hi => (by cases hi), ?_⟩
    intro _ j hj
    have := ((Slice.occAt_iff_window hh hn j).mp hj).1
    omega
  · simp only [hgt, if_false, M.bind_run]
    rw [Mem.psub_ok h.mem _ (h.ptr + h.len) n.len (by omega) hb2,
      Mem.padd_ok h.mem _ h.ptr n.len hb1 (by omega)]
    simp only [M.pure_run]
    obtain ⟨c1, e1, hs1⟩ := forward_run h.mem h.ptr (h.ptr + n.len) c hb1 (by omega) (by omega)
    rw [e1]
    simp only [Nat.add_sub_cancel_left]
    obtain ⟨r, c2, e2, hs2, hsound, hcompl⟩ := findLoop_spec f h.mem n.mem n.ptr n.len
      (h.ptr + h.len - n.len) h.ptr (H (h.mem.window h.ptr n.len)) c1 hb1 (by omega) (by omega)
      nb1 nb2
    rw [e2]
    have hlen : h.ptr + h.len - n.len - h.ptr = h.len - n.len := by omega
    rw [hlen] at hs2
    cases r with
    | none =>
      simp only [M.pure_run]
      refine ⟨none, c2, rfl, by omega, fun i hi => (by cases hi), ?_⟩
      intro hf j hj
      obtain ⟨o1, o2⟩ := (Slice.occAt_iff_window hh hn j).mp hj
      exfalso
      refine hcompl ?_ ?_ rfl (h.ptr + j) (by omega) (by omega) (fun p hp => (by cases hp)) o2
      · rw [hf, Finder.spec, Slice.toList_eq_window]
      · rw [hf, Finder.spec, Slice.toList_length]
    | some p =>
      obtain ⟨s1, s2, s3⟩ := hsound p rfl
      simp only [M.bind_run]
      rw [Mem.distance_ok h.mem _ p h.ptr hb1 s1 (by omega)]
      simp only [M.pure_run]
      refine ⟨some (p - h.ptr), c2, rfl, by omega, ?_, ?_⟩
      · intro i hi
        cases hi
        rw [Slice.occAt_iff_window hh hn]
        have : h.ptr + (p - h.ptr) = p := by omega
        rw [this]
        exact ⟨by omega, s3⟩
      · intro hf j hj
        obtain ⟨o1, o2⟩ := (Slice.occAt_iff_window hh hn j).mp hj
        refine ⟨_, rfl, ?_⟩
        apply Classical.byContradiction
        intro hlt
        refine hcompl ?_ ?_ rfl (h.ptr + j) (by omega) (by omega) ?_ o2
        · rw [hf, Finder.spec, Slice.toList_eq_window]
        · rw [hf, Finder.spec, Slice.toList_length]
        · intro p' hp'
          cases hp'
          omega

/-- the result of a sound and complete forward search is the leftmost occurrence -/
theorem eq_leftmost {hay needle : Array UInt8} {r : Option Nat}
    (hsound : ∀ i, r = some i → Spec.OccAt hay needle i)
    (hcompl : ∀ j, Spec.OccAt hay needle j → ∃ i, r = some i ∧ i ≤ j) :
    r = Spec.leftmost hay needle := by
  cases r with
  | none =>
    symm
    rw [Spec.leftmost_eq_none_iff]
    intro j hj
    obtain ⟨i, hi, _⟩ := hcompl j hj
    cases hi
  | some i =>
    symm
    rw [Spec.leftmost_eq_some_iff]
    refine ⟨hsound i rfl, fun j hj hocc => ?_⟩
    obtain ⟨i', hi', hle⟩ := hcompl j hocc
    cases hi'
    omega

/-- the result of a sound and complete reverse search is the rightmost occurrence -/
theorem eq_rightmost {hay needle : Array UInt8} {r : Option Nat}
    (hsound : ∀ i, r = some i → Spec.OccAt hay needle i)
    (hcompl : ∀ j, Spec.OccAt hay needle j → ∃ i, r = some i ∧ j ≤ i) :
    r = Spec.rightmost hay needle := by
  cases r with
  | none =>
    symm
    rw [Spec.rightmost_eq_none_iff]
    intro j hj
    obtain ⟨i, hi, _⟩ := hcompl j hj
    cases hi
  | some i =>
    symm
    rw [Spec.rightmost_eq_some_iff]
    refine ⟨hsound i rfl, fun j hj hocc => ?_⟩
    obtain ⟨i', hi', hle⟩ := hcompl j hocc
    cases hi'
    omega

theorem bound_le (hl nl : Nat) :
    (hl - nl + 1) * (nl / 4 + 3) ≤ 2 * (hl + 1) * (nl / 4 + 2) := by
  have : (hl - nl + 1) * (nl / 4 + 3) ≤ (hl + 1) * (2 * (nl / 4 + 2)) :=
    Nat.mul_le_mul (by omega) (by omega)
  rw [Nat.mul_comm 2, Nat.mul_assoc]
  exact this

/-- C12 (forward), finder given: a finder built from the needle's bytes finds the leftmost
occurrence. -/
theorem find_correct_of_spec (f : Finder) (h n : Slice) (c : Ctr) (hh : h.Valid) (hn : n.Valid)
    (hf : f = Finder.spec n.toList) :
    ∃ c', f.find h n c = .ok (Spec.leftmost h.toArray n.toArray) c' ∧
      c'.steps ≤ c.steps + 2 * (h.len + 1) * (n.len / 4 + 2) + n.len := by
  obtain ⟨r, c', e, hs, hsound, hcompl⟩ := find_spec f h n c hh hn
  have := eq_leftmost hsound (hcompl hf)
  subst this
  have := bound_le h.len n.len
  exact ⟨c', e, by omega⟩

/-- C12 (forward) master theorem: `Finder::new(needle).find(haystack, needle)` is the leftmost
occurrence; the steps (construction included) are bounded by
`2 * (h.len + 1) * (n.len / 4 + 2) + 2 * n.len`. -/
theorem find_correct (h n : Slice) (c : Ctr) (hh : h.Valid) (hn : n.Valid) :
    ∃ c', (Finder.new n >>= fun f => f.find h n) c =
        .ok (Spec.leftmost h.toArray n.toArray) c' ∧
      c'.steps ≤ c.steps + 2 * (h.len + 1) * (n.len / 4 + 2) + 2 * n.len := by
  simp only [M.bind_run, Finder.new_run]
  obtain ⟨c', e, hs⟩ := find_correct_of_spec (Finder.spec n.toList) h n
    { c with steps := c.steps + (n.len - 1) } hh hn rfl
  exact ⟨c', e, by simp only at hs; omega⟩

/-- as `find_correct`, the finder being constructed from another slice `n0` holding the same
bytes as the search needle `n` -/
theorem find_correct_same_bytes (h n0 n : Slice) (c : Ctr) (hh : h.Valid) (hn : n.Valid)
    (hb : n0.toList = n.toList) :
    ∃ c', (Finder.new n0 >>= fun f => f.find h n) c =
        .ok (Spec.leftmost h.toArray n.toArray) c' ∧
      c'.steps ≤ c.steps + 2 * (h.len + 1) * (n.len / 4 + 2) + 2 * n.len := by
  have hl : n0.len = n.len := by simpa using congrArg List.length hb
  simp only [M.bind_run, Finder.new_run, hb, hl]
  obtain ⟨c', e, hs⟩ := find_correct_of_spec (Finder.spec n.toList) h n
    { c with steps := c.steps + (n.len - 1) } hh hn rfl
  exact ⟨c', e, by simp only at hs; omega⟩

/-- C05 (forward, out of domain): for an ARBITRARY finder (any hash, any `hash_2pow`, e.g.
built from a different needle) `find` returns normally - no fault of any kind, in
particular no `oobRead`, `misaligned` or `ptrOob` -, any reported offset is a true
occurrence, and the step bound still holds. -/
theorem find_reads_ok (f : Finder) (h n : Slice) (c : Ctr) (hh : h.Valid) (hn : n.Valid) :
    ∃ r c', f.find h n c = .ok r c' ∧
      (∀ i, r = some i → Spec.OccAt h.toArray n.toArray i) ∧
      c'.steps ≤ c.steps + 2 * (h.len + 1) * (n.len / 4 + 2) + n.len := by
  obtain ⟨r, c', e, hs, hsound, _⟩ := find_spec f h n c hh hn
  have := bound_le h.len n.len
  exact ⟨r, c', e, hsound, by omega⟩

/-- C05 with the construction included: a finder built from ANY slice `n0` (valid or not: the
construction reads it with safe iterators only), searched with any valid needle. -/
theorem new_find_reads_ok (h n0 n : Slice) (c : Ctr) (hh : h.Valid) (hn : n.Valid) :
    ∃ r c', (Finder.new n0 >>= fun f => f.find h n) c = .ok r c' ∧
      (∀ i, r = some i → Spec.OccAt h.toArray n.toArray i) ∧
      c'.steps ≤ c.steps + 2 * (h.len + 1) * (n.len / 4 + 2) + n.len + n0.len := by
  simp only [M.bind_run, Finder.new_run]
  obtain ⟨r, c', e, hsound, hs⟩ := find_reads_ok (Finder.spec n0.toList) h n
    { c with steps := c.steps + (n0.len - 1) } hh hn
  exact ⟨r, c', e, hsound, by simp only at hs; omega⟩

/-! ### `rfind` -/

theorem rfind_spec (f : FinderRev) (h n : Slice) (c : Ctr) (hh : h.Valid) (hn : n.Valid) :
    ∃ r c', f.rfind h n c = .ok r c' ∧
      c'.steps ≤ c.steps + (h.len - n.len + 1) * (n.len / 4 + 3) + n.len ∧
      (∀ i, r = some i → Spec.OccAt h.toArray n.toArray i) ∧
      (f.inner = Finder.spec n.toList.reverse → ∀ j, Spec.OccAt h.toArray n.toArray j →
        ∃ i, r = some i ∧ j ≤ i) := by
  have hb1 := hh.ptr_le
  have hb2 := hh.endPtr_le
  have nb1 := hn.ptr_le
  have nb2 := hn.endPtr_le
  unfold FinderRev.rfind FinderRev.rfindRaw
  simp only [Mem.padd_ok h.mem _ h.ptr h.len hb1 hb2, Mem.padd_ok n.mem _ n.ptr n.len nb1 nb2,
    M.bind_run, M.pure_run,
    Mem.distance_ok h.mem _ (h.ptr + h.len) h.ptr hb1 (by omega) hb2,
    Mem.distance_ok n.mem _ (n.ptr + n.len) n.ptr nb1 (by omega) nb2, Nat.add_sub_cancel_left]
  by_cases hgt : n.len > h.len
  · simp only [hgt, if_true, M.pure_run]
    refine ⟨none, c, rfl, by omega, fun i hi => (by cases hi), ?_⟩
    intro _ j hj
    have := ((Slice.occAt_iff_window hh hn j).mp hj).1
    omega
  · simp only [hgt, if_false, M.bind_run]
    rw [Mem.psub_ok h.mem _ (h.ptr + h.len) n.len (by omega) hb2]
    simp only [M.pure_run]
    rw [Mem.padd_ok h.mem _ (h.ptr + h.len - n.len) n.len (by omega) (by omega)]
    simp only [M.pure_run]
    obtain ⟨c1, e1, hs1⟩ := reverse_run h.mem (h.ptr + h.len - n.len)
      (h.ptr + h.len - n.len + n.len) c (by omega) (by omega) (by omega)
    rw [e1]
    simp only [Nat.add_sub_cancel_left]
    obtain ⟨r, c2, e2, hs2, hsound, hcompl⟩ := rfindLoop_spec f.inner h.mem n.mem n.ptr n.len
      h.ptr (h.ptr + h.len - n.len) (H (h.mem.window (h.ptr + h.len - n.len) n.len).reverse) c1
      hb1 (by omega) (by omega) nb1 nb2
    rw [e2]
    have hlen : h.ptr + h.len - n.len - h.ptr = h.len - n.len := by omega
    rw [hlen] at hs2
    simp only [Nat.add_sub_cancel_left] at hs1
    cases r with
    | none =>
      simp only [M.pure_run]
      refine ⟨none, c2, rfl, by omega, fun i hi => (by cases hi), ?_⟩
      intro hf j hj
      obtain ⟨o1, o2⟩ := (Slice.occAt_iff_window hh hn j).mp hj
      exfalso
      refine hcompl ?_ ?_ rfl (h.ptr + j) (by omega) (by omega) (fun p hp => (by cases hp)) o2
      · rw [hf, Finder.spec, Slice.toList_eq_window]
      · rw [hf, Finder.spec, List.length_reverse, Slice.toList_length]
    | some p =>
      obtain ⟨s1, s2, s3⟩ := hsound p rfl
      simp only [M.bind_run]
      rw [Mem.distance_ok h.mem _ p h.ptr hb1 s1 (by omega)]
      simp only [M.pure_run]
      refine ⟨some (p - h.ptr), c2, rfl, by omega, ?_, ?_⟩
      · intro i hi
        cases hi
        rw [Slice.occAt_iff_window hh hn]
        have : h.ptr + (p - h.ptr) = p := by omega
        rw [this]
        exact ⟨by omega, s3⟩
      · intro hf j hj
        obtain ⟨o1, o2⟩ := (Slice.occAt_iff_window hh hn j).mp hj
        refine ⟨_, rfl, ?_⟩
        apply Classical.byContradiction
        intro hlt
        refine hcompl ?_ ?_ rfl (h.ptr + j) (by omega) (by omega) ?_ o2
        · rw [hf, Finder.spec, Slice.toList_eq_window]
        · rw [hf, Finder.spec, List.length_reverse, Slice.toList_length]
        · intro p' hp'
          cases hp'
          omega

/-- C12 (reverse), finder given -/
theorem rfind_correct_of_spec (f : FinderRev) (h n : Slice) (c : Ctr) (hh : h.Valid)
    (hn : n.Valid) (hf : f.inner = Finder.spec n.toList.reverse) :
    ∃ c', f.rfind h n c = .ok (Spec.rightmost h.toArray n.toArray) c' ∧
      c'.steps ≤ c.steps + 2 * (h.len + 1) * (n.len / 4 + 2) + n.len := by
  obtain ⟨r, c', e, hs, hsound, hcompl⟩ := rfind_spec f h n c hh hn
  have := eq_rightmost hsound (hcompl hf)
  subst this
  have := bound_le h.len n.len
  exact ⟨c', e, by omega⟩

/-- C12 (reverse) master theorem: `FinderRev::new(needle).rfind(haystack, needle)` is the
rightmost occurrence; same step bound as `find_correct`. -/
theorem rfind_correct (h n : Slice) (c : Ctr) (hh : h.Valid) (hn : n.Valid) :
    ∃ c', (FinderRev.new n >>= fun f => f.rfind h n) c =
        .ok (Spec.rightmost h.toArray n.toArray) c' ∧
      c'.steps ≤ c.steps + 2 * (h.len + 1) * (n.len / 4 + 2) + 2 * n.len := by
  simp only [M.bind_run, FinderRev.new_run]
  obtain ⟨c', e, hs⟩ := rfind_correct_of_spec ⟨Finder.spec n.toList.reverse⟩ h n
    { c with steps := c.steps + (n.len - 1) } hh hn rfl
  exact ⟨c', e, by simp only at hs; omega⟩

/-- as `rfind_correct`, the finder being constructed from another slice `n0` holding the same
bytes as the search needle `n` -/
theorem rfind_correct_same_bytes (h n0 n : Slice) (c : Ctr) (hh : h.Valid) (hn : n.Valid)
    (hb : n0.toList = n.toList) :
    ∃ c', (FinderRev.new n0 >>= fun f => f.rfind h n) c =
        .ok (Spec.rightmost h.toArray n.toArray) c' ∧
      c'.steps ≤ c.steps + 2 * (h.len + 1) * (n.len / 4 + 2) + 2 * n.len := by
  have hl : n0.len = n.len := by simpa using congrArg List.length hb
  simp only [M.bind_run, FinderRev.new_run, hb, hl]
  obtain ⟨c', e, hs⟩ := rfind_correct_of_spec ⟨Finder.spec n.toList.reverse⟩ h n
    { c with steps := c.steps + (n.len - 1) } hh hn rfl
  exact ⟨c', e, by simp only at hs; omega⟩

/-- C05 (reverse, out of domain): as `find_reads_ok`. -/
theorem rfind_reads_ok (f : FinderRev) (h n : Slice) (c : Ctr) (hh : h.Valid) (hn : n.Valid) :
    ∃ r c', f.rfind h n c = .ok r c' ∧
      (∀ i, r = some i → Spec.OccAt h.toArray n.toArray i) ∧
      c'.steps ≤ c.steps + 2 * (h.len + 1) * (n.len / 4 + 2) + n.len := by
  obtain ⟨r, c', e, hs, hsound, _⟩ := rfind_spec f h n c hh hn
  have := bound_le h.len n.len
  exact ⟨r, c', e, hsound, by omega⟩

theorem new_rfind_reads_ok (h n0 n : Slice) (c : Ctr) (hh : h.Valid) (hn : n.Valid) :
    ∃ r c', (FinderRev.new n0 >>= fun f => f.rfind h n) c = .ok r c' ∧
      (∀ i, r = some i → Spec.OccAt h.toArray n.toArray i) ∧
      c'.steps ≤ c.steps + 2 * (h.len + 1) * (n.len / 4 + 2) + n.len + n0.len := by
  simp only [M.bind_run, FinderRev.new_run]
  obtain ⟨r, c', e, hsound, hs⟩ := rfind_reads_ok ⟨Finder.spec n0.toList.reverse⟩ h n
    { c with steps := c.steps + (n0.len - 1) } hh hn
  exact ⟨r, c', e, hsound, by simp only at hs; omega⟩

/-- the hypotheses are satisfiable by a non-trivial input (sub-slices of larger regions) -/
example : (⟨⟨0, 4096, #[9, 1, 2, 1, 2, 3, 9]⟩, 1, 5⟩ : Slice).Valid ∧
    (⟨⟨1, 8192, #[7, 1, 2, 3]⟩, 1, 3⟩ : Slice).Valid := by
  constructor <;> (unfold Slice.Valid; decide)

end Memchr.RabinKarp
