/-
Two-Way, reverse direction: the constructor `FinderRev::new`.  It never faults, costs at most
`6 * len + 2` steps, yields a byte set without false negatives, a critical position in
`[1, len]` and a shift in `[1, len]`; in the `Small` case the stored `period` is a period of
the needle with `len - critical_pos <= period` (from the mirrored `Suffix::reverse` loop
invariants (I0), (I1) of DESIGN section 8 and `Shift::reverse`'s own `is_prefix` test).  This
is exactly `SoundPreRev`, the hypothesis of `rfind_sound`.
-/
import MemchrModel.Proofs.TwoWayRevDefs
import MemchrModel.Proofs.TwoWayNew

namespace Memchr.TwoWay

open Memchr

/-! ### `Suffix::reverse` -/

/-- invariants (I0), (I1) of DESIGN section 8, mirrored, for the state
`(suffix, candidate_start, offset)` of the `Suffix::reverse` loop: the examined window is
`x[j - k .. s.pos)` and has period `s.period` -/
structure SufInvRev (n : Slice) (s : Suffix) (j k : Nat) : Prop where
  lt : j < s.pos
  le : s.pos ≤ n.len
  kp : k < s.period
  dvd : s.period ∣ s.pos - j
  kj : k ≤ j
  per : ∀ t, j ≤ t + k → t + s.period < s.pos → n.getD t = n.getD (t + s.period)

theorem SufInvRev.period_le {n : Slice} {s : Suffix} {j k : Nat} (h : SufInvRev n s j k) :
    s.period ≤ s.pos - j := by
  obtain ⟨m, hm⟩ := h.dvd
  have := h.lt
  rcases Nat.eq_zero_or_pos m with h0 | h0
  · subst h0; simp at hm; omega
  · rw [hm]; exact Nat.le_mul_of_pos_right _ h0

/-- iterating the period inside the examined window -/
theorem SufInvRev.per_mul {n : Slice} {s : Suffix} {j k : Nat} (h : SufInvRev n s j k) (t m : Nat)
    (ht : j ≤ t + k) (hm : t + m * s.period < s.pos) : n.getD t = n.getD (t + m * s.period) := by
  induction m with
  | zero => simp
  | succ m ih =>
    have h1 : t + m * s.period < s.pos := by
      rw [Nat.succ_mul] at hm; omega
    rw [ih h1, h.per (t + m * s.period) (by omega) (by rw [Nat.succ_mul] at hm; omega)]
    congr 1
    rw [Nat.succ_mul]; omega

/-- `Push`: the byte just left of the window equals the byte one period to its right -/
theorem SufInvRev.extend {n : Slice} {s : Suffix} {j k : Nat} (h : SufInvRev n s j k)
    (hkj : k < j) (heq : n.getD (s.pos - k - 1) = n.getD (j - k - 1)) :
    ∀ t, j ≤ t + (k + 1) → t + s.period < s.pos → n.getD t = n.getD (t + s.period) := by
  intro t ht1 ht2
  by_cases hlt : j ≤ t + k
  · exact h.per t hlt ht2
  · have e : t = j - k - 1 := by omega
    obtain ⟨m, hm⟩ := h.dvd
    have hlt' := h.lt
    have hkp := h.kp
    have hple := h.period_le
    have hm1 : 1 ≤ m := by
      rcases Nat.eq_zero_or_pos m with h0 | h0
      · subst h0; simp at hm; omega
      · exact h0
    have hmm : s.period * m = (m - 1) * s.period + s.period := by
      rw [Nat.mul_comm, ← Nat.succ_mul]; congr 1; omega
    have e2 : t + s.period + (m - 1) * s.period = s.pos - k - 1 := by omega
    have := h.per_mul (t + s.period) (m - 1) (by omega) (by omega)
    rw [this, e2, heq, e]

theorem reverseLoop_spec (n : Slice) (kind : SuffixKind) (s : Suffix) (j k : Nat) (c : Ctr)
    (h : SufInvRev n s j k) :
    ∃ s' c', Suffix.reverseLoop n kind s j k c = .ok s' c' ∧
      c'.steps + k ≤ c.steps + s.pos + j ∧ c'.loads = c.loads ∧
      1 ≤ s'.period ∧ s'.period ≤ s'.pos ∧ s'.pos ≤ n.len ∧
      ∀ t, t + s'.period < s'.pos → n.getD t = n.getD (t + s'.period) := by
  fun_induction Suffix.reverseLoop n kind s j k generalizing c with
  | case1 s j k hlt ih1 ih2 ih3 ih4 =>
    have hpl := h.lt
    have hle := h.le
    have hkp := h.kp
    have hple := h.period_le
    rw [bind_ok (tick_run 1 c)]
    simp only [csub_of_le _ (show k ≤ s.pos by omega), csub_of_le _ (show 1 ≤ s.pos - k by omega),
      csub_of_le _ (show k ≤ j by omega), csub_of_le _ (show 1 ≤ j - k by omega), pure_bind',
      get_ok n _ (show s.pos - k - 1 < n.len by omega),
      get_ok n _ (show j - k - 1 < n.len by omega)]
    cases hc : kind.cmp (n.getD (s.pos - k - 1)) (n.getD (j - k - 1)) with
    | accept =>
      simp only [csub_of_le _ (show 1 ≤ j by omega), pure_bind']
      obtain ⟨s', c', e, h1, h2, h3⟩ := ih1 { c with steps := c.steps + 1 }
        ⟨by simp only; omega, by simp only; omega, by simp, by simp, by omega,
          fun t ht1 ht2 => by simp only at ht1 ht2; omega⟩
      refine ⟨s', c', e, ?_, h2, h3⟩
      simp only at h1; omega
    | skip =>
      simp only [csub_of_le _ (show k + 1 ≤ j by omega),
        csub_of_le _ (show j - (k + 1) ≤ s.pos by omega), pure_bind']
      obtain ⟨s', c', e, h1, h2, h3⟩ := ih2 (s.pos - (j - (k + 1))) { c with steps := c.steps + 1 }
        ⟨by simp only; omega, by simp only; omega, by simp only; omega, by simp, by omega,
          fun t ht1 ht2 => by simp only at ht1 ht2; omega⟩
      refine ⟨s', c', e, ?_, h2, h3⟩
      simp only at h1; omega
    | push =>
      have heq := cmp_push_eq hc
      simp only []
      by_cases hp : k + 1 = s.period
      · simp only [hp, dite_true, csub_of_le _ (show s.period ≤ j by omega), pure_bind']
        obtain ⟨s', c', e, h1, h2, h3⟩ := ih3 hp { c with steps := c.steps + 1 }
          ⟨by omega, hle, by omega, by
            obtain ⟨m, hm⟩ := h.dvd
            exact ⟨m + 1, by rw [Nat.mul_succ]; omega⟩, by omega,
            fun t ht1 ht2 => h.extend hlt heq t (by omega) ht2⟩
        refine ⟨s', c', e, ?_, h2, h3⟩
        simp only at h1; omega
      · simp only [hp, dite_false]
        obtain ⟨s', c', e, h1, h2, h3⟩ := ih4 { c with steps := c.steps + 1 }
          ⟨hpl, hle, by omega, h.dvd, by omega, fun t ht1 ht2 => h.extend hlt heq t ht1 ht2⟩
        refine ⟨s', c', e, ?_, h2, h3⟩
        simp only at h1; omega
  | case2 s j k hlt =>
    have hkj := h.kj
    have hple := h.period_le
    have hpl := h.lt
    refine ⟨s, c, rfl, by omega, rfl, by have := h.kp; omega, by omega, h.le, ?_⟩
    intro t ht
    exact h.per t (by omega) ht

/-- `Suffix::reverse(needle, kind)` on a non-empty needle: never faults, at most `2 * len`
steps, and the result is a position `pos` in `[1, len]` together with a period
`<= pos` of the prefix `x[..pos]`. -/
theorem suffix_reverse_spec (n : Slice) (kind : SuffixKind) (c : Ctr) (hn : 0 < n.len) :
    ∃ s' c', Suffix.reverse n kind c = .ok s' c' ∧
      c'.steps ≤ c.steps + 2 * n.len ∧ c'.loads = c.loads ∧
      1 ≤ s'.period ∧ s'.period ≤ s'.pos ∧ s'.pos ≤ n.len ∧
      ∀ t, t + s'.period < s'.pos → n.getD t = n.getD (t + s'.period) := by
  unfold Suffix.reverse
  by_cases h1 : n.len = 1
  · simp only [h1, if_true]
    exact ⟨_, c, rfl, by omega, rfl, by simp, by simp, by simp,
      fun t ht => by simp only at ht; omega⟩
  · have h0 : ¬ n.len = 0 := by omega
    simp only [h1, h0, if_false]
    obtain ⟨s', c', e, h1, h2, h3⟩ := reverseLoop_spec n kind { pos := n.len, period := 1 }
      (n.len - 1) 0 c
      ⟨by simp only; omega, by simp, by simp, by simp, by omega,
        fun t ht1 ht2 => by simp only at ht1 ht2; omega⟩
    exact ⟨s', c', e, by simp only at h1; omega, h2, h3⟩

theorem suffix_reverse_empty (n : Slice) (kind : SuffixKind) (c : Ctr) (hn : n.len = 0) :
    Suffix.reverse n kind c = .ok { pos := 0, period := 1 } c := by
  unfold Suffix.reverse
  simp [hn]

/-! ### `Shift::reverse` -/

theorem shift_reverse_spec (n : Slice) (p crit : Nat) (c : Ctr) (hnv : n.Valid)
    (hc1 : 1 ≤ crit) (hcn : crit ≤ n.len) (hp1 : 1 ≤ p) (hpc : p ≤ crit)
    (hper : ∀ t, t + p < crit → n.getD t = n.getD (t + p)) :
    ∃ sh c', Shift.reverse n p crit c = .ok sh c' ∧ c'.steps ≤ c.steps + n.len / 4 + 2 ∧
      SoundPreRev n.toArray crit sh ∧ (∀ s, sh = .large s → n.len ≤ 2 * s) := by
  have hsz : n.toArray.size = n.len := Slice.toArray_size hnv
  unfold Shift.reverse
  simp only [csub_of_le _ hcn, pure_bind']
  by_cases h2 : (n.len - crit) * 2 ≥ n.len
  · simp only [h2, if_true]
    exact ⟨_, c, rfl, by omega, by simp only [SoundPreRev]; omega,
      fun s hs => by cases hs; omega⟩
  · simp only [h2, if_false, Slice.take, Slice.drop, hcn, if_true, pure_bind',
      csub_of_le _ hpc, show crit - p ≤ crit by omega]
    have hvu : (⟨n.mem, n.off + crit, n.len - crit⟩ : Slice).Valid := by
      unfold Slice.Valid at *; simp only; omega
    have hvv : (⟨n.mem, n.off + (crit - p), crit - (crit - p)⟩ : Slice).Valid := by
      unfold Slice.Valid at *; simp only; omega
    obtain ⟨c', e, hs⟩ := IsEqual.isPrefix_correct ⟨n.mem, n.off + (crit - p), crit - (crit - p)⟩
      ⟨n.mem, n.off + crit, n.len - crit⟩ c hvv hvu
    rw [bind_ok e]
    have hs' : c'.steps ≤ c.steps + n.len / 4 + 2 := by
      simp only at hs
      have : (n.len - crit) / 4 ≤ n.len / 4 := Nat.div_le_div_right (Nat.sub_le _ _)
      omega
    by_cases hpre : (⟨n.mem, n.off + crit, n.len - crit⟩ : Slice).toList <+:
        (⟨n.mem, n.off + (crit - p), crit - (crit - p)⟩ : Slice).toList
    · simp only [hpre, decide_true, Bool.not_true, Bool.false_eq_true, if_false]
      refine ⟨_, c', rfl, hs', ?_, nofun⟩
      have hlen : n.len - crit ≤ p := by
        have := hpre.length_le
        simp only [Slice.toList_length] at this
        omega
      refine ⟨hc1, by omega, ?_, by omega, by omega⟩
      apply per_of_getD hnv hp1
      intro t ht
      by_cases htc : t + p < crit
      · exact hper t htc
      · rw [List.prefix_iff_eq_take] at hpre
        have h1 : (⟨n.mem, n.off + crit, n.len - crit⟩ : Slice).toList[t + p - crit]? =
            some (n.getD (t + p)) := by
          rw [Slice.toList_getElem? _ _ (show t + p - crit < n.len - crit by omega)]
          simp only [Slice.getD]
          rw [show n.off + crit + (t + p - crit) = n.off + (t + p) by omega]
        rw [hpre, List.getElem?_take] at h1
        simp only [Slice.toList_length, show t + p - crit < n.len - crit by omega, if_true] at h1
        rw [Slice.toList_getElem? _ _ (show t + p - crit < crit - (crit - p) by omega)] at h1
        have h2 := Option.some.inj h1
        rw [← h2]
        simp only [Slice.getD]
        rw [show n.off + (crit - p) + (t + p - crit) = n.off + t by omega]
    · simp only [hpre, decide_false, Bool.not_false, if_true]
      exact ⟨_, c', rfl, hs', by simp only [SoundPreRev]; omega, fun s hs => by cases hs; omega⟩

/-! ### `FinderRev::new` -/

/-- **Constructor.**  `FinderRev::new(needle)` never faults, takes at most `6 * len + 2`
steps, its byte set has no false negatives, `critical_pos <= len`, for a non-empty needle the
result satisfies `SoundPreRev` (`1 <= critical_pos <= len`, shift value in `[1, len]`; `Small`:
`period` is a period of the needle and `len - critical_pos <= period`), and a `Large` shift is
at least half the length. -/
theorem finderRev_new_spec (needle : Slice) (c : Ctr) (hnv : needle.Valid) :
    ∃ tw c', FinderRev.new needle c = .ok tw c' ∧
      c'.steps ≤ c.steps + 6 * needle.len + 2 ∧
      (∀ b, b ∈ needle.toArray → tw.byteset.has b = true) ∧
      tw.criticalPos ≤ needle.len ∧
      (0 < needle.len → SoundPreRev needle.toArray tw.criticalPos tw.shift) ∧
      (∀ s, tw.shift = .large s → needle.len ≤ 2 * s) := by
  obtain ⟨bs, ebs, hbs⟩ := byteset_new_spec needle c
  have hbs' : ∀ b, b ∈ needle.toArray → bs.has b = true := by
    intro b hb
    obtain ⟨t, ht, e⟩ := mem_toArray_getD hnv hb
    rw [← e]; exact hbs t ht
  unfold FinderRev.new
  rw [bind_ok ebs]
  by_cases h0 : needle.len = 0
  · rw [bind_ok (suffix_reverse_empty needle _ _ h0), bind_ok (suffix_reverse_empty needle _ _ h0)]
    simp only [Nat.lt_irrefl, if_false, Shift.reverse, h0, csub_of_le _ (Nat.le_refl 0),
      pure_bind', ge_iff_le, Nat.le_refl, if_true]
    exact ⟨_, _, rfl, by simp, hbs', by simp, fun h => by first | omega | exact h.elim,
      fun s hs => by omega⟩
  · have hn : 0 < needle.len := Nat.pos_of_ne_zero h0
    obtain ⟨s1, c1, e1, hs1, _, hp1, hl1, hn1, hper1⟩ :=
      suffix_reverse_spec needle .minimal { c with steps := c.steps + needle.len } hn
    obtain ⟨s2, c2, e2, hs2, _, hp2, hl2, hn2, hper2⟩ :=
      suffix_reverse_spec needle .maximal c1 hn
    rw [bind_ok e1, bind_ok e2]
    by_cases hlt : s1.pos < s2.pos
    · simp only [hlt, if_true]
      obtain ⟨sh, c3, e3, hs3, hsp, hlg⟩ := shift_reverse_spec needle s1.period s1.pos c2 hnv
        (by omega) hn1 hp1 hl1 hper1
      rw [bind_ok e3]
      refine ⟨_, c3, rfl, ?_, hbs', by simp only; omega, fun _ => hsp, hlg⟩
      simp only at hs1
      have := Nat.div_le_self needle.len 4
      omega
    · simp only [hlt, if_false]
      obtain ⟨sh, c3, e3, hs3, hsp, hlg⟩ := shift_reverse_spec needle s2.period s2.pos c2 hnv
        (by omega) hn2 hp2 hl2 hper2
      rw [bind_ok e3]
      refine ⟨_, c3, rfl, ?_, hbs', by simp only; omega, fun _ => hsp, hlg⟩
      simp only at hs1
      have := Nat.div_le_self needle.len 4
      omega

end Memchr.TwoWay
