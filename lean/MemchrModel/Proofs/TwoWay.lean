/-
Two-Way (`src/arch/all/twoway.rs`), forward direction: master theorems.

* `find_eq_of_cert` (T4-fwd): under the decidable certificate `CertFwd` about the needle,
  `find_with_prefilter` returns the leftmost occurrence, for every sound prefilter in every
  prefilter state, and for `pre = None`.
* `find_sound`: without any certificate a reported match is an occurrence and the search never
  faults.
* `finder_new_spec` (in `Proofs/TwoWayNew.lean`): the constructor never faults, is linear, and
  establishes the hypotheses of `find_sound`.
* cost: without a prefilter the search takes at most `3 * haystack.len + 2 * needle.len + 1`
  steps (both the `Small` and the `Large` loop).
* `new_find_sound`, `new_find_eq_of_cert`: constructor and search composed.
-/
import MemchrModel.Proofs.TwoWayLoops
import MemchrModel.Proofs.TwoWayNew

namespace Memchr.TwoWay

open Memchr

/-! ### tails of the haystack -/

theorem tailFrom_valid {h : Slice} (hv : h.Valid) {a : Nat} (ha : a ≤ h.len) :
    (tailFrom h a).Valid := by
  unfold Slice.Valid tailFrom at *; simp only; omega

theorem tailFrom_getD (h : Slice) (a t : Nat) : (tailFrom h a).getD t = h.getD (a + t) := by
  simp [tailFrom, Slice.getD, Nat.add_assoc]

theorem occ_tailFrom {h n : Slice} {a : Nat} (ha : a ≤ h.len) (q : Nat) :
    Occ (tailFrom h a) n q ↔ Occ h n (a + q) := by
  unfold Occ
  simp only [tailFrom_getD, Nat.add_assoc]
  have : (tailFrom h a).len = h.len - a := rfl
  rw [this]
  constructor
  · rintro ⟨h1, h2⟩; exact ⟨by omega, h2⟩
  · rintro ⟨h1, h2⟩; exact ⟨by omega, h2⟩

/-- A prefilter strategy is *sound* for `needle` on `haystack`: run on any tail
`&haystack[a..]` it returns normally, `None` only if the needle does not occur in the tail, and
a candidate `Some(c)` is at or before the first occurrence in the tail. -/
def PreSound (needle haystack : Slice) (strat : Slice → M (Option Nat)) : Prop :=
  ∀ a, a ≤ haystack.len → ∀ c, ∃ r c', strat (tailFrom haystack a) c = .ok r c' ∧
    (r = none → ∀ q, ¬ Spec.OccAt (tailFrom haystack a).toArray needle.toArray q) ∧
    (∀ cnd, r = some cnd →
      ∀ q, Spec.OccAt (tailFrom haystack a).toArray needle.toArray q → cnd ≤ q)

/-- "no occurrence starts before `q`" -/
def NoOccBefore (haystack needle : Slice) (q : Nat) : Prop := ∀ j, j < q → ¬ Occ haystack needle j

theorem stratOK_of_preSound {needle haystack : Slice} {strat : Slice → M (Option Nat)}
    (hnv : needle.Valid) (hhv : haystack.Valid) (hs : PreSound needle haystack strat) :
    StratOK haystack strat (NoOccBefore haystack needle) (∀ j, ¬ Occ haystack needle j) := by
  intro a ha c
  obtain ⟨r, c', e, h1, h2⟩ := hs a ha c
  refine ⟨r, c', e, ?_, ?_⟩
  · intro hr hinv j hocc
    by_cases hja : j < a
    · exact hinv j hja hocc
    · refine h1 hr (j - a) ((occ_iff (tailFrom_valid hhv ha) hnv _).mpr ?_)
      rw [occ_tailFrom ha, show a + (j - a) = j by omega]
      exact hocc
  · intro cnd hr hinv j hj hocc
    by_cases hja : j < a
    · exact hinv j hja hocc
    · have := h2 cnd hr (j - a) ((occ_iff (tailFrom_valid hhv ha) hnv _).mpr (by
        rw [occ_tailFrom ha, show a + (j - a) = j by omega]
        exact hocc))
      omega

/-- the closure properties for `Inv := NoOccBefore`, from the certificate -/
theorem loopInv_of_cert {tw : TwoWay} {needle haystack : Slice} {step : Nat}
    (hnv : needle.Valid)
    (hcore : Core needle.toArray tw.criticalPos)
    (hmin : ∀ k, Per needle.toArray k → step ≤ k)
    (hbs : ∀ t, t < needle.len → tw.byteset.has (needle.getD t) = true) :
    LoopInv tw needle haystack step (NoOccBefore haystack needle)
      (∀ j, ¬ Occ haystack needle j) where
  done := by
    intro q hinv hq j hocc
    by_cases hjq : j < q
    · exact hinv j hjq hocc
    · have := hocc.1; omega
  bs := by
    intro q hinv hq hnc j hj hocc
    by_cases hjq : j < q
    · exact hinv j hjq hocc
    · refine no_occ_byteset (k := j - q) hbs hnc (by omega) ?_
      rw [show q + (j - q) = j by omega]; exact hocc
  right := by
    intro q i hinv hq hci hi hm hne j hj hocc
    by_cases hjq : j < q
    · exact hinv j hjq hocc
    · refine no_occ_right_mismatch (k := j - q) hnv hcore hm hi hne (by omega) ?_
      rw [show q + (j - q) = j by omega]; exact hocc
  left := by
    intro q m hinv hq hm hmn hne j hj hocc
    by_cases hjq : j < q
    · exact hinv j hjq hocc
    · by_cases hjeq : j = q
      · subst hjeq
        exact hne (hocc.2 m hmn).symm
      · refine no_occ_after_right_match (k := j - q) hnv hcore hm hmin (by omega) (by omega) ?_
        rw [show q + (j - q) = j by omega]; exact hocc

theorem leftmost_of_post {haystack needle : Slice} (hhv : haystack.Valid) (hnv : needle.Valid)
    {r : Option Nat}
    (h1 : ∀ q, r = some q → NoOccBefore haystack needle q ∧ Occ haystack needle q)
    (h2 : r = none → ∀ j, ¬ Occ haystack needle j) :
    r = Spec.leftmost haystack.toArray needle.toArray := by
  cases r with
  | none =>
    symm
    rw [Spec.leftmost_eq_none_iff]
    intro j hj
    exact h2 rfl j ((occ_iff hhv hnv j).mp hj)
  | some q =>
    symm
    rw [Spec.leftmost_eq_some_iff]
    obtain ⟨h3, h4⟩ := h1 q rfl
    exact ⟨(occ_iff hhv hnv q).mpr h4, fun j hj hocc => h3 j hj ((occ_iff hhv hnv j).mp hocc)⟩

theorem leftmost_empty {haystack needle : Slice} (hhv : haystack.Valid) (hnv : needle.Valid)
    (h0 : needle.len = 0) : Spec.leftmost haystack.toArray needle.toArray = some 0 := by
  rw [Spec.leftmost_eq_some_iff]
  refine ⟨(occ_iff hhv hnv 0).mpr ⟨by omega, fun t ht => by omega⟩, fun j hj => by omega⟩

theorem getD_mem_toArray {n : Slice} (hnv : n.Valid) {t : Nat} (ht : t < n.len) :
    n.getD t ∈ n.toArray :=
  Array.mem_of_getElem? (Slice.toArray_getElem? hnv t ht)

/-- **T4 (forward).**  For every `TwoWay` value whose critical position and shift satisfy the
certificate for the needle and whose byte set has no false negatives on the needle's bytes,
every optional prefilter whose strategy is sound, in *every* prefilter state:
`find_with_prefilter` returns the leftmost occurrence (and never faults).  The prefilter
afterwards has the same strategy (and is `None` if it was `None`).

(`PrefilterState::is_effective` is total since the F1 fix - `saturating_mul` -, so there is no
side condition on the state.  With the pre-fix version `isEffectiveBeforeFix` the statement
needs `skips + haystack.len < 2^29`-style hypotheses; see the report.) -/
theorem find_eq_of_cert (tw : TwoWay) (needle haystack : Slice) (pre : Option Pre) (c : Ctr)
    (strat : Slice → M (Option Nat))
    (hnv : needle.Valid) (hhv : haystack.Valid)
    (hcert : CertFwd needle.toArray tw.criticalPos tw.shift)
    (hbs : ∀ b, b ∈ needle.toArray → tw.byteset.has b = true)
    (hpre : PreOK strat pre) (hsound : pre ≠ none → PreSound needle haystack strat) :
    ∃ pre' c', Finder.findWithPrefilter tw pre haystack needle c =
        .ok (Spec.leftmost haystack.toArray needle.toArray, pre') c' ∧
      PreOK strat pre' ∧ (pre = none → pre' = none) ∧
      (pre = none → (∀ s, tw.shift = .large s → needle.len ≤ 2 * s) →
        c'.steps ≤ c.steps + 3 * haystack.len + 2 * needle.len + 1) := by
  have hbs' : ∀ t, t < needle.len → tw.byteset.has (needle.getD t) = true :=
    fun t ht => hbs _ (getD_mem_toArray hnv ht)
  have hstrat : pre ≠ none →
      StratOK haystack strat (NoOccBefore haystack needle) (∀ j, ¬ Occ haystack needle j) :=
    fun hne => stratOK_of_preSound hnv hhv (hsound hne)
  have hinv0 : NoOccBefore haystack needle 0 := fun j hj => by omega
  have hsz : needle.toArray.size = needle.len := Slice.toArray_size hnv
  unfold Finder.findWithPrefilter
  obtain ⟨hcore, hsh⟩ := hcert
  cases hshift : tw.shift with
  | small p =>
    rw [hshift] at hsh
    obtain ⟨hper, hmin⟩ := hsh
    simp only [Finder.findSmallImp]
    by_cases h0 : needle.len = 0
    · simp only [h0, dite_true]
      exact ⟨pre, c, by rw [leftmost_empty hhv hnv h0]; rfl, hpre, fun h => h,
        fun _ _ => by omega⟩
    · simp only [h0, dite_false]
      have hn : 0 < needle.len := Nat.pos_of_ne_zero h0
      obtain ⟨r, pre', c', e, h1, h2, h3, h4, h5⟩ := smallLoop_spec tw needle haystack hn p strat
        (NoOccBefore haystack needle) (∀ j, ¬ Occ haystack needle j)
        (by have := hcore.crit_lt (by omega); omega) hper.1
        (by have := min_per_le_size hmin (by omega); omega)
        (Nat.le_of_lt (hcore.crit_lt_per hper)) (per_getD hnv hper)
        (loopInv_of_cert hnv hcore hmin hbs') pre 0 0 c hstrat hpre hinv0 hn
        (MatchR.empty _ _ _ _)
      refine ⟨pre', c', ?_, h1, h2, fun hp _ => ?_⟩
      · rw [e, leftmost_of_post hhv hnv h3 h4]
      · have := h5 hp (Nat.zero_le _)
        omega
  | large s =>
    rw [hshift] at hsh
    obtain ⟨hs1, hmin⟩ := hsh
    simp only [Finder.findLargeImp]
    by_cases h0 : needle.len = 0
    · simp only [h0, dite_true]
      exact ⟨pre, c, by rw [leftmost_empty hhv hnv h0]; rfl, hpre, fun h => h,
        fun _ _ => by omega⟩
    · simp only [h0, dite_false]
      have hn : 0 < needle.len := Nat.pos_of_ne_zero h0
      obtain ⟨r, pre', c', e, h1, h2, h3, h4, h5⟩ := largeLoop_spec tw needle haystack hn s strat
        (NoOccBefore haystack needle) (∀ j, ¬ Occ haystack needle j)
        (by have := hcore.crit_le; omega) (hs1 (by omega))
        (loopInv_of_cert hnv hcore hmin hbs') pre 0 c hstrat hpre hinv0
      refine ⟨pre', c', ?_, h1, h2, fun hp hh => ?_⟩
      · rw [e, leftmost_of_post hhv hnv h3 h4]
      · have := h5 hp (hh s rfl)
        omega

/-- `Finder::find` (no prefilter) under the certificate -/
theorem find_eq_of_cert_nopre (tw : TwoWay) (needle haystack : Slice) (c : Ctr)
    (hnv : needle.Valid) (hhv : haystack.Valid)
    (hcert : CertFwd needle.toArray tw.criticalPos tw.shift)
    (hbs : ∀ b, b ∈ needle.toArray → tw.byteset.has b = true) :
    ∃ c', Finder.find tw haystack needle c =
        .ok (Spec.leftmost haystack.toArray needle.toArray) c' ∧
      ((∀ s, tw.shift = .large s → needle.len ≤ 2 * s) →
        c'.steps ≤ c.steps + 3 * haystack.len + 2 * needle.len + 1) := by
  obtain ⟨pre', c', e, _, _, h⟩ := find_eq_of_cert tw needle haystack none c (fun _ => pure none)
    hnv hhv hcert hbs (fun p hp => by cases hp) (fun h => absurd rfl h)
  exact ⟨c', by simp only [Finder.find, bind_ok e]; rfl, h rfl⟩


/-! ### soundness of a reported match without any certificate -/

theorem loopInv_trivial (tw : TwoWay) (needle haystack : Slice) (step : Nat) :
    LoopInv tw needle haystack step (fun _ => True) True :=
  ⟨fun _ _ _ => trivial, fun _ _ _ _ => trivial, fun _ _ _ _ _ _ _ _ => trivial,
    fun _ _ _ _ _ _ _ => trivial⟩

/-- **Soundness without a certificate.**  For an arbitrary critical position and shift subject
only to `SoundPre`, an arbitrary byte set and an arbitrary (possibly unsound) prefilter whose
strategy merely returns normally: the search never faults and a reported `Some(q)` is an
occurrence of the needle. -/
theorem find_sound (tw : TwoWay) (needle haystack : Slice) (pre : Option Pre) (c : Ctr)
    (strat : Slice → M (Option Nat))
    (hnv : needle.Valid) (hhv : haystack.Valid)
    (hsp : 0 < needle.len → SoundPre needle.toArray tw.criticalPos tw.shift)
    (hpre : PreOK strat pre)
    (htotal : pre ≠ none → ∀ a, a ≤ haystack.len → ∀ c, ∃ r c',
      strat (tailFrom haystack a) c = .ok r c') :
    ∃ r pre' c', Finder.findWithPrefilter tw pre haystack needle c = .ok (r, pre') c' ∧
      (∀ q, r = some q → Spec.OccAt haystack.toArray needle.toArray q) ∧
      (pre = none → (∀ s, tw.shift = .large s → needle.len ≤ 2 * s) →
        c'.steps ≤ c.steps + 3 * haystack.len + 2 * needle.len + 1) := by
  have hstrat : pre ≠ none → StratOK haystack strat (fun _ => True) True := by
    intro hne a ha c
    obtain ⟨r, c', e⟩ := htotal hne a ha c
    exact ⟨r, c', e, fun _ _ => trivial, fun _ _ _ => trivial⟩
  have hsz : needle.toArray.size = needle.len := Slice.toArray_size hnv
  unfold Finder.findWithPrefilter
  cases hshift : tw.shift with
  | small p =>
    simp only [Finder.findSmallImp]
    by_cases h0 : needle.len = 0
    · simp only [h0, dite_true]
      refine ⟨some 0, pre, c, rfl, ?_, fun _ _ => by omega⟩
      intro q hq; cases hq
      exact (occ_iff hhv hnv 0).mpr ⟨by omega, fun t ht => by omega⟩
    · simp only [h0, dite_false]
      have hn : 0 < needle.len := Nat.pos_of_ne_zero h0
      have hsp' := hsp hn
      rw [hshift] at hsp'
      obtain ⟨hc, hper, hcp, hpn⟩ := hsp'
      obtain ⟨r, pre', c', e, _, _, h3, _, h5⟩ := smallLoop_spec tw needle haystack hn p strat
        (fun _ => True) True (by omega) hper.1 (by omega) hcp (per_getD hnv hper)
        (loopInv_trivial _ _ _ _) pre 0 0 c hstrat hpre trivial hn (MatchR.empty _ _ _ _)
      refine ⟨r, pre', c', e, fun q hq => (occ_iff hhv hnv q).mpr (h3 q hq).2, fun hp _ => ?_⟩
      have := h5 hp (Nat.zero_le _)
      omega
  | large s =>
    simp only [Finder.findLargeImp]
    by_cases h0 : needle.len = 0
    · simp only [h0, dite_true]
      refine ⟨some 0, pre, c, rfl, ?_, fun _ _ => by omega⟩
      intro q hq; cases hq
      exact (occ_iff hhv hnv 0).mpr ⟨by omega, fun t ht => by omega⟩
    · simp only [h0, dite_false]
      have hn : 0 < needle.len := Nat.pos_of_ne_zero h0
      have hsp' := hsp hn
      rw [hshift] at hsp'
      obtain ⟨hc, hs1⟩ := hsp'
      obtain ⟨r, pre', c', e, _, _, h3, _, h5⟩ := largeLoop_spec tw needle haystack hn s strat
        (fun _ => True) True (by omega) hs1 (loopInv_trivial _ _ _ _) pre 0 c hstrat hpre trivial
      refine ⟨r, pre', c', e, fun q hq => (occ_iff hhv hnv q).mpr (h3 q hq).2, fun hp hh => ?_⟩
      have := h5 hp (hh s rfl)
      omega

/-! ### constructor and search composed -/

/-- **`Finder::new(needle).find(haystack, needle)` without any hypothesis** (beyond the slices
being slices): never faults, a reported match is an occurrence, and the whole call takes at most
`3 * haystack.len + 8 * needle.len + 3` steps. -/
theorem new_find_sound (needle haystack : Slice) (c : Ctr) (hnv : needle.Valid)
    (hhv : haystack.Valid) :
    ∃ r c', (Finder.new needle >>= fun tw => Finder.find tw haystack needle) c = .ok r c' ∧
      (∀ q, r = some q → Spec.OccAt haystack.toArray needle.toArray q) ∧
      c'.steps ≤ c.steps + 3 * haystack.len + 8 * needle.len + 3 := by
  obtain ⟨tw, c1, e1, hs1, _, _, hsp, hhalf⟩ := finder_new_spec needle c hnv
  obtain ⟨r, pre', c2, e2, h1, h2⟩ := find_sound tw needle haystack none c1 (fun _ => pure none)
    hnv hhv hsp (fun p hp => by cases hp) (fun h => absurd rfl h)
  refine ⟨r, c2, ?_, h1, ?_⟩
  · rw [bind_ok e1]
    simp only [Finder.find, bind_ok e2]; rfl
  · have := h2 rfl hhalf
    omega

/-- **`Finder::new(needle).find(haystack, needle)` is the leftmost occurrence** whenever the
values computed by `Finder::new` satisfy the certificate (which is decidable:
`certFwdCheck`; that they always do is T1-T3, `Proofs/TwoWayCert*.lean`). -/
theorem new_find_eq_of_cert (needle haystack : Slice) (c : Ctr) (hnv : needle.Valid)
    (hhv : haystack.Valid)
    (hcert : ∀ tw c1, Finder.new needle c = .ok tw c1 →
      CertFwd needle.toArray tw.criticalPos tw.shift) :
    ∃ c', (Finder.new needle >>= fun tw => Finder.find tw haystack needle) c =
        .ok (Spec.leftmost haystack.toArray needle.toArray) c' ∧
      c'.steps ≤ c.steps + 3 * haystack.len + 8 * needle.len + 3 := by
  obtain ⟨tw, c1, e1, hs1, hbs, _, _, hhalf⟩ := finder_new_spec needle c hnv
  obtain ⟨c2, e2, h2⟩ := find_eq_of_cert_nopre tw needle haystack c1 hnv hhv
    (hcert tw c1 e1) hbs
  refine ⟨c2, ?_, ?_⟩
  · rw [bind_ok e1]; exact e2
  · have := h2 hhalf
    omega

/-! ### the shape consumed by the memmem layer (`Proofs/Searcher.lean`) -/

/-- a strategy that is sound on *every* valid haystack (the form `Memmem.PreSound` has: it
returns normally, and if the needle occurs at `q` the result is `some a` with `a <= q`) is
sound on the tails of a given haystack -/
theorem preSound_of_global {needle haystack : Slice} {strat : Slice → M (Option Nat)}
    (hhv : haystack.Valid)
    (h : ∀ hay : Slice, hay.Valid → ∀ c, ∃ r c', strat hay c = .ok r c' ∧
      ∀ q, Spec.OccAt hay.toArray needle.toArray q → ∃ a, r = some a ∧ a ≤ q) :
    PreSound needle haystack strat := by
  intro a ha c
  obtain ⟨r, c', e, hr⟩ := h (tailFrom haystack a) (tailFrom_valid hhv ha) c
  refine ⟨r, c', e, ?_, ?_⟩
  · intro hnone q hocc
    obtain ⟨a', ha', _⟩ := hr q hocc
    rw [hnone] at ha'; cases ha'
  · intro cnd hsome q hocc
    obtain ⟨a', ha', hle⟩ := hr q hocc
    rw [hsome] at ha'; cases ha'
    exact hle

theorem toArray_eq_of_toList_eq {n n0 : Slice} (hn : n.Valid) (hn0 : n0.Valid)
    (h : n.toList = n0.toList) : n.toArray = n0.toArray := by
  apply Array.toList_inj.mp
  rw [Slice.toArray_toList hn, Slice.toArray_toList hn0, h]

/-- `Finder::new(n0)` then `find_with_prefilter(pre, hay, n)` where the search needle `n` holds
the same bytes as the construction needle `n0` (possibly in another region): the leftmost
occurrence, for every prefilter that is sound on every valid haystack, in every prefilter
state - provided the values computed by `Finder::new` satisfy the certificate (T1-T3). -/
theorem find_ok_of_cert (n0 n hay : Slice) (tw : TwoWay) (c0 c0' : Ctr)
    (hn0 : n0.Valid) (hn : n.Valid) (hh : hay.Valid) (hbytes : n.toList = n0.toList)
    (hnew : Finder.new n0 c0 = .ok tw c0')
    (hcert : CertFwd n0.toArray tw.criticalPos tw.shift)
    (pre : Option Pre)
    (hpre : ∀ p, pre = some p → ∀ h' : Slice, h'.Valid → ∀ c, ∃ r c', p.strat h' c = .ok r c' ∧
      ∀ q, Spec.OccAt h'.toArray n.toArray q → ∃ a, r = some a ∧ a ≤ q)
    (c : Ctr) :
    ∃ pre' c', Finder.findWithPrefilter tw pre hay n c =
      .ok (Spec.leftmost hay.toArray n.toArray, pre') c' := by
  have harr := toArray_eq_of_toList_eq hn hn0 hbytes
  obtain ⟨tw', c1, e1, _, hbs, _⟩ := finder_new_spec n0 c0 hn0
  rw [hnew] at e1
  cases e1
  cases pre with
  | none =>
    obtain ⟨pre', c', e, _⟩ := find_eq_of_cert tw n hay none c (fun _ => pure none) hn hh
      (by rw [harr]; exact hcert) (by rw [harr]; exact hbs) (fun p hp => by cases hp)
      (fun h => absurd rfl h)
    exact ⟨pre', c', e⟩
  | some p =>
    obtain ⟨pre', c', e, _⟩ := find_eq_of_cert tw n hay (some p) c p.strat hn hh
      (by rw [harr]; exact hcert) (by rw [harr]; exact hbs)
      (fun p' hp' => by cases hp'; rfl)
      (fun _ => preSound_of_global hh (hpre p rfl))
    exact ⟨pre', c', e⟩

/-! ### non-vacuity -/

/-- the hypotheses of `find_eq_of_cert` hold for the needle "abaab" (region 1, base 4096) with
the values `Finder::new` computes for it (`crit = 2`, `Small { period: 3 }`; evaluated with the
executable model, `#eval`, and identical to the Rust) and a byte set without false negatives -/
example :
    let needle := Slice.ofMem ⟨1, 4096, "abaab".toUTF8.data⟩
    let haystack := Slice.ofMem ⟨0, 8192, "abaaabaabab".toUTF8.data⟩
    let tw : TwoWay := { byteset := ⟨25769803776⟩, criticalPos := 2, shift := .small 3 }
    needle.Valid ∧ haystack.Valid ∧ CertFwd needle.toArray tw.criticalPos tw.shift ∧
      (∀ b, b ∈ needle.toArray → tw.byteset.has b = true) := by
  refine ⟨by unfold Slice.Valid; decide, by unfold Slice.Valid; decide, by decide, by decide⟩

/-- a sound prefilter strategy exists for every needle/haystack: "every position is a
candidate" (`Some(0)`) -/
example (needle haystack : Slice) : PreSound needle haystack (fun _ => pure (some 0)) :=
  fun a _ c => ⟨some 0, c, rfl, nofun, fun cnd h q _ => by cases h; exact Nat.zero_le _⟩

/-- `SoundPre` (hypothesis of `find_sound`) for "abcde" with the `Large` values of
`Finder::new` -/
example : SoundPre "abcde".toUTF8.data 4 (.large 4) := by
  simp only [SoundPre]; decide

/-! ### axioms -/

#print axioms find_eq_of_cert
#print axioms find_eq_of_cert_nopre
#print axioms find_sound
#print axioms finder_new_spec
#print axioms new_find_sound
#print axioms new_find_eq_of_cert
#print axioms find_ok_of_cert
#print axioms certFwdCheck_iff

end Memchr.TwoWay
