/-
Interval predicates (`NoHit`, `FirstRes`, `LastRes`), their relation to the naive specs, and the
run lemmas for `searchChunk`, `loadChunks`, `blockHit`, `block`.
-/
import MemchrModel.Proofs.MemchrGenericVec

namespace Memchr.Generic

open Memchr

/-! ### running the monad -/

theorem bind_ok {α β : Type} {x : M α} {f : α → M β} {c c' : Ctr} {a : α}
    (h : x c = .ok a c') : (x >>= f) c = f a c' := by
  simp [h]

theorem pure_bind' {α β : Type} (a : α) (f : α → M β) : (pure a >>= f) = f a := rfl

theorem dbgAssert_ok (site : String) {b : Bool} (h : b = true) : dbgAssert site b = pure () := by
  subst h; rfl

/-! ### alignment arithmetic -/

theorem and_align {V : VecImpl} (L : Lawful V) (x : Nat) : x &&& V.align = x % V.bytes := by
  obtain ⟨k, hk⟩ := L.pow2
  rw [L.align_eq, hk, Nat.and_two_pow_sub_one_eq_mod]

theorem align_up_mod (x b : Nat) (hb : 0 < b) : (x + (b - x % b)) % b = 0 := by
  have h1 : x % b < b := Nat.mod_lt _ hb
  have h2 := Nat.div_add_mod x b
  have : x + (b - x % b) = b * (x / b + 1) := by rw [Nat.mul_add, Nat.mul_one]; omega
  rw [this, Nat.mul_mod_right]

theorem align_down_mod (x b : Nat) : (x - x % b) % b = 0 := by
  have h2 := Nat.div_add_mod x b
  have : x - x % b = b * (x / b) := by omega
  rw [this, Nat.mul_mod_right]

/-! ### interval predicates -/

/-- no byte at an address in `[lo, hi)` satisfies `p` -/
def NoHit (m : Mem) (p : UInt8 → Bool) (lo hi : Nat) : Prop :=
  ∀ a, lo ≤ a → a < hi → p (m.byteAt a) = false

/-- `r` is the address of the first byte in `[lo, hi)` satisfying `p`, if any -/
def FirstRes (m : Mem) (p : UInt8 → Bool) (lo hi : Nat) : Option Nat → Prop
  | none => NoHit m p lo hi
  | some x => lo ≤ x ∧ x < hi ∧ p (m.byteAt x) = true ∧ NoHit m p lo x

/-- `r` is the address of the last byte in `[lo, hi)` satisfying `p`, if any -/
def LastRes (m : Mem) (p : UInt8 → Bool) (lo hi : Nat) : Option Nat → Prop
  | none => NoHit m p lo hi
  | some x => lo ≤ x ∧ x < hi ∧ p (m.byteAt x) = true ∧ NoHit m p (x + 1) hi

theorem NoHit.union {m : Mem} {p : UInt8 → Bool} {lo mid mid' hi : Nat}
    (h1 : NoHit m p lo mid) (h2 : NoHit m p mid' hi) (h : mid' ≤ mid) : NoHit m p lo hi := by
  intro a ha hb
  by_cases hc : a < mid
  · exact h1 a ha hc
  · exact h2 a (by omega) hb

theorem NoHit.empty (m : Mem) (p : UInt8 → Bool) {lo hi : Nat} (h : hi ≤ lo) : NoHit m p lo hi := by
  intro a ha hb; omega

theorem NoHit.mono {m : Mem} {p : UInt8 → Bool} {lo hi lo' hi' : Nat}
    (h1 : NoHit m p lo hi) (hl : lo ≤ lo') (hh : hi' ≤ hi) : NoHit m p lo' hi' := by
  intro a ha hb
  exact h1 a (by omega) (by omega)

theorem FirstRes.extend {m : Mem} {p : UInt8 → Bool} {lo mid mid' hi hi' x : Nat}
    (h1 : FirstRes m p mid' hi (some x)) (h2 : NoHit m p lo mid) (h : mid' ≤ mid)
    (hl : lo ≤ mid') (hh : hi ≤ hi') : FirstRes m p lo hi' (some x) := by
  obtain ⟨a1, a2, a3, a4⟩ := h1
  refine ⟨by omega, by omega, a3, ?_⟩
  intro a ha hb
  by_cases hc : a < mid
  · exact h2 a ha hc
  · exact a4 a (by omega) hb

theorem LastRes.extend {m : Mem} {p : UInt8 → Bool} {lo lo' mid mid' hi x : Nat}
    (h1 : LastRes m p lo mid (some x)) (h2 : NoHit m p mid' hi) (h : mid' ≤ mid)
    (hh : mid ≤ hi) (hl : lo' ≤ lo) : LastRes m p lo' hi (some x) := by
  obtain ⟨a1, a2, a3, a4⟩ := h1
  refine ⟨by omega, by omega, a3, ?_⟩
  intro a ha hb
  by_cases hc : a < mid
  · exact a4 a ha hc
  · exact h2 a (by omega) hb

/-! ### relation to the naive specifications -/

theorem mem_window {m : Mem} {a len : Nat} {x : UInt8} (h : x ∈ m.window a len) :
    ∃ i, i < len ∧ x = m.byteAt (a + i) := by
  simp only [Mem.window, List.mem_map, List.mem_range] at h
  obtain ⟨i, hi, rfl⟩ := h
  exact ⟨i, hi, rfl⟩

theorem FirstRes.eq_spec {m : Mem} {p : UInt8 → Bool} {lo hi : Nat} {r : Option Nat}
    (h : FirstRes m p lo hi r) :
    r = (Spec.firstIdx p (m.window lo (hi - lo))).map (lo + ·) := by
  cases r with
  | none =>
    have : Spec.firstIdx p (m.window lo (hi - lo)) = none := by
      rw [Spec.firstIdx_eq_none_iff]
      intro x hx
      obtain ⟨i, hi', rfl⟩ := mem_window hx
      exact h (lo + i) (by omega) (by omega)
    rw [this]; rfl
  | some x =>
    obtain ⟨a1, a2, a3, a4⟩ := h
    have : Spec.firstIdx p (m.window lo (hi - lo)) = some (x - lo) := by
      rw [Spec.firstIdx_eq_some_iff]
      refine ⟨by simp; omega, ?_, ?_⟩
      · rw [Mem.window_getElem]
        have : lo + (x - lo) = x := by omega
        rw [this]; exact a3
      · intro j hj
        rw [Mem.window_getElem]
        exact a4 (lo + j) (by omega) (by omega)
    rw [this]
    simp only [Option.map_some, Option.some.injEq]
    omega

theorem LastRes.eq_spec {m : Mem} {p : UInt8 → Bool} {lo hi : Nat} {r : Option Nat}
    (h : LastRes m p lo hi r) :
    r = (Spec.lastIdx p (m.window lo (hi - lo))).map (lo + ·) := by
  cases r with
  | none =>
    have : Spec.lastIdx p (m.window lo (hi - lo)) = none := by
      rw [Spec.lastIdx_eq_none_iff]
      intro x hx
      obtain ⟨i, hi', rfl⟩ := mem_window hx
      exact h (lo + i) (by omega) (by omega)
    rw [this]; rfl
  | some x =>
    obtain ⟨a1, a2, a3, a4⟩ := h
    have : Spec.lastIdx p (m.window lo (hi - lo)) = some (x - lo) := by
      rw [Spec.lastIdx_eq_some_iff]
      refine ⟨by simp; omega, ?_, ?_⟩
      · rw [Mem.window_getElem]
        have : lo + (x - lo) = x := by omega
        rw [this]; exact a3
      · intro j hj hlt
        rw [Mem.window_getElem]
        simp only [Mem.window_length] at hj
        exact a4 (lo + j) (by omega) (by omega)
    rw [this]
    simp only [Option.map_some, Option.some.injEq]
    omega

/-! ### `searchChunk` -/

variable {V : VecImpl}

/-- some byte of the chunk at `a` is a needle -/
def ChunkHit (V : VecImpl) (m : Mem) (p : UInt8 → Bool) (a : Nat) : Prop :=
  ∃ i, i < V.bytes ∧ hitF m p a i = true

theorem noHit_of_not_chunkHit {m : Mem} {p : UInt8 → Bool} {a : Nat}
    (h : ¬ ChunkHit V m p a) : NoHit m p a (a + V.bytes) := by
  intro x hx hlt
  cases hp : p (m.byteAt x) with
  | false => rfl
  | true =>
    exfalso
    apply h
    refine ⟨x - a, by omega, ?_⟩
    have : a + (x - a) = x := by omega
    simp [hitF, this, hp]

theorem chunkHit_of_hit {m : Mem} {p : UInt8 → Bool} {a x : Nat} (h1 : a ≤ x)
    (h2 : x < a + V.bytes) (hp : p (m.byteAt x) = true) : ChunkHit V m p a := by
  refine ⟨x - a, by omega, ?_⟩
  have : a + (x - a) = x := by omega
  simp [hitF, this, hp]

theorem searchChunk_run (L : Lawful V) (ns : Needles) (m : Mem) (cur : Nat)
    (topos : V.Mask → M Nat) (c : Ctr) (h1 : m.base ≤ cur)
    (h2 : cur + V.bytes ≤ m.base + m.bytes.size) :
    ∃ c', (¬ ChunkHit V m ns.confirm cur ∧ searchChunk V ns m cur topos c = .ok none c') ∨
      (ChunkHit V m ns.confirm cur ∧
        searchChunk V ns m cur topos c =
          (topos (chunkMask V (chunkEqs V ns (m.window cur V.bytes))) >>=
            fun off => m.padd "search_chunk: cur.add(mask_to_offset(mask))" cur off >>=
              fun p => pure (some p)) c') := by
  refine ⟨{ steps := c.steps + 1,
            loads := ⟨m.region, cur - m.base, V.bytes, false⟩ :: c.loads }, ?_⟩
  unfold searchChunk VecImpl.loadU
  simp only [M.bind_run, tick_run, Mem.loadU_ok m cur V.bytes _ h1 h2, chunkOr_eq]
  have hnz := (MaskRep.movemask L (hitF m ns.confirm cur)).hasNonZero_iff
  by_cases hh : V.hasNonZero (V.movemask (bvec V.bytes (hitF m ns.confirm cur))) = true
  · refine Or.inr ⟨hnz.mp hh, ?_⟩
    simp only [hh, if_true, M.bind_run]
  · refine Or.inl ⟨fun h => hh (hnz.mpr h), ?_⟩
    simp only [hh]
    rfl

theorem searchChunk_first (L : Lawful V) (ns : Needles) (m : Mem) (cur : Nat) (c : Ctr)
    (h1 : m.base ≤ cur) (h2 : cur + V.bytes ≤ m.base + m.bytes.size) :
    ∃ r c', searchChunk V ns m cur V.firstOffset c = .ok r c' ∧
      FirstRes m ns.confirm cur (cur + V.bytes) r := by
  obtain ⟨c', h | ⟨hhit, hrun⟩⟩ := searchChunk_run L ns m cur V.firstOffset c h1 h2
  · exact ⟨none, c', h.2, noHit_of_not_chunkHit h.1⟩
  · obtain ⟨k, hk, hlt, hfk, hmin⟩ := (chunkMask_rep L ns m cur).firstOffset hhit c'
    refine ⟨some (cur + k), c', ?_, ?_⟩
    · rw [hrun, bind_ok hk, Mem.padd_ok m _ cur k h1 (by omega)]; rfl
    · refine ⟨by omega, by omega, hfk, ?_⟩
      intro a ha hb
      have := hmin (a - cur) (by omega)
      have e : cur + (a - cur) = a := by omega
      simpa [hitF, e] using this

theorem searchChunk_last (L : Lawful V) (ns : Needles) (m : Mem) (cur : Nat) (c : Ctr)
    (h1 : m.base ≤ cur) (h2 : cur + V.bytes ≤ m.base + m.bytes.size) :
    ∃ r c', searchChunk V ns m cur V.lastOffset c = .ok r c' ∧
      LastRes m ns.confirm cur (cur + V.bytes) r := by
  obtain ⟨c', h | ⟨hhit, hrun⟩⟩ := searchChunk_run L ns m cur V.lastOffset c h1 h2
  · exact ⟨none, c', h.2, noHit_of_not_chunkHit h.1⟩
  · obtain ⟨k, hk, hlt, hfk, hmax⟩ := (chunkMask_rep L ns m cur).lastOffset hhit c'
    refine ⟨some (cur + k), c', ?_, ?_⟩
    · rw [hrun, bind_ok hk, Mem.padd_ok m _ cur k h1 (by omega)]; rfl
    · refine ⟨by omega, by omega, hfk, ?_⟩
      intro a ha hb
      have := hmax (a - cur) (by omega) (by omega)
      have e : cur + (a - cur) = a := by omega
      simpa [hitF, e] using this

/-! ### chunk addresses -/

theorem mem_chunkAddrs {cur u a : Nat} (h : a ∈ chunkAddrs V cur u) :
    cur ≤ a ∧ a + V.bytes ≤ cur + u * V.bytes ∧ a % V.bytes = cur % V.bytes := by
  induction u generalizing cur with
  | zero => simp [chunkAddrs] at h
  | succ k ih =>
    have e : (k + 1) * V.bytes = k * V.bytes + V.bytes := Nat.succ_mul k V.bytes
    simp only [chunkAddrs, List.mem_cons] at h
    rcases h with rfl | h
    · exact ⟨Nat.le_refl _, by omega, rfl⟩
    · obtain ⟨b1, b2, b3⟩ := ih h
      refine ⟨by omega, by omega, ?_⟩
      rw [b3, Nat.add_mod_right]

theorem chunkAddrs_cover {cur u x : Nat} (h1 : cur ≤ x) (h2 : x < cur + u * V.bytes) :
    ∃ a, a ∈ chunkAddrs V cur u ∧ a ≤ x ∧ x < a + V.bytes := by
  induction u generalizing cur with
  | zero => simp at h2; omega
  | succ k ih =>
    have e : (k + 1) * V.bytes = k * V.bytes + V.bytes := Nat.succ_mul k V.bytes
    by_cases hx : x < cur + V.bytes
    · exact ⟨cur, by simp [chunkAddrs], h1, hx⟩
    · obtain ⟨a, ha, b1, b2⟩ := ih (cur := cur + V.bytes) (by omega) (by omega)
      exact ⟨a, by simp [chunkAddrs, ha], b1, b2⟩

theorem chunkAddrs_pairwise (cur u : Nat) :
    List.Pairwise (fun x y => x + V.bytes ≤ y) (chunkAddrs V cur u) := by
  induction u generalizing cur with
  | zero => simp [chunkAddrs]
  | succ k ih =>
    simp only [chunkAddrs, List.pairwise_cons]
    refine ⟨?_, ih _⟩
    intro a ha
    have := (mem_chunkAddrs ha).1
    omega

theorem loadChunks_ok (m : Mem) (cur u : Nat) (c : Ctr) (h1 : m.base ≤ cur)
    (h2 : cur + u * V.bytes ≤ m.base + m.bytes.size)
    (h3 : V.alignedLoadChecks = true → cur % V.bytes = 0) :
    ∃ c', loadChunks V m cur u c =
      .ok ((chunkAddrs V cur u).map (fun a => m.window a V.bytes)) c' := by
  induction u generalizing cur c with
  | zero => exact ⟨c, rfl⟩
  | succ k ih =>
    have e : (k + 1) * V.bytes = k * V.bytes + V.bytes := Nat.succ_mul k V.bytes
    have hl := Mem.loadA_ok m cur V.bytes V.alignedLoadChecks c h1 (by omega) h3
    obtain ⟨c', hrest⟩ := ih (cur + V.bytes)
      { c with loads := ⟨m.region, cur - m.base, V.bytes, V.alignedLoadChecks⟩ :: c.loads }
      (by omega) (by omega)
      (fun hc => by rw [Nat.add_mod_right]; exact h3 hc)
    refine ⟨c', ?_⟩
    simp only [loadChunks, VecImpl.loadA, M.bind_run, hl, hrest, chunkAddrs, List.map_cons]
    rfl

theorem zip_map_self {α β : Type} (l : List α) (f : α → β) :
    l.zip (l.map f) = l.map (fun a => (a, f a)) := by
  induction l with
  | nil => rfl
  | cons x xs ih => simp [ih]

/-! ### `blockOr`, `blockHit`, `block` -/

/-- `hitPtr` for a chunk address `a` of the block at `cur` and an offset inside the chunk: both
pointer additions stay inside the allocation. -/
theorem hitPtr_ok (m : Mem) (fn : String) (cur a k : Nat) (topos : V.Mask → M Nat)
    (mask : V.Mask) (c : Ctr) (hk : topos mask c = .ok k c) (h1 : m.base ≤ cur) (h2 : cur ≤ a)
    (h3 : a + k ≤ m.base + m.bytes.size) :
    hitPtr V m fn cur a topos mask c = .ok (some (a + k)) c := by
  unfold hitPtr
  rw [Mem.padd_ok m _ cur (a - cur) h1 (by omega)]
  simp only [pure_bind', bind_ok hk, Mem.padd_ok m _ a k (by omega) h3]
  rfl

theorem foldl_blockOr (ns : Needles) (m : Mem) (as : List Nat) (g : Nat → Bool) :
    (as.map (fun a => chunkEqs V ns (m.window a V.bytes))).foldl
        (fun acc e' => Vec.or acc (chunkOr e')) (bvec V.bytes g)
      = bvec V.bytes (fun i => g i || as.any (fun a => hitF m ns.confirm a i)) := by
  induction as generalizing g with
  | nil => simp
  | cons a as ih =>
    simp only [List.map_cons, List.foldl_cons, chunkOr_eq, or_bvec]
    rw [ih]
    apply bvec_congr
    intro i _
    simp [Bool.or_assoc]

theorem blockOr_eq (ns : Needles) (m : Mem) (as : List Nat) :
    blockOr V (as.map (fun a => chunkEqs V ns (m.window a V.bytes)))
      = bvec V.bytes (fun i => as.any (fun a => hitF m ns.confirm a i)) := by
  cases as with
  | nil => simp [blockOr, splat_zero_eq]
  | cons a as =>
    simp only [List.map_cons, blockOr, chunkOr_eq]
    rw [foldl_blockOr]
    apply bvec_congr
    intro i _
    simp

/-- Structure of `blockHit`: it returns through the first entry (in list order) whose mask is
non-zero. -/
theorem blockHit_gen (m : Mem) (fn : String) (cur : Nat) (topos : V.Mask → M Nat)
    (F : Nat → Vec × List Vec) (as : List Nat)
    (h : ∃ a, a ∈ as ∧ V.hasNonZero (chunkMask V (F a)) = true) :
    ∃ pre a post, as = pre ++ a :: post ∧
      (∀ b, b ∈ pre → ¬ V.hasNonZero (chunkMask V (F b)) = true) ∧
      V.hasNonZero (chunkMask V (F a)) = true ∧
      blockHit V m fn cur topos (as.map (fun a => (a, F a))) =
        hitPtr V m fn cur a topos (chunkMask V (F a)) := by
  induction as with
  | nil => obtain ⟨a, ha, _⟩ := h; cases ha
  | cons x xs ih =>
    by_cases hx : V.hasNonZero (chunkMask V (F x)) = true
    · refine ⟨[], x, xs, rfl, by simp, hx, ?_⟩
      cases xs with
      | nil => simp [blockHit, hx, pure_bind']
      | cons y ys => simp [blockHit, hx]
    · have h' : ∃ a, a ∈ xs ∧ V.hasNonZero (chunkMask V (F a)) = true := by
        obtain ⟨a, ha, hz⟩ := h
        simp only [List.mem_cons] at ha
        rcases ha with rfl | ha
        · exact absurd hz hx
        · exact ⟨a, ha, hz⟩
      obtain ⟨pre, a, post, e, hpre, ha, hrun⟩ := ih h'
      refine ⟨x :: pre, a, post, by simp [e], ?_, ha, ?_⟩
      · intro b hb
        simp only [List.mem_cons] at hb
        rcases hb with rfl | hb
        · exact hx
        · exact hpre b hb
      · cases xs with
        | nil => obtain ⟨a, ha, _⟩ := h'; cases ha
        | cons y ys =>
          rw [← hrun]
          simp [blockHit, hx]

theorem block_run (L : Lawful V) (ns : Needles) (u : Nat) (rev : Bool) (m : Mem) (cur : Nat)
    (topos : V.Mask → M Nat) (c : Ctr) (h1 : m.base ≤ cur)
    (h2 : cur + u * V.bytes ≤ m.base + m.bytes.size)
    (h3 : V.alignedLoadChecks = true → cur % V.bytes = 0) :
    ∃ c', (NoHit m ns.confirm cur (cur + u * V.bytes) ∧
        block V ns u rev m cur topos c = .ok none c') ∨
      ((∃ a, a ∈ chunkAddrs V cur u ∧ ChunkHit V m ns.confirm a) ∧
        block V ns u rev m cur topos c =
          blockHit V m (if rev then "rfind_raw" else "find_raw") cur topos
            ((if rev then (chunkAddrs V cur u).reverse else chunkAddrs V cur u).map
              (fun a => (a, chunkEqs V ns (m.window a V.bytes)))) c') := by
  obtain ⟨c', hl⟩ := loadChunks_ok (V := V) m cur u { c with steps := c.steps + 1 } h1 h2 h3
  refine ⟨c', ?_⟩
  unfold block
  simp only [M.bind_run, tick_run, hl, List.map_map]
  have hcomp : (chunkEqs V ns ∘ fun a => m.window a V.bytes)
      = fun a => chunkEqs V ns (m.window a V.bytes) := rfl
  rw [hcomp, blockOr_eq, zip_map_self]
  have hw := L.will_iff (bvec V.bytes
      (fun i => (chunkAddrs V cur u).any (fun a => hitF m ns.confirm a i)))
    (bvec_length _ _) (bvec_isBool _ _)
  by_cases hh : V.willHaveNonZero (bvec V.bytes
      (fun i => (chunkAddrs V cur u).any (fun a => hitF m ns.confirm a i))) = true
  · right
    obtain ⟨i, hi, hlane⟩ := hw.mp hh
    rw [bvec_lane _ _ _ hi, List.any_eq_true] at hlane
    obtain ⟨a, ha, hai⟩ := hlane
    refine ⟨⟨a, ha, i, hi, hai⟩, ?_⟩
    simp only [hh, if_true]
    cases rev <;> simp [List.map_reverse]
  · left
    refine ⟨?_, by simp only [hh]; rfl⟩
    intro x hx hlt
    cases hp : ns.confirm (m.byteAt x) with
    | false => rfl
    | true =>
      exfalso
      apply hh
      obtain ⟨a, ha, b1, b2⟩ := chunkAddrs_cover (V := V) hx hlt
      obtain ⟨i, hi, hai⟩ := chunkHit_of_hit (V := V) b1 b2 hp
      rw [hw]
      refine ⟨i, hi, ?_⟩
      rw [bvec_lane _ _ _ hi, List.any_eq_true]
      exact ⟨a, ha, hai⟩

theorem chunkHit_iff_hasNonZero (L : Lawful V) (ns : Needles) (m : Mem) (a : Nat) :
    V.hasNonZero (chunkMask V (chunkEqs V ns (m.window a V.bytes))) = true ↔
      ChunkHit V m ns.confirm a :=
  (chunkMask_rep L ns m a).hasNonZero_iff

theorem block_first (L : Lawful V) (ns : Needles) (u : Nat) (m : Mem) (cur : Nat) (c : Ctr)
    (h1 : m.base ≤ cur) (h2 : cur + u * V.bytes ≤ m.base + m.bytes.size)
    (h3 : V.alignedLoadChecks = true → cur % V.bytes = 0) :
    ∃ r c', block V ns u false m cur V.firstOffset c = .ok r c' ∧
      FirstRes m ns.confirm cur (cur + u * V.bytes) r := by
  obtain ⟨c', h | ⟨hhit, hrun⟩⟩ := block_run L ns u false m cur V.firstOffset c h1 h2 h3
  · exact ⟨none, c', h.2, h.1⟩
  · obtain ⟨pre, a, post, e, hpre, ha, hbh⟩ :=
      blockHit_gen (V := V) m "find_raw" cur V.firstOffset (fun a => chunkEqs V ns (m.window a V.bytes))
        (chunkAddrs V cur u)
        (by obtain ⟨a, ha, hc⟩ := hhit
            exact ⟨a, ha, (chunkHit_iff_hasNonZero L ns m a).mpr hc⟩)
    have hca := (chunkHit_iff_hasNonZero L ns m a).mp ha
    obtain ⟨k, hk, hlt, hfk, hmin⟩ := (chunkMask_rep L ns m a).firstOffset hca c'
    have hmem : a ∈ chunkAddrs V cur u := by rw [e]; simp
    obtain ⟨m1, m2, _⟩ := mem_chunkAddrs hmem
    have hpw := chunkAddrs_pairwise (V := V) cur u
    rw [e, List.pairwise_append] at hpw
    obtain ⟨_, hpw2, hpw3⟩ := hpw
    rw [List.pairwise_cons] at hpw2
    refine ⟨some (a + k), c', ?_, ?_⟩
    · rw [hrun]
      simp only [Bool.false_eq_true, if_false]
      rw [hbh]
      exact hitPtr_ok m _ cur a k _ _ c' hk h1 m1 (by omega)
    · refine ⟨by omega, by omega, hfk, ?_⟩
      intro x hx hxlt
      obtain ⟨b, hb, b1, b2⟩ := chunkAddrs_cover (V := V) (cur := cur) (u := u) hx (by omega)
      rw [e, List.mem_append, List.mem_cons] at hb
      rcases hb with hb | rfl | hb
      · have hn := fun hc => hpre b hb ((chunkHit_iff_hasNonZero L ns m b).mpr hc)
        exact noHit_of_not_chunkHit hn x b1 b2
      · have := hmin (x - b) (by omega)
        have e' : b + (x - b) = x := by omega
        simpa [hitF, e'] using this
      · have := hpw2.1 b hb
        omega

theorem block_last (L : Lawful V) (ns : Needles) (u : Nat) (m : Mem) (cur : Nat) (c : Ctr)
    (h1 : m.base ≤ cur) (h2 : cur + u * V.bytes ≤ m.base + m.bytes.size)
    (h3 : V.alignedLoadChecks = true → cur % V.bytes = 0) :
    ∃ r c', block V ns u true m cur V.lastOffset c = .ok r c' ∧
      LastRes m ns.confirm cur (cur + u * V.bytes) r := by
  obtain ⟨c', h | ⟨hhit, hrun⟩⟩ := block_run L ns u true m cur V.lastOffset c h1 h2 h3
  · exact ⟨none, c', h.2, h.1⟩
  · obtain ⟨pre, a, post, e, hpre, ha, hbh⟩ :=
      blockHit_gen (V := V) m "rfind_raw" cur V.lastOffset (fun a => chunkEqs V ns (m.window a V.bytes))
        (chunkAddrs V cur u).reverse
        (by obtain ⟨a, ha, hc⟩ := hhit
            exact ⟨a, List.mem_reverse.mpr ha, (chunkHit_iff_hasNonZero L ns m a).mpr hc⟩)
    have hca := (chunkHit_iff_hasNonZero L ns m a).mp ha
    obtain ⟨k, hk, hlt, hfk, hmax⟩ := (chunkMask_rep L ns m a).lastOffset hca c'
    have hmem : a ∈ chunkAddrs V cur u := by
      rw [← List.mem_reverse, e]; simp
    obtain ⟨m1, m2, _⟩ := mem_chunkAddrs hmem
    have hpw := chunkAddrs_pairwise (V := V) cur u
    rw [← List.reverse_reverse (chunkAddrs V cur u), List.pairwise_reverse, e,
      List.pairwise_append] at hpw
    obtain ⟨_, hpw2, hpw3⟩ := hpw
    rw [List.pairwise_cons] at hpw2
    refine ⟨some (a + k), c', ?_, ?_⟩
    · rw [hrun]
      simp only [if_true]
      rw [hbh]
      exact hitPtr_ok m _ cur a k _ _ c' hk h1 m1 (by omega)
    · refine ⟨by omega, by omega, hfk, ?_⟩
      intro x hx hxlt
      obtain ⟨b, hb, b1, b2⟩ := chunkAddrs_cover (V := V) (cur := cur) (u := u) (x := x)
        (by omega) hxlt
      rw [← List.mem_reverse, e, List.mem_append, List.mem_cons] at hb
      rcases hb with hb | rfl | hb
      · have hn := fun hc => hpre b hb ((chunkHit_iff_hasNonZero L ns m b).mpr hc)
        exact noHit_of_not_chunkHit hn x b1 b2
      · have := hmax (x - b) (by omega) (by omega)
        have e' : b + (x - b) = x := by omega
        simpa [hitF, e'] using this
      · have := hpw2.1 b hb
        omega

end Memchr.Generic
